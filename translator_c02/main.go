// Command translator_c02 re-reads <repo> (type-checked with go/types, constants evaluated with go/constant exactly as
// the compiler does) and emits Lean definitions, EXPRESSION BY EXPRESSION and STATEMENT BY STATEMENT, of
//
//   - r3/vector.go (Add Sub Mul Dot Cross Norm2 Cmp Abs Normalize LargestComponent Ortho), the exact vectors of
//     r3/precisevector.go, s2/predicates.go (Sign, triageSign, stableSign, exactSign, symbolicallyPerturbedSign,
//     expensiveSign, RobustSign, the distance comparisons, SignDotProd), OrderedCCW of s2/point.go   -> PredFns.lean  (C02)
//   - Ortho / referenceDir of s2/point.go (PointCross: see translator_c16), every method of s2/edge_crosser.go, CrossingSign,
//     VertexCrossing, EdgeOrVertexCrossing, AngleContainsVertex of s2/edge_crossings.go              -> CrossFns.lean (C03)
//
// into <out>.  lean/S2Proofs/Ties/C02_Pred.lean and C03_Cross.lean prove `hand-written model = generated definition`.
//
// Translation rules (uniform, not per function; anything not listed is a fatal error with file:line):
//
//	float64, s1.ChordAngle, s1.Angle -> S2.F64 (bit-exact soft float); conversions between them are the identity
//	r3.Vector, s2.Point, *s2.Point   -> S2.V3 ; p.Vector and Point{v} are the identity; v.X -> v.x
//	int, s2.Direction                -> Int ; r3.Axis -> Nat ; bool -> Bool
//	s2.Crossing                      -> Int through the named constants Crossing_Cross = 1, Crossing_MaybeCross = 0,
//	                                    Crossing_DoNotCross = -1 (the model's encoding; only == and switch are
//	                                    applied to Crossing values; the Go ordinals are emitted as Crossing_*_go)
//	*big.Float                       -> S2.BigF (exact: integer numerator over a power of 2^1074, lean/S2/BigF.lean);
//	                                    R.Mul(a,b) R.Sub(a,b) R.Add(a,b) -> BigF.mul/sub/add a b where R is a fresh
//	                                    big.Float (new(big.Float), newBigFloat(), …SetPrec(…)) or a local that is
//	                                    never read afterwards; x.Sign() -> BigF.sign x; fresh.SetFloat64(f) and
//	                                    big.NewFloat(f) -> BigF.ofF64 f; v.SetPrec(c) on a value -> v (raising the
//	                                    precision is exact).  Every SetPrec constant must be >= 2^16 and the receiver of
//	                                    every operation must have had its precision set (a receiver of precision 0 takes
//	                                    the precision of the operands and may round): otherwise fatal
//	r3.PreciseVector, *EdgeCrosser   -> Lean structures generated from the Go struct declarations
//	a + b, a - b, a * b, a / b       -> F64.add/sub/mul/div a b (floats); never re-associated.  On int only `*` and `++`
//	                                    (Go int wraps, the Lean Int does not: sums are fatal, products are of signs)
//	-x                               -> F64.neg x / -x ;  math.Sqrt, math.Abs -> F64.sqrt, F64.abs
//	float64(e) on a float            -> e (the explicit rounding that forbids FMA fusion); every product that is a
//	                                    direct operand of + or - WITHOUT such a conversion is counted in <fn>_fmaSites
//	a < b, a > b, a <= b, a >= b     -> F64.lt/gt/le/ge a b (floats), decide (a < b) … (Int)
//	a == b, a != b                   -> F64.feq a b, !F64.feq a b (floats); ==, != (Int, Bool); Vector_eq a b (structs of
//	                                    floats, field-wise conjunction in field order)
//	constant expressions             -> folded by go/types (exact untyped arithmetic, ONE rounding), maximal constant
//	                                    sub-expressions become <fn>_k<i> : F64 := ⟨bits⟩ in source order; Int literals
//	x := e / x = e / x op= e / x++   -> let x : T := e (shadowing); s.f = e -> let s := { s with f := e }
//	a, b = b, a                      -> let (a, b) := (b, a) ;  a, b := f(x) -> let (a, b) := f x
//	var x T                          -> nothing; a read before the first assignment reads the zero value of T
//	if/else-if/else, switch          -> if … then … else … ; when no branch returns: let (assigned vars) := if … then
//	                                    (…; (vars)) else (vars) and the rest follows once; when some branch returns the
//	                                    rest of the function is repeated in every branch that falls through
//	if v := e; cond { … }            -> let v : T := e in front of the translated if (first `if` of a chain only, `:=` only);
//	                                    fatal if the name v denotes anything else anywhere in the function (the Lean
//	                                    let outlives the Go scope)
//	return e1, e2                    -> (e1, e2)
//	x := … inside a branch           -> fatal if the name x is declared anywhere else in the function (the rest of the
//	                                    function is translated inside the branch: Go shadowing would capture it)
//	methods on *EdgeCrosser          -> state passing: the receiver is the first argument and the new state is the first
//	                                    component of the result; a call is hoisted to `let (e, r) := m e args` in front of
//	                                    the statement (fatal: under && / ||, in else-if / case conditions, two such calls
//	                                    in one expression, or an expression that also reads the state; a second name for
//	                                    the same *EdgeCrosser; the state passed as an ordinary argument)
//	defer func() { … }()             -> the statements of the closure are executed after the operands of every return
//	                                    have been evaluated, on the variables as they are at that point (first statement
//	                                    of the body only; fatal with named results)
//	pa := &a                         -> let pa := a, only if a is never assigned in the function and nothing is stored
//	                                    through a pointer
//	package-level var                -> var_<name> := initialiser (fatal if the var is assigned anywhere in the package)
//
// Output is a pure function of the source tree (fixed orders, no maps iterated).
//
// usage: translator_c02 -repo /repo -out lean/S2/Generated [-facts facts.json]
package main

import (
	"bytes"
	"encoding/json"
	"flag"
	"fmt"
	"go/importer"
	"go/token"
	"go/types"
	"os"
	"path/filepath"
	"strings"
)

// ---------------------------------------------------------------- the functions to translate (emission order)

type fnSpec struct {
	pkg  string // import path suffix: r3, s1, s2
	key  string // Name or Recv.Name
	lean string
	file int // 0 PredFns, 1 CrossFns
	obj  *types.Func
	done bool
}

var fileNames = []string{"PredFns", "CrossFns"}

var specs = []*fnSpec{
	// r3/vector.go
	{pkg: "r3", key: "Vector.Add", lean: "Vector_Add"},
	{pkg: "r3", key: "Vector.Sub", lean: "Vector_Sub"},
	{pkg: "r3", key: "Vector.Mul", lean: "Vector_Mul"},
	{pkg: "r3", key: "Vector.Dot", lean: "Vector_Dot"},
	{pkg: "r3", key: "Vector.Cross", lean: "Vector_Cross"},
	{pkg: "r3", key: "Vector.Norm2", lean: "Vector_Norm2"},
	{pkg: "r3", key: "Vector.Cmp", lean: "Vector_Cmp"},
	// r3/precisevector.go
	{pkg: "r3", key: "precFloat", lean: "precFloat"},
	{pkg: "r3", key: "precAdd", lean: "precAdd"},
	{pkg: "r3", key: "precSub", lean: "precSub"},
	{pkg: "r3", key: "precMul", lean: "precMul"},
	{pkg: "r3", key: "NewPreciseVector", lean: "NewPreciseVector"},
	{pkg: "r3", key: "PreciseVectorFromVector", lean: "PreciseVectorFromVector"},
	{pkg: "r3", key: "PreciseVector.Dot", lean: "PreciseVector_Dot"},
	{pkg: "r3", key: "PreciseVector.Cross", lean: "PreciseVector_Cross"},
	{pkg: "r3", key: "PreciseVector.Norm2", lean: "PreciseVector_Norm2"},
	// s1/chordangle.go (initialiser of ca45Degrees)
	{pkg: "s1", key: "ChordAngleFromSquaredLength", lean: "ChordAngleFromSquaredLength"},
	// s2/predicates.go
	{pkg: "s2", key: "Sign", lean: "Sign"},
	{pkg: "s2", key: "triageSign", lean: "triageSign"},
	{pkg: "s2", key: "stableSign", lean: "stableSign"},
	{pkg: "s2", key: "symbolicallyPerturbedSign", lean: "symbolicallyPerturbedSign"},
	{pkg: "s2", key: "exactSign", lean: "exactSign"},
	{pkg: "s2", key: "expensiveSign", lean: "expensiveSign"},
	{pkg: "s2", key: "RobustSign", lean: "RobustSign"},
	{pkg: "s2", key: "OrderedCCW", lean: "OrderedCCW"},
	{pkg: "s2", key: "cosDistance", lean: "cosDistance"},
	{pkg: "s2", key: "sin2Distance", lean: "sin2Distance"},
	{pkg: "s2", key: "triageCompareCosDistances", lean: "triageCompareCosDistances"},
	{pkg: "s2", key: "triageCompareSin2Distances", lean: "triageCompareSin2Distances"},
	{pkg: "s2", key: "exactCompareDistances", lean: "exactCompareDistances"},
	{pkg: "s2", key: "symbolicCompareDistances", lean: "symbolicCompareDistances"},
	{pkg: "s2", key: "CompareDistances", lean: "CompareDistances"},
	{pkg: "s2", key: "triageCompareCosDistance", lean: "triageCompareCosDistance"},
	{pkg: "s2", key: "triageCompareSin2Distance", lean: "triageCompareSin2Distance"},
	{pkg: "s2", key: "exactCompareDistance", lean: "exactCompareDistance"},
	{pkg: "s2", key: "CompareDistance", lean: "CompareDistance"},
	{pkg: "s2", key: "triageSignDotProd", lean: "triageSignDotProd"},
	{pkg: "s2", key: "SignDotProd", lean: "SignDotProd"},
	// ---- CrossFns
	{pkg: "r3", key: "Vector.Abs", lean: "Vector_Abs", file: 1},
	{pkg: "r3", key: "Vector.Normalize", lean: "Vector_Normalize", file: 1},
	{pkg: "r3", key: "Vector.LargestComponent", lean: "Vector_LargestComponent", file: 1},
	{pkg: "r3", key: "Vector.Ortho", lean: "Vector_Ortho", file: 1},
	{pkg: "s2", key: "Ortho", lean: "Ortho", file: 1},
	{pkg: "s2", key: "Point.referenceDir", lean: "Point_referenceDir", file: 1},
	// Point.PointCross is NOT translated here any more (repair D60: its exact fallback needs big.Float -> float64
	// conversion with signed zeros, which S2.BigF does not carry); translator_c16 translates it (EdgeNumFns.Point_PointCross)
	// and Ties/C03_Cross.tie_PointCross ties the C03 hand model to that text.
	{pkg: "s2", key: "NewEdgeCrosser", lean: "NewEdgeCrosser", file: 1},
	{pkg: "s2", key: "EdgeCrosser.RestartAt", lean: "EdgeCrosser_RestartAt", file: 1},
	{pkg: "s2", key: "EdgeCrosser.crossingSign", lean: "EdgeCrosser_crossingSign", file: 1},
	{pkg: "s2", key: "EdgeCrosser.ChainCrossingSign", lean: "EdgeCrosser_ChainCrossingSign", file: 1},
	{pkg: "s2", key: "EdgeCrosser.CrossingSign", lean: "EdgeCrosser_CrossingSign", file: 1},
	{pkg: "s2", key: "NewChainEdgeCrosser", lean: "NewChainEdgeCrosser", file: 1},
	{pkg: "s2", key: "CrossingSign", lean: "CrossingSign", file: 1},
	{pkg: "s2", key: "VertexCrossing", lean: "VertexCrossing", file: 1},
	{pkg: "s2", key: "EdgeCrosser.EdgeOrVertexChainCrossing", lean: "EdgeCrosser_EdgeOrVertexChainCrossing", file: 1},
	{pkg: "s2", key: "EdgeCrosser.EdgeOrVertexCrossing", lean: "EdgeCrosser_EdgeOrVertexCrossing", file: 1},
	{pkg: "s2", key: "EdgeOrVertexCrossing", lean: "EdgeOrVertexCrossing", file: 1},
	{pkg: "s2", key: "AngleContainsVertex", lean: "AngleContainsVertex", file: 1},
}

// ---------------------------------------------------------------- kinds

type kind int

const (
	kBad kind = iota
	kF64
	kInt
	kNat
	kBool
	kV3
	kPV
	kBig
	kState
	kCrossing
)

func kindOf(t types.Type) kind {
	switch typeKey(t) {
	case "float64", "untyped float", "s1.ChordAngle", "s1.Angle":
		return kF64
	case "int", "untyped int", "s2.Direction":
		return kInt
	case "s2.Crossing":
		return kCrossing
	case "r3.Axis":
		return kNat
	case "bool", "untyped bool":
		return kBool
	case "r3.Vector", "s2.Point", "*s2.Point":
		return kV3
	case "r3.PreciseVector":
		return kPV
	case "*big.Float":
		return kBig
	case "*s2.EdgeCrosser":
		return kState
	}
	return kBad
}

func leanTy(k kind) string {
	switch k {
	case kF64:
		return "F64"
	case kInt, kCrossing:
		return "Int"
	case kNat:
		return "Nat"
	case kBool:
		return "Bool"
	case kV3:
		return "V3"
	case kPV:
		return "PreciseVector"
	case kBig:
		return "BigF"
	case kState:
		return "EdgeCrosser"
	}
	return "?"
}

const f64zero = "(⟨0x0000000000000000⟩ : F64)"

func zeroOf(k kind) string {
	switch k {
	case kF64:
		return f64zero
	case kInt, kCrossing:
		return "(0 : Int)"
	case kNat:
		return "(0 : Nat)"
	case kBool:
		return "false"
	case kV3:
		return "(V3.mk " + f64zero + " " + f64zero + " " + f64zero + ")"
	}
	return ""
}

// ---------------------------------------------------------------- generator

type pkgVar struct {
	file int
	lean string
}

type gen struct {
	ld      *loader
	pkgs    map[string]*pkgInfo
	reg     map[*types.Func]*fnSpec
	bufs    []*bytes.Buffer
	facts   []fact
	vars    map[types.Object]*pkgVar
	varList []types.Object
	minPrec uint64
}

func (g *gen) pkgOf(o types.Object) *pkgInfo {
	if o.Pkg() == nil {
		return nil
	}
	return g.ld.pk[o.Pkg().Path()]
}

func (g *gen) qual(from, file int, name string) string {
	if from == file {
		return name
	}
	if from < file {
		die("internal: %s lives in %s which is generated after %s", name, fileNames[file], fileNames[from])
	}
	return fileNames[file] + "." + name
}

// checkCarriers verifies that the Go declarations still have the shape of the hand-written carrier S2.V3.
func (g *gen) checkCarriers() {
	r3 := g.pkgs["r3"]
	o := r3.pkg.Scope().Lookup("Vector")
	st, ok := o.Type().Underlying().(*types.Struct)
	if !ok || st.NumFields() != 3 {
		fatal(o.Pos(), "r3.Vector is no longer a struct of three fields")
	}
	for i, n := range []string{"X", "Y", "Z"} {
		if st.Field(i).Name() != n || typeKey(st.Field(i).Type()) != "float64" {
			fatal(st.Field(i).Pos(), "field %d of r3.Vector is `%s %s`, the carrier S2.V3 expects `%s float64`", i, st.Field(i).Name(), st.Field(i).Type(), n)
		}
	}
	s2 := g.pkgs["s2"]
	p := s2.pkg.Scope().Lookup("Point")
	pt, ok := p.Type().Underlying().(*types.Struct)
	if !ok || pt.NumFields() != 1 || !pt.Field(0).Embedded() || typeKey(pt.Field(0).Type()) != "r3.Vector" {
		fatal(p.Pos(), "s2.Point is no longer struct{ r3.Vector }")
	}
	g.facts = append(g.facts, fact{Name: "r3.Vector", Kind: "struct", Pos: relline(o.Pos()), Lean: "S2.V3", Sha256: sha("X float64;Y float64;Z float64")})
	g.facts = append(g.facts, fact{Name: "s2.Point", Kind: "struct", Pos: relline(p.Pos()), Lean: "S2.V3", Sha256: sha("r3.Vector")})
}

// emitStruct writes a Lean structure with the fields of the Go struct, in order.
func (g *gen) emitStruct(file int, pk, name, lean string, lower bool) {
	o := g.pkgs[pk].pkg.Scope().Lookup(name)
	if o == nil {
		die("type %s.%s not found", pk, name)
	}
	st, ok := o.Type().Underlying().(*types.Struct)
	if !ok {
		fatal(o.Pos(), "%s.%s is no longer a struct", pk, name)
	}
	b := g.bufs[file]
	fmt.Fprintf(b, "/-- %s: `type %s struct` (fields in declaration order) -/\nstructure %s where\n", relline(o.Pos()), name, lean)
	var fs []string
	for i := 0; i < st.NumFields(); i++ {
		f := st.Field(i)
		k := kindOf(f.Type())
		if k == kBad || k == kState {
			fatal(f.Pos(), "field %s of %s.%s has type %s outside the translated subset", f.Name(), pk, name, f.Type())
		}
		fn := f.Name()
		if lower {
			fn = lowerFirst(fn)
		}
		fmt.Fprintf(b, "  %s : %s\n", leanLocal(fn), leanTy(k))
		fs = append(fs, f.Name()+" "+typeKey(f.Type()))
	}
	fmt.Fprintf(b, "deriving DecidableEq, Inhabited\n\n")
	g.facts = append(g.facts, fact{Name: pk + "." + name, Kind: "struct", Pos: relline(o.Pos()), Lean: lean, Sha256: sha(strings.Join(fs, ";"))})
}

func (g *gen) emitVectorEq() {
	b := g.bufs[0]
	fmt.Fprintf(b, "/-- Go `==` on r3.Vector / s2.Point: field-wise IEEE equality in field order -/\n")
	fmt.Fprintf(b, "def Vector_eq (a : V3) (b : V3) : Bool :=\n  ((F64.feq a.x b.x && F64.feq a.y b.y) && F64.feq a.z b.z)\n\n")
}

func (g *gen) emitCrossingConsts() {
	pi := g.pkgs["s2"]
	b := g.bufs[1]
	enc := map[string]string{"Cross": "1", "MaybeCross": "0", "DoNotCross": "-1"}
	fmt.Fprintf(b, "/-! ### `type Crossing int`: symbolic constants (model encoding) and the Go ordinals -/\n\n")
	seen := map[string]bool{}
	for _, n := range []string{"Cross", "MaybeCross", "DoNotCross"} {
		o, ok := pi.pkg.Scope().Lookup(n).(*types.Const)
		if !ok || typeKey(o.Type()) != "s2.Crossing" {
			die("constant s2.%s of type Crossing not found", n)
		}
		v := o.Val().ExactString()
		if seen[v] {
			fatal(o.Pos(), "two Crossing constants have the same value %s", v)
		}
		seen[v] = true
		fmt.Fprintf(b, "/-- %s: `%s` -/\ndef Crossing_%s : Int := %s\ndef Crossing_%s_go : Int := %s\n\n", relline(o.Pos()), n, n, enc[n], n, v)
	}
	// no further constant of type Crossing may exist
	for _, n := range pi.pkg.Scope().Names() {
		if c, ok := pi.pkg.Scope().Lookup(n).(*types.Const); ok && typeKey(c.Type()) == "s2.Crossing" && enc[n] == "" {
			fatal(c.Pos(), "unexpected constant %s of type Crossing", n)
		}
	}
}

func (g *gen) crossingName(p token.Pos, val string) string {
	pi := g.pkgs["s2"]
	for _, n := range []string{"Cross", "MaybeCross", "DoNotCross"} {
		if pi.pkg.Scope().Lookup(n).(*types.Const).Val().ExactString() == val {
			return n
		}
	}
	fatal(p, "Crossing value %s is not one of the named constants", val)
	return ""
}

func header(name, what string) string {
	return fmt.Sprintf("/-\n  GENERATED by %s from %s — do not edit.\n  Regenerated on every run of ./check; translation rules: header comment of %s/main.go.\n-/\n", tool, what, tool)
}

func main() {
	repo := flag.String("repo", "/repo", "golang/geo checkout")
	outDir := flag.String("out", "", "output directory (lean/S2/Generated)")
	factsPath := flag.String("facts", "", "facts.json to write")
	flag.Parse()
	if *outDir == "" {
		fmt.Fprintln(os.Stderr, "need -out")
		os.Exit(2)
	}
	abs, err := filepath.Abs(*repo)
	if err != nil {
		die("%v", err)
	}
	repoRoot = abs
	ld := &loader{fset: fset, repo: abs, std: importer.ForCompiler(fset, "source", nil), pk: map[string]*pkgInfo{}}
	g := &gen{ld: ld, pkgs: map[string]*pkgInfo{}, reg: map[*types.Func]*fnSpec{}, vars: map[types.Object]*pkgVar{}}
	for _, p := range []string{"r3", "s1", "s2"} {
		pi, err := ld.load(modPrefix + p)
		if err != nil {
			die("loading %s: %v", p, err)
		}
		g.pkgs[p] = pi
	}
	for _, s := range specs {
		pi := g.pkgs[s.pkg]
		fd := findFunc(pi, s.key)
		s.obj = pi.info.Defs[fd.Name].(*types.Func)
		g.reg[s.obj] = s
	}
	g.bufs = []*bytes.Buffer{{}, {}}
	g.checkCarriers()

	b := g.bufs[0]
	b.WriteString(header("PredFns", "r3/vector.go, r3/precisevector.go, s1/chordangle.go, s2/predicates.go, s2/point.go"))
	b.WriteString("import S2.F64\nimport S2.STUV\nimport S2.BigF\nset_option linter.unusedVariables false\nnamespace S2.Generated.PredFns\nopen S2\n\n")
	g.emitVectorEq()
	g.emitStruct(0, "r3", "PreciseVector", "PreciseVector", true)
	b = g.bufs[1]
	b.WriteString(header("CrossFns", "r3/vector.go, s2/point.go, s2/edge_crosser.go, s2/edge_crossings.go"))
	b.WriteString("import S2.F64\nimport S2.STUV\nimport S2.BigF\nimport S2.Generated.PredFns\nset_option linter.unusedVariables false\nnamespace S2.Generated.CrossFns\nopen S2 S2.Generated\n\n")
	g.emitCrossingConsts()
	g.emitStruct(1, "s2", "EdgeCrosser", "EdgeCrosser", false)

	for _, s := range specs {
		g.emitFunc(s)
	}
	fmt.Fprintf(g.bufs[0], "/-- the smallest precision given to any big.Float of the translated functions (`SetPrec` constants; the translator\n    refuses anything below %d, and operations whose receiver has no explicit precision) -/\ndef bigPrec_min : Nat := %d\n\n", minBigPrec, g.minPrec)
	g.bufs[0].WriteString("end S2.Generated.PredFns\n")
	g.bufs[1].WriteString("end S2.Generated.CrossFns\n")

	if err := os.MkdirAll(*outDir, 0o755); err != nil {
		die("%v", err)
	}
	type fileFact struct {
		File   string `json:"file"`
		Sha256 string `json:"sha256"`
	}
	var ff []fileFact
	for i, n := range fileNames {
		txt := g.bufs[i].String()
		if err := os.WriteFile(filepath.Join(*outDir, n+".lean"), []byte(txt), 0o644); err != nil {
			die("%v", err)
		}
		ff = append(ff, fileFact{n + ".lean", sha(txt)})
	}
	if *factsPath != "" {
		js, _ := json.MarshalIndent(map[string]interface{}{"translator": tool, "files": ff, "items": g.facts}, "", " ")
		if err := os.WriteFile(*factsPath, append(js, '\n'), 0o644); err != nil {
			die("%v", err)
		}
	}
	fmt.Printf("%s: %d items translated into %d files\n", tool, len(g.facts), len(fileNames))
}
