#!/usr/bin/env python3
"""Mutation self-test of translator_c02.

For every entry of muts.json: apply ONE textual edit to a scratch copy of the repo, check that the mutated packages
still compile (`go build`), run the translator on the copy, install the regenerated files into a SCRATCH copy of the
verification tree and build the tie modules.  Expected outcome of every entry: the translator fails loudly, or a tie
theorem no longer builds.  Entries marked "expect":"equivalent" are rewrites that do not change the translated term
(renamed local, added parentheses, comments) and must NOT break anything.

usage: run.py --verif <scratch copy of /verif> [--repo /repo] [--work /tmp/tr02_selftest] [ids...]
The scratch copy is modified (lean/S2/Generated/{PredFns,CrossFns}.lean) and restored at the end; never point --verif
at /verif itself.  The scratch repo copy is removed at the end.
"""
import argparse, json, os, re, shutil, subprocess, sys, time
ap = argparse.ArgumentParser()
ap.add_argument("--verif", required=True)
ap.add_argument("--repo", default="/repo")
ap.add_argument("--work", default="/tmp/tr02_selftest")
ap.add_argument("--out", default=None, help="results file (default: selftest/results.txt next to this script)")
ap.add_argument("ids", nargs="*")
A = ap.parse_args()
VERIF = os.path.realpath(A.verif)
assert VERIF != "/verif", "use a scratch copy"
LEAN = VERIF + "/lean"
GEN = LEAN + "/S2/Generated"
WORK = A.work
MREPO = WORK + "/mrepo"
ENV = dict(os.environ, GOFLAGS="-mod=mod", GOPROXY="off", GOSUMDB="off", GOTOOLCHAIN="local")
TIES = ["S2Proofs.Ties.C02_Pred", "S2Proofs.Ties.C03_Cross"]
HERE = os.path.dirname(os.path.abspath(__file__))
MUTS = json.load(open(HERE + "/muts.json"))

def sh(cmd, cwd=None):
    p = subprocess.run(cmd, cwd=cwd, env=ENV, stdout=subprocess.PIPE, stderr=subprocess.STDOUT, text=True)
    return p.returncode, p.stdout

os.makedirs(WORK, exist_ok=True)
rc, o = sh(["go", "build", "-o", WORK + "/tr", "."], cwd=os.path.dirname(HERE))
assert rc == 0, o

def regen(repo):
    out = WORK + "/out"
    shutil.rmtree(out, ignore_errors=True); os.makedirs(out)
    rc, o = sh([WORK + "/tr", "-repo", repo, "-out", out, "-facts", WORK + "/facts.json"], cwd="/tmp")
    return rc, o, out

def install(out):
    for f in os.listdir(out):
        new = open(os.path.join(out, f), "rb").read()
        dst = os.path.join(GEN, f)
        if not os.path.exists(dst) or open(dst, "rb").read() != new:
            open(dst, "wb").write(new)

def build():
    rc, o = sh(["lake", "build"] + TIES, cwd=LEAN)
    errs = re.findall(r"error: (S2\S+\.lean):(\d+):", o)
    names = []
    for f, ln in errs:
        lines = open(os.path.join(LEAN, f)).read().split("\n")
        i = int(ln) - 1
        while i >= 0 and not re.match(r"^(private )?(theorem|example|def)\b", lines[i]):
            i -= 1
        nm = lines[i].split(":")[0].split("(")[0].strip() if i >= 0 else "?"
        names.append(f"{os.path.basename(f)}:{nm}")
    return rc, sorted(set(names)), o

shutil.rmtree(MREPO, ignore_errors=True)
shutil.copytree(A.repo, MREPO, ignore=shutil.ignore_patterns(".git"))
lines_out = []
def emit(s):
    print(s, flush=True); lines_out.append(s)

bad = 0
t0 = time.time()
for m in MUTS:
    if A.ids and m["id"] not in A.ids:
        continue
    path = os.path.join(MREPO, m["file"])
    s = open(path).read()
    if s.count(m["old"]) != 1:
        emit(f'{m["id"]}: pattern occurs {s.count(m["old"])} times - SKIPPED'); bad += 1; continue
    s2 = s.replace(m["old"], m["new"])
    for o2, n2 in m.get("also", []):
        assert s2.count(o2) == 1, (m["id"], o2)
        s2 = s2.replace(o2, n2)
    open(path, "w").write(s2)
    try:
        rc, o = sh(["go", "build", "./r3/", "./s1/", "./s2/"], cwd=MREPO)
        if rc != 0:
            emit(f'{m["id"]}: mutated source does not compile - INVALID MUTATION: ' + o.strip().split("\n")[-1]); bad += 1; continue
        rc, o, out = regen(MREPO)
        if rc != 0:
            res = "TRANSLATOR FAILED LOUDLY: " + o.strip().split("\n")[-1]
            detected = True
        else:
            install(out)
            rc, names, o = build()
            detected = rc != 0
            res = ("BUILD BROKEN: " + ", ".join(names)) if rc != 0 else "not detected"
        want = m.get("expect", "detected") == "detected"
        verdict = "ok" if detected == want else "UNEXPECTED"
        if detected != want:
            bad += 1
        show = lambda t: " ".join(t.split())
        tag = "" if want else " (equivalent rewrite: must not break)"
        emit(f'{m["id"]} [{verdict}]{tag} {m["file"]}: `{show(m["old"])}` -> `{show(m["new"])}`  ==> {res}')
    finally:
        open(path, "w").write(s)
# restore
rc, o, out = regen(A.repo)
assert rc == 0, o
install(out)
rc, names, o = build()
emit("restored unchanged tree: build " + ("ok" if rc == 0 else "FAILED " + o[-2000:]))
emit(f"mutations run: {len([l for l in lines_out if '] ' in l])}, unexpected outcomes: {bad}, {time.time()-t0:.0f} s")
shutil.rmtree(MREPO, ignore_errors=True)
if not A.ids:
    open(A.out or (HERE + "/results.txt"), "w").write("\n".join(lines_out) + "\n")
sys.exit(1 if bad or rc != 0 else 0)
