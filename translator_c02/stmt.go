package main

import (
	"fmt"
	"go/ast"
	"go/token"
	"go/types"
	"regexp"
	"strings"
)

func ind(n int) string { return strings.Repeat("  ", n) }

type cont func(n int) []string

// flush emits the hoisted state-method calls of the expression just translated.  Go orders function calls lexically
// but NOT the reads of variables relative to them, so at most one hoisted call per expression is accepted and the
// rest of the expression must not read the state (checkHoist).
func (t *tr) flush(n int, residual ...string) []string {
	if len(t.pre) > 1 {
		fatal(t.prePos, "two state-changing method calls in one expression")
	}
	if len(t.pre) == 1 {
		re := regexp.MustCompile(`(^|[^A-Za-z0-9_'.])` + regexp.QuoteMeta(t.preState) + `($|[^A-Za-z0-9_'])`)
		for _, r := range residual {
			if re.MatchString(r) {
				fatal(t.prePos, "the expression calls a state-changing method and also reads the state `%s` (order of evaluation unspecified in Go)", t.preState)
			}
		}
	}
	var out []string
	for _, l := range t.pre {
		out = append(out, ind(n)+l)
	}
	t.pre = nil
	return out
}

func (t *tr) checkFresh(p token.Pos, s string) string {
	if strings.Contains(s, fresh) {
		fatal(p, "a fresh big.Float is used as a value")
	}
	return s
}

func containsReturn(n ast.Node) bool {
	found := false
	ast.Inspect(n, func(m ast.Node) bool {
		switch m.(type) {
		case *ast.FuncLit:
			return false
		case *ast.ReturnStmt:
			found = true
		}
		return true
	})
	return found
}

func (t *tr) copyUnbound() map[types.Object]bool {
	m := map[types.Object]bool{}
	for k, v := range t.unbound {
		m[k] = v
	}
	return m
}

// finalValue builds the value of the function from the Go results (state first).
func (t *tr) finalValue(vals []string) string {
	all := vals
	if t.stateVar != "" {
		all = append([]string{t.stateVar}, vals...)
	}
	if len(all) == 1 {
		return all[0]
	}
	return "(" + strings.Join(all, ", ") + ")"
}

func (t *tr) ret(p token.Pos, vals []string, n int) []string {
	if len(t.deferred) == 0 || t.inDefer {
		return []string{ind(n) + t.finalValue(vals)}
	}
	// operands first, then the deferred closure
	var out []string
	var names []string
	for i, v := range vals {
		nm := fmt.Sprintf("ret%d'", i)
		out = append(out, fmt.Sprintf("%slet %s : %s := %s", ind(n), nm, leanTy(t.results[i]), v))
		names = append(names, nm)
	}
	t.inDefer = true
	out = append(out, t.block(t.deferred, n, func(m int) []string { return []string{ind(m) + t.finalValue(names)} })...)
	t.inDefer = false
	return out
}

func (t *tr) block(stmts []ast.Stmt, n int, k cont) []string {
	if len(stmts) == 0 {
		return k(n)
	}
	s := stmts[0]
	rest := func(m int) []string { return t.block(stmts[1:], m, k) }
	switch x := s.(type) {
	case *ast.ReturnStmt:
		if len(stmts) > 1 {
			fatal(stmts[1].Pos(), "statement after return")
		}
		if t.inDefer {
			fatal(x.Pos(), "return inside a deferred closure")
		}
		var vals []string
		if len(x.Results) == 0 && len(t.results) > 0 {
			fatal(x.Pos(), "bare return with named results")
		}
		for _, r := range x.Results {
			vals = append(vals, t.checkFresh(r.Pos(), t.expr(r)))
		}
		if len(vals) != len(t.results) {
			fatal(x.Pos(), "return of a multi-valued call")
		}
		out := t.flush(n, vals...)
		return append(out, t.ret(x.Pos(), vals, n)...)
	case *ast.BlockStmt:
		return t.block(append(append([]ast.Stmt{}, x.List...), stmts[1:]...), n, k)
	case *ast.EmptyStmt:
		return rest(n)
	case *ast.DeferStmt:
		fatal(x.Pos(), "defer is translated only as the first statement of a function body")
	case *ast.DeclStmt:
		gd, ok := x.Decl.(*ast.GenDecl)
		if ok && gd.Tok == token.CONST {
			return rest(n) // local constants are folded by go/types at their uses
		}
		if !ok || gd.Tok != token.VAR {
			fatal(x.Pos(), "local declaration outside the translated subset")
		}
		var out []string
		for _, sp := range gd.Specs {
			vs := sp.(*ast.ValueSpec)
			if len(vs.Values) == 0 {
				for _, id := range vs.Names {
					o := t.pi.info.Defs[id]
					if zeroOf(kindOf(o.Type())) == "" {
						fatal(id.Pos(), "`var %s %s` has no translated zero value", id.Name, o.Type())
					}
					t.unbound[o] = true
				}
				continue
			}
			if len(vs.Values) != len(vs.Names) {
				fatal(vs.Pos(), "var declaration from a multi-valued call")
			}
			for i, id := range vs.Names {
				v := t.checkFresh(vs.Pos(), t.expr(vs.Values[i]))
				out = append(out, t.flush(n, v)...)
				out = append(out, fmt.Sprintf("%slet %s : %s := %s", ind(n), leanLocal(id.Name), leanTy(kindOf(t.pi.info.Defs[id].Type())), v))
			}
		}
		return append(out, rest(n)...)
	case *ast.ExprStmt:
		c, ok := unparen(x.X).(*ast.CallExpr)
		if !ok {
			fatal(x.Pos(), "expression statement outside the translated subset")
		}
		v := t.expr(c)
		if v != "" || len(t.pre) == 0 {
			fatal(x.Pos(), "call statement `%s` has no translated effect", oneLine(x))
		}
		return append(t.flush(n), rest(n)...)
	case *ast.IncDecStmt:
		id, ok := unparen(x.X).(*ast.Ident)
		if !ok || t.kind(x.X) != kInt {
			fatal(x.Pos(), "++/-- outside the translated subset")
		}
		op := "+"
		if x.Tok == token.DEC {
			op = "-"
		}
		cur := t.expr(id)
		delete(t.unbound, t.obj(id))
		line := fmt.Sprintf("%slet %s : Int := (%s %s (1 : Int))", ind(n), leanLocal(id.Name), cur, op)
		return append([]string{line}, rest(n)...)
	case *ast.AssignStmt:
		out := t.assign(x, n)
		return append(out, rest(n)...)
	case *ast.IfStmt:
		var conds []string
		var bodies [][]ast.Stmt
		var pre []string
		cur := x
		if x.Init != nil {
			// if v := e; cond { … }: the init statement is executed in front of the if.  v then stays visible to
			// the Lean continuation (it is not in Go), hence checkInitScope.
			as, ok := x.Init.(*ast.AssignStmt)
			if !ok || as.Tok != token.DEFINE {
				fatal(x.Init.Pos(), "if with an init statement that is not a `:=` definition")
			}
			t.checkInitScope(as)
			pre = append(pre, t.assign(as, n)...)
		}
		for {
			if cur.Init != nil && cur != x {
				fatal(cur.Pos(), "else-if with an init statement")
			}
			if len(conds) > 0 {
				t.noHoist++
			}
			c := t.expr(cur.Cond)
			if len(conds) > 0 {
				t.noHoist--
			}
			pre = append(pre, t.flush(n, c)...)
			conds = append(conds, c)
			bodies = append(bodies, cur.Body.List)
			if cur.Else == nil {
				bodies = append(bodies, nil)
				break
			}
			if ei, ok := cur.Else.(*ast.IfStmt); ok {
				cur = ei
				continue
			}
			bodies = append(bodies, cur.Else.(*ast.BlockStmt).List)
			break
		}
		return append(pre, t.branching(x, conds, bodies, n, rest)...)
	case *ast.SwitchStmt:
		if x.Init != nil {
			fatal(x.Pos(), "switch with an init statement")
		}
		var pre []string
		tag := ""
		var tk kind
		if x.Tag != nil {
			tk = t.kind(x.Tag)
			if tk != kInt && tk != kNat && tk != kCrossing {
				fatal(x.Tag.Pos(), "switch on a value of type %s", t.tv(x.Tag).Type)
			}
			tag = t.expr(x.Tag)
			pre = append(pre, t.flush(n, tag)...)
			if !simpleRe.MatchString(tag) {
				t.tmp++
				nm := fmt.Sprintf("sw%d'", t.tmp)
				pre = append(pre, fmt.Sprintf("%slet %s : %s := %s", ind(n), nm, leanTy(tk), tag))
				tag = nm
			}
		}
		var conds []string
		var bodies [][]ast.Stmt
		var def []ast.Stmt
		for i, cs := range x.Body.List {
			cc := cs.(*ast.CaseClause)
			for _, b := range cc.Body {
				if br, ok := b.(*ast.BranchStmt); ok {
					fatal(br.Pos(), "%s inside switch", br.Tok)
				}
			}
			if cc.List == nil {
				if i != len(x.Body.List)-1 {
					fatal(cc.Pos(), "default clause is not the last clause")
				}
				def = cc.Body
				continue
			}
			var alts []string
			t.noHoist++
			for _, e := range cc.List {
				if x.Tag != nil {
					if t.kind(e) != tk {
						fatal(e.Pos(), "case value of another type than the tag")
					}
					alts = append(alts, "("+tag+" == "+t.expr(e)+")")
				} else {
					alts = append(alts, t.expr(e))
				}
			}
			t.noHoist--
			c := alts[0]
			for _, a := range alts[1:] {
				c = "(" + c + " || " + a + ")"
			}
			conds = append(conds, c)
			bodies = append(bodies, cc.Body)
		}
		bodies = append(bodies, def)
		if len(conds) == 0 {
			fatal(x.Pos(), "switch without case clauses")
		}
		return append(pre, t.branching(x, conds, bodies, n, rest)...)
	}
	fatal(s.Pos(), "statement `%s` (%T) is outside the translated subset", oneLine(s), s)
	return nil
}

// assignedOuter: variables declared outside node and assigned inside it (source order), the state variable included
// when one of its fields is assigned or one of its methods is called.
func (t *tr) assignedOuter(node ast.Node) []*types.Var {
	var out []*types.Var
	seen := map[types.Object]bool{}
	add := func(id *ast.Ident) {
		if id.Name == "_" {
			return
		}
		o := t.pi.info.Uses[id]
		if o == nil {
			return // declared here
		}
		v, ok := o.(*types.Var)
		if !ok {
			return
		}
		if v.Pos() >= node.Pos() && v.Pos() < node.End() {
			return
		}
		if v.Parent() == v.Pkg().Scope() {
			fatal(id.Pos(), "assignment to package-level variable %s", id.Name)
		}
		if !seen[o] {
			seen[o] = true
			out = append(out, v)
		}
	}
	ast.Inspect(node, func(m ast.Node) bool {
		switch s := m.(type) {
		case *ast.FuncLit:
			fatal(s.Pos(), "function literal")
		case *ast.AssignStmt:
			for _, l := range s.Lhs {
				switch le := unparen(l).(type) {
				case *ast.Ident:
					add(le)
				case *ast.SelectorExpr:
					if id, ok := unparen(le.X).(*ast.Ident); ok {
						add(id)
					} else {
						fatal(l.Pos(), "assignment target `%s`", oneLine(l))
					}
				default:
					fatal(l.Pos(), "assignment target `%s`", oneLine(l))
				}
			}
		case *ast.IncDecStmt:
			if id, ok := unparen(s.X).(*ast.Ident); ok {
				add(id)
			}
		case *ast.CallExpr:
			if fn, recv := t.callee(s); fn != nil && recv != nil {
				if sig := fn.Type().(*types.Signature); kindOf(sig.Recv().Type()) == kState {
					if id, ok := unparen(recv).(*ast.Ident); ok {
						add(id)
					}
				}
			}
		}
		return true
	})
	return out
}

// checkInitScope: the variables defined by the init statement of an `if` are emitted as `let`s in front of the Lean `if`
// and therefore remain visible in the translated continuation, where Go has already closed their scope.  That is
// harmless only if no other object of the same name (local, parameter, result, package-level or universe) is declared
// or referenced anywhere in the function.
func (t *tr) checkInitScope(as *ast.AssignStmt) {
	for _, l := range as.Lhs {
		id, ok := unparen(l).(*ast.Ident)
		if !ok {
			fatal(l.Pos(), "init statement target `%s`", oneLine(l))
		}
		if id.Name == "_" {
			continue
		}
		o := t.pi.info.Defs[id]
		if o == nil {
			fatal(id.Pos(), "the init statement of an if re-assigns `%s` (only new variables are translated)", id.Name)
		}
		ast.Inspect(t.fdecl, func(m ast.Node) bool {
			other, ok := m.(*ast.Ident)
			if !ok || other.Name != id.Name {
				return true
			}
			oo := t.pi.info.Defs[other]
			if oo == nil {
				oo = t.pi.info.Uses[other]
			}
			if v, isVar := oo.(*types.Var); isVar && v.IsField() {
				return true
			}
			if oo != o {
				fatal(other.Pos(), "`%s` is declared by the init statement of an if and the same name denotes something else in the function (scoping is not translated)", id.Name)
			}
			return true
		})
	}
}

// checkNoShadowing: the continuation of a branching statement is translated INSIDE the Lean term of a branch (or the
// merged variables are read at the end of the branch); a Go declaration local to the branch whose name is also declared
// elsewhere in the function would capture those references.
func (t *tr) checkNoShadowing(bodies [][]ast.Stmt) {
	byName := map[string][]types.Object{}
	ast.Inspect(t.fdecl, func(m ast.Node) bool {
		if id, ok := m.(*ast.Ident); ok && id.Name != "_" {
			if o, isVar := t.pi.info.Defs[id].(*types.Var); isVar && !o.IsField() {
				dup := false
				for _, p := range byName[id.Name] {
					if p == types.Object(o) {
						dup = true
					}
				}
				if !dup {
					byName[id.Name] = append(byName[id.Name], o)
				}
			}
		}
		return true
	})
	for _, b := range bodies {
		for _, st := range b {
			ast.Inspect(st, func(m ast.Node) bool {
				if id, ok := m.(*ast.Ident); ok && id.Name != "_" {
					if o, isVar := t.pi.info.Defs[id].(*types.Var); isVar && !o.IsField() && len(byName[id.Name]) > 1 {
						fatal(id.Pos(), "`%s` is declared inside a branch and the same name is declared elsewhere in the function (shadowing is not translated)", id.Name)
					}
				}
				return true
			})
		}
	}
}

func (t *tr) branching(node ast.Node, conds []string, bodies [][]ast.Stmt, n int, rest cont) []string {
	t.checkNoShadowing(bodies)
	hasRet := false
	for _, b := range bodies {
		for _, s := range b {
			if containsReturn(s) {
				hasRet = true
			}
		}
	}
	var out []string
	if !hasRet {
		vars := t.assignedOuter(node)
		if len(vars) == 0 {
			fatal(node.Pos(), "branching statement without effect on the translated state")
		}
		var names, tys []string
		for _, v := range vars {
			names = append(names, leanLocal(v.Name()))
			k := kindOf(v.Type())
			if k == kBad {
				fatal(node.Pos(), "variable %s of type %s assigned in a branch", v.Name(), v.Type())
			}
			tys = append(tys, leanTy(k))
		}
		tuple := func(m int) []string {
			var vs []string
			for _, v := range vars {
				if t.unbound[v] {
					vs = append(vs, zeroOf(kindOf(v.Type())))
				} else {
					vs = append(vs, leanLocal(v.Name()))
				}
			}
			if len(vs) == 1 {
				return []string{ind(m) + vs[0]}
			}
			return []string{ind(m) + "(" + strings.Join(vs, ", ") + ")"}
		}
		pat := names[0]
		if len(names) > 1 {
			pat = "(" + strings.Join(names, ", ") + ")"
		}
		out = append(out, fmt.Sprintf("%slet %s : %s :=", ind(n), pat, strings.Join(tys, " × ")))
		saved := t.copyUnbound()
		for i, b := range bodies {
			t.unbound = copyMap(saved)
			switch {
			case i == 0:
				out = append(out, fmt.Sprintf("%sif %s then", ind(n+1), conds[0]))
			case i < len(conds):
				out = append(out, fmt.Sprintf("%selse if %s then", ind(n+1), conds[i]))
			default:
				out = append(out, ind(n+1)+"else")
			}
			out = append(out, t.block(b, n+2, tuple)...)
		}
		t.unbound = copyMap(saved)
		for _, v := range vars {
			delete(t.unbound, v)
		}
		return append(out, rest(n)...)
	}
	saved := t.copyUnbound()
	for i, b := range bodies {
		t.unbound = copyMap(saved)
		switch {
		case i == 0:
			out = append(out, fmt.Sprintf("%sif %s then", ind(n), conds[0]))
		case i < len(conds):
			out = append(out, fmt.Sprintf("%selse if %s then", ind(n), conds[i]))
		default:
			out = append(out, ind(n)+"else")
		}
		out = append(out, t.block(b, n+1, rest)...)
	}
	t.unbound = saved
	return out
}

func copyMap(m map[types.Object]bool) map[types.Object]bool {
	c := map[types.Object]bool{}
	for k, v := range m {
		c[k] = v
	}
	return c
}

func (t *tr) assign(x *ast.AssignStmt, n int) []string {
	var out []string
	lhsVar := func(l ast.Expr) (*ast.Ident, types.Object) {
		id, ok := unparen(l).(*ast.Ident)
		if !ok {
			return nil, nil
		}
		return id, t.obj(id)
	}
	// single assignment
	if len(x.Lhs) == 1 && len(x.Rhs) == 1 {
		l := unparen(x.Lhs[0])
		if se, ok := l.(*ast.SelectorExpr); ok {
			// field store: s.f = e
			if x.Tok != token.ASSIGN {
				fatal(x.Pos(), "compound assignment to a field")
			}
			id, ok := unparen(se.X).(*ast.Ident)
			if !ok {
				fatal(x.Pos(), "field store into `%s`", oneLine(se.X))
			}
			bk := t.kind(se.X)
			if typeKey(t.tv(se.X).Type) == "*s2.Point" {
				fatal(x.Pos(), "store through a *Point")
			}
			if sl, ok := t.pi.info.Selections[se]; !ok || sl.Kind() != types.FieldVal || len(sl.Index()) != 1 {
				if !(bk == kV3 && ok && len(sl.Index()) == 2) {
					fatal(x.Pos(), "field store `%s`", oneLine(se))
				}
			}
			f := se.Sel.Name
			switch bk {
			case kV3:
				if f != "X" && f != "Y" && f != "Z" {
					fatal(x.Pos(), "field store `%s`", oneLine(se))
				}
				f = lowerFirst(f)
			case kState:
				f = leanLocal(f)
			default:
				fatal(x.Pos(), "field store `%s`", oneLine(se))
			}
			v := t.checkFresh(x.Pos(), t.expr(x.Rhs[0]))
			base := t.expr(id)
			out = append(out, t.flush(n, v)...)
			delete(t.unbound, t.obj(id))
			out = append(out, fmt.Sprintf("%slet %s : %s := { %s with %s := %s }", ind(n), leanLocal(id.Name), leanTy(bk), base, f, v))
			return out
		}
		id, o := lhsVar(l)
		if id == nil {
			fatal(x.Pos(), "assignment target `%s`", oneLine(l))
		}
		if v, ok := o.(*types.Var); ok && v.Parent() == v.Pkg().Scope() {
			fatal(x.Pos(), "assignment to package-level variable %s", id.Name)
		}
		k := kindOf(o.Type())
		if k == kBad {
			fatal(x.Pos(), "variable `%s` of type %s", id.Name, o.Type())
		}
		var v string
		switch x.Tok {
		case token.DEFINE, token.ASSIGN:
			if _, isId := unparen(x.Rhs[0]).(*ast.Ident); isId && k == kState {
				fatal(x.Pos(), "a second name for the same *EdgeCrosser (aliasing is not translated)")
			}
			v = t.expr(x.Rhs[0])
		case token.ADD_ASSIGN, token.SUB_ASSIGN, token.MUL_ASSIGN, token.QUO_ASSIGN:
			op := map[token.Token]token.Token{token.ADD_ASSIGN: token.ADD, token.SUB_ASSIGN: token.SUB, token.MUL_ASSIGN: token.MUL, token.QUO_ASSIGN: token.QUO}[x.Tok]
			be := &ast.BinaryExpr{X: x.Lhs[0], Op: op, Y: x.Rhs[0], OpPos: x.TokPos}
			t.pi.info.Types[be] = types.TypeAndValue{Type: o.Type()}
			v = t.binary(be)
		default:
			fatal(x.Pos(), "assignment operator %s", x.Tok)
		}
		t.checkFresh(x.Pos(), v)
		out = append(out, t.flush(n, v)...)
		if id.Name == "_" {
			fatal(x.Pos(), "assignment to _")
		}
		delete(t.unbound, o)
		out = append(out, fmt.Sprintf("%slet %s : %s := %s", ind(n), leanLocal(id.Name), leanTy(k), v))
		return out
	}
	if x.Tok != token.DEFINE && x.Tok != token.ASSIGN {
		fatal(x.Pos(), "assignment operator %s with several targets", x.Tok)
	}
	var names, tys []string
	var objs []types.Object
	for _, l := range x.Lhs {
		id, o := lhsVar(l)
		if id == nil {
			fatal(x.Pos(), "assignment target `%s`", oneLine(l))
		}
		if id.Name == "_" {
			names = append(names, "_")
			tys = append(tys, "")
			objs = append(objs, nil)
			continue
		}
		if v, ok := o.(*types.Var); ok && v.Parent() == v.Pkg().Scope() {
			fatal(x.Pos(), "assignment to package-level variable %s", id.Name)
		}
		k := kindOf(o.Type())
		if k == kBad {
			fatal(x.Pos(), "variable `%s` of type %s", id.Name, o.Type())
		}
		names = append(names, leanLocal(id.Name))
		tys = append(tys, leanTy(k))
		objs = append(objs, o)
	}
	var rhs string
	if len(x.Rhs) == 1 {
		// a, b := f(x)
		c, ok := unparen(x.Rhs[0]).(*ast.CallExpr)
		if !ok {
			fatal(x.Pos(), "multi-valued right-hand side that is not a call")
		}
		tup, ok := t.tv(c).Type.(*types.Tuple)
		if !ok || tup.Len() != len(x.Lhs) {
			fatal(x.Pos(), "multi-valued call shape")
		}
		for i := range tys {
			if tys[i] == "" {
				k := kindOf(tup.At(i).Type())
				if k == kBad {
					fatal(x.Pos(), "result type %s", tup.At(i).Type())
				}
				tys[i] = leanTy(k)
			}
		}
		rhs = t.expr(c)
	} else {
		if len(x.Rhs) != len(x.Lhs) {
			fatal(x.Pos(), "assignment count mismatch")
		}
		var vs []string
		for i, r := range x.Rhs {
			if tys[i] == "" {
				tys[i] = leanTy(t.kind(r))
			}
			vs = append(vs, t.expr(r))
		}
		rhs = "(" + strings.Join(vs, ", ") + ")"
	}
	t.checkFresh(x.Pos(), rhs)
	out = append(out, t.flush(n, rhs)...)
	for _, o := range objs {
		if o != nil {
			delete(t.unbound, o)
		}
	}
	out = append(out, fmt.Sprintf("%slet (%s) : %s := %s", ind(n), strings.Join(names, ", "), strings.Join(tys, " × "), rhs))
	return out
}

// ---------------------------------------------------------------- functions

func (g *gen) emitFunc(sp *fnSpec) {
	pi := g.pkgs[sp.pkg]
	fd := findFunc(pi, sp.key)
	fn := sp.obj
	sig := fn.Type().(*types.Signature)
	t := &tr{g: g, pi: pi, file: sp.file, name: sp.lean, body: fd.Body, fdecl: fd, unbound: map[types.Object]bool{}}
	var params []string
	addParam := func(v *types.Var, p token.Pos) {
		k := kindOf(v.Type())
		if k == kBad {
			fatal(p, "parameter %s of %s has type %s, outside the translated subset", v.Name(), sp.key, v.Type())
		}
		nm := v.Name()
		if nm == "" || nm == "_" {
			fatal(p, "unnamed parameter of %s", sp.key)
		}
		if k == kState {
			if t.stateVar != "" {
				fatal(p, "two state parameters")
			}
			t.stateVar = leanLocal(nm)
		}
		params = append(params, fmt.Sprintf("(%s : %s)", leanLocal(nm), leanTy(k)))
	}
	if sig.Recv() != nil {
		addParam(sig.Recv(), fd.Pos())
	}
	for i := 0; i < sig.Params().Len(); i++ {
		if kindOf(sig.Params().At(i).Type()) == kState {
			fatal(fd.Pos(), "state passed as an ordinary parameter of %s", sp.key)
		}
		addParam(sig.Params().At(i), fd.Pos())
	}
	var rtys []string
	if t.stateVar != "" {
		rtys = append(rtys, "EdgeCrosser")
	}
	for i := 0; i < sig.Results().Len(); i++ {
		r := sig.Results().At(i)
		k := kindOf(r.Type())
		if k == kBad {
			fatal(fd.Pos(), "result of %s has type %s, outside the translated subset", sp.key, r.Type())
		}
		t.results = append(t.results, k)
		rtys = append(rtys, leanTy(k))
		if r.Name() != "" && r.Name() != "_" {
			if zeroOf(k) == "" {
				fatal(fd.Pos(), "named result %s of %s has no translated zero value", r.Name(), sp.key)
			}
			t.unbound[r] = true
		}
	}
	if len(rtys) == 0 {
		fatal(fd.Pos(), "%s has no result and no state", sp.key)
	}
	body := fd.Body.List
	if len(body) > 0 {
		if d, ok := body[0].(*ast.DeferStmt); ok {
			fl, ok := unparen(d.Call.Fun).(*ast.FuncLit)
			if !ok || len(d.Call.Args) != 0 || fl.Type.Params.NumFields() != 0 || fl.Type.Results.NumFields() != 0 {
				fatal(d.Pos(), "defer of anything but a parameterless closure")
			}
			if containsReturn(fl.Body) {
				// containsReturn does not descend into nested literals; a return directly in the closure body
				fatal(d.Pos(), "return inside the deferred closure")
			}
			for i := 0; i < sig.Results().Len(); i++ {
				if n := sig.Results().At(i).Name(); n != "" && n != "_" {
					fatal(d.Pos(), "defer in a function with named results")
				}
			}
			t.deferred = fl.Body.List
			body = body[1:]
		}
	}
	end := func(m int) []string {
		if len(t.results) > 0 {
			fatal(fd.End(), "control reaches the end of %s without a return", sp.key)
		}
		return t.ret(fd.End(), nil, m)
	}
	lines := t.block(body, 1, end)
	txt := strings.Join(lines, "\n")
	if strings.Contains(txt, fresh) {
		fatal(fd.Pos(), "a fresh big.Float is used as a value in %s", sp.key)
	}
	b := g.bufs[sp.file]
	sigSrc := oneLine(&ast.FuncDecl{Recv: fd.Recv, Name: fd.Name, Type: fd.Type})
	fmt.Fprintf(b, "/-! ### %s: `%s` -/\n\n", relline(fd.Pos()), sigSrc)
	t.emitConsts(b)
	fmt.Fprintf(b, "def %s %s : %s :=\n%s\n\n", sp.lean, strings.Join(params, " "), strings.Join(rtys, " × "), txt)
	fmt.Fprintf(b, "/-- products feeding + or - without an explicit float64 conversion (FMA fusion allowed by the Go spec) -/\ndef %s_fmaSites : Nat := %d\n\n", sp.lean, t.fma)
	sp.done = true
	g.facts = append(g.facts, fact{Name: sp.pkg + "." + sp.key, Kind: "func", Pos: relline(fd.Pos()), Lean: fileNames[sp.file] + "." + sp.lean,
		Sha256: sha(txt + fmt.Sprint(t.consts, t.fma))})
}
