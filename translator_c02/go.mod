module translator_c02

go 1.21
