package main

import (
	"fmt"
	"go/ast"
	"go/constant"
	"go/token"
	"go/types"
	"regexp"
	"strings"
)

// fresh: a new big.Float whose precision has been set (>= minBigPrec); fresh0: new(big.Float) with precision 0 (an
// operation with such a receiver takes the precision of its operands and may ROUND: not translated)
const fresh = "«fresh»"
const fresh0 = "«fresh0»"
const minBigPrec = 1 << 16

type kconst struct {
	name string
	bits uint64
	pos  string
	src  string
}

// tr translates one function (or one package-level initialiser).
type tr struct {
	g        *gen
	pi       *pkgInfo
	file     int
	name     string // Lean name (prefix of the constants)
	body     *ast.BlockStmt
	fdecl    ast.Node
	prePos   token.Pos
	preState string
	consts   []kconst
	fma      int
	tmp      int
	pre      []string // hoisted `let` lines (state-method calls) of the expression being translated
	noHoist  int
	stateVar string
	results  []kind
	deferred []ast.Stmt
	unbound  map[types.Object]bool
	inDefer  bool
}

func (t *tr) tv(x ast.Expr) types.TypeAndValue {
	tv, ok := t.pi.info.Types[x]
	if !ok {
		if id, ok := x.(*ast.Ident); ok {
			if o := t.pi.info.Uses[id]; o != nil {
				return types.TypeAndValue{Type: o.Type()}
			}
			if o := t.pi.info.Defs[id]; o != nil {
				return types.TypeAndValue{Type: o.Type()}
			}
		}
		fatal(x.Pos(), "no type information for `%s`", oneLine(x))
	}
	return tv
}

func (t *tr) kind(x ast.Expr) kind {
	k := kindOf(t.tv(x).Type)
	if k == kBad {
		fatal(x.Pos(), "`%s` has type %s, outside the translated subset", oneLine(x), t.tv(x).Type)
	}
	return k
}

var simpleRe = regexp.MustCompile(`^[A-Za-z_][A-Za-z0-9_'.]*$`)

func sel(base, field string) string {
	if simpleRe.MatchString(base) {
		return base + "." + field
	}
	return "(" + base + ")." + field
}

func intLit(v constant.Value, ty string) string {
	s := v.ExactString()
	return "(" + s + " : " + ty + ")"
}

// ---------------------------------------------------------------- expressions

func (t *tr) constant(e ast.Expr, tv types.TypeAndValue) string {
	k := kindOf(tv.Type)
	switch k {
	case kF64:
		bits := f64bits(e.Pos(), tv.Value)
		n := fmt.Sprintf("%s_k%d", t.name, len(t.consts))
		t.consts = append(t.consts, kconst{n, bits, relline(e.Pos()), oneLine(e)})
		return n
	case kInt:
		if tv.Value.Kind() != constant.Int {
			fatal(e.Pos(), "non-integer constant of integer type")
		}
		return intLit(tv.Value, "Int")
	case kNat:
		if constant.Sign(tv.Value) < 0 {
			fatal(e.Pos(), "negative r3.Axis constant")
		}
		return intLit(tv.Value, "Nat")
	case kCrossing:
		return t.g.qual(t.file, 1, "Crossing_"+t.g.crossingName(e.Pos(), tv.Value.ExactString()))
	case kBool:
		if constant.BoolVal(tv.Value) {
			return "true"
		}
		return "false"
	}
	fatal(e.Pos(), "constant `%s` of type %s is outside the translated subset", oneLine(e), tv.Type)
	return ""
}

func (t *tr) obj(id *ast.Ident) types.Object {
	if o := t.pi.info.Uses[id]; o != nil {
		return o
	}
	return t.pi.info.Defs[id]
}

func (t *tr) expr(e ast.Expr) string {
	e = unparen(e)
	tv := t.tv(e)
	if tv.Value != nil {
		return t.constant(e, tv)
	}
	switch x := e.(type) {
	case *ast.Ident:
		o := t.obj(x)
		v, ok := o.(*types.Var)
		if !ok {
			fatal(x.Pos(), "identifier `%s` is not a variable", x.Name)
		}
		t.kind(x)
		if v.Parent() == v.Pkg().Scope() {
			return t.g.pkgVarRef(t, v, x.Pos())
		}
		if t.unbound[o] {
			z := zeroOf(kindOf(v.Type()))
			if z == "" {
				fatal(x.Pos(), "`%s` is read before it is assigned and its type has no translated zero value", x.Name)
			}
			return z
		}
		return leanLocal(x.Name)
	case *ast.SelectorExpr:
		s, ok := t.pi.info.Selections[x]
		if !ok || s.Kind() != types.FieldVal {
			fatal(x.Pos(), "selector `%s` is not a field access", oneLine(x))
		}
		bk := t.kind(x.X)
		base := t.expr(x.X)
		f := x.Sel.Name
		switch bk {
		case kV3:
			if f == "Vector" {
				return base
			}
			if f == "X" || f == "Y" || f == "Z" {
				return sel(base, lowerFirst(f))
			}
		case kPV:
			t.kind(x)
			return sel(base, lowerFirst(f))
		case kState:
			t.kind(x)
			return sel(base, leanLocal(f))
		}
		fatal(x.Pos(), "field access `%s` is outside the translated subset", oneLine(x))
	case *ast.BinaryExpr:
		return t.binary(x)
	case *ast.UnaryExpr:
		switch x.Op {
		case token.SUB:
			switch t.kind(x) {
			case kF64:
				return "(F64.neg " + t.expr(x.X) + ")"
			case kInt:
				return "(-" + t.expr(x.X) + ")"
			}
		case token.NOT:
			return "(!" + t.expr(x.X) + ")"
		case token.AND:
			if cl, ok := unparen(x.X).(*ast.CompositeLit); ok && t.kind(x) == kState {
				return t.composite(cl)
			}
			if id, ok := unparen(x.X).(*ast.Ident); ok && typeKey(t.tv(x).Type) == "*s2.Point" {
				t.checkNeverAssigned(id)
				return t.expr(id)
			}
		}
		fatal(x.Pos(), "unary expression `%s` is outside the translated subset", oneLine(x))
	case *ast.CallExpr:
		return t.call(x)
	case *ast.CompositeLit:
		return t.composite(x)
	}
	fatal(e.Pos(), "expression `%s` (%T) is outside the translated subset", oneLine(e), e)
	return ""
}

// checkNeverAssigned: `&a` is translated as the value a; sound only if a is never assigned and nothing is stored
// through any pointer in this function.
func (t *tr) checkNeverAssigned(id *ast.Ident) {
	o := t.obj(id)
	ast.Inspect(t.body, func(n ast.Node) bool {
		switch s := n.(type) {
		case *ast.AssignStmt:
			for _, l := range s.Lhs {
				l = unparen(l)
				if li, ok := l.(*ast.Ident); ok && t.obj(li) == o && s.Tok != token.DEFINE {
					fatal(s.Pos(), "`%s` has its address taken and is assigned", id.Name)
				}
				if _, ok := l.(*ast.StarExpr); ok {
					fatal(s.Pos(), "store through a pointer in a function that takes `&%s`", id.Name)
				}
				if se, ok := l.(*ast.SelectorExpr); ok {
					if _, isPtr := t.tv(se.X).Type.(*types.Pointer); isPtr && kindOf(t.tv(se.X).Type) != kState {
						fatal(s.Pos(), "store through a pointer in a function that takes `&%s`", id.Name)
					}
					if bi, ok := unparen(se.X).(*ast.Ident); ok && t.obj(bi) == o {
						fatal(s.Pos(), "`%s` has its address taken and is assigned", id.Name)
					}
				}
			}
		case *ast.IncDecStmt:
			if li, ok := unparen(s.X).(*ast.Ident); ok && t.obj(li) == o {
				fatal(s.Pos(), "`%s` has its address taken and is assigned", id.Name)
			}
		}
		return true
	})
}

func isFloatMul(t *tr, e ast.Expr) bool {
	// parentheses do not round; an explicit conversion does
	b, ok := unparen(e).(*ast.BinaryExpr)
	return ok && b.Op == token.MUL && t.tv(b).Value == nil && kindOf(t.tv(b).Type) == kF64
}

func (t *tr) binary(x *ast.BinaryExpr) string {
	switch x.Op {
	case token.LAND, token.LOR:
		a := t.expr(x.X)
		t.noHoist++
		b := t.expr(x.Y)
		t.noHoist--
		op := "&&"
		if x.Op == token.LOR {
			op = "||"
		}
		return "(" + a + " " + op + " " + b + ")"
	case token.ADD, token.SUB, token.MUL, token.QUO:
		k := t.kind(x)
		a := t.expr(x.X)
		b := t.expr(x.Y)
		switch k {
		case kF64:
			if x.Op == token.ADD || x.Op == token.SUB {
				if isFloatMul(t, x.X) {
					t.fma++
				}
				if isFloatMul(t, x.Y) {
					t.fma++
				}
			}
			op := map[token.Token]string{token.ADD: "add", token.SUB: "sub", token.MUL: "mul", token.QUO: "div"}[x.Op]
			return "(F64." + op + " " + a + " " + b + ")"
		case kInt:
			if x.Op != token.MUL {
				fatal(x.Pos(), "integer %s is outside the translated subset (Go int wraps, the Lean Int does not; only products of signs and ++ are translated)", x.Op)
			}
			return "(" + a + " * " + b + ")"
		}
	case token.LSS, token.GTR, token.LEQ, token.GEQ, token.EQL, token.NEQ:
		k := t.kind(x.X)
		if t.tv(x.X).Value != nil {
			k = t.kind(x.Y)
		}
		a := t.expr(x.X)
		b := t.expr(x.Y)
		switch k {
		case kF64:
			switch x.Op {
			case token.LSS:
				return "(F64.lt " + a + " " + b + ")"
			case token.GTR:
				return "(F64.gt " + a + " " + b + ")"
			case token.LEQ:
				return "(F64.le " + a + " " + b + ")"
			case token.GEQ:
				return "(F64.ge " + a + " " + b + ")"
			case token.EQL:
				return "(F64.feq " + a + " " + b + ")"
			case token.NEQ:
				return "(!F64.feq " + a + " " + b + ")"
			}
		case kInt, kNat, kCrossing:
			switch x.Op {
			case token.EQL:
				return "(" + a + " == " + b + ")"
			case token.NEQ:
				return "(" + a + " != " + b + ")"
			}
			if k == kCrossing {
				fatal(x.Pos(), "ordering comparison of Crossing values (their encoding is symbolic)")
			}
			return "(decide (" + a + " " + x.Op.String() + " " + b + "))"
		case kBool:
			switch x.Op {
			case token.EQL:
				return "(" + a + " == " + b + ")"
			case token.NEQ:
				return "(" + a + " != " + b + ")"
			}
		case kV3:
			veq := t.g.qual(t.file, 0, "Vector_eq")
			switch x.Op {
			case token.EQL:
				return "(" + veq + " " + a + " " + b + ")"
			case token.NEQ:
				return "(!" + veq + " " + a + " " + b + ")"
			}
		}
	}
	fatal(x.Pos(), "binary expression `%s` is outside the translated subset", oneLine(x))
	return ""
}

func (t *tr) composite(x *ast.CompositeLit) string {
	ty := t.tv(x).Type
	key := typeKey(ty)
	st, ok := ty.Underlying().(*types.Struct)
	if !ok {
		fatal(x.Pos(), "composite literal of non-struct type %s", ty)
	}
	vals := make([]string, st.NumFields())
	for i, el := range x.Elts {
		idx := i
		v := el
		if kv, ok := el.(*ast.KeyValueExpr); ok {
			idx = -1
			for j := 0; j < st.NumFields(); j++ {
				if st.Field(j).Name() == kv.Key.(*ast.Ident).Name {
					idx = j
				}
			}
			if idx < 0 {
				fatal(kv.Pos(), "unknown field in composite literal")
			}
			v = kv.Value
		}
		if vals[idx] != "" {
			fatal(el.Pos(), "field given twice")
		}
		vals[idx] = t.expr(v)
	}
	for j := range vals {
		if vals[j] == "" {
			z := zeroOf(kindOf(st.Field(j).Type()))
			if z == "" {
				fatal(x.Pos(), "field %s of `%s` is not given and its type has no translated zero value", st.Field(j).Name(), oneLine(x))
			}
			vals[j] = z
		}
	}
	switch key {
	case "s2.Point":
		return vals[0]
	case "r3.Vector":
		return "(V3.mk " + strings.Join(vals, " ") + ")"
	case "r3.PreciseVector":
		return "(" + t.g.qual(t.file, 0, "PreciseVector.mk") + " " + strings.Join(vals, " ") + ")"
	case "s2.EdgeCrosser":
		return "(" + t.g.qual(t.file, 1, "EdgeCrosser.mk") + " " + strings.Join(vals, " ") + ")"
	}
	fatal(x.Pos(), "composite literal of type %s is outside the translated subset", ty)
	return ""
}

func (t *tr) callee(x *ast.CallExpr) (*types.Func, ast.Expr) {
	switch f := unparen(x.Fun).(type) {
	case *ast.Ident:
		if fn, ok := t.pi.info.Uses[f].(*types.Func); ok {
			return fn, nil
		}
	case *ast.SelectorExpr:
		if s, ok := t.pi.info.Selections[f]; ok {
			if s.Kind() == types.MethodVal {
				return s.Obj().(*types.Func), f.X
			}
			return nil, nil
		}
		if fn, ok := t.pi.info.Uses[f.Sel].(*types.Func); ok {
			return fn, nil
		}
	}
	return nil, nil
}

// usedAfter: is the local variable read after position p in the function body?
func (t *tr) usedAfter(o types.Object, p token.Pos) bool {
	found := false
	ast.Inspect(t.body, func(n ast.Node) bool {
		if id, ok := n.(*ast.Ident); ok && id.Pos() > p && t.pi.info.Uses[id] == o {
			found = true
		}
		return true
	})
	return found
}

func (t *tr) call(x *ast.CallExpr) string {
	// conversions
	if ftv, ok := t.pi.info.Types[x.Fun]; ok && ftv.IsType() {
		if len(x.Args) != 1 {
			fatal(x.Pos(), "conversion with %d arguments", len(x.Args))
		}
		to, from := t.kind(x), t.kind(x.Args[0])
		if to != from || to == kCrossing || to == kBig || to == kState || to == kPV {
			fatal(x.Pos(), "conversion `%s` (%s to %s) is outside the translated subset", oneLine(x), t.tv(x.Args[0]).Type, t.tv(x).Type)
		}
		return t.expr(x.Args[0])
	}
	if id, ok := unparen(x.Fun).(*ast.Ident); ok {
		if b, ok := t.pi.info.Uses[id].(*types.Builtin); ok {
			if b.Name() == "new" && typeKey(t.tv(x).Type) == "*big.Float" {
				return fresh0
			}
			fatal(x.Pos(), "builtin %s is outside the translated subset", b.Name())
		}
	}
	fn, recv := t.callee(x)
	if fn == nil {
		fatal(x.Pos(), "call `%s` has no statically known callee", oneLine(x))
	}
	key := funcKey(fn)
	args := func() []string {
		var a []string
		for _, e := range x.Args {
			a = append(a, t.expr(e))
		}
		return a
	}
	switch key {
	case "math.Sqrt":
		return "(F64.sqrt " + args()[0] + ")"
	case "math.Abs":
		return "(F64.abs " + args()[0] + ")"
	case "big.NewFloat":
		return "(BigF.ofF64 " + args()[0] + ")"
	case "big.Float.SetPrec":
		ptv := t.pi.info.Types[x.Args[0]]
		if ptv.Value == nil || ptv.Value.Kind() != constant.Int {
			fatal(x.Pos(), "SetPrec with a non-constant precision")
		}
		pv, ok := constant.Uint64Val(ptv.Value)
		if !ok || pv < minBigPrec {
			fatal(x.Pos(), "SetPrec(%s): the exact model needs at least %d bits", ptv.Value, minBigPrec)
		}
		if t.g.minPrec == 0 || pv < t.g.minPrec {
			t.g.minPrec = pv
		}
		r := t.expr(recv)
		if r == fresh0 {
			return fresh
		}
		return r // fresh stays fresh; raising the precision of a value is exact
	case "big.Float.SetFloat64":
		if r := t.expr(recv); r != fresh && r != fresh0 {
			fatal(x.Pos(), "SetFloat64 on a big.Float that is not fresh")
		}
		return "(BigF.ofF64 " + args()[0] + ")"
	case "big.Float.Mul", "big.Float.Sub", "big.Float.Add":
		r := t.expr(recv)
		if r == fresh0 {
			fatal(x.Pos(), "receiver of `%s` has precision 0: the operation rounds to the precision of its operands (not translated)", oneLine(x))
		}
		if r != fresh {
			id, ok := unparen(recv).(*ast.Ident)
			if !ok {
				fatal(x.Pos(), "receiver of `%s` is neither a fresh big.Float nor a local variable", oneLine(x))
			}
			t.checkPreciseLocal(id)
			o := t.obj(id)
			if v, ok := o.(*types.Var); !ok || v.Parent() == v.Pkg().Scope() {
				fatal(x.Pos(), "receiver of `%s` is a package-level variable", oneLine(x))
			}
			if t.usedAfter(o, x.End()) {
				fatal(x.Pos(), "big.Float `%s` is overwritten by `%s` and read afterwards (mutation is not translated)", id.Name, oneLine(x))
			}
		}
		a := args()
		op := map[string]string{"big.Float.Mul": "mul", "big.Float.Sub": "sub", "big.Float.Add": "add"}[key]
		return "(BigF." + op + " " + a[0] + " " + a[1] + ")"
	case "big.Float.Sign":
		return "(BigF.sign " + t.expr(recv) + ")"
	}
	sp := t.g.reg[fn]
	if sp == nil {
		if t.g.isFreshFunc(fn) {
			return fresh
		}
		fatal(x.Pos(), "call of %s, which is not among the translated functions", key)
	}
	if !sp.done {
		fatal(x.Pos(), "internal: %s is called before it is generated (order of `specs`)", key)
	}
	name := t.g.qual(t.file, sp.file, sp.lean)
	sig := fn.Type().(*types.Signature)
	var all []string
	stateName := ""
	if recv != nil {
		if kindOf(sig.Recv().Type()) == kState {
			id, ok := unparen(recv).(*ast.Ident)
			if !ok {
				fatal(x.Pos(), "state receiver of `%s` is not a variable", oneLine(x))
			}
			stateName = leanLocal(id.Name)
		}
		t.kind(recv)
		all = append(all, t.expr(recv))
	}
	for i := 0; i < sig.Params().Len(); i++ {
		if kindOf(sig.Params().At(i).Type()) == kState {
			fatal(x.Pos(), "state passed as an ordinary argument")
		}
	}
	all = append(all, args()...)
	app := "(" + name + " " + strings.Join(all, " ") + ")"
	if stateName == "" {
		return app
	}
	// state-method call: hoist
	if t.noHoist > 0 {
		fatal(x.Pos(), "call of the state-changing method %s in a conditionally evaluated position", key)
	}
	app = name + " " + strings.Join(all, " ")
	t.prePos = x.Pos()
	t.preState = stateName
	if sig.Results().Len() == 0 {
		t.pre = append(t.pre, fmt.Sprintf("let %s : EdgeCrosser := %s", stateName, app))
		return ""
	}
	var names, tys []string
	names = append(names, stateName)
	tys = append(tys, "EdgeCrosser")
	for i := 0; i < sig.Results().Len(); i++ {
		t.tmp++
		names = append(names, fmt.Sprintf("r%d'", t.tmp))
		k := kindOf(sig.Results().At(i).Type())
		if k == kBad {
			fatal(x.Pos(), "result type of %s", key)
		}
		tys = append(tys, leanTy(k))
	}
	t.pre = append(t.pre, fmt.Sprintf("let (%s) : %s := %s", strings.Join(names, ", "), strings.Join(tys, " × "), app))
	if len(names) == 2 {
		return names[1]
	}
	return "(" + strings.Join(names[1:], ", ") + ")"
}

// checkPreciseLocal: a local big.Float used as the receiver of Mul/Sub/Add must itself be the result of such an
// operation (whose receiver had a checked precision), assigned exactly once.
func (t *tr) checkPreciseLocal(id *ast.Ident) {
	o := t.obj(id)
	n := 0
	ok := false
	ast.Inspect(t.body, func(m ast.Node) bool {
		as, isAs := m.(*ast.AssignStmt)
		if !isAs {
			return true
		}
		for i, l := range as.Lhs {
			li, isId := unparen(l).(*ast.Ident)
			if !isId || t.obj(li) != o {
				continue
			}
			n++
			if len(as.Rhs) == len(as.Lhs) {
				if c, isCall := unparen(as.Rhs[i]).(*ast.CallExpr); isCall {
					if fn, _ := t.callee(c); fn != nil {
						switch funcKey(fn) {
						case "big.Float.Mul", "big.Float.Sub", "big.Float.Add":
							ok = true
						}
					}
				}
			}
		}
		return true
	})
	if n != 1 || !ok {
		fatal(id.Pos(), "big.Float receiver `%s` is not the (single) result of a Mul/Sub/Add: its precision is not known to be sufficient", id.Name)
	}
}

// isFreshFunc: an in-repo function without parameters whose body is `return <fresh big.Float>` (newBigFloat).
func (g *gen) isFreshFunc(fn *types.Func) bool {
	pi := g.pkgOf(fn)
	if pi == nil {
		return false
	}
	sig := fn.Type().(*types.Signature)
	if sig.Recv() != nil || sig.Params().Len() != 0 || sig.Results().Len() != 1 || kindOf(sig.Results().At(0).Type()) != kBig {
		return false
	}
	fd := findFunc(pi, fn.Name())
	if len(fd.Body.List) != 1 {
		return false
	}
	r, ok := fd.Body.List[0].(*ast.ReturnStmt)
	if !ok || len(r.Results) != 1 {
		return false
	}
	// only the syntactic forms new(big.Float) and <fresh>.SetPrec(c)
	// translate the returned expression with the ordinary rules: it must come out as a fresh big.Float with a precision
	ft := &tr{g: g, pi: pi, name: "fresh_" + fn.Name(), body: fd.Body, fdecl: fd, unbound: map[types.Object]bool{}}
	ft.noHoist = 1
	c, ok := unparen(r.Results[0]).(*ast.CallExpr)
	if !ok {
		return false
	}
	if s, ok := unparen(c.Fun).(*ast.SelectorExpr); !ok || s.Sel.Name != "SetPrec" {
		return false
	}
	return ft.expr(c) == fresh
}

// ---------------------------------------------------------------- package-level variables

func (g *gen) pkgVarRef(t *tr, v *types.Var, p token.Pos) string {
	if pv, ok := g.vars[v]; ok {
		return g.qual(t.file, pv.file, pv.lean)
	}
	pi := g.pkgOf(v)
	if pi == nil {
		fatal(p, "package-level variable %s of a package outside the repository", v.Name())
	}
	// never assigned, never address-taken
	var init ast.Expr
	for _, f := range pi.files {
		ast.Inspect(f, func(n ast.Node) bool {
			switch s := n.(type) {
			case *ast.AssignStmt:
				for _, l := range s.Lhs {
					if id, ok := unparen(l).(*ast.Ident); ok && pi.info.Uses[id] == v {
						fatal(s.Pos(), "package-level variable %s is assigned here; its initial value cannot be used", v.Name())
					}
					if se, ok := unparen(l).(*ast.SelectorExpr); ok {
						if id, ok := unparen(se.X).(*ast.Ident); ok && pi.info.Uses[id] == v {
							fatal(s.Pos(), "package-level variable %s is modified here", v.Name())
						}
					}
				}
			case *ast.IncDecStmt:
				if id, ok := unparen(s.X).(*ast.Ident); ok && pi.info.Uses[id] == v {
					fatal(s.Pos(), "package-level variable %s is modified here", v.Name())
				}
			case *ast.UnaryExpr:
				if id, ok := unparen(s.X).(*ast.Ident); ok && s.Op == token.AND && pi.info.Uses[id] == v {
					fatal(s.Pos(), "address of package-level variable %s is taken", v.Name())
				}
			case *ast.ValueSpec:
				for i, id := range s.Names {
					if pi.info.Defs[id] == v {
						if len(s.Values) != len(s.Names) {
							fatal(s.Pos(), "declaration of %s without its own initialiser", v.Name())
						}
						init = s.Values[i]
					}
				}
			}
			return true
		})
	}
	if init == nil {
		fatal(v.Pos(), "no initialiser of package-level variable %s found", v.Name())
	}
	k := kindOf(v.Type())
	if k == kBad {
		fatal(v.Pos(), "type of %s", v.Name())
	}
	name := "var_" + v.Name()
	vt := &tr{g: g, pi: pi, file: t.file, name: name, body: &ast.BlockStmt{}, unbound: map[types.Object]bool{}}
	vt.noHoist = 1
	val := vt.expr(init)
	if strings.Contains(val, fresh) {
		fatal(init.Pos(), "initialiser of %s leaks a fresh big.Float", v.Name())
	}
	b := g.bufs[t.file]
	vt.emitConsts(b)
	fmt.Fprintf(b, "/-- %s: `var %s = %s` (never assigned in the package) -/\ndef %s : %s :=\n  %s\n\n", relline(v.Pos()), v.Name(), oneLine(init), name, leanTy(k), val)
	g.vars[v] = &pkgVar{t.file, name}
	g.facts = append(g.facts, fact{Name: pi.pkg.Name() + "." + v.Name(), Kind: "var", Pos: relline(v.Pos()), Lean: fileNames[t.file] + "." + name, Sha256: sha(val)})
	return name
}

func (t *tr) emitConsts(b interface{ WriteString(string) (int, error) }) {
	for _, c := range t.consts {
		b.WriteString(fmt.Sprintf("/-- %s: `%s` as float64 -/\ndef %s : F64 := ⟨0x%016x⟩\n", c.pos, c.src, c.name, c.bits))
	}
	if len(t.consts) > 0 {
		b.WriteString("\n")
	}
}
