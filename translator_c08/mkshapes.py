#!/usr/bin/env python3
"""Helper for maintainers: print `theorem tie_<F>_shape : <Ns>.<F>_shape = "<literal>" := rfl` for every
`_shape` / `_fields` string, one `pin_<F>_cond<k>` / `pin_<F>_val<k>` theorem per extracted condition / value
(the definition body as a literal: conditions that no model-level theorem mentions are pinned by these) and one
`tie_counts` theorem per generated file, from a generated Lean file.
The output is pasted ONCE into the hand-owned tie file (S2Proofs/Ties/…); after an INTENDED change of the Go
source the literal is updated by hand (or by re-running this and reviewing the diff).  Never run by ./check.

usage: mkshapes.py lean/S2/Generated/QueryFns.lean QueryFns
"""
import re, sys
src = open(sys.argv[1]).read()
ns = sys.argv[2]
out = []
for m in re.finditer(r'^def (\w+_(?:shape|fields)) : String :=\n  (".*")$', src, re.M):
    out.append(f'theorem tie_{m.group(1)} : {ns}.{m.group(1)} =\n    {m.group(2)} := rfl')
# pins
out.append(f"section pins_{ns}\nopen S2.Generated.{ns}")
for mm in re.finditer(r'^def (\w+_(?:cond|val)\d+)(.*) : (.+?) :=\n  (.+)$', src, re.M):
    name, params, rt, body = mm.groups()
    args = re.findall(r'\((\S+) : ', params)
    extra = ""
    app = ""
    if re.search(r'\bI\.', body):
        extra += " {D : Type} [DecidableEq D] (I : DistI D)"; app += " I"
    elif " D)" in params or ": D" in rt or "Result D" in params:
        extra += " {D : Type} [DecidableEq D]"
    if re.search(r'\bG\.', body):
        extra += " {P : Type} (G : Contain.Geo P)"; app += " G"
    elif " : P)" in params:
        extra += " {P : Type}"
    out.append(f"theorem pin_{name}{extra}{params} :\n    {ns}.{name}{app}{''.join(' ' + a for a in args)} = ({body}) := rfl")
out.append(f"end pins_{ns}")
names = re.findall(r'^def (\w+)_numConds : Nat := (\d+)\ndef \w+_numVals : Nat := (\d+)$', src, re.M)
if names:
    lhs = ", ".join(f"({ns}.{n}_numConds, {ns}.{n}_numVals)" for n, _, _ in names)
    rhs = ", ".join(f"({c}, {v})" for _, c, v in names)
    out.append(f"/-- number of extracted conditions / values per function, in generation order -/\ntheorem tie_counts_{ns} :\n    [{lhs}] =\n    [{rhs}] := rfl")
print("\n".join(out))
