package main

// FULL translation of the ShapeIndexIterator methods of s2/shapeindex.go into Lean functions (LocateFns.lean, C06).
//
// The iterator is modelled, as in the hand model S2.Locate, by its `position` over the sorted id list `cells`
// (= s.index.cells).  Rules:
//
//	receiver *ShapeIndexIterator   -> parameters (cells : List CellID) (pos : Nat); a method that writes the position
//	                                  returns the new position (with its Go result: a pair (result, pos))
//	s.position                     -> pos            (Go int -> Nat: a slice position; the only subtraction allowed is
//	                                  `s.position--`, any other `-` on ints is fatal)
//	s.position = e; s.refresh()    -> let pos := e   (a position write NOT immediately followed by s.refresh() is fatal:
//	s.position++ / -- ; s.refresh()   let pos := pos + 1 / pos - 1        the stored id would be stale)
//	s.id, s.CellID()               -> refresh_id cells pos, where refresh_id is the translation of `refresh`:
//	                                  `if c { s.id = a; s.cell = … } else { s.id = b; s.cell = nil }` -> if c then a else b
//	                                  (the cell pointer is not part of the model; its two assignments are kept as text
//	                                  in `refresh_cell_shape`)
//	len(s.index.cells)             -> cells.length
//	s.index.cells[i]               -> cells.getD i CellID.sentinel   (Go panics out of range; the totalisation is the
//	                                  hand model's)
//	SentinelCellID                 -> CellID.sentinel (value checked)
//	x.RangeMin() / RangeMax()      -> CellID.rangeMin x / rangeMax x (hand model; tied by translator_c01)
//	sort.Search(n, func(i) {return c}) -> Locate.sortSearch n (fun i => c)   (hand model of the library function)
//	s.m(args) (statement)          -> let pos := m cells pos args
//	if s.m(args) && rest {…}       -> let (r, pos) := m cells pos args; if r && rest …   (a position-writing call may
//	                                  only be the LEFTMOST operand of a condition; anywhere else is fatal)
//	return e                       -> (e, pos) / pos / e (pure method)
//	if c { …return… } rest         -> if c then … else rest ; a branch that falls through gets the rest of the
//	                                  function (source order kept)
//	calls of other functions       -> a parameter named after the call (e.g. cellIDFromPoint_p)
//	Indexed / Subdivided / Disjoint -> Locate.Relation constructors (constant list checked)
//
// Anything else is fatal.

import (
	"bytes"
	"fmt"
	"go/ast"
	"go/constant"
	"go/token"
	"go/types"
	"strings"
)

type iterMethod struct {
	writes bool
	result string // Lean type of the Go result, "" if none
	params []string
	atoms  []string // extra parameters (calls of untranslated functions), in order
}

type iterGen struct {
	pi      *pkgInfo
	out     *bytes.Buffer
	facts   []fact
	recv    types.Object
	methods map[string]*iterMethod
	cur     *iterMethod
	atomT   map[string]string
	fd      *ast.FuncDecl
	tmp     int
}

func (g *iterGen) obj(id *ast.Ident) types.Object {
	if o := g.pi.info.Uses[id]; o != nil {
		return o
	}
	return g.pi.info.Defs[id]
}

func (g *iterGen) isRecv(x ast.Expr) bool {
	id, ok := unparen(x).(*ast.Ident)
	return ok && g.obj(id) == g.recv
}

// field returns the name of the receiver field x denotes ("" if none); `s.index.cells` is "index.cells".
func (g *iterGen) field(x ast.Expr) string {
	sel, ok := unparen(x).(*ast.SelectorExpr)
	if !ok {
		return ""
	}
	if g.isRecv(sel.X) {
		return sel.Sel.Name
	}
	if in := g.field(sel.X); in != "" {
		return in + "." + sel.Sel.Name
	}
	return ""
}

func (g *iterGen) leanType(p token.Pos, t types.Type) string {
	k := typeKey(t)
	if sp, ok := enums[k]; ok {
		return sp.lean
	}
	switch k {
	case "int":
		return "Nat"
	case "bool":
		return "Bool"
	case "s2.CellID":
		return "CellID"
	}
	fatal(p, "type %s is outside the translated subset of the iterator methods", t)
	return ""
}

// recvCall: x is `s.m(args)`; returns the method name
func (g *iterGen) recvCall(x ast.Expr) (string, *ast.CallExpr) {
	c, ok := unparen(x).(*ast.CallExpr)
	if !ok {
		return "", nil
	}
	sel, ok := unparen(c.Fun).(*ast.SelectorExpr)
	if !ok || !g.isRecv(sel.X) {
		return "", nil
	}
	return sel.Sel.Name, c
}

func (g *iterGen) callArgs(c *ast.CallExpr, m *iterMethod) string {
	t := " cells pos"
	for _, a := range c.Args {
		t += " " + atomize(g.expr(a))
	}
	for _, a := range m.atoms {
		// the callee's own atoms become atoms of the caller
		g.atom(a, g.atomT[a])
		t += " " + a
	}
	return t
}

func (g *iterGen) atom(name, typ string) string {
	for _, a := range g.cur.atoms {
		if a == name {
			return name
		}
	}
	g.cur.atoms = append(g.cur.atoms, name)
	g.atomT[name] = typ
	return name
}

var iterCmp = map[token.Token]string{token.LSS: "<", token.LEQ: "≤", token.GTR: ">", token.GEQ: "≥"}

func (g *iterGen) expr(x ast.Expr) string {
	x = unparen(x)
	tv := g.pi.info.Types[x]
	if tv.Value != nil {
		k := typeKey(tv.Type)
		if sp, ok := enums[k]; ok {
			var id *ast.Ident
			switch v := x.(type) {
			case *ast.Ident:
				id = v
			case *ast.SelectorExpr:
				id = v.Sel
			}
			if id != nil {
				if c, ok := g.pi.info.Uses[id].(*types.Const); ok {
					for _, cc := range sp.consts {
						if cc[0] == c.Name() {
							return sp.lean + "." + cc[1]
						}
					}
				}
			}
			fatal(x.Pos(), "constant `%s` of enum %s is not one of its named constants", oneLine(x), k)
		}
		switch k {
		case "bool", "untyped bool":
			if constant.BoolVal(tv.Value) {
				return "true"
			}
			return "false"
		case "int", "untyped int":
			iv := constant.ToInt(tv.Value)
			if n, ok := constant.Int64Val(iv); ok && n >= 0 {
				return fmt.Sprintf("%d", n)
			}
			fatal(x.Pos(), "negative or huge integer constant `%s` (ints are positions: Nat)", oneLine(x))
		case "s2.CellID":
			if u, ok := constant.Uint64Val(constant.ToInt(tv.Value)); ok && u == ^uint64(0) {
				return "CellID.sentinel"
			}
			fatal(x.Pos(), "CellID constant `%s` = %s is not SentinelCellID = 2^64-1", oneLine(x), tv.Value)
		}
		fatal(x.Pos(), "constant `%s` of type %s is outside the translated subset", oneLine(x), tv.Type)
	}
	switch v := x.(type) {
	case *ast.Ident:
		if o, ok := g.obj(v).(*types.Var); ok && !o.IsField() && o != g.recv {
			g.leanType(v.Pos(), o.Type())
			return leanLocal(v.Name)
		}
		fatal(v.Pos(), "identifier `%s` is outside the translated subset", v.Name)
	case *ast.SelectorExpr:
		switch g.field(v) {
		case "position":
			return "pos"
		case "id":
			return "refresh_id cells pos"
		}
		fatal(v.Pos(), "selector `%s` is outside the translated subset", oneLine(v))
	case *ast.IndexExpr:
		if g.field(v.X) == "index.cells" {
			return "cells.getD " + atomize(g.expr(v.Index)) + " CellID.sentinel"
		}
		fatal(v.Pos(), "index expression `%s` is outside the translated subset", oneLine(v))
	case *ast.UnaryExpr:
		if v.Op == token.NOT {
			return "!" + atomize(g.expr(v.X))
		}
		fatal(v.Pos(), "unary %s is outside the translated subset", v.Op)
	case *ast.BinaryExpr:
		X, Y := atomize(g.expr(v.X)), atomize(g.expr(v.Y))
		switch v.Op {
		case token.LAND:
			return X + " && " + Y
		case token.LOR:
			return X + " || " + Y
		case token.EQL:
			return X + " == " + Y
		case token.NEQ:
			return X + " != " + Y
		case token.LSS, token.LEQ, token.GTR, token.GEQ:
			tx := typeKey(g.pi.info.Types[v.X].Type)
			if tx != "int" && tx != "s2.CellID" && tx != "untyped int" {
				fatal(v.Pos(), "ordered comparison of %s", tx)
			}
			return "decide (" + X + " " + iterCmp[v.Op] + " " + Y + ")"
		case token.ADD:
			if typeKey(tv.Type) == "int" {
				return X + " + " + Y
			}
		}
		fatal(v.Pos(), "operator %s in `%s` is outside the translated subset (ints are positions: no subtraction)", v.Op, oneLine(v))
	case *ast.CallExpr:
		// len(s.index.cells)
		if id, ok := unparen(v.Fun).(*ast.Ident); ok && id.Name == "len" && len(v.Args) == 1 {
			if _, isBuiltin := g.obj(id).(*types.Builtin); isBuiltin && g.field(v.Args[0]) == "index.cells" {
				return "cells.length"
			}
		}
		// pure methods of the receiver
		if name, c := g.recvCall(v); c != nil {
			m, ok := g.methods[name]
			if !ok {
				fatal(v.Pos(), "call of iterator method %s, which is not (yet) translated", name)
			}
			if m.writes {
				fatal(v.Pos(), "position-writing call `%s` inside an expression (only allowed as a statement or as the leftmost operand of a condition)", oneLine(v))
			}
			return "It_" + name + g.callArgs(c, m)
		}
		if sel, ok := unparen(v.Fun).(*ast.SelectorExpr); ok {
			if si, ok := g.pi.info.Selections[sel]; ok && si.Kind() == types.MethodVal && typeKey(si.Recv()) == "s2.CellID" && len(v.Args) == 0 {
				switch sel.Sel.Name {
				case "RangeMin":
					return "CellID.rangeMin " + atomize(g.expr(sel.X))
				case "RangeMax":
					return "CellID.rangeMax " + atomize(g.expr(sel.X))
				}
			}
			// sort.Search(n, func(i int) bool { return c })
			if pk, ok := unparen(sel.X).(*ast.Ident); ok && sel.Sel.Name == "Search" && len(v.Args) == 2 {
				if pn, ok := g.obj(pk).(*types.PkgName); ok && pn.Imported().Path() == "sort" {
					fl, ok := unparen(v.Args[1]).(*ast.FuncLit)
					if !ok || len(fl.Type.Params.List) != 1 || len(fl.Type.Params.List[0].Names) != 1 || len(fl.Body.List) != 1 {
						fatal(v.Pos(), "sort.Search with a predicate that is not `func(i int) bool { return c }`")
					}
					ret, ok := fl.Body.List[0].(*ast.ReturnStmt)
					if !ok || len(ret.Results) != 1 {
						fatal(fl.Pos(), "sort.Search with a predicate that is not `func(i int) bool { return c }`")
					}
					return "Locate.sortSearch " + atomize(g.expr(v.Args[0])) + " (fun " + leanLocal(fl.Type.Params.List[0].Names[0].Name) + " => " + g.expr(ret.Results[0]) + ")"
				}
			}
		}
		// a call of an untranslated package-level function: a parameter named after the call
		if id, ok := unparen(v.Fun).(*ast.Ident); ok {
			if _, isFn := g.obj(id).(*types.Func); isFn {
				for _, a := range v.Args {
					if _, simple := unparen(a).(*ast.Ident); !simple {
						fatal(a.Pos(), "argument `%s` of the untranslated call is not a plain identifier", oneLine(a))
					}
				}
				return g.atom(sanitize(oneLine(v)), g.leanType(v.Pos(), tv.Type))
			}
		}
		fatal(v.Pos(), "call `%s` is outside the translated subset", oneLine(v))
	}
	fatal(x.Pos(), "expression `%s` (%T) is outside the translated subset", oneLine(x), x)
	return ""
}

// leftmost returns the leftmost operand of a && / || chain and a function that rebuilds the condition with that
// operand replaced.
func leftmost(x ast.Expr) ast.Expr {
	x = unparen(x)
	if b, ok := x.(*ast.BinaryExpr); ok && (b.Op == token.LAND || b.Op == token.LOR) {
		return leftmost(b.X)
	}
	return x
}

// cond translates a condition; a position-writing receiver call as leftmost operand is hoisted into `pre`.
func (g *iterGen) cond(c ast.Expr, ind string) (pre, t string) {
	lm := leftmost(c)
	if name, call := g.recvCall(lm); call != nil {
		if m, ok := g.methods[name]; ok && m.writes {
			if m.result != "Bool" {
				fatal(lm.Pos(), "position-writing call `%s` in a condition does not return bool", oneLine(lm))
			}
			g.tmp++
			r := "moved"
			if g.tmp > 1 {
				r = fmt.Sprintf("moved%d", g.tmp)
			}
			pre = ind + "let (" + r + ", pos) := It_" + name + g.callArgs(call, m) + "\n"
			// replace the operand by the variable: translate with a substitution
			t = g.exprSubst(c, lm, r)
			return pre, t
		}
	}
	return "", g.condExpr(c)
}

// condExpr: a condition that is one ordered comparison is written as a proposition (as the hand model does)
func (g *iterGen) condExpr(c ast.Expr) string {
	if b, ok := unparen(c).(*ast.BinaryExpr); ok {
		if op, isCmp := iterCmp[b.Op]; isCmp {
			g.expr(c) // type checks of the rule
			return atomize(g.expr(b.X)) + " " + op + " " + atomize(g.expr(b.Y))
		}
	}
	return g.expr(c)
}

func (g *iterGen) exprSubst(x ast.Expr, target ast.Expr, with string) string {
	x = unparen(x)
	if x == target {
		return with
	}
	if b, ok := x.(*ast.BinaryExpr); ok && (b.Op == token.LAND || b.Op == token.LOR) {
		op := " && "
		if b.Op == token.LOR {
			op = " || "
		}
		return atomize(g.exprSubst(b.X, target, with)) + op + atomize(g.expr(b.Y))
	}
	return g.expr(x)
}

func (g *iterGen) ret(ind, val string) string {
	switch {
	case g.cur.writes && val != "":
		return ind + "(" + val + ", pos)\n"
	case g.cur.writes:
		return ind + "pos\n"
	case val != "":
		return ind + val + "\n"
	}
	fatal(g.fd.Pos(), "pure method without a result")
	return ""
}

// isRefresh: statement `s.refresh()`
func (g *iterGen) isRefresh(s ast.Stmt) bool {
	es, ok := s.(*ast.ExprStmt)
	if !ok {
		return false
	}
	name, c := g.recvCall(es.X)
	return c != nil && name == "refresh" && len(c.Args) == 0
}

var iterOpaque = map[string]bool{"if !s.index.IsFresh() { s.index.maybeApplyUpdates() }": true}

func (g *iterGen) seq(list []ast.Stmt, ind string, k contFn, end token.Pos, opaque *[]string) string {
	if len(list) == 0 {
		if k == nil {
			if g.cur.result != "" {
				fatal(end, "control reaches the end of %s without a return", g.fd.Name.Name)
			}
			return g.ret(ind, "")
		}
		return k(ind)
	}
	rest := list[1:]
	cont := func(ind string) string { return g.seq(rest, ind, k, end, opaque) }
	needRefresh := func(p token.Pos) {
		if len(rest) == 0 || !g.isRefresh(rest[0]) {
			fatal(p, "write of s.position is not immediately followed by s.refresh(): the stored id would be stale")
		}
		rest = rest[1:]
	}
	switch v := list[0].(type) {
	case *ast.ReturnStmt:
		if len(rest) != 0 {
			fatal(rest[0].Pos(), "unreachable statement")
		}
		switch len(v.Results) {
		case 0:
			return g.ret(ind, "")
		case 1:
			return g.ret(ind, g.expr(v.Results[0]))
		}
		fatal(v.Pos(), "return of %d values", len(v.Results))
	case *ast.IncDecStmt:
		if g.field(v.X) != "position" {
			fatal(v.Pos(), "`%s` is outside the translated subset", oneLine(v))
		}
		needRefresh(v.Pos())
		op := " + 1"
		if v.Tok == token.DEC {
			op = " - 1"
		}
		return ind + "let pos := pos" + op + "\n" + cont(ind)
	case *ast.AssignStmt:
		if len(v.Lhs) != 1 || len(v.Rhs) != 1 {
			fatal(v.Pos(), "multiple assignment")
		}
		if g.field(v.Lhs[0]) == "position" && v.Tok == token.ASSIGN {
			val := g.expr(v.Rhs[0])
			needRefresh(v.Pos())
			return ind + "let pos := " + val + "\n" + cont(ind)
		}
		if id, ok := v.Lhs[0].(*ast.Ident); ok && v.Tok == token.DEFINE {
			g.leanType(id.Pos(), g.obj(id).Type())
			return ind + "let " + leanLocal(id.Name) + " := " + g.expr(v.Rhs[0]) + "\n" + cont(ind)
		}
		fatal(v.Pos(), "assignment `%s` is outside the translated subset", oneLine(v))
	case *ast.ExprStmt:
		if g.isRefresh(v) {
			fatal(v.Pos(), "s.refresh() without a preceding position write")
		}
		if name, c := g.recvCall(v.X); c != nil {
			m, ok := g.methods[name]
			if !ok || !m.writes || m.result != "" {
				fatal(v.Pos(), "statement call of %s: not a translated position-writing method without result", name)
			}
			return ind + "let pos := It_" + name + g.callArgs(c, m) + "\n" + cont(ind)
		}
		fatal(v.Pos(), "statement `%s` is outside the translated subset", oneLine(v))
	case *ast.IfStmt:
		if iterOpaque[oneLine(v)] {
			*opaque = append(*opaque, oneLine(v))
			return cont(ind)
		}
		if v.Init != nil {
			fatal(v.Init.Pos(), "if with an initialiser")
		}
		pre, c := g.cond(v.Cond, ind)
		body, els := v.Body.List, elseList(v.Else)
		bt, et := terminates(body), v.Else != nil && terminates(els)
		switch {
		case bt && v.Else == nil:
			return pre + ind + "if " + c + " then\n" + g.seq(body, ind+"  ", nil, v.Body.End(), opaque) + ind + "else\n" + cont(ind)
		case bt && et:
			if len(rest) != 0 {
				fatal(rest[0].Pos(), "unreachable statement")
			}
			return pre + ind + "if " + c + " then\n" + g.seq(body, ind+"  ", nil, v.Body.End(), opaque) + ind + "else\n" + g.seq(els, ind+"  ", nil, v.Else.End(), opaque)
		default:
			// a branch falls through: the rest of the function follows in it.  The position is threaded by
			// shadowing, so a fall-through branch may have written it.
			k2 := contFn(cont)
			if len(rest) == 0 {
				k2 = k
			}
			if k2 == nil {
				k2 = func(ind string) string {
					if g.cur.result != "" {
						fatal(end, "control reaches the end of %s without a return", g.fd.Name.Name)
					}
					return g.ret(ind, "")
				}
			}
			return pre + ind + "if " + c + " then\n" + g.seq(body, ind+"  ", k2, end, opaque) + ind + "else\n" + g.seq(els, ind+"  ", k2, end, opaque)
		}
	}
	fatal(list[0].Pos(), "statement `%s` (%T) is outside the translated subset", oneLine(list[0]), list[0])
	return ""
}

// writesPos: does the body write s.position (directly or through a translated method)?
func (g *iterGen) writesPos(fd *ast.FuncDecl) bool {
	w := false
	ast.Inspect(fd.Body, func(n ast.Node) bool {
		switch v := n.(type) {
		case *ast.AssignStmt:
			for _, l := range v.Lhs {
				if f := g.field(l); f == "position" {
					w = true
				}
			}
		case *ast.IncDecStmt:
			if g.field(v.X) == "position" {
				w = true
			}
		case *ast.CallExpr:
			if name, c := g.recvCall(v); c != nil {
				if m, ok := g.methods[name]; ok && m.writes {
					w = true
				}
			}
		}
		return true
	})
	return w
}

func (g *iterGen) method(name string) {
	fd := findFunc(g.pi, "ShapeIndexIterator."+name)
	g.fd = fd
	g.recv = g.pi.info.Defs[fd.Recv.List[0].Names[0]]
	g.tmp = 0
	m := &iterMethod{}
	g.cur = m
	m.writes = g.writesPos(fd)
	var ps []string
	for _, fl := range fd.Type.Params.List {
		for _, id := range fl.Names {
			t := g.pi.info.Defs[id].Type()
			if typeKey(t) == "s2.Point" {
				continue // points only reach the model through cellIDFromPoint(p)
			}
			ps = append(ps, fmt.Sprintf(" (%s : %s)", leanLocal(id.Name), g.leanType(id.Pos(), t)))
		}
	}
	if fd.Type.Results != nil {
		if len(fd.Type.Results.List) != 1 || len(fd.Type.Results.List[0].Names) != 0 {
			fatal(fd.Pos(), "%s: at most one unnamed result expected", name)
		}
		m.result = g.leanType(fd.Type.Results.Pos(), g.pi.info.Types[fd.Type.Results.List[0].Type].Type)
	}
	var opaque []string
	body := g.seq(fd.Body.List, "  ", nil, fd.Body.End(), &opaque)
	rt := "Nat"
	switch {
	case m.writes && m.result != "":
		rt = m.result + " × Nat"
	case !m.writes:
		rt = m.result
	}
	at := ""
	for _, a := range m.atoms {
		at += fmt.Sprintf(" (%s : %s)", a, g.atomT[a])
	}
	sig := oneLine(&ast.FuncDecl{Recv: fd.Recv, Name: fd.Name, Type: fd.Type})
	fmt.Fprintf(g.out, "/-- %s: `%s` -/\ndef It_%s (cells : List CellID) (pos : Nat)%s%s : %s :=\n%s\n", relline(fd.Pos()), sig, name, strings.Join(ps, ""), at, rt, body)
	if len(opaque) > 0 {
		var qs []string
		for _, o := range opaque {
			qs = append(qs, leanString(o))
		}
		fmt.Fprintf(g.out, "/-- statements of %s that do not touch the position (lazy index build, C14), kept as text -/\ndef It_%s_opaque : List String :=\n  [%s]\n\n", name, name, strings.Join(qs, ", "))
	}
	g.methods[name] = m
	g.facts = append(g.facts, fact{Name: "s2.ShapeIndexIterator." + name, Kind: "func", Pos: relline(fd.Pos()), Lean: "S2.Generated.LocateFns.It_" + name, Sha256: sha(src(fd))})
}

// refresh: `if c { s.id = a; s.cell = x } else { s.id = b; s.cell = y }`
func (g *iterGen) refresh() {
	fd := findFunc(g.pi, "ShapeIndexIterator.refresh")
	g.fd = fd
	g.recv = g.pi.info.Defs[fd.Recv.List[0].Names[0]]
	g.cur = &iterMethod{}
	bad := func(p token.Pos) {
		fatal(p, "refresh no longer has the shape `if c { s.id = a; s.cell = x } else { s.id = b; s.cell = y }`")
	}
	if len(fd.Body.List) != 1 {
		bad(fd.Pos())
	}
	ifs, ok := fd.Body.List[0].(*ast.IfStmt)
	if !ok || ifs.Init != nil || ifs.Else == nil {
		bad(fd.Body.Pos())
	}
	branch := func(list []ast.Stmt) (string, string) {
		if len(list) != 2 {
			bad(ifs.Pos())
		}
		a0, ok0 := list[0].(*ast.AssignStmt)
		a1, ok1 := list[1].(*ast.AssignStmt)
		if !ok0 || !ok1 || a0.Tok != token.ASSIGN || a1.Tok != token.ASSIGN || len(a0.Lhs) != 1 || len(a1.Lhs) != 1 || len(a0.Rhs) != 1 || len(a1.Rhs) != 1 ||
			g.field(a0.Lhs[0]) != "id" || g.field(a1.Lhs[0]) != "cell" {
			bad(list[0].Pos())
		}
		return g.expr(a0.Rhs[0]), oneLine(a1)
	}
	c := g.condExpr(ifs.Cond)
	a, ca := branch(ifs.Body.List)
	b, cb := branch(elseList(ifs.Else))
	if len(g.cur.atoms) != 0 {
		bad(fd.Pos())
	}
	fmt.Fprintf(g.out, "/-- %s: `func (s *ShapeIndexIterator) refresh()` : the id stored at a position -/\ndef refresh_id (cells : List CellID) (pos : Nat) : CellID :=\n  if %s then %s else %s\n\n", relline(fd.Pos()), c, a, b)
	fmt.Fprintf(g.out, "/-- the cell-pointer half of refresh (not part of the model), as text -/\ndef refresh_cell_shape : String :=\n  %s\n\n", leanString("if "+oneLine(ifs.Cond)+" {"+ca+"} else {"+cb+"}"))
	g.facts = append(g.facts, fact{Name: "s2.ShapeIndexIterator.refresh", Kind: "func", Pos: relline(fd.Pos()), Lean: "S2.Generated.LocateFns.refresh_id", Sha256: sha(src(fd))})
}

const locatePrelude = `/-
  GENERATED by translator_c08 from s2/shapeindex.go (ShapeIndexIterator) — do not edit.
  Regenerated on every run of ./check; S2Proofs/Ties/C06_Locate.lean proves that the hand model S2.Locate equals
  these definitions.  Translation rules: see translator_c08/locate.go.  The iterator is its position over the
  sorted id list ` + "`cells`" + ` (= s.index.cells); a method that moves the iterator returns the new position.
-/
import S2.CellID
import S2.Locate
set_option linter.unusedVariables false
namespace S2.Generated.LocateFns
open S2

`

var iterMethods = []string{"CellID", "Done", "Begin", "Next", "Prev", "End", "seek", "LocatePoint", "LocateCellID"}

func genLocate(pi *pkgInfo, facts *[]fact) string {
	g := &iterGen{pi: pi, out: &bytes.Buffer{}, methods: map[string]*iterMethod{}, atomT: map[string]string{}}
	g.out.WriteString(locatePrelude)
	// the struct the rules are written for
	o := pi.pkg.Scope().Lookup("ShapeIndexIterator")
	st, ok := o.Type().Underlying().(*types.Struct)
	if !ok {
		fatal(o.Pos(), "ShapeIndexIterator is not a struct")
	}
	var fs []string
	for i := 0; i < st.NumFields(); i++ {
		fs = append(fs, st.Field(i).Name()+" "+types.TypeString(st.Field(i).Type(), func(p *types.Package) string { return p.Name() }))
	}
	want := "index *s2.ShapeIndex; position int; id s2.CellID; cell *s2.ShapeIndexCell"
	if strings.Join(fs, "; ") != want {
		fatal(o.Pos(), "ShapeIndexIterator has fields `%s`, the translation rules are written for `%s`", strings.Join(fs, "; "), want)
	}
	fmt.Fprintf(g.out, "/-- %s: the fields of `ShapeIndexIterator` -/\ndef ShapeIndexIterator_fields : String :=\n  %s\n\n", relline(o.Pos()), leanString(want))
	g.refresh()
	for _, m := range iterMethods {
		g.method(m)
	}
	// skeletons of the rest of the iterator API (constructor, clone, accessors of the cell pointer)
	s := &skel{pi: pi, out: g.out, ns: "LocateFns", known: map[string]knownFn{}, strict: true}
	for _, k := range []string{"NewShapeIndexIterator", "ShapeIndexIterator.clone", "ShapeIndexIterator.IndexCell", "ShapeIndexIterator.Center"} {
		s.extract(k, strings.ReplaceAll(strings.TrimPrefix(k, "ShapeIndexIterator."), ".", "_"))
	}
	g.out.WriteString("end S2.Generated.LocateFns\n")
	*facts = append(*facts, g.facts...)
	*facts = append(*facts, s.facts...)
	return g.out.String()
}
