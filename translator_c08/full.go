package main

// FULL translation of small pure functions (as translator_c19's fullFn): `return e`, `x := e`, `x = e`,
// `if c { …return… }`, `if c { x = e }`; expressions as in skel.go.  Used for s1.ChordAngle.Add / Sub (float64 =
// S2.F64: math.Sqrt / Max / Min -> F64.sqrt / fmax / fmin) and EdgeQueryResult.Less (fields of the two results ->
// the fields of the hand model's `Result D`).

import (
	"fmt"
	"go/ast"
	"go/token"
	"go/types"
	"strings"
)

type contFn func(ind string) string



type fullEnv struct {
	s       *skel
	atoms   *atomSet
	fd      *ast.FuncDecl
	resolve func(ast.Expr) (string, bool)
	locals  map[string]bool
}

func (fe *fullEnv) x(x ast.Expr) string {
	e := &xenv{s: fe.s, atoms: fe.atoms, ok: true, resolve: fe.resolve}
	return e.x(x)
}

func (fe *fullEnv) seq(list []ast.Stmt, ind string, end token.Pos) string {
	if len(list) == 0 {
		fatal(end, "control reaches the end of %s without a return", fe.fd.Name.Name)
	}
	rest := list[1:]
	switch v := list[0].(type) {
	case *ast.ReturnStmt:
		if len(v.Results) != 1 || len(rest) != 0 {
			fatal(v.Pos(), "return shape outside the translated subset")
		}
		return ind + fe.x(v.Results[0]) + "\n"
	case *ast.AssignStmt:
		n, val := fe.assign(v)
		return ind + "let " + n + " := " + val + "\n" + fe.seq(rest, ind, end)
	case *ast.IfStmt:
		if v.Init != nil || v.Else != nil {
			fatal(v.Pos(), "if with initialiser / else is outside the translated subset of fully translated functions")
		}
		c := fe.x(v.Cond)
		if terminates(v.Body.List) {
			return ind + "if " + c + " then\n" + fe.seq(v.Body.List, ind+"  ", v.Body.End()) + ind + "else\n" + fe.seq(rest, ind, end)
		}
		if len(v.Body.List) != 1 {
			fatal(v.Pos(), "conditional update with several statements")
		}
		as, ok := v.Body.List[0].(*ast.AssignStmt)
		if !ok || as.Tok == token.DEFINE {
			fatal(v.Body.Pos(), "conditional update must be one assignment")
		}
		n, val := fe.assign(as)
		return ind + "let " + n + " := if " + c + " then " + val + " else " + n + "\n" + fe.seq(rest, ind, end)
	}
	fatal(list[0].Pos(), "statement `%s` is outside the translated subset", oneLine(list[0]))
	return ""
}

func (fe *fullEnv) assign(v *ast.AssignStmt) (string, string) {
	if len(v.Lhs) != 1 || len(v.Rhs) != 1 {
		fatal(v.Pos(), "multiple assignment")
	}
	id, ok := v.Lhs[0].(*ast.Ident)
	if !ok {
		fatal(v.Pos(), "assignment to `%s` is outside the translated subset", oneLine(v.Lhs[0]))
	}
	k := fe.s.kindOf((&xenv{s: fe.s}).typ(id))
	if k == "" {
		fatal(v.Pos(), "local of unsupported type")
	}
	n := fe.atoms.get(id.Name, k)
	if fe.locals == nil {
		fe.locals = map[string]bool{}
	}
	if v.Tok == token.DEFINE {
		fe.locals[id.Name] = true
	}
	if v.Tok == token.ASSIGN || v.Tok == token.DEFINE {
		return n, fe.x(v.Rhs[0])
	}
	op, ok := assignOps[v.Tok]
	if !ok {
		fatal(v.Pos(), "assignment operator %s", v.Tok)
	}
	b := &ast.BinaryExpr{X: v.Lhs[0], OpPos: v.TokPos, Op: op, Y: v.Rhs[0]} // the tree, not the text, carries the grouping
	return n, fe.x(b)
}

var assignOps = map[token.Token]token.Token{token.ADD_ASSIGN: token.ADD, token.SUB_ASSIGN: token.SUB, token.MUL_ASSIGN: token.MUL, token.QUO_ASSIGN: token.QUO}

// fullFn translates a small pure function completely.  Parameters: the receiver (if it is of a translated kind),
// the Go parameters in order; any other atom is fatal.
func (s *skel) fullFn(key, name string) {
	fd := findFunc(s.pi, key)
	fe := &fullEnv{s: s, atoms: &atomSet{}, fd: fd}
	n := 0
	add := func(fl *ast.FieldList) {
		if fl == nil {
			return
		}
		for _, f := range fl.List {
			for _, id := range f.Names {
				k := s.kindOf(s.pi.info.Defs[id].Type())
				if k == "" {
					fatal(id.Pos(), "parameter of unsupported type")
				}
				fe.atoms.get(id.Name, k)
				n++
			}
		}
	}
	add(fd.Recv)
	add(fd.Type.Params)
	if fd.Type.Results == nil || len(fd.Type.Results.List) != 1 {
		fatal(fd.Pos(), "one result expected")
	}
	rk := s.kindOf(s.pi.info.Types[fd.Type.Results.List[0].Type].Type)
	if rk == "" {
		fatal(fd.Pos(), "result of unsupported type")
	}
	body := fe.seq(fd.Body.List, "  ", fd.Body.End())
	for _, a := range fe.atoms.list[n:] {
		if !fe.locals[a.text] {
			fatal(fd.Pos(), "fully translated function %s uses `%s`, which is neither a parameter nor a local", key, a.text)
		}
	}
	sig := oneLine(&ast.FuncDecl{Recv: fd.Recv, Name: fd.Name, Type: fd.Type})
	fmt.Fprintf(s.out, "/-- %s: `%s` -/\ndef %s%s : %s :=\n%s\n", relline(fd.Pos()), sig, name, (&atomSet{list: fe.atoms.list[:n]}).params(), rk, body)
	fn := s.pi.info.Defs[fd.Name].(*types.Func)
	s.known[funcKey(fn)] = knownFn{lean: name, recvArg: fd.Recv != nil}
	s.facts = append(s.facts, fact{Name: s.pi.pkg.Name() + "." + key, Kind: "func", Pos: relline(fd.Pos()), Lean: "S2.Generated." + s.ns + "." + name, Sha256: sha(src(fd))})
}

// chordAngleFns: s1.ChordAngle.Add / Sub in full (the arithmetic behind minDistance.sub / maxDistance.sub), the
// special values as bit patterns, the predicates as skeletons.
func chordAngleFns(ld *loader, s *skel) {
	p1, err := ld.load(modPrefix + "s1")
	if err != nil {
		die("type-checking s1 failed: %v", err)
	}
	s1s := &skel{pi: p1, out: s.out, ns: s.ns, known: map[string]knownFn{}, strict: true}
	s1s.known["math.Sqrt"] = knownFn{lean: "F64.sqrt"}
	s1s.known["math.Max"] = knownFn{lean: "F64.fmax"}
	s1s.known["math.Min"] = knownFn{lean: "F64.fmin"}
	s.out.WriteString("/-! ## s1/chordangle.go -/\n\n")
	for _, c := range []string{"NegativeChordAngle", "RightChordAngle", "StraightChordAngle", "maxLength2"} {
		s1s.floatConst(c, "ChordAngle_"+c+"_bits")
	}
	s1s.fullFn("ChordAngle.Add", "ChordAngle_Add")
	s1s.fullFn("ChordAngle.Sub", "ChordAngle_Sub")
	for _, k := range []string{"InfChordAngle", "ChordAngle.IsInfinity", "ChordAngle.isSpecial", "ChordAngle.Expanded", "ChordAngle.MaxAngleError"} {
		s1s.extract(k, strings.ReplaceAll(k, ".", "_"))
	}
	for k, v := range s1s.known {
		if strings.HasPrefix(k, "s1.") {
			s.known[k] = v
		}
	}
	s.facts = append(s.facts, s1s.facts...)
	s.out.WriteString("/-! ## s2/min_distance_targets.go, s2/max_distance_targets.go -/\n\n")
}

// fullLess: EdgeQueryResult.Less over the hand model's `Result D`.
func fullLess(s *skel) {
	fd := findFunc(s.pi, "EdgeQueryResult.Less")
	// the struct the field map is written for
	o := s.pi.pkg.Scope().Lookup("EdgeQueryResult")
	st, ok := o.Type().Underlying().(*types.Struct)
	want := [][2]string{{"distance", "dist"}, {"shapeID", "shape"}, {"edgeID", "edge"}}
	if !ok || st.NumFields() != len(want) {
		fatal(o.Pos(), "EdgeQueryResult no longer has the three fields of the hand model's Result")
	}
	fmap := map[string]string{}
	for i, w := range want {
		if st.Field(i).Name() != w[0] {
			fatal(st.Field(i).Pos(), "field %d of EdgeQueryResult is %s, the hand model expects %s", i, st.Field(i).Name(), w[0])
		}
		fmap[w[0]] = w[1]
	}
	var pobjs []types.Object
	var ps []string
	for _, fl := range []*ast.FieldList{fd.Recv, fd.Type.Params} {
		for _, f := range fl.List {
			for _, id := range f.Names {
				ob := s.pi.info.Defs[id]
				if typeKey(ob.Type()) != "s2.EdgeQueryResult" {
					fatal(id.Pos(), "parameter of Less is not an EdgeQueryResult")
				}
				pobjs = append(pobjs, ob)
				ps = append(ps, fmt.Sprintf(" (%s : Result D)", leanLocal(id.Name)))
			}
		}
	}
	fe := &fullEnv{s: s, atoms: &atomSet{}, fd: fd}
	fe.resolve = func(x ast.Expr) (string, bool) {
		sel, ok := x.(*ast.SelectorExpr)
		if !ok {
			return "", false
		}
		id, ok := unparen(sel.X).(*ast.Ident)
		if !ok {
			return "", false
		}
		ob := s.pi.info.Uses[id]
		for _, p := range pobjs {
			if p == ob {
				if f, ok := fmap[sel.Sel.Name]; ok {
					return leanLocal(id.Name) + "." + f, true
				}
			}
		}
		return "", false
	}
	body := fe.seq(fd.Body.List, "  ", fd.Body.End())
	if len(fe.atoms.list) != 0 {
		fatal(fd.Pos(), "Less uses `%s`, which is not a field of the two results", fe.atoms.list[0].text)
	}
	sig := oneLine(&ast.FuncDecl{Recv: fd.Recv, Name: fd.Name, Type: fd.Type})
	fmt.Fprintf(s.out, "/-- %s: `%s` (full translation) -/\ndef Less%s : Bool :=\n%s\n", relline(fd.Pos()), sig, strings.Join(ps, ""), body)
	s.facts = append(s.facts, fact{Name: "s2.EdgeQueryResult.Less", Kind: "func", Pos: relline(fd.Pos()), Lean: "S2.Generated.QueryFns.Less", Sha256: sha(src(fd))})
}
