package main

// Skeleton extraction (adapted from translator_c19/rest.go, see there for the base rules).
//
// For a function F
//
//   * every `if` / `for` condition becomes   def F_cond<k> (atoms…) : Bool
//   * every other computational expression of a translated kind (right-hand sides, returned values, call arguments,
//     composite-literal fields, closure results) becomes   def F_val<k> (atoms…) : T
//   * what remains — the statement structure with every extracted expression replaced by its name AND the Go
//     expressions that feed its parameters, `cond3(e.iter.Done(), e.iter.CellID(), ch[1])` — becomes the string  F_shape.
//
// An ATOM is a maximal sub-expression that is not arithmetic/logic: a local, a field chain, an element, `len(x)`, a
// call of an untranslated function, `x == nil`.  Atoms become the parameters of the definition, in order of first
// occurrence, named after their source text.
//
//	int kinds (except uint64)        -> Int   (+ - * exact; / % truncate; conversions between int kinds = identity)
//	uint64, CellID                   -> UInt64 ; CellID.RangeMin/RangeMax/Next -> CellID.rangeMin/rangeMax/next
//	                                    (hand model functions, themselves tied by translator_c01)
//	float64, s1.Angle (+ s1.ChordAngle outside `dist` mode) -> S2.F64 (soft-float)
//	distance, s1.ChordAngle (`dist` mode: edge_query.go)  -> D, see main.go
//	s2.Point (`geo` mode)            -> P ; a == b -> G.eq a b
//	Crossing, VertexModel, CrossingType, CellRelation -> the hand model's inductive types
//	a < b …                          -> decide (a < b) ;  == != -> == != ;  && || ! -> && || !
//
// A condition that is not expressible (comparison of pointers other than with nil, interface values …) is FATAL in
// strict mode; in lax mode its text stays in the shape between ‹ ›.

import (
	"bytes"
	"fmt"
	"go/ast"
	"go/constant"
	"go/token"
	"go/types"
	"strings"
)

type skel struct {
	pi     *pkgInfo
	out    *bytes.Buffer
	ns     string
	facts  []fact
	known  map[string]knownFn // funcKey -> fully translated function
	strict bool               // a condition outside the subset is fatal (otherwise its text stays in the shape)
	dist   bool               // `distance` and s1.ChordAngle are the abstract carrier D of the hand model (edge_query.go)
	geo    bool               // s2.Point is the abstract point type P of the hand model's `Geo P`
}

type knownFn struct {
	lean     string
	extra    []string // atoms (source text) that follow the Go arguments
	variadic bool     // f(x, others...) : the arguments after the first are passed as a list
	recvArg  bool     // method: the receiver is the first argument
}

type atom struct {
	text string // normalised source text
	name string
	kind string
}

type atomSet struct {
	list []atom
}

func (a *atomSet) get(text, kind string) string {
	for _, x := range a.list {
		if x.text == text {
			if x.kind != kind {
				die("internal: atom %s with kinds %s and %s", text, x.kind, kind)
			}
			return x.name
		}
	}
	name := sanitize(text)
	for clash := true; clash; {
		clash = false
		for _, x := range a.list {
			if x.name == name {
				name += "'"
				clash = true
			}
		}
	}
	a.list = append(a.list, atom{text, name, kind})
	return name
}

func (a *atomSet) params() string {
	var ps []string
	for _, x := range a.list {
		ps = append(ps, fmt.Sprintf(" (%s : %s)", x.name, x.kind))
	}
	return strings.Join(ps, "")
}

func sanitize(s string) string {
	var b strings.Builder
	last := byte('_')
	for i := 0; i < len(s); i++ {
		c := s[i]
		ok := c == '_' || (c >= '0' && c <= '9') || (c >= 'a' && c <= 'z') || (c >= 'A' && c <= 'Z')
		if !ok {
			c = '_'
		}
		if c == '_' && last == '_' {
			continue
		}
		b.WriteByte(c)
		last = c
	}
	r := strings.Trim(b.String(), "_")
	if r == "" || (r[0] >= '0' && r[0] <= '9') {
		r = "x" + r
	}
	if reserved[r] || r == "level" && false {
		r += "'"
	}
	return r
}


// enums of the Go source that the hand model has as inductive types: Go type -> Lean type, constants in value order
type enumSpec struct {
	lean   string
	consts [][2]string // Go constant name, Lean constructor
}

var enumOrder = []string{"s2.Crossing", "s2.VertexModel", "s2.CrossingType", "s2.CellRelation"}
var enums = map[string]*enumSpec{
	"s2.Crossing":     {"Contain.Crossing", [][2]string{{"Cross", "cross"}, {"MaybeCross", "maybe"}, {"DoNotCross", "doNot"}}},
	"s2.VertexModel":  {"Contain.VertexModel", [][2]string{{"VertexModelOpen", "open_"}, {"VertexModelSemiOpen", "semiOpen"}, {"VertexModelClosed", "closed"}}},
	"s2.CrossingType": {"CrossingType", [][2]string{{"CrossingTypeInterior", "interior"}, {"CrossingTypeAll", "all"}, {"CrossingTypeNonAdjacent", "nonAdjacent"}}},
	"s2.CellRelation": {"Locate.Relation", [][2]string{{"Indexed", "indexed"}, {"Subdivided", "subdivided"}, {"Disjoint", "disjoint"}}},
}

// checkEnums verifies that the constants of every enum type are exactly the expected ones, with values 0,1,2…
func checkEnums(pi *pkgInfo, facts *[]fact) {
	for _, k := range enumOrder {
		sp := enums[k]
		tn := pi.pkg.Scope().Lookup(strings.TrimPrefix(k, "s2."))
		if tn == nil {
			die("type %s not found", k)
		}
		var got []string
		for _, n := range pi.pkg.Scope().Names() { // sorted by name: deterministic
			c, ok := pi.pkg.Scope().Lookup(n).(*types.Const)
			if !ok || !types.Identical(c.Type(), tn.Type()) {
				continue
			}
			v, exact := constant.Int64Val(constant.ToInt(c.Val()))
			if !exact || v < 0 || int(v) >= len(sp.consts) || sp.consts[v][0] != n {
				fatal(c.Pos(), "constant %s = %s of enum %s does not match the hand model's constructors %v", n, c.Val(), k, sp.consts)
			}
			got = append(got, n)
		}
		if len(got) != len(sp.consts) {
			fatal(tn.Pos(), "enum %s has constants %v, the hand model expects %v", k, got, sp.consts)
		}
		var fs []string
		for _, c := range sp.consts {
			fs = append(fs, c[0])
		}
		*facts = append(*facts, fact{Name: k, Kind: "enum", Pos: relline(tn.Pos()), Lean: sp.lean, Sha256: sha(strings.Join(fs, ";"))})
	}
}

func (s *skel) kindOf(t types.Type) string {
	if t == nil {
		return ""
	}
	k := typeKey(t)
	if sp, ok := enums[k]; ok {
		return sp.lean
	}
	switch k {
	case "s2.distance", "s2.minDistance", "s2.maxDistance":
		if s.dist {
			return "D"
		}
		if k == "s2.distance" {
			return ""
		}
	case "s1.ChordAngle":
		if s.dist {
			return "D"
		}
	case "s2.EdgeQueryResult":
		if s.dist {
			return "(Result D)"
		}
		return ""
	case "s2.Point":
		if s.geo {
			return "P"
		}
		return ""
	}
	return kindOfType(t)
}

func kindOfType(t types.Type) string {
	if t == nil {
		return ""
	}
	if b, ok := t.Underlying().(*types.Basic); ok {
		switch b.Kind() {
		case types.Int, types.Int8, types.Int16, types.Int32, types.Int64, types.Uint, types.Uint8, types.Uint16, types.Uint32, types.UntypedInt, types.UntypedRune:
			return "Int"
		case types.Uint64:
			return "UInt64"
		case types.Bool, types.UntypedBool:
			return "Bool"
		case types.Float64, types.UntypedFloat:
			return "F64"
		}
	}
	return ""
}
type xenv struct {
	s     *skel
	atoms *atomSet
	ok    bool // false once something outside the subset was met (only used in tentative mode)
	soft  bool // tentative: do not abort, set ok = false
	why   string
	// resolve, when set, maps a Go expression directly to a Lean term (parameters / fields of fully translated functions)
	resolve func(ast.Expr) (string, bool)
}

func (e *xenv) fail(p token.Pos, format string, a ...interface{}) string {
	if e.soft {
		if e.ok {
			e.why = fmt.Sprintf(format, a...)
		}
		e.ok = false
		return "?"
	}
	fatal(p, format, a...)
	return ""
}

func (e *xenv) typ(x ast.Expr) types.Type {
	if tv, ok := e.s.pi.info.Types[x]; ok {
		return tv.Type
	}
	if id, ok := x.(*ast.Ident); ok {
		if o := e.s.pi.info.Uses[id]; o != nil {
			return o.Type()
		}
		if o := e.s.pi.info.Defs[id]; o != nil {
			return o.Type()
		}
	}
	return nil
}

func (e *xenv) kind(x ast.Expr) string { return e.s.kindOf(e.typ(x)) }

func (e *xenv) atomOf(x ast.Expr) string {
	k := e.kind(x)
	if k == "" {
		return e.fail(x.Pos(), "`%s` has type %v, which is outside the translated subset", oneLine(x), e.typ(x))
	}
	return e.atoms.get(oneLine(x), k)
}

func litOf(p token.Pos, v constant.Value, k string) string {
	switch k {
	case "Bool":
		if constant.BoolVal(v) {
			return "true"
		}
		return "false"
	case "Int":
		iv := constant.ToInt(v)
		if iv.Kind() != constant.Int {
			fatal(p, "non-integral constant of integer kind")
		}
		s := iv.ExactString()
		if strings.HasPrefix(s, "-") {
			return "(" + s + ")"
		}
		return s
	case "UInt64":
		iv := constant.ToInt(v)
		u, ok := constant.Uint64Val(iv)
		if !ok {
			fatal(p, "constant does not fit uint64")
		}
		return fmt.Sprintf("(0x%x : UInt64)", u)
	case "F64":
		return fmt.Sprintf("(⟨0x%016x⟩ : F64)", f64bits(p, v))
	}
	fatal(p, "constant of unsupported kind")
	return ""
}

func isNilExpr(e *xenv, x ast.Expr) bool {
	tv, ok := e.s.pi.info.Types[unparen(x)]
	return ok && tv.IsNil()
}

// x translates an expression; the result is a Lean term of kind e.kind(x).
func (e *xenv) x(x ast.Expr) string {
	x = unparen(x)
	if tv, ok := e.s.pi.info.Types[x]; ok && tv.Value != nil {
		k := e.s.kindOf(tv.Type)
		if sp, isEnum := enums[typeKey(tv.Type)]; isEnum {
			// only a NAMED constant of the enum type has a constructor
			var id *ast.Ident
			switch v := x.(type) {
			case *ast.Ident:
				id = v
			case *ast.SelectorExpr:
				id = v.Sel
			}
			if id != nil {
				if c, ok := e.s.pi.info.Uses[id].(*types.Const); ok {
					for _, cc := range sp.consts {
						if cc[0] == c.Name() {
							return sp.lean + "." + cc[1]
						}
					}
				}
			}
			return e.fail(x.Pos(), "constant `%s` of enum type %v is not one of its named constants", oneLine(x), tv.Type)
		}
		switch k {
		case "":
			return e.fail(x.Pos(), "constant `%s` of type %v is outside the translated subset", oneLine(x), tv.Type)
		case "D", "P":
			return e.atoms.get(oneLine(x), k) // a constant of the abstract carrier: named by its source text
		}
		return litOf(x.Pos(), tv.Value, k)
	}
	if e.resolve != nil {
		if t, ok := e.resolve(x); ok {
			return t
		}
	}
	switch v := x.(type) {
	case *ast.UnaryExpr:
		switch {
		case v.Op == token.NOT:
			return "!" + atomize(e.x(v.X))
		case v.Op == token.SUB && e.kind(v.X) == "Int":
			return "-" + atomize(e.x(v.X))
		case v.Op == token.SUB && e.kind(v.X) == "F64":
			return "F64.neg " + atomize(e.x(v.X))
		}
		return e.fail(v.Pos(), "unary %s in `%s` is outside the translated subset", v.Op, oneLine(v))
	case *ast.BinaryExpr:
		return e.binary(v)
	case *ast.CallExpr:
		if ftv, ok := e.s.pi.info.Types[v.Fun]; ok && ftv.IsType() {
			if len(v.Args) == 1 && e.kind(v.Args[0]) != "" && e.s.kindOf(ftv.Type) == e.kind(v.Args[0]) {
				return e.x(v.Args[0]) // conversion inside one kind
			}
			return e.atomOf(x)
		}
		if t, ok := e.distCall(v); ok {
			return t
		}
		if fn := e.s.calleeOf(v); fn != nil {
			if kf, ok := e.s.known[funcKey(fn)]; ok {
				var args []string
				if kf.recvArg {
					sel, ok := unparen(v.Fun).(*ast.SelectorExpr)
					if !ok {
						return e.fail(v.Pos(), "call of %s without a receiver", kf.lean)
					}
					args = append(args, atomize(e.x(sel.X)))
				}
				for _, a := range v.Args {
					args = append(args, atomize(e.x(a)))
				}
				recv := ""
				if sel, ok := unparen(v.Fun).(*ast.SelectorExpr); ok {
					if _, isSel := e.s.pi.info.Selections[sel]; isSel {
						recv = oneLine(sel.X)
					}
				}
				if kf.variadic {
					if v.Ellipsis != token.NoPos || len(args) < 1 {
						return e.fail(v.Pos(), "call shape of variadic %s", kf.lean)
					}
					args = []string{args[0], "[" + strings.Join(args[1:], ", ") + "]"}
				}
				for _, ex := range kf.extra {
					// atoms of the callee are field chains of its receiver: re-rooted at the actual receiver
					i := strings.Index(ex, ".")
					if recv == "" || i < 0 {
						return e.fail(v.Pos(), "call of %s without a receiver to resolve %s", kf.lean, ex)
					}
					args = append(args, e.atoms.get(recv+ex[i:], "Int"))
				}
				if kf.lean == "id" && len(args) == 1 {
					return args[0]
				}
				return kf.lean + " " + strings.Join(args, " ")
			}
		}
		return e.atomOf(x)
	case *ast.Ident, *ast.SelectorExpr, *ast.IndexExpr, *ast.StarExpr:
		return e.atomOf(x)
	}
	return e.fail(x.Pos(), "expression `%s` (%T) is outside the translated subset", oneLine(x), x)
}

// distCall: the methods of the Go `distance` interface over the abstract carrier D (dist mode), see main.go.
func (e *xenv) distCall(c *ast.CallExpr) (string, bool) {
	if !e.s.dist {
		return "", false
	}
	sel, ok := unparen(c.Fun).(*ast.SelectorExpr)
	if !ok {
		return "", false
	}
	si, ok := e.s.pi.info.Selections[sel]
	if !ok || si.Kind() != types.MethodVal {
		return "", false
	}
	rt := si.Recv()
	if p, ok := rt.(*types.Pointer); ok {
		rt = p.Elem()
	}
	if k := typeKey(rt); k != "s2.distance" && k != "s2.minDistance" && k != "s2.maxDistance" {
		return "", false
	}
	name := si.Obj().Name()
	// the receiver of zero / infinity / fromChordAngle only selects the distance type: it must be a pure accessor chain
	pureRecv := func() bool {
		ok := true
		ast.Inspect(sel.X, func(n ast.Node) bool {
			if cc, isCall := n.(*ast.CallExpr); isCall {
				if s2, isSel := unparen(cc.Fun).(*ast.SelectorExpr); !isSel || s2.Sel.Name != "distance" || len(cc.Args) != 0 {
					ok = false
				}
			}
			return ok
		})
		return ok
	}
	switch {
	case name == "less" && len(c.Args) == 1:
		return "I.less " + atomize(e.x(sel.X)) + " " + atomize(e.x(c.Args[0])), true
	case name == "sub" && len(c.Args) == 1:
		return "I.sub " + atomize(e.x(sel.X)) + " " + atomize(e.x(c.Args[0])), true
	case name == "zero" && len(c.Args) == 0 && pureRecv():
		return "I.zero", true
	case name == "infinity" && len(c.Args) == 0 && pureRecv():
		return "I.infinity", true
	case name == "chordAngle" && len(c.Args) == 0:
		return e.x(sel.X), true
	case name == "fromChordAngle" && len(c.Args) == 1 && pureRecv():
		return e.x(c.Args[0]), true
	}
	return "", false
}

func (s *skel) calleeOf(c *ast.CallExpr) *types.Func {
	switch f := unparen(c.Fun).(type) {
	case *ast.Ident:
		fn, _ := s.pi.info.Uses[f].(*types.Func)
		return fn
	case *ast.SelectorExpr:
		if sel, ok := s.pi.info.Selections[f]; ok {
			fn, _ := sel.Obj().(*types.Func)
			return fn
		}
		fn, _ := s.pi.info.Uses[f.Sel].(*types.Func)
		return fn
	}
	return nil
}

var cmpLean = map[token.Token]string{token.LSS: "<", token.LEQ: "≤", token.GTR: ">", token.GEQ: "≥"}

func (e *xenv) binary(b *ast.BinaryExpr) string {
	switch b.Op {
	case token.LAND:
		return atomize(e.x(b.X)) + " && " + atomize(e.x(b.Y))
	case token.LOR:
		return atomize(e.x(b.X)) + " || " + atomize(e.x(b.Y))
	}
	// x == nil
	if (b.Op == token.EQL || b.Op == token.NEQ) && (isNilExpr(e, b.X) || isNilExpr(e, b.Y)) {
		o := b.X
		if isNilExpr(e, b.X) {
			o = b.Y
		}
		a := e.atoms.get(oneLine(o)+" == nil", "Bool")
		if b.Op == token.NEQ {
			return "!" + a
		}
		return a
	}
	kx, ky := e.kind(b.X), e.kind(b.Y)
	if kx == "" || kx != ky {
		return e.fail(b.Pos(), "`%s`: operands of types %v and %v are outside the translated subset", oneLine(b), e.typ(b.X), e.typ(b.Y))
	}
	X, Y := atomize(e.x(b.X)), atomize(e.x(b.Y))
	if kx == "F64" {
		switch b.Op {
		case token.ADD:
			return "F64.add " + X + " " + Y
		case token.SUB:
			return "F64.sub " + X + " " + Y
		case token.MUL:
			return "F64.mul " + X + " " + Y
		case token.QUO:
			return "F64.div " + X + " " + Y
		case token.LSS:
			return "F64.lt " + X + " " + Y
		case token.LEQ:
			return "F64.le " + X + " " + Y
		case token.GTR:
			return "F64.lt " + Y + " " + X
		case token.GEQ:
			return "F64.le " + Y + " " + X
		case token.EQL:
			return "F64.feq " + X + " " + Y
		case token.NEQ:
			return "!(F64.feq " + X + " " + Y + ")"
		}
		return e.fail(b.Pos(), "float operator %s is outside the translated subset", b.Op)
	}
	if kx == "P" {
		switch b.Op {
		case token.EQL:
			return "G.eq " + X + " " + Y
		case token.NEQ:
			return "!(G.eq " + X + " " + Y + ")"
		}
		return e.fail(b.Pos(), "operator %s on points is outside the translated subset", b.Op)
	}
	switch b.Op {
	case token.EQL:
		return X + " == " + Y
	case token.NEQ:
		return X + " != " + Y
	case token.LSS, token.LEQ, token.GTR, token.GEQ:
		if kx != "Int" && kx != "UInt64" {
			return e.fail(b.Pos(), "ordered comparison of %s values", kx)
		}
		return "decide (" + X + " " + cmpLean[b.Op] + " " + Y + ")"
	}
	if kx != "Int" {
		return e.fail(b.Pos(), "`%s`: operator %s on %s is outside the translated subset", oneLine(b), b.Op, kx)
	}
	switch b.Op {
	case token.ADD:
		return X + " + " + Y
	case token.SUB:
		return X + " - " + Y
	case token.MUL:
		return X + " * " + Y
	case token.QUO:
		return "Int.tdiv " + X + " " + Y
	case token.REM:
		return "Int.tmod " + X + " " + Y
	case token.SHL:
		return X + " * 2 ^ (" + Y + ").toNat"
	}
	return e.fail(b.Pos(), "`%s`: operator %s is outside the translated subset", oneLine(b), b.Op)
}

func isAtomRoot(x ast.Expr) bool {
	switch unparen(x).(type) {
	case *ast.Ident, *ast.SelectorExpr, *ast.IndexExpr, *ast.StarExpr:
		return true
	}
	return false
}

// ---- per function

type fnx struct {
	s     *skel
	name  string
	key   string
	fd    *ast.FuncDecl
	nCond int
	nVal  int
	defs  bytes.Buffer
}

// try translates x tentatively; ok=false if it is outside the subset.
func (f *fnx) try(x ast.Expr) (string, *atomSet, bool) {
	e := &xenv{s: f.s, atoms: &atomSet{}, ok: true, soft: true}
	t := f.tr(e, x)
	return t, e.atoms, e.ok && e.kind(x) != ""
}

func (f *fnx) tr(e *xenv, x ast.Expr) string {
	return e.x(x)
}

func (f *fnx) cond(c ast.Expr, what string) string {
	e := &xenv{s: f.s, atoms: &atomSet{}, ok: true, soft: !f.s.strict}
	if e.kind(c) != "Bool" {
		fatal(c.Pos(), "condition of kind %v", e.typ(c))
	}
	t := e.x(c)
	if !e.ok {
		// not arithmetic/logic over atoms (comparison of interface values …): the text stays in the shape
		return "‹" + oneLine(c) + "›"
	}
	n := fmt.Sprintf("%s_cond%d", f.name, f.nCond)
	f.nCond++
	fmt.Fprintf(&f.defs, "/-- %s: %s condition of %s: `%s` -/\ndef %s%s : Bool :=\n  %s\n\n", relline(c.Pos()), what, f.key, oneLine(c), n, e.atoms.params(), t)
	return n[len(f.name)+1:] + e.atoms.args()
}

// args: the Go expressions that feed the parameters of a cond/val definition, in parameter order.  They are part
// of the shape string: an operand swap that also swaps the order of first occurrence (and so leaves the definition
// unchanged up to parameter names) changes the shape.
func (a *atomSet) args() string {
	var ts []string
	for _, x := range a.list {
		ts = append(ts, x.text)
	}
	return "(" + strings.Join(ts, ", ") + ")"
}

// hole: the text of x in the shape, computational parts replaced by val<k>.
func (f *fnx) hole(x ast.Expr) string {
	if x == nil {
		return ""
	}
	ux := unparen(x)
	if fl, ok := ux.(*ast.FuncLit); ok {
		return "func{" + f.block(fl.Body.List) + "}"
	}
	tv, hasTV := f.s.pi.info.Types[ux]
	isConst := hasTV && tv.Value != nil
	if !isAtomRoot(ux) && !isConst {
		if t, atoms, ok := f.try(ux); ok {
			// a call of an untranslated function is an atom: look inside its arguments instead
			if !(len(atoms.list) == 1 && t == atoms.list[0].name) {
				k := (&xenv{s: f.s}).kind(ux)
				n := fmt.Sprintf("%s_val%d", f.name, f.nVal)
				f.nVal++
				fmt.Fprintf(&f.defs, "/-- %s: value in %s: `%s` -/\ndef %s%s : %s :=\n  %s\n\n", relline(ux.Pos()), f.key, oneLine(ux), n, atoms.params(), k, t)
				return n[len(f.name)+1:] + atoms.args()
			}
		}
	}
	switch v := ux.(type) {
	case *ast.CallExpr:
		var as []string
		for _, a := range v.Args {
			as = append(as, f.hole(a))
		}
		ell := ""
		if v.Ellipsis != token.NoPos {
			ell = "..."
		}
		return oneLine(v.Fun) + "(" + strings.Join(as, ", ") + ell + ")"
	case *ast.CompositeLit:
		var es []string
		for _, el := range v.Elts {
			if kv, ok := el.(*ast.KeyValueExpr); ok {
				es = append(es, oneLine(kv.Key)+": "+f.hole(kv.Value))
			} else {
				es = append(es, f.hole(el))
			}
		}
		t := ""
		if v.Type != nil {
			t = oneLine(v.Type)
		}
		return t + "{" + strings.Join(es, ", ") + "}"
	case *ast.UnaryExpr:
		if v.Op == token.AND {
			return "&" + f.hole(v.X)
		}
	case *ast.TypeAssertExpr:
		return f.hole(v.X) + ".(" + oneLine(v.Type) + ")"
	}
	return oneLine(ux)
}

func (f *fnx) stmt(s ast.Stmt) string {
	switch v := s.(type) {
	case nil:
		return ""
	case *ast.BlockStmt:
		return "{" + f.block(v.List) + "}"
	case *ast.IfStmt:
		init := ""
		if v.Init != nil {
			init = "[" + f.stmt(v.Init) + "]"
		}
		t := "if" + init + " " + f.cond(v.Cond, "if") + " {" + f.block(v.Body.List) + "}"
		if v.Else != nil {
			switch el := v.Else.(type) {
			case *ast.BlockStmt:
				t += " else {" + f.block(el.List) + "}"
			default:
				t += " else " + f.stmt(el)
			}
		}
		return t
	case *ast.ForStmt:
		t := "for"
		if v.Init != nil {
			t += "[" + f.stmt(v.Init) + "]"
		}
		if v.Cond != nil {
			t += " " + f.cond(v.Cond, "for")
		}
		if v.Post != nil {
			t += " [" + f.stmt(v.Post) + "]"
		}
		return t + " {" + f.block(v.Body.List) + "}"
	case *ast.RangeStmt:
		kv := ""
		if v.Key != nil {
			kv = oneLine(v.Key)
		}
		if v.Value != nil {
			kv += ", " + oneLine(v.Value)
		}
		return "range " + kv + " " + v.Tok.String() + " " + f.hole(v.X) + " {" + f.block(v.Body.List) + "}"
	case *ast.ReturnStmt:
		var rs []string
		for _, r := range v.Results {
			rs = append(rs, f.hole(r))
		}
		return strings.TrimSpace("return " + strings.Join(rs, ", "))
	case *ast.AssignStmt:
		var ls, rs []string
		for _, l := range v.Lhs {
			ls = append(ls, oneLine(l))
		}
		for _, r := range v.Rhs {
			rs = append(rs, f.hole(r))
		}
		return strings.Join(ls, ", ") + " " + v.Tok.String() + " " + strings.Join(rs, ", ")
	case *ast.ExprStmt:
		return f.hole(v.X)
	case *ast.IncDecStmt:
		return oneLine(v.X) + v.Tok.String()
	case *ast.BranchStmt:
		if v.Label != nil {
			return v.Tok.String() + " " + v.Label.Name
		}
		return v.Tok.String()
	case *ast.DeclStmt:
		if gd, ok := v.Decl.(*ast.GenDecl); ok {
			// without the comments attached to the declaration
			cp := *gd
			cp.Doc = nil
			cp.Specs = nil
			for _, sp := range gd.Specs {
				if vs, ok := sp.(*ast.ValueSpec); ok {
					c := *vs
					c.Doc, c.Comment = nil, nil
					cp.Specs = append(cp.Specs, &c)
				} else {
					cp.Specs = append(cp.Specs, sp)
				}
			}
			return oneLine(&cp)
		}
		return oneLine(v)
	case *ast.DeferStmt:
		return "defer " + f.hole(v.Call)
	case *ast.LabeledStmt:
		return v.Label.Name + ": " + f.stmt(v.Stmt)
	case *ast.SwitchStmt:
		t := "switch"
		if v.Init != nil {
			t += "[" + f.stmt(v.Init) + "]"
		}
		if v.Tag != nil {
			t += " " + f.hole(v.Tag)
		}
		var cs []string
		for _, c := range v.Body.List {
			cc := c.(*ast.CaseClause)
			var es []string
			for _, x := range cc.List {
				es = append(es, f.hole(x))
			}
			h := "default"
			if cc.List != nil {
				h = "case " + strings.Join(es, ", ")
			}
			cs = append(cs, h+": "+f.block(cc.Body))
		}
		return t + " {" + strings.Join(cs, " | ") + "}"
	}
	fatal(s.Pos(), "statement `%s` (%T) is outside the translated subset", oneLine(s), s)
	return ""
}

func (f *fnx) block(list []ast.Stmt) string {
	var ts []string
	for _, s := range list {
		ts = append(ts, f.stmt(s))
	}
	return strings.Join(ts, "; ")
}

func leanString(s string) string {
	s = strings.ReplaceAll(s, "\\", "\\\\")
	s = strings.ReplaceAll(s, "\"", "\\\"")
	return "\"" + s + "\""
}

// extract emits the skeleton of pkg function `key` under the Lean name prefix `name`.
func (s *skel) extract(key, name string) {
	fd := findFunc(s.pi, key)
	f := &fnx{s: s, name: name, key: key, fd: fd}
	shape := f.block(fd.Body.List)
	sig := oneLine(&ast.FuncDecl{Recv: fd.Recv, Name: fd.Name, Type: fd.Type})
	fmt.Fprintf(s.out, "/-! ### %s: `%s` -/\n\n", relline(fd.Pos()), sig)
	s.out.Write(f.defs.Bytes())
	fmt.Fprintf(s.out, "def %s_numConds : Nat := %d\ndef %s_numVals : Nat := %d\n", name, f.nCond, name, f.nVal)
	fmt.Fprintf(s.out, "/-- the statement structure of %s; cond<k> / val<k> stand for the definitions above -/\ndef %s_shape : String :=\n  %s\n\n", key, name, leanString(shape))
	s.facts = append(s.facts, fact{Name: s.pi.pkg.Name() + "." + key, Kind: "skeleton", Pos: relline(fd.Pos()),
		Lean: fmt.Sprintf("S2.Generated.%s.%s_{shape,cond0..%d,val0..%d}", s.ns, name, f.nCond-1, f.nVal-1), Sha256: sha(src(fd))})
}
// intConst emits a package-level integer constant.
func (s *skel) intConst(name, lean string) {
	o, ok := s.pi.pkg.Scope().Lookup(name).(*types.Const)
	if !ok {
		die("constant %s.%s not found", s.pi.pkg.Name(), name)
	}
	fmt.Fprintf(s.out, "/-- %s: `%s` -/\ndef %s : Int := %s\n\n", relline(o.Pos()), name, lean, litOf(o.Pos(), o.Val(), "Int"))
	s.facts = append(s.facts, fact{Name: s.pi.pkg.Name() + "." + name, Kind: "const", Pos: relline(o.Pos()), Lean: "S2.Generated." + s.ns + "." + lean, Sha256: sha(o.Val().ExactString())})
}

// structFields emits the field list of a struct as a string (`name type; …`).
func (s *skel) structFields(name, lean string) {
	o := s.pi.pkg.Scope().Lookup(name)
	if o == nil {
		die("type %s.%s not found", s.pi.pkg.Name(), name)
	}
	st, ok := o.Type().Underlying().(*types.Struct)
	if !ok {
		fatal(o.Pos(), "%s is not a struct", name)
	}
	var fs []string
	for i := 0; i < st.NumFields(); i++ {
		fs = append(fs, st.Field(i).Name()+" "+types.TypeString(st.Field(i).Type(), func(p *types.Package) string { return p.Name() }))
	}
	fmt.Fprintf(s.out, "/-- %s: the fields of `%s` -/\ndef %s : String :=\n  %s\n\n", relline(o.Pos()), name, lean, leanString(strings.Join(fs, "; ")))
	s.facts = append(s.facts, fact{Name: s.pi.pkg.Name() + "." + name, Kind: "struct", Pos: relline(o.Pos()), Lean: "S2.Generated." + s.ns + "." + lean, Sha256: sha(strings.Join(fs, ";"))})
}

// floatConst emits the float64 bit pattern of a package-level float constant.
func (s *skel) floatConst(name, lean string) {
	o, ok := s.pi.pkg.Scope().Lookup(name).(*types.Const)
	if !ok {
		die("constant %s.%s not found", s.pi.pkg.Name(), name)
	}
	fmt.Fprintf(s.out, "/-- %s: `%s` = %s -/\ndef %s : UInt64 := 0x%016x\n\n", relline(o.Pos()), name, o.Val().String(), lean, f64bits(o.Pos(), o.Val()))
	s.facts = append(s.facts, fact{Name: s.pi.pkg.Name() + "." + name, Kind: "const", Pos: relline(o.Pos()), Lean: "S2.Generated." + s.ns + "." + lean, Sha256: sha(o.Val().ExactString())})
}

var _ = constant.MakeInt64
