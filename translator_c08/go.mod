module translator_c08

go 1.21
