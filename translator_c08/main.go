// Command translator_c08 re-reads <repo> (type-checked with go/types, constants evaluated with go/constant exactly as
// the compiler does) and emits Lean definitions of the query layer of golang/geo:
//
//   - s2/edge_query.go (search, covering, result ordering)                       -> QueryFns.lean     (C08)
//   - s2/min_distance_targets.go, s2/max_distance_targets.go (distance types,
//     targets) and the s1.ChordAngle methods they call                           -> DistTargetFns.lean (C08)
//   - s2/contains_point_query.go, s2/crossing_edge_query.go, the containment
//     functions of s2/loop.go, s2/polygon.go, s2/shapeutil.go                    -> ContainFns.lean   (C04)
//   - the ShapeIndexIterator of s2/shapeindex.go                                 -> LocateFns.lean    (C06)
//
// into <out>.  lean/S2Proofs/Ties/{C08_Query,C04_Contain,C06_Locate}.lean prove `hand-written model = generated
// definition` (S2.EdgeQueryM, Oracle.C08.fMin/fMax, S2.Contain, S2.Locate).
//
// Two translation styles (rules at their generators):
//
//	skel.go  SKELETON extraction (as translator_c19/rest.go, extended): every condition `F_cond<k>`, every computed
//	         value `F_val<k>`, the statement structure `F_shape`.  New kinds besides Int / UInt64 / Bool / F64:
//	           D        the Go `distance` interface and s1.ChordAngle in edge_query.go: x.less(y) -> I.less x y,
//	                    x.sub(y) -> I.sub x y, T.zero() -> I.zero, T.infinity() -> I.infinity, ==/!= -> ==/!=,
//	                    chordAngle() / fromChordAngle(x) / <recv>.distance() -> identity (the hand model carries the
//	                    error and the limit as values of the distance type), for the `I : DistI D` of the hand model;
//	           P        s2.Point in the containment files: a == b -> G.eq a b for the `G : Geo P` of the hand model;
//	           enums    Crossing, VertexModel, CrossingType, CellRelation -> the hand model's inductive types, by
//	                    constant NAME (the constant list of the Go type must be exactly the expected one).
//	full.go  FULL translation into Lean functions of: the ShapeIndexIterator methods (state = position),
//	         EdgeQueryResult.Less, the s1.ChordAngle arithmetic used by minDistance.sub / maxDistance.sub.
//
// Anything else inside a function it is asked to translate is a fatal error (exit 1 with file:line).
// Output is a pure function of the source tree (fixed orders, no maps iterated).
//
// usage: translator_c08 -repo /repo -out lean/S2/Generated [-facts facts.json]
package main

import (
	"bytes"
	"crypto/sha256"
	"encoding/json"
	"flag"
	"fmt"
	"go/ast"
	"go/build"
	"go/constant"
	"go/importer"
	"go/parser"
	"go/printer"
	"go/token"
	"go/types"
	"math"
	"os"
	"path/filepath"
	"sort"
	"strings"
)

const tool = "translator_c08"

// ---------------------------------------------------------------- loading

const modPrefix = "github.com/golang/geo/"

type loader struct {
	fset *token.FileSet
	repo string
	std  types.Importer
	pk   map[string]*pkgInfo
}

type pkgInfo struct {
	pkg   *types.Package
	info  *types.Info
	files []*ast.File
	names []string
}

func (m *loader) Import(path string) (*types.Package, error) {
	if strings.HasPrefix(path, modPrefix) {
		p, err := m.load(path)
		if err != nil {
			return nil, err
		}
		return p.pkg, nil
	}
	return m.std.Import(path)
}

func (m *loader) load(path string) (*pkgInfo, error) {
	if p, ok := m.pk[path]; ok {
		return p, nil
	}
	dir := filepath.Join(m.repo, strings.TrimPrefix(path, modPrefix))
	ctx := build.Default
	ctx.BuildTags = nil // hooks (`//go:build verif`) are not part of the translated source
	bp, err := ctx.ImportDir(dir, 0)
	if err != nil {
		return nil, err
	}
	pi := &pkgInfo{}
	names := append([]string{}, bp.GoFiles...)
	sort.Strings(names)
	for _, f := range names {
		af, err := parser.ParseFile(m.fset, filepath.Join(dir, f), nil, parser.ParseComments)
		if err != nil {
			return nil, err
		}
		pi.files = append(pi.files, af)
		pi.names = append(pi.names, f)
	}
	pi.info = &types.Info{
		Types:      map[ast.Expr]types.TypeAndValue{},
		Defs:       map[*ast.Ident]types.Object{},
		Uses:       map[*ast.Ident]types.Object{},
		Selections: map[*ast.SelectorExpr]*types.Selection{},
		Scopes:     map[ast.Node]*types.Scope{},
	}
	conf := types.Config{Importer: m}
	pi.pkg, err = conf.Check(path, m.fset, pi.files, pi.info)
	if err != nil {
		return nil, err
	}
	m.pk[path] = pi
	return pi, nil
}

// ---------------------------------------------------------------- errors / helpers

var fset = token.NewFileSet()
var repoRoot string

func relpos(p token.Pos) string {
	pos := fset.Position(p)
	if r, err := filepath.Rel(repoRoot, pos.Filename); err == nil {
		pos.Filename = r
	}
	return fmt.Sprintf("%s:%d:%d", pos.Filename, pos.Line, pos.Column)
}

func relline(p token.Pos) string {
	pos := fset.Position(p)
	if r, err := filepath.Rel(repoRoot, pos.Filename); err == nil {
		pos.Filename = r
	}
	return fmt.Sprintf("%s:%d", pos.Filename, pos.Line)
}

func fatal(p token.Pos, format string, a ...interface{}) {
	fmt.Fprintf(os.Stderr, "%s: %s: %s\n", tool, relpos(p), fmt.Sprintf(format, a...))
	os.Exit(1)
}

func die(format string, a ...interface{}) {
	fmt.Fprintf(os.Stderr, "%s: %s\n", tool, fmt.Sprintf(format, a...))
	os.Exit(1)
}

func src(n ast.Node) string {
	var b bytes.Buffer
	printer.Fprint(&b, fset, n)
	return b.String()
}

func oneLine(n ast.Node) string {
	s := strings.Join(strings.Fields(src(n)), " ")
	s = strings.ReplaceAll(s, "-/", "- /")
	s = strings.ReplaceAll(s, "/-", "/ -")
	return s
}

func sha(s string) string {
	h := sha256.Sum256([]byte(s))
	return fmt.Sprintf("%x", h[:])
}

var reserved = map[string]bool{"at": true, "from": true, "end": true, "fun": true, "show": true, "have": true, "open": true,
	"in": true, "then": true, "else": true, "if": true, "let": true, "do": true, "match": true, "with": true, "def": true,
	"theorem": true, "where": true, "by": true, "this": true, "variable": true, "section": true, "namespace": true, "instance": true,
	"structure": true, "class": true, "deriving": true, "mutual": true, "private": true, "protected": true, "export": true,
	"import": true, "return": true, "for": true, "nomatch": true, "Type": true, "Prop": true, "Sort": true,
	// operations / constants of the carrier class and of the order classes
	"feq": true, "add": true, "sub": true, "half": true, "dbl": true, "abs": true, "rem2pi": true, "zero": true, "one": true,
	"negOne": true, "pi": true, "negPi": true, "twoPi": true, "halfPi": true, "negHalfPi": true, "twoEps": true, "max": true,
	"min": true, "decide": true, "true": true, "false": true, "α": true}

func leanLocal(name string) string {
	if reserved[name] {
		return name + "'"
	}
	return name
}

func unparen(e ast.Expr) ast.Expr {
	for {
		p, ok := e.(*ast.ParenExpr)
		if !ok {
			return e
		}
		e = p.X
	}
}

func lowerFirst(s string) string {
	return strings.ToLower(s[:1]) + s[1:]
}

type fact struct {
	Name   string `json:"name"`
	Kind   string `json:"kind"`
	Pos    string `json:"pos"`
	Lean   string `json:"lean"`
	Sha256 string `json:"sha256"`
}

// findFunc finds `Name` or `Recv.Name` in the package.
func findFunc(pi *pkgInfo, key string) *ast.FuncDecl {
	recv, name := "", key
	if i := strings.Index(key, "."); i >= 0 {
		recv, name = key[:i], key[i+1:]
	}
	var found *ast.FuncDecl
	for _, f := range pi.files {
		for _, d := range f.Decls {
			fd, ok := d.(*ast.FuncDecl)
			if !ok || fd.Name.Name != name {
				continue
			}
			r := ""
			if fd.Recv != nil && len(fd.Recv.List) == 1 {
				t := fd.Recv.List[0].Type
				if s, ok := t.(*ast.StarExpr); ok {
					t = s.X
				}
				if id, ok := t.(*ast.Ident); ok {
					r = id.Name
				}
			}
			if r != recv {
				continue
			}
			if found != nil {
				die("%s.%s declared twice", pi.pkg.Name(), key)
			}
			found = fd
		}
	}
	if found == nil || found.Body == nil {
		die("function %s.%s not found in %s — the translated source changed shape", pi.pkg.Name(), key, pi.pkg.Path())
	}
	return found
}

func findVarSpec(pi *pkgInfo, name string) (*ast.ValueSpec, int) {
	for _, f := range pi.files {
		for _, d := range f.Decls {
			gd, ok := d.(*ast.GenDecl)
			if !ok || (gd.Tok != token.VAR && gd.Tok != token.CONST) {
				continue
			}
			for _, s := range gd.Specs {
				vs := s.(*ast.ValueSpec)
				for i, id := range vs.Names {
					if id.Name == name {
						if len(vs.Values) != len(vs.Names) {
							fatal(vs.Pos(), "declaration of %s without its own initialiser", name)
						}
						return vs, i
					}
				}
			}
		}
	}
	die("package-level %s.%s not found — the translated source changed shape", pi.pkg.Name(), name)
	return nil, 0
}

func typeKey(t types.Type) string {
	switch v := t.(type) {
	case *types.Named:
		if v.Obj().Pkg() == nil {
			return v.Obj().Name()
		}
		return v.Obj().Pkg().Name() + "." + v.Obj().Name()
	case *types.Basic:
		return v.Name()
	case *types.Pointer:
		return "*" + typeKey(v.Elem())
	case *types.Slice:
		return "[]" + typeKey(v.Elem())
	}
	return t.String()
}

func funcKey(f *types.Func) string {
	sig := f.Type().(*types.Signature)
	pk := ""
	if f.Pkg() != nil {
		pk = f.Pkg().Name() + "."
	}
	if r := sig.Recv(); r != nil {
		t := r.Type()
		if p, ok := t.(*types.Pointer); ok {
			t = p.Elem()
		}
		if n, ok := t.(*types.Named); ok {
			return pk + n.Obj().Name() + "." + f.Name()
		}
	}
	return pk + f.Name()
}

func f64bits(p token.Pos, v constant.Value) uint64 {
	f, _ := constant.Float64Val(constant.ToFloat(v))
	if math.IsInf(f, 0) || math.IsNaN(f) {
		fatal(p, "constant does not fit a float64")
	}
	return math.Float64bits(f)
}

// sameF64: the two constants round to the same float64 (go/types has already rounded typed constants; the
// compiler emits exactly this value).  +0 and -0 cannot arise from Go constant expressions.
func sameF64(a, b constant.Value) bool {
	return f64bits(token.NoPos, a) == f64bits(token.NoPos, b)
}
func simpleAtom(s string) bool {
	for _, r := range s {
		if !(r == '_' || r == '.' || r == '\'' || (r >= '0' && r <= '9') || (r >= 'a' && r <= 'z') || (r >= 'A' && r <= 'Z')) {
			return false
		}
	}
	return s != ""
}

func atomize(s string) string {
	if simpleAtom(s) || (strings.HasPrefix(s, "(") && balancedWhole(s)) {
		return s
	}
	return "(" + s + ")"
}

// balancedWhole reports whether the outermost parentheses of s enclose all of s.
func balancedWhole(s string) bool {
	d := 0
	for i, r := range s {
		switch r {
		case '(':
			d++
		case ')':
			d--
			if d == 0 && i != len(s)-1 {
				return false
			}
		}
	}
	return d == 0 && strings.HasSuffix(s, ")")
}
// ---- statements

func terminates(list []ast.Stmt) bool {
	if len(list) == 0 {
		return false
	}
	switch v := list[len(list)-1].(type) {
	case *ast.ReturnStmt:
		return true
	case *ast.BlockStmt:
		return terminates(v.List)
	case *ast.IfStmt:
		if v.Else == nil {
			return false
		}
		return terminates(v.Body.List) && terminates(elseList(v.Else))
	case *ast.ExprStmt:
		if c, ok := v.X.(*ast.CallExpr); ok {
			if id, ok := c.Fun.(*ast.Ident); ok && id.Name == "panic" {
				return true
			}
		}
	}
	return false
}

func elseList(s ast.Stmt) []ast.Stmt {
	switch v := s.(type) {
	case nil:
		return nil
	case *ast.BlockStmt:
		return v.List
	default:
		return []ast.Stmt{v}
	}
}

func hasReturn(list []ast.Stmt) bool {
	found := false
	for _, s := range list {
		ast.Inspect(s, func(n ast.Node) bool {
			if _, ok := n.(*ast.ReturnStmt); ok {
				found = true
			}
			return !found
		})
	}
	return found
}
// ---------------------------------------------------------------- main

func writeFile(dir, name, content string) {
	if err := os.WriteFile(filepath.Join(dir, name), []byte(content), 0o644); err != nil {
		die("%v", err)
	}
}


func main() {
	repo := flag.String("repo", "/repo", "golang/geo checkout")
	outDir := flag.String("out", "", "output directory (lean/S2/Generated)")
	factsPath := flag.String("facts", "", "facts.json to write")
	flag.Parse()
	if *outDir == "" {
		fmt.Fprintln(os.Stderr, "need -out")
		os.Exit(2)
	}
	abs, err := filepath.Abs(*repo)
	if err != nil {
		die("%v", err)
	}
	repoRoot = abs
	ld := &loader{fset: fset, repo: abs, std: importer.ForCompiler(fset, "source", nil), pk: map[string]*pkgInfo{}}
	if err := os.MkdirAll(*outDir, 0o755); err != nil {
		die("%v", err)
	}
	var facts []fact
	files := map[string]string{}
	genAll(ld, &facts, files)
	var names []string
	for n := range files {
		names = append(names, n)
	}
	sort.Strings(names)
	type fileFact struct {
		File   string `json:"file"`
		Sha256 string `json:"sha256"`
	}
	var ff []fileFact
	for _, n := range names {
		writeFile(*outDir, n, files[n])
		ff = append(ff, fileFact{n, sha(files[n])})
	}
	if *factsPath != "" {
		js, _ := json.MarshalIndent(map[string]interface{}{"translator": tool, "files": ff, "items": facts}, "", " ")
		if err := os.WriteFile(*factsPath, append(js, '\n'), 0o644); err != nil {
			die("%v", err)
		}
	}
	fmt.Printf("%s: %d items translated into %d files\n", tool, len(facts), len(names))
}

var _ = bytes.NewBuffer
var _ = constant.MakeInt64
var _ = math.Abs
var _ = printer.Fprint
var _ = build.Default
var _ = parser.ParseFile
var _ = sha256.Sum256
