package main

import (
	"math"
	"sort"
	"strconv"
	"strings"

	"github.com/golang/geo/s2"
	"github.com/golang/geo/s2/s2intersect"
)

// Property C11, part (e): CellIndex (range / contents iteration) and s2intersect.Find.
// Only the public API is used here (the raw dump op lives in c11b_raw.go).

type idxPair struct {
	c s2.CellID
	l int32
}

func pairsTok(ps []idxPair) string {
	if len(ps) == 0 {
		return "-"
	}
	t := make([]string, len(ps))
	for i, p := range ps {
		t[i] = idx(p.c) + "/" + strconv.Itoa(int(p.l))
	}
	return strings.Join(t, ",")
}

func pPairs(s string) []idxPair {
	if s == "-" {
		return nil
	}
	var out []idxPair
	for _, t := range strings.Split(s, ",") {
		f := strings.Split(t, "/")
		out = append(out, idxPair{s2.CellID(pU64(f[0])), int32(pI(f[1]))})
	}
	return out
}

func buildIndex(ps []idxPair) *s2.CellIndex {
	ix := &s2.CellIndex{}
	for _, p := range ps {
		ix.Add(p.c, p.l)
	}
	ix.Build()
	return ix
}

// drain reports the (cell, label) pairs of the current StartUnion as "/cell/label/cell/label…".
func drainContents(ci *s2.CellIndexContentsIterator, sb *strings.Builder) {
	for ; !ci.Done(); ci.Next() {
		sb.WriteByte('/')
		sb.WriteString(idx(ci.CellID()))
		sb.WriteByte('/')
		sb.WriteString(strconv.Itoa(int(ci.Label())))
	}
}

func dashJoin(p []string) string {
	if len(p) == 0 {
		return "-"
	}
	return strings.Join(p, ",")
}

func unionsTok(cus []s2.CellUnion) string {
	if len(cus) == 0 {
		return "~"
	}
	t := make([]string, len(cus))
	for i, cu := range cus {
		t[i] = ids(cu)
	}
	return strings.Join(t, ";")
}

func pUnions(s string) []s2.CellUnion {
	if s == "~" {
		return nil
	}
	var out []s2.CellUnion
	for _, t := range strings.Split(s, ";") {
		out = append(out, s2.CellUnion(pIDs(t)))
	}
	return out
}

func lexLess(a, b []int) bool {
	for i := 0; i < len(a) && i < len(b); i++ {
		if a[i] != b[i] {
			return a[i] < b[i]
		}
	}
	return len(a) < len(b)
}

func init() {
	replayers["cidx_ranges"] = func(a []string) []string {
		ix := buildIndex(pPairs(a[0]))
		ri := s2.NewCellIndexRangeIterator(ix)
		ci := s2.NewCellIndexContentsIterator(ix)
		var out []string
		for ri.Begin(); !ri.Done(); ri.Next() {
			var sb strings.Builder
			sb.WriteString(idx(ri.StartID()))
			sb.WriteByte('/')
			sb.WriteString(idx(ri.LimitID()))
			if ri.IsEmpty() {
				sb.WriteString("/E")
			} else {
				sb.WriteString("/N")
			}
			ci.Clear()
			ci.StartUnion(ri)
			drainContents(ci, &sb)
			out = append(out, sb.String())
		}
		return []string{dashJoin(out)}
	}
	replayers["cidx_sweep"] = func(a []string) []string {
		ix := buildIndex(pPairs(a[0]))
		ci := s2.NewCellIndexContentsIterator(ix)
		var out []string
		visit := func(ri *s2.CellIndexRangeIterator) {
			var sb strings.Builder
			sb.WriteString(idx(ri.StartID()))
			sb.WriteByte('/')
			sb.WriteString(idx(ri.LimitID()))
			ci.StartUnion(ri)
			drainContents(ci, &sb)
			out = append(out, sb.String())
		}
		switch a[1] {
		case "A":
			ri := s2.NewCellIndexRangeIterator(ix)
			for ri.Begin(); !ri.Done(); ri.Next() {
				visit(ri)
			}
		case "N":
			ri := s2.NewCellIndexNonEmptyRangeIterator(ix)
			for ri.Begin(); !ri.Done(); ri.Next() {
				visit(ri)
			}
		default:
			if a[1] != "-" {
				ri := s2.NewCellIndexRangeIterator(ix)
				for _, t := range strings.Split(a[1], ",") {
					ri.Begin()
					if !ri.Advance(pI(t)) {
						panic("position out of range")
					}
					visit(ri)
				}
			}
		}
		return []string{dashJoin(out)}
	}
	replayers["cidx_seek"] = func(a []string) []string {
		ix := buildIndex(pPairs(a[0]))
		target := s2.CellID(pU64(a[1]))
		var out []string
		for _, ri := range []*s2.CellIndexRangeIterator{s2.NewCellIndexRangeIterator(ix), s2.NewCellIndexNonEmptyRangeIterator(ix)} {
			ri.Seek(target)
			out = append(out, idx(ri.StartID()))
			if ri.Done() {
				out = append(out, "-")
			} else {
				out = append(out, idx(ri.LimitID()))
			}
			out = append(out, bs(ri.Done()))
			ok := ri.Prev()
			out = append(out, bs(ok), idx(ri.StartID()))
		}
		return out
	}
	replayers["isect_find"] = func(a []string) []string {
		in := pUnions(a[0])
		cus := make([]s2.CellUnion, len(in))
		for i, cu := range in { // Find normalizes its arguments in place: give it private copies
			cus[i] = append(s2.CellUnion{}, cu...)
		}
		res := s2intersect.Find(cus)
		sort.Slice(res, func(i, j int) bool { return lexLess(res[i].Indices, res[j].Indices) })
		if len(res) == 0 {
			return []string{"~"}
		}
		t := make([]string, len(res))
		for i, x := range res {
			is := make([]string, len(x.Indices))
			for k, v := range x.Indices {
				is[k] = strconv.Itoa(v)
			}
			t[i] = strings.Join(is, ".") + ":" + ids(x.Intersection)
		}
		return []string{strings.Join(t, ";")}
	}
	generators["c11b"] = genC11b
}

func validOnly(cu []s2.CellID) []s2.CellID {
	var out []s2.CellID
	for _, c := range cu {
		if c.IsValid() {
			out = append(out, c)
		}
	}
	return out
}

// randIndexCells: structured multisets of valid cells for the index.
func (g *G) randIndexCells() []s2.CellID {
	r := g.rng
	firstLeaf := s2.CellIDFromFace(0).ChildBeginAtLevel(s2.MaxLevel)
	lastLeaf := s2.CellIDFromFace(5).ChildEndAtLevel(s2.MaxLevel).Prev()
	var cu []s2.CellID
	parts := 1 + r.Intn(3)
	for p := 0; p < parts; p++ {
		switch r.Intn(10) {
		case 0: // nothing
		case 1: // nested chain: a cell, some ancestors, first / last descendants
			c := g.randCell()
			cu = append(cu, c)
			for k := r.Intn(4); k > 0; k-- {
				cu = append(cu, c.Parent(r.Intn(c.Level()+1)))
			}
			for k := r.Intn(4); k > 0 && c.Level() < 30; k-- {
				l := c.Level() + 1 + r.Intn(30-c.Level())
				switch r.Intn(3) {
				case 0:
					cu = append(cu, c.ChildBeginAtLevel(l))
				case 1:
					cu = append(cu, c.ChildEndAtLevel(l).Prev())
				default:
					cu = append(cu, c.ChildBeginAtLevel(l).Advance(int64(r.Intn(4))))
				}
			}
		case 2: // duplicates of one cell
			c := g.randCell()
			for k := 2 + r.Intn(3); k > 0; k-- {
				cu = append(cu, c)
			}
		case 3: // complete sibling group (maybe with the parent, maybe one missing)
			c := g.randCell()
			if c.Level() == 30 {
				c = c.Parent(29)
			}
			miss := -1
			if r.Intn(3) == 0 {
				miss = r.Intn(4)
			}
			for i, ch := range c.Children() {
				if i != miss {
					cu = append(cu, ch)
				}
			}
			if r.Bool() {
				cu = append(cu, c)
			}
		case 4: // whole faces
			for f := 0; f < 6; f++ {
				if r.Intn(3) > 0 {
					cu = append(cu, s2.CellIDFromFace(f))
				}
			}
		case 5: // adjacent cells across a face boundary
			f := r.Intn(5)
			l1, l2 := r.Intn(31), r.Intn(31)
			cu = append(cu, s2.CellIDFromFace(f).ChildEndAtLevel(l1).Prev(), s2.CellIDFromFace(f+1).ChildBeginAtLevel(l2))
		case 6: // the two ends of the curve
			if r.Bool() {
				cu = append(cu, firstLeaf)
			}
			if r.Bool() {
				cu = append(cu, lastLeaf)
			}
			if r.Intn(3) == 0 {
				cu = append(cu, firstLeaf.Parent(r.Intn(31)), lastLeaf.Parent(r.Intn(31)))
			}
			if r.Intn(3) == 0 {
				cu = append(cu, firstLeaf.Next(), lastLeaf.Prev())
			}
		case 7: // curve neighbours at the same or another level
			c := g.randCell()
			cu = append(cu, c, c.Next(), c.Prev())
			if r.Bool() {
				cu = append(cu, c.RangeMax().Next(), c.RangeMin().Prev())
			}
		default:
			cu = append(cu, g.randUnionRaw()...)
		}
	}
	cu = validOnly(cu)
	if len(cu) > 40 {
		cu = cu[:40]
	}
	for i := len(cu) - 1; i > 0; i-- {
		j := r.Intn(i + 1)
		cu[i], cu[j] = cu[j], cu[i]
	}
	return cu
}

func (g *G) randIndexPairs() []idxPair {
	r := g.rng
	cells := g.randIndexCells()
	mode := r.Intn(5)
	ps := make([]idxPair, 0, len(cells)+4)
	for i, c := range cells {
		var l int32
		switch mode {
		case 0:
			l = 0
		case 1:
			l = int32(i)
		case 2:
			l = int32(r.Intn(3))
		case 3:
			l = math.MaxInt32 - int32(r.Intn(2))
		default:
			l = int32(r.Intn(1000))
		}
		ps = append(ps, idxPair{c, l})
	}
	// same cell again: same label / another label
	for k := r.Intn(3); k > 0 && len(ps) > 0; k-- {
		p := ps[r.Intn(len(ps))]
		if r.Bool() {
			p.l = int32(r.Intn(3))
		}
		ps = append(ps, p)
	}
	return ps
}

// deriveUnion builds a union related to x: identical, nested, straddling, abutting or disjoint.
func (g *G) deriveUnion(x []s2.CellID) []s2.CellID {
	r := g.rng
	mode := r.Intn(6)
	if mode == 0 {
		return append([]s2.CellID(nil), x...)
	}
	if mode == 5 {
		return g.randUnionRaw()
	}
	var t []s2.CellID
	for _, c := range x {
		switch mode {
		case 1: // nested inside
			if c.Level() < 30 {
				l := c.Level() + 1 + r.Intn(minI(3, 30-c.Level()))
				switch r.Intn(3) {
				case 0:
					t = append(t, c.ChildBeginAtLevel(l))
				case 1:
					t = append(t, c.ChildEndAtLevel(l).Prev())
				default:
					t = append(t, c.Children()[r.Intn(4)])
				}
			} else {
				t = append(t, c)
			}
		case 2: // containing / straddling
			switch r.Intn(3) {
			case 0:
				if c.Level() > 0 {
					t = append(t, c.Parent(c.Level()-1))
				}
			case 1:
				t = append(t, c, c.Next())
			default:
				t = append(t, c.Prev(), c)
			}
		case 3: // abutting: starts exactly where c ends / ends exactly where c starts
			if r.Bool() {
				t = append(t, c.Next())
			} else {
				t = append(t, c.Prev())
			}
			if r.Intn(3) == 0 {
				t = append(t, c.RangeMax().Next(), c.RangeMin().Prev())
			}
		default: // mixture
			switch r.Intn(5) {
			case 0:
				t = append(t, c)
			case 1:
				if c.Level() < 30 {
					t = append(t, c.Children()[r.Intn(4)])
				}
			case 2:
				if c.Level() > 0 {
					t = append(t, c.Parent(c.Level()-1))
				}
			case 3:
				t = append(t, c.Next())
			}
		}
	}
	return validOnly(t)
}

func genC11b(g *G) {
	r := g.rng
	_, haveRaw := replayers["cidx_raw"]
	firstLeaf := s2.CellIDFromFace(0).ChildBeginAtLevel(s2.MaxLevel)
	lastLeaf := s2.CellIDFromFace(5).ChildEndAtLevel(s2.MaxLevel).Prev()
	for k := 0; k < g.n; k++ {
		ps := g.randIndexPairs()
		if k == 0 {
			ps = nil // empty index
		}
		tok := pairsTok(ps)
		if haveRaw {
			g.emit("cidx_raw", tok)
		}
		g.emit("cidx_ranges", tok)
		g.emit("cidx_sweep", tok, "A")
		g.emit("cidx_sweep", tok, "N")
		// number of ranges, and the range boundaries (used as seek targets)
		ix := buildIndex(ps)
		ri := s2.NewCellIndexRangeIterator(ix)
		var starts []s2.CellID
		for ri.Begin(); !ri.Done(); ri.Next() {
			starts = append(starts, ri.StartID())
		}
		nr := len(starts)
		// a subsequence of positions: increasing, or with repeats and steps backwards
		var pos []string
		if r.Intn(3) > 0 {
			for p := 0; p < nr; p++ {
				if r.Intn(3) > 0 {
					pos = append(pos, is(p))
				}
			}
		} else {
			for j := r.Intn(2 * (nr + 1)); j > 0; j-- {
				pos = append(pos, is(r.Intn(nr)))
			}
		}
		g.emit("cidx_sweep", tok, dashJoin(pos))
		// seek targets: valid leaf cells at and next to every kind of boundary
		var targets []s2.CellID
		targets = append(targets, firstLeaf, lastLeaf, g.randCellAt(30))
		if nr > 0 {
			s := starts[r.Intn(nr)]
			targets = append(targets, s, s.Prev(), s.Next())
		}
		if len(ps) > 0 {
			c := ps[r.Intn(len(ps))].c
			targets = append(targets, c.RangeMin(), c.RangeMax(), c.RangeMax().Next(), c.RangeMin().Prev())
		}
		for _, t := range targets {
			if t.IsValid() && t.IsLeaf() {
				g.emit("cidx_seek", tok, idx(t))
			}
		}
		// Find: 2–4 unions derived from one another
		nu := 2 + r.Intn(3)
		if r.Intn(40) == 0 {
			nu = r.Intn(2)
		}
		many := r.Intn(6) == 0 // many small inputs: result index sets with two-digit members (11, 12, …)
		if many {
			nu = 11 + r.Intn(16)
		}
		var cus []s2.CellUnion
		var base []s2.CellID
		for i := 0; i < nu; i++ {
			var u []s2.CellID
			if i == 0 || r.Intn(4) == 0 {
				u = g.randUnionRaw()
				if len(u) > 0 {
					base = u
				}
			} else {
				src := base
				if r.Bool() && len(cus) > 0 {
					src = cus[r.Intn(len(cus))]
				}
				u = g.deriveUnion(src)
			}
			if len(u) > 24 {
				u = u[:24]
			}
			if many && len(u) > 3 {
				k := r.Intn(len(u) - 2)
				u = u[k : k+3]
			}
			if r.Intn(4) > 0 {
				u = refNormalize(u)
			}
			cus = append(cus, s2.CellUnion(u))
		}
		g.emit("isect_find", unionsTok(cus))
	}
}
