package main

// C03 — edge crossings and the EdgeCrosser.  Crossing values are printed as +1 Cross / 0 MaybeCross /
// -1 DoNotCross.  Needs the hooks of s2/verif_export_c03.go (crosser fields) and _c02.go (triageSign).
//
//   c03const             = maxError
//   c03new  a b          = aXb aTangent bTangent   (9 floats)
//   c03quad a b c d      = CS[8] VC[8] EOV[8] st:<fast|tan|maybe|degen|slow>
//        answers on the argument orders (a,b,c,d) (b,a,c,d) (a,b,d,c) (b,a,d,c) (c,d,a,b) (d,c,a,b) (c,d,b,a) (d,c,b,a)
//   c03acv  a b c        = AngleContainsVertex(a,b,c) AngleContainsVertex(c,b,a)      (a != b, b != c)
//   c03hist a b op…      = per op <out>/<fresh stateless answer>/<acb after the call> ; then field c (3 floats)
//        op tokens: R c | N d | S c d | E c d | F d

import (
	"math"
	"math/big"
	"strings"

	"github.com/golang/geo/r3"
	"github.com/golang/geo/s2"
)

func crossInt(c s2.Crossing) int { return 1 - int(c) }

func c03Perms(a, b, c, d s2.Point) [8][4]s2.Point {
	return [8][4]s2.Point{{a, b, c, d}, {b, a, c, d}, {a, b, d, c}, {b, a, d, c}, {c, d, a, b}, {d, c, a, b}, {c, d, b, a}, {d, c, b, a}}
}

func c03Stage(a, b, c, d s2.Point) string {
	e := s2.NewEdgeCrosser(a, b)
	_, _, _, aT, bT, _, _ := s2.VerifCrosserState(e)
	acb := -s2.VerifTriageSign(a, b, c)
	bda := s2.VerifTriageSign(a, b, d)
	maxError := s2.VerifC03MaxError()
	switch {
	case acb == -bda && bda != 0:
		return "fast"
	case (c.Dot(aT.Vector) > maxError && d.Dot(aT.Vector) > maxError) || (c.Dot(bT.Vector) > maxError && d.Dot(bT.Vector) > maxError):
		return "tan"
	case a == c || a == d || b == c || b == d:
		return "maybe"
	case a == b || c == d:
		return "degen"
	}
	return "slow"
}

func init() {
	replayers["c03const"] = func(a []string) []string { return []string{fx(s2.VerifC03MaxError())} }
	replayers["c03new"] = func(s []string) []string {
		p := pPtsC02(s, 2)
		e := s2.NewEdgeCrosser(p[0], p[1])
		_, _, aXb, aT, bT, _, _ := s2.VerifCrosserState(e)
		return ptArgs(aXb, aT, bT)
	}
	replayers["c03quad"] = func(s []string) []string {
		p := pPtsC02(s, 4)
		var cs, vc, eo []string
		for _, q := range c03Perms(p[0], p[1], p[2], p[3]) {
			cs = append(cs, is(crossInt(s2.CrossingSign(q[0], q[1], q[2], q[3]))))
			vc = append(vc, bs(s2.VertexCrossing(q[0], q[1], q[2], q[3])))
			eo = append(eo, bs(s2.EdgeOrVertexCrossing(q[0], q[1], q[2], q[3])))
		}
		return []string{strings.Join(cs, ","), strings.Join(vc, ","), strings.Join(eo, ","), "st:" + c03Stage(p[0], p[1], p[2], p[3])}
	}
	replayers["c03acv"] = func(s []string) []string {
		p := pPtsC02(s, 3)
		return []string{bs(s2.AngleContainsVertex(p[0], p[1], p[2])), bs(s2.AngleContainsVertex(p[2], p[1], p[0]))}
	}
	replayers["c03hist"] = func(s []string) []string {
		p := pPtsC02(s, 2)
		a, b := p[0], p[1]
		e := s2.NewEdgeCrosser(a, b)
		var cur s2.Point
		var res []string
		acb := func() string {
			_, _, _, _, _, _, v := s2.VerifCrosserState(e)
			return is(int(v))
		}
		i := 6
		rd := func() s2.Point {
			q := rawPt(pF(s[i]), pF(s[i+1]), pF(s[i+2]))
			i += 3
			return q
		}
		for i < len(s) {
			op := s[i]
			i++
			switch op {
			case "R":
				c := rd()
				e.RestartAt(c)
				cur = c
				res = append(res, "-/-/"+acb())
			case "N":
				d := rd()
				o := crossInt(e.ChainCrossingSign(d))
				f := crossInt(s2.CrossingSign(a, b, cur, d))
				cur = d
				res = append(res, is(o)+"/"+is(f)+"/"+acb())
			case "F":
				d := rd()
				o := e.EdgeOrVertexChainCrossing(d)
				f := s2.EdgeOrVertexCrossing(a, b, cur, d)
				cur = d
				res = append(res, bs(o)+"/"+bs(f)+"/"+acb())
			case "S":
				c := rd()
				d := rd()
				o := crossInt(e.CrossingSign(c, d))
				f := crossInt(s2.CrossingSign(a, b, c, d))
				cur = d
				res = append(res, is(o)+"/"+is(f)+"/"+acb())
			case "E":
				c := rd()
				d := rd()
				o := e.EdgeOrVertexCrossing(c, d)
				f := s2.EdgeOrVertexCrossing(a, b, c, d)
				cur = d
				res = append(res, bs(o)+"/"+bs(f)+"/"+acb())
			default:
				panic("bad c03hist op " + op)
			}
		}
		_, _, _, _, _, c, _ := s2.VerifCrosserState(e)
		return append(res, ptArgs(c)...)
	}
	generators["c03"] = genC03
}

// ---------------------------------------------------------------------------------------------
// generators

func negP(p s2.Point) s2.Point { return rawPt(-p.X, -p.Y, -p.Z) }

// notAntipodal returns q, moved by a few ulps if it is EXACTLY the antipode of p: an edge whose endpoints are
// exactly antipodal is out of contract (the geodesic is undefined; NewEdgeCrosser then uses an arbitrary tangent).
func (g *G) notAntipodal(p, q s2.Point) s2.Point {
	for q == negP(p) {
		q = g.jitter(q, 2)
	}
	return q
}

// lin returns the normalised combination s*a + t*b (or a when that vanishes).
func lin(a, b s2.Point, s, t float64) s2.Point {
	v := r3.Vector{X: s*a.X + t*b.X, Y: s*a.Y + t*b.Y, Z: s*a.Z + t*b.Z}
	if v.Norm2() == 0 {
		return a
	}
	return s2.Point{Vector: v.Normalize()}
}

// flipZeros gives zero coordinates a random sign bit (Go == still holds).
func (g *G) flipZeros(p s2.Point) s2.Point {
	f := func(x float64) float64 {
		if x == 0 && g.rng.Bool() {
			return math.Copysign(0, -1)
		}
		if x == 0 {
			return 0
		}
		return x
	}
	return rawPt(f(p.X), f(p.Y), f(p.Z))
}

// c03Edge returns a fixed edge AB: general, tiny, long (near 180 degrees), antipodal, degenerate, in a coordinate plane.
func (g *G) c03Edge() (a, b s2.Point) {
	r := g.rng
	a, b = g.c02Unit(), g.c02Unit()
	switch r.Intn(12) {
	case 0: // tiny edge next to an axis, separation 2^-k down to subnormal
		k := g.tinyK()
		perm, sg := r.Intn(6), r.Intn(8)
		a = permAxes(rawPt(1, math.Ldexp(float64(r.Intn(7)-3), -k), math.Ldexp(float64(r.Intn(7)-3), -k)), perm, sg)
		b = permAxes(rawPt(1, math.Ldexp(float64(r.Intn(7)-3), -k), math.Ldexp(float64(r.Intn(7)-3), -k)), perm, sg)
	case 1: // short edge 2^-k
		e := math.Ldexp(1, -r.Intn(60))
		dv := g.c02Unit()
		b = norm(a.X+e*dv.X, a.Y+e*dv.Y, a.Z+e*dv.Z)
	case 2: // a few ulps apart
		b = g.jitter(a, 2)
	case 3: // long edge near 180 degrees
		e := math.Ldexp(1, -r.Intn(60))
		dv := g.c02Unit()
		b = norm(-a.X+e*dv.X, -a.Y+e*dv.Y, -a.Z+e*dv.Z)
	case 4: // antipodal or nearly
		b = negP(a)
		if r.Bool() {
			b = g.jitter(b, 2)
		}
	case 5: // degenerate
		b = a
	case 6, 7: // both in one coordinate plane (exactly coplanar families)
		perm := r.Intn(6)
		u := func() float64 { return r.Float()*2 - 1 }
		a = permAxes(norm(u(), u(), 0), perm, 0)
		b = permAxes(norm(u(), u(), 0), perm, 0)
	case 8: // 45..135 degrees: |PointCross| between 1.4 and 2 (tangent error bound stressed)
		o := ortho(a)
		th := (0.25 + 0.5*r.Float()) * math.Pi
		b = norm(math.Cos(th)*a.X+math.Sin(th)*o.X, math.Cos(th)*a.Y+math.Sin(th)*o.Y, math.Cos(th)*a.Z+math.Sin(th)*o.Z)
	case 9: // nearly antipodal, float (a+b)x(b-a) cancels EXACTLY although a x b != 0 (finding D48)
		a, b = g.c03AntiEdge()
	}
	return
}

// c03Point returns a vertex chosen relative to the fixed edge AB and to previously used vertices.
func (g *G) c03Point(a, b s2.Point, used []s2.Point) s2.Point {
	r := g.rng
	u := func() float64 { return r.Float()*2 - 1 }
	switch r.Intn(18) {
	case 0: // shared vertex
		return []s2.Point{a, b}[r.Intn(2)]
	case 1: // revisit
		if len(used) > 0 {
			return used[r.Intn(len(used))]
		}
		return a
	case 2: // on the great circle of AB (nearly collinear), +- ulps
		s, t := u(), u()
		if r.Intn(3) == 0 {
			s, t = float64(r.Intn(9)-4), float64(r.Intn(9)-4)
		}
		return g.jitter(lin(a, b, s, t), 2)
	case 3: // inside the edge (T junctions, overlapping collinear edges)
		t := r.Float()
		p := lin(a, b, 1-t, t)
		if r.Bool() {
			p = g.jitter(p, 2)
		}
		return p
	case 4: // few ulps from an endpoint
		return g.jitter([]s2.Point{a, b}[r.Intn(2)], 2)
	case 5: // antipode of an endpoint / of a used vertex
		if len(used) > 0 && r.Bool() {
			return negP(used[r.Intn(len(used))])
		}
		return negP([]s2.Point{a, b}[r.Intn(2)])
	case 6: // just outside an endpoint along AB and slightly sideways (outward tangent test)
		p, q := a, b
		if r.Bool() {
			p, q = b, a
		}
		n := ortho(p)
		if cr := p.Cross(q.Vector); cr.Norm2() > 0 {
			n = s2.Point{Vector: cr.Normalize()}
		}
		out := s2.Point{Vector: p.Cross(n.Vector)}
		s := math.Ldexp(r.Float(), -r.Intn(55))
		t := math.Ldexp(u(), -r.Intn(55))
		return norm(p.X+s*out.X+t*n.X, p.Y+s*out.Y+t*n.Y, p.Z+s*out.Z+t*n.Z)
	case 7: // same coordinate plane as a (exact coplanarity when the edge is in that plane)
		perm := 0
		switch {
		case a.Z == 0:
			perm = 0
		case a.Y == 0:
			perm = 1
		case a.X == 0:
			perm = 4
		}
		return permAxes(norm(u(), u(), 0), perm, 0)
	case 8: // tangent-plane lattice around the axis nearest to a
		k := g.tinyK()
		v := [3]float64{math.Ldexp(float64(r.Intn(9)-4), -k), math.Ldexp(float64(r.Intn(9)-4), -k), math.Ldexp(float64(r.Intn(9)-4), -k)}
		ax := a.LargestComponent()
		v[ax] = math.Copysign(1, [3]float64{a.X, a.Y, a.Z}[ax])
		return rawPt(v[0], v[1], v[2])
	case 9: // near a previously used vertex
		if len(used) > 0 {
			return g.jitter(used[r.Intn(len(used))], 2)
		}
		return g.c02Unit()
	case 10: // across the edge: midpoint +- small normal offset
		m := lin(a, b, 1, 1)
		n := ortho(m)
		if cr := a.Cross(b.Vector); cr.Norm2() > 0 {
			n = s2.Point{Vector: cr.Normalize()}
		}
		e := math.Ldexp(u(), -r.Intn(60))
		t := r.Float()
		p := lin(a, b, 1-t, t)
		return norm(p.X+e*n.X, p.Y+e*n.Y, p.Z+e*n.Z)
	case 11: // zero coordinates with flipped sign bits
		return g.flipZeros([]s2.Point{a, b, g.c02Unit()}[r.Intn(3)])
	}
	return g.c02Unit()
}

// c03Quad returns a boundary-targeted quadruple.
func (g *G) c03Quad() (a, b, c, d s2.Point) {
	r := g.rng
	a, b = g.c03Edge()
	c = g.c03Point(a, b, nil)
	d = g.c03Point(a, b, []s2.Point{c})
	switch r.Intn(22) {
	case 0: // one shared vertex
		c = []s2.Point{a, b}[r.Intn(2)]
	case 1: // two shared vertices
		c, d = a, b
		if r.Bool() {
			c, d = b, a
		}
	case 2: // three / four identical
		c = a
		d = a
		if r.Bool() {
			b = a
		}
	case 3: // degenerate CD
		d = c
	case 4: // CD straddles AB symmetrically: c, d = p +- e n
		t := r.Float()
		p := lin(a, b, 1-t, t)
		n := ortho(p)
		if cr := a.Cross(b.Vector); cr.Norm2() > 0 {
			n = s2.Point{Vector: cr.Normalize()}
		}
		e := math.Ldexp(r.Float(), -r.Intn(60))
		c = norm(p.X+e*n.X, p.Y+e*n.Y, p.Z+e*n.Z)
		d = norm(p.X-e*n.X, p.Y-e*n.Y, p.Z-e*n.Z)
	case 5: // all four on the tangent-plane lattice at scale 2^-k (exact collinearity, overlaps, T junctions, crossings)
		k := g.tinyK()
		perm, sg := r.Intn(6), r.Intn(8)
		mk := func() s2.Point {
			return permAxes(rawPt(1, math.Ldexp(float64(r.Intn(7)-3), -k), math.Ldexp(float64(r.Intn(7)-3), -k)), perm, sg)
		}
		a, b, c, d = mk(), mk(), mk(), mk()
	case 6: // all four in one coordinate plane: exactly collinear, overlapping or nested or disjoint
		perm := r.Intn(6)
		u := func() float64 { return r.Float()*2 - 1 }
		mk := func() s2.Point { return permAxes(norm(u(), u(), 0), perm, 0) }
		a, b, c, d = mk(), mk(), mk(), mk()
		if r.Intn(3) == 0 {
			c = a
		}
	case 11, 12: // an edge that ends at the REFERENCE DIRECTION of the shared vertex (Ortho(o)): the vertex-crossing rule
		// orders the far endpoints around o starting from exactly that direction (seeded change C03_4)
		o := a
		ref := referenceDirOf(o)
		far := g.c03Point(o, ref, nil)
		switch r.Intn(4) {
		case 0:
			a, b, c, d = o, ref, o, far
		case 1:
			a, b, c, d = o, far, o, ref
		case 2:
			a, b, c, d = ref, o, far, o
		default:
			a, b, c, d = o, ref, far, o
		}
	case 7, 13, 14: // c a few ulps from a, d outward and on the other side of AB (tangent test boundary)
		c = g.jitter(a, 2)
		n := ortho(a)
		if cr := a.Cross(b.Vector); cr.Norm2() > 0 {
			n = s2.Point{Vector: cr.Normalize()}
		}
		out := s2.Point{Vector: a.Cross(n.Vector)}
		sg := 1.0
		if c.Sub(a.Vector).Dot(n.Vector) > 0 {
			sg = -1
		}
		s := math.Ldexp(r.Float(), -r.Intn(40))
		t := math.Ldexp(r.Float(), -r.Intn(40))
		d = norm(a.X+s*out.X+sg*t*n.X, a.Y+s*out.Y+sg*t*n.Y, a.Z+s*out.Z+sg*t*n.Z)
	case 8: // CD = antipodal image of AB / reversed
		c, d = negP(a), negP(b)
	case 9, 10: // AB nearly antipodal with exactly cancelling float cross product, CD across its arc (finding D48)
		a, b, c, d = g.c03AntiQuad()
	}
	if r.Intn(4) == 0 { // random role exchange
		switch r.Intn(3) {
		case 0:
			a, b = b, a
		case 1:
			a, b, c, d = c, d, a, b
		default:
			c, d = d, c
		}
	}
	if r.Intn(12) == 0 {
		c = g.flipZeros(c)
		a = g.flipZeros(a)
	}
	b = g.notAntipodal(a, b)
	d = g.notAntipodal(c, d)
	return
}

func genC03(g *G) {
	r := g.rng
	g.emit("c03const")
	for it := 0; it < g.n; it++ {
		a, b, c, d := g.c03Quad()
		g.emit("c03quad", ptArgs(a, b, c, d)...)
		if it%8 == 0 {
			g.emit("c03new", ptArgs(a, b)...)
		}
		if it%16 == 2 { // finding D48: one more quadruple (and the crosser fields) on an exactly cancelling nearly antipodal edge
			qa, qb, qc, qd := g.c03AntiQuad()
			g.emit("c03quad", ptArgs(qa, qb, qc, qd)...)
			if it%32 == 2 {
				g.emit("c03new", ptArgs(qa, qb)...)
			}
		}
		if it%4 == 1 { // angle at b between a and c
			x, y, z := a, b, c
			switch r.Intn(4) {
			case 0:
				z = x // ABA
			case 1:
				z = referenceDirOf(y) // wedge boundary at the reference direction
			case 2:
				x = referenceDirOf(y)
			}
			if x != y && y != z {
				g.emit("c03acv", ptArgs(x, y, z)...)
			}
		}
		if it%4 == 3 { // one history on one crosser
			ea, eb := a, b
			pool := []s2.Point{c, d}
			if r.Bool() {
				pool = append(pool, []s2.Point{ea, eb}[r.Intn(2)])
			}
			np := 2 + r.Intn(6)
			for i := 0; i < np; i++ {
				pool = append(pool, g.c03Point(ea, eb, pool))
			}
			pick := func() s2.Point { return pool[r.Intn(len(pool))] }
			n := 1 + r.Intn(50)
			args := ptArgs(ea, eb)
			cur := pick()
			for i := 0; i < n; i++ {
				k := r.Intn(10)
				if i == 0 && (k == 1 || k == 2 || k == 3 || k >= 8) {
					k = 4
				}
				first := cur
				if i == 0 || r.Intn(5) < 2 {
					first = pick() // the chain jumps (implicit restart) ...
				} // ... else it continues at the current vertex
				dd := pick()
				if k == 1 || k == 2 || k == 3 || k >= 8 {
					dd = g.notAntipodal(cur, dd)
				} else if k != 0 {
					dd = g.notAntipodal(first, dd)
				}
				switch k {
				case 0:
					args = append(args, "R")
					args = append(args, ptArgs(first)...)
					cur = first
				case 1, 2, 3:
					args = append(args, "N")
					args = append(args, ptArgs(dd)...)
					cur = dd
				case 4, 5:
					args = append(args, "S")
					args = append(args, ptArgs(first, dd)...)
					cur = dd
				case 6, 7:
					args = append(args, "E")
					args = append(args, ptArgs(first, dd)...)
					cur = dd
				default:
					args = append(args, "F")
					args = append(args, ptArgs(dd)...)
					cur = dd
				}
			}
			g.emit("c03hist", args...)
		}
	}
}

// referenceDirOf reproduces Point.referenceDir (= s2.Ortho) through the public API.
func referenceDirOf(p s2.Point) s2.Point { return s2.Ortho(p) }

// ---------------------------------------------------------------------------------------------
// finding D48: nearly antipodal edges AB whose float (a+b) x (b-a) is EXACTLY the zero vector although a x b != 0.
//
// Take an integer direction (p, q, r) of integer length h (Pythagorean triple / quadruple), a = (p, q, r)/h moved by
// up to 8 ulps per coordinate and b = -(a + m*e*(p, q, r)) for a small non-zero integer m, e the smallest power of
// two for which the three sums are representable.  Then a+b = -m*e*(p, q, r) exactly, b-a is nearly -2a, and every
// component of the float cross product is a difference of two roundings of nearly the same real number: for some
// (i, j, k, m) all three cancel exactly.  The true a x b = -m*e*(a x (p, q, r)) is not zero, so the edge is
// geometrically defined (its arc passes through one of the two directions at 90 degrees from a in its plane), but
// PointCross(a, b) falls back to the arbitrary a.Ortho().  |b|^2 - |a|^2 is about 2*m*e*h, which must fit into the
// unit-length tolerance (both points are kept within | |p|^2 - 1 | <= 2^-50): that leaves the directions below.

// c03AntiDirs: the integer directions for which such pairs exist within the tolerance (found by enumeration over all
// primitive (p, q, r) with h <= 90; (8,15,17), (7,24,25), (20,21,29), ... need |b|^2 - |a|^2 > 2^-49).
var c03AntiDirs = [][3]int{{0, 3, 4}, {0, 5, 12}, {1, 2, 2}, {1, 4, 8}, {1, 8, 32}, {1, 12, 12}, {2, 3, 6}, {3, 4, 12}, {3, 16, 24}, {4, 5, 20}}

// c03AntiPairs[i] lists every pair for direction c03AntiDirs[i] (fixed enumeration order; built on first use).
var c03AntiPairs [][][2]s2.Point

func c03Big(x float64) *big.Float { return new(big.Float).SetPrec(512).SetFloat64(x) }

func c03BigMul(x, y float64) *big.Float { return new(big.Float).SetPrec(512).Mul(c03Big(x), c03Big(y)) }

// c03NearUnit: | |p|^2 - 1 | <= 2^-50, evaluated exactly.
func c03NearUnit(p s2.Point) bool {
	s := c03Big(-1)
	for _, c := range [3]float64{p.X, p.Y, p.Z} {
		s.Add(s, c03BigMul(c, c))
	}
	return s.Abs(s).Cmp(c03Big(math.Ldexp(1, -50))) <= 0
}

// c03ExactCross: a x b evaluated exactly, rounded to float64 component by component (the direction is what matters).
func c03ExactCross(a, b s2.Point) r3.Vector {
	f := func(x, y, z, w float64) float64 {
		v, _ := new(big.Float).SetPrec(512).Sub(c03BigMul(x, y), c03BigMul(z, w)).Float64()
		return v
	}
	return r3.Vector{X: f(a.Y, b.Z, a.Z, b.Y), Y: f(a.Z, b.X, a.X, b.Z), Z: f(a.X, b.Y, a.Y, b.X)}
}

// c03FloatCrossCancels: the expression of PointCross (and of the repaired NewEdgeCrosser) is exactly zero.
func c03FloatCrossCancels(a, b s2.Point) bool {
	return a.Add(b.Vector).Cross(b.Sub(a.Vector)) == r3.Vector{}
}

func c03AntiBuild() {
	c03AntiPairs = make([][][2]s2.Point, len(c03AntiDirs))
	for di, dir := range c03AntiDirs {
		h := math.Sqrt(float64(dir[0]*dir[0] + dir[1]*dir[1] + dir[2]*dir[2]))
		lo, hi := [3]int{}, [3]int{}
		for i := 0; i < 3; i++ {
			if dir[i] != 0 {
				lo[i], hi[i] = -8, 8
			}
		}
		for i0 := lo[0]; i0 <= hi[0]; i0++ {
			for i1 := lo[1]; i1 <= hi[1]; i1++ {
				for i2 := lo[2]; i2 <= hi[2]; i2++ {
					var av [3]float64
					e := 0.0
					for i, k := range [3]int{i0, i1, i2} {
						if dir[i] == 0 {
							continue
						}
						av[i] = ulps(float64(dir[i])/h, k)
						_, ex := math.Frexp(av[i])
						if q := math.Ldexp(1, ex-53) / float64(dir[i]&-dir[i]); q > e {
							e = q
						}
					}
					a := rawPt(av[0], av[1], av[2])
					for _, m := range [6]float64{1, -1, 2, -2, 3, -3} {
						var bv [3]float64
						for i := 0; i < 3; i++ {
							if dir[i] != 0 {
								bv[i] = -(av[i] + m*e*float64(dir[i]))
							}
						}
						b := rawPt(bv[0], bv[1], bv[2])
						if !c03FloatCrossCancels(a, b) || !c03NearUnit(a) || !c03NearUnit(b) {
							continue
						}
						if c03ExactCross(a, b) == (r3.Vector{}) { // exactly (anti)parallel: no edge
							continue
						}
						c03AntiPairs[di] = append(c03AntiPairs[di], [2]s2.Point{a, b})
					}
				}
			}
		}
	}
}

// c03AntiEdge returns a nearly antipodal edge AB (never exactly antipodal, a x b != 0, both points unit within 2^-50)
// for which the float (a+b) x (b-a) is exactly zero; direction, coordinate permutation, signs and orientation vary.
func (g *G) c03AntiEdge() (a, b s2.Point) {
	r := g.rng
	if c03AntiPairs == nil {
		c03AntiBuild()
	}
	di := r.Intn(len(c03AntiDirs))
	if r.Intn(3) == 0 {
		di = r.Intn(2) // the two planar directions (3,4,5), (5,12,13)
	}
	l := c03AntiPairs[di]
	perm, sg := r.Intn(6), r.Intn(8)
	if len(l) == 0 { // cannot happen with the table above; the known witness
		return rawPt(pF("3fe3333333333332"), pF("3fe9999999999999"), 0), rawPt(pF("bfe3333333333335"), pF("bfe999999999999d"), 0)
	}
	pr := l[r.Intn(len(l))]
	a, b = permAxes(pr[0], perm, sg), permAxes(pr[1], perm, sg)
	if !c03FloatCrossCancels(a, b) { // permutations and sign flips commute with every rounding: cannot happen
		a, b = pr[0], pr[1]
	}
	if r.Bool() {
		a, b = b, a
	}
	return
}

// c03AntiQuad: such an edge AB and an edge CD placed relative to the arc AB: C and D on the great circle through the
// normal of AB and a point P(phi) = cos(phi) W + sin(phi) A of the great circle of AB (W = the midpoint of the arc AB
// when side = +1, of the complementary arc when side = -1; phi = 0, anywhere, or next to A / B), at distances
// tc, td (0.1, 2^-k, anything) on opposite sides (a crossing iff side = +1) or on the same side of the plane of AB.
func (g *G) c03AntiQuad() (a, b, c, d s2.Point) {
	r := g.rng
	a, b = g.c03AntiEdge()
	n := c03ExactCross(a, b).Normalize()
	w := n.Cross(a.Vector).Normalize() // direction of the arc midpoint (the arc leaves a towards n x a)
	if r.Intn(4) == 0 {
		w = w.Mul(-1)
	}
	phi := func() float64 {
		switch r.Intn(5) {
		case 0:
			return 0
		case 1: // next to a
			return math.Pi/2 - math.Ldexp(1+r.Float(), -1-r.Intn(30))
		case 2: // next to b
			return -math.Pi/2 + math.Ldexp(1+r.Float(), -1-r.Intn(30))
		}
		return (r.Float()*2 - 1) * 1.5
	}
	dist := func() float64 {
		switch r.Intn(4) {
		case 0:
			return 0.1
		case 1:
			return math.Ldexp(1+r.Float(), -1-r.Intn(52))
		}
		return r.Float()
	}
	at := func(ph, t float64) s2.Point {
		cs, sn := math.Cos(ph), math.Sin(ph)
		return norm(cs*w.X+sn*a.X+t*n.X, cs*w.Y+sn*a.Y+t*n.Y, cs*w.Z+sn*a.Z+t*n.Z)
	}
	pc := phi()
	pd := pc
	if r.Intn(3) == 0 {
		pd = phi()
	}
	tc, td := dist(), -dist()
	if r.Intn(8) == 0 { // same side: no crossing
		td = -td
	}
	c, d = at(pc, tc), at(pd, td)
	if r.Bool() {
		c, d = d, c
	}
	return
}
