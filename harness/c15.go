package main

// Property C15: every Decode method, on every byte string, terminates and
// either returns an error or a value that can be queried without panicking.
//
// Line protocol:   dec <type> <hexbytes> = <result tokens>
//   <type>     point cap rect cellid cell cellunion polyline loop polygon
//   <hexbytes> lower-case hex of the input, "~" for the empty string
//   result     error | ok qok | ok QPANIC:<query>:<msg> | PANIC:<msg> |
//              FATAL:<msg> | TIMEOUT
//
// The decode and the queries run in a long-lived child process (this same
// binary started with the argument "c15child") so that runtime fatal errors
// (out of memory, stack overflow) and hangs can be observed and reported
// instead of taking the harness down.
//
// Environment knobs: C15_TIMEOUT_MS (per-input timeout, default 20000; a TIMEOUT is retried once with 6x),
// C15_AS_LIMIT_MB (child RLIMIT_AS, default 12288; GOMEMLIMIT defaults to
// 8 GiB, or 2/3 of C15_AS_LIMIT_MB when that is set), C15_SLOTS (number of
// decodes that may run concurrently on the machine, default 1; see
// c15OpenSlots), C15_STATS (print generator family counts on stderr).

import (
	"bufio"
	"bytes"
	"encoding/binary"
	"encoding/hex"
	"fmt"
	"io"
	"os"
	"os/exec"
	"runtime/debug"
	"sort"
	"strconv"
	"strings"
	"sync"
	"syscall"
	"time"

	"github.com/golang/geo/s1"
	"github.com/golang/geo/s2"
)

func init() {
	if len(os.Args) > 1 && os.Args[1] == "c15child" {
		c15ChildMain()
		os.Exit(0)
	}
	replayers["dec"] = c15Replay
	generators["c15"] = genC15
}

// ---------------------------------------------------------------------------
// Child process
// ---------------------------------------------------------------------------

const (
	c15DefaultASMB      = 12288 // RLIMIT_AS, MiB
	c15DefaultMemMB     = 8192  // GOMEMLIMIT, MiB
	c15DefaultTimeoutMS = 20000
	c15MaxEdges         = 10000  // at most this many Edge(i)/Chain(i) calls
	c15BigValue         = 100000 // above this many vertices/edges skip the expensive queries
)

func c15EnvInt(name string, def int) int {
	if s := os.Getenv(name); s != "" {
		if v, err := strconv.Atoi(s); err == nil && v > 0 {
			return v
		}
	}
	return def
}

func c15ChildMain() {
	asMB := c15EnvInt("C15_AS_LIMIT_MB", c15DefaultASMB)
	if os.Getenv("GOMEMLIMIT") == "" {
		mem := int64(c15DefaultMemMB) << 20
		if os.Getenv("C15_AS_LIMIT_MB") != "" {
			mem = int64(asMB) << 20 / 3 * 2
		}
		debug.SetMemoryLimit(mem)
	}
	lim := syscall.Rlimit{Cur: uint64(asMB) << 20, Max: uint64(asMB) << 20}
	if err := syscall.Setrlimit(syscall.RLIMIT_AS, &lim); err != nil {
		fmt.Fprintln(os.Stderr, "c15child: setrlimit:", err)
	}
	debug.SetMaxStack(256 << 20)

	// Watchdog: if the parent goes away while we are stuck in a hang, exit.
	ppid := os.Getppid()
	go func() {
		for {
			time.Sleep(time.Second)
			if os.Getppid() != ppid {
				os.Exit(3)
			}
		}
	}()

	slots := c15OpenSlots()
	in := bufio.NewReaderSize(os.Stdin, 1<<20)
	out := bufio.NewWriter(os.Stdout)
	for {
		line, err := in.ReadString('\n')
		if line = strings.TrimSpace(line); line != "" {
			held := c15Acquire(slots)
			out.WriteString("+\n") // the per-input timeout starts now
			out.Flush()
			ans, dur := c15ChildOne(line)
			out.WriteString("= " + ans + "\n")
			out.Flush()
			if dur > 100*time.Millisecond {
				debug.FreeOSMemory()
			}
			c15Release(held)
		}
		if err != nil {
			return
		}
	}
}

// Machine-wide slots.  Several harness shards run in parallel, and a single
// legitimate input may make the decoder touch more than 1 GB.  On the target
// machine touching more than roughly 10 GB in total becomes pathologically
// slow (16 concurrent 1.2 GB decodes take minutes instead of one second),
// which would turn honest inputs into spurious TIMEOUTs.  So every decode
// runs while holding one of C15_SLOTS (default 1) advisory file locks; the
// parent starts its timeout clock only once the child reports that it holds
// the slot.  The lock dies with the process, so a killed child frees it.
func c15OpenSlots() []*os.File {
	n := c15EnvInt("C15_SLOTS", 1)
	var fs []*os.File
	for i := 0; i < n; i++ {
		name := fmt.Sprintf("%s/c15-slot-%d-%d.lock", os.TempDir(), os.Getuid(), i)
		f, err := os.OpenFile(name, os.O_CREATE|os.O_RDWR, 0o600)
		if err != nil {
			return nil
		}
		fs = append(fs, f)
	}
	return fs
}

func c15Acquire(slots []*os.File) *os.File {
	if len(slots) == 0 {
		return nil
	}
	start := os.Getpid() % len(slots)
	for i := range slots {
		f := slots[(start+i)%len(slots)]
		if syscall.Flock(int(f.Fd()), syscall.LOCK_EX|syscall.LOCK_NB) == nil {
			return f
		}
	}
	f := slots[start]
	for {
		err := syscall.Flock(int(f.Fd()), syscall.LOCK_EX)
		if err == nil {
			return f
		}
		if err != syscall.EINTR {
			return nil
		}
	}
}

func c15Release(f *os.File) {
	if f != nil {
		syscall.Flock(int(f.Fd()), syscall.LOCK_UN)
	}
}

func c15ChildOne(line string) (string, time.Duration) {
	f := strings.Fields(line)
	if len(f) != 2 {
		return "ERR-bad-request", 0
	}
	data, err := c15Unhex(f[1])
	if err != nil {
		return "ERR-bad-hex", 0
	}
	return c15Run(f[0], data)
}

func c15Sanitize(v interface{}) (s string) {
	defer func() {
		if recover() != nil {
			s = "unprintable_panic_value"
		}
	}()
	s = fmt.Sprint(v)
	s = strings.Map(func(r rune) rune {
		if r <= ' ' || r == 0x7f {
			return '_'
		}
		return r
	}, s)
	if len(s) > 200 {
		s = s[:200]
	}
	if s == "" {
		s = "empty"
	}
	return s
}

// c15Q runs queries one by one, remembering the first panic and skipping the
// rest after it (a panic can leave e.g. an index mutex locked).
type c15Q struct{ first string }

func (q *c15Q) do(name string, f func()) {
	if q.first != "" {
		return
	}
	defer func() {
		if r := recover(); r != nil {
			q.first = "QPANIC:" + name + ":" + c15Sanitize(r)
		}
	}()
	f()
}

var c15QPts = []s2.Point{
	s2.PointFromCoords(1, 0, 0),
	s2.PointFromCoords(0, 1, 0),
	s2.PointFromCoords(0, 0, -1),
	s2.PointFromCoords(1, 1, 1),
}

// c15Run decodes data as typ and, if that succeeded, runs the queries.
func c15Run(typ string, data []byte) (res string, dur time.Duration) {
	var err error
	var queries func(q *c15Q)
	t0 := time.Now()
	pmsg := ""
	func() {
		defer func() {
			if r := recover(); r != nil {
				pmsg = "PANIC:" + c15Sanitize(r)
			}
		}()
		err, queries = c15Decode(typ, data)
	}()
	dur = time.Since(t0)
	if pmsg != "" {
		return pmsg, dur
	}
	if queries == nil {
		return "ERR-unknown-type", dur
	}
	if err != nil {
		return "error", dur
	}
	q := &c15Q{}
	queries(q)
	if q.first != "" {
		return "ok " + q.first, dur
	}
	return "ok qok", dur
}

var c15Sink interface{}

func c15Decode(typ string, data []byte) (error, func(q *c15Q)) {
	r := bytes.NewReader(data)
	containsAll := func(q *c15Q, f func(p s2.Point) bool) {
		q.do("ContainsPoint", func() {
			for _, p := range c15QPts {
				f(p)
			}
		})
	}
	switch typ {
	case "point":
		var p s2.Point
		err := p.Decode(r)
		return err, func(q *c15Q) {
			q.do("Encode", func() { p.Encode(&bytes.Buffer{}) })
			q.do("CapBound", func() { c15Sink = p.CapBound() })
			q.do("RectBound", func() { c15Sink = p.RectBound() })
			containsAll(q, p.ContainsPoint)
		}
	case "cap":
		var c s2.Cap
		err := c.Decode(r)
		return err, func(q *c15Q) {
			q.do("Encode", func() { c.Encode(&bytes.Buffer{}) })
			q.do("RectBound", func() { c15Sink = c.RectBound() })
			q.do("CapBound", func() { c15Sink = c.CapBound() })
			containsAll(q, c.ContainsPoint)
			q.do("Radius", func() { c15Sink = c.Radius() })
			q.do("Area", func() { c15Sink = c.Area() })
		}
	case "rect":
		var x s2.Rect
		err := x.Decode(r)
		return err, func(q *c15Q) {
			q.do("Encode", func() { x.Encode(&bytes.Buffer{}) })
			q.do("CapBound", func() { c15Sink = x.CapBound() })
			q.do("RectBound", func() { c15Sink = x.RectBound() })
			containsAll(q, x.ContainsPoint)
			q.do("Area", func() { c15Sink = x.Area() })
			q.do("IsValid", func() { c15Sink = x.IsValid() })
		}
	case "cellid":
		var id s2.CellID
		err := id.Decode(r)
		return err, func(q *c15Q) {
			q.do("Encode", func() { id.Encode(&bytes.Buffer{}) })
			valid := false
			q.do("IsValid", func() { valid = id.IsValid() })
			level := 0
			q.do("Level", func() { level = id.Level() })
			q.do("Face", func() { c15Sink = id.Face() })
			q.do("ToToken", func() { c15Sink = id.ToToken() })
			if valid {
				if level > 0 {
					q.do("Parent", func() { c15Sink = id.Parent(level - 1) })
				}
				q.do("Point", func() { c15Sink = id.Point() })
			}
		}
	case "cell":
		var c s2.Cell
		err := c.Decode(r)
		return err, func(q *c15Q) {
			q.do("Encode", func() { c.Encode(&bytes.Buffer{}) })
			q.do("RectBound", func() { c15Sink = c.RectBound() })
			q.do("CapBound", func() { c15Sink = c.CapBound() })
			containsAll(q, c.ContainsPoint)
			q.do("Vertex", func() {
				for k := 0; k < 4; k++ {
					c15Sink = c.Vertex(k)
				}
			})
			q.do("ExactArea", func() { c15Sink = c.ExactArea() })
		}
	case "cellunion":
		var cu s2.CellUnion
		err := cu.Decode(r)
		return err, func(q *c15Q) {
			q.do("Encode", func() { cu.Encode(&bytes.Buffer{}) })
			valid := false
			q.do("IsValid", func() { valid = cu.IsValid() })
			q.do("len", func() { c15Sink = len(cu) })
			if valid {
				q.do("RectBound", func() { c15Sink = cu.RectBound() })
				q.do("CapBound", func() { c15Sink = cu.CapBound() })
				containsAll(q, cu.ContainsPoint)
				q.do("Normalize", func() {
					cp := append(s2.CellUnion(nil), cu...)
					cp.Normalize()
				})
				q.do("LeafCellsCovered", func() { c15Sink = cu.LeafCellsCovered() })
			}
		}
	case "polyline":
		var p s2.Polyline
		err := p.Decode(r)
		return err, func(q *c15Q) {
			big := len(p) > c15BigValue
			if !big {
				q.do("Encode", func() { p.Encode(&bytes.Buffer{}) })
			}
			q.do("Edge", func() {
				n := p.NumEdges()
				if n > c15MaxEdges {
					n = c15MaxEdges
				}
				for i := 0; i < n; i++ {
					c15Sink = p.Edge(i)
				}
			})
			if !big {
				// Length and the bounds walk every vertex.
				q.do("Length", func() { c15Sink = p.Length() })
				q.do("RectBound", func() { c15Sink = p.RectBound() })
				q.do("CapBound", func() { c15Sink = p.CapBound() })
			}
		}
	case "loop":
		var l s2.Loop
		err := l.Decode(r)
		return err, func(q *c15Q) {
			nv := 0
			q.do("NumVertices", func() { nv = l.NumVertices() })
			big := nv > c15BigValue
			if !big {
				q.do("Encode", func() { l.Encode(&bytes.Buffer{}) })
			}
			q.do("Edge", func() {
				n := l.NumEdges()
				if n > c15MaxEdges {
					n = c15MaxEdges
				}
				for i := 0; i < n; i++ {
					c15Sink = l.Edge(i)
				}
			})
			q.do("RectBound", func() { c15Sink = l.RectBound() })
			q.do("CapBound", func() { c15Sink = l.CapBound() })
			if !big {
				containsAll(q, l.ContainsPoint)
			}
			q.do("ContainsOrigin", func() { c15Sink = l.ContainsOrigin() })
			q.do("IsEmpty", func() { c15Sink = l.IsEmpty() })
			q.do("IsFull", func() { c15Sink = l.IsFull() })
			if !big {
				q.do("Validate", func() { c15Sink = l.Validate() })
			}
		}
	case "polygon":
		var p s2.Polygon
		err := p.Decode(r)
		return err, func(q *c15Q) {
			ne, nl := 0, 0
			q.do("NumLoops", func() { nl = p.NumLoops() })
			q.do("NumEdges", func() { ne = p.NumEdges() })
			big := ne > c15BigValue || nl > c15BigValue
			if !big {
				q.do("Encode", func() { p.Encode(&bytes.Buffer{}) })
			}
			q.do("Edge", func() {
				n := ne
				if n > c15MaxEdges {
					n = c15MaxEdges
				}
				for i := 0; i < n; i++ {
					c15Sink = p.Edge(i)
				}
			})
			q.do("Chain", func() {
				n := p.NumChains()
				if n > c15MaxEdges {
					n = c15MaxEdges
				}
				for i := 0; i < n; i++ {
					c15Sink = p.Chain(i)
				}
			})
			q.do("RectBound", func() { c15Sink = p.RectBound() })
			q.do("CapBound", func() { c15Sink = p.CapBound() })
			if !big {
				containsAll(q, p.ContainsPoint)
			}
			q.do("IsEmpty", func() { c15Sink = p.IsEmpty() })
			q.do("IsFull", func() { c15Sink = p.IsFull() })
			if !big {
				q.do("Validate", func() { c15Sink = p.Validate() })
				// the loops of the decoded polygon are values a caller can reach (Polygon.Loops / Loop(i)): each must be
				// queryable on its own (a loop left half-initialised by a decoder that went on after a failure shows here)
				nq := nl
				if nq > 64 {
					nq = 64
				}
				for i := 0; i < nq; i++ {
					l := p.Loop(i)
					q.do("Loop.ContainsPoint", func() { c15Sink = l.ContainsPoint(s2.PointFromCoords(1, 0.25, 0.125)) })
					q.do("Loop.ContainsCell", func() { c15Sink = l.ContainsCell(s2.CellFromCellID(s2.CellIDFromFace(0).ChildBeginAtLevel(3))) })
					q.do("Loop.RectBound", func() { c15Sink = l.RectBound() })
				}
			}
		}
	}
	return nil, nil
}

// ---------------------------------------------------------------------------
// Parent side: one long-lived child, restarted lazily
// ---------------------------------------------------------------------------

type c15BoundedBuf struct {
	mu  sync.Mutex
	buf []byte
}

func (b *c15BoundedBuf) Write(p []byte) (int, error) {
	b.mu.Lock()
	if room := 1<<16 - len(b.buf); room > 0 {
		if len(p) < room {
			room = len(p)
		}
		b.buf = append(b.buf, p[:room]...)
	}
	b.mu.Unlock()
	return len(p), nil
}

func (b *c15BoundedBuf) String() string {
	b.mu.Lock()
	defer b.mu.Unlock()
	return string(b.buf)
}

type c15Child struct {
	cmd        *exec.Cmd
	stdin      io.WriteCloser
	answers    chan string // closed when the child's stdout reaches EOF
	stderr     *c15BoundedBuf
	stderrDone chan struct{}
}

var (
	c15Mu  sync.Mutex
	c15Cur *c15Child
)

func c15Start() (*c15Child, error) {
	exe, err := os.Executable()
	if err != nil {
		return nil, err
	}
	cmd := exec.Command(exe, "c15child")
	cmd.Env = os.Environ()
	if os.Getenv("GOMEMLIMIT") == "" {
		mem := c15DefaultMemMB
		if os.Getenv("C15_AS_LIMIT_MB") != "" {
			mem = c15EnvInt("C15_AS_LIMIT_MB", c15DefaultASMB) / 3 * 2
		}
		cmd.Env = append(cmd.Env, fmt.Sprintf("GOMEMLIMIT=%dMiB", mem))
	}
	stdin, err := cmd.StdinPipe()
	if err != nil {
		return nil, err
	}
	stdout, err := cmd.StdoutPipe()
	if err != nil {
		return nil, err
	}
	stderr, err := cmd.StderrPipe()
	if err != nil {
		return nil, err
	}
	if err := cmd.Start(); err != nil {
		return nil, err
	}
	c := &c15Child{cmd: cmd, stdin: stdin, answers: make(chan string, 4), stderr: &c15BoundedBuf{}, stderrDone: make(chan struct{})}
	go func() {
		io.Copy(c.stderr, stderr)
		close(c.stderrDone)
	}()
	go func() {
		rd := bufio.NewReaderSize(stdout, 1<<16)
		for {
			line, err := rd.ReadString('\n')
			if strings.HasPrefix(line, "= ") {
				c.answers <- strings.TrimSpace(line[2:])
			} else if strings.HasPrefix(line, "+") {
				c.answers <- "+"
			}
			if err != nil {
				close(c.answers)
				return
			}
		}
	}()
	return c, nil
}

// reap waits for the child to be gone and classifies how it died.
func (c *c15Child) reap() string {
	c.stdin.Close()
	// Drain stdout until EOF (the process is dead or dying).
	drained := make(chan struct{})
	go func() {
		for range c.answers {
		}
		close(drained)
	}()
	select {
	case <-drained:
	case <-time.After(10 * time.Second):
		c.cmd.Process.Kill()
		<-drained
	}
	select {
	case <-c.stderrDone:
	case <-time.After(10 * time.Second):
	}
	werr := c.cmd.Wait()
	var first, second, third string
	for _, ln := range strings.Split(c.stderr.String(), "\n") {
		ln = strings.TrimSpace(ln)
		switch {
		case strings.HasPrefix(ln, "fatal error:") && first == "":
			first = ln
		case strings.HasPrefix(ln, "runtime:") && second == "":
			second = ln
		case strings.HasPrefix(ln, "panic:") && third == "":
			third = ln
		}
	}
	// Prefer the "fatal error:" line: the "runtime:" line that precedes it
	// often carries run-dependent numbers (bytes in use).
	for _, m := range []string{first, second, third} {
		if m != "" {
			return c15Sanitize(m)
		}
	}
	if ee, ok := werr.(*exec.ExitError); ok {
		if ws, ok := ee.Sys().(syscall.WaitStatus); ok && ws.Signaled() {
			return "signal_" + c15Sanitize(ws.Signal().String())
		}
		return "exit_" + strconv.Itoa(ee.ExitCode())
	}
	if werr != nil {
		return "wait_" + c15Sanitize(werr.Error())
	}
	return "exit_0"
}

func c15Unhex(s string) ([]byte, error) {
	if s == "~" {
		return nil, nil
	}
	return hex.DecodeString(s)
}

func c15Hex(b []byte) string {
	if len(b) == 0 {
		return "~"
	}
	return hex.EncodeToString(b)
}

// c15Replay is replayers["dec"]: args = <type> <hex>.
func c15Replay(a []string) []string {
	res := c15ReplayOnce(a, 1)
	if len(res) == 1 && res[0] == "TIMEOUT" {
		// A decode within the documented limits may touch 1.2 GB; on a loaded machine that alone can exceed
		// the timeout.  A false alarm is worse than a slow run: retry once in a fresh child with 6x the
		// timeout; a genuine hang times out again.
		res = c15ReplayOnce(a, 6)
	}
	return res
}

func c15ReplayOnce(a []string, scale int) []string {
	if len(a) != 2 {
		return []string{"ERR-bad-args"}
	}
	if _, err := c15Unhex(a[1]); err != nil {
		return []string{"ERR-bad-hex"}
	}
	c15Mu.Lock()
	defer c15Mu.Unlock()
	if c15Cur == nil {
		c, err := c15Start()
		if err != nil {
			return []string{"ERR-cannot-start-child:" + c15Sanitize(err)}
		}
		c15Cur = c
	}
	c := c15Cur
	timeout := time.Duration(scale*c15EnvInt("C15_TIMEOUT_MS", c15DefaultTimeoutMS)) * time.Millisecond
	if _, err := io.WriteString(c.stdin, a[0]+" "+a[1]+"\n"); err != nil {
		c15Cur = nil
		return []string{"FATAL:" + c.reap()}
	}
	// Phase 1: the child waits for its machine-wide slot (other shards may be
	// holding it for a long-running input); phase 2: the actual work, under the
	// per-input timeout.
	wait := 30 * timeout
	if wait < 10*time.Minute {
		wait = 10 * time.Minute
	}
	for phase := 1; ; phase++ {
		if phase == 2 {
			wait = timeout
		}
		timer := time.NewTimer(wait)
		select {
		case ans, ok := <-c.answers:
			timer.Stop()
			if !ok {
				c15Cur = nil
				return []string{"FATAL:" + c.reap()}
			}
			if ans == "+" && phase == 1 {
				continue
			}
			return strings.Fields(ans)
		case <-timer.C:
			c15Cur = nil
			c.cmd.Process.Kill()
			c.reap()
			return []string{"TIMEOUT"}
		}
	}
}

// ---------------------------------------------------------------------------
// Generator
// ---------------------------------------------------------------------------

const (
	c15KU32 = 4
	c15KU64 = 8
	c15KVar = 0
)

type c15Field struct {
	off   int
	kind  int    // c15KU32 / c15KU64 / c15KVar
	limit uint64 // the decoder's documented limit for this count
}

type c15Base struct {
	typ, name string
	data      []byte
	fields    []c15Field
	primary   bool // truncations + targeted substitutions are emitted completely
	varintAll bool // blind uvarint splice at every offset is emitted completely
	fieldOnly bool // only the targeted substitutions are mandatory (not truncations)
}

const (
	c15MaxCells    = 1000000
	c15MaxVertices = 50000000
	c15MaxLoops    = 10000000
)

var c15Special = func() []uint64 {
	v := []uint64{0, 1}
	for _, l := range []uint64{c15MaxCells, c15MaxVertices, c15MaxLoops} {
		v = append(v, l, l+1)
	}
	v = append(v, 1<<31, 1<<32-1, 1<<32, 1<<63, 1<<63+5, 1<<64-1, 1<<40)
	return v
}()

func c15Heavy(typ string, v uint64) bool {
	switch typ {
	case "polyline", "loop", "polygon":
		return v >= 1<<20 && v <= c15MaxVertices+1
	}
	return false
}

func c15EncBytes(f func(w io.Writer) error) (b []byte) {
	defer func() {
		if recover() != nil {
			b = nil
		}
	}()
	var buf bytes.Buffer
	if err := f(&buf); err != nil {
		return nil
	}
	return buf.Bytes()
}

func c15PutFixed(b []byte, off, w int, v uint64, trunc bool) []byte {
	if off > len(b) {
		off = len(b)
	}
	out := append([]byte{}, b[:off]...)
	var enc [8]byte
	binary.LittleEndian.PutUint64(enc[:], v)
	out = append(out, enc[:w]...)
	if !trunc && off+w < len(b) {
		out = append(out, b[off+w:]...)
	}
	return out
}

// c15VarintLen is the length of the uvarint starting at off: the maximal run
// of continuation bytes plus the terminator (if present).
func c15VarintLen(b []byte, off int) int {
	i := off
	for i < len(b) && b[i]&0x80 != 0 {
		i++
	}
	if i < len(b) {
		i++
	}
	return i - off
}

func c15PutVarint(b []byte, off int, v uint64, trunc bool) []byte {
	if off > len(b) {
		off = len(b)
	}
	n := c15VarintLen(b, off)
	out := append([]byte{}, b[:off]...)
	out = binary.AppendUvarint(out, v)
	if !trunc {
		out = append(out, b[off+n:]...)
	}
	return out
}

func c15Subst(b []byte, f c15Field, v uint64, trunc bool) []byte {
	switch f.kind {
	case c15KU32:
		if v >= 1<<32 {
			return nil
		}
		return c15PutFixed(b, f.off, 4, v, trunc)
	case c15KU64:
		return c15PutFixed(b, f.off, 8, v, trunc)
	}
	return c15PutVarint(b, f.off, v, trunc)
}

func c15LoopFields() []c15Field { return []c15Field{{1, c15KU32, c15MaxVertices}} }
func c15PolyUncFields() []c15Field {
	return []c15Field{{3, c15KU32, c15MaxLoops}, {8, c15KU32, c15MaxVertices}}
}
func c15PolyCompFields(b []byte) []c15Field {
	if len(b) < 3 {
		return nil
	}
	n := c15VarintLen(b, 2)
	return []c15Field{{2, c15KVar, c15MaxLoops}, {2 + n, c15KVar, c15MaxVertices}}
}

func c15LL(lat, lng float64) s2.Point {
	return s2.PointFromLatLng(s2.LatLngFromDegrees(lat, lng))
}

// c15Bases builds the valid base encodings. Everything before the rng-based
// tail is independent of the seed, so that the mandatory families have the
// same running indices in every shard.
func c15Bases(rng *RNG) []c15Base {
	var bases []c15Base
	add := func(b c15Base) {
		if b.data != nil {
			bases = append(bases, b)
		}
	}
	emptyRect := c15EncBytes(s2.EmptyRect().Encode)

	// points
	add(c15Base{typ: "point", name: "x", data: c15EncBytes(s2.PointFromCoords(1, 0, 0).Encode)})
	add(c15Base{typ: "point", name: "123", data: c15EncBytes(s2.PointFromCoords(1, 2, 3).Encode), primary: true})
	add(c15Base{typ: "point", name: "-z", data: c15EncBytes(s2.PointFromCoords(0, 0, -1).Encode)})

	// caps
	add(c15Base{typ: "cap", name: "empty", data: c15EncBytes(s2.EmptyCap().Encode)})
	add(c15Base{typ: "cap", name: "full", data: c15EncBytes(s2.FullCap().Encode)})
	add(c15Base{typ: "cap", name: "ord", data: c15EncBytes(s2.CapFromCenterAngle(c15LL(30, 40), 0.3*s1.Radian).Encode), primary: true})

	// rects
	add(c15Base{typ: "rect", name: "empty", data: emptyRect})
	add(c15Base{typ: "rect", name: "full", data: c15EncBytes(s2.FullRect().Encode)})
	add(c15Base{typ: "rect", name: "ord", data: c15EncBytes(s2.RectFromCenterSize(s2.LatLngFromDegrees(10, 20), s2.LatLngFromDegrees(5, 8)).Encode), primary: true})
	add(c15Base{typ: "rect", name: "inverted-lng", data: c15EncBytes(s2.RectFromCenterSize(s2.LatLngFromDegrees(-40, 179), s2.LatLngFromDegrees(10, 20)).Encode)})

	// cell ids and cells
	leaf := s2.CellIDFromLatLng(s2.LatLngFromDegrees(47.3, 8.5))
	leaf2 := s2.CellIDFromLatLng(s2.LatLngFromDegrees(-33.9, 151.2))
	cids := []struct {
		name string
		id   s2.CellID
	}{
		{"l12", leaf.Parent(12)}, {"face3", s2.CellIDFromFace(3)}, {"l1", leaf2.Parent(1)},
		{"l29", leaf2.Parent(29)}, {"l30", leaf}, {"face0", s2.CellIDFromFace(0)},
	}
	for i, c := range cids {
		add(c15Base{typ: "cellid", name: c.name, data: c15EncBytes(c.id.Encode), primary: i == 0})
	}
	for i, c := range cids[:4] {
		add(c15Base{typ: "cell", name: c.name, data: c15EncBytes(s2.CellFromCellID(c.id).Encode), primary: i == 0})
	}

	// cell unions
	cuF := []c15Field{{1, c15KU64, c15MaxCells}}
	cus := []s2.CellUnion{
		{leaf.Parent(10), leaf2.Parent(7)},
		{},
		{leaf.Parent(20)},
		{s2.CellIDFromFace(0), leaf.Parent(3), leaf.Parent(12).Next().Next(), leaf2.Parent(5), leaf2.Parent(30)},
	}
	for i := range cus {
		cu := cus[i]
		sort.Slice(cu, func(a, b int) bool { return cu[a] < cu[b] })
		add(c15Base{typ: "cellunion", name: "n" + is(len(cu)), data: c15EncBytes(cu.Encode), fields: cuF, primary: i == 0})
	}

	// polylines
	plPts := []s2.Point{c15LL(0, 0), c15LL(0, 10), c15LL(7, 13), c15LL(12, 3), c15LL(20, -5)}
	for i, n := range []int{2, 0, 1, 5} {
		pl := s2.Polyline(append([]s2.Point{}, plPts[:n]...))
		add(c15Base{typ: "polyline", name: "n" + is(n), data: c15EncBytes(pl.Encode), fields: c15LoopFields(), primary: i == 0})
	}

	// loops
	tri := []s2.Point{c15LL(0.5, 0.25), c15LL(0.75, 10.125), c15LL(9.5, 4.75)}
	addLoop := func(name string, l *s2.Loop, primary bool) {
		add(c15Base{typ: "loop", name: name, data: c15EncBytes(l.Encode), fields: c15LoopFields(), primary: primary})
	}
	addLoop("tri", s2.LoopFromPoints(tri), true)
	zl := c15EncBytes((&s2.Loop{}).Encode)
	if zl == nil {
		zl = append([]byte{1, 0, 0, 0, 0, 0, 0, 0, 0, 0}, emptyRect...)
	}
	add(c15Base{typ: "loop", name: "zero", data: zl, fields: c15LoopFields()})
	addLoop("empty", s2.EmptyLoop(), false)
	addLoop("full", s2.FullLoop(), false)
	addLoop("pent", s2.LoopFromPoints([]s2.Point{c15LL(-10, -10), c15LL(-12, 5), c15LL(0, 12), c15LL(9, 1), c15LL(3, -14)}), false)
	addLoop("reg6", s2.RegularLoop(c15LL(50, -120), 0.1*s1.Radian, 6), false)
	addLoop("reg8", s2.RegularLoop(c15LL(-70, 30), 0.4*s1.Radian, 8), false)
	addLoop("cell", s2.LoopFromCell(s2.CellFromCellID(leaf.Parent(6))), false)

	// polygons, uncompressed (version 1)
	addPoly := func(name string, p *s2.Polygon, primary, varintAll bool) (ver byte) {
		b := c15EncBytes(p.Encode)
		if len(b) == 0 {
			return 0
		}
		base := c15Base{typ: "polygon", name: name, data: b, primary: primary, varintAll: varintAll}
		if b[0] == 1 {
			base.name = "unc-" + name
			base.fields = c15PolyUncFields()
		} else {
			base.name = "comp-" + name
			base.fields = c15PolyCompFields(b)
		}
		add(base)
		return b[0]
	}
	addPoly("tri", s2.PolygonFromLoops([]*s2.Loop{s2.LoopFromPoints(tri)}), true, false)
	add(c15Base{typ: "polygon", name: "unc-zero", data: append([]byte{1, 1, 0, 0, 0, 0, 0}, emptyRect...), fields: c15PolyUncFields()[:1]})
	addPoly("two", s2.PolygonFromLoops([]*s2.Loop{
		s2.RegularLoop(c15LL(10, 10), 0.05*s1.Radian, 4),
		s2.RegularLoop(c15LL(-20, 100), 0.08*s1.Radian, 3)}), false, false)
	addPoly("hole", s2.PolygonFromLoops([]*s2.Loop{
		s2.RegularLoop(c15LL(40, -75), 0.5*s1.Radian, 5),
		s2.RegularLoop(c15LL(40, -75), 0.1*s1.Radian, 4)}), false, false)
	addPoly("full", s2.FullPolygon(), false, false)
	// more than maxLinearSearchLoops (12) loops: Edge / ChainPosition use the cumulative-edge search; and the same encoding with
	// one loop replaced by a ZERO-vertex loop (decodes without error; the duplicate entry in cumulativeEdges must not send
	// Edge() into the empty loop — seeded change C15_5)
	{
		var ls []*s2.Loop
		for k := 0; k < 15; k++ {
			ls = append(ls, s2.RegularLoop(c15LL(-60+8*float64(k), -170+23*float64(k)), 0.03*s1.Radian, 3+k%3))
		}
		many := s2.PolygonFromLoops(ls)
		addPoly("many", many, false, false)
		if b := c15EncBytes(many.Encode); len(b) > 0 && b[0] == 1 {
			// header: version, legacy bool, hasHoles, uint32 numLoops; then the loops; then the bound
			out := append([]byte(nil), b[:7]...)
			for k, l := range many.Loops() {
				lb := c15EncBytes(l.Encode)
				if k == 6 {
					// version, nvertices = 0, originInside = 0, depth = 0, empty bound
					lb = append([]byte{1, 0, 0, 0, 0, 0, 0, 0, 0, 0}, emptyRect...)
				}
				out = append(out, lb...)
			}
			out = append(out, b[len(b)-len(emptyRect):]...)
			add(c15Base{typ: "polygon", name: "unc-many-zero", data: out, fields: c15PolyUncFields()[:1]})
		}
	}

	// polygons, compressed (version 4): all/most vertices at cell centres
	snap := func(p s2.Point, level int) s2.Point { return s2.CellFromPoint(p).ID().Parent(level).Point() }
	snapLoop := func(l *s2.Loop, level int, keep map[int]bool) *s2.Loop {
		v := append([]s2.Point{}, l.Vertices()...)
		for i := range v {
			if !keep[i] {
				v[i] = snap(v[i], level)
			}
		}
		return s2.LoopFromPoints(v)
	}
	// primary: the first of these that really encodes as version 4
	havePrimary := false
	for _, lvl := range []int{5, 6, 10, 3} {
		l := snapLoop(s2.RegularLoop(c15LL(20, 30), 0.2*s1.Radian, 4), lvl, nil)
		b := c15EncBytes(s2.PolygonFromLoops([]*s2.Loop{l}).Encode)
		if len(b) > 0 && b[0] == 4 && !havePrimary {
			havePrimary = true
			addPoly("snap4-l"+is(lvl), s2.PolygonFromLoops([]*s2.Loop{l}), true, true)
		}
	}
	add(c15Base{typ: "polygon", name: "comp-zero-l0", data: []byte{4, 0, 0}, fields: []c15Field{{2, c15KVar, c15MaxLoops}}, fieldOnly: true})
	addPoly("zero", &s2.Polygon{}, false, false)
	addPoly("cell", s2.PolygonFromCell(s2.CellFromCellID(leaf.Parent(8))), false, !havePrimary)
	addPoly("two", s2.PolygonFromLoops([]*s2.Loop{
		snapLoop(s2.RegularLoop(c15LL(10, 10), 0.05*s1.Radian, 4), 12, nil),
		snapLoop(s2.RegularLoop(c15LL(-20, 100), 0.08*s1.Radian, 3), 12, nil)}), false, false)
	addPoly("offcentre", s2.PolygonFromLoops([]*s2.Loop{
		snapLoop(s2.RegularLoop(c15LL(-5, -60), 0.3*s1.Radian, 8), 12, map[int]bool{3: true})}), false, false)
	addPoly("hole", s2.PolygonFromLoops([]*s2.Loop{
		snapLoop(s2.RegularLoop(c15LL(40, -75), 0.5*s1.Radian, 5), 9, nil),
		snapLoop(s2.RegularLoop(c15LL(40, -75), 0.1*s1.Radian, 4), 9, map[int]bool{1: true})}), false, false)
	addPoly("cells2", s2.PolygonFromLoops([]*s2.Loop{
		s2.LoopFromCell(s2.CellFromCellID(leaf.Parent(8))),
		s2.LoopFromCell(s2.CellFromCellID(leaf2.Parent(8)))}), false, false)
	addPoly("big70", s2.PolygonFromLoops([]*s2.Loop{
		snapLoop(s2.RegularLoop(c15LL(60, 60), 0.2*s1.Radian, 70), 14, nil)}), false, false)

	// seed-dependent extras (never primary)
	rp := func() s2.Point {
		return s2.PointFromCoords(rng.Float()*2-1, rng.Float()*2-1, rng.Float()*2-1)
	}
	add(c15Base{typ: "point", name: "rnd", data: c15EncBytes(rp().Encode)})
	add(c15Base{typ: "cap", name: "rnd", data: c15EncBytes(s2.CapFromCenterAngle(rp(), s1.Angle(rng.Float()*3)).Encode)})
	rid := s2.CellFromPoint(rp()).ID().Parent(rng.Intn(31))
	add(c15Base{typ: "cellid", name: "rnd", data: c15EncBytes(rid.Encode)})
	add(c15Base{typ: "cell", name: "rnd", data: c15EncBytes(s2.CellFromCellID(rid).Encode)})
	rl := s2.RegularLoop(rp(), s1.Angle(0.01+rng.Float()), rng.Range(3, 8))
	add(c15Base{typ: "loop", name: "rnd", data: c15EncBytes(rl.Encode), fields: c15LoopFields()})
	rpl := s2.Polyline{rp(), rp(), rp()}
	add(c15Base{typ: "polyline", name: "rnd", data: c15EncBytes(rpl.Encode), fields: c15LoopFields()})
	addPoly("rnd", s2.PolygonFromLoops([]*s2.Loop{snapLoop(rl, rng.Range(4, 20), nil)}), false, false)
	return bases
}

type c15Emitter struct {
	g    *G
	seen map[string]bool
	idx  int
	fam  map[string]int
}

func (e *c15Emitter) emit(fam, typ string, data []byte) bool {
	h := c15Hex(data)
	key := typ + " " + h
	if e.seen[key] {
		return false
	}
	e.seen[key] = true
	i := e.idx
	e.idx++
	e.fam[fam]++
	if i%e.g.shardM == e.g.shardK {
		e.g.emit("dec", typ, h)
	}
	return true
}

// c15Sample returns min(b, n) distinct indices in [0, n), ascending.
func c15Sample(rng *RNG, n, b int) []int {
	if b <= 0 || n <= 0 {
		return nil
	}
	if b >= n {
		r := make([]int, n)
		for i := range r {
			r[i] = i
		}
		return r
	}
	var r []int
	if b > n/2 {
		p := make([]int, n)
		for i := range p {
			p[i] = i
		}
		for i := 0; i < b; i++ {
			j := i + rng.Intn(n-i)
			p[i], p[j] = p[j], p[i]
		}
		r = p[:b]
	} else {
		seen := map[int]bool{}
		for len(r) < b {
			x := rng.Intn(n)
			if !seen[x] {
				seen[x] = true
				r = append(r, x)
			}
		}
	}
	sort.Ints(r)
	return r
}

func c15RandBytes(rng *RNG, n int) []byte {
	b := make([]byte, n)
	for i := range b {
		b[i] = byte(rng.U64())
	}
	return b
}

var c15Types = []string{"point", "cap", "rect", "cellid", "cell", "cellunion", "polyline", "loop", "polygon"}

func genC15(g *G) {
	defer func() {
		// shut the child down cleanly
		c15Mu.Lock()
		if c15Cur != nil {
			c15Cur.stdin.Close()
			c15Cur.cmd.Wait()
			c15Cur = nil
		}
		c15Mu.Unlock()
	}()
	rng := g.rng
	em := &c15Emitter{g: g, seen: map[string]bool{}, fam: map[string]int{}}
	bases := c15Bases(rng)
	total := 3 * g.n
	heavyCap := 2
	if g.thorough {
		total = 12 * g.n
		heavyCap = 12
	}

	// ---- mandatory, seed-independent part -------------------------------
	// e. count = 0 edge cases
	for _, b := range bases {
		switch b.typ + "/" + b.name {
		case "loop/zero", "polygon/unc-zero", "polygon/comp-zero", "polygon/comp-zero-l0", "polyline/n0", "cellunion/n0":
			em.emit("e:count0", b.typ, b.data)
		}
	}
	// f. non-finite vertex coordinates (known finding D21: accepted by the decoders, exact predicates panic later);
	// emitted in every run so that the KNOWN-FINDING line is printed
	for _, nf := range [][2]string{
		{"loop", "0103000000000000000000f87f000000000000000000000000000000000000000000000000000000000000f03f000000000000000000000000000000000000000000000000000000000000f03f000000000001182d4454fb21f9bf182d4454fb21f93f182d4454fb2109c0182d4454fb210940"},
		{"loop", "0103000000000000000000f07f000000000000000000000000000000000000000000000000000000000000f03f000000000000000000000000000000000000000000000000000000000000f03f000000000001182d4454fb21f9bf182d4454fb21f93f182d4454fb2109c0182d4454fb210940"},
		{"polygon", "010100010000000103000000000000000000f87f000000000000000000000000000000000000000000000000000000000000f03f000000000000000000000000000000000000000000000000000000000000f03f000000000001182d4454fb21f9bf182d4454fb21f93f182d4454fb2109c0182d4454fb21094001182d4454fb21f9bf182d4454fb21f93f182d4454fb2109c0182d4454fb210940"},
		{"polygon", "040001031200000100000000000000f87f000000000000000000000000000000000000"},
	} {
		d, _ := hex.DecodeString(nf[1])
		em.emit("f:nonfinite", nf[0], d)
	}
	// unmodified bases (incl. the seed-dependent ones: they sit at the end and
	// do not shift the indices of the deterministic ones)
	for _, b := range bases {
		em.emit("base", b.typ, b.data)
	}
	// a. truncations of the primaries
	for _, b := range bases {
		if b.primary {
			for n := 0; n < len(b.data); n++ {
				em.emit("a:trunc-primary", b.typ, b.data[:n])
			}
		}
	}
	// c. targeted count-field substitutions on the primaries
	type heavyCand struct {
		typ  string
		data []byte
		prio int
	}
	var heavy []heavyCand
	for _, b := range bases {
		if !b.primary && !b.fieldOnly {
			continue
		}
		for _, f := range b.fields {
			for _, v := range c15Special {
				for _, trunc := range []bool{false, true} {
					d := c15Subst(b.data, f, v, trunc)
					if d == nil {
						continue
					}
					// A count in [2^20, limit] makes the decoder allocate for
					// real (~1 GB, ~1 s).  The compressed polygon loop count is
					// not rejected above its limit either (the decoder records
					// the error but carries on), so there every value up to
					// 50000001 allocates; the ones far above the limit take
					// ~20 s and ~4 GB each and are kept for the thorough tier.
					compLoops := f.kind == c15KVar && f.limit == c15MaxLoops
					if c15Heavy(b.typ, v) && (v <= f.limit || compLoops) {
						p := 0
						if v != f.limit {
							p += 2
						}
						if !trunc {
							p++
						}
						if compLoops && v > f.limit+1 {
							if !g.thorough {
								continue
							}
							p += 4
						}
						heavy = append(heavy, heavyCand{b.typ, d, p})
						continue
					}
					em.emit("c:targeted-primary", b.typ, d)
				}
			}
		}
	}
	sort.SliceStable(heavy, func(i, j int) bool { return heavy[i].prio < heavy[j].prio })
	heavyN := map[string]int{}
	for _, h := range heavy {
		if heavyN[h.typ] < heavyCap {
			if em.emit("c:targeted-heavy", h.typ, h.data) {
				heavyN[h.typ]++
			}
		}
	}
	// c. blind uvarint splice at every offset of the compressed-polygon primary
	for _, b := range bases {
		if !b.varintAll {
			continue
		}
		for o := 0; o <= len(b.data); o++ {
			for _, v := range c15Special {
				if c15Heavy(b.typ, v) {
					continue
				}
				em.emit("c:varint-all-comp", b.typ, c15PutVarint(b.data, o, v, false))
			}
		}
	}
	// g. small-value byte substitution at every offset of the compressed polygons that carry off-centre vertices: the index of
	// an off-centre vertex is a uvarint that must be < the vertex count n; values n-1, n, n+1 at every one-byte varint position
	// hit that boundary (seeded change C15_1) together with many neighbouring fields
	for _, b := range bases {
		var ns []int
		switch b.name {
		case "comp-offcentre":
			ns = []int{7, 8, 9}
		case "comp-hole":
			ns = []int{3, 4, 5, 6}
		}
		for o := 3; ns != nil && o < len(b.data); o++ {
			for _, v := range ns {
				if b.data[o] < 0x80 && int(b.data[o]) != v {
					d := append([]byte{}, b.data...)
					d[o] = byte(v)
					em.emit("g:small-subst-comp", b.typ, d)
				}
			}
		}
	}
	// g2. the snap-level byte of every compressed polygon (offset 1): values beyond MaxLevel incl. those with the high bit set
	// (a signed read of this byte turns them into negative levels — seeded change C15_7)
	for _, b := range bases {
		if b.typ == "polygon" && len(b.data) > 2 && b.data[0] == 4 {
			for _, v := range []byte{31, 32, 64, 127, 128, 129, 158, 200, 255} {
				d := append([]byte{}, b.data...)
				d[1] = v
				em.emit("g:snap-level", b.typ, d)
			}
		}
	}
	// h. lossless polygons with several loops: a failure INSIDE a nested loop that is not an I/O error (every single-bit flip of
	// the loop's version byte; vertex count above the limit) while plenty of bytes follow — the polygon decoder must fail as a
	// whole and must not go on reading (seeded change C15_2: a reader that forgets its sticky error)
	for _, b := range bases {
		if b.typ != "polygon" || (b.name != "unc-two" && b.name != "unc-hole" && b.name != "unc-many") {
			continue
		}
		// header 7 bytes; loop k = version(1) n(4) vertices(24 n) originInside(1) depth(4) boundEncoded(1) bound(32)
		off := 7
		for k := 0; off+5 <= len(b.data) && k < 3; k++ {
			n := int(b.data[off+1]) | int(b.data[off+2])<<8 | int(b.data[off+3])<<16 | int(b.data[off+4])<<24
			if n < 0 || n > 1000 {
				break
			}
			for bit := 0; bit < 8; bit++ {
				d := append([]byte{}, b.data...)
				d[off] ^= 1 << uint(bit)
				em.emit("h:nested-version", b.typ, d)
			}
			d := append([]byte{}, b.data...)
			d[off+1], d[off+2], d[off+3], d[off+4] = 0x81, 0xf0, 0xfa, 0x02 // 50000001 = limit + 1
			em.emit("h:nested-count", b.typ, d)
			off += 1 + 4 + 24*n + 1 + 4 + 1 + 32
		}
	}
	mandatory := em.idx

	// ---- sampled, seed-dependent part ------------------------------------
	rest := total - mandatory
	if rest < total/3 {
		rest = total / 3
	}
	share := func(w int) int { return rest * w / 100 }

	// a2. truncations of the other bases
	{
		type tc struct{ b, n int }
		var cands []tc
		for bi, b := range bases {
			if !b.primary {
				for n := 0; n < len(b.data); n++ {
					cands = append(cands, tc{bi, n})
				}
			}
		}
		for _, i := range c15Sample(rng, len(cands), share(15)) {
			em.emit("a:trunc-other", bases[cands[i].b].typ, bases[cands[i].b].data[:cands[i].n])
		}
	}
	// c-t2. targeted substitutions on the other bases (non-heavy values)
	{
		type sc struct {
			b, f  int
			v     uint64
			trunc bool
		}
		var cands []sc
		for bi, b := range bases {
			if b.primary || b.fieldOnly {
				continue
			}
			for fi := range b.fields {
				for _, v := range c15Special {
					if !c15Heavy(b.typ, v) {
						cands = append(cands, sc{bi, fi, v, false}, sc{bi, fi, v, true})
					}
				}
			}
		}
		for _, i := range c15Sample(rng, len(cands), share(7)) {
			c := cands[i]
			b := bases[c.b]
			if d := c15Subst(b.data, b.fields[c.f], c.v, c.trunc); d != nil {
				em.emit("c:targeted-other", b.typ, d)
			}
		}
	}
	// b1. single bit flips
	{
		type bc struct{ b, bit int }
		var cands []bc
		for bi, b := range bases {
			nb := len(b.data) * 8
			if len(b.data) <= 64 {
				for i := 0; i < nb; i++ {
					cands = append(cands, bc{bi, i})
				}
			} else {
				k := g.n / 4
				if k < 64 {
					k = 64
				}
				for _, i := range c15Sample(rng, nb, k) {
					cands = append(cands, bc{bi, i})
				}
			}
		}
		for _, i := range c15Sample(rng, len(cands), share(25)) {
			c := cands[i]
			d := append([]byte{}, bases[c.b].data...)
			d[c.bit/8] ^= 1 << uint(c.bit%8)
			em.emit("b:bitflip1", bases[c.b].typ, d)
		}
	}
	// b2. random multi-bit flips (2-8 bits)
	for k, tries := 0, 0; k < share(10) && tries < 20*share(10); tries++ {
		b := bases[rng.Intn(len(bases))]
		if len(b.data) == 0 {
			continue
		}
		d := append([]byte{}, b.data...)
		for j, nf := 0, rng.Range(2, 8); j < nf; j++ {
			bit := rng.Intn(len(d) * 8)
			d[bit/8] ^= 1 << uint(bit%8)
		}
		if em.emit("b:bitflipN", b.typ, d) {
			k++
		}
	}
	// c-blind. substitution of the special values at arbitrary offsets
	{
		type oc struct{ b, off int }
		var offs []oc
		for bi, b := range bases {
			if len(b.data) <= 200 {
				for o := 0; o <= len(b.data); o++ {
					offs = append(offs, oc{bi, o})
				}
			} else {
				for _, o := range c15Sample(rng, len(b.data)+1, 200) {
					offs = append(offs, oc{bi, o})
				}
			}
		}
		nv := len(c15Special)
		per := 3 * nv // encodings: u32, u64, uvarint
		want := share(23)
		for k, tries := 0, 0; k < want && tries < 20*want; tries++ {
			x := rng.Intn(len(offs) * per)
			o := offs[x/per]
			enc, v := (x%per)/nv, c15Special[x%nv]
			b := bases[o.b]
			if c15Heavy(b.typ, v) {
				continue
			}
			var d []byte
			switch enc {
			case 0:
				if v >= 1<<32 {
					continue
				}
				d = c15PutFixed(b.data, o.off, 4, v, false)
			case 1:
				d = c15PutFixed(b.data, o.off, 8, v, false)
			default:
				d = c15PutVarint(b.data, o.off, v, false)
			}
			if em.emit("c:blind", b.typ, d) {
				k++
			}
		}
	}
	// d1. random byte strings of length 0..64 for every type
	for k, tries := 0, 0; k < share(10) && tries < 20*share(10); tries++ {
		typ := c15Types[tries%len(c15Types)]
		if em.emit("d:random", typ, c15RandBytes(rng, rng.Range(0, 64))) {
			k++
		}
	}
	// d2. random strings that start with a valid header
	for k, tries := 0, 0; k < share(10) && tries < 20*share(10); tries++ {
		b := bases[rng.Intn(len(bases))]
		h := rng.Range(1, 4)
		if h > len(b.data) {
			h = len(b.data)
		}
		d := append(append([]byte{}, b.data[:h]...), c15RandBytes(rng, rng.Range(0, 60))...)
		if em.emit("d:header-random", b.typ, d) {
			k++
		}
	}

	if os.Getenv("C15_STATS") != "" {
		var ks []string
		for k := range em.fam {
			ks = append(ks, k)
		}
		sort.Strings(ks)
		fmt.Fprintf(os.Stderr, "c15: %d bases, %d generated (%d mandatory), %d emitted by this shard\n", len(bases), em.idx, mandatory, g.count)
		for _, k := range ks {
			fmt.Fprintf(os.Stderr, "c15:   %-22s %d\n", k, em.fam[k])
		}
		for _, b := range bases {
			ver := ""
			if len(b.data) > 0 {
				ver = fmt.Sprintf("first=%02x", b.data[0])
			}
			fmt.Fprintf(os.Stderr, "c15:   base %-9s %-18s len=%-4d %s primary=%v\n", b.typ, b.name, len(b.data), ver, b.primary)
		}
	}
}
