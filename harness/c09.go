package main

// C09 — encoding is lossless.  Every op encodes a value with the real Encode, decodes the bytes
// with the real Decode, encodes the original a second time, and prints
//   <hex bytes> [<original observable fields>] <ok|E> <decoded observable fields> <second encoding identical T/F>
//   [<queries answered identically by original and decoded value: T | F:<which>>]   (loops, polygons)
// An Encode error is the single token ENCERR (the property speaks about values the encoder accepts).
// Floats travel as bit patterns.  Value syntax:
//   point  x,y,z            pts   - | p;p;…           rect a,b,c,d
//   loop   oi/depth/rect/pts                     (rect may be "-" when the model has none)
//   poly   hasHoles|rect|loops   with loops = - | loop!loop!…

import (
	"bytes"
	"encoding/binary"
	"encoding/hex"
	"math"
	"strconv"
	"strings"

	"github.com/golang/geo/r1"
	"github.com/golang/geo/r3"
	"github.com/golang/geo/s1"
	"github.com/golang/geo/s2"
)

func ptTok(p s2.Point) string { return fx(p.X) + "," + fx(p.Y) + "," + fx(p.Z) }
func ptsTok(ps []s2.Point) string {
	if len(ps) == 0 {
		return "-"
	}
	s := make([]string, len(ps))
	for i, p := range ps {
		s[i] = ptTok(p)
	}
	return strings.Join(s, ";")
}
func pPt(s string) s2.Point {
	f := strings.Split(s, ",")
	return s2.Point{Vector: r3.Vector{X: pF(f[0]), Y: pF(f[1]), Z: pF(f[2])}}
}
func pPts(s string) []s2.Point {
	if s == "-" {
		return nil
	}
	parts := strings.Split(s, ";")
	r := make([]s2.Point, len(parts))
	for i, p := range parts {
		r[i] = pPt(p)
	}
	return r
}
func rectTok(r s2.Rect) string {
	return fx(r.Lat.Lo) + "," + fx(r.Lat.Hi) + "," + fx(r.Lng.Lo) + "," + fx(r.Lng.Hi)
}
func loopTok(l *s2.Loop) string {
	return bs(l.ContainsOrigin()) + "/" + is(s2.VerifLoopDepth(l)) + "/" + rectTok(l.RectBound()) + "/" + ptsTok(l.Vertices())
}
func polyTok(p *s2.Polygon) string {
	ls := p.Loops()
	s := "-"
	if len(ls) > 0 {
		t := make([]string, len(ls))
		for i, l := range ls {
			t[i] = loopTok(l)
		}
		s = strings.Join(t, "!")
	}
	return bs(s2.VerifPolygonHasHoles(p)) + "|" + rectTok(p.RectBound()) + "|" + s
}
func errTok(err error) string {
	if err == nil {
		return "ok"
	}
	return "E"
}
func hexTok(b []byte) string {
	if len(b) == 0 {
		return "~"
	}
	return hex.EncodeToString(b)
}
func pHex(s string) []byte {
	if s == "~" {
		return nil
	}
	b, err := hex.DecodeString(s)
	if err != nil {
		panic("bad hex bytes")
	}
	return b
}

// parseLoops: pts lists joined by '!', "-" = no loops, "FULL"/"EMPTY" = the special polygons.
func buildPolygon(spec string) *s2.Polygon {
	switch spec {
	case "FULL":
		return s2.FullPolygon()
	case "-":
		return s2.PolygonFromLoops(nil)
	}
	var loops []*s2.Loop
	for _, ls := range strings.Split(spec, "!") {
		loops = append(loops, s2.LoopFromPoints(pPts(ls)))
	}
	return s2.PolygonFromLoops(loops)
}

func init() {
	replayers["encpoint"] = func(a []string) []string {
		p := s2.Point{Vector: r3.Vector{X: pF(a[0]), Y: pF(a[1]), Z: pF(a[2])}}
		var b, b2 bytes.Buffer
		if err := p.Encode(&b); err != nil {
			return []string{"ENCERR"}
		}
		var q s2.Point
		err := q.Decode(bytes.NewReader(b.Bytes()))
		p.Encode(&b2)
		return []string{hexTok(b.Bytes()), errTok(err), ptTok(q), bs(bytes.Equal(b.Bytes(), b2.Bytes()))}
	}
	replayers["enccap"] = func(a []string) []string {
		c := s2.CapFromCenterChordAngle(s2.Point{Vector: r3.Vector{X: pF(a[0]), Y: pF(a[1]), Z: pF(a[2])}}, s1.ChordAngle(pF(a[3])))
		var b, b2 bytes.Buffer
		if err := c.Encode(&b); err != nil {
			return []string{"ENCERR"}
		}
		var q s2.Cap
		err := q.Decode(bytes.NewReader(b.Bytes()))
		c.Encode(&b2)
		// the chord angle is not exported: re-encode the decoded cap to read it back bit-exactly
		var b3 bytes.Buffer
		q.Encode(&b3)
		r := math.Float64frombits(binary.LittleEndian.Uint64(b3.Bytes()[24:32]))
		return []string{hexTok(b.Bytes()), errTok(err), ptTok(q.Center()), fx(r), bs(bytes.Equal(b.Bytes(), b2.Bytes()))}
	}
	replayers["encrect"] = func(a []string) []string {
		r := s2.Rect{Lat: r1.Interval{Lo: pF(a[0]), Hi: pF(a[1])}, Lng: s1.Interval{Lo: pF(a[2]), Hi: pF(a[3])}}
		var b, b2 bytes.Buffer
		if err := r.Encode(&b); err != nil {
			return []string{"ENCERR"}
		}
		var q s2.Rect
		err := q.Decode(bytes.NewReader(b.Bytes()))
		r.Encode(&b2)
		return []string{hexTok(b.Bytes()), errTok(err), rectTok(q), bs(bytes.Equal(b.Bytes(), b2.Bytes()))}
	}
	replayers["enccellid"] = func(a []string) []string {
		c := s2.CellID(pU64(a[0]))
		var b, b2 bytes.Buffer
		if err := c.Encode(&b); err != nil {
			return []string{"ENCERR"}
		}
		var q s2.CellID
		err := q.Decode(bytes.NewReader(b.Bytes()))
		c.Encode(&b2)
		return []string{hexTok(b.Bytes()), errTok(err), idx(q), bs(bytes.Equal(b.Bytes(), b2.Bytes()))}
	}
	replayers["enccell"] = func(a []string) []string {
		c := s2.CellFromCellID(s2.CellID(pU64(a[0])))
		var b, b2 bytes.Buffer
		if err := c.Encode(&b); err != nil {
			return []string{"ENCERR"}
		}
		var q s2.Cell
		err := q.Decode(bytes.NewReader(b.Bytes()))
		c.Encode(&b2)
		// observable: id, and the decoded cell must equal CellFromCellID(id) (all derived fields)
		return []string{hexTok(b.Bytes()), errTok(err), idx(q.ID()), bs(q == c), bs(bytes.Equal(b.Bytes(), b2.Bytes()))}
	}
	replayers["enccu"] = func(a []string) []string {
		cu := s2.CellUnion(pIDs(a[0]))
		var b, b2 bytes.Buffer
		if err := cu.Encode(&b); err != nil {
			return []string{"ENCERR"}
		}
		var q s2.CellUnion
		err := q.Decode(bytes.NewReader(b.Bytes()))
		cu.Encode(&b2)
		return []string{hexTok(b.Bytes()), errTok(err), ids(q), bs(bytes.Equal(b.Bytes(), b2.Bytes()))}
	}
	// enccubig n : a union of n distinct leaf cells (too long to print): only lengths and verdicts
	replayers["enccubig"] = func(a []string) []string {
		n := pI(a[0])
		cu := make(s2.CellUnion, n)
		id := s2.CellIDFromFace(0).ChildBeginAtLevel(30)
		for i := range cu {
			cu[i] = id
			id = id.Next().Next()
		}
		var b bytes.Buffer
		if err := cu.Encode(&b); err != nil {
			return []string{"ENCERR"}
		}
		var q s2.CellUnion
		err := q.Decode(bytes.NewReader(b.Bytes()))
		return []string{is(b.Len()), errTok(err), is(len(q)), bs(q.Equal(cu))}
	}
	replayers["encpolyline"] = func(a []string) []string {
		p := s2.Polyline(pPts(a[0]))
		var b, b2 bytes.Buffer
		if err := p.Encode(&b); err != nil {
			return []string{"ENCERR"}
		}
		var q s2.Polyline
		err := q.Decode(bytes.NewReader(b.Bytes()))
		p.Encode(&b2)
		return []string{hexTok(b.Bytes()), errTok(err), ptsTok(q), bs(bytes.Equal(b.Bytes(), b2.Bytes()))}
	}
	loopRT := func(l *s2.Loop) []string {
		var b, b2 bytes.Buffer
		if err := l.Encode(&b); err != nil {
			return []string{"ENCERR"}
		}
		var q s2.Loop
		err := q.Decode(bytes.NewReader(b.Bytes()))
		l.Encode(&b2)
		dec := "-"
		if err == nil {
			dec = loopTok(&q)
		}
		qs := "-"
		if err == nil {
			qs = loopQueriesSame(l, &q)
		}
		return []string{hexTok(b.Bytes()), loopTok(l), errTok(err), dec, bs(bytes.Equal(b.Bytes(), b2.Bytes())), qs}
	}
	replayers["encloop"] = func(a []string) []string { return loopRT(s2.LoopFromPoints(pPts(a[0]))) }
	replayers["encloopof"] = func(a []string) []string {
		p := buildPolygon(a[0])
		return loopRT(p.Loops()[pI(a[1])])
	}
	replayers["encpolygon"] = func(a []string) []string {
		p := buildPolygon(a[0])
		var b, b2 bytes.Buffer
		if err := p.Encode(&b); err != nil {
			return []string{"ENCERR"}
		}
		var q s2.Polygon
		err := q.Decode(bytes.NewReader(b.Bytes()))
		p.Encode(&b2)
		dec := "-"
		if err == nil {
			dec = polyTok(&q)
		}
		qs := "-"
		if err == nil {
			qs = polyQueriesSame(p, &q)
		}
		return []string{hexTok(b.Bytes()), polyTok(p), errTok(err), dec, bs(bytes.Equal(b.Bytes(), b2.Bytes())), qs}
	}
	// ---- primitives
	replayers["uvar"] = func(a []string) []string {
		var buf [binary.MaxVarintLen64]byte
		n := binary.PutUvarint(buf[:], pU64(a[0]))
		return []string{hexTok(buf[:n])}
	}
	replayers["uvardec"] = func(a []string) []string {
		r := bytes.NewReader(pHex(a[0]))
		v, err := binary.ReadUvarint(r)
		if err != nil {
			return []string{"E"}
		}
		return []string{hx(v), is(r.Len())}
	}
	replayers["zz"] = func(a []string) []string {
		x := uint32(pU64(a[0]))
		e := s2.VerifZigzagEncode(int32(x))
		return []string{hx(uint64(e)), hx(uint64(uint32(s2.VerifZigzagDecode(x))))}
	}
	replayers["il"] = func(a []string) []string {
		x, y := uint32(pU64(a[0])), uint32(pU64(a[1]))
		c := s2.VerifInterleave(x, y)
		dx, dy := s2.VerifDeinterleave(pU64(a[2]))
		return []string{hx(c), hx(uint64(dx)), hx(uint64(dy))}
	}
	replayers["nth"] = func(a []string) []string {
		n := pI(a[0])
		var ks []int32
		if a[1] != "-" {
			for _, t := range strings.Split(a[1], ",") {
				ks = append(ks, int32(uint32(pU64(t))))
			}
		}
		f := func(v []int32) string {
			if len(v) == 0 {
				return "-"
			}
			s := make([]string, len(v))
			for i, k := range v {
				s[i] = hx(uint64(uint32(k)))
			}
			return strings.Join(s, ",")
		}
		return []string{f(s2.VerifNthDerivative(n, true, ks)), f(s2.VerifNthDerivative(n, false, ks))}
	}
	replayers["piqi"] = func(a []string) []string {
		si := uint32(pU64(a[0]))
		level := pI(a[1])
		pi := s2.VerifSiTiToPiQi(si, level)
		return []string{strconv.FormatUint(uint64(pi), 10), fx(s2.VerifPiQiToST(pi, level)), fx(s2.VerifSiTiToST(si))}
	}
	replayers["snap"] = func(a []string) []string {
		p := s2.Point{Vector: r3.Vector{X: pF(a[0]), Y: pF(a[1]), Z: pF(a[2])}}
		f, si, ti, lvl := s2.VerifXYZToFaceSiTi(p)
		return []string{is(f), strconv.FormatUint(uint64(si), 10), strconv.FormatUint(uint64(ti), 10), is(lvl)}
	}
	replayers["ptsc"] = func(a []string) []string {
		level := pI(a[0])
		pts := pPts(a[1])
		b, err := s2.VerifEncodePointsCompressed(pts, level)
		if err != nil {
			return []string{"ENCERR"}
		}
		q, rem, derr := s2.VerifDecodePointsCompressed(b, level, len(pts))
		return []string{hexTok(b), errTok(derr), is(rem), ptsTok(q)}
	}
	generators["c09"] = genC09
}


// ---------------------------------------------------------------- query comparison

// queryPoints: axis points, every vertex, edge midpoints, slightly displaced vertices, vertex sums.
func queryPoints(loops [][]s2.Point) []s2.Point {
	pts := []s2.Point{
		{Vector: r3.Vector{X: 1}}, {Vector: r3.Vector{X: -1}}, {Vector: r3.Vector{Y: 1}},
		{Vector: r3.Vector{Y: -1}}, {Vector: r3.Vector{Z: 1}}, {Vector: r3.Vector{Z: -1}},
		s2.OriginPoint(),
	}
	for _, vs := range loops {
		var sum r3.Vector
		for i, v := range vs {
			sum = sum.Add(v.Vector)
			if i >= 40 {
				continue
			}
			pts = append(pts, v)
			w := vs[(i+1)%len(vs)]
			if m := v.Vector.Add(w.Vector); m.Norm2() > 0 {
				pts = append(pts, s2.Point{Vector: m.Normalize()})
			}
			o := v.Vector.Ortho()
			pts = append(pts, s2.Point{Vector: v.Vector.Add(o.Mul(1e-9)).Normalize()})
			pts = append(pts, s2.Point{Vector: v.Vector.Sub(o.Mul(1e-9)).Normalize()})
		}
		if sum.Norm2() > 0 {
			pts = append(pts, s2.Point{Vector: sum.Normalize()}, s2.Point{Vector: sum.Mul(-1).Normalize()})
		}
	}
	return pts
}

func sameBits(a, b s2.Point) bool {
	return math.Float64bits(a.X) == math.Float64bits(b.X) && math.Float64bits(a.Y) == math.Float64bits(b.Y) &&
		math.Float64bits(a.Z) == math.Float64bits(b.Z)
}

func shapeSame(a, b s2.Shape) string {
	if a.NumEdges() != b.NumEdges() {
		return "F:NumEdges"
	}
	for i := 0; i < a.NumEdges(); i++ {
		ea, eb := a.Edge(i), b.Edge(i)
		if !sameBits(ea.V0, eb.V0) || !sameBits(ea.V1, eb.V1) {
			return "F:Edge"
		}
	}
	if a.NumChains() != b.NumChains() {
		return "F:NumChains"
	}
	for i := 0; i < a.NumChains(); i++ {
		if a.Chain(i) != b.Chain(i) {
			return "F:Chain"
		}
	}
	if a.ReferencePoint().Contained != b.ReferencePoint().Contained || !sameBits(a.ReferencePoint().Point, b.ReferencePoint().Point) {
		return "F:ReferencePoint"
	}
	if a.IsEmpty() != b.IsEmpty() || a.IsFull() != b.IsFull() || a.Dimension() != b.Dimension() {
		return "F:EmptyFull"
	}
	return "T"
}

func loopQueriesSame(l, m *s2.Loop) string {
	if r := shapeSame(l, m); r != "T" {
		return r
	}
	if l.IsHole() != m.IsHole() || l.Sign() != m.Sign() || l.ContainsOrigin() != m.ContainsOrigin() {
		return "F:HoleSign"
	}
	if math.Float64bits(l.Area()) != math.Float64bits(m.Area()) {
		return "F:Area"
	}
	for _, x := range queryPoints([][]s2.Point{l.Vertices()}) {
		if l.ContainsPoint(x) != m.ContainsPoint(x) {
			return "F:ContainsPoint"
		}
	}
	if r := c09loopRelSame(l, m); r != "T" {
		return r
	}
	return "T"
}

// c09loopRelSame: region relations go through the (sub-region) bounds the decoder has to rebuild: a loop
// contains and intersects itself and its decoded twin, and both must relate identically to a third loop.
func c09loopRelSame(l, m *s2.Loop) string {
	// region relations go through the (sub-region) bounds the decoder has to rebuild: a loop contains and
	// intersects itself and its decoded twin, and both must relate identically to a third loop
	if l.NumVertices() >= 3 && !(l.IsEmpty() || l.IsFull()) && c09loopSimple(l) {
		if !m.Contains(l) || !l.Contains(m) || !m.Intersects(l) || !l.Intersects(m) {
			return "F:SelfRelation"
		}
		inner := c09innerLoop(l)
		if inner != nil {
			if l.Contains(inner) != m.Contains(inner) || l.Intersects(inner) != m.Intersects(inner) ||
				inner.Intersects(l) != inner.Intersects(m) || inner.Contains(l) != inner.Contains(m) {
				return "F:Relation"
			}
		}
	}
	return "T"
}

// c09loopSimple reports whether no two non-adjacent edges of l cross or touch (Loop.Validate does not check
// this; region relations are only defined for such loops). Loops above 300 vertices are not checked (false).
func c09loopSimple(l *s2.Loop) bool {
	n := l.NumVertices()
	if n > 300 {
		return false
	}
	for a := 0; a < n; a++ {
		for b := a + 1; b < n; b++ {
			if l.Vertex(a) == l.Vertex(b) {
				return false
			}
		}
		for b := a + 2; b < n; b++ {
			if a == 0 && b == n-1 {
				continue
			}
			if s2.CrossingSign(l.Vertex(a), l.Vertex(a+1), l.Vertex(b), l.Vertex(b+1)) != s2.DoNotCross {
				return false
			}
		}
	}
	return true
}

// c09innerLoop: a small triangle around the first vertex of l (it straddles the boundary), or nil.
func c09innerLoop(l *s2.Loop) *s2.Loop {
	v := l.Vertex(0)
	a := s2.Point{Vector: v.Ortho()}
	b := s2.Point{Vector: v.Cross(a.Vector).Normalize()}
	const eps = 1e-3
	p0 := s2.Point{Vector: v.Add(a.Mul(eps)).Normalize()}
	p1 := s2.Point{Vector: v.Add(a.Mul(-eps / 2)).Add(b.Mul(eps)).Normalize()}
	p2 := s2.Point{Vector: v.Add(a.Mul(-eps / 2)).Add(b.Mul(-eps)).Normalize()}
	t := s2.LoopFromPoints([]s2.Point{p0, p1, p2})
	if t.Validate() != nil {
		return nil
	}
	return t
}

func polyQueriesSame(p, q *s2.Polygon) string {
	if p.NumLoops() != q.NumLoops() {
		return "F:NumLoops"
	}
	if r := shapeSame(p, q); r != "T" {
		return r
	}
	var loops [][]s2.Point
	for i, l := range p.Loops() {
		m := q.Loop(i)
		pa, pok := p.Parent(i)
		qa, qok := q.Parent(i)
		if l.IsHole() != m.IsHole() || l.Sign() != m.Sign() || l.ContainsOrigin() != m.ContainsOrigin() ||
			pa != qa || pok != qok || p.LastDescendant(i) != q.LastDescendant(i) {
			return "F:LoopStructure"
		}
		loops = append(loops, l.Vertices())
		if r := c09loopRelSame(l, m); r != "T" {
			return r
		}
	}
	if s2.VerifPolygonNumVertices(p) != s2.VerifPolygonNumVertices(q) || p.IsEmpty() != q.IsEmpty() || p.IsFull() != q.IsFull() {
		return "F:Counts"
	}
	if math.Float64bits(p.Area()) != math.Float64bits(q.Area()) {
		return "F:Area"
	}
	for _, x := range queryPoints(loops) {
		if p.ContainsPoint(x) != q.ContainsPoint(x) {
			return "F:ContainsPoint"
		}
	}
	return "T"
}

// ---------------------------------------------------------------- generators

var specialFloats = []uint64{
	0, 0x8000000000000000, 1, 0x8000000000000001, 0x000fffffffffffff, 0x0010000000000000,
	0x3ff0000000000000, 0xbff0000000000000, 0x7fefffffffffffff, 0xffefffffffffffff,
	0x7ff0000000000000, 0xfff0000000000000, 0x7ff8000000000001, 0x7ff0000000000001, 0xfff8000000000000,
	0x3fe0000000000000, 0x4010000000000000, 0x400921fb54442d18, 0x3ff921fb54442d18, 0xc00921fb54442d18,
}

func (g *G) anyFloat() float64 {
	r := g.rng
	switch r.Intn(3) {
	case 0:
		return math.Float64frombits(specialFloats[r.Intn(len(specialFloats))])
	case 1:
		return math.Float64frombits(r.U64())
	}
	return r.Float()*2 - 1
}

func (g *G) unitPoint() s2.Point {
	r := g.rng
	for {
		x, y, z := r.Float()*2-1, r.Float()*2-1, r.Float()*2-1
		if n := x*x + y*y + z*z; n > 0.01 && n <= 1 {
			return s2.PointFromCoords(x, y, z)
		}
	}
}

// facePoint returns a point on the given face, possibly near its edges/corners.
func (g *G) facePoint(face int) s2.Point {
	r := g.rng
	u, v := r.Float()*2-1, r.Float()*2-1
	switch r.Intn(6) {
	case 0:
		u = 1 - r.Float()*1e-3
	case 1:
		v = -1 + r.Float()*1e-3
	case 2:
		u, v = 1-r.Float()*1e-6, 1-r.Float()*1e-6
	}
	return s2.Point{Vector: s2.VerifFaceUVToXYZ(face, u, v).Normalize()}
}

// snap returns the centre of the level-`level` cell containing p.
func snapTo(p s2.Point, level int) s2.Point { return s2.VerifCellIDFromPoint(p).Parent(level).Point() }

func ringPts(c s2.Point, rad float64, n int, phase float64) []s2.Point {
	z := c.Vector
	x := z.Ortho()
	y := z.Cross(x)
	pts := make([]s2.Point, n)
	for i := 0; i < n; i++ {
		a := phase + 2*math.Pi*float64(i)/float64(n)
		h, s := math.Cos(rad), math.Sin(rad)
		v := z.Mul(h).Add(x.Mul(s * math.Cos(a))).Add(y.Mul(s * math.Sin(a)))
		pts[i] = s2.Point{Vector: v.Normalize()}
	}
	return pts
}

// snapMix snaps each vertex according to mode:
// 0 none, 1 all at `level`, 2 mixed levels, 3 partly snapped (prob p10/10) at `level`, 4 partly + mixed
func (g *G) snapMix(pts []s2.Point, mode, level, p10 int) []s2.Point {
	r := g.rng
	out := make([]s2.Point, 0, len(pts))
	for _, p := range pts {
		q := p
		switch mode {
		case 1:
			q = snapTo(p, level)
		case 2:
			q = snapTo(p, level+r.Intn(3)-1)
		case 3:
			if r.Intn(10) < p10 {
				q = snapTo(p, level)
			}
		case 4:
			if r.Intn(10) < p10 {
				l := level
				if r.Intn(4) == 0 {
					l = r.Intn(31)
				}
				q = snapTo(p, l)
			}
		}
		if len(out) > 0 && out[len(out)-1] == q {
			continue
		}
		out = append(out, q)
	}
	for len(out) > 1 && out[0] == out[len(out)-1] {
		out = out[:len(out)-1]
	}
	return out
}

func clampLevel(l int) int {
	if l < 0 {
		return 0
	}
	if l > 30 {
		return 30
	}
	return l
}

// levelFor picks a snap level whose cells are clearly smaller than the edges of an n-gon of radius rad.
func levelFor(rad float64, n int) int {
	edge := 2 * math.Pi * math.Sin(rad) / float64(n)
	l := int(math.Ceil(math.Log2(4*(math.Pi/2)/edge))) + 1
	return clampLevel(l)
}

func loopsSpec(loops [][]s2.Point) string {
	if len(loops) == 0 {
		return "-"
	}
	s := make([]string, len(loops))
	for i, l := range loops {
		s[i] = ptsTok(l)
	}
	return strings.Join(s, "!")
}

func validLoops(loops [][]s2.Point) bool {
	var ls []*s2.Loop
	for _, pts := range loops {
		if len(pts) < 3 {
			return false
		}
		l := s2.LoopFromPoints(pts)
		if l.Validate() != nil {
			return false
		}
		ls = append(ls, l)
	}
	return s2.PolygonFromLoops(ls).Validate() == nil
}

// cellLoop: a rectangle of cell centres at `level` on `face`, in (i,j) space, near an extreme or anywhere.
func (g *G) cellLoop(face, level int) []s2.Point {
	r := g.rng
	size := 1 << uint(30-level)
	ncell := 1 << uint(level)
	if ncell < 4 {
		return nil
	}
	w, h := 1+r.Intn(min(ncell-1, 40)), 1+r.Intn(min(ncell-1, 40))
	var i0, j0 int
	switch r.Intn(5) {
	case 0:
		i0, j0 = 0, 0
	case 1:
		i0, j0 = ncell-1-w, ncell-1-h
	case 2:
		i0, j0 = 0, ncell-1-h
	case 3:
		i0, j0 = ncell/2-w/2-1, ncell/2-h/2-1
	default:
		i0, j0 = r.Intn(ncell-w), r.Intn(ncell-h)
	}
	if i0 < 0 {
		i0 = 0
	}
	if j0 < 0 {
		j0 = 0
	}
	c := func(i, j int) s2.Point {
		return s2.VerifCellIDFromFaceIJ(face, i*size, j*size).Parent(level).Point()
	}
	var pts []s2.Point
	// walk the rectangle boundary counter-clockwise in steps (not only corners: exercises the delta coder)
	step := 1 + r.Intn(3)
	for i := i0; i < i0+w; i += step {
		pts = append(pts, c(i, j0))
	}
	for j := j0; j < j0+h; j += step {
		pts = append(pts, c(i0+w, j))
	}
	for i := i0 + w; i > i0; i -= step {
		pts = append(pts, c(i, j0+h))
	}
	for j := j0 + h; j > j0; j -= step {
		pts = append(pts, c(i0, j))
	}
	return pts
}

func genC09(g *G) {
	r := g.rng
	// ---- fixed boundary cases first
	g.emit("encpolygon", "-")
	g.emit("encpolygon", "FULL")
	// the octahedron triangle: unit axis points are face centres (level-0 cell centres)
	oct := []s2.Point{s2.PointFromCoords(1, 0, 0), s2.PointFromCoords(0, 1, 0), s2.PointFromCoords(0, 0, 1)}
	g.emit("encpolygon", ptsTok(oct))
	g.emit("encloop", ptsTok(oct))
	// the same triangle with the zero signs of the true face centres, and with mixed signs
	nz := math.Copysign(0, -1)
	raw := func(x, y, z float64) s2.Point { return s2.Point{Vector: r3.Vector{X: x, Y: y, Z: z}} }
	g.emit("encpolygon", ptsTok([]s2.Point{raw(1, 0, 0), raw(nz, 1, 0), raw(nz, nz, 1)}))
	g.emit("encpolygon", ptsTok([]s2.Point{raw(1, nz, 0), raw(nz, 1, nz), raw(0, nz, 1)}))
	g.emit("ptsc", "0", ptsTok([]s2.Point{raw(1, 0, 0), raw(1, nz, 0), raw(0, 1, 0), raw(nz, 1, 0), raw(nz, nz, 1), raw(0, 0, -1), raw(nz, 0, -1)}))
	g.emit("encloop", ptTok(s2.PointFromCoords(0, 0, 1)))  // empty loop
	g.emit("encloop", ptTok(s2.PointFromCoords(0, 0, -1))) // full loop
	g.emit("enccu", "-")
	g.emit("encpolyline", "-")
	for _, n := range []int{999999, 1000000, 1000001} {
		g.emit("enccubig", is(n))
	}
	for _, x := range []uint64{0, 1, 127, 128, 16383, 16384, 1<<63 - 1, 1 << 63, math.MaxUint64} {
		g.emit("uvar", hx(x))
	}
	for _, h := range []string{"ffffffffffffffffff01", "ffffffffffffffffff02", "ffffffffffffffffffff01", "80", "8000", "00ff", "~", "ffffffffffffffffff7f"} {
		g.emit("uvardec", h)
	}
	for _, x := range []uint64{0, 1, 2, 0x7fffffff, 0x80000000, 0x80000001, 0xffffffff, 0xfffffffe} {
		g.emit("zz", hx(x))
	}
	for it := 0; it < g.n; it++ {
		switch r.Intn(20) {
		case 0: // primitives
			x := r.U64() >> uint(r.Intn(64))
			g.emit("uvar", hx(x))
			var buf [12]byte
			n := binary.PutUvarint(buf[:], x)
			tail := r.Intn(3)
			for k := 0; k < tail; k++ {
				buf[n+k-0] = byte(r.U64())
			}
			b := buf[:n+tail]
			if r.Intn(4) == 0 {
				b = make([]byte, r.Intn(12))
				for k := range b {
					b[k] = byte(r.U64()) | byte(0x80*r.Intn(2))
				}
			}
			g.emit("uvardec", hexTok(b))
			g.emit("zz", hx(r.U64()&0xffffffff>>uint(r.Intn(32))))
			g.emit("il", hx(r.U64()&0xffffffff>>uint(r.Intn(32))), hx(r.U64()&0xffffffff>>uint(r.Intn(32))), hx(r.U64()>>uint(r.Intn(64))))
			ks := make([]string, r.Intn(8))
			for k := range ks {
				v := r.U64() & 0xffffffff
				if r.Bool() {
					v = []uint64{0, 1, 0x7fffffff, 0x80000000, 0xffffffff, 0x3fffffff}[r.Intn(6)]
				}
				ks[k] = hx(v)
			}
			kt := "-"
			if len(ks) > 0 {
				kt = strings.Join(ks, ",")
			}
			g.emit("nth", is(r.Intn(4)), kt)
		case 1: // (si,ti) centre coordinates at every level, extremes
			level := r.Intn(31)
			var pi uint64
			switch r.Intn(4) {
			case 0:
				pi = 0
			case 1:
				pi = 1<<uint(level) - 1
			default:
				pi = r.U64() % (1 << uint(level))
			}
			si := (2*pi + 1) << uint(30-level)
			g.emit("piqi", hx(si), is(level))
			// non-centre and extreme values too
			g.emit("piqi", hx([]uint64{0, 1, 1<<31 - 1, 1 << 31, r.U64() & 0x7fffffff}[r.Intn(5)]), is(r.Intn(31)))
		case 2: // points, caps, rects with special floats
			g.emit("encpoint", fx(g.anyFloat()), fx(g.anyFloat()), fx(g.anyFloat()))
			g.emit("enccap", fx(g.anyFloat()), fx(g.anyFloat()), fx(g.anyFloat()), fx(g.anyFloat()))
			g.emit("encrect", fx(g.anyFloat()), fx(g.anyFloat()), fx(g.anyFloat()), fx(g.anyFloat()))
		case 3: // cell ids (any 64-bit pattern), cells (valid ids), cell unions (any ids)
			g.emit("enccellid", hx(r.U64()))
			id := s2.CellIDFromFacePosLevel(r.Intn(6), r.U64()>>3, r.Intn(31))
			g.emit("enccellid", idx(id))
			g.emit("enccell", idx(id))
			n := r.Intn(6)
			cu := make([]s2.CellID, n)
			for k := range cu {
				if r.Bool() {
					cu[k] = s2.CellID(r.U64())
				} else {
					cu[k] = s2.CellIDFromFacePosLevel(r.Intn(6), r.U64()>>3, r.Intn(31))
				}
			}
			g.emit("enccu", ids(cu))
		case 4: // snap detection on cell centres, near-centres and arbitrary points
			p := snapTo(g.facePoint(r.Intn(6)), r.Intn(31))
			g.emit("snap", fx(p.X), fx(p.Y), fx(p.Z))
			q := s2.Point{Vector: r3.Vector{X: math.Nextafter(p.X, 2), Y: p.Y, Z: p.Z}}
			g.emit("snap", fx(q.X), fx(q.Y), fx(q.Z))
			u := g.facePoint(r.Intn(6))
			g.emit("snap", fx(u.X), fx(u.Y), fx(u.Z))
			// exact lattice points that are NOT cell centres: cell corners and edge midpoints
			cc := s2.CellFromCellID(s2.VerifCellIDFromPoint(g.facePoint(r.Intn(6))).Parent(r.Intn(31)))
			cv := cc.Vertex(r.Intn(4))
			g.emit("snap", fx(cv.X), fx(cv.Y), fx(cv.Z))
			if cc.Level() < 30 {
				ch, _ := cc.Children()
				em := ch[0].Vertex(1 + r.Intn(2)) // midpoint of a parent edge (lattice point of mixed levels)
				g.emit("snap", fx(em.X), fx(em.Y), fx(em.Z))
			}
		case 5: // polylines: arbitrary finite points and snapped ones
			n := r.Intn(8)
			pts := make([]s2.Point, n)
			for k := range pts {
				if r.Bool() {
					pts[k] = g.unitPoint()
				} else {
					pts[k] = snapTo(g.unitPoint(), r.Intn(31))
				}
			}
			g.emit("encpolyline", ptsTok(pts))
		case 6, 7: // raw compressed point lists at an arbitrary level (faces change, mixed snapping)
			level := r.Intn(31)
			n := r.Intn(10)
			pts := make([]s2.Point, n)
			face := r.Intn(6)
			for k := range pts {
				if r.Intn(3) == 0 {
					face = r.Intn(6)
				}
				p := g.facePoint(face)
				switch r.Intn(4) {
				case 0:
				case 1:
					p = snapTo(p, r.Intn(31))
				default:
					p = snapTo(p, level)
				}
				pts[k] = p
			}
			g.emit("ptsc", is(level), ptsTok(pts))
		case 8, 9, 10: // loops of cell centres in (i,j) space, extremes of si/ti, nested
			level := 2 + r.Intn(29)
			face := r.Intn(6)
			l1 := g.cellLoop(face, level)
			if len(l1) < 3 {
				continue
			}
			loops := [][]s2.Point{l1}
			if r.Bool() {
				if l2 := g.cellLoop((face+1+r.Intn(5))%6, clampLevel(level+r.Intn(3)-1)); len(l2) >= 3 {
					loops = append(loops, l2)
				}
			}
			if !validLoops(loops) {
				continue
			}
			g.emit("encpolygon", loopsSpec(loops))
			g.emit("encloop", ptsTok(l1))
			// polygons whose vertices are cell CORNERS (exact lattice points that are not cell centres):
			// the outline of one cell, and of a cell with some child-corner midpoints inserted
			{
				cc := s2.CellFromCellID(s2.VerifCellIDFromPoint(g.facePoint(r.Intn(6))).Parent(r.Intn(31)))
				var cl []s2.Point
				for k := 0; k < 4; k++ {
					cl = append(cl, cc.Vertex(k))
					if cc.Level() < 30 && r.Bool() {
						ch, _ := cc.Children()
						// child k's vertex k+1 is the midpoint of the parent edge k -> k+1 in ij order
						_ = ch
					}
				}
				if validLoops([][]s2.Point{cl}) {
					g.emit("encpolygon", loopsSpec([][]s2.Point{cl}))
					g.emit("encloop", ptsTok(cl))
				}
			}
		default: // concentric rings: shells and holes, all snapping modes, every face, large radii cross faces
			c := g.facePoint(r.Intn(6))
			nl := 1 + r.Intn(4)
			n := 3 + r.Intn(12)
			if r.Intn(6) == 0 {
				n = 60 + r.Intn(12) // around the 64-vertex bound threshold
			}
			rad := math.Pow(10, -r.Float()*6) * 1.2
			if rad > 1.4 {
				rad = 1.4
			}
			mode := r.Intn(5)
			p10 := 1 + r.Intn(9)
			level := clampLevel(levelFor(rad*math.Pow(0.6, float64(nl-1)), n) + r.Intn(4))
			var loops [][]s2.Point
			for k := 0; k < nl; k++ {
				pts := ringPts(c, rad*math.Pow(0.6, float64(k)), n, r.Float())
				loops = append(loops, g.snapMix(pts, mode, level, p10))
			}
			if r.Intn(3) == 0 { // a second, disjoint component on the opposite side
				c2 := s2.Point{Vector: c.Vector.Mul(-1)}
				loops = append(loops, g.snapMix(ringPts(c2, math.Min(rad, 0.1), n, r.Float()), mode, level, p10))
			}
			if !validLoops(loops) {
				continue
			}
			spec := loopsSpec(loops)
			g.emit("encpolygon", spec)
			if r.Intn(3) == 0 {
				g.emit("encloopof", spec, is(r.Intn(len(loops))))
			}
		}
	}
}
