package main

// Work package c06a: Shape accessor contract (every Shape implementation) and cell
// location (seek / LocatePoint / LocateCellID) on arbitrary sorted disjoint cell lists.
//
//   c06shape <type> <sizes> [<flag>] = st:<state> <ne> <nc> <edges> <chains> <positions> <chainedges>
//   c06loc   <cells> <target>       = <relation 0|1|2> <position>
//   c06locp  <cells> <leaf>         = <cellIDFromPoint(leaf.Point())> <T|F> <position>
//   c06seek  <cells> <target>       = <position>
//
// Vertices get pairwise distinct coordinates; an edge is reported as the pair of labels of its
// end points (label = index of the vertex in the shape's own vertex slice; for Polygon
// "<loop>.<index>" in the polygon's own loop order).  Every single accessor call is guarded: a
// panic is reported as "!" in place of the value.

import (
	"fmt"
	"sort"
	"strconv"
	"strings"

	"github.com/golang/geo/s1"
	"github.com/golang/geo/s2"
)

func init() {
	replayers["c06shape"] = replayC06Shape
	replayers["c06loc"] = func(a []string) []string {
		it := s2.VerifIteratorOverCells(pIDs(a[0]))
		rel := it.LocateCellID(s2.CellID(pU64(a[1])))
		return []string{is(int(rel)), is(s2.VerifIteratorPosition(it))}
	}
	replayers["c06locp"] = func(a []string) []string {
		it := s2.VerifIteratorOverCells(pIDs(a[0]))
		p := s2.CellID(pU64(a[1])).Point()
		tgt := s2.VerifCellIDFromPoint(p)
		found := it.LocatePoint(p)
		return []string{idx(tgt), bs(found), is(s2.VerifIteratorPosition(it))}
	}
	replayers["c06seek"] = func(a []string) []string {
		it := s2.VerifIteratorOverCells(pIDs(a[0]))
		s2.VerifIteratorSeek(it, s2.CellID(pU64(a[1])))
		return []string{is(s2.VerifIteratorPosition(it))}
	}
	generators["c06a"] = genC06a
}

// ring returns n distinct points on a circle of the given radius (degrees) around (lat,lng), CCW.
func ring(lat, lng, radiusDeg float64, n int) []s2.Point {
	if n == 0 {
		return []s2.Point{}
	}
	c := s2.PointFromLatLng(s2.LatLngFromDegrees(lat, lng))
	l := s2.RegularLoop(c, s1.Angle(radiusDeg)*s1.Degree, maxI(n, 3))
	v := append([]s2.Point(nil), l.Vertices()...)
	return v[:n]
}

func pSizes(s string) []int {
	if s == "-" {
		return nil
	}
	var r []int
	for _, p := range strings.Split(s, ",") {
		r = append(r, pI(p))
	}
	return r
}

func sizesTok(ns []int) string {
	if len(ns) == 0 {
		return "-"
	}
	p := make([]string, len(ns))
	for i, n := range ns {
		p[i] = is(n)
	}
	return strings.Join(p, ",")
}

type labeler map[s2.Point]string

func guard(f func() string) (r string) {
	defer func() {
		if recover() != nil {
			r = "!"
		}
	}()
	return f()
}

func joinOr(l []string, sep string) string {
	if len(l) == 0 {
		return "-"
	}
	return strings.Join(l, sep)
}

// dumpShape calls every accessor for every edge id / chain / (chain, offset).
func dumpShape(sh s2.Shape, lab labeler) []string {
	edgeTok := func(e s2.Edge) string {
		a, ok1 := lab[e.V0]
		b, ok2 := lab[e.V1]
		if !ok1 || !ok2 {
			return "?"
		}
		return a + "-" + b
	}
	neS := guard(func() string { return is(sh.NumEdges()) })
	ncS := guard(func() string { return is(sh.NumChains()) })
	if neS == "!" || ncS == "!" {
		return []string{neS, ncS, "-", "-", "-", "-"}
	}
	ne, nc := sh.NumEdges(), sh.NumChains()
	var edges, chains, poss, ces []string
	for e := 0; e < ne; e++ {
		e := e
		edges = append(edges, guard(func() string { return edgeTok(sh.Edge(e)) }))
		poss = append(poss, guard(func() string { p := sh.ChainPosition(e); return is(p.ChainID) + "." + is(p.Offset) }))
	}
	for i := 0; i < nc; i++ {
		i := i
		ct := guard(func() string { c := sh.Chain(i); return is(c.Start) + "." + is(c.Length) })
		chains = append(chains, ct)
		if ct == "!" {
			continue
		}
		ln := sh.Chain(i).Length
		for j := 0; j < ln; j++ {
			j := j
			ces = append(ces, is(i)+"."+is(j)+"."+guard(func() string { return edgeTok(sh.ChainEdge(i, j)) }))
		}
	}
	return []string{neS, ncS, joinOr(edges, ";"), joinOr(chains, ";"), joinOr(poss, ";"), joinOr(ces, ";")}
}

func flatLabels(pts []s2.Point) labeler {
	lab := labeler{}
	for k, p := range pts {
		lab[p] = "0." + is(k)
	}
	return lab
}

func replayC06Shape(a []string) []string {
	typ := a[0]
	ns := pSizes(a[1])
	flag := ""
	if len(a) > 2 {
		flag = a[2]
	}
	one := 0
	if len(ns) > 0 {
		one = ns[0]
	}
	switch typ {
	case "loop":
		var l *s2.Loop
		switch flag {
		case "empty":
			l = s2.EmptyLoop()
		case "full":
			l = s2.FullLoop()
		default:
			l = s2.LoopFromPoints(ring(10, 20, 5, one))
		}
		o := 0
		if l.ContainsOrigin() {
			o = 1
		}
		st := fmt.Sprintf("st:%d.0.%d", l.NumVertices(), o)
		return append([]string{st}, dumpShape(l, flatLabels(l.Vertices()))...)
	case "polyline":
		pl := s2.Polyline(ring(10, 20, 5, one))
		return append([]string{"st:" + is(len(pl))}, dumpShape(&pl, flatLabels(pl))...)
	case "laxpolyline":
		pts := ring(10, 20, 5, one)
		return append([]string{"st:" + is(len(pts))}, dumpShape(s2.LaxPolylineFromPoints(pts), flatLabels(pts))...)
	case "pointvector":
		pts := ring(10, 20, 5, one)
		pv := s2.PointVector(pts)
		return append([]string{"st:" + is(len(pts))}, dumpShape(&pv, flatLabels(pts))...)
	case "laxloop":
		pts := ring(10, 20, 5, one)
		var ll *s2.LaxLoop
		if flag == "fromloop" {
			ll = s2.LaxLoopFromLoop(s2.LoopFromPoints(pts))
		} else {
			ll = s2.LaxLoopFromPoints(pts)
		}
		return append([]string{"st:" + is(len(pts))}, dumpShape(ll, flatLabels(pts))...)
	case "laxpolygon":
		var loops [][]s2.Point
		var all []s2.Point
		for i, n := range ns {
			pts := ring(float64(-60+7*(i%18)), float64(-170+9*(i/18)+3*i), 1+0.01*float64(i), n)
			loops = append(loops, pts)
			all = append(all, pts...)
		}
		return append([]string{"st:" + sizesTok(ns)}, dumpShape(s2.LaxPolygonFromPoints(loops), flatLabels(all))...)
	case "polygon":
		var p *s2.Polygon
		switch flag {
		case "empty":
			p = s2.PolygonFromLoops([]*s2.Loop{s2.EmptyLoop()})
		case "full":
			p = s2.FullPolygon()
		case "none":
			p = s2.PolygonFromLoops(nil)
		default:
			var loops []*s2.Loop
			for i, n := range ns {
				var pts []s2.Point
				if flag == "nested" {
					// concentric rings: loop i has radius 40-2i degrees
					pts = ring(5, 5, 40-2*float64(i), n)
				} else {
					pts = ring(float64(-60+7*(i%18)), float64(-170+9*(i/18)+3*i), 1+0.01*float64(i), n)
				}
				loops = append(loops, s2.LoopFromPoints(pts))
			}
			p = s2.PolygonFromLoops(loops)
		}
		lab := labeler{}
		var st []string
		for i, l := range p.Loops() {
			for k, v := range l.Vertices() {
				lab[v] = is(i) + "." + is(k)
			}
			o, d := 0, 0
			if l.ContainsOrigin() {
				o = 1
			}
			if l.IsHole() {
				d = 1
			}
			st = append(st, fmt.Sprintf("%d.%d.%d", l.NumVertices(), d, o))
		}
		return append([]string{"st:" + joinOr(st, ",")}, dumpShape(p, lab)...)
	}
	return []string{"ERR-unknown-type"}
}

// ---------------------------------------------------------------- generators

func (g *G) disjointCells() []s2.CellID {
	r := g.rng
	n := r.Intn(9)
	switch r.Intn(8) {
	case 0:
		n = 0
	case 1:
		n = 1
	case 2:
		n = 20 + r.Intn(60)
	}
	var raw []s2.CellID
	var anchor s2.CellID = g.randCellAt(r.Intn(29))
	for k := 0; k < n; k++ {
		switch r.Intn(6) {
		case 0, 1:
			raw = append(raw, g.randCellAt(r.Intn(31)))
		case 2: // near the anchor
			c := anchor
			for s := r.Intn(4); s > 0 && c.Level() < 30; s-- {
				c = c.Children()[r.Intn(4)]
			}
			raw = append(raw, c)
		case 3:
			raw = append(raw, anchor.AdvanceWrap(int64(r.Intn(9)-4)))
		case 4: // siblings
			if anchor.Level() > 0 {
				ch := anchor.Parent(anchor.Level() - 1).Children()
				raw = append(raw, ch[r.Intn(4)], ch[r.Intn(4)])
			}
		case 5:
			raw = append(raw, s2.CellIDFromFace(r.Intn(6)))
		}
	}
	sort.Slice(raw, func(i, j int) bool { return raw[i].RangeMin() < raw[j].RangeMin() || (raw[i].RangeMin() == raw[j].RangeMin() && raw[i].RangeMax() > raw[j].RangeMax()) })
	var out []s2.CellID
	for _, c := range raw {
		if len(out) == 0 || c.RangeMin() > out[len(out)-1].RangeMax() {
			out = append(out, c)
		}
	}
	return out
}

func (g *G) locateTargets(cells []s2.CellID) []s2.CellID {
	r := g.rng
	var t []s2.CellID
	for _, c := range cells {
		if r.Intn(3) != 0 && len(cells) > 6 {
			continue
		}
		t = append(t, c, c.Next(), c.Prev(), c.RangeMin(), c.RangeMax(), c.RangeMin().Prev(), c.RangeMax().Next())
		for l := 0; l < c.Level(); l += 1 + r.Intn(4) {
			t = append(t, c.Parent(l))
		}
		if c.Level() > 0 {
			t = append(t, c.Parent(c.Level()-1))
		}
		if c.Level() < 30 {
			ch := c.Children()
			t = append(t, ch[0], ch[3], ch[r.Intn(4)])
			l := c.Level() + 1 + r.Intn(30-c.Level())
			t = append(t, c.ChildBeginAtLevel(l), c.ChildEndAtLevel(l).Prev())
		}
	}
	for k := 0; k < 4; k++ {
		t = append(t, g.randCellAt(r.Intn(31)))
	}
	t = append(t, s2.CellIDFromFace(0), s2.CellIDFromFace(5), s2.CellIDFromFace(0).ChildBeginAtLevel(30), s2.CellIDFromFace(5).ChildEndAtLevel(30).Prev())
	var out []s2.CellID
	for _, c := range t {
		if c.IsValid() {
			out = append(out, c)
		}
	}
	return out
}

func genC06a(g *G) {
	r := g.rng
	// ---- shapes: every type, boundary sizes first (deterministic), then random sizes
	sizes := []int{0, 1, 2, 3, 4, 7, 33}
	for _, n := range sizes {
		if n >= 3 || n == 0 || n == 2 {
			g.emit("c06shape", "loop", is(n))
		}
		g.emit("c06shape", "polyline", is(n))
		g.emit("c06shape", "laxpolyline", is(n))
		g.emit("c06shape", "pointvector", is(n))
		g.emit("c06shape", "laxloop", is(n))
		if n >= 3 {
			g.emit("c06shape", "laxloop", is(n), "fromloop")
		}
	}
	g.emit("c06shape", "loop", "1", "empty")
	g.emit("c06shape", "loop", "1", "full")
	g.emit("c06shape", "polygon", "-", "empty")
	g.emit("c06shape", "polygon", "-", "full")
	g.emit("c06shape", "polygon", "-", "none")
	laxFixed := [][]int{{}, {0}, {1}, {2}, {3}, {0, 0}, {3, 3}, {0, 3}, {3, 0}, {1, 1, 1}, {2, 0, 2}, {3, 0, 0, 4}, {5, 1, 2, 3, 0, 7}}
	for _, ns := range laxFixed {
		g.emit("c06shape", "laxpolygon", sizesTok(ns))
	}
	polyFixed := [][]int{{3}, {4}, {3, 3}, {3, 4, 5}, {0, 3}, {2, 3}, {3, 0, 4}}
	for _, ns := range polyFixed {
		g.emit("c06shape", "polygon", sizesTok(ns), "disjoint")
		g.emit("c06shape", "polygon", sizesTok(ns), "nested")
	}
	// thresholds: maxLinearSearchLoops = 12 -> 11, 12, 13, 14 and many loops
	for _, k := range []int{11, 12, 13, 14, 40} {
		ns := make([]int, k)
		for i := range ns {
			ns[i] = 3 + r.Intn(4)
		}
		g.emit("c06shape", "polygon", sizesTok(ns), "disjoint")
		g.emit("c06shape", "laxpolygon", sizesTok(ns))
		if k <= 14 {
			g.emit("c06shape", "polygon", sizesTok(ns), "nested")
		}
		// (a 0-vertex Loop makes PolygonFromLoops itself divide by zero for most loop sets: the
		// constructor does not admit it, so polygons only get 2-vertex degenerate loops here)
		ns2 := append([]int(nil), ns...)
		ns2[r.Intn(k)] = 2
		g.emit("c06shape", "polygon", sizesTok(ns2), "disjoint")
		ns2[r.Intn(k)] = 0
		g.emit("c06shape", "laxpolygon", sizesTok(ns2))
	}
	nShape := g.n / 40
	for c := 0; c < nShape; c++ {
		k := 1 + r.Intn(6)
		if r.Intn(4) == 0 {
			k = 10 + r.Intn(8)
		}
		ns := make([]int, k)
		for i := range ns {
			switch r.Intn(6) {
			case 0:
				ns[i] = 0
			case 1:
				ns[i] = 2
			default:
				ns[i] = 3 + r.Intn(6)
			}
		}
		lax := append([]int(nil), ns...)
		if r.Intn(3) == 0 {
			lax[r.Intn(k)] = 1
		}
		g.emit("c06shape", "laxpolygon", sizesTok(lax))
		for i := range ns {
			if ns[i] == 0 {
				ns[i] = 3
			}
		}
		flag := "disjoint"
		if r.Bool() && k <= 16 {
			flag = "nested"
		}
		g.emit("c06shape", "polygon", sizesTok(ns), flag)
		n := r.Intn(12)
		typ := []string{"loop", "polyline", "laxpolyline", "pointvector", "laxloop"}[r.Intn(5)]
		if typ == "loop" && n == 1 {
			n = 3
		}
		g.emit("c06shape", typ, is(n))
	}
	// ---- locate
	for g.count < g.n {
		cells := g.disjointCells()
		cs := ids(cells)
		for _, t := range g.locateTargets(cells) {
			g.emit("c06loc", cs, idx(t))
			g.emit("c06seek", cs, idx(t))
			leaf := t
			if !leaf.IsLeaf() {
				if r.Bool() {
					leaf = t.ChildBeginAtLevel(30)
				} else {
					leaf = t.ChildEndAtLevel(30).Prev()
				}
			}
			g.emit("c06locp", cs, idx(leaf))
		}
	}
	_ = strconv.Itoa
}
