package main

// c07walk — the two-index walk of the loop relations (hasCrossingRelation / loopCrosser), tied to a
// model that RUNS THE WALK on the dumped indexes (lean/S2/RelateWalk.lean).
//
// op   c07walk A B   (loop tokens of c07)   =
//        <ix A> <ix ¬A> <ix B> <ix ¬B>   <pair A,B> <pair B,A> <pair ¬A,B> <pair B,¬A>
//                                        <pair A,¬B> <pair ¬B,A> <pair ¬A,¬B> <pair ¬B,¬A>
//   ix    the loop's ShapeIndex in iterator order: cells joined by `|`, `-` = no cell; one cell =
//         16 hex digits cell id, T/F = containsCenter, edge ids joined by `.`
//   pair (X,Y)  =  rects/answers/raw/gc
//         rects    3 flags: X.subregionBound.Contains(Y.bound), X.bound.Intersects(Y.bound),
//                  X.bound.Union(Y.bound).IsFull()   (Go's own booleans: libm inside the bounds)
//         answers  X.Contains(Y),X.Intersects(Y),X.compareBoundary(Y)   (`x` when a loop is empty)
//         raw      hasCrossingRelation(X,Y,rel) for rel = contains, intersects, compareBoundary(false),
//                  compareBoundary(true): 4 flags each (result, foundSharedVertex, containsEdge,
//                  excludesEdge) joined by `.`; `x` when a loop is empty or full
//         gc       what CrossingEdgeQuery.getCells returns (on a fresh query) for the edges of X
//                  against the index of Y: entries `aj:pa:c.c.c` joined by `;` (`-` = none), aj = edge of X,
//                  pa = position of the index cell of X used as root, c = positions of cells of Y.
//                  Listed for every cell of X that has edges and strictly contains cells of Y
//                  with >= 20 edges in total (a superset of what any walk asks for).

import (
	"bufio"
	"bytes"
	"strconv"
	"strings"

	"github.com/golang/geo/s2"
)

type c07walkLoop struct {
	l     *s2.Loop
	cells []s2.VerifIndexCellDump
	tok   string
	getFn func(a, b s2.Point, root s2.CellID) []int
}

func c07walkMk(l *s2.Loop) *c07walkLoop {
	w := &c07walkLoop{l: l}
	idxp := s2.VerifLoopIndex(l)
	w.cells = s2.VerifIndexCells(idxp)
	var sb strings.Builder
	for k, c := range w.cells {
		if k > 0 {
			sb.WriteByte('|')
		}
		sb.WriteString(idx(c.ID))
		cc := false
		var edges []int
		if len(c.Shapes) > 0 {
			cc = c.Shapes[0].ContainsCenter
			edges = c.Shapes[0].Edges
		}
		sb.WriteString(bs(cc))
		for j, e := range edges {
			if j > 0 {
				sb.WriteByte('.')
			}
			sb.WriteString(strconv.Itoa(e))
		}
	}
	w.tok = sb.String()
	if len(w.cells) == 0 {
		w.tok = "-"
	}
	w.getFn = s2.VerifC07WalkGetCellsFn(idxp)
	return w
}

func (w *c07walkLoop) edges(k int) []int {
	if len(w.cells[k].Shapes) == 0 {
		return nil
	}
	return w.cells[k].Shapes[0].Edges
}

// gc table of the edges of x against the index of y; work = number of (edge of x, edge of y) tests one
// no-early-exit walk performs through cellCrossesAnySubcell with this table (the query's cell list is
// never cleared, so every edge is tested against the cells found for all earlier edges as well)
func c07walkGC(x, y *c07walkLoop) (string, int) {
	var sb strings.Builder
	first := true
	lo := 0
	work, qEdges := 0, 0
	for pa, c := range x.cells {
		ea := x.edges(pa)
		if len(ea) == 0 {
			continue
		}
		rmin, rmax := c.ID.RangeMin(), c.ID.RangeMax()
		for lo < len(y.cells) && y.cells[lo].ID < rmin {
			lo++
		}
		total := 0
		strictly := false
		for k := lo; k < len(y.cells) && y.cells[k].ID <= rmax; k++ {
			if y.cells[k].ID != c.ID {
				strictly = true
				total += len(y.edges(k))
			}
		}
		if !strictly || total < 20 {
			continue
		}
		for _, aj := range ea {
			got := y.getFn(x.l.Vertex(aj), x.l.Vertex(aj+1), c.ID)
			for _, p := range got {
				if p >= 0 {
					qEdges += len(y.edges(p))
				}
			}
			work += qEdges
			if !first {
				sb.WriteByte(';')
			}
			first = false
			sb.WriteString(strconv.Itoa(aj))
			sb.WriteByte(':')
			sb.WriteString(strconv.Itoa(pa))
			sb.WriteByte(':')
			for j, p := range got {
				if j > 0 {
					sb.WriteByte('.')
				}
				sb.WriteString(strconv.Itoa(p))
			}
		}
	}
	if first {
		return "-", 0
	}
	return sb.String(), work
}

func c07walkPair(x, y *c07walkLoop) (string, int) {
	X, Y := x.l, y.l
	xb, yb := X.RectBound(), Y.RectBound()
	rects := c07bools(s2.VerifC07WalkSubregionBound(X).Contains(yb), xb.Intersects(yb), xb.Union(yb).IsFull())
	ans := bs(X.Contains(Y)) + "," + bs(X.Intersects(Y)) + ","
	if X.IsEmpty() || Y.IsEmpty() {
		ans += "x"
	} else {
		ans += is(s2.VerifLoopCompareBoundary(X, Y))
	}
	raw := "x"
	gc := "-"
	work := 0
	if !X.IsEmpty() && !X.IsFull() && !Y.IsEmpty() && !Y.IsFull() {
		var parts []string
		for k := 0; k < 4; k++ {
			kind, rev := k, false
			if k == 3 {
				kind, rev = 2, true
			}
			parts = append(parts, c07bools(s2.VerifC07WalkHasCrossingRelation(X, Y, kind, rev)))
		}
		raw = strings.Join(parts, ".")
		gc, work = c07walkGC(x, y)
	}
	return rects + "/" + ans + "/" + raw + "/" + gc, work
}

// c07walkPairsOf runs a generator of c07 on a scratch context with the `rel` replayer stubbed out
// and returns the (A, B) loop tokens of the `rel` lines it emitted.
func c07walkPairsOf(g *G, gen func(sub *G)) [][2]string {
	saved := replayers["rel"]
	replayers["rel"] = func(a []string) []string { return nil }
	defer func() { replayers["rel"] = saved }()
	var buf bytes.Buffer
	w := bufio.NewWriterSize(&buf, 1<<20)
	sub := &G{rng: g.rng, n: 1 << 30, thorough: g.thorough, out: w, shardK: g.shardK, shardM: g.shardM}
	gen(sub)
	w.Flush()
	var out [][2]string
	for _, line := range strings.Split(buf.String(), "\n") {
		f := strings.Fields(line)
		if len(f) >= 3 && f[0] == "rel" {
			out = append(out, [2]string{f[1], f[2]})
		}
	}
	return out
}

// c07walkRun computes the result tokens of one line and the number of exact edge-pair tests the
// model walks will spend in the accumulating query lists (each table serves 2 ordered pairs x 4 walks).
func c07walkRun(a []string) ([]string, int) {
	A := c07parseLoop(a[0])
	B := c07parseLoop(a[1])
	wa, wna, wb, wnb := c07walkMk(A), c07walkMk(c07inverted(A)), c07walkMk(B), c07walkMk(c07inverted(B))
	res := []string{wa.tok, wna.tok, wb.tok, wnb.tok}
	work := 0
	for _, p := range [][2]*c07walkLoop{{wa, wb}, {wb, wa}, {wna, wb}, {wb, wna}, {wa, wnb}, {wnb, wa}, {wna, wnb}, {wnb, wna}} {
		t, w := c07walkPair(p[0], p[1])
		res = append(res, t)
		work += 8 * w
	}
	return res, work
}

// c07walkEmit prints the line unless the model would need more than `budget` exact tests for it.
func (g *G) c07walkEmit(budget int, a, b string) {
	var work int
	res := safely(func() []string {
		r, w := c07walkRun([]string{a, b})
		work = w
		return r
	})
	if work > budget {
		return
	}
	g.count++
	g.out.WriteString("c07walk " + a + " " + b + " =")
	for _, r := range res {
		g.out.WriteByte(' ')
		g.out.WriteString(r)
	}
	g.out.WriteByte('\n')
}

func init() {
	replayers["c07walk"] = func(a []string) []string {
		r, _ := c07walkRun(a)
		return r
	}
	generators["c07walk"] = func(g *G) {
		// the exact oracle spends about 5 microseconds per edge-pair test
		budget := 300000
		if g.thorough {
			budget = 2000000
		}
		if g.shardK == 0 {
			// the D1 pair and the special loops
			f := c07mkFrame(s2.PointFromCoords(1, 0.3, 0.2))
			g.c07walkEmit(budget, c07loopTok(c07regular(f, 20*c07deg, 64, 0)), c07loopTok(c07regular(f, 1*c07deg, 40, 0)))
			tri := c07loopTok(c07regular(f, 10*c07deg, 3, 0))
			for _, p := range [][2]string{{"E", "E"}, {"F", "F"}, {"E", "F"}, {"E", tri}, {tri, "F"}, {tri, tri}} {
				g.c07walkEmit(budget, p[0], p[1])
			}
		}
		for g.count < g.n {
			for _, p := range c07walkPairsOf(g, func(sub *G) { sub.c07genRel() }) {
				g.c07walkEmit(budget, p[0], p[1])
			}
		}
	}
}
