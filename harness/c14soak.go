package main

// c14soak.go — property C14, unforced SOAK scenarios.
//
// The forced schedules of c14.go exercise the one piece of shared mutable state the library is
// designed to have (the lazy index build).  A soak scenario looks for shared state that should NOT
// exist: N goroutines hammer ONE shared object with read-only queries for a fixed wall-clock budget,
// each goroutine working near a DIFFERENT part of the object (its own loop of a many-loop polygon,
// its own arc of a big loop, its own shapes of an index), every single answer is compared with the
// answer of a serial run on a separately built identical object, and a recovered panic is a
// violation of its own.  This finds state that is accessed atomically (invisible to the race
// detector) but used check-then-reload, caches keyed by "the previous lookup", per-object scratch
// buffers etc.  The scenario list covers every kind of shared object the property names with sizes
// on both sides of every internal threshold:
//   loops      <= 32 vertices (ContainsPoint brute force) / > 32 (index), point+cell and relations,
//              relations against coarse partners (one partner cell covers >= 20 edges of the shared
//              loop: CrossingEdgeQuery path of loopCrosser.hasCrossing) and fine / nested partners
//   polygons   < 32 vertices (brute force) / >= 32; 1 loop, 2..12 loops (linear search in
//              Edge/ChainPosition), >= 13 loops (cumulativeEdges search); point, cell, relations
//   indexes    fewer edges than every EdgeQuery brute-force threshold (25/30) / many more; holding
//              many-loop polygons as shapes; ContainsPointQuery, CrossingEdgeQuery, closest and
//              furthest EdgeQuery with point / edge / cell targets
//   targets    a ShapeIndex shared as the TARGET (each goroutine its own target + query object)
//
// line:  c14 soak-<kind> <N> <seed> = answers=Y|N applies=- race=… outcome=ok|PANIC|HANG
// (no event tokens; the number of rounds is timing dependent and only written to stderr).

import (
	"os"
	"sort"
	"strconv"
	"strings"
	"time"

	"github.com/golang/geo/s1"
	"github.com/golang/geo/s2"
)

var c14SoakKinds = []string{
	"loop-pt-small", "loop-pt-big", "loop-rel-small", "loop-rel-big",
	"poly-tiny", "poly-1", "poly-few", "poly-many",
	"polyrel-few", "polyrel-many", "polyrel-1big",
	"idx-small", "idx-big", "idx-polymany",
	"eqt-bigsmall", "eqt-smallbig", "eqt-bigbig",
}

func c14SoakBudget() time.Duration {
	if v, err := strconv.Atoi(os.Getenv("C14_SOAK_MS")); err == nil && v > 0 {
		return time.Duration(v) * time.Millisecond
	}
	return 1200 * time.Millisecond
}

const c14SoakChildTimeout = 90 * time.Second // parent: generous, a loaded machine must never raise a false HANG

// soak object: everything deterministic from (kind, n)
type c14SoakObj struct {
	loop   *s2.Loop
	poly   *s2.Polygon
	idx    *s2.ShapeIndex
	shapes []s2.Shape
	tidx   *s2.ShapeIndex // shared target index
	ploops [][]*s2.Loop   // per worker private partners
	ppolys [][]*s2.Polygon
	nloops int
}

type c14SoakQ func(o *c14SoakObj, b *c14Buf)

func c14Island(k int) s2.Point { return c14LL(-30+15*float64(k/4), -40+15*float64(k%4)) }

func c14Islands(n, verts int, r float64) []*s2.Loop {
	var ls []*s2.Loop
	for k := 0; k < n; k++ {
		ls = append(ls, s2.RegularLoop(c14Island(k), c14Deg(r), verts))
	}
	return ls
}

func c14Ring(c s2.Point, r float64, m int) []s2.Point {
	return append([]s2.Point(nil), s2.RegularLoop(c, c14Deg(r), m).Vertices()...)
}

// probes just inside / just outside a regular loop of radius r around c, plus its centre
func c14ProbesNear(c s2.Point, r float64) []s2.Point {
	p := c14Ring(c, r*0.97, 12)
	p = append(p, c14Ring(c, r*1.03, 12)...)
	return append(p, c)
}

func c14CellsNear(pts []s2.Point) []s2.Cell {
	var cs []s2.Cell
	for i, p := range pts {
		if i%4 == 0 {
			id := s2.CellFromPoint(p).ID()
			for _, l := range []int{4, 7, 10} {
				cs = append(cs, s2.CellFromCellID(id.Parent(l)))
			}
		}
	}
	return cs
}

const (
	c14BigCenterLat, c14BigCenterLng = 10.0, 20.0
	c14BigRadius                     = 10.0
)

func c14BigCenter() s2.Point { return c14LL(c14BigCenterLat, c14BigCenterLng) }

// boundary point of the big loop assigned to worker w of n
func c14Arc(w, n int) s2.Point { return s2.RegularLoop(c14BigCenter(), c14Deg(c14BigRadius), 4*n).Vertex(4*w + 1) }

func c14MixedSmallShapes() []s2.Shape {
	pl := func(lat, lng float64, k int) s2.Shape {
		var lls []s2.LatLng
		for i := 0; i <= k; i++ {
			lls = append(lls, s2.LatLngFromDegrees(lat+0.7*float64(i), lng+0.9*float64(i)+0.3*float64(i%2)))
		}
		return s2.PolylineFromLatLngs(lls)
	}
	pv := s2.PointVector{c14LL(41, -11), c14LL(43, -9), c14LL(39, -8)}
	return []s2.Shape{
		s2.RegularLoop(c14LL(40, -10), c14Deg(2), 8), // 8 edges
		pl(38, -13, 5),                               // 5
		pl(42, -12, 4),                               // 4
		&pv,                                          // 3   => 20 edges < 25
	}
}

func c14MixedBigShapes() []s2.Shape {
	var sh []s2.Shape
	sh = append(sh, s2.PolygonFromLoops(c14Islands(16, 24, 3))) // 384 edges, cumulativeEdges path
	var few []*s2.Loop
	for k := 0; k < 6; k++ {
		few = append(few, s2.RegularLoop(c14LL(40+8*float64(k/3), 60+8*float64(k%3)), c14Deg(2.5), 24))
	}
	sh = append(sh, s2.PolygonFromLoops(few)) // linear-search path
	sh = append(sh, s2.RegularLoop(c14LL(10, 80), c14Deg(5), 64), s2.RegularLoop(c14LL(12, 83), c14Deg(4), 64),
		s2.RegularLoop(c14LL(-50, 100), c14Deg(6), 64))
	var lls []s2.LatLng
	for i := 0; i <= 12; i++ {
		lls = append(lls, s2.LatLngFromDegrees(-32+float64(5*i), -44+float64(4*i)+0.5*float64(i%3)))
	}
	sh = append(sh, s2.PolylineFromLatLngs(lls))
	pv := s2.PointVector{}
	for i := 0; i < 10; i++ {
		pv = append(pv, c14LL(-29+float64(3*i), -39+float64(2*i)))
	}
	return append(sh, &pv)
}

func c14NewIndex(shapes []s2.Shape) *s2.ShapeIndex {
	ix := s2.NewShapeIndex()
	for _, s := range shapes {
		ix.Add(s)
	}
	return ix
}

func c14SoakBuild(kind string, n int) *c14SoakObj {
	o := &c14SoakObj{}
	bigLoop := func(v int) *s2.Loop { return s2.RegularLoop(c14BigCenter(), c14Deg(c14BigRadius), v) }
	partners := func() {
		for w := 0; w < n; w++ {
			a := c14Arc(w, n)
			o.ploops = append(o.ploops, []*s2.Loop{
				s2.RegularLoop(a, c14Deg(6), 6),                               // coarse: one cell covers many shared edges
				s2.RegularLoop(a, c14Deg(1), 64),                              // fine, crossing the boundary
				s2.RegularLoop(c14BigCenter(), c14Deg(4+0.2*float64(w)), 32), // nested
				s2.RegularLoop(c14LL(-40, 150+float64(w)), c14Deg(2), 12),     // disjoint
			})
		}
	}
	polyPartners := func(nl int, center func(k int) s2.Point, r float64) {
		for w := 0; w < n; w++ {
			c := center((w * 5) % nl)
			shifted := s2.RegularLoop(c, c14Deg(r), 4).Vertex(w % 4) // a boundary point of the island
			o.ppolys = append(o.ppolys, []*s2.Polygon{
				s2.PolygonFromLoops([]*s2.Loop{s2.RegularLoop(shifted, c14Deg(r*0.6), 16)}), // crosses the island boundary
				s2.PolygonFromLoops([]*s2.Loop{s2.RegularLoop(c, c14Deg(r*2.2), 6)}),        // coarse, contains the island
				s2.PolygonFromLoops([]*s2.Loop{s2.RegularLoop(c, c14Deg(r*0.4), 20)}),       // inside the island
			})
		}
	}
	switch kind {
	case "loop-pt-small":
		o.loop = bigLoop(24)
	case "loop-pt-big":
		o.loop = bigLoop(400)
	case "loop-rel-small":
		o.loop = bigLoop(24)
		partners()
	case "loop-rel-big":
		o.loop = bigLoop(400)
		partners()
	case "poly-tiny":
		o.nloops = 3
		o.poly = s2.PolygonFromLoops(c14Islands(3, 8, 3)) // 24 vertices: brute force
	case "poly-1":
		o.nloops = 1
		o.poly = s2.PolygonFromLoops(c14Islands(1, 48, 5))
	case "poly-few", "polyrel-few":
		o.nloops = 6
		o.poly = s2.PolygonFromLoops(c14Islands(6, 24, 3))
	case "poly-many", "polyrel-many":
		o.nloops = 16
		o.poly = s2.PolygonFromLoops(c14Islands(16, 24, 3))
	case "polyrel-1big":
		o.nloops = 1
		o.poly = s2.PolygonFromLoops([]*s2.Loop{bigLoop(400)})
	case "idx-small":
		o.shapes = c14MixedSmallShapes()
		o.idx = c14NewIndex(o.shapes)
	case "idx-big":
		o.shapes = c14MixedBigShapes()
		o.idx = c14NewIndex(o.shapes)
	case "idx-polymany":
		o.shapes = []s2.Shape{s2.PolygonFromLoops(c14Islands(16, 24, 3))}
		o.idx = c14NewIndex(o.shapes)
	case "eqt-bigsmall":
		o.shapes = c14MixedBigShapes()
		o.idx = c14NewIndex(o.shapes)
		o.tidx = c14NewIndex(c14MixedSmallShapes())
	case "eqt-smallbig":
		o.shapes = c14MixedSmallShapes()
		o.idx = c14NewIndex(o.shapes)
		o.tidx = c14NewIndex(c14MixedBigShapes())
	case "eqt-bigbig":
		o.shapes = c14MixedBigShapes()
		o.idx = c14NewIndex(o.shapes)
		o.tidx = c14NewIndex([]s2.Shape{s2.PolygonFromLoops(c14Islands(16, 24, 2)), s2.RegularLoop(c14LL(11, 81), c14Deg(3), 64)})
	default:
		return nil
	}
	switch kind {
	case "polyrel-few":
		polyPartners(6, c14Island, 3)
	case "polyrel-many":
		polyPartners(16, c14Island, 3)
	case "polyrel-1big":
		for w := 0; w < n; w++ {
			a := c14Arc(w, n)
			o.ppolys = append(o.ppolys, []*s2.Polygon{
				s2.PolygonFromLoops([]*s2.Loop{s2.RegularLoop(a, c14Deg(6), 6)}),
				s2.PolygonFromLoops([]*s2.Loop{s2.RegularLoop(a, c14Deg(1), 64)}),
				s2.PolygonFromLoops([]*s2.Loop{s2.RegularLoop(c14BigCenter(), c14Deg(4+0.2*float64(w)), 32)}),
			})
		}
	}
	return o
}

func (o *c14SoakObj) shapeID(sh s2.Shape) int {
	for i, x := range o.shapes {
		if x == sh {
			return i
		}
	}
	return -1
}

func c14EdgeMap(o *c14SoakObj, b *c14Buf, m s2.EdgeMap) {
	b.i(len(m))
	for sid, sh := range o.shapes {
		if es, ok := m[sh]; ok {
			es = append([]int(nil), es...)
			sort.Ints(es)
			b.s("|")
			b.i(sid)
			b.s(":")
			for _, e := range es {
				b.i(e)
				b.s(".")
			}
		}
	}
}

func c14Results(b *c14Buf, rs []s2.EdgeQueryResult) {
	for _, res := range rs {
		b.s("|")
		b.i(int(res.ShapeID()))
		b.s(".")
		b.i(int(res.EdgeID()))
		b.s(".")
		b.f(float64(res.Distance()))
	}
}

// the focus points of worker w in an index scenario: near "its" shapes
func c14IdxFocus(kind string, w int) []s2.Point {
	switch kind {
	case "idx-small", "eqt-smallbig":
		c := []s2.Point{c14LL(40, -10), c14LL(39.5, -11), c14LL(43.4, -9.5), c14LL(41, -11)}[w%4]
		return append(c14Ring(c, 0.8+0.1*float64(w%5), 6), c)
	default:
		var c s2.Point
		var r float64
		switch w % 4 {
		case 0, 1:
			c, r = c14Island((w*5)%16), 3
		case 2:
			k := w % 6
			c, r = c14LL(40+8*float64(k/3), 60+8*float64(k%3)), 2.5
		default:
			c, r = []s2.Point{c14LL(10, 80), c14LL(12, 83), c14LL(-50, 100)}[(w/4)%3], 4.5
		}
		p := c14Ring(c, r*0.95, 5)
		p = append(p, c14Ring(c, r*1.06, 5)...)
		return append(p, c)
	}
}

// c14SoakQueries returns the query list of worker w (each entry = one answer string).
func c14SoakQueries(kind string, w, n int) []c14SoakQ {
	var qs []c14SoakQ
	add := func(q c14SoakQ) { qs = append(qs, q) }
	switch {
	case strings.HasPrefix(kind, "loop-pt-"):
		pts := c14Ring(c14Arc(w, n), 0.6, 8)
		pts = append(pts, c14Ring(c14Arc(w, n), 2.5, 6)...)
		for _, p := range pts {
			p := p
			add(func(o *c14SoakObj, b *c14Buf) { b.t(o.loop.ContainsPoint(p)) })
		}
		for _, c := range c14CellsNear(pts) {
			c := c
			add(func(o *c14SoakObj, b *c14Buf) {
				b.t(o.loop.ContainsCell(c))
				b.t(o.loop.IntersectsCell(c))
			})
		}
	case strings.HasPrefix(kind, "loop-rel-"):
		for j := 0; j < 4; j++ {
			j := j
			add(func(o *c14SoakObj, b *c14Buf) {
				x := o.ploops[w][j]
				b.t(o.loop.Contains(x))
				b.t(o.loop.Intersects(x))
			})
			add(func(o *c14SoakObj, b *c14Buf) {
				x := o.ploops[w][j]
				b.t(x.Contains(o.loop))
				b.t(x.Intersects(o.loop))
				b.t(o.loop.BoundaryEqual(x))
			})
		}
		p := c14Arc(w, n)
		add(func(o *c14SoakObj, b *c14Buf) { b.t(o.loop.ContainsPoint(p)) })
	case kind == "poly-tiny" || kind == "poly-1" || kind == "poly-few" || kind == "poly-many":
		nl := map[string]int{"poly-tiny": 3, "poly-1": 1, "poly-few": 6, "poly-many": 16}[kind]
		r := 3.0
		if kind == "poly-1" {
			r = 5
		}
		var pts []s2.Point
		if nl == 1 {
			pts = append(c14Ring(s2.RegularLoop(c14Island(0), c14Deg(r), 4*n).Vertex(4*w+1), 0.4, 8), c14Island(0))
		} else {
			pts = c14ProbesNear(c14Island((w*5)%nl), r)
		}
		for _, p := range pts {
			p := p
			add(func(o *c14SoakObj, b *c14Buf) { b.t(o.poly.ContainsPoint(p)) })
		}
		for _, c := range c14CellsNear(pts) {
			c := c
			add(func(o *c14SoakObj, b *c14Buf) {
				b.t(o.poly.ContainsCell(c))
				b.t(o.poly.IntersectsCell(c))
			})
		}
	case strings.HasPrefix(kind, "polyrel-"):
		for j := 0; j < 3; j++ {
			j := j
			add(func(o *c14SoakObj, b *c14Buf) {
				x := o.ppolys[w][j]
				b.t(o.poly.Contains(x))
				b.t(o.poly.Intersects(x))
			})
			add(func(o *c14SoakObj, b *c14Buf) {
				x := o.ppolys[w][j]
				b.t(x.Contains(o.poly))
				b.t(x.Intersects(o.poly))
			})
		}
		var p s2.Point
		if kind == "polyrel-1big" {
			p = c14Arc(w, n)
		} else {
			p = c14Island((w * 5) % map[string]int{"polyrel-few": 6, "polyrel-many": 16}[kind])
		}
		add(func(o *c14SoakObj, b *c14Buf) { b.t(o.poly.ContainsPoint(p)) })
	case strings.HasPrefix(kind, "idx-"):
		pts := c14IdxFocus(kind, w)
		for i, p := range pts {
			p, i := p, i
			add(func(o *c14SoakObj, b *c14Buf) {
				q := s2.NewContainsPointQuery(o.idx, s2.VertexModelSemiOpen)
				b.s("[")
				for _, sh := range q.ContainingShapes(p) {
					b.i(o.shapeID(sh))
					b.s(".")
				}
				b.s("]")
				b.t(q.Contains(p))
				b.t(q.ShapeContains(o.shapes[i%len(o.shapes)], p))
			})
			p2 := pts[(i+3)%len(pts)]
			add(func(o *c14SoakObj, b *c14Buf) {
				q := s2.NewCrossingEdgeQuery(o.idx)
				c14EdgeMap(o, b, q.CrossingsEdgeMap(p, p2, s2.CrossingTypeAll))
				es := append([]int(nil), q.Crossings(p, p2, o.shapes[i%len(o.shapes)], s2.CrossingTypeInterior)...)
				sort.Ints(es)
				for _, e := range es {
					b.s(",")
					b.i(e)
				}
			})
			add(func(o *c14SoakObj, b *c14Buf) {
				q := s2.NewClosestEdgeQuery(o.idx, s2.NewClosestEdgeQueryOptions().MaxResults(3))
				c14Results(b, q.FindEdges(s2.NewMinDistanceToPointTarget(p)))
				q2 := s2.NewClosestEdgeQuery(o.idx, nil)
				b.f(float64(q2.Distance(s2.NewMinDistanceToEdgeTarget(s2.Edge{V0: p, V1: p2}))))
				q3 := s2.NewClosestEdgeQuery(o.idx, nil)
				b.t(q3.IsDistanceLess(s2.NewMinDistanceToPointTarget(p), s1.ChordAngleFromAngle(c14Deg(0.5))))
			})
			if i%3 == 0 {
				cell := s2.CellFromCellID(s2.CellFromPoint(p).ID().Parent(8))
				add(func(o *c14SoakObj, b *c14Buf) {
					q := s2.NewClosestEdgeQuery(o.idx, nil)
					b.f(float64(q.Distance(s2.NewMinDistanceToCellTarget(cell))))
					f := s2.NewFurthestEdgeQuery(o.idx, nil)
					b.f(float64(f.Distance(s2.NewMaxDistanceToPointTarget(p))))
				})
			}
		}
	case strings.HasPrefix(kind, "eqt-"):
		pts := c14IdxFocus(kind, w)
		for v := 0; v < 4; v++ {
			v := v
			add(func(o *c14SoakObj, b *c14Buf) {
				opts := s2.NewClosestEdgeQueryOptions()
				switch (v + w) % 4 {
				case 0:
					opts.MaxResults(3)
				case 1:
					opts.MaxResults(2).IncludeInteriors(false)
				case 2:
					opts.MaxResults(4).DistanceLimit(s1.ChordAngleFromAngle(c14Deg(30 + float64(w))))
				case 3:
					opts.MaxResults(3).UseBruteForce(true)
				}
				q := s2.NewClosestEdgeQuery(o.idx, opts)
				t := s2.NewMinDistanceToShapeIndexTarget(o.tidx) // own target object, SHARED target index
				c14Results(b, q.FindEdges(t))
			})
			add(func(o *c14SoakObj, b *c14Buf) {
				q := s2.NewClosestEdgeQuery(o.idx, nil)
				t := s2.NewMinDistanceToShapeIndexTarget(o.tidx)
				b.f(float64(q.Distance(t)))
				q2 := s2.NewClosestEdgeQuery(o.idx, nil)
				t2 := s2.NewMinDistanceToShapeIndexTarget(o.tidx)
				b.t(q2.IsDistanceLess(t2, s1.ChordAngleFromAngle(c14Deg(float64(1+5*v)))))
			})
			p := pts[v%len(pts)]
			add(func(o *c14SoakObj, b *c14Buf) {
				// the shared target index queried directly, and the shared geometry with a point target
				q := s2.NewClosestEdgeQuery(o.tidx, s2.NewClosestEdgeQueryOptions().MaxResults(2))
				c14Results(b, q.FindEdges(s2.NewMinDistanceToPointTarget(p)))
				q2 := s2.NewClosestEdgeQuery(o.idx, nil)
				b.f(float64(q2.Distance(s2.NewMinDistanceToPointTarget(p))))
			})
		}
	}
	return qs
}

// c14SoakRun runs one query, converting a panic into the answer "PANIC".
func c14SoakRun(q c14SoakQ, o *c14SoakObj) (ans string) {
	defer func() {
		if r := recover(); r != nil {
			ans = "PANIC"
			os.Stderr.WriteString("c14 soak: recovered panic: " + panicString(r) + "\n")
		}
	}()
	var b c14Buf
	q(o, &b)
	return string(b.b)
}

var (
	c14SoakStop   int32 // race-invisible "somebody failed" flag
	c14SoakHookOn int32
)

func c14SoakHook(k int) {
	if nrLoad32(&c14SoakHookOn) != 0 {
		c14Hook(k)
	}
}

type c14SoakRes struct {
	bad, panicked bool
	msg           string
	rounds        int
	_             [64]byte
}

func c14ChildSoak(kind string, n int, seed uint64) {
	ref := c14SoakBuild(kind, n)
	if ref == nil {
		os.Stdout.WriteString("ERR-args\n")
		return
	}
	queries := make([][]c14SoakQ, n)
	want := make([][]string, n)
	for w := 0; w < n; w++ {
		queries[w] = c14SoakQueries(kind, w, n)
		for _, q := range queries[w] {
			want[w] = append(want[w], c14SoakRun(q, ref))
		}
	}
	shared := c14SoakBuild(kind, n) // indexes not built: the first queries build them
	c14NWorkers, c14Stress, c14Seed = n, true, seed
	nrStore32(&c14SoakHookOn, 1)
	s2.VerifSetSchedHook(c14SoakHook)
	budget := c14SoakBudget()
	res := make([]c14SoakRes, n)
	done := make([]chan struct{}, n)
	startGate := make(chan struct{})
	for i := 0; i < n; i++ {
		done[i] = make(chan struct{}, 1)
		i := i
		s := &c14Slots[i]
		nrStore32(&s.state, c14StRun)
		go func() {
			nrStore64(&s.goid, c14Goid())
			r := &res[i]
			defer func() {
				done[i] <- struct{}{}
				nrStore32(&s.state, c14StDone)
				c14Notify()
			}()
			<-startGate
			t0 := time.Now()
			for {
				for qi, q := range queries[i] {
					got := c14SoakRun(q, shared)
					if got != want[i][qi] {
						r.bad = true
						r.panicked = got == "PANIC"
						r.msg = "worker " + strconv.Itoa(i) + " round " + strconv.Itoa(r.rounds) + " query " + strconv.Itoa(qi) +
							": got " + got + " want " + want[i][qi]
						nrStore32(&c14SoakStop, 1)
						return
					}
					if nrLoad32(&c14SoakStop) != 0 {
						return
					}
				}
				r.rounds++
				if time.Since(t0) > budget {
					return
				}
			}
		}()
	}
	close(startGate)
	t0 := time.Now()
	allDone := false
	for !allDone && time.Since(t0) < c14SoakChildTimeout-10*time.Second {
		if time.Since(t0) > 30*time.Millisecond {
			nrStore32(&c14SoakHookOn, 0) // perturb only the start-up (first builds); then run at full speed
		}
		ev := nrLoad32(&c14Event)
		allDone = true
		for i := 0; i < n; i++ {
			if nrLoad32(&c14Slots[i].state) != c14StDone {
				allDone = false
			}
		}
		if !allDone {
			c14Wait(&c14Event, ev, 5*time.Millisecond)
		}
	}
	ans, outcome := "-", "ok"
	if allDone {
		ans = "Y"
		minRounds, total := 1<<30, 0
		for i := 0; i < n; i++ {
			<-done[i]
			if res[i].bad {
				ans = "N"
				os.Stderr.WriteString("c14 soak-" + kind + " answer mismatch: " + res[i].msg + "\n")
			}
			if res[i].panicked {
				outcome = "PANIC"
			}
			if res[i].rounds < minRounds {
				minRounds = res[i].rounds
			}
			total += res[i].rounds * len(queries[i])
		}
		os.Stderr.WriteString("c14 soak-" + kind + " n=" + strconv.Itoa(n) + " min rounds " + strconv.Itoa(minRounds) +
			" queries " + strconv.Itoa(total) + "\n")
	} else {
		outcome = "HANG"
	}
	os.Stdout.WriteString("answers=" + ans + " applies=- outcome=" + outcome + "\n")
}

// c14SoakCases: every kind with 8 goroutines, the many-object kinds also with 16.
func c14SoakCases(g *G) []c14Case {
	var cs []c14Case
	seeds := 1
	if g.thorough {
		seeds = 3
	}
	for k := 0; k < seeds; k++ {
		for _, kind := range c14SoakKinds {
			cs = append(cs, c14Case{"soak-" + kind, "8", strconv.FormatUint(g.rng.U64()>>1, 10)})
		}
		if g.thorough {
			for _, kind := range []string{"poly-many", "idx-big", "loop-rel-big", "polyrel-many"} {
				cs = append(cs, c14Case{"soak-" + kind, "16", strconv.FormatUint(g.rng.U64()>>1, 10)})
			}
		}
	}
	return cs
}
