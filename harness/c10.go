package main

// C10 — bounds are conservative.
//
// The harness builds the region with the library, asks it for every bounding object, and evaluates
// the library's own LatLngFromPoint on every probe; the oracle (lean/Oracle/C10.lean) decides the
// membership of each probe in the region EXACTLY and judges the bounds for the probes that are inside.
//
// Line formats (pt = x,y,z hex floats; pts = pt;pt;… ; rect = latlo,lathi,lnglo,lnghi;
// cap = cx,cy,cz,radius(chord², float); lls = lat,lng;… one per probe; cells = hex ids comma separated):
//   bndloop <N|I> <verts> <probes> = <rb> <rect0|-> <rect> <sub> <cap> <cells> <lls>
//        rb = RectBounder result over the final vertex order (vertex 0 twice), rect0 = bound before Invert
//   bndpoly <loop/loop/…> <probes> = <order i.j.k> <holes TF…> <depths i.j.k> <looprect;…> <rect> <cap> <cells> <lls>
//   bndline <verts> <probes> = <rect> <cap> <cells> <lls>
//   bndcap  <cap> <probes> = <rect> <cells> <Cap.ContainsPoint TF…> <lls>
//   bndcell <id> <probes> = <face> <ulo,uhi,vlo,vhi> <rect> <cap> <cells> <lls>
//   bndcu   <ids> <probes> = <face:ulo,uhi,vlo,vhi;…> <cellrect;…> <cellcap;…> <rect> <cap> <cells> <lls>
//   bndsub  <vertsA> <vertsB> = <rectA> <rectB> <ExpandForSubregions(rectA)>
//   hull    <P|Y|L|G> <pts/pts/…> = <full|empty|verts> <origin> <cap.Height()>=1-10eps T/F> <depth-0 loops i.j|->

import (
	"math"
	"math/big"
	"strings"

	"github.com/golang/geo/r3"
	"github.com/golang/geo/s1"
	"github.com/golang/geo/s2"
)

func c10CapTok(c s2.Cap) string {
	ctr := c.Center()
	// radius as chord² : Height() = 0.5*radius exactly
	return ptTok(ctr) + "," + fx(2*c.Height())
}

func c10LLs(ps []s2.Point) string {
	if len(ps) == 0 {
		return "-"
	}
	t := make([]string, len(ps))
	for i, p := range ps {
		ll := s2.LatLngFromPoint(p)
		t[i] = fx(ll.Lat.Radians()) + "," + fx(ll.Lng.Radians())
	}
	return strings.Join(t, ";")
}

func c10RectBounder(vs []s2.Point, closed bool) s2.Rect {
	rb := s2.NewRectBounder()
	for _, v := range vs {
		rb.AddPoint(v)
	}
	if closed && len(vs) > 0 {
		rb.AddPoint(vs[0])
	}
	return rb.RectBound()
}

func c10Loop(a []string) []string {
	vs := pPts(a[1])
	probes := pPts(a[2])
	l := s2.LoopFromPoints(c04Copy(vs))
	rect0 := "-"
	if a[0] == "I" {
		rect0 = rectTok(l.RectBound())
		l.Invert()
	}
	final := l.Vertices()
	rb := "-"
	if len(final) >= 3 {
		rb = rectTok(c10RectBounder(final, true))
	}
	rect := l.RectBound()
	return []string{rb, rect0, rectTok(rect), rectTok(s2.ExpandForSubregions(rect)), c10CapTok(l.CapBound()),
		ids(l.CellUnionBound()), c10LLs(probes)}
}

func c10Poly(a []string) []string {
	loops := c04ParseLoops(a[0])
	probes := pPts(a[1])
	var ls []*s2.Loop
	for _, l := range loops {
		ls = append(ls, s2.LoopFromPoints(c04Copy(l)))
	}
	orig := append([]*s2.Loop(nil), ls...)
	pg := s2.PolygonFromLoops(ls)
	var order, depths, rects []string
	holes := ""
	for _, l := range pg.Loops() {
		for i, o := range orig {
			if o == l {
				order = append(order, is(i))
			}
		}
		holes += bs(l.IsHole())
		depths = append(depths, is(s2.VerifLoopDepth(l)))
		rects = append(rects, rectTok(l.RectBound()))
	}
	j := func(l []string, sep string) string {
		if len(l) == 0 {
			return "-"
		}
		return strings.Join(l, sep)
	}
	if holes == "" {
		holes = "-"
	}
	return []string{j(order, "."), holes, j(depths, "."), j(rects, ";"), rectTok(pg.RectBound()), c10CapTok(pg.CapBound()),
		ids(pg.CellUnionBound()), c10LLs(probes)}
}

func c10Line(a []string) []string {
	pl := s2.Polyline(pPts(a[0]))
	probes := pPts(a[1])
	return []string{rectTok(pl.RectBound()), c10CapTok(pl.CapBound()), ids(pl.CellUnionBound()), c10LLs(probes)}
}

func c10ParseCap(s string) s2.Cap {
	f := strings.Split(s, ",")
	c := s2.Point{Vector: r3.Vector{X: pF(f[0]), Y: pF(f[1]), Z: pF(f[2])}}
	return s2.CapFromCenterChordAngle(c, s1.ChordAngle(pF(f[3])))
}

func c10Cap(a []string) []string {
	c := c10ParseCap(a[0])
	probes := pPts(a[1])
	in := ""
	for _, p := range probes {
		in += bs(c.ContainsPoint(p))
	}
	if in == "" {
		in = "-"
	}
	return []string{rectTok(c.RectBound()), ids(c.CellUnionBound()), in, c10LLs(probes)}
}

func c10UVTok(c s2.Cell) string {
	uv := c.BoundUV()
	return fx(uv.X.Lo) + "," + fx(uv.X.Hi) + "," + fx(uv.Y.Lo) + "," + fx(uv.Y.Hi)
}

func c10Cell(a []string) []string {
	c := s2.CellFromCellID(s2.CellID(pU64(a[0])))
	probes := pPts(a[1])
	return []string{is(c.Face()), c10UVTok(c), rectTok(c.RectBound()), c10CapTok(c.CapBound()), ids(c.CellUnionBound()), c10LLs(probes)}
}

func c10CU(a []string) []string {
	cu := s2.CellUnion(pIDs(a[0]))
	probes := pPts(a[1])
	var uvs, rects, caps []string
	for _, id := range cu {
		c := s2.CellFromCellID(id)
		uvs = append(uvs, is(c.Face())+":"+c10UVTok(c))
		rects = append(rects, rectTok(c.RectBound()))
		caps = append(caps, c10CapTok(c.CapBound()))
	}
	j := func(l []string) string {
		if len(l) == 0 {
			return "-"
		}
		return strings.Join(l, ";")
	}
	return []string{j(uvs), j(rects), j(caps), rectTok(cu.RectBound()), c10CapTok(cu.CapBound()), ids(cu.CellUnionBound()), c10LLs(probes)}
}

func c10Sub(a []string) []string {
	la := s2.LoopFromPoints(pPts(a[0]))
	lb := s2.LoopFromPoints(pPts(a[1]))
	return []string{rectTok(la.RectBound()), rectTok(lb.RectBound()), rectTok(s2.ExpandForSubregions(la.RectBound()))}
}

func c10Hull(a []string) []string {
	lists := c04ParseLoops(a[1])
	q := s2.NewConvexHullQuery()
	shells := "-"
	switch a[0] {
	case "P":
		for _, l := range lists {
			for _, p := range l {
				q.AddPoint(p)
			}
		}
	case "Y":
		for _, l := range lists {
			pl := s2.Polyline(c04Copy(l))
			q.AddPolyline(&pl)
		}
	case "L":
		for _, l := range lists {
			q.AddLoop(s2.LoopFromPoints(c04Copy(l)))
		}
	case "G":
		var ls []*s2.Loop
		for _, l := range lists {
			ls = append(ls, s2.LoopFromPoints(c04Copy(l)))
		}
		orig := append([]*s2.Loop(nil), ls...)
		pg := s2.PolygonFromLoops(ls)
		var sh []string
		for _, l := range pg.Loops() {
			if s2.VerifLoopDepth(l) == 0 {
				for i, o := range orig {
					if o == l {
						sh = append(sh, is(i))
					}
				}
			}
		}
		if len(sh) > 0 {
			shells = strings.Join(sh, ".")
		}
		q.AddPolygon(pg)
	default:
		panic("bad hull kind")
	}
	c := q.CapBound()
	origin := s2.Point{Vector: c.Center().Ortho()}
	// the test ConvexHull itself applies to its bounding cap (kept in step with convex_hull_query.go; a
	// different test there shows up as a model / implementation diff)
	notConvex := c.Height() >= 1-10*2.220446049250313e-16
	h := q.ConvexHull()
	var ht string
	switch {
	case h.IsFull():
		ht = "full"
	case h.IsEmpty():
		ht = "empty"
	default:
		ht = ptsTok(h.Vertices())
	}
	return []string{ht, ptTok(origin), bs(notConvex), shells}
}

func init() {
	replayers["bndloop"] = c10Loop
	replayers["bndpoly"] = c10Poly
	replayers["bndline"] = c10Line
	replayers["bndcap"] = c10Cap
	replayers["bndcell"] = c10Cell
	replayers["bndcu"] = c10CU
	replayers["bndsub"] = c10Sub
	replayers["hull"] = c10Hull
	generators["c10"] = genC10
	generators["c10long"] = genC10Long
}

// ---------------------------------------------------------------------------------------------
// probes

func c10BF(x float64) *big.Float { return new(big.Float).SetPrec(300).SetFloat64(x) }

type c10BV [3]*big.Float

func c10BVOf(p s2.Point) c10BV { return c10BV{c10BF(p.X), c10BF(p.Y), c10BF(p.Z)} }
func c10Mul(a, b *big.Float) *big.Float {
	return new(big.Float).SetPrec(300).Mul(a, b)
}
func c10SubF(a, b *big.Float) *big.Float { return new(big.Float).SetPrec(300).Sub(a, b) }
func c10AddF(a, b *big.Float) *big.Float { return new(big.Float).SetPrec(300).Add(a, b) }
func c10Cross(a, b c10BV) c10BV {
	return c10BV{c10SubF(c10Mul(a[1], b[2]), c10Mul(a[2], b[1])), c10SubF(c10Mul(a[2], b[0]), c10Mul(a[0], b[2])),
		c10SubF(c10Mul(a[0], b[1]), c10Mul(a[1], b[0]))}
}
func c10Dot(a, b c10BV) *big.Float {
	return c10AddF(c10AddF(c10Mul(a[0], b[0]), c10Mul(a[1], b[1])), c10Mul(a[2], b[2]))
}

// c10Round normalises a high-precision vector and rounds it to float64 (zero vector -> ok=false).
func c10Round(v c10BV) (s2.Point, bool) {
	n2 := c10Dot(v, v)
	if n2.Sign() == 0 {
		return s2.Point{}, false
	}
	n := new(big.Float).SetPrec(300).Sqrt(n2)
	var f [3]float64
	for i := 0; i < 3; i++ {
		f[i], _ = new(big.Float).SetPrec(300).Quo(v[i], n).Float64()
	}
	return c04Raw(f[0], f[1], f[2]), true
}

// c10OnArc: is the direction h within the minor arc a→b (all in the plane with normal n = a×b)?
func c10OnArc(a, b, h, n c10BV) bool {
	return c10Dot(c10Cross(a, h), n).Sign() >= 0 && c10Dot(c10Cross(h, b), n).Sign() >= 0
}

// c10Extrema returns, for the edge a→b, the points of the edge where the latitude is extremal (the
// point of the great circle closest to a pole, if it lies on the edge) and where it meets the ±π
// meridian half-plane (y = 0, x < 0), computed with 300-bit arithmetic and rounded to float64.
func c10Extrema(a, b s2.Point) []s2.Point {
	A, B := c10BVOf(a), c10BVOf(b)
	n := c10Cross(A, B)
	if c10Dot(n, n).Sign() == 0 {
		return nil
	}
	var out []s2.Point
	// highest point: z - (z·n)n/|n|²  ~  (-nx nz, -ny nz, nx²+ny²)
	h := c10BV{new(big.Float).Neg(c10Mul(n[0], n[2])), new(big.Float).Neg(c10Mul(n[1], n[2])),
		c10AddF(c10Mul(n[0], n[0]), c10Mul(n[1], n[1]))}
	for _, s := range []float64{1, -1} {
		hs := c10BV{c10Mul(h[0], c10BF(s)), c10Mul(h[1], c10BF(s)), c10Mul(h[2], c10BF(s))}
		if c10OnArc(A, B, hs, n) {
			if p, ok := c10Round(hs); ok {
				out = append(out, p)
			}
		}
	}
	// meridian crossings: n × (0,1,0) = (-nz, 0, nx) and its negative
	m := c10BV{new(big.Float).Neg(n[2]), c10BF(0), n[0]}
	for _, s := range []float64{1, -1} {
		ms := c10BV{c10Mul(m[0], c10BF(s)), c10BF(0), c10Mul(m[2], c10BF(s))}
		if ms[0].Sign() < 0 && c10OnArc(A, B, ms, n) {
			if p, ok := c10Round(ms); ok {
				out = append(out, p)
			}
		}
	}
	return out
}

// c10Around: p and float neighbours: single coordinates ±1..3 ulps, steps along ±d (the edge
// direction) and ±w (the inward / outward direction) of a few 1e-16.
func (g *G) c10Around(p s2.Point, d, w r3.Vector, k int) []s2.Point {
	r := g.rng
	out := []s2.Point{p}
	for i := 0; i < k; i++ {
		switch r.Intn(4) {
		case 0:
			out = append(out, g.c04Nudge(p))
		case 1:
			t := float64(r.Intn(7)-3) * 1.2e-16
			out = append(out, s2.Point{Vector: p.Add(d.Mul(t)).Normalize()})
		case 2:
			t := float64(r.Intn(9)-4) * 0.6e-16
			u := float64(r.Intn(7)-3) * 1.2e-16
			out = append(out, s2.Point{Vector: p.Add(w.Mul(t)).Add(d.Mul(u)).Normalize()})
		default:
			q := p
			for j := 0; j < 2; j++ {
				q = g.c04Nudge(q)
			}
			out = append(out, q)
		}
	}
	return out
}

func c10Dir(a, b s2.Point) (d, w r3.Vector) {
	d = b.Sub(a.Vector)
	if d.Norm() > 0 {
		d = d.Normalize()
	}
	w = a.Cross(b.Vector)
	if w.Norm() > 0 {
		w = w.Normalize()
	}
	return
}

// c10ChainProbes: vertices (± ulps), per edge: midpoint, latitude extremum / meridian crossing with
// neighbours; at most max probes.
func (g *G) c10ChainProbes(vs []s2.Point, closed bool, max int) []s2.Point {
	r := g.rng
	var out []s2.Point
	n := len(vs)
	if n == 0 {
		return nil
	}
	ne := n - 1
	if closed {
		ne = n
	}
	perEdge := 1 + max/(3*(ne+1))
	if perEdge > 14 {
		perEdge = 14
	}
	for i := 0; i < n && len(out) < max/3; i++ {
		out = append(out, vs[i])
		if r.Intn(2) == 0 {
			out = append(out, g.c04Nudge(vs[i]))
		}
	}
	// edges in random order so that big loops get a fair sample
	start := r.Intn(ne + 1)
	for e := 0; e < ne && len(out) < max; e++ {
		i := (start + e*7919) % ne
		a, b := vs[i], vs[(i+1)%n]
		if a == b {
			continue
		}
		d, w := c10Dir(a, b)
		for _, x := range c10Extrema(a, b) {
			out = append(out, g.c10Around(x, d, w, perEdge)...)
		}
		if r.Intn(3) == 0 {
			out = append(out, g.c10Around(c04Mid(a, b), d, w, 2)...)
		}
	}
	if len(out) > max {
		out = out[:max]
	}
	return out
}

func c10Poles() []s2.Point {
	return []s2.Point{c04Raw(0, 0, 1), c04Raw(0, 0, -1)}
}

func (g *G) c10Interior(c s2.Point, rad float64, k int) []s2.Point {
	var out []s2.Point
	for i := 0; i < k; i++ {
		st := g.c04Star(c, rad*g.rng.Float(), 1, 1, true)
		out = append(out, st...)
	}
	return out
}

// ---------------------------------------------------------------------------------------------
// regions

func c10Rev(p []s2.Point) []s2.Point {
	q := c04Copy(p)
	for i, j := 0, len(q)-1; i < j; i, j = i+1, j-1 {
		q[i], q[j] = q[j], q[i]
	}
	return q
}

func c10LL(latDeg, lngDeg float64) s2.Point {
	return s2.PointFromLatLng(s2.LatLngFromDegrees(latDeg, lngDeg))
}

func (g *G) c10Tiny() float64 {
	r := g.rng
	switch r.Intn(6) {
	case 0:
		return 0
	case 1:
		return 5e-324 * float64(1+r.Intn(3))
	case 2:
		return 1e-16 * (0.5 + 4*r.Float())
	case 3:
		return math.Pow(10, -9-7*r.Float()) // nanometres .. 1e-16
	case 4:
		return 1e-300
	}
	return math.Pow(10, -3-6*r.Float())
}

func (g *G) c10Sign() float64 {
	if g.rng.Bool() {
		return 1
	}
	return -1
}

// c10SpecialLoop: boundary-targeted loops; nil if the attempt is not a valid loop.
func (g *G) c10SpecialLoop() []s2.Point {
	r := g.rng
	var pts []s2.Point
	switch r.Intn(9) {
	case 0:
		// an edge through (or within c10Tiny of) a pole: A and B on opposite meridians
		zs := g.c10Sign()
		la, lb := 0.1+1.3*r.Float(), 0.1+1.3*r.Float()
		if r.Intn(2) == 0 {
			// LONG edge over the pole: both endpoints near the equator, i.e. nearly antipodal
			// (edge length pi - la - lb close to pi)
			la = math.Pow(10, -1-8*r.Float()) * g.c10Sign()
			lb = math.Pow(10, -1-8*r.Float())
			if la+lb <= 1e-12 {
				la = math.Abs(la)
			}
		}
		l0 := (r.Float()*2 - 1) * math.Pi
		if r.Intn(2) == 0 {
			l0 = 0
		}
		A := c04Raw(math.Cos(la)*math.Cos(l0), math.Cos(la)*math.Sin(l0), zs*math.Sin(la))
		B := c04Raw(-math.Cos(lb)*math.Cos(l0), -math.Cos(lb)*math.Sin(l0), zs*math.Sin(lb))
		t := g.c10Tiny() * g.c10Sign()
		// push B sideways by t
		side := r3.Vector{X: -math.Sin(l0), Y: math.Cos(l0), Z: 0}
		B = s2.Point{Vector: B.Add(side.Mul(t)).Normalize()}
		A = s2.Point{Vector: A.Normalize()}
		C := s2.Point{Vector: r3.Vector{X: side.X, Y: side.Y, Z: zs * (r.Float()*1.5 - 0.5)}.Normalize()}
		pts = []s2.Point{A, B, C}
		if r.Intn(2) == 0 {
			D := s2.Point{Vector: r3.Vector{X: side.X + 0.3*(r.Float()-0.5), Y: side.Y + 0.3*(r.Float()-0.5), Z: zs * (r.Float()*1.5 - 0.5)}.Normalize()}
			pts = []s2.Point{A, B, C, D}
		}
	case 1:
		// an edge spanning π - tiny of longitude (not through the pole region necessarily)
		la, lb := (r.Float()*2-1)*1.4, (r.Float()*2-1)*1.4
		l0 := (r.Float()*2 - 1) * math.Pi
		dl := math.Pi - g.c10Tiny()*g.c10Sign()
		A := s2.PointFromLatLng(s2.LatLng{Lat: s1.Angle(la), Lng: s1.Angle(l0)})
		B := s2.PointFromLatLng(s2.LatLng{Lat: s1.Angle(lb), Lng: s1.Angle(math.Remainder(l0+dl, 2*math.Pi))})
		C := s2.PointFromLatLng(s2.LatLng{Lat: s1.Angle((r.Float()*2 - 1) * 1.4), Lng: s1.Angle(math.Remainder(l0+dl/2, 2*math.Pi))})
		pts = []s2.Point{A, B, C}
	case 2:
		// nearly antipodal adjacent vertices
		A := g.c04Center()
		off := g.c10Tiny()
		if off == 0 {
			off = 1e-15
		}
		o := r3.Vector{X: r.Float() - 0.5, Y: r.Float() - 0.5, Z: r.Float() - 0.5}
		B := s2.Point{Vector: A.Mul(-1).Add(o.Mul(off)).Normalize()}
		if B.Vector == A.Mul(-1) {
			return nil
		}
		C := s2.Point{Vector: A.Ortho().Add(o.Mul(0.3)).Normalize()}
		pts = []s2.Point{A, B, C}
	case 3:
		// thin strip along a parallel spanning more than 180 degrees of longitude
		lat := (r.Float()*2 - 1) * 80
		if r.Intn(3) == 0 {
			lat = g.c10Tiny() * g.c10Sign() * 1e3
		}
		h := math.Pow(10, -6*r.Float()) * 5
		w := 91 + 88*r.Float()
		l0 := (r.Float()*2 - 1) * 180
		k := 4 + r.Intn(6)
		for i := 0; i <= k; i++ {
			pts = append(pts, c10LL(lat-h/2, l0-w+2*w*float64(i)/float64(k)))
		}
		for i := k; i >= 0; i-- {
			pts = append(pts, c10LL(math.Min(lat+h/2, 89.9), l0-w+2*w*float64(i)/float64(k)))
		}
	case 4:
		// loop across the antimeridian
		c := s2.Point{Vector: r3.Vector{X: -1, Y: g.c10Tiny() * g.c10Sign(), Z: (r.Float()*2 - 1) * 0.9}.Normalize()}
		pts = g.c04Star(c, g.c04Radius()*0.5, 3+r.Intn(8), 0.5, r.Bool())
		if r.Intn(3) == 0 {
			// put a vertex exactly on the ±π meridian
			pts[0] = s2.Point{Vector: r3.Vector{X: pts[0].X, Y: 0, Z: pts[0].Z}.Normalize()}
			if r.Bool() {
				pts[0].Y = math.Copysign(0, -1)
			}
		}
	case 5:
		// small loop around / next to a pole
		zs := g.c10Sign()
		off := g.c10Tiny()
		c := s2.Point{Vector: r3.Vector{X: off, Y: off * (r.Float() - 0.5), Z: zs}.Normalize()}
		rad := g.c04Radius()
		if r.Intn(2) == 0 {
			rad = 1e-7 * (1 + r.Float())
		}
		pts = g.c04Star(c, math.Min(rad, 1.5), 3+r.Intn(7), 0.6, r.Bool())
	case 6:
		// latitude-longitude "rectangle" (edges along meridians; parallels approximated by geodesics)
		la, lb := (r.Float()*2-1)*89, (r.Float()*2-1)*89
		if la > lb {
			la, lb = lb, la
		}
		if lb-la < 1e-3 {
			return nil
		}
		l0 := (r.Float()*2 - 1) * 180
		w := 1 + 170*r.Float()
		pts = []s2.Point{c10LL(la, l0), c10LL(la, l0+w), c10LL(lb, l0+w), c10LL(lb, l0)}
	case 7:
		// a loop that winds around the sphere along a parallel: contains exactly one pole
		lat := (r.Float()*2 - 1) * 85
		k := 3 + r.Intn(8)
		ph := r.Float() * 360
		for i := 0; i < k; i++ {
			pts = append(pts, c10LL(lat+(r.Float()-0.5)*8, ph+360*float64(i)/float64(k)))
		}
	default:
		// a cell as a loop (poles and cube corners included)
		lvl := r.Intn(31)
		var id s2.CellID
		switch r.Intn(3) {
		case 0:
			id = s2.VerifCellIDFromPoint(c04Raw(0, 0, g.c10Sign())).Parent(lvl)
		case 1:
			id = s2.VerifCellIDFromPoint(s2.PointFromCoords(g.c10Sign(), g.c10Sign(), g.c10Sign())).Parent(lvl)
		default:
			id = s2.VerifCellIDFromPoint(g.c04Center()).Parent(lvl)
		}
		pts = c04CellLoop(id)
	}
	if r.Intn(5) == 0 {
		pts = c10Rev(pts)
	}
	for _, p := range pts {
		if math.IsNaN(p.X + p.Y + p.Z) {
			return nil
		}
	}
	if !c04Valid(pts) {
		return nil
	}
	return pts
}

func (g *G) c10AnyLoop() []s2.Point {
	r := g.rng
	for {
		var pts []s2.Point
		if k := r.Intn(12); k < 2 {
			pts = g.c10LongEdgeLoop()
		} else if k < 7 {
			pts = g.c10SpecialLoop()
		} else {
			n := g.c04LoopSize()
			if n > 300 {
				n = 3 + r.Intn(60)
			}
			pts = g.c04RandomLoop(n)
		}
		if pts != nil {
			return pts
		}
	}
}

func (g *G) c10LoopProbes(loops [][]s2.Point, max int) []s2.Point {
	var probes []s2.Point
	per := max / len(loops)
	for _, l := range loops {
		probes = append(probes, g.c10ChainProbes(l, true, per-4)...)
	}
	for _, p := range c10Poles() {
		probes = append(probes, p, g.c04Nudge(p))
	}
	c := loops[0][0]
	probes = append(probes, g.c10Interior(c, 0.5*g.rng.Float(), 3)...)
	probes = append(probes, s2.Point{Vector: c.Mul(-1)})
	return probes
}

// c10Shrink: a loop strictly inside the star loop `pts` about centre c (radial contraction with
// optionally fewer / rotated vertices); the oracle re-checks the nesting exactly.
func (g *G) c10Inner(c s2.Point, rad float64, n int) []s2.Point {
	r := g.rng
	f := 0.05 + 0.3*r.Float()
	return g.c04Star(c, rad*f, n, 0.8, r.Bool())
}

func (g *G) c10Cap() s2.Cap {
	r := g.rng
	c := g.c04Center()
	if r.Intn(4) == 0 {
		c = s2.Point{Vector: r3.Vector{X: g.c10Tiny(), Y: g.c10Tiny() * g.c10Sign(), Z: g.c10Sign()}.Normalize()}
	}
	switch r.Intn(8) {
	case 0:
		return s2.CapFromPoint(c)
	case 1:
		return s2.CapFromCenterAngle(c, s1.Angle(math.Pi-g.c10Tiny()))
	case 2:
		return s2.CapFromCenterAngle(c, s1.Angle(math.Pi/2+g.c10Tiny()*g.c10Sign()))
	case 3:
		return s2.CapFromCenterAngle(c, s1.Angle(g.c10Tiny()+1e-12))
	case 4:
		// boundary passing through / next to a pole
		lat := s2.LatLngFromPoint(c).Lat.Radians()
		a := math.Pi/2 - lat + g.c10Tiny()*g.c10Sign()
		if r.Bool() {
			a = math.Pi/2 + lat + g.c10Tiny()*g.c10Sign()
		}
		if a < 0 {
			a = 0
		}
		return s2.CapFromCenterAngle(c, s1.Angle(math.Min(a, math.Pi)))
	case 5:
		return s2.CapFromCenterChordAngle(c, s1.ChordAngle(4*r.Float()))
	}
	return s2.CapFromCenterAngle(c, s1.Angle(g.c04Radius()))
}

// c10CapProbes: centre, antipode, poles, points at (about) the cap boundary in 8+ directions incl.
// due north / south / east / west of the centre, each with float neighbours.
func (g *G) c10CapProbes(c s2.Cap, max int) []s2.Point {
	r := g.rng
	ctr := c.Center()
	out := []s2.Point{ctr, {Vector: ctr.Mul(-1)}}
	out = append(out, c10Poles()...)
	rad := c.Radius().Radians()
	z := ctr.Vector
	// east = z_axis × centre, north = centre × east
	east := r3.Vector{X: -z.Y, Y: z.X, Z: 0}
	if east.Norm() == 0 {
		east = r3.Vector{X: 1}
	}
	east = east.Normalize()
	north := z.Cross(east).Normalize()
	dirs := []float64{0, math.Pi / 2, math.Pi, 3 * math.Pi / 2}
	// the tangency directions of the longitude bound
	for len(dirs) < 12 {
		dirs = append(dirs, r.Float()*2*math.Pi)
	}
	for _, a := range dirs {
		for _, rr := range []float64{rad, rad * (1 - 1e-15), rad * (1 + 1e-15), rad * r.Float()} {
			v := z.Mul(math.Cos(rr)).Add(east.Mul(math.Sin(rr) * math.Cos(a))).Add(north.Mul(math.Sin(rr) * math.Sin(a)))
			if v.Norm() == 0 {
				continue
			}
			p := s2.Point{Vector: v.Normalize()}
			out = append(out, p, g.c04Nudge(p))
			if len(out) >= max {
				return out
			}
		}
	}
	return out
}

func (g *G) c10CellID() s2.CellID {
	r := g.rng
	lvl := r.Intn(31)
	if r.Intn(4) == 0 {
		lvl = r.Intn(3)
	}
	switch r.Intn(4) {
	case 0:
		return s2.VerifCellIDFromPoint(c04Raw(0, 0, g.c10Sign())).Parent(lvl)
	case 1:
		return s2.VerifCellIDFromPoint(s2.PointFromCoords(g.c10Sign(), g.c10Sign(), g.c10Sign())).Parent(lvl)
	case 2:
		return s2.CellIDFromFace(r.Intn(6))
	}
	return s2.VerifCellIDFromPoint(g.c04Center()).Parent(lvl)
}

// c10CellProbes: the four vertices (normalised and raw), edge points (exact uv boundary), centre,
// each with float neighbours, plus the poles.
func (g *G) c10CellProbes(id s2.CellID) []s2.Point {
	r := g.rng
	c := s2.CellFromCellID(id)
	uv := c.BoundUV()
	f := c.Face()
	out := []s2.Point{c.Center()}
	us := []float64{uv.X.Lo, uv.X.Hi}
	vs := []float64{uv.Y.Lo, uv.Y.Hi}
	add := func(u, v float64) {
		raw := s2.Point{Vector: s2.VerifFaceUVToXYZ(f, u, v)}
		p := s2.Point{Vector: raw.Normalize()}
		out = append(out, p, g.c04Nudge(p), g.c04Nudge(p))
	}
	for _, u := range us {
		for _, v := range vs {
			add(u, v)
		}
		add(u, uv.Y.Lo+(uv.Y.Hi-uv.Y.Lo)*r.Float())
		add(u, 0.5*(uv.Y.Lo+uv.Y.Hi))
	}
	for _, v := range vs {
		add(uv.X.Lo+(uv.X.Hi-uv.X.Lo)*r.Float(), v)
		add(0.5*(uv.X.Lo+uv.X.Hi), v)
	}
	// where an edge of the cell reaches its extreme latitude: u = 0 or v = 0 lines
	if uv.X.Lo <= 0 && 0 <= uv.X.Hi {
		add(0, uv.Y.Lo)
		add(0, uv.Y.Hi)
	}
	if uv.Y.Lo <= 0 && 0 <= uv.Y.Hi {
		add(uv.X.Lo, 0)
		add(uv.X.Hi, 0)
	}
	for k := 0; k < 4; k++ {
		out = append(out, c.Vertex(k))
	}
	out = append(out, c10Poles()...)
	return out
}

// c10Regression: minimal inputs of the repaired findings F1-F6 (RectBounder latitude budget on long edges,
// cap bounds without rounding slack, Cap.RectBound without padding, ConvexHull on two nearly identical points
// and on exactly hemispherical input); emitted on every run.
var c10Regression = []string{
	"bndloop N 3fefffffffe67898,0000000000000000,3ef435e135ffa8d4;bfeffffffffffff5,81a56e1fc2f8f359,3e6aea52e920f954;8000000000000000,3fea474559f0d431,3fe242afa4a3944d 0000000002e34bd5,bcb14b37f4b51f71,3ff0000000000000",
	"bndloop I bfeead82558e5f89,bfd235031b5dd621,be7398d117028d4e;3feead82558e5fa0,3fd235031b5dd62f,be35ef01c64ab3f2;3fce7cd97783c4a6,bfe9af566be04b90,bfe17f92909462d6;3fc9ca8189e621fc,bfedb5c6bd860300,bfd3f94d22c370f1 bdd2a0a2bba6d5c0,3def62d91293931b,bfeffffffffffffe",
	"bndloop I 3fcb553624e990d7,bfea7fb69e389d25,bfe0962dd6e50992;bfcaf994fe051971,3fea26e1302c01d8,3fe129f964635c04;3fdb6397255514b6,3fbc4042a6192390,bfecb4895a03ad7f 3ce2d434e4716f79,3cb7ab47e7c827c2,3ff0000000000000",
	"bndcell 5000000000000010 be35555555555555,be35555555555554,3ff0000000000001",
	"bndcu 7000000000000000 bfe279a74590331f,bfe279a74590331f,bfe279a74590331f",
	"bndline 3fec1fd79ea0a36e,3fde7ddbf0276eea,bf98749324f9218d;bfeb3382cdfaa019,3fe0b1b01f6d1ef6,bfb297a1bb05e74c 3fec1fd79ea0a36e,3fde7ddbf0276eea,bf98749324f9218d",
	"bndloop N 3fd13ae46b1474c3,bfc230032bd0bf12,bfee7b33d270b371;3fceaa7b0bc91cb9,3fceaa7b0bc91cb9,bfee1b788f213ecf;bfd7d0e5ff8da0f7,3f9e61e7ddc648e8,bfedafc926dd1a4a bf92c8c3f70c63fb,bfb1b9a6bef88acc,bfefeaf54f7c4099",
	"bndcap 3fe279a74590331d,bfe279a74590331d,bfe279a74590331d,3af357c299a88ea7 3fe279a745904179,bfe279a74590417a,bfe279a745901662",
	"hull P bff0000000000000,0000000000000000,0000000000000000;bff0000000000000,8000000000000002,0000000000000000",
	"hull P 0000000000000000,0000000000000000,3ff0000000000000;0000000000000000,0000000000000000,3ff0000000000002",
	"hull P bfe2c322ccbda0ff,3fe1e4f31794d845,3fe2c16bf31c706f;bfe2c322ccbda100,3fe1e4f31794d845,3fe2c16bf31c706f",
	"hull P 3fdf97d96835aa7f,bfe350296ebf169b,bfe40967d207ae3a;bfeb07a62f7f3c91,bfdd402d7268ce5a,bfd1d4b2e5188724;3fe6a09e667f3bcc,bfe6a09e667f3bcc,0000000000000000;3fe897b0e26c8875,bfd5036e5061bfd7,bfe192bad6b27e1f;bfe6a09e667f3bcc,3fe6a09e667f3bcc,0000000000000000;bfe49aaf3158a079,3fda76c6ea2e0fbd,bfe499b96cbdc906;bfe23579374a74de,3fe29adf24035fee,bfe29be2151a776d;bfde6d3de7950e90,3febc80f21baafc3,bfc237beab8fc10b;0000000000000000,0000000000000000,bff0000000000000;3fea3c9d38d59b63,bfe226f356d3ffe9,bfb3cf1297f31b8a",
	"hull P 0000000000000000,0000000000000000,3ff0000000000000;3fbe73d2a9daff62,bfe5b9aedf7fdc28,3fe72f3a82a7eb02;bff0000000000000,0000000000000000,0000000000000000;bfd66aaa4a933235,bf694cfefbc69dd4,3fedf903c2289e60;3fd267067ad02733,3fe3ae64e46cd19a,3fe77e90ff3de90b;0000000000000000,0000000000000000,3ff0000000000000",
	"bndcu 5000000000000001,b000000100000000 be15555555555556,be15555555555555,3ff0000000000002",
	"bndcell b54a47a1c0000000 3fe0b33df519177b,3fe3004eaca0f795,bfe398f0901a099f",
	"bndcap 3ca6939d006c5e20,be58b87d2f19add3,3feffffffffffffe,3af357c299a88ea7 3d71984e1e15ed6f,be58b87d2f19a5cb,3feffffffffffffe",
	"bndcap 0000000000000000,0000000000000000,3ff0000000000000,400ffffffffffff6 3e71e3778c8d312e,0000000000000000,bfefffffffffffec",
	"hull P bfe6a09e667f3bcc,bfe6a09e667f3bcc,0000000000000000;bfe6a09e667f3bcb,bfe6a09e667f3bcb,0000000000000000",
	"hull P 3ff0000000000000,0000000000000000,0000000000000000;bff0000000000000,0000000000000000,0000000000000000;0000000000000000,0000000000000000,3ff0000000000000",
}

var c10Fixed int

func (g *G) c10Mine() bool {
	c10Fixed++
	m := g.shardM
	if m <= 0 {
		m = 1
	}
	return c10Fixed%m == g.shardK%m
}

func (g *G) c10HullPoints() (string, [][]s2.Point) {
	r := g.rng
	c := g.c04Center()
	switch r.Intn(13) {
	case 0:
		return "P", [][]s2.Point{{c}}
	case 1:
		// two points: close, far, nearly antipodal, exactly antipodal
		var b s2.Point
		switch r.Intn(4) {
		case 0:
			b = s2.Point{Vector: c.Mul(-1)}
		case 1:
			b = s2.Point{Vector: c.Mul(-1).Add(r3.Vector{X: 1e-15 * r.Float(), Y: 1e-15 * r.Float(), Z: 1e-15 * r.Float()}).Normalize()}
		case 2:
			b = g.c04Nudge(c)
		default:
			b = g.c04Center()
		}
		return "P", [][]s2.Point{{c, b}}
	case 2:
		// duplicates
		pts := g.c04Star(c, g.c04Radius()*0.3, 3+r.Intn(6), 0.3, false)
		pts = append(pts, pts[0], pts[1], pts[0])
		if r.Bool() {
			return "P", [][]s2.Point{{c, c, c}}
		}
		return "P", [][]s2.Point{pts}
	case 3:
		// collinear points on a great circle (exactly: the plane y = 0 / z = 0 / x = y)
		k := 3 + r.Intn(8)
		var pts []s2.Point
		span := math.Pow(10, -7*r.Float()) * 1.5
		t0 := r.Float() * 6
		pl := r.Intn(3)
		for i := 0; i < k; i++ {
			t := t0 + span*r.Float()
			switch pl {
			case 0:
				pts = append(pts, c04Raw(math.Cos(t), 0, math.Sin(t)))
			case 1:
				pts = append(pts, c04Raw(math.Cos(t), math.Sin(t), 0))
			default:
				x := math.Cos(t) * math.Sqrt2 / 2
				pts = append(pts, c04Raw(x, x, math.Sin(t)))
			}
		}
		if r.Bool() {
			pts = append(pts, g.c04Center())
		}
		return "P", [][]s2.Point{pts}
	case 4:
		// all points in a tiny cap
		k := 3 + r.Intn(30)
		var pts []s2.Point
		rad := 1e-7 * (1 + r.Float())
		if r.Bool() {
			rad = 3e-15 * (1 + 10*r.Float())
		}
		for i := 0; i < k; i++ {
			pts = append(pts, g.c10Interior(c, rad, 1)...)
		}
		return "P", [][]s2.Point{pts}
	case 11:
		// EXACTLY a hemisphere: points on a coordinate great circle (incl. antipodal pairs) plus the pole
		// on one side / points of that side
		var pts []s2.Point
		ax := r.Intn(3)
		k := 2 + r.Intn(6)
		for i := 0; i < k; i++ {
			t := math.Pi / 4 * float64(r.Intn(8))
			if r.Intn(3) == 0 {
				t = r.Float() * 2 * math.Pi
			}
			v := [3]float64{math.Cos(t), math.Sin(t), 0}
			pts = append(pts, c04Raw(v[ax], v[(ax+1)%3], v[(ax+2)%3]))
		}
		sg := g.c10Sign()
		for i := 0; i < r.Intn(4); i++ {
			v := [3]float64{r.Float()*2 - 1, r.Float()*2 - 1, sg * r.Float()}
			q := s2.PointFromCoords(v[ax], v[(ax+1)%3], v[(ax+2)%3])
			pts = append(pts, q)
		}
		if r.Bool() {
			v := [3]float64{0, 0, sg}
			pts = append(pts, c04Raw(v[ax], v[(ax+1)%3], v[(ax+2)%3]))
		}
		return "P", [][]s2.Point{pts}
	case 5:
		// spread over more than a hemisphere
		k := 4 + r.Intn(20)
		var pts []s2.Point
		for i := 0; i < k; i++ {
			pts = append(pts, g.c04Center())
		}
		return "P", [][]s2.Point{pts}
	case 6:
		// polylines
		var ls [][]s2.Point
		for j := 0; j < 1+r.Intn(3); j++ {
			ls = append(ls, g.c04Star(c, g.c04Radius()*0.4, 2+r.Intn(12), 0.1, false))
		}
		return "Y", ls
	case 7:
		// loops (incl. clockwise = more than a hemisphere, and the empty / full loops)
		var ls [][]s2.Point
		for j := 0; j < 1+r.Intn(2); j++ {
			ls = append(ls, g.c10AnyLoop())
		}
		if r.Intn(6) == 0 {
			ls = append(ls, []s2.Point{c04Raw(0, 0, g.c10Sign())})
		}
		return "L", ls
	case 8:
		for {
			if ls := g.c04Nested(1+r.Intn(3), 3+r.Intn(12)); ls != nil {
				return "G", ls
			}
		}
	case 9:
		// points around a pole / across the antimeridian
		cc := c04Raw(0, 0, g.c10Sign())
		if r.Bool() {
			cc = s2.Point{Vector: r3.Vector{X: -1, Y: g.c10Tiny(), Z: 0.2 * (r.Float() - 0.5)}.Normalize()}
		}
		return "P", [][]s2.Point{g.c04Star(cc, g.c04Radius()*0.6, 3+r.Intn(20), 0.2, false)}
	}
	// generic cloud in a cap of any size up to about a hemisphere; interior points must be dropped
	k := 3 + r.Intn(40)
	rad := g.c04Radius()
	if rad > 1.4 {
		rad = 1.4
	}
	var pts []s2.Point
	for i := 0; i < k; i++ {
		pts = append(pts, g.c10Interior(c, rad, 1)...)
	}
	if r.Intn(3) == 0 {
		pts = c04Snap(pts, 4+r.Intn(20))
	}
	return "P", [][]s2.Point{pts}
}

func genC10(g *G) {
	r := g.rng
	loopsTok := func(ls [][]s2.Point) string {
		t := make([]string, len(ls))
		for i, l := range ls {
			t[i] = ptsTok(l)
		}
		return strings.Join(t, "/")
	}
	// fixed cases (sharded)
	if g.c10Mine() {
		for _, z := range []float64{1, -1} {
			g.emit("bndloop", "N", ptsTok([]s2.Point{c04Raw(0, 0, z)}), ptsTok(append(c10Poles(), c04Raw(1, 0, 0))))
			g.emit("bndloop", "I", ptsTok([]s2.Point{c04Raw(0, 0, z)}), ptsTok(append(c10Poles(), c04Raw(1, 0, 0))))
		}
		g.emit("hull", "P", "-")
		g.emit("hull", "L", ptsTok([]s2.Point{c04Raw(0, 0, 1)}))
		g.emit("hull", "L", ptsTok([]s2.Point{c04Raw(0, 0, -1)}))
		for f := 0; f < 6; f++ {
			id := s2.CellIDFromFace(f)
			g.emit("bndcell", idx(id), ptsTok(g.c10CellProbes(id)))
		}
		for _, l := range c10Regression {
			t := strings.Fields(l)
			g.emit(t[0], t[1:]...)
		}
	}
	for i := 0; i < g.n; i++ {
		switch k := r.Intn(20); {
		case k < 6:
			pts := g.c10AnyLoop()
			mode := "N"
			if r.Intn(4) == 0 {
				mode = "I"
			}
			g.emit("bndloop", mode, ptsTok(pts), ptsTok(g.c10LoopProbes([][]s2.Point{pts}, 120)))
		case k < 8:
			var ls [][]s2.Point
			for ls == nil {
				ls = g.c04Nested(1+r.Intn(3), 3+r.Intn(12))
			}
			g.emit("bndpoly", loopsTok(ls), ptsTok(g.c10LoopProbes(ls, 120)))
		case k < 10:
			// polylines: special chains with exact on-edge points
			var vs []s2.Point
			switch r.Intn(4) {
			case 0:
				// along a meridian plane through the pole (y = 0): every (x,0,z) is exactly on it
				n := 2 + r.Intn(4)
				t := r.Float() * 3
				for j := 0; j < n; j++ {
					vs = append(vs, c04Raw(math.Cos(t), 0, math.Sin(t)))
					t += 0.2 + 2.5*r.Float()
				}
			case 1:
				// along the equator
				n := 2 + r.Intn(4)
				t := r.Float() * 3
				for j := 0; j < n; j++ {
					vs = append(vs, c04Raw(math.Cos(t), math.Sin(t), 0))
					t += 0.2 + 2.5*r.Float()
				}
			case 2:
				l := g.c10AnyLoop()
				vs = l[:len(l)-r.Intn(2)]
			default:
				vs = g.c04Star(g.c04Center(), g.c04Radius(), 1+r.Intn(8), 0.2, false)
			}
			ok := true
			for j := 0; j+1 < len(vs); j++ {
				if vs[j].Vector == vs[j+1].Mul(-1) {
					ok = false
				}
			}
			if !ok {
				continue
			}
			probes := g.c10ChainProbes(vs, false, 80)
			// exact on-edge points for the planar chains: coordinates in the same plane
			for j := 0; j+1 < len(vs); j++ {
				if vs[j].Y == 0 && vs[j+1].Y == 0 {
					for _, x := range c10Extrema(vs[j], vs[j+1]) {
						probes = append(probes, c04Raw(x.X, 0, x.Z), c04Raw(c04Ulp(x.X, r.Intn(5)-2), 0, x.Z))
					}
					m := c04Mid(vs[j], vs[j+1])
					probes = append(probes, c04Raw(m.X, 0, m.Z))
				}
				if vs[j].Z == 0 && vs[j+1].Z == 0 {
					m := c04Mid(vs[j], vs[j+1])
					probes = append(probes, c04Raw(m.X, m.Y, 0), c04Raw(c04Ulp(m.X, r.Intn(5)-2), m.Y, 0))
					for _, x := range c10Extrema(vs[j], vs[j+1]) {
						probes = append(probes, c04Raw(x.X, x.Y, 0))
					}
				}
			}
			probes = append(probes, c10Poles()...)
			g.emit("bndline", ptsTok(vs), ptsTok(probes))
		case k < 12:
			c := g.c10Cap()
			g.emit("bndcap", c10CapTok(c), ptsTok(g.c10CapProbes(c, 100)))
		case k < 14:
			id := g.c10CellID()
			g.emit("bndcell", idx(id), ptsTok(g.c10CellProbes(id)))
		case k < 15:
			var cu s2.CellUnion
			m := 1 + r.Intn(5)
			for j := 0; j < m; j++ {
				cu = append(cu, g.c10CellID())
			}
			if r.Bool() {
				cu.Normalize()
			}
			var probes []s2.Point
			for _, id := range cu {
				ps := g.c10CellProbes(id)
				if len(ps) > 30 {
					ps = ps[:30]
				}
				probes = append(probes, ps...)
			}
			g.emit("bndcu", ids(cu), ptsTok(probes))
		case k < 17 && r.Intn(6) == 0:
			// a strip around the equator that crosses the ANTIMERIDIAN (its longitude interval is inverted) containing a thin triangle
			// with a nearly antipodal edge (whose own bound is full in longitude): ExpandForSubregions of the strip's bound must cover it
			// (seeded change C10_6: longitude span of an inverted interval computed as Hi - Lo)
			ll := func(lat, lng float64) s2.Point { return s2.PointFromLatLng(s2.LatLngFromDegrees(lat, lng)) }
			w := 0.5 + 3*r.Float()        // half height of the strip, degrees
			l0 := 40 + 60*r.Float()       // the strip runs from +l0 through 180 to -l0
			sh := (r.Float()*2 - 1) * 20  // both loops rotated about the z axis by sh degrees would move the crossing: keep |sh| small
			A := []s2.Point{ll(-w, l0+sh), ll(-w, 130+sh), ll(-w, -150+sh), ll(-w, -l0+sh), ll(w, -l0+sh), ll(w, -150+sh), ll(w, 130+sh), ll(w, l0+sh)}
			e := []float64{3e-14, 6e-14, 1e-13, 3e-13, 1e-12, 1e-10, 1e-6}[r.Intn(7)] // degrees short of antipodal: the first ones make B's own bound full
			q := l0 + 5 + (80-l0)*r.Float()*0.5
			// thin triangle on the equator: the edge (0,q) -> (0,q-180-e) runs through longitude 180 and is e degrees short of antipodal
			B := []s2.Point{ll(0, q+sh), ll(0, q-180-e+sh), ll(0.1*w, 180+sh)}
			if !c04Valid(A) || !c04Valid(B) || !c04LoopsDisjoint([][]s2.Point{A, B}) {
				continue
			}
			la, lb := s2.LoopFromPoints(c04Copy(A)), s2.LoopFromPoints(c04Copy(B))
			ok := !s2.VerifLoopBruteForceContainsPoint(lb, A[0])
			for _, v := range B {
				ok = ok && s2.VerifLoopBruteForceContainsPoint(la, v)
			}
			if ok {
				g.emit("bndsub", ptsTok(A), ptsTok(B))
			}
		case k < 17:
			// nested loops A ⊇ B (B strictly inside A; the oracle re-checks exactly)
			c := g.c04Center()
			if r.Intn(3) == 0 {
				// keep away from the poles: the documented guarantee excludes loops containing a pole
				c = s2.Point{Vector: r3.Vector{X: r.Float()*2 - 1, Y: r.Float()*2 - 1, Z: 0.3 * (r.Float()*2 - 1)}.Normalize()}
			}
			rad := g.c04Radius()
			if rad > 1.5 {
				rad = 1.5
			}
			A := g.c04Star(c, rad, 3+r.Intn(10), 0.7, r.Bool())
			var B []s2.Point
			switch r.Intn(4) {
			case 0:
				// B hugging A from inside: contract A radially by a tiny amount about c
				f := 1 - math.Pow(10, -1-14*r.Float())
				for _, p := range A {
					v := c.Mul(1 - f).Add(p.Mul(f))
					B = append(B, s2.Point{Vector: v.Normalize()})
				}
			case 1:
				// a diamond inside a square: midpoints of A's edges pulled in slightly
				f := 1 - math.Pow(10, -1-14*r.Float())
				for j := range A {
					m := c04Mid(A[j], A[(j+1)%len(A)])
					v := c.Mul(1 - f).Add(m.Mul(f))
					B = append(B, s2.Point{Vector: v.Normalize()})
				}
			default:
				B = g.c10Inner(c, rad*0.7, 3+r.Intn(10))
			}
			if !c04Valid(A) || !c04Valid(B) || !c04LoopsDisjoint([][]s2.Point{A, B}) {
				continue
			}
			{
				// B must really be inside A (library predicates; the oracle re-checks exactly)
				la, lb := s2.LoopFromPoints(c04Copy(A)), s2.LoopFromPoints(c04Copy(B))
				ok := !s2.VerifLoopBruteForceContainsPoint(lb, A[0])
				for _, v := range B {
					ok = ok && s2.VerifLoopBruteForceContainsPoint(la, v)
				}
				if !ok {
					continue
				}
			}
			g.emit("bndsub", ptsTok(A), ptsTok(B))
		default:
			kind, ls := g.c10HullPoints()
			g.emit("hull", kind, loopsTok(ls))
		}
	}
}

// c10LongEdgeLoop: a triangle / quadrilateral with one LONG edge (length pi - d, d in 1e-2 .. 1e-9, i.e. nearly
// antipodal endpoints) whose great circle passes within t of a pole (t = 0, denormal, 1e-16 .. 1e-1).
func (g *G) c10LongEdgeLoop() []s2.Point {
	r := g.rng
	zs := g.c10Sign()
	d := math.Pow(10, -2-7*r.Float())
	f := r.Float()
	la, lb := d*f, d*(1-f)
	if r.Intn(3) == 0 {
		// one endpoint on the other side of the equator
		la = -la * r.Float()
		lb = d - la
	}
	l0 := (r.Float()*2 - 1) * math.Pi
	if r.Intn(3) == 0 {
		l0 = 0
	}
	A := c04Raw(math.Cos(la)*math.Cos(l0), math.Cos(la)*math.Sin(l0), zs*math.Sin(la))
	B := c04Raw(-math.Cos(lb)*math.Cos(l0), -math.Cos(lb)*math.Sin(l0), zs*math.Sin(lb))
	var t float64
	switch r.Intn(4) {
	case 0:
		t = 0
	case 1:
		t = g.c10Tiny()
	default:
		t = math.Pow(10, -1-15*r.Float())
	}
	t *= g.c10Sign()
	side := r3.Vector{X: -math.Sin(l0), Y: math.Cos(l0), Z: 0}
	// tilt the great circle: move both endpoints sideways in opposite directions by ~t
	A = s2.Point{Vector: A.Add(side.Mul(t)).Normalize()}
	B = s2.Point{Vector: B.Sub(side.Mul(t * r.Float())).Normalize()}
	C := s2.Point{Vector: r3.Vector{X: side.X, Y: side.Y, Z: zs * (r.Float()*1.5 - 0.5)}.Normalize()}
	pts := []s2.Point{A, B, C}
	if r.Intn(3) == 0 {
		D := s2.Point{Vector: r3.Vector{X: side.X + 0.3*(r.Float()-0.5), Y: side.Y + 0.3*(r.Float()-0.5), Z: zs * (r.Float()*1.5 - 0.5)}.Normalize()}
		pts = []s2.Point{A, B, C, D}
	}
	if r.Intn(4) == 0 {
		pts = c10Rev(pts)
	}
	if A.Vector == B.Mul(-1) || !c04Valid(pts) {
		return nil
	}
	return pts
}

// genC10Long: validation generator for the RectBounder latitude budget (finding F1): only long-edge loops.
func genC10Long(g *G) {
	r := g.rng
	for i := 0; i < g.n; i++ {
		var pts []s2.Point
		for pts == nil {
			pts = g.c10LongEdgeLoop()
		}
		mode := "N"
		if r.Intn(5) == 0 {
			mode = "I"
		}
		probes := g.c10ChainProbes(pts, true, 60)
		for _, p := range c10Poles() {
			probes = append(probes, p, g.c04Nudge(p))
		}
		g.emit("bndloop", mode, ptsTok(pts), ptsTok(probes))
	}
}
