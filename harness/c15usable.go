package main

// Work package c15usable: "a value a decoder returns can be queried" — correspondence between the accessor
// models on the state of a DECODED polygon (Lean: S2Proofs.C15.polygonState = initEdgesAndIndex on the loops
// that the model decoder S2.Codec.decodePolygon returns for the same bytes) and the real accessors of the value
// that Polygon.Decode returns.
//
//   c15shape <hexbytes> = error
//                       | st:<n.hole.origin,…|-> <ne> <nc> <edges> <chains> <positions> <chainedges> <uniq|dup>
//
// (tokens 2..7 as in c06shape, harness/c06a.go; a panic of a single accessor call is "!").  An edge is the pair
// of labels "<loop>.<index>" of its end points; when two decoded vertices coincide the labels are ambiguous:
// the last token is "dup" and the two edge lists are "~".
//
// Generator c15usable: only well-formed inputs with finite, pairwise distinct vertices (so that nothing known —
// D21 — can fire): lossless polygons with loop counts around the linear / cumulativeEdges switch (12 / 13) and
// vertex counts 0, 1, 2, 3, …, with zero-vertex loops first / last / adjacent / before a non-empty loop (the
// class of seeded change C15_5); compressed polygons assembled from library-encoded loops of level-30 cell centres
// interleaved with loops that declare zero vertices (with and without the bound bit), negative depths.

import (
	"bytes"
	"encoding/binary"
	"encoding/hex"
	"fmt"
	"math"
	"strings"

	"github.com/golang/geo/s2"
)

func init() {
	replayers["c15shape"] = c15uReplay
	generators["c15usable"] = c15uGen
}

func c15uReplay(a []string) []string {
	var data []byte
	if a[0] != "~" {
		var err error
		data, err = hex.DecodeString(a[0])
		if err != nil {
			return []string{"ERR-bad-hex"}
		}
	}
	var p s2.Polygon
	if err := p.Decode(bytes.NewReader(data)); err != nil {
		return []string{"error"}
	}
	lab := labeler{}
	uniq := true
	var st []string
	for i, l := range p.Loops() {
		for k, v := range l.Vertices() {
			if _, seen := lab[v]; seen {
				uniq = false
			}
			lab[v] = is(i) + "." + is(k)
		}
		o, d := 0, 0
		if l.ContainsOrigin() {
			o = 1
		}
		if l.IsHole() {
			d = 1
		}
		st = append(st, fmt.Sprintf("%d.%d.%d", l.NumVertices(), d, o))
	}
	res := append([]string{"st:" + joinOr(st, ",")}, dumpShape(&p, lab)...)
	if !uniq {
		// the calls have been made (a panic shows as "!" inside), but the labels cannot be compared
		for _, k := range []int{3, 6} {
			if strings.Contains(res[k], "!") {
				res[k] = "~!"
			} else {
				res[k] = "~"
			}
		}
		return append(res, "dup")
	}
	return append(res, "uniq")
}

// ---------------------------------------------------------------- byte builders

func c15uF64(b *bytes.Buffer, x float64) { binary.Write(b, binary.LittleEndian, math.Float64bits(x)) }
func c15uU32(b *bytes.Buffer, x uint32)  { binary.Write(b, binary.LittleEndian, x) }
func c15uUv(b *bytes.Buffer, x uint64) {
	var buf [binary.MaxVarintLen64]byte
	b.Write(buf[:binary.PutUvarint(buf[:], x)])
}
func c15uRect(b *bytes.Buffer) {
	b.WriteByte(1)
	c15uF64(b, -0.5)
	c15uF64(b, 0.5)
	c15uF64(b, -1)
	c15uF64(b, 1)
}

type c15uLoop struct {
	n      int
	origin bool
	depth  uint32
}

// c15uLossless: loop k gets n distinct points on a small circle of its own (distinct across loops)
func c15uLossless(loops []c15uLoop, hasHoles bool, owns byte) []byte {
	var b bytes.Buffer
	b.WriteByte(1)
	b.WriteByte(owns)
	if hasHoles {
		b.WriteByte(1)
	} else {
		b.WriteByte(0)
	}
	c15uU32(&b, uint32(len(loops)))
	for k, l := range loops {
		b.WriteByte(1)
		c15uU32(&b, uint32(l.n))
		for i := 0; i < l.n; i++ {
			a := 2 * math.Pi * float64(i) / float64(l.n)
			p := s2.PointFromCoords(1, 0.003*math.Cos(a)+0.01*float64(k%60)-0.3, 0.003*math.Sin(a)+0.01*float64(k/60)-0.3)
			c15uF64(&b, p.X)
			c15uF64(&b, p.Y)
			c15uF64(&b, p.Z)
		}
		if l.origin {
			b.WriteByte(1)
		} else {
			b.WriteByte(0)
		}
		c15uU32(&b, l.depth)
		c15uRect(&b)
	}
	c15uRect(&b)
	return b.Bytes()
}

// c15uSnappedLoopBlob: the compressed (snap level 30) encoding of ONE loop of n ≥ 3 distinct level-30 cell
// centres, as the library itself writes it (bytes after the 3-byte polygon header `04 1e 01`); nil if the library
// chose another format.
func c15uSnappedLoopBlob(k, n int) []byte {
	base := s2.CellIDFromFace(k % 6).ChildBeginAtLevel(30)
	var pts []s2.Point
	for i := 0; i < n; i++ {
		// distinct leaf cells, far enough apart to be distinct points; loop k uses its own block
		id := base.Advance(int64(1+k)*1000003 + int64(i)*int64(7001+13*i))
		pts = append(pts, id.Point())
	}
	p := s2.PolygonFromLoops([]*s2.Loop{s2.LoopFromPoints(pts)})
	var b bytes.Buffer
	if err := p.Encode(&b); err != nil {
		return nil
	}
	enc := b.Bytes()
	if len(enc) < 3 || enc[0] != 4 || enc[1] != 30 || enc[2] != 1 {
		return nil
	}
	return enc[3:]
}

// c15uZeroLoopBlob: a compressed loop declaring zero vertices; withBound sets the bound bit (the loop then KEEPS
// zero vertices), otherwise initBound substitutes the one-vertex empty loop.
func c15uZeroLoopBlob(withBound bool, origin bool, depth uint64) []byte {
	var b bytes.Buffer
	c15uUv(&b, 0) // nvertices
	c15uUv(&b, 0) // numOffCenter (no face runs, no points for 0 vertices)
	props := uint64(0)
	if origin {
		props |= 1
	}
	if withBound {
		props |= 2
	}
	c15uUv(&b, props)
	c15uUv(&b, depth)
	if withBound {
		c15uRect(&b)
	}
	return b.Bytes()
}

func c15uCompressed(blobs [][]byte) []byte {
	var b bytes.Buffer
	b.WriteByte(4)
	b.WriteByte(30)
	c15uUv(&b, uint64(len(blobs)))
	for _, bl := range blobs {
		b.Write(bl)
	}
	return b.Bytes()
}

// ---------------------------------------------------------------- generator

func c15uGen(g *G) {
	r := g.rng
	k := 0
	emit := func(data []byte) {
		mine := k%g.shardM == g.shardK
		k++
		if !mine {
			return
		}
		if len(data) == 0 {
			g.emit("c15shape", "~")
		} else {
			g.emit("c15shape", hex.EncodeToString(data))
		}
	}
	sizes := []int{0, 1, 2, 3, 4, 7}
	randLoop := func() c15uLoop {
		return c15uLoop{sizes[r.Intn(len(sizes))], r.Bool(), uint32(r.Intn(4))}
	}
	// ---- fixed boundary cases (every shard plan contains them; emitted by the owning shard)
	emit(c15uLossless(nil, false, 0))
	emit(c15uLossless(nil, true, 7))
	for _, n := range []int{0, 1, 2, 3} {
		for _, o := range []bool{false, true} {
			emit(c15uLossless([]c15uLoop{{n, o, 0}}, false, 1))
			emit(c15uLossless([]c15uLoop{{n, o, 0xffffffff}}, true, 1))
		}
	}
	for _, nl := range []int{2, 11, 12, 13, 14, 20, 40} {
		for variant := 0; variant < 8; variant++ {
			ls := make([]c15uLoop, nl)
			for i := range ls {
				switch variant {
				case 0: // all zero-vertex loops
					ls[i] = c15uLoop{0, false, 0}
				case 1: // all one-vertex loops
					ls[i] = c15uLoop{1, i%2 == 0, uint32(i)}
				case 2: // zero-vertex loop first
					ls[i] = c15uLoop{3, false, uint32(i)}
					if i == 0 {
						ls[i].n = 0
					}
				case 3: // zero-vertex loop last
					ls[i] = c15uLoop{3, false, uint32(i)}
					if i == nl-1 {
						ls[i].n = 0
					}
				case 4: // two adjacent zero-vertex loops followed by a non-empty one (C15_5 class)
					ls[i] = c15uLoop{2 + i%3, i%3 == 0, uint32(i)}
					if i == nl/2 || i == nl/2-1 {
						ls[i].n = 0
					}
				case 5: // alternating 0 / 1 / 2 vertices
					ls[i] = c15uLoop{i % 3, i%2 == 1, uint32(i % 2)}
				case 6: // no degenerate loop at all
					ls[i] = c15uLoop{3 + i%4, false, uint32(i % 2)}
				default:
					ls[i] = randLoop()
				}
			}
			emit(c15uLossless(ls, variant%2 == 0, byte(variant)))
		}
	}
	// ---- compressed: degenerate loops only
	emit(c15uCompressed(nil))
	emit(c15uCompressed([][]byte{c15uZeroLoopBlob(false, false, 3)}))
	emit(c15uCompressed([][]byte{c15uZeroLoopBlob(true, true, 1<<63+1)}))
	emit(c15uCompressed([][]byte{c15uZeroLoopBlob(true, false, 0), c15uZeroLoopBlob(true, true, 5)}))
	for _, nl := range []int{12, 13, 20} {
		var bl [][]byte
		for i := 0; i < nl; i++ {
			bl = append(bl, c15uZeroLoopBlob(true, i%2 == 0, uint64(i)))
		}
		emit(c15uCompressed(bl))
	}
	// ---- compressed: library-encoded snapped loops interleaved with zero-vertex loops (labels stay unique as long
	// as at most one loop is the substituted empty loop)
	for _, nl := range []int{1, 2, 5, 12, 13, 14, 24} {
		for variant := 0; variant < 4; variant++ {
			var bl [][]byte
			usedEmpty := false
			ok := true
			for i := 0; i < nl; i++ {
				sel := (i + variant) % 4
				switch {
				case sel == 1 && variant > 0: // zero vertices, bound bit set: stays a zero-vertex loop
					bl = append(bl, c15uZeroLoopBlob(true, i%2 == 0, uint64(i)|uint64(variant&1)<<63))
				case sel == 3 && variant == 3 && !usedEmpty: // becomes the one-vertex empty loop
					usedEmpty = true
					bl = append(bl, c15uZeroLoopBlob(false, true, 9))
				default:
					b := c15uSnappedLoopBlob(nl*100+i, 3+(i+variant)%5)
					if b == nil {
						ok = false
					}
					bl = append(bl, b)
				}
			}
			if ok {
				emit(c15uCompressed(bl))
			}
		}
	}
	// ---- random lossless polygons, both search paths
	for it := 0; it < g.n*g.shardM; it++ {
		nl := r.Intn(18)
		switch r.Intn(6) {
		case 0:
			nl = 11 + r.Intn(4)
		case 1:
			nl = 1 + r.Intn(2)
		case 2:
			nl = 13 + r.Intn(50)
		}
		ls := make([]c15uLoop, nl)
		for i := range ls {
			ls[i] = randLoop()
		}
		emit(c15uLossless(ls, r.Bool(), byte(r.Intn(256))))
	}
}
