package main

// Property C08: closest / furthest edge queries equal an exhaustive scan.
//
// ops
//   c08cover <cells>                                   = <covering> <flags>
//       initCovering on a bare sorted list of index cell ids (hook VerifCoveringOfCells).
//   c08eq <min|max> <index> <target> <k> <lim> <err> <int> <in> <out>
//       = <path> <inner> <thrsz> <nedges> <cells> <cov> <covflags> <zero> <inf> <all> <intr>
//         <opt> <bf> <dO> <dB> <thr> <cons>
//       index  : shapes joined by '|', each  L:<pts> (loop, has an interior) | Y:<pts> (polyline) |
//                P:<pts> (point vector); <pts> = points joined by ','; point = 48 hex digits (x,y,z bits)
//       target : p:<pt> | e:<pt>,<pt> | c:<cellid> | i:<index>
//       k      : MaxResults (0 = leave the default "all")
//       lim    : DistanceLimit as chord-angle bits, '-' = leave the default
//       err    : MaxError as chord-angle bits
//       int    : IncludeInteriors
//       in/out : shape ids that by construction contain / do not contain the point where interiors
//                are tested (only for point targets; '?' = unknown). Ignored by the replayer, read
//                by the oracle.
//   results: path = O if the non-brute-force query object really ran the optimized search, else B;
//       inner = same for the inner query of a shape-index target ('-' otherwise); thrsz =
//       maxBruteForceIndexSize of the target type; all = the distance of EVERY edge of the index to
//       the target, computed edge by edge through the target's own updateDistanceToEdge
//       (d:shape:edge); intr = shapes reported by visitContainingShapes; opt / bf = FindEdges through
//       the public API without / with UseBruteForce; dO / dB = Distance; thr = threshold tests
//       t:opt:bf (IsDistanceLess for min, IsDistanceGreater for max) at the predecessor, the value
//       and the successor of the exhaustive optimum and at 0 / 4; cons = IsConservativeDistance
//       LessOrEqual / GreaterOrEqual at the same thresholds.

import (
	"fmt"
	"math"
	"sort"
	"strings"

	"github.com/golang/geo/r3"
	"github.com/golang/geo/s1"
	"github.com/golang/geo/s2"
)

func init() {
	replayers["c08cover"] = replayC08Cover
	replayers["c08eq"] = replayC08Eq
	generators["c08"] = genC08
	generators["c08fixed"] = genC08Fixed
}

// ---------- encoding ----------

func c08Pt(p s2.Point) string { return fx(p.X) + fx(p.Y) + fx(p.Z) }
func c08PPt(s string) s2.Point {
	if len(s) != 48 {
		panic("bad point " + s)
	}
	return s2.Point{Vector: r3.Vector{X: pF(s[0:16]), Y: pF(s[16:32]), Z: pF(s[32:48])}}
}
func c08Pts(ps []s2.Point) string {
	out := make([]string, len(ps))
	for i, p := range ps {
		out[i] = c08Pt(p)
	}
	return strings.Join(out, ",")
}
func c08PPts(s string) []s2.Point {
	var out []s2.Point
	if s == "" {
		return out
	}
	for _, t := range strings.Split(s, ",") {
		out = append(out, c08PPt(t))
	}
	return out
}

type c08Shape struct {
	kind byte // L Y P
	pts  []s2.Point
}

func c08IndexSpec(shapes []c08Shape) string {
	out := make([]string, len(shapes))
	for i, s := range shapes {
		out[i] = string(s.kind) + ":" + c08Pts(s.pts)
	}
	return strings.Join(out, "|")
}

func c08BuildIndex(spec string) (*s2.ShapeIndex, []s2.Shape) {
	idx := s2.NewShapeIndex()
	var shapes []s2.Shape
	for _, t := range strings.Split(spec, "|") {
		pts := c08PPts(t[2:])
		var sh s2.Shape
		switch t[0] {
		case 'L':
			sh = s2.LoopFromPoints(pts)
		case 'Y':
			pl := s2.Polyline(pts)
			sh = &pl
		case 'P':
			pv := s2.PointVector(pts)
			sh = &pv
		default:
			panic("bad shape kind")
		}
		idx.Add(sh)
		shapes = append(shapes, sh)
	}
	return idx, shapes
}

func c08Target(kind, spec string) s2.VerifDistanceTarget {
	min := kind == "min"
	switch spec[0] {
	case 'p':
		p := c08PPt(spec[2:])
		if min {
			return s2.NewMinDistanceToPointTarget(p)
		}
		return s2.NewMaxDistanceToPointTarget(p)
	case 'e':
		ps := c08PPts(spec[2:])
		e := s2.Edge{V0: ps[0], V1: ps[1]}
		if min {
			return s2.NewMinDistanceToEdgeTarget(e)
		}
		return s2.NewMaxDistanceToEdgeTarget(e)
	case 'c':
		c := s2.CellFromCellID(s2.CellID(pU64(spec[2:])))
		if min {
			return s2.NewMinDistanceToCellTarget(c)
		}
		return s2.NewMaxDistanceToCellTarget(c)
	case 'i':
		tidx, _ := c08BuildIndex(spec[2:])
		if min {
			return s2.NewMinDistanceToShapeIndexTarget(tidx)
		}
		return s2.NewMaxDistanceToShapeIndexTarget(tidx)
	}
	panic("bad target")
}

func c08Res(rs []s2.EdgeQueryResult) string {
	if len(rs) == 0 {
		return "-"
	}
	out := make([]string, len(rs))
	for i, r := range rs {
		out[i] = fmt.Sprintf("%s:%d:%d", fx(float64(r.Distance())), r.ShapeID(), r.EdgeID())
	}
	return strings.Join(out, ",")
}

func c08Flags(b []bool) string {
	if len(b) == 0 {
		return "-"
	}
	var sb strings.Builder
	for _, x := range b {
		sb.WriteString(bs(x))
	}
	return sb.String()
}

// ---------- replayers ----------

func replayC08Cover(a []string) []string {
	cells := pIDs(a[0])
	cov, fl := s2.VerifCoveringOfCells(cells)
	return []string{ids(cov), c08Flags(fl)}
}

func replayC08Eq(a []string) []string {
	kind, ispec, tspec := a[0], a[1], a[2]
	k := pI(a[3])
	lim, errB, interiors := a[4], a[5], a[6] == "T"
	min := kind == "min"
	idx, shapes := c08BuildIndex(ispec)
	mkOpts := func(bf bool) *s2.EdgeQueryOptions {
		var o *s2.EdgeQueryOptions
		if min {
			o = s2.NewClosestEdgeQueryOptions()
		} else {
			o = s2.NewFurthestEdgeQueryOptions()
		}
		if k > 0 {
			o.MaxResults(k)
		}
		if lim != "-" {
			o.DistanceLimit(s1.ChordAngle(pF(lim)))
		}
		o.MaxError(s1.ChordAngle(pF(errB)))
		o.IncludeInteriors(interiors)
		o.UseBruteForce(bf)
		return o
	}
	mkQuery := func(bf bool) *s2.EdgeQuery {
		if min {
			return s2.NewClosestEdgeQuery(idx, mkOpts(bf))
		}
		return s2.NewFurthestEdgeQuery(idx, mkOpts(bf))
	}
	mkTarget := func(bf bool) s2.VerifDistanceTarget {
		t := c08Target(kind, tspec)
		if bf {
			s2.VerifTargetSetInner(t, true, true)
		}
		return t
	}

	// optimized-or-default path
	qo := mkQuery(false)
	to := mkTarget(false)
	ro := c08Res(qo.FindEdges(to))
	path, inner := "B", "-"
	if s2.VerifEdgeQueryRanOptimized(qo) {
		path = "O"
	}
	if tspec[0] == 'i' {
		inner = "B"
		if s2.VerifTargetInnerRanOptimized(to) {
			inner = "O"
		}
	}
	cov, covfl := s2.VerifEdgeQueryIndexCovering(qo)
	// brute force path
	qb := mkQuery(true)
	rb := c08Res(qb.FindEdges(mkTarget(true)))

	// exhaustive scan, edge by edge, with a fresh exact target whose inner query is brute force
	truth := mkTarget(true)
	zero, inf := s2.VerifDistanceSentinels(truth)
	var all []string
	nedges := 0
	best := inf
	for sid, sh := range shapes {
		for e := 0; e < sh.NumEdges(); e++ {
			nedges++
			d, ok := s2.VerifTargetEdgeDistance(truth, sh.Edge(e))
			if !ok {
				d = inf
			}
			all = append(all, fmt.Sprintf("%s:%d:%d", fx(float64(d)), sid, e))
			if (min && d < best) || (!min && d > best) {
				best = d
			}
		}
	}
	var intr []string
	for _, id := range s2.VerifTargetContainingShapes(mkTarget(true), idx) {
		intr = append(intr, is(int(id)))
	}
	sort.Slice(intr, func(i, j int) bool { return pI(intr[i]) < pI(intr[j]) })
	if interiors && len(intr) > 0 {
		best = zero
	}

	dO := qo.Distance(mkTarget(false))
	dB := qb.Distance(mkTarget(true))

	// thresholds around the exhaustive optimum
	var ts []s1.ChordAngle
	if best >= 0 && best <= 4 {
		ts = append(ts, best.Predecessor(), best, best.Successor())
	}
	ts = append(ts, 0, s1.StraightChordAngle, s1.ChordAngle(1e-15), s1.ChordAngle(math.Nextafter(4, 0)))
	var thr, cons []string
	for _, t := range ts {
		if t < 0 || t > 4 {
			continue
		}
		var o1, b1, o2, b2 bool
		if min {
			o1 = qo.IsDistanceLess(mkTarget(false), t)
			b1 = qb.IsDistanceLess(mkTarget(true), t)
			o2 = qo.IsConservativeDistanceLessOrEqual(mkTarget(false), t)
			b2 = qb.IsConservativeDistanceLessOrEqual(mkTarget(true), t)
		} else {
			o1 = qo.IsDistanceGreater(mkTarget(false), t)
			b1 = qb.IsDistanceGreater(mkTarget(true), t)
			o2 = qo.IsConservativeDistanceGreaterOrEqual(mkTarget(false), t)
			b2 = qb.IsConservativeDistanceGreaterOrEqual(mkTarget(true), t)
		}
		thr = append(thr, fx(float64(t))+":"+bs(o1)+":"+bs(b1))
		cons = append(cons, fx(float64(t))+":"+bs(o2)+":"+bs(b2))
	}
	return []string{path, inner, is(s2.VerifMaxBruteForceIndexSize(truth)), is(nedges),
		ids(s2.VerifIndexCellIDs(idx)), ids(cov), c08Flags(covfl),
		fx(float64(zero)), fx(float64(inf)), joinOr(all, ","), joinOr(intr, ","),
		ro, rb, fx(float64(dO)), fx(float64(dB)), joinOr(thr, ","), joinOr(cons, ",")}
}

// ---------- generators ----------

func c08LL(lat, lng float64) s2.Point { return s2.PointFromLatLng(s2.LatLngFromDegrees(lat, lng)) }

var c08FaceCentres = []s2.Point{
	{Vector: r3.Vector{X: 1}}, {Vector: r3.Vector{Y: 1}}, {Vector: r3.Vector{Z: 1}},
	{Vector: r3.Vector{X: -1}}, {Vector: r3.Vector{Y: -1}}, {Vector: r3.Vector{Z: -1}},
}

// c08Frame returns an orthonormal frame (x, y, z=c).
func c08Frame(c s2.Point) (x, y r3.Vector) {
	x = c.Ortho()
	y = c.Cross(x).Normalize()
	return
}

// c08Ring: n points at angular radius r (radians) around c, counter-clockwise; if star > 0 every
// second vertex is pulled in to radius r*star (a non-self-intersecting star polygon).
func c08Ring(c s2.Point, r float64, n int, phase, star float64) []s2.Point {
	x, y := c08Frame(c)
	out := make([]s2.Point, n)
	for i := 0; i < n; i++ {
		rr := r
		if star > 0 && i%2 == 1 {
			rr = r * star
		}
		a := phase + 2*math.Pi*float64(i)/float64(n)
		v := c.Mul(math.Cos(rr)).Add(x.Mul(math.Sin(rr) * math.Cos(a))).Add(y.Mul(math.Sin(rr) * math.Sin(a)))
		out[i] = s2.Point{Vector: v.Normalize()}
	}
	return out
}

func (g *G) c08RandPoint() s2.Point {
	r := g.rng
	for {
		v := r3.Vector{X: 2*r.Float() - 1, Y: 2*r.Float() - 1, Z: 2*r.Float() - 1}
		if n := v.Norm2(); n > 0.01 && n <= 1 {
			return s2.Point{Vector: v.Normalize()}
		}
	}
}

// c08Near: a point at angular distance about d from c in a random direction.
func (g *G) c08Near(c s2.Point, d float64) s2.Point {
	return c08Ring(c, d, 1, 2*math.Pi*g.rng.Float(), 0)[0]
}

type c08Disc struct {
	shape  int
	centre s2.Point
	rOut   float64 // every vertex within rOut of the centre
	rIn    float64 // the disc of radius rIn around the centre is inside the loop
}

type c08Index struct {
	shapes []c08Shape
	discs  []c08Disc
	edges  int
}

func (ix *c08Index) addLoop(c s2.Point, r float64, n int, phase, star float64) {
	pts := c08Ring(c, r, n, phase, star)
	rIn := r * math.Cos(math.Pi/float64(n)) * 0.98
	if star > 0 {
		rIn = r * star * math.Cos(2*math.Pi/float64(n)) * 0.9
	}
	ix.discs = append(ix.discs, c08Disc{len(ix.shapes), c, r * 1.0000001, rIn})
	ix.shapes = append(ix.shapes, c08Shape{'L', pts})
	ix.edges += n
}

// c08SplitEdges splits total into parts pieces, each >= minPer.
func (g *G) c08SplitEdges(total, parts, minPer int) []int {
	if parts*minPer > total {
		parts = total / minPer
		if parts == 0 {
			parts = 1
		}
	}
	out := make([]int, parts)
	rest := total - parts*minPer
	for i := range out {
		out[i] = minPer
	}
	for ; rest > 0; rest-- {
		out[g.rng.Intn(parts)]++
	}
	return out
}

// c08MakeIndex builds an index with about `total` edges on `nfaces` chosen faces.
func (g *G) c08MakeIndex(total, nfaces, style int) *c08Index {
	r := g.rng
	ix := &c08Index{}
	perm := []int{0, 1, 2, 3, 4, 5}
	for i := 5; i > 0; i-- {
		j := r.Intn(i + 1)
		perm[i], perm[j] = perm[j], perm[i]
	}
	faces := perm[:nfaces]
	switch style {
	case 0: // regular / star loops, one or more per face, kept inside their face
		minPer := 3
		nshapes := nfaces * (1 + r.Intn(3))
		if nshapes*minPer > total {
			nshapes = total / minPer
		}
		if nshapes < nfaces {
			nshapes = nfaces
		}
		parts := g.c08SplitEdges(total, nshapes, minPer)
		for i, n := range parts {
			f := faces[i%nfaces]
			slot := i / nfaces // up to 3 loops per face at separated positions
			c := c08FaceCentres[f]
			x, y := c08Frame(c)
			off := [][2]float64{{0, 0}, {0.35, 0.1}, {-0.3, -0.3}}[slot%3]
			cc := s2.Point{Vector: c.Vector.Add(x.Mul(off[0])).Add(y.Mul(off[1])).Normalize()}
			rad := 0.02 + 0.1*r.Float()
			if slot == 0 && r.Intn(4) == 0 {
				rad = 0.3 + 0.2*r.Float()
			}
			if slot > 0 && rad > 0.12 {
				rad = 0.12
			}
			star := 0.0
			if n >= 6 && n%2 == 0 && r.Intn(3) == 0 {
				star = 0.5 + 0.4*r.Float()
			}
			ix.addLoop(cc, rad, n, r.Float(), star)
		}
	case 1: // one big loop spanning many faces
		c := g.c08RandPoint()
		rad := []float64{0.9, 1.3, 1.5, 0.5}[r.Intn(4)]
		if nfaces == 1 {
			c = c08FaceCentres[faces[0]]
			rad = 0.4
		}
		star := 0.0
		if total%2 == 0 && total >= 8 && r.Bool() {
			star = 0.8
		}
		ix.addLoop(c, rad, total, r.Float(), star)
	case 2: // point cloud
		var pts []s2.Point
		for i := 0; i < total; i++ {
			f := faces[i%nfaces]
			pts = append(pts, g.c08Near(c08FaceCentres[f], 0.6*r.Float()))
		}
		ix.shapes = append(ix.shapes, c08Shape{'P', pts})
		ix.edges += total
	case 3: // polylines: arcs of small circles around face centres, plus a long one through the faces
		parts := g.c08SplitEdges(total, nfaces, 1)
		for i, n := range parts {
			c := c08FaceCentres[faces[i%nfaces]]
			pts := c08Ring(c, 0.1+0.5*r.Float(), n+2, r.Float(), 0)[:n+1]
			ix.shapes = append(ix.shapes, c08Shape{'Y', pts})
			ix.edges += n
		}
	case 4: // small loops around cube vertices / edge midpoints (cells straddle faces) + loops on faces
		parts := g.c08SplitEdges(total, 2+r.Intn(4), 3)
		for i, n := range parts {
			var c s2.Point
			switch i % 3 {
			case 0:
				c = s2.Point{Vector: r3.Vector{X: float64(1 - 2*r.Intn(2)), Y: float64(1 - 2*r.Intn(2)), Z: float64(1 - 2*r.Intn(2))}.Normalize()}
			case 1:
				c = s2.Point{Vector: c08FaceCentres[r.Intn(6)].Add(c08FaceCentres[r.Intn(6)].Vector).Add(r3.Vector{X: 1e-3}).Normalize()}
			default:
				c = c08FaceCentres[faces[i%nfaces]]
			}
			// keep the loops disjoint: tiny radii, distinct centres by a deterministic nudge
			c = s2.Point{Vector: c.Add(r3.Vector{X: 0.013 * float64(i), Y: -0.007 * float64(i)}).Normalize()}
			ix.addLoop(c, 0.004+0.002*r.Float(), n, r.Float(), 0)
		}
	}
	return ix
}

type c08Tgt struct {
	spec string
	in   string // by-construction containing shapes (point targets), "?" if unknown
	out  string
}

func (g *G) c08ClassifyPoint(ix *c08Index, p s2.Point, kind string) (string, string) {
	q := p
	if kind == "max" {
		q = s2.Point{Vector: p.Mul(-1)}
	}
	var in, out []string
	for _, d := range ix.discs {
		a := float64(q.Distance(d.centre))
		if a < d.rIn {
			in = append(in, is(d.shape))
		} else if a > d.rOut*1.001+1e-9 {
			out = append(out, is(d.shape))
		}
	}
	// shapes without interior never contain anything; a full loop contains everything
	for i, s := range ix.shapes {
		if s.kind != 'L' {
			out = append(out, is(i))
		} else if len(s.pts) == 1 {
			if s.pts[0].Z < 0 {
				in = append(in, is(i))
			} else {
				out = append(out, is(i))
			}
		}
	}
	return joinOr(in, ","), joinOr(out, ",")
}

func (g *G) c08SomeVertex(ix *c08Index) s2.Point {
	for {
		s := ix.shapes[g.rng.Intn(len(ix.shapes))]
		if len(s.pts) >= 2 {
			return s.pts[g.rng.Intn(len(s.pts))]
		}
	}
}

func (g *G) c08PointTarget(ix *c08Index, kind string) c08Tgt {
	r := g.rng
	var p s2.Point
	switch r.Intn(8) {
	case 0:
		p = g.c08RandPoint()
	case 1: // centre of a polygon (inside)
		if len(ix.discs) > 0 {
			p = ix.discs[r.Intn(len(ix.discs))].centre
		} else {
			p = g.c08RandPoint()
		}
	case 2: // on a vertex
		p = g.c08SomeVertex(ix)
	case 3: // antipode of a vertex or of a centre
		p = s2.Point{Vector: g.c08SomeVertex(ix).Mul(-1)}
		if len(ix.discs) > 0 && r.Bool() {
			p = s2.Point{Vector: ix.discs[r.Intn(len(ix.discs))].centre.Mul(-1)}
		}
	case 4: // just off a vertex
		p = g.c08Near(g.c08SomeVertex(ix), math.Pow(10, -1-8*r.Float()))
	case 5: // inside a polygon, off centre
		if len(ix.discs) > 0 {
			d := ix.discs[r.Intn(len(ix.discs))]
			p = g.c08Near(d.centre, d.rIn*r.Float()*0.9)
		} else {
			p = g.c08RandPoint()
		}
	case 6: // a face centre / cube vertex
		p = c08FaceCentres[r.Intn(6)]
	default: // moderately near the index
		p = g.c08Near(g.c08SomeVertex(ix), 0.3*r.Float())
	}
	in, out := g.c08ClassifyPoint(ix, p, kind)
	return c08Tgt{"p:" + c08Pt(p), in, out}
}

func (g *G) c08EdgeTarget(ix *c08Index) c08Tgt {
	r := g.rng
	var a, b s2.Point
	switch r.Intn(6) {
	case 0: // random, possibly long
		a, b = g.c08RandPoint(), g.c08RandPoint()
	case 1: // crossing the boundary of a polygon: centre -> far outside
		if len(ix.discs) > 0 {
			d := ix.discs[r.Intn(len(ix.discs))]
			a, b = d.centre, g.c08Near(d.centre, math.Min(d.rOut*2.5, 3))
		} else {
			a, b = g.c08SomeVertex(ix), g.c08RandPoint()
		}
	case 2: // touching: shares a vertex with the index
		a = g.c08SomeVertex(ix)
		b = g.c08Near(a, 0.2*r.Float())
	case 3: // far, short
		a = s2.Point{Vector: g.c08SomeVertex(ix).Mul(-1)}
		b = g.c08Near(a, 0.05)
	case 4: // short, near
		a = g.c08Near(g.c08SomeVertex(ix), 0.1*r.Float())
		b = g.c08Near(a, 0.01)
	default: // between two vertices of the index
		a, b = g.c08SomeVertex(ix), g.c08SomeVertex(ix)
	}
	if a == b || a.Vector == b.Mul(-1) {
		b = g.c08Near(a, 0.1)
	}
	return c08Tgt{"e:" + c08Pt(a) + "," + c08Pt(b), "?", "?"}
}

func (g *G) c08CellTarget(ix *c08Index) c08Tgt {
	r := g.rng
	var c s2.CellID
	switch r.Intn(6) {
	case 0:
		c = g.randCellAt(r.Intn(31))
	case 1: // a face or a big cell (contains shapes)
		c = s2.CellIDFromFace(r.Intn(6))
		if r.Bool() {
			c = c.Children()[r.Intn(4)]
		}
	case 2: // cell at a vertex of the index, some level
		c = s2.CellFromPoint(g.c08SomeVertex(ix)).ID().Parent(r.Intn(31))
	case 3: // leaf cell at a vertex
		c = s2.CellFromPoint(g.c08SomeVertex(ix)).ID()
	case 4: // cell at a polygon centre (inside)
		if len(ix.discs) > 0 {
			c = s2.CellFromPoint(ix.discs[r.Intn(len(ix.discs))].centre).ID().Parent(5 + r.Intn(20))
		} else {
			c = g.randCellAt(10)
		}
	default: // antipodal cell
		c = s2.CellFromPoint(s2.Point{Vector: g.c08SomeVertex(ix).Mul(-1)}).ID().Parent(r.Intn(20))
	}
	return c08Tgt{"c:" + idx(c), "?", "?"}
}

func (g *G) c08IndexTarget(ix *c08Index) c08Tgt {
	r := g.rng
	total := []int{3, 8, 24, 25, 26, 31, 40, 80}[r.Intn(8)]
	t := &c08Index{}
	switch r.Intn(16) {
	case 14: // a target without edges
		return c08Tgt{"i:P:", "?", "?"}
	case 15: // a single point
		return c08Tgt{"i:P:" + c08Pt(g.c08Near(g.c08SomeVertex(ix), 0.2*r.Float())), "?", "?"}
	}
	switch r.Intn(5) {
	case 0: // near a vertex of the index (usually disjoint)
		c := g.c08Near(g.c08SomeVertex(ix), 0.05+0.3*r.Float())
		t.addLoop(c, 0.01+0.05*r.Float(), total, r.Float(), 0)
	case 1: // overlapping a polygon of the index
		if len(ix.discs) > 0 {
			d := ix.discs[r.Intn(len(ix.discs))]
			t.addLoop(g.c08Near(d.centre, d.rOut), d.rOut*(0.3+r.Float()), total, r.Float(), 0)
		} else {
			t.addLoop(g.c08SomeVertex(ix), 0.05, total, r.Float(), 0)
		}
	case 2: // strictly inside a polygon of the index
		if len(ix.discs) > 0 {
			d := ix.discs[r.Intn(len(ix.discs))]
			t.addLoop(d.centre, d.rIn*0.5, total, r.Float(), 0)
		} else {
			t.addLoop(g.c08RandPoint(), 0.1, total, r.Float(), 0)
		}
	case 3: // far away polyline
		c := s2.Point{Vector: g.c08SomeVertex(ix).Mul(-1)}
		pts := c08Ring(c, 0.2, total+2, r.Float(), 0)[:total+1]
		t.shapes = append(t.shapes, c08Shape{'Y', pts})
	default: // several shapes on several faces
		t = g.c08MakeIndex(total, 1+r.Intn(3), []int{0, 2, 3}[r.Intn(3)])
	}
	return c08Tgt{"i:" + c08IndexSpec(t.shapes), "?", "?"}
}

func (g *G) c08OneCase(kind string, ix *c08Index, ispec string, tg c08Tgt) {
	r := g.rng
	// a first exhaustive probe to learn the distances (for limits "about the true distance")
	probe := replayC08Eq([]string{kind, ispec, tg.spec, "0", "-", fx(0), "F", "?", "?"})
	bfList := probe[12]
	var ds []float64
	if bfList != "-" {
		for _, t := range strings.Split(bfList, ",") {
			ds = append(ds, pF(strings.SplitN(t, ":", 2)[0]))
		}
	}
	ks := []int{1, 2, 5, 0}
	errs := []float64{0, float64(s1.ChordAngleFromAngle(1e-9)), float64(s1.ChordAngleFromAngle(0.01)), float64(s1.ChordAngleFromAngle(0.5))}
	nopt := 3
	if g.thorough {
		nopt = 8
	}
	for c := 0; c < nopt; c++ {
		k := ks[r.Intn(4)]
		e := errs[r.Intn(4)]
		if r.Intn(3) == 0 {
			e = 0
		}
		lim := "-"
		switch r.Intn(7) {
		case 0: // tiny
			if kind == "min" {
				lim = fx(1e-12)
			} else {
				lim = fx(math.Nextafter(4, 0))
			}
		case 1, 2: // about a true distance +- ulps
			if len(ds) > 0 {
				pick := []int{0, 1, 4, len(ds) - 1}[r.Intn(4)]
				if pick >= len(ds) {
					pick = len(ds) - 1
				}
				d := s1.ChordAngle(ds[pick])
				switch r.Intn(3) {
				case 0:
					d = d.Predecessor()
				case 1:
					d = d.Successor()
				}
				if d >= 0 && !d.IsInfinity() {
					lim = fx(float64(d))
				}
			}
		case 3: // huge
			if kind == "min" {
				lim = fx(float64(s1.StraightChordAngle))
				if r.Bool() {
					lim = fx(float64(s1.StraightChordAngle.Successor()))
				}
			} else {
				lim = fx(0)
			}
		case 4: // moderate
			lim = fx(float64(s1.ChordAngleFromAngle(s1.Angle(0.05 + 1.5*r.Float()))))
		}
		g.emit("c08eq", kind, ispec, tg.spec, is(k), lim, fx(e), bs(r.Bool()), tg.in, tg.out)
	}
}

func genC08(g *G) {
	r := g.rng
	// (1) coverings of bare cell lists: real index shapes and synthetic lists
	ncover := g.n / 2
	for i := 0; i < ncover; i++ {
		cells := g.disjointCells()
		if len(cells) == 0 {
			continue
		}
		g.emit("c08cover", ids(cells))
	}
	// face-structured lists: k faces, 1..3 cells per face at mixed levels
	for i := 0; i < ncover/2; i++ {
		var raw []s2.CellID
		nf := 1 + r.Intn(6)
		for f := 0; f < 6; f++ {
			if r.Intn(6) >= nf {
				continue
			}
			c := s2.CellIDFromFace(f)
			for k := 1 + r.Intn(3); k > 0; k-- {
				d := c
				for l := r.Intn(6); l > 0; l-- {
					d = d.Children()[r.Intn(4)]
				}
				raw = append(raw, d)
			}
		}
		sort.Slice(raw, func(i, j int) bool {
			return raw[i].RangeMin() < raw[j].RangeMin() || (raw[i].RangeMin() == raw[j].RangeMin() && raw[i].RangeMax() > raw[j].RangeMax())
		})
		var out []s2.CellID
		for _, c := range raw {
			if len(out) == 0 || c.RangeMin() > out[len(out)-1].RangeMax() {
				out = append(out, c)
			}
		}
		if len(out) > 0 {
			g.emit("c08cover", ids(out))
		}
	}
	// (2) query equivalence
	totals := []int{3, 12, 24, 25, 26, 27, 29, 30, 31, 32, 33, 48, 64, 120, 300}
	if g.thorough {
		totals = append(totals, 600, 1500)
	}
	ncase := g.n / 6
	for i := 0; i < ncase; i++ {
		total := totals[r.Intn(len(totals))]
		nfaces := 1 + r.Intn(6)
		style := []int{0, 0, 0, 1, 2, 3, 4}[r.Intn(7)]
		ix := g.c08MakeIndex(total, nfaces, style)
		switch r.Intn(12) {
		case 0: // a shape without edges
			ix.shapes = append(ix.shapes, c08Shape{'P', nil})
		case 1: // the full loop: no edges, contains everything
			ix.shapes = append(ix.shapes, c08Shape{'L', []s2.Point{{Vector: r3.Vector{Z: -1}}}})
		case 2: // the empty loop
			ix.shapes = append(ix.shapes, c08Shape{'L', []s2.Point{{Vector: r3.Vector{Z: 1}}}})
		}
		ispec := c08IndexSpec(ix.shapes)
		kind := "min"
		if r.Intn(3) == 0 {
			kind = "max"
		}
		var tg c08Tgt
		switch r.Intn(8) {
		case 0, 1, 2:
			tg = g.c08PointTarget(ix, kind)
		case 3, 4:
			tg = g.c08EdgeTarget(ix)
		case 5:
			tg = g.c08CellTarget(ix)
		default:
			tg = g.c08IndexTarget(ix)
		}
		g.c08OneCase(kind, ix, ispec, tg)
	}
}

// genC08Fixed emits the pinned cases of the repaired defects D7, D9, D10 (they are stored, as op
// lines, in corpus/C08/fixed_D7_D9_D10.txt).
func genC08Fixed(g *G) {
	f := func(i int) s2.CellID { return s2.CellIDFromFace(i) }
	// D7: stray break in initCovering
	g.emit("c08cover", ids([]s2.CellID{f(0), f(1), f(3)}))
	g.emit("c08cover", ids([]s2.CellID{f(0), f(1), f(2), f(3), f(4), f(5)}))
	ch := f(2).Children()
	g.emit("c08cover", ids([]s2.CellID{ch[0], ch[1], ch[3]}))
	g.emit("c08cover", ids([]s2.CellID{ch[0].Children()[2], ch[1], ch[2].Children()[0], ch[2].Children()[3], ch[3]}))
	deg := math.Pi / 180
	ix := &c08Index{}
	for _, c := range []s2.Point{c08LL(0, 0), c08LL(0, 90), c08LL(0, 180), c08LL(0, -90), c08LL(90, 0)} {
		ix.addLoop(c, 5*deg, 16, 0, 0)
	}
	g.emit("c08eq", "min", c08IndexSpec(ix.shapes), "p:"+c08Pt(c08LL(0, 170)), "3", "-", fx(0), "F", "-", "0,1,2,3,4")
	g.emit("c08eq", "max", c08IndexSpec(ix.shapes), "p:"+c08Pt(c08LL(0, 170)), "3", "-", fx(0), "F", "-", "0,1,2,3,4")
	// D9: inverted duplicate filter (shape-index target, MaxError > 0, MaxResults > 1, optimized path)
	one := &c08Index{}
	one.addLoop(c08LL(0, 0), 5*deg, 64, 0, 0)
	t9 := &c08Index{}
	t9.addLoop(c08LL(0, 20), 5*deg, 64, 0, 0)
	g.emit("c08eq", "min", c08IndexSpec(one.shapes), "i:"+c08IndexSpec(t9.shapes), "5", "-", fx(float64(s1.ChordAngleFromAngle(0.01))), "F", "?", "?")
	g.emit("c08eq", "max", c08IndexSpec(one.shapes), "i:"+c08IndexSpec(t9.shapes), "5", "-", fx(float64(s1.ChordAngleFromAngle(0.01))), "F", "?", "?")
	// D10: MinDistanceToShapeIndexTarget.capBound negated the centre
	t10 := &c08Index{}
	t10.addLoop(c08LL(3, 11), 1*deg, 100, 0, 0)
	g.emit("c08eq", "min", c08IndexSpec(one.shapes), "i:"+c08IndexSpec(t10.shapes), "0", fx(float64(s1.ChordAngleFromAngle(s1.Angle(8*deg)))), fx(0), "F", "?", "?")
	g.emit("c08eq", "min", c08IndexSpec(one.shapes), "i:"+c08IndexSpec(t10.shapes), "1", fx(float64(s1.ChordAngleFromAngle(s1.Angle(8*deg)))), fx(0), "F", "?", "?")
}
