package main

// Property C13: answers of queries depend only on the current geometry and the
// caller's options, never on the call history; no sequence hangs or panics.
//
// One line per history:
//
//	c13 <loopVerts> <polyKind> <polyVerts> <op>,<op>,... = <tok> <tok> ...
//
// Every step of a history is executed on long-lived objects (one Loop, one
// Polygon, one ShapeIndex, at most one EdgeQuery); every answering step is
// compared with the same question asked of FRESH objects built by the shortest
// path from the current geometry and the user's options.
//
// Remove: `rm:<k>` removes the k-th shape PRESENT in the index (the object that was added is handed to
// ShapeIndex.Remove).  Shape ids are never reused, so ids never appear in an answer: every shape is named by its
// position among the present shapes (c13IDPos), on the long-lived side and on the fresh side (a new index holding
// exactly the present shapes).  Every `query` step also asks one long-lived CrossingEdgeQuery / ContainsPointQuery
// (c13LongLivedAnswer) and compares with a new query object per question.
//
// Histories are executed in a child process (`harness c13child`) so that a
// self-deadlock or runtime abort of the library can never hang the harness.

import (
	"bufio"
	"bytes"
	"fmt"
	"io"
	"math"
	"os"
	"os/exec"
	"path/filepath"
	"sort"
	"strconv"
	"strings"
	"sync"
	"time"

	"github.com/golang/geo/s1"
	"github.com/golang/geo/s2"
)

func init() {
	if len(os.Args) > 1 && os.Args[1] == "c13child" {
		c13ChildMain()
		os.Exit(0)
	}
	replayers["c13"] = func(a []string) []string {
		if len(a) != 4 {
			return []string{"ERR-arity"}
		}
		return c13RunOne(a)
	}
	generators["c13"] = genC13
	// c13reuse <n1> <n2> <k>: Loop OBJECTS reused across polygons.  A polygon is built from a shell (n1 vertices) with a hole
	// (n2 vertices); then the HOLE's *Loop object (k=1) or the SHELL's (k=0) is used as the only loop of a second polygon.  The
	// second polygon must answer exactly like one built from a fresh loop with the same vertices ("same"), whatever the loop
	// object was part of before (seeded changes C07_4 / C18_4: depth not reset).
	replayers["c13reuse"] = func(a []string) []string {
		n1, n2, k := pI(a[0]), pI(a[1]), pI(a[2])
		ctr := c13LL(20, -60)
		shell := s2.RegularLoop(ctr, s1.Angle(12)*s1.Degree, n1)
		hole := s2.RegularLoop(ctr, s1.Angle(4)*s1.Degree, n2)
		p1 := s2.PolygonFromLoops([]*s2.Loop{shell, hole})
		_ = p1.ContainsPoint(ctr) // use it once (may build indexes)
		obj := shell
		if k == 1 {
			obj = hole
		}
		reused := s2.PolygonFromLoops([]*s2.Loop{obj})
		fresh := s2.PolygonFromLoops([]*s2.Loop{s2.LoopFromPoints(append([]s2.Point(nil), obj.Vertices()...))})
		desc := func(p *s2.Polygon) string {
			var b strings.Builder
			fmt.Fprintf(&b, "%d:%v:%v:%016x:", p.NumLoops(), p.Loop(0).IsHole(), p.Loop(0).Sign(), math.Float64bits(p.Area()))
			for _, d := range [][2]float64{{20, -60}, {20, -53}, {20, -45}, {-20, 120}, {89, 0}} {
				b.WriteString(bs(p.ContainsPoint(c13LL(d[0], d[1]))))
			}
			rb := p.RectBound()
			fmt.Fprintf(&b, ":%v:%016x", rb.IsEmpty(), math.Float64bits(rb.Lat.Lo))
			return b.String()
		}
		dr, df := desc(reused), desc(fresh)
		if dr == df {
			return []string{"same"}
		}
		return []string{"differs", dr, df}
	}
}

// ---------------------------------------------------------------------------
// Menus (fixed geometry; everything is a deterministic function of the name).

func c13LL(lat, lng float64) s2.Point {
	return s2.PointFromLatLng(s2.LatLngFromDegrees(lat, lng))
}

var c13ShapeNames = []string{"E", "P0", "P1", "P2", "P3", "L0", "L1", "L2", "L3", "F", "G"}

var c13LoopCentres = map[string][2]float64{
	"L0": {10, 20},   // face 0
	"L1": {12, 23},   // overlaps L0 (boundaries cross)
	"L2": {-30, -40}, // inside G, does not contain the tracker origin
	"L3": {60, 120},  // face 2
}

var c13Polylines = map[string][][2]float64{
	"P0": {{10, 10}, {10, 18}, {10, 22}, {10, 30}},         // runs through L0 (and L1)
	"P1": {{-10, 100}, {-12, 104}, {-8, 108}, {-10, 112}},  // far from everything
	"P2": {{-30, -50}, {-30, -42}, {-30, -38}, {-30, -30}}, // runs through L2, inside G
	"P3": {{40, 40}, {50, 50}, {60, 100}, {50, 140}},       // long edges over several faces, crosses L3
}

// c13Shape returns a NEW object for the menu name (nil if unknown).
func c13Shape(name string) s2.Shape {
	if c, ok := c13LoopCentres[name]; ok {
		return s2.RegularLoop(c13LL(c[0], c[1]), 5*s1.Degree, 64)
	}
	if v, ok := c13Polylines[name]; ok {
		pl := make(s2.Polyline, len(v))
		for i, q := range v {
			pl[i] = c13LL(q[0], q[1])
		}
		return &pl
	}
	switch name {
	case "E":
		return &s2.Polyline{}
	case "F":
		return s2.FullPolygon()
	case "G":
		return s2.RegularLoop(s2.VerifTrackerOrigin(), 20*s1.Degree, 64)
	}
	return nil
}

// index probes
var c13IdxPoints = [][2]float64{
	{10, 20}, {12, 23}, {11, 21.5}, {-30, -40}, {60, 120}, {-35, -44}, {-60, 100},
}
var c13IdxEdges = [][4]float64{
	{10, 12, 10, 28},     // through L0, L1 edge region, along P0
	{5, 20, 18, 24},      // crosses L0, L1, P0
	{-35, -80, -25, -10}, // crosses G twice, L2, P2
	{55, 100, 65, 140},   // crosses L3, P3
}

// edge query targets
var c13TargetNames = []string{"tp0", "tp1", "tp2", "te0", "ti0"}

// index targets: initial contents of the target's own ShapeIndex (names of c13TShape)
var c13TIMenu = map[string][]string{
	// small loops at clearly different distances from everything indexed, so that an approximate answer (a
	// target that still carries the maxError of an earlier threshold call, defect D49) differs from the exact one
	"ti0": {"Z0", "Z1", "Z2", "Z3", "Z4", "Z5", "Z6", "Z7", "Z8", "Z9"},
	// one loop far from everything: fewer edges than the brute-force threshold of the target's own query
	"ti1": {"Y0"},
	// an empty target index
	"ti2": {},
}

// shapes that live in TARGET indexes (initial contents and tadd)
var c13TShapeNames = []string{"T0", "T1", "T2", "T3", "TP", "TE"}

// c13TShape returns a NEW object for a target-shape name (nil if unknown).
func c13TShape(name string) s2.Shape {
	small := func(lat, lng float64, n int) s2.Shape {
		return s2.RegularLoop(c13LL(lat, lng), s1.Angle(0.3)*s1.Degree, n)
	}
	if len(name) == 2 && name[0] == 'Z' && name[1] >= '0' && name[1] <= '9' {
		k := int(name[1] - '0')
		return small(float64(24+3*k), float64(31+(k*17)%23), 12)
	}
	switch name {
	case "Y0":
		return small(-50, 150, 12)
	case "T0":
		return small(10, 26, 6) // 0.6 degrees outside L0
	case "T1":
		return small(10.2, 20.3, 6) // inside L0 (and L1)
	case "T2":
		return small(-30, -40.5, 6) // inside L2 and G
	case "T3":
		return small(10, 26, 12) // as T0; with this one the stale covering of D51 shows on the current tree
	case "TP":
		return &s2.Polyline{c13LL(11, 10), c13LL(11, 12), c13LL(11, 14)} // one degree north of P0
	case "TE":
		return &s2.Polyline{}
	}
	return nil
}

func c13TShapeTok(name string) string {
	sh := c13TShape(name)
	if sh == nil {
		c13Bad("bad-tshape-%s", name)
	}
	t := 0
	if s2.VerifShapeTracked(sh) {
		t = 1
	}
	return fmt.Sprintf("%d.%d", sh.NumEdges(), t)
}

func c13TaddOp(name string) string {
	f := strings.Split(c13TShapeTok(name), ".")
	return "tadd:" + name + ":" + f[0] + ":" + f[1]
}

func c13TargetKind(name string) string {
	switch {
	case strings.HasPrefix(name, "tp"):
		return "point"
	case strings.HasPrefix(name, "te"):
		return "edge"
	case strings.HasPrefix(name, "ti"):
		return "index"
	}
	return ""
}

// c13NewTgtOp is the canonical token that creates the target object `name`.
func c13NewTgtOp(name string) string {
	kind := c13TargetKind(name)
	shapes := "-"
	if l, ok := c13TIMenu[name]; ok && len(l) > 0 {
		var toks []string
		for _, n := range l {
			toks = append(toks, c13TShapeTok(n))
		}
		shapes = strings.Join(toks, "/")
	}
	return "newtgt:" + name + ":" + kind + ":" + shapes
}

// c13Tgt is one target OBJECT of a history together with what the caller did to it.
type c13Tgt struct {
	name   string
	obj    s2.VerifDistanceTarget
	index  *s2.ShapeIndex // index targets: the target's own index
	shapes []string       // index targets: names of the shapes added so far
	set    bool           // tset was called
	ii, bf bool
}

// c13MakeTgt builds a NEW target object: stateless ones by name, index targets over a new (unbuilt) index holding shapes.
func c13MakeTgt(name string, shapes []string) *c13Tgt {
	t := &c13Tgt{name: name}
	if c13TargetKind(name) == "index" {
		t.index = s2.NewShapeIndex()
		for _, n := range shapes {
			sh := c13TShape(n)
			if sh == nil {
				c13Bad("bad-tshape-%s", n)
			}
			t.index.Add(sh)
		}
		t.shapes = append([]string(nil), shapes...)
		t.obj = s2.NewMinDistanceToShapeIndexTarget(t.index)
		return t
	}
	t.obj = c13Target(name)
	if t.obj == nil {
		return nil
	}
	return t
}

// fresh rebuilds target index + target from the current shape list and the caller's settings.
func (t *c13Tgt) fresh() s2.VerifDistanceTarget {
	n := c13MakeTgt(t.name, t.shapes)
	if t.set {
		s2.VerifTargetSetInner(n.obj, t.ii, t.bf)
	}
	return n.obj
}

func c13Target(name string) s2.VerifDistanceTarget {
	switch name {
	case "tp0":
		return s2.NewMinDistanceToPointTarget(c13LL(10, 27)) // outside L0, near
	case "tp1":
		return s2.NewMinDistanceToPointTarget(c13LL(10, 20)) // centre of L0
	case "tp2":
		return s2.NewMinDistanceToPointTarget(c13LL(-50, 150)) // far from everything
	case "te0":
		// crosses the boundary of L0 only (stays clear of P0 and L1, so that the zero
		// distance is not tied between two shapes)
		return s2.NewMinDistanceToEdgeTarget(s2.Edge{V0: c13LL(14, 12), V1: c13LL(11, 17.5)})
	}
	if l, ok := c13TIMenu[name]; ok {
		// another ShapeIndex as target.  The target object is REUSED within a history (c13State.targets).
		return c13MakeTgt(name, l).obj
	}
	return nil
}

// the Loop object of a history
var c13LoopCentre = [2]float64{20, -60}

// loopVerts >= 1000 selects the POLAR variant with loopVerts-1000 vertices: a loop around the north pole,
// so that its bound touches a pole (Invert then has to recompute the bound through ContainsPoint(pole)).
func c13NewLoop(n int) *s2.Loop {
	if n >= 1000 {
		return s2.RegularLoop(c13LL(80, 30), 15*s1.Degree, n-1000)
	}
	return s2.RegularLoop(c13LL(c13LoopCentre[0], c13LoopCentre[1]), 5*s1.Degree, n)
}

var c13LoopPoints = [][2]float64{
	{20, -60}, {22, -60}, {20, -56}, {24.9, -60}, {25.2, -60}, {20, -50}, {-20, 120}, {-80, 10},
	{90, 0}, {-90, 0}, {85, 100}, {60, 30}, {66, 30}, {-89.9, 77},
}

func c13LoopCells() []s2.Cell {
	c := s2.CellIDFromLatLng(s2.LatLngFromDegrees(c13LoopCentre[0], c13LoopCentre[1]))
	b := s2.CellIDFromLatLng(s2.LatLngFromDegrees(c13LoopCentre[0]+5, c13LoopCentre[1]))
	f := s2.CellIDFromLatLng(s2.LatLngFromDegrees(-40, 120))
	return []s2.Cell{
		s2.CellFromCellID(c.Parent(3)), s2.CellFromCellID(c.Parent(6)), s2.CellFromCellID(c.Parent(9)),
		s2.CellFromCellID(c.Parent(14)), s2.CellFromCellID(b.Parent(7)), s2.CellFromCellID(b.Parent(12)),
		s2.CellFromCellID(f.Parent(4)), s2.CellFromCellID(f.Parent(0)),
	}
}

// the Polygon object of a history
var c13PolyCentre = [2]float64{-10, 60}

func c13NewPolygon(kind string, n int) *s2.Polygon {
	switch kind {
	case "empty":
		return s2.PolygonFromLoops(nil)
	case "full":
		return s2.FullPolygon()
	case "normal":
		return s2.PolygonFromLoops([]*s2.Loop{s2.RegularLoop(c13LL(c13PolyCentre[0], c13PolyCentre[1]), 10*s1.Degree, n)})
	}
	return nil
}

var c13PolyPoints = [][2]float64{
	{-10, 60}, {-5, 60}, {-10, 66}, {-0.2, 60}, {0.3, 60}, {-10, 75}, {10, -120}, {80, 10},
}

// ---------------------------------------------------------------------------
// Option / op encoding

const c13DefaultEQ = "neweq:2147483647:inf:v0:1:0"

type c13Opts struct {
	maxResults int
	limit      s1.ChordAngle
	limitInf   bool
	maxError   s1.ChordAngle
	incl       bool
	brute      bool
}

type c13BadArg string

func c13Bad(f string, a ...interface{}) { panic(c13BadArg(fmt.Sprintf(f, a...))) }

func c13Chord(s string) s1.ChordAngle {
	if !strings.HasPrefix(s, "v") {
		c13Bad("bad-chord-%s", s)
	}
	d, err := strconv.ParseFloat(s[1:], 64)
	if err != nil {
		c13Bad("bad-chord-%s", s)
	}
	return s1.ChordAngleFromAngle(s1.Angle(d) * s1.Degree)
}

func c13Bool(s string) bool {
	switch s {
	case "0":
		return false
	case "1":
		return true
	}
	c13Bad("bad-bool-%s", s)
	return false
}

func c13ParseOpts(f []string) c13Opts {
	if len(f) != 6 {
		c13Bad("neweq-arity")
	}
	var o c13Opts
	n, err := strconv.Atoi(f[1])
	if err != nil {
		c13Bad("bad-maxresults")
	}
	o.maxResults = n
	if f[2] == "inf" {
		o.limitInf = true
		o.limit = s1.InfChordAngle()
	} else {
		o.limit = c13Chord(f[2])
	}
	o.maxError = c13Chord(f[3])
	o.incl = c13Bool(f[4])
	o.brute = c13Bool(f[5])
	return o
}

// build makes a brand-new options object from the user's values.
func (o c13Opts) build() *s2.EdgeQueryOptions {
	opts := s2.NewClosestEdgeQueryOptions()
	if o.maxResults != math.MaxInt32 {
		opts.MaxResults(o.maxResults)
	}
	if !o.limitInf {
		opts.DistanceLimit(o.limit)
	}
	opts.MaxError(o.maxError)
	opts.IncludeInteriors(o.incl)
	opts.UseBruteForce(o.brute)
	return opts
}

func (o c13Opts) holds(e *s2.EdgeQuery) bool {
	mr, dl, me, in, br := s2.VerifEdgeQueryOpts(e)
	return mr == o.maxResults && dl == o.limit && me == o.maxError && in == o.incl && br == o.brute
}

var c13AddOpCache = map[string]string{}

func c13AddOp(name string) string {
	if s, ok := c13AddOpCache[name]; ok {
		return s
	}
	sh := c13Shape(name)
	t := 0
	if s2.VerifShapeTracked(sh) {
		t = 1
	}
	s := fmt.Sprintf("add:%s:%d:%d", name, sh.NumEdges(), t)
	c13AddOpCache[name] = s
	return s
}

var c13ThrCache = map[string]int{}

func c13CallOp(kind, target string, l int) string {
	thr, ok := c13ThrCache[target]
	if !ok {
		thr = s2.VerifMaxBruteForceIndexSize(c13Target(target))
		c13ThrCache[target] = thr
	}
	switch kind {
	case "fes", "fe", "dist":
		return fmt.Sprintf("call:%s:%s:%d", kind, target, thr)
	}
	return fmt.Sprintf("call:%s:%s:%d:%d", kind, target, thr, l)
}

// ---------------------------------------------------------------------------
// Executing histories (child side)

type c13State struct {
	targets map[string]*c13Tgt // EdgeQuery targets are objects that live for the whole history (until the next newtgt of the name)
	curT    *c13Tgt            // the target object of the last newtgt (tadd / tset act on it)
	loop    *s2.Loop
	poly    *s2.Polygon
	index   *s2.ShapeIndex
	names   []string   // shapes PRESENT in the index (added since the last reset and not removed), in id order
	objs    []s2.Shape // the very objects added (parallel to names)
	ids     []int32    // the ids Add returned for them (parallel to names); ids are never reused
	eq      *s2.EdgeQuery
	xq      *s2.CrossingEdgeQuery  // long-lived: created at the first `query` after an index change (add / rm / reset)
	cq      *s2.ContainsPointQuery // long-lived, likewise
	user    c13Opts
	debug   bool
	curOp   string
}

func c13NewState(a []string) *c13State {
	lv, err1 := strconv.Atoi(a[0])
	pv, err2 := strconv.Atoi(a[2])
	if err1 != nil || err2 != nil || lv < 3 || pv < 3 {
		c13Bad("bad-params")
	}
	st := &c13State{loop: c13NewLoop(lv), poly: c13NewPolygon(a[1], pv), index: s2.NewShapeIndex(), targets: map[string]*c13Tgt{}}
	if st.poly == nil {
		c13Bad("bad-polykind-%s", a[1])
	}
	if (a[1] == "empty") != st.poly.IsEmpty() || (a[1] == "full") != st.poly.IsFull() {
		c13Bad("polykind-not-%s", a[1])
	}
	st.debug = os.Getenv("C13_DEBUG") != ""
	return st
}

func c13ShapeIdx(objs []s2.Shape, sh s2.Shape) int {
	for i, o := range objs {
		if o == sh {
			return i
		}
	}
	return -1
}

// c13IDPos names a shape id by IDENTITY: its position in the list of present shapes (ids = nil: a fresh index,
// whose ids are the positions).  An id that belongs to no present shape is printed as "?<id>".
func c13IDPos(ids []int32, id int32) string {
	if ids == nil {
		return strconv.Itoa(int(id))
	}
	for i, x := range ids {
		if x == id {
			return strconv.Itoa(i)
		}
	}
	return fmt.Sprintf("?%d", id)
}

// Query edges for the REUSED CrossingEdgeQuery, ordered so that an earlier answer with few crossings is followed by
// a question about low-numbered edges of the same small shape (<= 27 edges: the brute-force candidate path of
// CrossingEdgeQuery.candidates): P0 edge 1 then edge 0 then edge 2, P2 likewise, P3, and the loops (index path).
var c13LLEdges = [][4]float64{
	{5, 20, 18, 24},          // P0 edge 1 (and L0, L1)
	{5, 14, 15, 14.5},        // P0 edge 0
	{5, 26, 15, 26.5},        // P0 edge 2 (and L1)
	{-35, -40.5, -25, -39.5}, // P2 edge 1 (and L2)
	{-35, -46, -25, -45.5},   // P2 edge 0
	{40, 45, 50, 44},         // P3 edge 0
	{-35, -80, -25, -10},     // G twice, L2, P2
	{55, 100, 65, 140},       // L3, P3
	{5, 14, 15, 14.5},        // P0 edge 0 again
}

// c13LongLivedAnswer asks ONE CrossingEdgeQuery and ONE ContainsPointQuery object (xq, cq) a fixed sequence of
// questions; with xq == nil / cq == nil every single question goes to a NEW query object.  The answer of a reused
// query object must not depend on the questions it answered before.
func c13LongLivedAnswer(index *s2.ShapeIndex, objs []s2.Shape, xq *s2.CrossingEdgeQuery, cq *s2.ContainsPointQuery) string {
	var b strings.Builder
	X := func() *s2.CrossingEdgeQuery {
		if xq != nil {
			return xq
		}
		return s2.NewCrossingEdgeQuery(index)
	}
	C := func() *s2.ContainsPointQuery {
		if cq != nil {
			return cq
		}
		return s2.NewContainsPointQuery(index, s2.VertexModelSemiOpen)
	}
	for _, e := range c13LLEdges {
		p, q := c13LL(e[0], e[1]), c13LL(e[2], e[3])
		for i, sh := range objs {
			for _, ct := range []s2.CrossingType{s2.CrossingTypeInterior, s2.CrossingTypeAll} {
				r := append([]int(nil), X().Crossings(p, q, sh, ct)...)
				sort.Ints(r)
				fmt.Fprintf(&b, "x%d%v", i, r)
			}
		}
		m := X().CrossingsEdgeMap(p, q, s2.CrossingTypeInterior)
		var l []string
		for sh, edges := range m {
			ed := append([]int(nil), edges...)
			sort.Ints(ed)
			l = append(l, fmt.Sprintf("%03d%v", c13ShapeIdx(objs, sh), ed))
		}
		sort.Strings(l)
		fmt.Fprintf(&b, "m%v;", l)
	}
	for _, pt := range c13IdxPoints {
		p := c13LL(pt[0], pt[1])
		var l []int
		for _, sh := range C().ContainingShapes(p) {
			l = append(l, c13ShapeIdx(objs, sh))
		}
		sort.Ints(l)
		fmt.Fprintf(&b, "p%v", l)
		for _, sh := range objs {
			b.WriteString(bs(C().ShapeContains(sh, p)))
		}
		b.WriteByte(';')
	}
	return b.String()
}

// c13IndexAnswer evaluates the fixed probe set on an index with NEW query objects.  Shapes are named by identity
// (position in objs / ids), never by raw id.
func c13IndexAnswer(index *s2.ShapeIndex, objs []s2.Shape, ids []int32) string {
	var b strings.Builder
	cq := s2.NewContainsPointQuery(index, s2.VertexModelSemiOpen)
	for _, p := range c13IdxPoints {
		var l []int
		for _, sh := range cq.ContainingShapes(c13LL(p[0], p[1])) {
			l = append(l, c13ShapeIdx(objs, sh))
		}
		sort.Ints(l)
		fmt.Fprintf(&b, "P%v;", l)
	}
	xq := s2.NewCrossingEdgeQuery(index)
	for _, e := range c13IdxEdges {
		m := xq.CrossingsEdgeMap(c13LL(e[0], e[1]), c13LL(e[2], e[3]), s2.CrossingTypeAll)
		var l []string
		for sh, edges := range m {
			ed := append([]int(nil), edges...)
			sort.Ints(ed)
			l = append(l, fmt.Sprintf("%03d%v", c13ShapeIdx(objs, sh), ed))
		}
		sort.Strings(l)
		fmt.Fprintf(&b, "X%v;", l)
	}
	for it := index.Iterator(); !it.Done(); it.Next() {
		fmt.Fprintf(&b, "C%016x", uint64(it.CellID()))
		cids, ne, cc := s2.VerifIndexCellShapes(it.IndexCell())
		for i := range cids {
			fmt.Fprintf(&b, "/%s.%d.%v", c13IDPos(ids, cids[i]), ne[i], cc[i])
		}
		b.WriteByte(';')
	}
	return b.String()
}

func c13FreshIndex(names []string) (*s2.ShapeIndex, []s2.Shape) {
	index := s2.NewShapeIndex()
	var objs []s2.Shape
	for _, n := range names {
		sh := c13Shape(n)
		index.Add(sh)
		objs = append(objs, sh)
	}
	return index, objs
}

func c13ResStr(r s2.EdgeQueryResult, ids []int32) string {
	sid := "-1"
	if r.ShapeID() >= 0 {
		sid = c13IDPos(ids, r.ShapeID())
	}
	return fmt.Sprintf("%s/%d/%016x", sid, r.EdgeID(), math.Float64bits(float64(r.Distance())))
}

// c13DoCall: fresh = false uses the target object of this history (created at first use unless a newtgt did);
// fresh = true rebuilds target index + target from the object's current shape list and settings.
// ids: the ids of the present shapes of the queried index (nil for a fresh index): results name shapes by identity.
func c13DoCall(e *s2.EdgeQuery, f []string, cache map[string]*c13Tgt, fresh bool, ids []int32) string {
	kind, tname := f[1], f[2]
	tg := cache[tname]
	if tg == nil {
		tg = c13MakeTgt(tname, c13TIMenu[tname])
		if tg == nil {
			c13Bad("bad-target-%s", tname)
		}
		cache[tname] = tg
	}
	t := tg.obj
	if fresh {
		t = tg.fresh()
	}
	if thr, err := strconv.Atoi(f[3]); err != nil || thr != s2.VerifMaxBruteForceIndexSize(t) {
		c13Bad("bad-thr-%s", f[3])
	}
	var lim s1.ChordAngle
	switch kind {
	case "fes", "fe", "dist":
		if len(f) != 4 {
			c13Bad("call-arity")
		}
	default:
		if len(f) != 5 {
			c13Bad("call-arity")
		}
		d, err := strconv.ParseFloat(f[4], 64)
		if err != nil {
			c13Bad("bad-limit-%s", f[4])
		}
		lim = s1.ChordAngleFromAngle(s1.Angle(d) * s1.Degree)
	}
	switch kind {
	case "fes":
		var l []string
		for _, r := range e.FindEdges(t) {
			l = append(l, c13ResStr(r, ids))
		}
		return fmt.Sprintf("%d%v", len(l), l)
	case "fe":
		return c13ResStr(s2.VerifFindEdge(e, t), ids)
	case "dist":
		return fmt.Sprintf("%016x", math.Float64bits(float64(e.Distance(t))))
	case "less":
		return bs(e.IsDistanceLess(t, lim))
	case "greater":
		return bs(e.IsDistanceGreater(t, lim))
	case "consle":
		return bs(e.IsConservativeDistanceLessOrEqual(t, lim))
	case "consge":
		return bs(e.IsConservativeDistanceGreaterOrEqual(t, lim))
	}
	c13Bad("bad-kind-%s", kind)
	return ""
}

func c13LoopContains(l *s2.Loop) string {
	var b strings.Builder
	for _, p := range c13LoopPoints {
		b.WriteString(bs(l.ContainsPoint(c13LL(p[0], p[1]))))
	}
	return b.String()
}

func c13LoopCellsAnswer(l *s2.Loop) string {
	var b strings.Builder
	for _, c := range c13LoopCells() {
		b.WriteString(bs(l.ContainsCell(c)))
		b.WriteString(bs(l.IntersectsCell(c)))
		b.WriteByte('.')
	}
	return b.String()
}

func c13PolyContains(p *s2.Polygon) string {
	var b strings.Builder
	for _, q := range c13PolyPoints {
		b.WriteString(bs(p.ContainsPoint(c13LL(q[0], q[1]))))
	}
	return b.String()
}

func c13FreshPolygon(p *s2.Polygon) *s2.Polygon {
	if p.IsFull() {
		return s2.FullPolygon()
	}
	if p.IsEmpty() {
		return s2.PolygonFromLoops(nil)
	}
	var loops []*s2.Loop
	for _, l := range p.Loops() {
		loops = append(loops, s2.LoopFromPoints(append([]s2.Point(nil), l.Vertices()...)))
	}
	return s2.PolygonFromLoops(loops)
}

// exec runs one step on the long-lived objects. kind: 0 no answer, 1 answer, 2 answer + optsok.
func (st *c13State) exec(op string) (answer string, kind int, optsok bool) {
	f := strings.Split(op, ":")
	switch f[0] {
	case "add":
		if len(f) != 4 {
			c13Bad("add-arity")
		}
		sh := c13Shape(f[1])
		if sh == nil {
			c13Bad("bad-shape-%s", f[1])
		}
		if c13AddOp(f[1]) != op {
			c13Bad("add-mismatch-want-%s", c13AddOp(f[1]))
		}
		id := st.index.Add(sh)
		st.names = append(st.names, f[1])
		st.objs = append(st.objs, sh)
		st.ids = append(st.ids, id)
		st.eq, st.xq, st.cq = nil, nil, nil
		return "", 0, false
	case "rm":
		// rm:<k>: Remove the k-th shape present in the index (k from 0), named by the object that was added
		if len(f) != 2 {
			c13Bad("rm-arity")
		}
		k, err := strconv.Atoi(f[1])
		if err != nil || k < 0 || k >= len(st.objs) {
			c13Bad("rm-no-such-shape-%s", f[1])
		}
		st.index.Remove(st.objs[k])
		st.names = append(append([]string(nil), st.names[:k]...), st.names[k+1:]...)
		st.objs = append(append([]s2.Shape(nil), st.objs[:k]...), st.objs[k+1:]...)
		st.ids = append(append([]int32(nil), st.ids[:k]...), st.ids[k+1:]...)
		st.eq, st.xq, st.cq = nil, nil, nil
		return "", 0, false
	case "build":
		st.index.Build()
		return "", 0, false
	case "reset":
		st.index.Reset()
		st.names, st.objs, st.ids, st.eq, st.xq, st.cq = nil, nil, nil, nil, nil, nil
		return "", 0, false
	case "query":
		a := c13IndexAnswer(st.index, st.objs, st.ids)
		if st.xq == nil {
			st.xq = s2.NewCrossingEdgeQuery(st.index)
			st.cq = s2.NewContainsPointQuery(st.index, s2.VertexModelSemiOpen)
		}
		return a + "|LL|" + c13LongLivedAnswer(st.index, st.objs, st.xq, st.cq), 1, false
	case "neweq":
		st.user = c13ParseOpts(f)
		st.eq = s2.NewClosestEdgeQuery(st.index, st.user.build())
		return "", 0, false
	case "call":
		if st.eq == nil {
			c13Bad("call-without-query")
		}
		if len(f) < 4 {
			c13Bad("call-arity")
		}
		a := c13DoCall(st.eq, f, st.targets, false, st.ids)
		return a, 2, st.user.holds(st.eq)
	case "newtgt":
		if len(f) != 4 {
			c13Bad("newtgt-arity")
		}
		if c13TargetKind(f[1]) == "" || (c13TargetKind(f[1]) == "index" && c13TIMenu[f[1]] == nil) {
			c13Bad("bad-target-%s", f[1])
		}
		if c13NewTgtOp(f[1]) != op {
			c13Bad("newtgt-mismatch-want-%s", c13NewTgtOp(f[1]))
		}
		tg := c13MakeTgt(f[1], c13TIMenu[f[1]])
		if tg == nil {
			c13Bad("bad-target-%s", f[1])
		}
		st.targets[f[1]] = tg
		st.curT = tg
		return "", 0, false
	case "tadd":
		if len(f) != 4 {
			c13Bad("tadd-arity")
		}
		if st.curT == nil || st.curT.index == nil {
			c13Bad("tadd-without-index-target")
		}
		if c13TaddOp(f[1]) != op {
			c13Bad("tadd-mismatch-want-%s", c13TaddOp(f[1]))
		}
		st.curT.index.Add(c13TShape(f[1]))
		st.curT.shapes = append(st.curT.shapes, f[1])
		return "", 0, false
	case "tset":
		if len(f) != 3 {
			c13Bad("tset-arity")
		}
		if st.curT == nil || st.curT.index == nil {
			c13Bad("tset-without-index-target")
		}
		st.curT.set, st.curT.ii, st.curT.bf = true, c13Bool(f[1]), c13Bool(f[2])
		s2.VerifTargetSetInner(st.curT.obj, st.curT.ii, st.curT.bf)
		return "", 0, false
	case "eqreset":
		if st.eq == nil {
			c13Bad("eqreset-without-query")
		}
		st.eq.Reset()
		return "", 0, false
	case "inv":
		st.loop.Invert()
		return "", 0, false
	case "lcontains":
		return c13LoopContains(st.loop), 1, false
	case "lcell":
		return c13LoopCellsAnswer(st.loop), 1, false
	case "pinv":
		st.poly.Invert()
		return "", 0, false
	case "pcontains":
		return c13PolyContains(st.poly), 1, false
	}
	c13Bad("bad-op-%s", f[0])
	return "", 0, false
}

// ref answers the same question on fresh objects.
func (st *c13State) ref(op string) string {
	f := strings.Split(op, ":")
	switch f[0] {
	case "query":
		index, objs := c13FreshIndex(st.names)
		return c13IndexAnswer(index, objs, nil) + "|LL|" + c13LongLivedAnswer(index, objs, nil, nil)
	case "call":
		index, _ := c13FreshIndex(st.names)
		return c13DoCall(s2.NewClosestEdgeQuery(index, st.user.build()), f, st.targets, true, nil)
	case "lcontains":
		return c13LoopContains(s2.LoopFromPoints(append([]s2.Point(nil), st.loop.Vertices()...)))
	case "lcell":
		return c13LoopCellsAnswer(s2.LoopFromPoints(append([]s2.Point(nil), st.loop.Vertices()...)))
	case "pcontains":
		return c13PolyContains(c13FreshPolygon(st.poly))
	}
	return ""
}

func c13YN(b bool) string {
	if b {
		return "Y"
	}
	return "N"
}

// step executes one op; dead reports that the history must stop.
func (st *c13State) step(op string) (tok string, dead bool) {
	var answer string
	var kind int
	var optsok bool
	cls := func() (cls string) {
		defer func() {
			if r := recover(); r != nil {
				if b, ok := r.(c13BadArg); ok {
					cls = "BADARG"
					fmt.Fprintf(os.Stderr, "c13child: bad argument in %q: %s\n", op, string(b))
					return
				}
				cls = "PANIC"
				if st.debug {
					fmt.Fprintf(os.Stderr, "c13child: PANIC in %q: %v\n", op, r)
				}
			}
		}()
		answer, kind, optsok = st.exec(op)
		return "ok"
	}()
	if cls != "ok" {
		return cls + ":-:-", true
	}
	oo := "-"
	if kind == 2 {
		oo = c13YN(optsok)
	}
	if kind == 0 {
		return "ok:-:-", false
	}
	var refAns string
	rcls := func() (cls string) {
		defer func() {
			if r := recover(); r != nil {
				cls = "REFPANIC"
				if st.debug {
					fmt.Fprintf(os.Stderr, "c13child: REFPANIC in %q: %v\n", op, r)
				}
			}
		}()
		refAns = st.ref(op)
		return "ok"
	}()
	if rcls != "ok" {
		return rcls + ":-:" + oo, false
	}
	if st.debug && refAns != answer {
		fmt.Fprintf(os.Stderr, "c13child: MISMATCH in %q\n  actual %s\n  fresh  %s\n", op, answer, refAns)
	}
	return "ok:" + c13YN(refAns == answer) + ":" + oo, false
}

// c13RunHistory executes a whole history, handing each token to emit as soon as it is known.
func c13RunHistory(a []string, emit func(string)) {
	var st *c13State
	cls := func() (cls string) {
		defer func() {
			if r := recover(); r != nil {
				cls = "PANIC"
				if _, ok := r.(c13BadArg); ok {
					cls = "BADARG"
				}
				fmt.Fprintf(os.Stderr, "c13child: setup failed: %v\n", r)
			}
		}()
		st = c13NewState(a)
		return "ok"
	}()
	if cls != "ok" {
		emit(cls + ":-:-")
		return
	}
	for _, op := range strings.Split(a[3], ",") {
		tok, dead := st.step(op)
		emit(tok)
		if dead {
			return
		}
	}
}

// c13ChildMain: read histories on stdin, print result lines, flushing after every token.
// Everything runs on the main goroutine so that a self-deadlock of the library is either
// detected by the Go runtime (the process aborts) or leaves the process asleep; the
// parent handles both.
func c13ChildMain() {
	sc := bufio.NewScanner(os.Stdin)
	sc.Buffer(make([]byte, 1<<20), 1<<26)
	out := bufio.NewWriter(os.Stdout)
	if os.Getenv("C13_NO_DEADLOCK_DETECT") != "" {
		// test knob: a sleeping goroutine keeps the Go runtime from aborting on a
		// self-deadlock, so that the parent's watchdog path is exercised instead.
		go func() {
			for {
				time.Sleep(time.Hour)
			}
		}()
	}
	for sc.Scan() {
		f := strings.Fields(sc.Text())
		if len(f) > 0 && f[0] == "c13" {
			f = f[1:]
		}
		for i, t := range f {
			if t == "=" {
				f = f[:i]
				break
			}
		}
		if len(f) == 0 {
			continue
		}
		if len(f) != 4 {
			fmt.Fprintf(out, "c13 %s = ERR-arity \n", strings.Join(f, " "))
			out.Flush()
			continue
		}
		fmt.Fprintf(out, "c13 %s = ", strings.Join(f, " "))
		out.Flush()
		c13RunHistory(f, func(tok string) {
			out.WriteString(tok)
			out.WriteByte(' ')
			out.Flush()
		})
		out.WriteByte('\n')
		out.Flush()
	}
}

// ---------------------------------------------------------------------------
// Parent side: child process management with a per-step watchdog

type c13Event struct {
	word string
	nl   bool
	eof  bool
}

type c13SyncBuf struct {
	mu sync.Mutex
	b  bytes.Buffer
	w  io.Writer // optional tee
}

func (s *c13SyncBuf) Write(p []byte) (int, error) {
	s.mu.Lock()
	defer s.mu.Unlock()
	if s.w != nil {
		s.w.Write(p)
	}
	if s.b.Len() < 1<<20 {
		s.b.Write(p)
	}
	return len(p), nil
}
func (s *c13SyncBuf) String() string {
	s.mu.Lock()
	defer s.mu.Unlock()
	return s.b.String()
}

type c13Proc struct {
	cmd    *exec.Cmd
	stdin  io.WriteCloser
	events chan c13Event
	done   chan struct{}
	stderr *c13SyncBuf
}

var (
	c13Cur       *c13Proc
	c13Restarts  int
	c13StepWait  = c13EnvDur("C13_TIMEOUT_MS", 2000)
	c13BusyWait  = c13EnvDur("C13_BUSY_TIMEOUT_MS", 30000)
	c13ParentDbg = os.Getenv("C13_DEBUG") != ""
)

func c13EnvDur(name string, defMS int) time.Duration {
	if v, err := strconv.Atoi(os.Getenv(name)); err == nil && v > 0 {
		return time.Duration(v) * time.Millisecond
	}
	return time.Duration(defMS) * time.Millisecond
}

func c13Start() *c13Proc {
	exe, err := os.Executable()
	if err != nil {
		exe = os.Args[0]
	}
	cmd := exec.Command(exe, "c13child")
	cmd.Env = append(os.Environ(), "GOTRACEBACK=single")
	stdin, err := cmd.StdinPipe()
	if err != nil {
		panic("c13: stdin pipe: " + err.Error())
	}
	stdout, err := cmd.StdoutPipe()
	if err != nil {
		panic("c13: stdout pipe: " + err.Error())
	}
	p := &c13Proc{cmd: cmd, stdin: stdin, events: make(chan c13Event, 256), done: make(chan struct{}), stderr: &c13SyncBuf{}}
	if c13ParentDbg {
		p.stderr.w = os.Stderr
	}
	cmd.Stderr = p.stderr
	if err := cmd.Start(); err != nil {
		panic("c13: cannot start child: " + err.Error())
	}
	go func() {
		r := bufio.NewReaderSize(stdout, 1<<16)
		var w []byte
		send := func(ev c13Event) bool {
			select {
			case p.events <- ev:
				return true
			case <-p.done:
				return false
			}
		}
		for {
			c, err := r.ReadByte()
			if err != nil {
				if len(w) > 0 {
					send(c13Event{word: string(w)})
				}
				send(c13Event{eof: true})
				return
			}
			if c == ' ' || c == '\n' || c == '\t' || c == '\r' {
				if len(w) > 0 {
					if !send(c13Event{word: string(w)}) {
						return
					}
					w = w[:0]
				}
				if c == '\n' {
					if !send(c13Event{nl: true}) {
						return
					}
				}
				continue
			}
			w = append(w, c)
		}
	}()
	return p
}

// stop kills the child (if still alive) and reaps it.
func (p *c13Proc) stop() {
	p.cmd.Process.Kill()
	close(p.done)
	p.stdin.Close()
	p.cmd.Wait()
}

// cpu returns the CPU ticks consumed by the child and whether any of its threads is
// currently runnable / in uninterruptible wait. ok=false if /proc is not readable.
func (p *c13Proc) cpu() (ticks int64, running bool, ok bool) {
	pid := p.cmd.Process.Pid
	tasks, err := filepath.Glob(fmt.Sprintf("/proc/%d/task/*/stat", pid))
	if err != nil || len(tasks) == 0 {
		return 0, false, false
	}
	for _, t := range tasks {
		b, err := os.ReadFile(t)
		if err != nil {
			continue
		}
		s := string(b)
		i := strings.LastIndexByte(s, ')')
		if i < 0 {
			continue
		}
		f := strings.Fields(s[i+1:])
		if len(f) < 13 {
			continue
		}
		if f[0] == "R" || f[0] == "D" {
			running = true
		}
		u, _ := strconv.ParseInt(f[11], 10, 64)
		v, _ := strconv.ParseInt(f[12], 10, 64)
		ticks += u + v
		ok = true
	}
	return
}

// c13RunOne runs one history (args: loopVerts polyKind polyVerts ops) through the child.
func c13RunOne(a []string) []string {
	nops := len(strings.Split(a[3], ","))
	for attempt := 0; ; attempt++ {
		if c13Cur == nil {
			c13Cur = c13Start()
		}
		p := c13Cur
		_, err := io.WriteString(p.stdin, "c13 "+strings.Join(a, " ")+"\n")
		if err != nil {
			// the child died between histories; restart once
			p.stop()
			c13Cur = nil
			if attempt < 2 {
				continue
			}
			return []string{"ERR-child-unavailable"}
		}
		return c13Collect(p, nops)
	}
}

func c13Collect(p *c13Proc, nops int) []string {
	var toks []string
	seenEq := false
	lastProgress := time.Now()
	lastTicks, _, _ := p.cpu()
	timer := time.NewTimer(c13StepWait)
	defer timer.Stop()
	die := func(cls string) []string {
		p.stop()
		c13Cur = nil
		c13Restarts++
		if len(toks) < nops {
			toks = append(toks, cls+":-:-")
		}
		return toks
	}
	for {
		select {
		case ev := <-p.events:
			switch {
			case ev.eof:
				// The child exited in the middle of a step: runtime abort.
				p.cmd.Wait()
				msg := p.stderr.String()
				if strings.Contains(msg, "all goroutines are asleep") {
					return die("HANG")
				}
				tail := msg
				if len(tail) > 600 {
					tail = tail[:600]
				}
				fmt.Fprintf(os.Stderr, "c13: child aborted without deadlock report:\n%s\n", tail)
				return die("PANIC")
			case ev.nl:
				return toks
			case !seenEq:
				if ev.word == "=" {
					seenEq = true
				}
			default:
				toks = append(toks, ev.word)
				if strings.HasPrefix(ev.word, "BADARG") {
					time.Sleep(5 * time.Millisecond) // let the stderr copier catch up
					msg := strings.TrimSpace(p.stderr.String())
					if i := strings.LastIndexByte(msg, '\n'); i >= 0 {
						msg = msg[i+1:]
					}
					fmt.Fprintln(os.Stderr, "c13:", msg)
				}
			}
			lastProgress = time.Now()
			if !timer.Stop() {
				select {
				case <-timer.C:
				default:
				}
			}
			timer.Reset(c13StepWait)
		case <-timer.C:
			// No progress for c13StepWait. A child that is asleep is hung; a child that
			// is burning CPU gets more time (slow machine) up to c13BusyWait.
			ticks, running, ok := p.cpu()
			busy := ok && (running || ticks-lastTicks > 2)
			lastTicks = ticks
			if !busy || time.Since(lastProgress) >= c13BusyWait {
				return die("HANG")
			}
			timer.Reset(c13StepWait)
		}
	}
}

// ---------------------------------------------------------------------------
// Generator

type c13Gen struct {
	g      *G
	idx    int
	filter func(ops []string) bool // dfs: histories to skip (nil = none)
}

// c13TgtModel predicts what matters about the CURRENT target object for the generator.
//
// On the current tree the inner query of an index target caches a covering of the TARGET's index the first time
// it runs its optimized path (target index with more than 30 edges) and nothing ever resets it: a shape added to
// the target's index afterwards is not seen through that target object (finding D51 of work package c13targets;
// in C++ terms the inner query would need a ReInit that the target does not offer).  Until that is decided the
// generator keeps tadd away from target objects whose inner query may hold a covering; C13_D51=1 lifts this.
type c13TgtModel struct {
	name  string
	index bool
	edges int  // edges in the target's index
	cov   bool // the inner query may have cached a covering
	bf    bool // inner useBruteForce
}

var c13AllowD51 = os.Getenv("C13_D51") != ""

func (t *c13TgtModel) newtgt(name string) {
	*t = c13TgtModel{name: name, index: c13TargetKind(name) == "index"}
	for _, n := range c13TIMenu[name] {
		t.edges += c13TEdges(n)
	}
}

func (t *c13TgtModel) called(name string) {
	if t.index && name == t.name && t.edges > 30 && !t.bf {
		t.cov = true
	}
}

func (t *c13TgtModel) canTadd() bool { return t.index && (!t.cov || c13AllowD51) }

func c13TEdges(name string) int {
	var e, tr int
	fmt.Sscanf(c13TShapeTok(name), "%d.%d", &e, &tr)
	return e
}

// c13TgtSafe reports whether a history keeps tadd away from target objects whose inner query may hold a covering.
func c13TgtSafe(ops []string) bool {
	var t c13TgtModel
	for _, op := range ops {
		f := strings.Split(op, ":")
		switch f[0] {
		case "newtgt":
			t.newtgt(f[1])
		case "call":
			t.called(f[2])
		case "tset":
			t.bf = f[2] == "1"
		case "tadd":
			if !t.canTadd() {
				return false
			}
			t.edges += c13TEdges(f[1])
		}
	}
	return true
}

// run executes and prints one history; it reports whether the history survived all its ops.
func (c *c13Gen) run(lv int, pk string, pv int, ops []string) bool {
	mine := c.idx%c.g.shardM == c.g.shardK
	c.idx++
	return c.runIf(mine, lv, pk, pv, ops)
}

// runHashed is run with the shard chosen by a hash of the history itself, so that the
// partition of an enumeration does not depend on the fate of histories run by other shards.
func (c *c13Gen) runHashed(lv int, pk string, pv int, ops []string) bool {
	h := uint64(14695981039346656037)
	for _, b := range []byte(fmt.Sprint(lv, pk, pv, ops)) {
		h = (h ^ uint64(b)) * 1099511628211
	}
	return c.runIf(h%uint64(c.g.shardM) == uint64(c.g.shardK), lv, pk, pv, ops)
}

func (c *c13Gen) runIf(mine bool, lv int, pk string, pv int, ops []string) bool {
	if !mine {
		return true
	}
	a := []string{is(lv), pk, is(pv), strings.Join(ops, ",")}
	toks := c13RunOne(a)
	alive := len(toks) == len(ops)
	if len(toks) > 0 {
		last := toks[len(toks)-1]
		if strings.HasPrefix(last, "HANG") || strings.HasPrefix(last, "PANIC") || strings.HasPrefix(last, "BADARG") {
			alive = false
		}
	}
	if len(toks) > 0 && len(toks) < len(ops) {
		// the history died: print only the executed prefix so that the line replays identically
		a[3] = strings.Join(ops[:len(toks)], ",")
	}
	g := c.g
	g.count++
	g.out.WriteString("c13 " + strings.Join(a, " ") + " =")
	for _, t := range toks {
		g.out.WriteByte(' ')
		g.out.WriteString(t)
	}
	g.out.WriteByte('\n')
	return alive
}

// dfs runs every sequence prefix+w, w over alpha with 1 <= |w| <= depth, never extending a
// history that died (its extensions would be cut to the same line).
func (c *c13Gen) dfs(lv int, pk string, pv int, prefix []string, alpha []string, depth int) {
	if depth == 0 {
		return
	}
	for _, s := range alpha {
		ops := append(append([]string(nil), prefix...), s)
		if (c.filter != nil && !c.filter(ops)) || !c13RmValid(ops) {
			continue
		}
		// (a history skipped because it belongs to another shard counts as alive: its fate is
		// unknown here; extensions of a dead one are cut back to the dead prefix when run)
		if c.runHashed(lv, pk, pv, ops) {
			c.dfs(lv, pk, pv, ops, alpha, depth-1)
		}
	}
}

// c13RmValid reports whether every rm:<k> of a history names a shape that is present at that point.
func c13RmValid(ops []string) bool {
	n := 0
	for _, op := range ops {
		switch {
		case strings.HasPrefix(op, "add:"):
			n++
		case op == "reset":
			n = 0
		case strings.HasPrefix(op, "rm:"):
			k, err := strconv.Atoi(op[3:])
			if err != nil || k < 0 || k >= n {
				return false
			}
			n--
		}
	}
	return true
}

func c13NewEQ(maxResults int, limit, maxErr string, incl, brute int) string {
	return fmt.Sprintf("neweq:%d:%s:%s:%d:%d", maxResults, limit, maxErr, incl, brute)
}

func genC13(g *G) {
	c := &c13Gen{g: g}
	defer func() {
		if c13Cur != nil {
			c13Cur.stop()
			c13Cur = nil
		}
	}()
	L0, L1, E, F := c13AddOp("L0"), c13AddOp("L1"), c13AddOp("E"), c13AddOp("F")
	P0 := c13AddOp("P0")
	def := c13DefaultEQ

	// Loop objects reused across polygons (answers must not depend on what the object was part of before)
	for _, t := range [][3]int{{8, 6, 1}, {8, 6, 0}, {40, 36, 1}, {64, 5, 1}, {3, 3, 1}} {
		g.emit("c13reuse", is(t[0]), is(t[1]), is(t[2]))
	}
	// Part 3 (first): the shortest expected failures and two controls.
	c.run(8, "normal", 8, []string{L0, "build", L1, "build"})
	c.run(8, "normal", 8, []string{L0, "build", L1, "query"})
	c.run(8, "normal", 8, []string{L0, "build", "reset", L0, "query"})
	c.run(64, "normal", 8, []string{"lcell", "inv", "lcell"})
	c.run(64, "normal", 8, []string{"lcontains", "inv", "lcontains"})
	c.run(1064, "normal", 8, []string{"lcontains", "inv", "lcontains", "lcell", "lcontains"})
	c.run(1064, "normal", 8, []string{"lcell", "inv", "lcontains", "inv", "lcontains"})
	c.run(1008, "normal", 8, []string{"lcontains", "inv", "lcontains"})
	c.run(8, "normal", 8, []string{L0, def, c13CallOp("dist", "tp0", 0), c13CallOp("fes", "tp0", 0)})
	c.run(8, "normal", 8, []string{L0, def, c13CallOp("less", "tp0", 10), c13CallOp("dist", "tp0", 0)})
	c.run(8, "full", 8, []string{"pcontains"})
	c.run(8, "empty", 8, []string{"pinv", "pcontains"})
	c.run(8, "normal", 8, []string{E, "build", E, "build"})
	c.run(8, "normal", 8, []string{E, "build", F, "query"})
	// (found by the random part) maxResults=1, maxError>0, edge target crossing an indexed
	// edge: negative distances, and the second identical call answers differently.
	c.run(8, "normal", 8, []string{L0, c13NewEQ(1, "inf", "v1", 0, 0), c13CallOp("dist", "te0", 0), c13CallOp("dist", "te0", 0)})

	// target objects (work package c13targets): the D49 history with an explicit target object; a target whose index
	// grows between two calls (a cached capBound / covering / edge count of the target would show here); the
	// same with an option limit instead of a threshold call; an empty target index that is filled later.
	ti0, ti1, ti2 := c13NewTgtOp("ti0"), c13NewTgtOp("ti1"), c13NewTgtOp("ti2")
	T0, T1, TP := c13TaddOp("T0"), c13TaddOp("T1"), c13TaddOp("TP")
	c.run(8, "normal", 8, []string{L0, P0, "build", c13NewEQ(math.MaxInt32, "inf", "v0", 1, 1), ti0, c13CallOp("less", "ti0", 40), c13CallOp("fes", "ti0", 0)})
	c.run(8, "normal", 8, []string{L0, P0, "build", def, ti1, c13CallOp("less", "ti1", 3), T0, c13CallOp("less", "ti1", 3), c13CallOp("dist", "ti1", 0)})
	c.run(8, "normal", 8, []string{L0, P0, "build", c13NewEQ(math.MaxInt32, "v2", "v0", 1, 0), ti1, c13CallOp("fes", "ti1", 0), T0, c13CallOp("fes", "ti1", 0)})
	c.run(8, "normal", 8, []string{L0, P0, "build", def, ti2, c13CallOp("dist", "ti2", 0), TP, c13CallOp("dist", "ti2", 0), T1, c13CallOp("fes", "ti2", 0)})
	c.run(8, "normal", 8, []string{L0, def, ti0, T0, c13CallOp("dist", "ti0", 0), "tset:0:1", c13CallOp("dist", "ti0", 0)})
	if c13AllowD51 {
		// D51: the inner query of the target object keeps the covering of the target's index as it was at the first call
		c.run(8, "normal", 8, []string{L0, def, ti0, c13CallOp("dist", "ti0", 0), c13TaddOp("T3"), c13CallOp("dist", "ti0", 0)})
	}

	// Remove (work package c13remove).  Ids are never reused, so after a removal the ids of the present shapes are
	// not 0..Len()-1: D52 (makeIndexCell used Len() as the shape-id sentinel: the present shape with id >= Len() lost
	// its interior), D53 (CrossingEdgeQuery took Shape(0) for the single shape of an index); a removal of an indexed
	// shape forces a full rebuild, a removal of a shape that was never indexed must leave no trace; removal of the
	// only shape; removal + addition in one batch; removal followed by Reset.
	L2, L3, G := c13AddOp("L2"), c13AddOp("L3"), c13AddOp("G")
	c.run(8, "normal", 8, []string{L0, L1, L2, L3, "rm:0", "rm:0", "query"})
	c.run(8, "normal", 8, []string{L0, L1, L2, L3, "build", "rm:0", "rm:0", "query"})
	c.run(8, "normal", 8, []string{L0, L1, "rm:0", "query"})
	c.run(8, "normal", 8, []string{L0, L1, "build", "rm:0", "query", "rm:0", "query"})
	c.run(8, "normal", 8, []string{E, G, F, "rm:0", "query", "rm:0", "query"})
	c.run(8, "normal", 8, []string{L0, G, "build", "rm:1", L2, "query", "rm:0", "build", P0, "query"})
	c.run(8, "normal", 8, []string{L0, L1, "build", "rm:1", "reset", L2, "query"})
	c.run(8, "normal", 8, []string{L0, P0, L2, "build", "rm:0", def, c13CallOp("fes", "tp1", 0), c13CallOp("dist", "tp0", 0), "rm:0", def, c13CallOp("fes", "tp1", 0)})
	c.run(8, "normal", 8, []string{L0, P0, L2, "rm:0", c13NewEQ(math.MaxInt32, "inf", "v0", 1, 1), c13CallOp("fes", "tp1", 0), c13CallOp("fe", "tp0", 0)})

	// Part 1: systematic enumeration.
	depthIdx := 4
	if g.thorough {
		depthIdx = 5
	}
	c.dfs(8, "normal", 8, nil, []string{L0, E, "build", "reset", "query", "rm:0"}, depthIdx)
	// small shapes (<= 27 edges: brute-force candidate path of the reused CrossingEdgeQuery), alone and with others
	c.dfs(8, "normal", 8, nil, []string{P0, c13AddOp("P2"), L0, "query", "rm:0"}, 4)
	// three shapes (a loop, the loop around the tracker origin, a loop inside it), then all sequences over
	// {remove first, remove second, build, query, add}
	c.dfs(8, "normal", 8, []string{L0, G, L2}, []string{"rm:0", "rm:1", "build", "query", L3}, depthIdx)
	for _, lv := range []int{64, 8, 1064} {
		c.dfs(lv, "normal", 8, nil, []string{"inv", "lcontains", "lcell"}, 4)
	}
	c.dfs(8, "empty", 8, nil, []string{"pinv", "pcontains"}, 4)
	c.dfs(8, "full", 8, nil, []string{"pinv", "pcontains"}, 4)
	for _, pv := range []int{64, 8} {
		c.dfs(8, "normal", pv, nil, []string{"pinv", "pcontains"}, 4)
	}
	eqAlpha := []string{
		c13CallOp("fes", "tp0", 0), c13CallOp("dist", "tp0", 0), c13CallOp("fe", "tp1", 0),
		c13CallOp("less", "tp0", 10), c13CallOp("greater", "te0", 1), c13CallOp("consle", "tp2", 3),
		c13CallOp("less", "ti0", 40), c13CallOp("dist", "ti0", 0), c13CallOp("fes", "ti0", 0),
		"eqreset",
	}
	for _, u := range []string{
		def,
		c13NewEQ(3, "inf", "v0", 1, 0),
		c13NewEQ(1, "inf", "v0", 1, 0),
		c13NewEQ(math.MaxInt32, "v20", "v0", 1, 0),
		c13NewEQ(math.MaxInt32, "inf", "v0", 1, 1),
		c13NewEQ(math.MaxInt32, "inf", "v0", 0, 0),
	} {
		c.dfs(8, "normal", 8, []string{L0, P0, "build", u}, eqAlpha, 3)
	}

	// maxError > 0 on the OPTIMIZED path (L0 has 64 edges, the target index ti0 120): one query object and one target
	// object reused for several calls.  State that survives a call shows only here (the set of already tested edges
	// of a ShapeIndex-target search, the target's own maxError bookkeeping: seeded changes C08_2, C08_5); every answer
	// is still a function of geometry and options (no brute-force visiting order is involved: single-shape index).
	meAlpha := []string{
		c13CallOp("fes", "ti0", 0), c13CallOp("dist", "ti0", 0), c13CallOp("fe", "ti0", 0),
		c13CallOp("less", "ti0", 40), c13CallOp("fes", "te0", 0), "eqreset",
	}
	for _, u := range []string{
		c13NewEQ(math.MaxInt32, "inf", "v1", 1, 0),
		c13NewEQ(5, "inf", "v1", 1, 0),
		c13NewEQ(1, "inf", "v1", 1, 0),
		c13NewEQ(math.MaxInt32, "v20", "v2", 1, 0),
		c13NewEQ(1, "inf", "v20", 1, 0), // maxError larger than the spread of the target's components (seeded change C08_5)
	} {
		c.dfs(8, "normal", 8, []string{L0, "build", u, ti0}, meAlpha, 3)
	}

	// target objects: all sequences of calls with / additions to / re-creations of ONE target object
	c.filter = c13TgtSafe
	for _, u := range []string{def, c13NewEQ(math.MaxInt32, "v2", "v0", 1, 0), c13NewEQ(1, "inf", "v0", 0, 0)} {
		c.dfs(8, "normal", 8, []string{L0, P0, "build", u, ti1},
			[]string{c13CallOp("less", "ti1", 3), c13CallOp("dist", "ti1", 0), c13CallOp("fes", "ti1", 0), T0, T1, TP, ti1}, 4)
	}
	c.dfs(8, "normal", 8, []string{L0, P0, def},
		[]string{ti0, ti2, T0, c13TaddOp("TE"), c13CallOp("less", "ti0", 40), c13CallOp("dist", "ti0", 0), c13CallOp("consle", "ti2", 3), c13CallOp("fes", "ti2", 0)}, 4)
	c.filter = nil

	// Part 2: random histories.
	r := g.rng
	for k := 0; k < g.n; k++ {
		lv := []int{8, 64}[r.Intn(2)]
		pv := []int{8, 64}[r.Intn(2)]
		pk := "normal"
		switch x := r.Intn(100); {
		case x < 5:
			pk = "full"
		case x < 15:
			pk = "empty"
		}
		risky := r.Intn(100) < 10
		n := 1 + r.Intn(30)
		var m c13Model
		var ops []string
		for len(ops) < n {
			ops = append(ops, m.pick(r, risky))
		}
		c.run(lv, pk, pv, ops)
	}
}

// c13Model predicts just enough of the index state to keep most random histories away
// from the add-after-build deadlock (which would otherwise end almost every long history).
//
// It also keeps the random part away from two situations in which the library's answer
// is legitimately not a function of geometry and options, because the brute-force path
// of EdgeQuery visits the shapes in Go map order: (1) two identical non-empty shapes in
// the index (exact distance ties between shapes, resolved by visiting order when
// maxResults is 1); (2) maxError > 0 together with a multi-shape brute-force search
// (any edge within maxError of the best may be returned).
type c13Model struct {
	tgt     c13TgtModel // the current target object ("" = none)
	meZero  bool        // the current query object has maxError 0
	hasEQ   bool
	n       int // shapes since last reset
	pendPos int // model of pendingAdditionsPos
	stale   bool
	names   []string // shapes since last reset
}

func c13Edges(name string) int {
	var e, t int
	fmt.Sscanf(strings.TrimPrefix(c13AddOp(name), "add:"+name+":"), "%d:%d", &e, &t)
	return e
}

func (m *c13Model) has(name string) bool {
	for _, x := range m.names {
		if x == name {
			return true
		}
	}
	return false
}

func (m *c13Model) built() {
	if m.stale {
		m.pendPos = m.n
		m.stale = false
	}
}

func (m *c13Model) pick(r *RNG, risky bool) string {
	type wop struct {
		w  int
		op string
	}
	l := []wop{{18, "query"}, {8, "build"}, {14, "add"}, {3, "reset"}, {8, "neweq"},
		{3, "inv"}, {7, "lcontains"}, {7, "lcell"}, {3, "pinv"}, {7, "pcontains"}}
	if m.hasEQ {
		l = append(l, wop{22, "call"}, wop{3, "eqreset"})
	}
	if len(m.names) > 0 {
		l = append(l, wop{7, "rm"})
	}
	l = append(l, wop{5, "newtgt"})
	if m.tgt.canTadd() {
		l = append(l, wop{9, "tadd"}, wop{2, "tset"})
	}
	tot := 0
	for _, x := range l {
		tot += x.w
	}
	v := r.Intn(tot)
	op := ""
	for _, x := range l {
		if v < x.w {
			op = x.op
			break
		}
		v -= x.w
	}
	switch op {
	case "add":
		name := []string{"E", "E", "P0", "P0", "P1", "P2", "P3", "L0", "L0", "L0", "L1", "L1", "L2", "L3", "F", "G"}[r.Intn(16)]
		if !risky && m.pendPos > 0 && m.n >= m.pendPos {
			// a non-empty shape here is the known self-deadlock; keep it for the risky histories
			name = "E"
		}
		if c13Edges(name) > 0 && m.has(name) {
			// no identical twins: take the next absent non-empty shape, else the empty one
			alt := "E"
			for _, x := range c13ShapeNames {
				if c13Edges(x) > 0 && !m.has(x) && (risky || m.pendPos == 0 || m.n < m.pendPos) {
					alt = x
					break
				}
			}
			name = alt
		}
		m.n++
		m.names = append(m.names, name)
		m.stale = true
		m.hasEQ = false
		return c13AddOp(name)
	case "rm":
		k := r.Intn(len(m.names))
		if r.Intn(3) == 0 {
			k = 0 // the smallest id: every other present shape then has an id > its position
		}
		m.names = append(append([]string(nil), m.names[:k]...), m.names[k+1:]...)
		m.stale = true
		m.hasEQ = false
		return fmt.Sprintf("rm:%d", k)
	case "reset":
		m.n = 0
		m.names = nil
		m.stale = false
		m.hasEQ = false
		return op
	case "build", "query":
		m.built()
		return op
	case "neweq":
		m.hasEQ = true
		mr := []int{math.MaxInt32, math.MaxInt32, 1, 2, 3, 5}[r.Intn(6)]
		lim := []string{"inf", "inf", "v1", "v5", "v20", "v90"}[r.Intn(6)]
		me := []string{"v0", "v0", "v1", "v5"}[r.Intn(4)]
		incl, brute := r.Intn(2), r.Intn(2)
		withEdges, total := 0, 0
		for _, x := range m.names {
			if e := c13Edges(x); e > 0 {
				withEdges++
				total += e
			}
		}
		if withEdges > 1 && (brute == 1 || total <= 31) {
			me = "v0" // multi-shape brute-force search: keep the answer well defined
		}
		m.meZero = me == "v0"
		return c13NewEQ(mr, lim, me, incl, brute)
	case "call":
		m.built()
		kind := []string{"fes", "fes", "fe", "dist", "dist", "less", "greater", "consle", "consge"}[r.Intn(9)]
		t := c13TargetNames[r.Intn(len(c13TargetNames))]
		if m.tgt.name != "" && r.Intn(2) == 0 {
			t = m.tgt.name // the current target object
		}
		if c13TargetKind(t) == "index" && (t != m.tgt.name || !m.meZero) {
			// index targets only as explicit objects, and only with maxError 0: an index target forwards maxError to
			// its own query, whose path (brute force / optimized) legitimately depends on when it first counted the
			// target's edges, and with maxError > 0 any edge within maxError may be returned
			t = "tp0"
		}
		lim := []int{0, 1, 3, 10, 30, 100}[r.Intn(6)]
		m.tgt.called(t)
		return c13CallOp(kind, t, lim)
	case "newtgt":
		name := []string{"ti0", "ti1", "ti1", "ti2", "ti2", "tp0", "te0"}[r.Intn(7)]
		m.tgt.newtgt(name)
		return c13NewTgtOp(name)
	case "tadd":
		name := c13TShapeNames[r.Intn(len(c13TShapeNames))]
		m.tgt.edges += c13TEdges(name)
		return c13TaddOp(name)
	case "tset":
		ii, bf := r.Intn(2), r.Intn(2)
		m.tgt.bf = bf == 1
		return fmt.Sprintf("tset:%d:%d", ii, bf)
	}
	return op
}
