package main

// c06d60 — generator family of `c06idx` for finding D60 (Point.PointCross had no exact fallback).
//
// Shape edge E = (a, b) with b = -a up to 0..3 ulps per coordinate (or: b = a up to a few multiples of 2^-1074 in a
// coordinate that is zero / subnormal).  Before the repair the plane normal that ClipToPaddedFace hands to the index
// builder, fl((a+b) x (b-a)), is off by 2^-53 / sin(angle(a+b, a)) (unbounded); an index cell that the EXACT edge
// passes through does not list it, and CrossingEdgeQuery misses a crossing that brute force finds.
//
// Recipe (nothing depends on an answer of the library under test; every sample is emitted):
//   * a: structured unit vector (two or three coordinates of nearly equal magnitude, so that the quantisation
//     noise a+b can be nearly parallel to a; or random), b: -a moved by 0..3 ulps per coordinate
//     ("aligned": the same count and sign pattern as a on the large coordinates; or independent);
//     exactly antiparallel pairs (no edge defined) are skipped.
//   * N = a x b EXACTLY (math/big); X0 = a point of the edge 60..120 degrees from a; f = its face;
//     exact line  N.(u,v,1) = 0  on face f, and the line of the PRE-repair float normal fl((a+b) x (b-a)),
//     which the generator evaluates itself (plain float64 arithmetic, no library call).
//   * directed search along the exact line (up to 3*10^5 leaf-grid columns around X0) for a leaf-grid vertex V that
//     lies between the two lines with margins 1.5e-14 on either side; X = the leaf cell at V that the exact line
//     clips and the float line does not reach.  No such vertex (always the case when the two lines agree to
//     < 3e-14): X = the leaf cell of the exact line at X0.
//   * shape 1 = 14 tiny filler edges inside X (forces the index down to level 30 there);
//     query edges: one across the exact line inside X, one tiny edge elsewhere in X, one far away.
//   * emitted: c04cross (2 shapes), c04bclip for (a, b) on all six faces with cellPadding (model = implementation
//     in the exact fallback), every third sample also c04idx (invariant I2: the cell X lists E).

import (
	"math"
	"math/big"

	"github.com/golang/geo/r3"
	"github.com/golang/geo/s2"
)

const c06d60Prec = 400

func c06d60Big(x float64) *big.Float { return new(big.Float).SetPrec(c06d60Prec).SetFloat64(x) }

// exact cross product of two float vectors (products and differences of doubles fit into 400 bits only when the
// exponents are close; 2200 bits always suffice: the caller passes unit-ish vectors or tiny differences)
func c06d60Cross(a, b r3.Vector) [3]*big.Float {
	p := uint(2300)
	f := func(x float64) *big.Float { return new(big.Float).SetPrec(p).SetFloat64(x) }
	mul := func(x, y float64) *big.Float { return new(big.Float).SetPrec(p).Mul(f(x), f(y)) }
	sub := func(x, y *big.Float) *big.Float { return new(big.Float).SetPrec(p).Sub(x, y) }
	return [3]*big.Float{sub(mul(a.Y, b.Z), mul(a.Z, b.Y)), sub(mul(a.Z, b.X), mul(a.X, b.Z)), sub(mul(a.X, b.Y), mul(a.Y, b.X))}
}

// the vector scaled so that its largest component is in [0.5, 1), as float64s (relative error 2^-53 per component)
func c06d60ToVec(n [3]*big.Float) (r3.Vector, bool) {
	exp, nz := 0, false
	for _, c := range n {
		if c.Sign() != 0 {
			if e := c.MantExp(nil); !nz || e > exp {
				exp, nz = e, true
			}
		}
	}
	if !nz {
		return r3.Vector{}, false
	}
	g := func(c *big.Float) float64 { v, _ := new(big.Float).SetMantExp(c, -exp).Float64(); return v }
	return r3.Vector{X: g(n[0]), Y: g(n[1]), Z: g(n[2])}, true
}

func c06d60Ulps(x float64, k int) float64 {
	for ; k > 0; k-- {
		x = math.Nextafter(x, math.Inf(1))
	}
	for ; k < 0; k++ {
		x = math.Nextafter(x, math.Inf(-1))
	}
	return x
}

// uvw axes of face f as xyz vectors (entries 0, +-1), from the exported uv -> xyz map
func c06d60Axes(f int) (U, V, W r3.Vector) {
	W = s2.VerifFaceUVToXYZ(f, 0, 0)
	U = s2.VerifFaceUVToXYZ(f, 1, 0).Sub(W)
	V = s2.VerifFaceUVToXYZ(f, 0, 1).Sub(W)
	return
}

type c06d60Line struct {
	along int     // 0: t = v as a function of s = u ; 1: t = u as a function of s = v
	m, c  float64 // t = m*s + c
}

// line n.(u,v,1) = 0 with n given in uvw coordinates; ok=false if degenerate
func c06d60MkLine(nu, nv, nw float64, along int) (c06d60Line, bool) {
	if along == 0 {
		if nv == 0 {
			return c06d60Line{}, false
		}
		return c06d60Line{0, -nu / nv, -nw / nv}, true
	}
	if nu == 0 {
		return c06d60Line{}, false
	}
	return c06d60Line{1, -nv / nu, -nw / nu}, true
}

func (l c06d60Line) at(s float64) float64 { return l.m*s + l.c }

func c06d60UV(l c06d60Line, s, t float64) (u, v float64) {
	if l.along == 0 {
		return s, t
	}
	return t, s
}

const c06d60Leaf = 1 << 30

func c06d60Grid(i int) float64 { return s2.VerifStToUV(float64(i) / c06d60Leaf) }
func c06d60Index(x float64) int {
	i := int(math.Floor(s2.VerifUVToST(x) * c06d60Leaf))
	if i < 0 {
		i = 0
	}
	if i > c06d60Leaf-1 {
		i = c06d60Leaf - 1
	}
	return i
}

func (g *G) c06d60Base() s2.Point {
	r := g.rng
	sg := func() float64 {
		if r.Bool() {
			return -1
		}
		return 1
	}
	tiny := func() float64 { return sg() * math.Pow(10, -0.5-3.5*r.Float()) }
	var v [3]float64
	switch r.Intn(4) {
	case 0, 1: // two coordinates of nearly equal magnitude, the third small
		v = [3]float64{sg(), sg() * (1 + tiny()), tiny()}
		if r.Intn(8) == 0 {
			v[2] = 0
		}
	case 2: // three coordinates of nearly equal magnitude
		v = [3]float64{sg(), sg() * (1 + tiny()), sg() * (1 + tiny())}
	default:
		v = [3]float64{r.Float() - 0.5, r.Float() - 0.5, r.Float() - 0.5}
	}
	k := r.Intn(3)
	v[0], v[k] = v[k], v[0]
	k = 1 + r.Intn(2)
	v[1], v[k] = v[k], v[1]
	p := r3.Vector{X: v[0], Y: v[1], Z: v[2]}
	if p.Norm2() == 0 {
		p = r3.Vector{X: 1, Y: 1, Z: 0.001}
	}
	return s2.Point{Vector: p.Normalize()}
}

// b = -a moved by 0..3 ulps per coordinate
func (g *G) c06d60Anti(a s2.Point) s2.Point {
	r := g.rng
	c := [3]float64{-a.X, -a.Y, -a.Z}
	if r.Intn(5) < 3 { // aligned: a+b parallel to the sign pattern of a on the large coordinates
		k := 1 + r.Intn(3)
		if r.Bool() {
			k = -k
		}
		for i := range c {
			if math.Abs(c[i]) >= 0.25 {
				if c[i] > 0 {
					c[i] = c06d60Ulps(c[i], k)
				} else {
					c[i] = c06d60Ulps(c[i], -k)
				}
			} else {
				c[i] = c06d60Ulps(c[i], r.Intn(7)-3)
			}
		}
	} else {
		for i := range c {
			c[i] = c06d60Ulps(c[i], r.Intn(7)-3)
		}
	}
	return s2.Point{Vector: r3.Vector{X: c[0], Y: c[1], Z: c[2]}}
}

func c06d60Face(f int, u, v float64) s2.Point {
	return s2.Point{Vector: s2.VerifFaceUVToXYZ(f, u, v).Normalize()}
}

// fillers: a zigzag of 14 tiny edges inside the leaf cell (i, j) of face f (grid indices along u, v)
func c06d60Fill(f, i, j int) []s2.Point {
	u0, u1 := c06d60Grid(i), c06d60Grid(i+1)
	v0, v1 := c06d60Grid(j), c06d60Grid(j+1)
	var fill []s2.Point
	for k := 0; k < 15; k++ {
		fu := u0 + (u1-u0)*(0.30+0.025*float64(k))
		fv := v0 + (v1-v0)*(0.62+0.05*float64(k%2))
		fill = append(fill, c06d60Face(f, fu, fv))
	}
	return fill
}

func (g *G) c06d60Emit(a, b s2.Point, fill, q []s2.Point, withIdx bool) {
	specs := []string{"Y:" + ptsTok([]s2.Point{a, b}), "Y:" + ptsTok(fill)}
	args := append([]string{is(len(specs))}, specs...)
	g.emit("c04cross", append(append([]string(nil), args...), ptsTok(q))...)
	for f := 0; f < 6; f++ {
		g.emit("c04bclip", ptTok(a), ptTok(b), is(f), fx(c04bPadding))
	}
	if withIdx {
		g.emit("c04idx", args...)
	}
}

// one sample of the family
func (g *G) c06d60Sample(it int) {
	r := g.rng
	if r.Intn(8) == 0 {
		g.c06d60Subnormal(it)
		return
	}
	var a, b s2.Point
	for try := 0; ; try++ {
		a = g.c06d60Base()
		b = g.c06d60Anti(a)
		if !c04Antiparallel(a, b) && a.Vector != b.Vector.Mul(-1) {
			break
		}
		if try > 50 {
			return
		}
	}
	Nb := c06d60Cross(a.Vector, b.Vector)
	N, ok := c06d60ToVec(Nb)
	if !ok {
		return
	}
	w := a.Vector.Add(b.Vector) // exact
	e := N.Cross(a.Vector)
	if e.Norm2() == 0 {
		return
	}
	e = e.Normalize()
	// the edge runs from a through the direction of a+b: orientation of e by the sign of e.w, evaluated exactly enough
	// in 400-bit arithmetic on the float components of e
	dot := new(big.Float).SetPrec(c06d60Prec)
	for _, t := range [][2]float64{{e.X, w.X}, {e.Y, w.Y}, {e.Z, w.Z}} {
		dot.Add(dot, new(big.Float).SetPrec(c06d60Prec).Mul(c06d60Big(t[0]), c06d60Big(t[1])))
	}
	if dot.Sign() < 0 {
		e = e.Mul(-1)
	}
	theta := (60 + 60*r.Float()) * math.Pi / 180
	X0 := a.Vector.Mul(math.Cos(theta)).Add(e.Mul(math.Sin(theta))).Normalize()
	f, u0, v0 := s2.VerifXYZToFaceUV(X0)
	if math.Abs(u0) > 0.99 || math.Abs(v0) > 0.99 {
		theta = math.Pi / 2
		X0 = a.Vector.Mul(math.Cos(theta)).Add(e.Mul(math.Sin(theta))).Normalize()
		f, u0, v0 = s2.VerifXYZToFaceUV(X0)
		if math.Abs(u0) > 0.99 || math.Abs(v0) > 0.99 {
			return
		}
	}
	U, V, W := c06d60Axes(f)
	// the pre-repair float normal, evaluated here
	Nf := a.Vector.Add(b.Vector).Cross(b.Vector.Sub(a.Vector))
	nu, nv, nw := N.Dot(U), N.Dot(V), N.Dot(W) // exact: the axes have entries 0, +-1
	along := 0
	if math.Abs(nu) > math.Abs(nv) {
		along = 1
	}
	le, ok1 := c06d60MkLine(nu, nv, nw, along)
	lc, ok2 := c06d60MkLine(Nf.Dot(U), Nf.Dot(V), Nf.Dot(W), along)
	if !ok1 {
		return
	}
	s0 := u0
	if along == 1 {
		s0 = v0
	}
	const mE, mC = 1.5e-14, 1.5e-14
	found := false
	var bi, bj int       // grid indices (s, t) of the vertex
	var ds, dt int       // the cell X relative to the vertex: ds, dt in {-1, 0}: cell (bi+ds, bj+dt)
	var qs, qt0, qt1 float64
	if ok2 && !math.IsNaN(lc.m) && !math.IsInf(lc.m, 0) && math.Abs(lc.m) < 4 {
		i0 := c06d60Index(s0)
		for step := 0; step < 300000 && !found; step++ {
			k := step/2 + 1
			if step%2 == 1 {
				k = -k
			}
			i := i0 + k
			if i < 1000 || i > c06d60Leaf-1000 {
				continue
			}
			s := c06d60Grid(i)
			tE, tC := le.at(s), lc.at(s)
			if math.Abs(tE) > 0.99 {
				continue
			}
			d := tC - tE
			if math.Abs(d) < mE+mC {
				if step > 2000 { // the deviation varies slowly: give up early when the lines agree
					break
				}
				continue
			}
			j := c06d60Index(tE)
			for _, jj := range []int{j, j + 1} {
				t := c06d60Grid(jj)
				dE, dC := t-tE, t-tC
				if dE*dC < 0 && math.Abs(dE) > mE && math.Abs(dC) > mC {
					found, bi, bj = true, i, jj
					// X is on the exact line's side of the row t (below if dE > 0)
					dt = 0
					if dE > 0 {
						dt = -1
					}
					// horizontally: the side on which the exact line approaches the row t_jj
					// (dE > 0: the line is below and must rise: direction sign(m); dE < 0: direction -sign(m))
					dir := 1.0
					if (le.m < 0) != (dE < 0) {
						dir = -1
					}
					if le.m == 0 {
						dir = 1
					}
					ds = 0
					if dir < 0 {
						ds = -1
					}
					// chord of the exact line inside X from (s, tE): it ends at the row (distance |dE/m|) or at the far side
					wcell := math.Abs(c06d60Grid(i+ds+1) - c06d60Grid(i+ds))
					run := wcell
					if le.m != 0 && math.Abs(dE/le.m) < wcell {
						run = math.Abs(dE / le.m)
					}
					qs = s + dir*run*0.5
					tm := le.at(qs)
					h := 0.4 * math.Abs(t-tm)
					qt0, qt1 = tm+h, tm-h
					break
				}
			}
		}
	}
	if !found {
		// the leaf cell of the exact line at X0, query across the exact line in the middle of the cell
		i := c06d60Index(s0)
		s := 0.5 * (c06d60Grid(i) + c06d60Grid(i+1))
		tm := le.at(s)
		if math.Abs(tm) > 0.99 {
			return
		}
		j := c06d60Index(tm)
		bi, bj, ds, dt = i, j, 0, 0
		hh := 0.2 * (c06d60Grid(j+1) - c06d60Grid(j))
		qs, qt0, qt1 = s, tm+hh, tm-hh
	}
	ci, cj := bi+ds, bj+dt // cell X in (s, t) grid indices
	fi, fj := ci, cj
	if along == 1 {
		fi, fj = cj, ci
	}
	fill := c06d60Fill(f, fi, fj)
	qu0, qv0 := c06d60UV(le, qs, qt0)
	qu1, qv1 := c06d60UV(le, qs, qt1)
	q := []s2.Point{c06d60Face(f, qu0, qv0), c06d60Face(f, qu1, qv1)}
	// a tiny edge elsewhere in X and a far-away edge
	cu0, cu1 := c06d60Grid(fi), c06d60Grid(fi+1)
	cv0, cv1 := c06d60Grid(fj), c06d60Grid(fj+1)
	q = append(q, c06d60Face(f, cu0+0.2*(cu1-cu0), cv0+0.15*(cv1-cv0)), c06d60Face(f, cu0+0.8*(cu1-cu0), cv0+0.2*(cv1-cv0)))
	far := g.c04Center()
	far2 := s2.Point{Vector: far.Add(r3.Vector{X: 1e-3, Y: -2e-3, Z: 1.5e-3}).Normalize()}
	if !c04Antiparallel(far, far2) {
		q = append(q, far, far2)
	}
	g.c06d60Emit(a, b, fill, q, it%3 == 0)
}

// endpoints that differ by a few multiples of 2^-1074 in a zero / subnormal coordinate
func (g *G) c06d60Subnormal(it int) {
	r := g.rng
	sub := math.Float64frombits(1)
	v := [3]float64{r.Float() - 0.5, r.Float() - 0.5, r.Float() - 0.5}
	if r.Intn(3) == 0 {
		v = [3]float64{0.7432, 0, math.Sqrt(1 - 0.7432*0.7432)}
	}
	p := r3.Vector{X: v[0], Y: v[1], Z: v[2]}
	if p.Norm2() < 1e-3 {
		p = r3.Vector{X: 1, Y: 0.3, Z: 0.2}
	}
	p = p.Normalize()
	c := [3]float64{p.X, p.Y, p.Z}
	k := r.Intn(3)
	// do not zero the largest coordinate
	if math.Abs(c[k]) >= math.Abs(c[(k+1)%3]) && math.Abs(c[k]) >= math.Abs(c[(k+2)%3]) {
		k = (k + 1) % 3
	}
	c[k] = float64(r.Intn(5)) * sub
	if r.Bool() {
		c[k] = -c[k]
	}
	a := s2.Point{Vector: r3.Vector{X: c[0], Y: c[1], Z: c[2]}.Normalize()}
	c = [3]float64{a.X, a.Y, a.Z}
	c[k] = float64(r.Intn(5)) * sub
	if r.Bool() {
		c[k] = -c[k]
	}
	a = s2.Point{Vector: r3.Vector{X: c[0], Y: c[1], Z: c[2]}}
	d := c
	d[k] = c[k] + float64(1+r.Intn(3))*sub*float64(1-2*r.Intn(2))
	b := s2.Point{Vector: r3.Vector{X: d[0], Y: d[1], Z: d[2]}}
	if a.Vector == b.Vector || c04Antiparallel(a, b) {
		return
	}
	f, u, v0 := s2.VerifXYZToFaceUV(a.Vector)
	if math.Abs(u) > 0.99 || math.Abs(v0) > 0.99 {
		return
	}
	i, j := c06d60Index(u), c06d60Index(v0)
	// fillers in the neighbouring leaf cell (the vertices of E are not filler vertices)
	fill := c06d60Fill(f, i+1, j)
	u0, u1 := c06d60Grid(i), c06d60Grid(i+1)
	w0, w1 := c06d60Grid(j), c06d60Grid(j+1)
	q := []s2.Point{c06d60Face(f, u0+0.1*(u1-u0), w0+0.1*(w1-w0)), c06d60Face(f, u0+0.9*(u1-u0), w0+0.85*(w1-w0)),
		c06d60Face(f, u-3e-10, v0+2e-10), c06d60Face(f, u+2.5e-10, v0-3e-10)}
	g.c06d60Emit(a, b, fill, q, it%3 == 0)
}

// generator `c06d60`: the family alone (used for hit-rate / false-alarm measurements; `c06idx` runs it on every 8th iteration)
func genC06d60(g *G) {
	for it := 0; it < g.n; it++ {
		g.c06d60Sample(it)
	}
}

func init() { generators["c06d60"] = genC06d60 }
