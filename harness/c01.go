package main

import (
	"math"

	"github.com/golang/geo/r3"
	"github.com/golang/geo/s2"
)

func init() {
	replayers["f64"] = func(a []string) []string {
		op := a[0]
		x := pF(a[1])
		if len(a) == 3 {
			y := pF(a[2])
			switch op {
			case "add":
				return []string{fx(x + y)}
			case "sub":
				return []string{fx(x - y)}
			case "mul":
				return []string{fx(x * y)}
			case "div":
				return []string{fx(x / y)}
			case "max":
				return []string{fx(math.Max(x, y))}
			case "min":
				return []string{fx(math.Min(x, y))}
			case "nextafter":
				return []string{fx(math.Nextafter(x, y))}
			case "lt":
				return []string{bs(x < y)}
			case "le":
				return []string{bs(x <= y)}
			case "eq":
				return []string{bs(x == y)}
			}
		}
		switch op {
		case "sqrt":
			return []string{fx(math.Sqrt(x))}
		case "floor":
			return []string{fx(math.Floor(x))}
		case "trunc":
			return []string{i64s(int64(x))}
		case "neg":
			return []string{fx(-x)}
		case "abs":
			return []string{fx(math.Abs(x))}
		}
		return []string{"ERR"}
	}
	replayers["f64ofint"] = func(a []string) []string { return []string{fx(float64(pI64(a[0])))} }

	replayers["cidv"] = func(a []string) []string { return []string{bs(s2.CellID(pU64(a[0])).IsValid())} }
	replayers["cid"] = func(a []string) []string {
		c := s2.CellID(pU64(a[0]))
		ch := c.Children()
		f, i, j, o := s2.VerifFaceIJOrientation(c)
		_, si, ti := s2.VerifFaceSiTi(c)
		ip := c
		if !s2.VerifIsFace(c) {
			ip = s2.VerifImmediateParent(c)
		}
		return []string{is(c.Face()), hx(c.Pos()), is(c.Level()), bs(c.IsLeaf()), bs(s2.VerifIsFace(c)),
			hx(s2.VerifLsb(c)), idx(c.RangeMin()), idx(c.RangeMax()),
			idx(ch[0]), idx(ch[1]), idx(ch[2]), idx(ch[3]),
			idx(c.Next()), idx(c.Prev()), idx(c.NextWrap()), idx(c.PrevWrap()),
			idx(c.ChildBegin()), idx(c.ChildEnd()), c.ToToken(), c.String(),
			is(f), is(i), is(j), is(o), is(int(si)), is(int(ti)),
			i64s(s2.VerifDistanceFromBegin(c)), idx(ip)}
	}
	replayers["cidpar"] = func(a []string) []string {
		c := s2.CellID(pU64(a[0]))
		l := pI(a[1])
		cl := l
		if cl < 1 {
			cl = 1
		}
		return []string{idx(c.Parent(l)), is(c.ChildPosition(cl))}
	}
	replayers["cidchl"] = func(a []string) []string {
		c := s2.CellID(pU64(a[0]))
		l := pI(a[1])
		return []string{idx(c.ChildBeginAtLevel(l)), idx(c.ChildEndAtLevel(l))}
	}
	replayers["cidpair"] = func(a []string) []string {
		x := s2.CellID(pU64(a[0]))
		y := s2.CellID(pU64(a[1]))
		lv, ok := x.CommonAncestorLevel(y)
		cal := "none"
		if ok {
			cal = is(lv)
		}
		return []string{bs(x.Contains(y)), bs(x.Intersects(y)), cal}
	}
	replayers["cidtile"] = func(a []string) []string {
		return []string{idx(s2.CellID(pU64(a[0])).MaxTile(s2.CellID(pU64(a[1]))))}
	}
	replayers["cidadv"] = func(a []string) []string {
		c := s2.CellID(pU64(a[0]))
		s := pI64(a[1])
		return []string{idx(c.Advance(s)), idx(c.AdvanceWrap(s))}
	}
	replayers["cidfpl"] = func(a []string) []string {
		return []string{idx(s2.CellIDFromFacePosLevel(pI(a[0]), pU64(a[1]), pI(a[2])))}
	}
	replayers["cidtok"] = func(a []string) []string { return []string{idx(s2.CellIDFromToken(tokStr(a[0])))} }
	replayers["cidstr"] = func(a []string) []string { return []string{idx(s2.CellIDFromString(tokStr(a[0])))} }
	replayers["cidfij"] = func(a []string) []string {
		return []string{idx(s2.VerifCellIDFromFaceIJ(pI(a[0]), pI(a[1]), pI(a[2])))}
	}
	replayers["cidnbr"] = func(a []string) []string {
		c := s2.CellID(pU64(a[0]))
		vl := pI(a[1]) // vertex-neighbour level, < c.Level() (the documented contract); -1 = skip
		al := pI(a[2]) // all-neighbour level, >= c.Level()
		en := c.EdgeNeighbors()
		var vn []s2.CellID
		if vl >= 0 {
			vn = c.VertexNeighbors(vl)
		}
		// the results are HELD while the same methods are called for other cells (a returned slice must not alias
		// storage that a later call reuses: seeded change C01_5)
		an := c.AllNeighbors(al)
		other := c.NextWrap()
		if other.IsValid() {
			_ = other.AllNeighbors(other.Level())
			_ = other.EdgeNeighbors()
			if other.Level() > 0 {
				_ = other.VertexNeighbors(other.Level() - 1)
			}
		}
		_ = s2.CellIDFromFace((c.Face() + 3) % 6).AllNeighbors(2)
		return []string{ids(en[:]), ids(vn), ids(an)}
	}
	replayers["cidpt"] = func(a []string) []string {
		p := s2.Point{Vector: r3.Vector{X: pF(a[0]), Y: pF(a[1]), Z: pF(a[2])}}
		c := s2.VerifCellIDFromPoint(p)
		// which ancestors (level 0..30) contain p according to Cell.ContainsPoint: bit mask
		var mask uint64
		for l := 0; l <= 30; l++ {
			if s2.CellFromCellID(c.Parent(l)).ContainsPoint(p) {
				mask |= 1 << uint(l)
			}
		}
		return []string{idx(c), hx(mask)}
	}
	generators["f64"] = genF64
	generators["c01"] = genC01
}

// interesting float operands
func (g *G) float() float64 {
	r := g.rng
	switch r.Intn(12) {
	case 0:
		sp := []float64{0, math.Copysign(0, -1), 1, -1, 2, 0.5, math.Inf(1), math.Inf(-1), math.NaN(),
			math.MaxFloat64, math.SmallestNonzeroFloat64, 0x1p-1022, 0x1p-1023, 1 + 0x1p-52, 1 - 0x1p-53, 3, 1.0 / 3}
		return sp[r.Intn(len(sp))]
	case 1: // subnormal
		return math.Float64frombits(r.U64() & 0x800FFFFFFFFFFFFF)
	case 2: // arbitrary bits
		return math.Float64frombits(r.U64())
	case 3: // near overflow
		return math.Float64frombits((r.U64() & 0x800FFFFFFFFFFFFF) | (uint64(2040+r.Intn(7)) << 52))
	case 4: // small integers
		return float64(r.Intn(2000) - 1000)
	case 5: // near 1
		return math.Float64frombits(0x3FF0000000000000 + uint64(r.Intn(9)) - 4)
	case 6: // few mantissa bits
		return math.Ldexp(float64(r.Intn(64)-32), r.Intn(120)-60)
	default:
		return math.Ldexp(r.Float()*2-1, r.Intn(80)-40)
	}
}

func genF64(g *G) {
	ops2 := []string{"add", "sub", "mul", "div", "max", "min", "nextafter", "lt", "le", "eq"}
	ops1 := []string{"sqrt", "floor", "neg", "abs"}
	for k := 0; k < g.n; k++ {
		x, y := g.float(), g.float()
		if g.rng.Intn(6) == 0 { // cancellation / ties
			y = math.Nextafter(x, math.Inf(1))
			if g.rng.Bool() {
				y = -x
			}
		}
		g.emit("f64", ops2[g.rng.Intn(len(ops2))], fx(x), fx(y))
		g.emit("f64", ops1[g.rng.Intn(len(ops1))], fx(x))
		if math.Abs(x) < 9e18 {
			g.emit("f64", "trunc", fx(x))
		}
		g.emit("f64ofint", i64s(int64(g.rng.U64()>>uint(g.rng.Intn(64)))-int64(g.rng.Intn(3))))
	}
}

// randCell returns a structured valid cell id: level, position and boundary pattern are drawn separately.
func (g *G) randCell() s2.CellID {
	r := g.rng
	level := r.Intn(31)
	if r.Intn(4) == 0 {
		level = []int{0, 1, 2, 29, 30, 15, 14, 16}[r.Intn(8)]
	}
	return g.randCellAt(level)
}

func (g *G) randCellAt(level int) s2.CellID {
	r := g.rng
	face := r.Intn(6)
	coord := func() int {
		switch r.Intn(6) {
		case 0:
			return 0
		case 1:
			return s2.MaxSize - 1
		case 2: // near an edge
			return r.Intn(4)
		case 3:
			return s2.MaxSize - 1 - r.Intn(4)
		case 4: // on a coarse grid line ± small
			k := r.Intn(30)
			v := (r.Intn(1<<uint(k+1)) << uint(29-k)) + r.Intn(3) - 1
			if v < 0 {
				v = 0
			}
			if v >= s2.MaxSize {
				v = s2.MaxSize - 1
			}
			return v
		default:
			return r.Intn(s2.MaxSize)
		}
	}
	return s2.VerifCellIDFromFaceIJ(face, coord(), coord()).Parent(level)
}

func genC01(g *G) {
	r := g.rng
	// exhaustive low levels
	maxEx := 3
	if g.thorough {
		maxEx = 5
	}
	var exhaustive []s2.CellID
	for l := 0; l <= maxEx; l++ {
		for c := s2.CellIDFromFace(0).ChildBeginAtLevel(l); c != s2.CellIDFromFace(5).ChildEndAtLevel(l); c = c.Next() {
			exhaustive = append(exhaustive, c)
		}
	}
	one := func(c s2.CellID) {
		g.emit("cid", idx(c))
		lv := c.Level()
		vl := -1
		if lv > 0 {
			vl = r.Intn(lv)
			if r.Bool() {
				vl = lv - 1
			}
		}
		g.emit("cidnbr", idx(c), is(vl), is(lv))
		if lv < 30 {
			nl := lv + 1 + r.Intn(minI(3, 30-lv))
			g.emit("cidnbr", idx(c), is(vl), is(nl))
		}
		pl := r.Intn(lv + 1)
		g.emit("cidpar", idx(c), is(pl))
		if lv < 30 {
			g.emit("cidchl", idx(c), is(lv+r.Intn(31-lv)))
		}
		f, i, j, _ := s2.VerifFaceIJOrientation(c)
		g.emit("cidfij", is(f), is(i), is(j))
		g.emit("cidfpl", is(c.Face()), hx(c.Pos()^(r.U64()&(s2.VerifLsb(c)-1))), is(lv))
		g.emit("cidtok", c.ToToken())
		g.emit("cidstr", c.String())
		// advance: small, large, wrapping, extreme
		var steps int64
		switch r.Intn(5) {
		case 0:
			steps = int64(r.Intn(9) - 4)
		case 1:
			steps = int64(r.U64())
		case 2:
			steps = int64(r.U64() >> uint(r.Intn(64)))
		case 3:
			steps = -int64(r.U64() >> uint(r.Intn(64)))
		default:
			steps = []int64{math.MaxInt64, math.MinInt64, math.MinInt64 + 1, 1, -1}[r.Intn(5)]
		}
		g.emit("cidadv", idx(c), i64s(steps))
	}
	for k, c := range exhaustive {
		if k%g.shardM == g.shardK {
			one(c)
		}
	}
	for k := 0; k < g.n; k++ {
		c := g.randCell()
		one(c)
		// pairs: related (ancestor/descendant/sibling/neighbour) and unrelated
		var d s2.CellID
		switch r.Intn(6) {
		case 0:
			d = c.Parent(r.Intn(c.Level() + 1))
		case 1:
			d = g.randCell()
		case 2:
			d = c.Next()
		case 3:
			d = c.Prev()
		case 4:
			d = c.RangeMin()
		default:
			d = s2.CellID(uint64(c) ^ (1 << uint(r.Intn(64))))
		}
		if d.IsValid() {
			g.emit("cidpair", idx(c), idx(d))
			g.emit("cidpair", idx(d), idx(c))
			g.emit("cidtile", idx(c), idx(d))
			g.emit("cidtile", idx(d), idx(c))
		}
		// validity of arbitrary words
		w := r.U64()
		if r.Bool() {
			w = uint64(c) ^ (1 << uint(r.Intn(64)))
		}
		g.emit("cidv", hx(w))
		// malformed tokens / strings
		if k%8 == 0 {
			toks := []string{"", "X", "x", "0", "g", "1f", "00000000000000001", "+1", "-1", "0x1", "1_0", "FFFF", "ffffffffffffffff", "3/", "6/0", "0/4", "0:1", "/", "0/0123012301230123012301230123012", "5/333"}
			g.emit("cidtok", strTok(toks[r.Intn(len(toks))]))
			g.emit("cidstr", strTok(toks[r.Intn(len(toks))]))
		}
		// points: on cell boundaries ± ulps, face seams, cube corners
		p := g.boundaryPoint(c)
		g.emit("cidpt", fx(p.X), fx(p.Y), fx(p.Z))
		// points whose u or v sits exactly at the float threshold where uvToST/stToIJ switches leaf cells
		for _, q := range g.marginPoints() {
			g.emit("cidpt", fx(q.X), fx(q.Y), fx(q.Z))
		}
	}
}

func minI(a, b int) int {
	if a < b {
		return a
	}
	return b
}

// boundaryPoint produces a point on / next to the boundary of c (or a seam / corner).
// c01Key maps a float to an integer that is monotone in the float order (so that floats can be bisected).
func c01Key(f float64) int64 {
	b := int64(math.Float64bits(f))
	if b < 0 {
		return math.MinInt64 - b
	}
	return b
}

func c01Unkey(k int64) float64 {
	if k < 0 {
		return math.Float64frombits(uint64(math.MinInt64 - k))
	}
	return math.Float64frombits(uint64(k))
}

// c01Threshold returns the smallest float u with stToIJ(uvToST(u)) >= i (1 <= i <= MaxSize-1), found by bisection
// over the float order with the library's OWN conversion functions (hooks), i.e. the exact place where
// CellIDFromPoint switches from leaf column i-1 to leaf column i.  The uv bound of column i starts at
// stToUV(i/2^30); the property "the leaf cell contains the point" is decided by how far below that value the
// threshold lies (Cell.ContainsPoint allows a margin).
func c01Threshold(i int) float64 {
	at := func(k int64) bool { return s2.VerifStToIJ(s2.VerifUVToST(c01Unkey(k))) >= i }
	ub := s2.VerifStToUV(s2.VerifIJToSTMin(i))
	lo, hi := c01Key(ub), c01Key(ub)
	for st := int64(1 << 20); at(lo); st *= 2 {
		lo -= st
	}
	for st := int64(1 << 20); !at(hi); st *= 2 {
		hi += st
	}
	for hi-lo > 1 {
		m := lo + (hi-lo)/2
		if at(m) {
			hi = m
		} else {
			lo = m
		}
	}
	return c01Unkey(hi)
}

// marginPoints: points (unit length and not — CellIDFromPoint does not require normalisation) whose u and / or v
// coordinate on some face is the first / last float of a leaf column or row, or within two floats of it.
func (g *G) marginPoints() []s2.Point {
	r := g.rng
	pick := func() int {
		switch r.Intn(5) {
		case 0:
			return 1 + r.Intn(s2.MaxSize-1)
		case 1: // lower half of the face (u < 0): both conversions subtract from 1
			return 1 + r.Intn(s2.MaxSize/2)
		case 2:
			return s2.MaxSize - 1 - r.Intn(1<<uint(1+r.Intn(29)))
		case 3:
			return 1 + r.Intn(1<<uint(1+r.Intn(29)))
		default: // multiples of a coarse cell size: boundaries of ancestors too
			lv := r.Intn(30)
			k := 1 + r.Intn(1<<uint(lv+1)-1)
			return k << uint(29-lv)
		}
	}
	near := func(i int) float64 {
		u := c01Threshold(i)
		for k := r.Intn(5) - 2; k != 0; {
			if k > 0 {
				u = math.Nextafter(u, 2)
				k--
			} else {
				u = math.Nextafter(u, -2)
				k++
			}
		}
		return u
	}
	var out []s2.Point
	f := r.Intn(6)
	var u, v float64
	switch r.Intn(3) {
	case 0:
		u, v = near(pick()), r.Float()*2-1
	case 1:
		u, v = r.Float()*2-1, near(pick())
	default:
		u, v = near(pick()), near(pick())
	}
	raw := s2.VerifFaceUVToXYZ(f, u, v)
	out = append(out, s2.Point{Vector: raw})
	// unit-length variants: normalise, then look in the ±2-ulp neighbourhood of the two small coordinates for
	// points whose recomputed (u,v) are again the threshold floats
	n := raw.Normalize()
	out = append(out, s2.Point{Vector: n})
	for t := 0; t < 6; t++ {
		q := n
		nd := func(x float64) float64 {
			for k := r.Intn(5) - 2; k != 0; {
				if k > 0 {
					x = math.Nextafter(x, 2)
					k--
				} else {
					x = math.Nextafter(x, -2)
					k++
				}
			}
			return x
		}
		q.X, q.Y, q.Z = nd(q.X), nd(q.Y), nd(q.Z)
		if _, uu, vv := s2.VerifXYZToFaceUV(q); uu == u || vv == v {
			out = append(out, s2.Point{Vector: q})
		}
	}
	return out
}

func (g *G) boundaryPoint(c s2.CellID) s2.Point {
	r := g.rng
	cell := s2.CellFromCellID(c)
	var p s2.Point
	switch r.Intn(6) {
	case 0:
		p = cell.Vertex(r.Intn(4))
	case 1:
		a, b := cell.Vertex(r.Intn(4)), cell.Vertex(r.Intn(4))
		p = s2.Point{Vector: a.Add(b.Vector).Normalize()}
	case 2:
		p = cell.Center()
	case 3: // seam: |u| = 1 exactly on some face
		v := r.Float()*2 - 1
		vec := [3]float64{1, 1, v}
		if r.Bool() {
			vec[0] = -1
		}
		if r.Bool() {
			vec[1] = -1
		}
		k := r.Intn(3)
		vec[0], vec[k] = vec[k], vec[0]
		p = s2.Point{Vector: r3.Vector{X: vec[0], Y: vec[1], Z: vec[2]}}
		if r.Bool() {
			p = s2.Point{Vector: p.Normalize()}
		}
	case 4: // cube corner
		sg := func() float64 {
			if r.Bool() {
				return 1
			}
			return -1
		}
		p = s2.Point{Vector: r3.Vector{X: sg(), Y: sg(), Z: sg()}}
		if r.Bool() {
			p = s2.Point{Vector: p.Normalize()}
		}
	default:
		p = s2.Point{Vector: r3.Vector{X: r.Float()*2 - 1, Y: r.Float()*2 - 1, Z: r.Float()*2 - 1}.Normalize()}
	}
	// perturb by a few ulps
	nudge := func(x float64) float64 {
		k := r.Intn(7) - 3
		for ; k > 0; k-- {
			x = math.Nextafter(x, math.Inf(1))
		}
		for ; k < 0; k++ {
			x = math.Nextafter(x, math.Inf(-1))
		}
		return x
	}
	if r.Intn(3) != 0 {
		p = s2.Point{Vector: r3.Vector{X: nudge(p.X), Y: nudge(p.Y), Z: nudge(p.Z)}}
	}
	if p.X == 0 && p.Y == 0 && p.Z == 0 {
		p.X = 1
	}
	return p
}
