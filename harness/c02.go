package main

// C02 — orientation and distance predicates.  Every op prints the result of each internal stage
// (through the hooks of s2/verif_export_c02.go) next to the public result, plus a token `st:<stage>`
// naming the stage that decided, so that the driver can count stages.
//
//   c02const                         = 12 float64 constants (bit patterns)
//   c02sign   a b c   (unit points)  = tri stab exU exP exp rob sgnABC sgnCBA rBCA rCAB rBAC rACB rCBA st:<tri|eq|stab|exact|sym>
//   c02exsign a b c   (any finite)   = exU exP
//   c02cmpd   x a b   (unit points)  = triCos sin2raw sin2used exact sym pub pubSwapped st:<cos|eq|sin2|exact|sym>
//   c02excmpd x a b   (any finite)   = exact sym
//   c02cmpr   x y r   (unit points)  = triCos sin2used exact pub st:<cos|sin2|exact>     (exact = "na" for non-finite r)
//   c02excmpr x y r   (any finite)   = exact
//   c02sdp    a b     (|v|^2 <= 2)   = tri exact pub st:<tri|exact>
//   c02occw   a b c o (unit points)  = T|F
//   c02chiro  p0 … p(n-1) (n = 4, 5) = RobustSign of all triples i<j<k, comma separated

import (
	"math"
	"math/big"
	"strings"

	"github.com/golang/geo/r3"
	"github.com/golang/geo/s1"
	"github.com/golang/geo/s2"
)

func rawPt(x, y, z float64) s2.Point { return s2.Point{Vector: r3.Vector{X: x, Y: y, Z: z}} }

func pPtsC02(a []string, n int) []s2.Point {
	r := make([]s2.Point, n)
	for i := 0; i < n; i++ {
		r[i] = rawPt(pF(a[3*i]), pF(a[3*i+1]), pF(a[3*i+2]))
	}
	return r
}

func ptArgs(ps ...s2.Point) []string {
	var r []string
	for _, p := range ps {
		r = append(r, fx(p.X), fx(p.Y), fx(p.Z))
	}
	return r
}

func init() {
	replayers["c02const"] = func(a []string) []string {
		var r []string
		for _, c := range s2.VerifC02Constants() {
			r = append(r, fx(c))
		}
		return r
	}
	replayers["c02sign"] = func(s []string) []string {
		p := pPtsC02(s, 3)
		a, b, c := p[0], p[1], p[2]
		tri := int(s2.VerifTriageSign(a, b, c))
		stab := int(s2.VerifStableSign(a, b, c))
		exU := int(s2.VerifExactSign(a, b, c, false))
		exP := int(s2.VerifExactSign(a, b, c, true))
		exp := int(s2.VerifExpensiveSign(a, b, c))
		rob := int(s2.RobustSign(a, b, c))
		st := "sym"
		switch {
		case tri != 0:
			st = "tri"
		case a == b || b == c || c == a:
			st = "eq"
		case stab != 0:
			st = "stab"
		case exU != 0:
			st = "exact"
		}
		return []string{is(tri), is(stab), is(exU), is(exP), is(exp), is(rob),
			bs(s2.Sign(a, b, c)), bs(s2.Sign(c, b, a)),
			is(int(s2.RobustSign(b, c, a))), is(int(s2.RobustSign(c, a, b))),
			is(int(s2.RobustSign(b, a, c))), is(int(s2.RobustSign(a, c, b))), is(int(s2.RobustSign(c, b, a))),
			"st:" + st}
	}
	replayers["c02exsign"] = func(s []string) []string {
		p := pPtsC02(s, 3)
		return []string{is(int(s2.VerifExactSign(p[0], p[1], p[2], false))), is(int(s2.VerifExactSign(p[0], p[1], p[2], true)))}
	}
	replayers["c02cmpd"] = func(s []string) []string {
		p := pPtsC02(s, 3)
		x, a, b := p[0], p[1], p[2]
		triCos := s2.VerifTriageCompareCosDistances(x, a, b)
		sin2raw := s2.VerifTriageCompareSin2Distances(x, a, b)
		sin2used := 0
		cosAX := a.Dot(x.Vector)
		if cosAX > 1/math.Sqrt2 {
			sin2used = sin2raw
		} else if cosAX < -1/math.Sqrt2 {
			sin2used = -sin2raw
		}
		exact := s2.VerifExactCompareDistances(x, a, b)
		sym := s2.VerifSymbolicCompareDistances(x, a, b)
		st := "sym"
		switch {
		case triCos != 0:
			st = "cos"
		case a == b:
			st = "eq"
		case sin2used != 0:
			st = "sin2"
		case exact != 0:
			st = "exact"
		}
		return []string{is(triCos), is(sin2raw), is(sin2used), is(exact), is(sym),
			is(s2.CompareDistances(x, a, b)), is(s2.CompareDistances(x, b, a)), "st:" + st}
	}
	replayers["c02excmpd"] = func(s []string) []string {
		p := pPtsC02(s, 3)
		return []string{is(s2.VerifExactCompareDistances(p[0], p[1], p[2])), is(s2.VerifSymbolicCompareDistances(p[0], p[1], p[2]))}
	}
	replayers["c02cmpr"] = func(s []string) []string {
		p := pPtsC02(s, 2)
		x, y := p[0], p[1]
		r := pF(s[6])
		triCos := s2.VerifTriageCompareCosDistance(x, y, r)
		sin2used := 0
		if s1.ChordAngle(r) < s2.VerifCa45Degrees() {
			sin2used = s2.VerifTriageCompareSin2Distance(x, y, r)
		}
		exact := "na"
		exactV := 0
		if !math.IsInf(r, 0) && !math.IsNaN(r) {
			exactV = s2.VerifExactCompareDistance(x, y, r)
			exact = is(exactV)
		}
		st := "exact"
		switch {
		case triCos != 0:
			st = "cos"
		case sin2used != 0:
			st = "sin2"
		}
		return []string{is(triCos), is(sin2used), exact, is(s2.CompareDistance(x, y, s1.ChordAngle(r))), "st:" + st}
	}
	replayers["c02excmpr"] = func(s []string) []string {
		p := pPtsC02(s, 2)
		return []string{is(s2.VerifExactCompareDistance(p[0], p[1], pF(s[6])))}
	}
	replayers["c02err"] = func(s []string) []string {
		// the error bounds computed by cosDistance / sin2Distance themselves (bit patterns)
		ps := pPtsC02(s, 2)
		c, ce := s2.VerifCosDistance(ps[0], ps[1])
		n, ne := s2.VerifSin2Distance(ps[0], ps[1])
		return []string{fx(c), fx(ce), fx(n), fx(ne)}
	}
	replayers["c02sdp"] = func(s []string) []string {
		p := pPtsC02(s, 2)
		tri := s2.VerifTriageSignDotProd(p[0], p[1])
		exact := r3.PreciseVectorFromVector(p[0].Vector).Dot(r3.PreciseVectorFromVector(p[1].Vector)).Sign()
		st := "exact"
		if tri != 0 {
			st = "tri"
		}
		return []string{is(tri), is(exact), is(s2.SignDotProd(p[0], p[1])), "st:" + st}
	}
	replayers["c02occw"] = func(s []string) []string {
		p := pPtsC02(s, 4)
		return []string{bs(s2.OrderedCCW(p[0], p[1], p[2], p[3]))}
	}
	replayers["c02chiro"] = func(s []string) []string {
		n := len(s) / 3
		p := pPtsC02(s, n)
		var r []string
		for i := 0; i < n; i++ {
			for j := i + 1; j < n; j++ {
				for k := j + 1; k < n; k++ {
					r = append(r, is(int(s2.RobustSign(p[i], p[j], p[k]))))
				}
			}
		}
		return []string{strings.Join(r, ",")}
	}
	generators["c02"] = genC02
}

// ---------------------------------------------------------------------------------------------
// generators

// ulps moves f by k units in the last place (k may be negative).
func ulps(f float64, k int) float64 {
	for ; k > 0; k-- {
		f = math.Nextafter(f, math.Inf(1))
	}
	for ; k < 0; k++ {
		f = math.Nextafter(f, math.Inf(-1))
	}
	return f
}

func norm(x, y, z float64) s2.Point { return s2.Point{Vector: r3.Vector{X: x, Y: y, Z: z}.Normalize()} }

// permAxes applies one of the 6 coordinate permutations and a sign pattern (keeps exact coplanarity).
func permAxes(p s2.Point, perm int, signs int) s2.Point {
	c := [3]float64{p.X, p.Y, p.Z}
	idx := [6][3]int{{0, 1, 2}, {0, 2, 1}, {1, 0, 2}, {1, 2, 0}, {2, 0, 1}, {2, 1, 0}}[perm%6]
	q := [3]float64{c[idx[0]], c[idx[1]], c[idx[2]]}
	for i := 0; i < 3; i++ {
		if signs>>uint(i)&1 == 1 {
			q[i] = -q[i]
		}
	}
	return rawPt(q[0], q[1], q[2])
}

// c02Unit returns a structured unit-length point.
func (g *G) c02Unit() s2.Point {
	r := g.rng
	u := func() float64 { return r.Float()*2 - 1 }
	switch r.Intn(10) {
	case 0: // coordinate axis
		return permAxes(rawPt(1, 0, 0), r.Intn(6), r.Intn(8))
	case 1: // in a coordinate plane
		return permAxes(norm(u(), u(), 0), r.Intn(6), 0)
	case 2: // on a diagonal plane x == y
		t := u()
		return permAxes(norm(t, t, u()), r.Intn(6), r.Intn(8))
	case 3: // few mantissa bits (dyadic direction)
		return norm(float64(r.Intn(17)-8), float64(r.Intn(17)-8), float64(r.Intn(16)+1))
	case 4: // next to an axis with tiny (possibly subnormal) components
		k := g.tinyK()
		return permAxes(rawPt(1, math.Ldexp(float64(r.Intn(9)-4), -k), math.Ldexp(float64(r.Intn(9)-4), -k)), r.Intn(6), r.Intn(8))
	default:
		return norm(u(), u(), u())
	}
}

// jitter moves one or two coordinates by at most 2 ulps each, so that a point produced by Normalize stays
// inside the C++ IsUnitLength tolerance |norm2 - 1| <= 5 eps that the float stages assume.
func (g *G) jitter(p s2.Point, maxK int) s2.Point {
	r := g.rng
	if maxK > 2 {
		maxK = 2
	}
	c := [3]float64{p.X, p.Y, p.Z}
	n := 1 + r.Intn(2)
	for i := 0; i < n; i++ {
		j := r.Intn(3)
		c[j] = ulps(c[j], r.Intn(2*maxK+1)-maxK)
	}
	return rawPt(c[0], c[1], c[2])
}

// c02Triple returns a boundary-targeted triple of unit points.
func (g *G) c02Triple() (a, b, c s2.Point) {
	r := g.rng
	a, b = g.c02Unit(), g.c02Unit()
	switch r.Intn(14) {
	case 0, 1, 2: // c = rn(s*a + t*b) +- k ulps
		s, t := r.Float()*2-1, r.Float()*2-1
		if r.Intn(4) == 0 {
			s, t = float64(r.Intn(9)-4), float64(r.Intn(9)-4)
		}
		c = norm(s*a.X+t*b.X, s*a.Y+t*b.Y, s*a.Z+t*b.Z)
		if c.Norm2() == 0 {
			c = g.c02Unit()
		}
		c = g.jitter(c, 3)
	case 3: // exactly coplanar: all in one coordinate plane
		perm := r.Intn(6)
		u := func() float64 { return r.Float()*2 - 1 }
		a = permAxes(norm(u(), u(), 0), perm, 0)
		b = permAxes(norm(u(), u(), 0), perm, 0)
		c = permAxes(norm(u(), u(), 0), perm, 0)
		if r.Intn(3) == 0 {
			c = g.jitter(c, 2)
		}
	case 4: // exactly coplanar: plane x == y (up to a permutation)
		perm, sg := r.Intn(6), r.Intn(8)
		mk := func() s2.Point {
			t := r.Float()*2 - 1
			return permAxes(norm(t, t, r.Float()*2-1), perm, sg)
		}
		a, b, c = mk(), mk(), mk()
	case 5: // two identical
		switch r.Intn(3) {
		case 0:
			b = a
			c = g.c02Unit()
		case 1:
			c = a
		default:
			c = b
		}
		if r.Intn(4) == 0 {
			b, c = a, a
		}
	case 6: // 1..3 ulps apart
		b = g.jitter(a, 3)
		if r.Bool() {
			c = g.jitter(a, 3)
		} else {
			c = g.c02Unit()
		}
	case 7: // antipodal / nearly antipodal pair
		b = rawPt(-a.X, -a.Y, -a.Z)
		if r.Bool() {
			b = g.jitter(b, 3)
		}
		c = g.c02Unit()
		if r.Intn(3) == 0 {
			c = g.jitter(a, 2)
		}
	case 8, 9: // separations 2^-k around an axis: (1, u 2^-k, v 2^-k), small integer u, v (often collinear)
		k := g.tinyK()
		perm, sg := r.Intn(6), r.Intn(8)
		mk := func(u, v int) s2.Point {
			return permAxes(rawPt(1, math.Ldexp(float64(u), -k), math.Ldexp(float64(v), -k)), perm, sg)
		}
		u0, v0, du, dv := r.Intn(7)-3, r.Intn(7)-3, r.Intn(5)-2, r.Intn(5)-2
		a = mk(u0, v0)
		b = mk(u0+du, v0+dv)
		if r.Bool() {
			m := r.Intn(5) - 2
			c = mk(u0+m*du, v0+m*dv) // collinear in the tangent plane => det == 0 exactly
		} else {
			c = mk(r.Intn(9)-4, r.Intn(9)-4)
		}
	case 10: // b = a + 2^-k d (renormalised), c between
		k := r.Intn(60)
		d := g.c02Unit()
		e := math.Ldexp(1, -k)
		b = norm(a.X+e*d.X, a.Y+e*d.Y, a.Z+e*d.Z)
		t := r.Float()
		c = norm(a.X+t*e*d.X, a.Y+t*e*d.Y, a.Z+t*e*d.Z)
		if r.Bool() {
			c = g.jitter(c, 2)
		}
	case 11: // a, b and a point of the great circle through them: +-(a+b), +-(a-b)
		s := []float64{1, -1}[r.Intn(2)]
		c = norm(a.X+s*b.X, a.Y+s*b.Y, a.Z+s*b.Z)
		if c.Norm2() == 0 {
			c = g.c02Unit()
		}
	default:
		c = g.c02Unit()
	}
	return
}

// c02AnyVec returns an arbitrary finite (not necessarily unit) vector for the exact stages.
func (g *G) c02AnyVec() s2.Point {
	r := g.rng
	switch r.Intn(6) {
	case 0: // small integers (many exactly coplanar / collinear / zero components)
		return rawPt(float64(r.Intn(7)-3), float64(r.Intn(7)-3), float64(r.Intn(7)-3))
	case 1: // 0 / +-1 / subnormal components
		v := func() float64 {
			switch r.Intn(5) {
			case 0:
				return 0
			case 1:
				return math.Copysign(0, -1)
			case 2:
				return math.Ldexp(float64(r.Intn(7)-3), -1074)
			case 3:
				return float64(r.Intn(3) - 1)
			}
			return math.Ldexp(float64(r.Intn(7)-3), -r.Intn(1075))
		}
		return rawPt(v(), v(), v())
	case 2: // scaled unit points
		p := g.c02Unit()
		s := math.Ldexp(1+r.Float(), r.Intn(200)-100)
		return rawPt(s*p.X, s*p.Y, s*p.Z)
	case 3: // huge
		return rawPt(math.Ldexp(r.Float()-0.5, 300), math.Ldexp(r.Float()-0.5, 300), math.Ldexp(r.Float()-0.5, 300))
	default:
		return g.c02Unit()
	}
}

func genC02(g *G) {
	r := g.rng
	g.emit("c02const")
	for it := 0; it < g.n; it++ {
		// ---- orientation of unit triples
		a, b, c := g.c02Triple()
		if r.Intn(3) == 0 { // random argument order
			switch r.Intn(3) {
			case 0:
				a, b, c = b, c, a
			case 1:
				a, c = c, a
			default:
				a, b = b, a
			}
		}
		g.emit("c02sign", ptArgs(a, b, c)...)

		// ---- exact stage on arbitrary finite vectors
		if it%2 == 0 {
			va, vb, vc := g.c02AnyVec(), g.c02AnyVec(), g.c02AnyVec()
			switch r.Intn(5) {
			case 0: // vc integer combination (exactly coplanar when representable)
				s, t := float64(r.Intn(7)-3), float64(r.Intn(7)-3)
				vc = rawPt(s*va.X+t*vb.X, s*va.Y+t*vb.Y, s*va.Z+t*vb.Z)
			case 1:
				vc = vb
			case 2: // multiples of one vector (rank 1)
				vb = rawPt(2*va.X, 2*va.Y, 2*va.Z)
				vc = rawPt(-va.X, -va.Y, -va.Z)
			}
			fin := func(p s2.Point) bool {
				return !math.IsInf(p.X, 0) && !math.IsInf(p.Y, 0) && !math.IsInf(p.Z, 0) && !math.IsNaN(p.X) && !math.IsNaN(p.Y) && !math.IsNaN(p.Z)
			}
			if fin(va) && fin(vb) && fin(vc) {
				g.emit("c02exsign", ptArgs(va, vb, vc)...)
				g.emit("c02excmpd", ptArgs(va, vb, vc)...)
				rr := []float64{0, 1, 2, 3, 4, 0.5, math.Ldexp(1, -1074), r.Float() * 4, 2 - math.Sqrt2}[r.Intn(9)]
				g.emit("c02excmpr", append(ptArgs(va, vb), fx(rr))...)
			}
		}

		// ---- OrderedCCW around a common point
		if it%4 == 1 {
			o := g.c02Unit()
			g.emit("c02occw", ptArgs(a, b, c, o)...)
			g.emit("c02occw", ptArgs(a, b, c, a)...)
		}

		// ---- 4- and 5-tuples from one pool (consistency of all triples)
		if it%4 == 3 {
			n := 4 + r.Intn(2)
			var pool []s2.Point
			switch r.Intn(4) {
			case 0: // all in one coordinate plane plus maybe a pole
				perm := r.Intn(6)
				for len(pool) < n {
					pool = append(pool, permAxes(norm(r.Float()*2-1, r.Float()*2-1, 0), perm, 0))
				}
				if r.Bool() {
					pool[r.Intn(n)] = permAxes(rawPt(0, 0, 1), perm, 0)
				}
			case 1: // tangent-plane lattice at scale 2^-k: many collinear triples
				k := g.tinyK()
				perm, sg := r.Intn(6), r.Intn(8)
				for len(pool) < n {
					pool = append(pool, permAxes(rawPt(1, math.Ldexp(float64(r.Intn(5)-2), -k), math.Ldexp(float64(r.Intn(5)-2), -k)), perm, sg))
				}
			case 2: // the triple above, its antipodes and combinations
				pool = []s2.Point{a, b, c, rawPt(-a.X, -a.Y, -a.Z), rawPt(-b.X, -b.Y, -b.Z)}[:n]
			default:
				for len(pool) < n {
					pool = append(pool, g.c02Unit())
				}
			}
			// distinctness is not required: equal points simply give 0
			g.emit("c02chiro", ptArgs(pool...)...)
		}

		// ---- distances from a common point
		x := g.c02Unit()
		da, db := g.c02Unit(), g.c02Unit()
		switch r.Intn(12) {
		case 0: // mirror images: x on the plane X == Y, b = a with X and Y exchanged  => AX == BX exactly
			t := r.Float()*2 - 1
			x = norm(t, t, r.Float()*2-1)
			db = rawPt(da.Y, da.X, da.Z)
		case 1: // identical
			db = da
		case 2: // few ulps apart
			db = g.jitter(da, 3)
		case 3: // same direction, different length (same projected point)
			s := []float64{1 + 0x1p-52, 1 - 0x1p-53}[r.Intn(2)] // stays within the unit-length tolerance
			db = rawPt(s*da.X, s*da.Y, s*da.Z)
		case 4: // both near x
			k := r.Intn(60)
			e := math.Ldexp(1, -k)
			d1, d2 := g.c02Unit(), g.c02Unit()
			da = norm(x.X+e*d1.X, x.Y+e*d1.Y, x.Z+e*d1.Z)
			db = norm(x.X+e*d2.X, x.Y+e*d2.Y, x.Z+e*d2.Z)
		case 5: // both near -x
			k := r.Intn(60)
			e := math.Ldexp(1, -k)
			d1, d2 := g.c02Unit(), g.c02Unit()
			da = norm(-x.X+e*d1.X, -x.Y+e*d1.Y, -x.Z+e*d1.Z)
			db = norm(-x.X+e*d2.X, -x.Y+e*d2.Y, -x.Z+e*d2.Z)
		case 6: // tiny separations next to an axis, equal or nearly equal distances
			k := g.tinyK()
			perm, sg := r.Intn(6), r.Intn(8)
			mk := func(u, v int) s2.Point {
				return permAxes(rawPt(1, math.Ldexp(float64(u), -k), math.Ldexp(float64(v), -k)), perm, sg)
			}
			x = mk(0, 0)
			u, v := r.Intn(7)-3, r.Intn(7)-3
			da = mk(u, v)
			switch r.Intn(3) {
			case 0:
				db = mk(v, u)
			case 1:
				db = mk(-u, v)
			default:
				db = mk(r.Intn(7)-3, r.Intn(7)-3)
			}
		case 7: // distances near 45 / 135 degrees (the sin^2 switch)
			s := []float64{1, -1}[r.Intn(2)]
			da = g.jitter(norm(s*x.X+ortho(x).X, s*x.Y+ortho(x).Y, s*x.Z+ortho(x).Z), 3)
			db = g.jitter(da, 3)
		case 8: // both perpendicular to x
			o := ortho(x)
			da = o
			db = g.jitter(rawPt(-o.X, -o.Y, -o.Z), 2)
		case 9: // a, b equidistant-ish: b = rotation of a about x by a float angle
			db = s2.Rotate(da, x, s1.Angle(r.Float()*6))
		case 10: // a and b within one or two ulps of x in every coordinate, (almost) RADIALLY: a ~ x(1+u), b ~ x(1-u).  The angles are
			// ~1e-16, x-a is nearly parallel to x+a, the cross product of the sin^2 stage cancels to ~1e-32 and only the
			// ABSOLUTE term of its error bound covers the rounding error (seeded change C02_3)
			nud := func(v float64, k int) float64 {
				for ; k > 0; k-- {
					v = math.Nextafter(v, v*2)
				}
				for ; k < 0; k++ {
					v = math.Nextafter(v, 0)
				}
				return v
			}
			ka := []int{1, 1, 1}
			kb := []int{-1, -1, -1}
			if r.Intn(3) == 0 { // not quite radial
				ka[r.Intn(3)] = r.Intn(3)
				kb[r.Intn(3)] = -r.Intn(3)
			}
			if r.Bool() {
				ka, kb = kb, ka
			}
			da = rawPt(nud(x.X, ka[0]), nud(x.Y, ka[1]), nud(x.Z, ka[2]))
			db = rawPt(nud(x.X, kb[0]), nud(x.Y, kb[1]), nud(x.Z, kb[2]))
		}
		g.emit("c02cmpd", ptArgs(x, da, db)...)
		g.emit("c02err", ptArgs(x, da)...)

		// ---- distance against a chord-angle limit
		y := da
		if r.Intn(5) == 0 {
			y = x
		}
		if r.Intn(7) == 0 {
			y = rawPt(-x.X, -x.Y, -x.Z)
		}
		var rr float64
		switch r.Intn(10) {
		case 0, 1, 2, 3: // the computed distance itself +- a few ulps
			rr = ulps(math.Min(4, x.Sub(y.Vector).Norm2()), r.Intn(7)-3)
		case 4:
			rr = []float64{0, 4, 2, 1, 3, 2 - math.Sqrt2, ulps(2-math.Sqrt2, 1), ulps(2-math.Sqrt2, -1)}[r.Intn(8)]
		case 5:
			rr = math.Inf(1)
		case 6:
			rr = -1
		case 7:
			rr = math.Ldexp(1+r.Float(), -r.Intn(1074))
		case 8: // exact squared chord length when representable: 2 - 2 x.y
			rr = 2 - 2*x.Dot(y.Vector)
		default:
			rr = r.Float() * 4
		}
		if rr > 4 && !math.IsInf(rr, 1) {
			rr = 4
		}
		if rr < 0 && rr != -1 {
			rr = 0
		}
		g.emit("c02cmpr", append(ptArgs(x, y), fx(rr))...)
		if it%8 == 3 { // limits beyond 90 degrees with nearly antipodal points (finding D54)
			ox, oy, orr := g.c02Obtuse()
			g.emit("c02cmpr", append(ptArgs(ox, oy), fx(orr))...)
		}

		// ---- sign of a dot product (|v|^2 <= 2 allowed)
		sa, sb := g.c02Unit(), g.c02Unit()
		switch r.Intn(8) {
		case 0: // exactly perpendicular in a coordinate plane
			perm := r.Intn(6)
			p := norm(r.Float()*2-1, r.Float()*2-1, 0)
			sa = permAxes(p, perm, 0)
			sb = permAxes(rawPt(-p.Y, p.X, 0), perm, 0)
		case 1: // nearly perpendicular
			sb = g.jitter(ortho(sa), 3)
		case 2: // un-normalised cell edge normals (1, 0, -u), (0, 1, -v), |.|^2 <= 2
			u := r.Float()*2 - 1
			sa = permAxes(rawPt(1, 0, -u), r.Intn(6), r.Intn(8))
		case 3: // tiny dot products
			k := g.tinyK()
			sa = rawPt(1, math.Ldexp(float64(r.Intn(7)-3), -k), 0)
			sb = rawPt(math.Ldexp(float64(r.Intn(7)-3), -k), 1, math.Ldexp(float64(r.Intn(7)-3), -k))
		case 4: // exact cancellation x*y - y*x with a third tiny term
			p := norm(r.Float()*2-1, r.Float()*2-1, 0)
			sa = rawPt(p.X, p.Y, math.Ldexp(float64(r.Intn(3)-1), -r.Intn(1075)))
			sb = rawPt(-p.Y, p.X, math.Ldexp(float64(r.Intn(3)-1), -r.Intn(1075)))
		}
		g.emit("c02sdp", ptArgs(sa, sb)...)
	}
}

// ---- limits beyond 90 degrees (r2 in (2, 4]) with nearly antipodal points: finding D54 -----------------------
//
// `triageCompareCosDistance` computed cosRError = 2*dblError*cosR without math.Abs: for r2 > 2 the bound SHRANK by
// 2u|cos r| (u = 2^-53).  It is decisive only when both points have norms at the upper end of what Normalize
// can produce (1 + 3.6u) or, for merely IsUnit points, when fl(x.x) = 1 + 10u.  Three sub-families, all in
// contract (exact | |p|^2 - 1 | <= 8.25u is CHECKED with big.Rat, so the repaired code is provably exact on them):
//   (a) c02D54Seeds: pairs of PointFromCoords INPUTS for which all ten roundings of Normalize go the same way
//       (found by a constructive search, floaterr3/search): x = PFC(v), y = PFC(-w1, -w2, +w3), limit 4 - k*2^-51;
//   (b) x = (sh+i ulp, sh+j ulp, sqrt(q u)), sh = fl(sqrt(1/2)), i, j in 0..4, q in [0.9, 1.5], y = -x (exactly
//       antipodal: the exact answer for r2 = 4 is 0), limit 4 or a few ulps below;
//   (c) generic: x a Normalize output, y = Normalize(-x + tiny offset), limit = computed squared chord +- 3 ulps,
//       clamped into (2, 4].
var c02D54Seeds = [][7]uint64{
	{0x3ff6a4f62b3d0ab0, 0x3ff6a2111555ab8e, 0x3e56839537fece62, 0x3ff6a4f62b996aad, 0x3ff6a21113f683f3, 0x3e56839537fece62, 0x400fffffffffffff}, // N1
	{0x3ff6a4f62b77fce4, 0x3ff6a21114513799, 0x3e56839537fece62, 0x3ff6a4f62ac66c81, 0x3ff6a2111622e129, 0x3e56839537fece62, 0x400fffffffffffff}, // N2
	{0x3ff6a4f62b8c3596, 0x3ff6a21115063428, 0x3e6945dd74b364f3, 0x3ff6a4f62abb07cd, 0x3ff6a211164c28de, 0x3e6945dd74b364f3, 0x400ffffffffffffb}, // N3
	{0x3ff6a4f62b2d2945, 0x3ff6a2111582d5a5, 0x3e6945dd74b364f3, 0x3ff6a4f62baa1189, 0x3ff6a21113e59896, 0x3e6945dd74b364f3, 0x400ffffffffffffb},
	{0x3ff6a4f62b458347, 0x3ff6a21115c100d1, 0x3e6945dd74b364f3, 0x3ff6a4f62bb84a0e, 0x3ff6a211142dfca5, 0x3e6945dd74b364f3, 0x400ffffffffffffb},
	{0x3ff6a4f62ba5f4ac, 0x3ff6a2111496dcb6, 0x3e6945dd74b364f3, 0x3ff6a4f62aad9795, 0x3ff6a211161fbe5b, 0x3e6945dd74b364f3, 0x400ffffffffffffb},
	{0x3ff6a4f62ab87b49, 0x3ff6a21116319b46, 0x3e56839537fece62, 0x3ff6a4f62b9f000d, 0x3ff6a21115111c93, 0x3e56839537fece62, 0x400fffffffffffff},
	{0x3ff6a4f62ab36deb, 0x3ff6a21115a65a9a, 0x3e56839537fece62, 0x3ff6a4f62bbadf78, 0x3ff6a21114bb5d19, 0x3e56839537fece62, 0x400fffffffffffff},
	{0x3ff6a4f62bc36689, 0x3ff6a21114230b0f, 0x3e56839537fece62, 0x3ff6a4f62b4f9cca, 0x3ff6a211155facd2, 0x3e56839537fece62, 0x400fffffffffffff},
	{0x3ff6a4f62bcba7fc, 0x3ff6a21113e0ec04, 0x3e56839537fece62, 0x3ff6a4f62b90e2d9, 0x3ff6a21115595a57, 0x3e56839537fece62, 0x400fffffffffffff},
	{0x3ff6a4f62bbdbeb2, 0x3ff6a21113ef9e32, 0x3e56839537fece62, 0x3ff6a4f62af100bd, 0x3ff6a21114f4c4b3, 0x3e56839537fece62, 0x400fffffffffffff},
}

// c02NormedExact reports | |p|^2 - 1 | <= 33/2^55 (= 8.25 * 2^-53) for the EXACT squared norm.
func c02NormedExact(p s2.Point) bool {
	n2 := new(big.Rat)
	for _, c := range []float64{p.X, p.Y, p.Z} {
		if math.IsInf(c, 0) || math.IsNaN(c) {
			return false
		}
		q := new(big.Rat).SetFloat64(c)
		n2.Add(n2, q.Mul(q, q))
	}
	n2.Sub(n2, big.NewRat(1, 1))
	n2.Abs(n2)
	lim := new(big.Rat).SetFrac(big.NewInt(33), new(big.Int).Lsh(big.NewInt(1), 55))
	return n2.Cmp(lim) <= 0
}

func (g *G) c02Obtuse() (x, y s2.Point, r2 float64) {
	r := g.rng
	f := math.Float64frombits
	for try := 0; try < 8; try++ {
		switch r.Intn(4) {
		case 0, 1: // (a) seeds, mixed with each other, limit a few ulps around the seed's limit
			s, t := c02D54Seeds[r.Intn(len(c02D54Seeds))], c02D54Seeds[r.Intn(len(c02D54Seeds))]
			if r.Intn(2) == 0 {
				t = s
			}
			x = s2.PointFromCoords(f(s[0]), f(s[1]), f(s[2]))
			y = s2.PointFromCoords(-f(t[3]), -f(t[4]), f(t[5]))
			r2 = ulps(f(s[6]), r.Intn(5)-3)
			if r.Intn(6) == 0 {
				x, y = y, x
			}
		case 2: // (b) exactly antipodal IsUnit points whose float squared norm is up to 1 + 10u
			sh := math.Sqrt(0.5)
			q := 0.9 + 0.6*r.Float()
			x = rawPt(ulps(sh, r.Intn(5)), ulps(sh, r.Intn(5)), math.Sqrt(q*math.Ldexp(1, -53)))
			x = permAxes(x, r.Intn(6), r.Intn(8))
			y = rawPt(-x.X, -x.Y, -x.Z)
			r2 = ulps(4, -[]int{0, 0, 0, 1, 2, 5}[r.Intn(6)])
		default: // (c) generic nearly antipodal Normalize outputs, limit at the computed squared chord +- 3 ulps
			x = g.c02Unit()
			e := math.Ldexp(r.Float(), -[]int{8, 20, 26, 27, 40, 52}[r.Intn(6)])
			o := ortho(x)
			y = norm(-x.X+e*o.X, -x.Y+e*o.Y, -x.Z+e*o.Z)
			r2 = ulps(x.Sub(y.Vector).Norm2(), r.Intn(7)-3)
		}
		if r2 > 4 {
			r2 = 4
		}
		if r2 <= 2 {
			r2 = ulps(2, 1+r.Intn(3))
		}
		if c02NormedExact(x) && c02NormedExact(y) {
			return
		}
	}
	// fall back to an axis pair (always in contract)
	return rawPt(1, 0, 0), rawPt(-1, 0, 0), 4
}

// tinyK returns an exponent k in [30, 1074]: (1, u 2^-k, v 2^-k) with |u|,|v| <= 8 is unit length to within 2^-53,
// and k is biased towards the float64 boundaries (53, 537 = underflow of products, 1022.. = subnormal).
func (g *G) tinyK() int {
	r := g.rng
	switch r.Intn(5) {
	case 0:
		return 30 + r.Intn(40)
	case 1:
		return 500 + r.Intn(80)
	case 2:
		return 1010 + r.Intn(65)
	}
	return 30 + r.Intn(1045)
}

func ortho(p s2.Point) s2.Point { return s2.Point{Vector: p.Ortho()} }
