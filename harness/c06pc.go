package main

// C06 (context): PaddedCell integer bookkeeping of s2/paddedcell.go against the Lean model
// S2.PaddedCellM.  Ops (see lean/Oracle/C06pc.lean):
//   c06pcid     <id> <pad>
//   c06pcpath   <id> <pad> <path>
//   c06pcnext   <id> <pad>
//   c06pcshrink <id> <pad> <path> <xlo> <xhi> <ylo> <yhi>
// path = comma separated "ij" digit pairs, "-" = empty.
// Needs the hook s2/verif_export_c06pc.go (VerifC06pcFields).

import (
	"math"
	"strings"

	"github.com/golang/geo/r1"
	"github.com/golang/geo/r2"
	"github.com/golang/geo/s2"
)

func c06pcFields(p *s2.PaddedCell) []string {
	id, level, o, iLo, jLo := s2.VerifC06pcFields(p)
	return []string{idx(id), is(level), is(o), is(iLo), is(jLo)}
}

func c06pcPoint(p s2.Point) []string { return []string{fx(p.X), fx(p.Y), fx(p.Z)} }

func c06pcRect(r r2.Rect) []string { return []string{fx(r.X.Lo), fx(r.X.Hi), fx(r.Y.Lo), fx(r.Y.Hi)} }

func c06pcParsePath(s string) [][2]int {
	if s == "-" {
		return nil
	}
	var out [][2]int
	for _, t := range strings.Split(s, ",") {
		if len(t) != 2 {
			panic("bad path " + s)
		}
		out = append(out, [2]int{int(t[0] - '0'), int(t[1] - '0')})
	}
	return out
}

func c06pcShowPath(p [][2]int) string {
	if len(p) == 0 {
		return "-"
	}
	parts := make([]string, len(p))
	for k, ij := range p {
		parts[k] = is(ij[0]) + is(ij[1])
	}
	return strings.Join(parts, ",")
}

// c06pcDescend builds FromCellID(id) and follows the path with PaddedCellFromParentIJ.
func c06pcDescend(id s2.CellID, pad float64, path [][2]int) *s2.PaddedCell {
	p := s2.PaddedCellFromCellID(id, pad)
	for _, ij := range path {
		p = s2.PaddedCellFromParentIJ(p, ij[0], ij[1])
	}
	return p
}

func init() {
	replayers["c06pcid"] = func(a []string) []string {
		id := s2.CellID(pU64(a[0]))
		pad := pF(a[1])
		p := s2.PaddedCellFromCellID(id, pad)
		out := c06pcFields(p)
		out = append(out, c06pcPoint(p.EntryVertex())...)
		out = append(out, c06pcPoint(p.ExitVertex())...)
		out = append(out, c06pcPoint(p.Center())...)
		for pos := 0; pos < 4; pos++ {
			i, j := p.ChildIJ(pos)
			out = append(out, is(i), is(j))
		}
		out = append(out, c06pcRect(p.Bound())...)
		out = append(out, c06pcRect(p.Middle())...)
		return out
	}
	replayers["c06pcpath"] = func(a []string) []string {
		id := s2.CellID(pU64(a[0]))
		pad := pF(a[1])
		p := c06pcDescend(id, pad, c06pcParsePath(a[2]))
		out := c06pcFields(p)
		out = append(out, c06pcPoint(p.EntryVertex())...)
		out = append(out, c06pcPoint(p.ExitVertex())...)
		out = append(out, c06pcRect(p.Bound())...)
		q := s2.PaddedCellFromCellID(p.CellID(), pad)
		out = append(out, c06pcFields(q)...)
		out = append(out, c06pcPoint(q.EntryVertex())...)
		out = append(out, c06pcPoint(q.ExitVertex())...)
		out = append(out, c06pcRect(q.Bound())...)
		return out
	}
	replayers["c06pcnext"] = func(a []string) []string {
		id := s2.CellID(pU64(a[0]))
		pad := pF(a[1])
		p := s2.PaddedCellFromCellID(id, pad)
		q := s2.PaddedCellFromCellID(id.Next(), pad)
		return append(c06pcPoint(p.ExitVertex()), c06pcPoint(q.EntryVertex())...)
	}
	replayers["c06pcshrink"] = func(a []string) []string {
		id := s2.CellID(pU64(a[0]))
		pad := pF(a[1])
		p := c06pcDescend(id, pad, c06pcParsePath(a[2]))
		rect := r2.Rect{X: r1.Interval{Lo: pF(a[3]), Hi: pF(a[4])}, Y: r1.Interval{Lo: pF(a[5]), Hi: pF(a[6])}}
		return []string{idx(p.ShrinkToFit(rect))}
	}
	generators["c06pc"] = genC06pc
}

// c06pcPadding draws a padding >= 0: zero, the ShapeIndex cellPadding, tiny, moderate, large.
func c06pcPadding(r *RNG) float64 {
	switch r.Intn(8) {
	case 0:
		return 0
	case 1, 2:
		// cellPadding of shapeindex.go = 2*(faceClipErrorUVCoord + intersectsRectErrorUVDist)
		return 2 * (9.0*(1.0/math.Sqrt2)*2.220446049250313e-16 + 3*math.Sqrt2*2.220446049250313e-16)
	case 3:
		return 2.220446049250313e-16
	case 4:
		return math.Ldexp(1, -r.Range(20, 60))
	case 5:
		return r.Float() * 1e-3
	case 6:
		return r.Float() * 0.5
	default:
		return math.Ldexp(1+r.Float(), -r.Range(1, 40))
	}
}

// c06pcPath draws n steps: random, or hugging one corner, or alternating.
func c06pcPath(r *RNG, n int) [][2]int {
	path := make([][2]int, n)
	mode := r.Intn(5)
	ci, cj := r.Intn(2), r.Intn(2)
	for k := range path {
		switch mode {
		case 0: // always the same child
			path[k] = [2]int{ci, cj}
		case 1: // same child, then one turn, then the opposite child (hugs an interior grid line)
			if k == 0 {
				path[k] = [2]int{ci, cj}
			} else {
				path[k] = [2]int{1 - ci, 1 - cj}
			}
		default:
			path[k] = [2]int{r.Intn(2), r.Intn(2)}
		}
	}
	return path
}

// c06pcRectIn draws a rect that is guaranteed to intersect b (it contains a point of b).
func c06pcRectIn(r *RNG, b r2.Rect) r2.Rect {
	pick := func(iv r1.Interval) float64 {
		switch r.Intn(7) {
		case 0:
			return iv.Lo
		case 1:
			return iv.Hi
		case 2:
			return 0.5 * (iv.Lo + iv.Hi)
		case 3: // just inside an end
			return math.Nextafter(iv.Lo, iv.Hi)
		case 4:
			return math.Nextafter(iv.Hi, iv.Lo)
		default:
			t := r.Float()
			v := iv.Lo + t*(iv.Hi-iv.Lo)
			if v < iv.Lo {
				v = iv.Lo
			}
			if v > iv.Hi {
				v = iv.Hi
			}
			return v
		}
	}
	ext := func(iv r1.Interval) float64 {
		w := iv.Hi - iv.Lo
		switch r.Intn(7) {
		case 0:
			return 0
		case 1:
			return math.Ldexp(1, -r.Range(30, 70))
		case 2:
			return w * math.Ldexp(1, -r.Range(1, 30))
		case 3:
			return w * r.Float()
		case 4:
			return 3 * r.Float()
		case 5:
			return w * 0.25
		default:
			return w * math.Ldexp(r.Float(), -r.Range(0, 12))
		}
	}
	x := pick(b.X)
	y := pick(b.Y)
	return r2.Rect{
		X: r1.Interval{Lo: x - ext(b.X), Hi: x + ext(b.X)},
		Y: r1.Interval{Lo: y - ext(b.Y), Hi: y + ext(b.Y)},
	}
}

func genC06pc(g *G) {
	r := g.rng
	// all cells of levels 0..2, every face
	maxEx := 2
	if g.thorough {
		maxEx = 4
	}
	for l := 0; l <= maxEx; l++ {
		for c := s2.CellIDFromFace(0).ChildBeginAtLevel(l); c != s2.CellIDFromFace(5).ChildEndAtLevel(l); c = c.Next() {
			pad := c06pcPadding(r)
			g.emit("c06pcid", idx(c), fx(pad))
			if l > 0 && c.Next().IsValid() && c.Next().Face() == c.Face() {
				g.emit("c06pcnext", idx(c), fx(pad))
			}
			for i := 0; i < 2; i++ {
				for j := 0; j < 2; j++ {
					g.emit("c06pcpath", idx(c), fx(pad), c06pcShowPath([][2]int{{i, j}}))
				}
			}
		}
	}
	nonLeaf := func() s2.CellID {
		c := g.randCell()
		if c.IsLeaf() {
			c = c.Parent(r.Intn(30))
		}
		return c
	}
	for k := 0; k < g.n; k++ {
		pad := c06pcPadding(r)
		c := g.randCell()
		switch r.Intn(6) {
		case 0:
			g.emit("c06pcid", idx(c), fx(pad))
		case 1:
			// successor on the same face (the last cell of a face has none): also try the carry cases
			if r.Intn(3) == 0 && c.Level() > 0 {
				// a last child at several consecutive levels: Next() crosses coarse boundaries
				lv := c.Level()
				top := c.Parent(r.Intn(lv))
				c = top.ChildEndAtLevel(lv).Prev()
			}
			n := c.Next()
			if c.Level() > 0 && n.IsValid() && n.Face() == c.Face() {
				g.emit("c06pcnext", idx(c), fx(pad))
			} else {
				g.emit("c06pcid", idx(c), fx(pad))
			}
		case 2, 3:
			p := nonLeaf()
			maxLen := 30 - p.Level()
			n := 1
			switch r.Intn(4) {
			case 0:
				n = maxLen // down to the leaves
			case 1:
				n = 1 + r.Intn(maxLen)
			case 2:
				n = 1 + r.Intn(minI(3, maxLen))
			}
			if r.Intn(4) == 0 {
				p = s2.CellIDFromFace(r.Intn(6))
				n = 1 + r.Intn(30)
				if r.Intn(3) == 0 {
					n = 30
				}
			}
			g.emit("c06pcpath", idx(p), fx(pad), c06pcShowPath(c06pcPath(r, n)))
		default:
			// ShrinkToFit: rect must intersect the bound of the padded cell
			var path [][2]int
			if r.Intn(3) == 0 {
				c = nonLeaf()
				path = c06pcPath(r, 1+r.Intn(minI(4, 30-c.Level())))
			}
			if r.Intn(3) == 0 { // the common call: a face cell
				c = s2.CellIDFromFace(r.Intn(6))
				path = nil
			}
			p := c06pcDescend(c, pad, path)
			rect := c06pcRectIn(r, p.Bound())
			g.emit("c06pcshrink", idx(c), fx(pad), c06pcShowPath(path), fx(rect.X.Lo), fx(rect.X.Hi), fx(rect.Y.Lo), fx(rect.Y.Hi))
		}
	}
}
