package main

// Property C19, caps: s2.Cap / s1.ChordAngle vs point membership.
// Ops (see lean/Oracle/C19Cap.lean):
//   chord c o e
//   cap   a(cx cy cz r) b(4) dist dc probes(x:y:z,…)

import (
	"bytes"
	"encoding/binary"
	"fmt"
	"math"
	"math/big"
	"os"
	"strings"

	"github.com/golang/geo/r3"
	"github.com/golang/geo/s1"
	"github.com/golang/geo/s2"
)

func c19pPts(s string) []s2.Point {
	if s == "-" {
		return nil
	}
	parts := strings.Split(s, ",")
	r := make([]s2.Point, len(parts))
	for i, p := range parts {
		c := strings.Split(p, ":")
		r[i] = s2.Point{Vector: r3.Vector{X: pF(c[0]), Y: pF(c[1]), Z: pF(c[2])}}
	}
	return r
}

func c19ptsTok(l []s2.Point) string {
	if len(l) == 0 {
		return "-"
	}
	p := make([]string, len(l))
	for i, f := range l {
		p[i] = fx(f.X) + ":" + fx(f.Y) + ":" + fx(f.Z)
	}
	return strings.Join(p, ",")
}

// the radius field is unexported: read it from the binary encoding (3 centre floats + radius, little endian)
func c19capRadius(c s2.Cap) float64 {
	var buf bytes.Buffer
	if err := c.Encode(&buf); err != nil {
		panic(err)
	}
	b := buf.Bytes()
	return math.Float64frombits(binary.LittleEndian.Uint64(b[24:32]))
}

func c19capToks(c s2.Cap) []string {
	ctr := c.Center()
	return []string{fx(ctr.X), fx(ctr.Y), fx(ctr.Z), fx(c19capRadius(c))}
}

func c19capArgs(c s2.Cap) []string { return c19capToks(c) }

func c19mkCap(a []string) s2.Cap {
	return s2.CapFromCenterChordAngle(s2.Point{Vector: r3.Vector{X: pF(a[0]), Y: pF(a[1]), Z: pF(a[2])}}, s1.ChordAngle(pF(a[3])))
}

func init() {
	replayers["chord"] = func(a []string) []string {
		c, o, e := s1.ChordAngle(pF(a[0])), s1.ChordAngle(pF(a[1])), pF(a[2])
		return []string{fx(float64(c.Add(o))), fx(float64(c.Sub(o))), fx(float64(c.Expanded(e))),
			fx(float64(c.Successor())), fx(float64(c.Predecessor())), fx(c.Sin2()), fx(c.Cos()),
			fx(float64(s1.ChordAngleFromSquaredLength(e)))}
	}
	replayers["cap"] = func(a []string) []string {
		x := c19mkCap(a[0:4])
		y := c19mkCap(a[4:8])
		dist := s1.Angle(pF(a[8]))
		ps := c19pPts(a[10])
		var out []string
		out = append(out, bs(x.IsValid()), bs(y.IsValid()), bs(x.IsEmpty()), bs(x.IsFull()),
			bs(x.Contains(y)), bs(x.Intersects(y)), bs(x.InteriorIntersects(y)), bs(x.Equal(y)), fx(x.Height()))
		out = append(out, c19capToks(x.Complement())...)
		out = append(out, c19capToks(x.AddCap(y))...)
		out = append(out, c19capToks(x.Expanded(dist))...)
		out = append(out, c19capToks(x.Union(y))...)
		for _, p := range ps {
			out = append(out, bs(x.ContainsPoint(p)), bs(x.InteriorContainsPoint(p)))
			out = append(out, c19capToks(x.AddPoint(p))...)
		}
		return out
	}
	generators["c19cap"] = genC19Cap
	generators["c19capsearch"] = genC19CapSearch
}

// ---------------------------------------------------------------- generators

// c19norm reports whether p is normalised as well as s2.Point.Normalize guarantees (|p| within 2*dblEpsilon of 1):
// the documented precondition of ChordAngle.MaxPointError and of the Cap methods.
func c19norm(p s2.Point) bool { return math.Abs(p.Norm2()-1) <= 4*2.220446049250313e-16 }

func (g *G) c19unit() s2.Point {
	r := g.rng
	switch r.Intn(8) {
	case 0:
		ax := [][3]float64{{1, 0, 0}, {0, 1, 0}, {0, 0, 1}, {-1, 0, 0}, {0, -1, 0}, {0, 0, -1}}[r.Intn(6)]
		return s2.Point{Vector: r3.Vector{X: ax[0], Y: ax[1], Z: ax[2]}}
	case 1: // near an axis, with tiny / subnormal offsets
		v := r3.Vector{X: 1, Y: (2*r.Float() - 1) * 1e-8, Z: (2*r.Float() - 1) * 1e-15}
		if r.Bool() {
			v.Y = []float64{5e-324, -5e-324, 1e-310, 1e-300, 1e-160}[r.Intn(5)]
		}
		if r.Bool() {
			v.Z = []float64{5e-324, 0, -1e-320, 1e-200}[r.Intn(4)]
		}
		return s2.Point{Vector: v.Normalize()}
	case 2:
		return s2.PointFromCoords(float64(r.Intn(3)-1), float64(r.Intn(3)-1), 1)
	}
	for {
		v := r3.Vector{X: 2*r.Float() - 1, Y: 2*r.Float() - 1, Z: 2*r.Float() - 1}
		if n := v.Norm2(); n > 0.01 && n <= 1 {
			return s2.Point{Vector: v.Normalize()}
		}
	}
}

// chord-angle radius (squared chord length) of a valid cap
func (g *G) c19radius() float64 {
	r := g.rng
	switch r.Intn(12) {
	case 0:
		return -1
	case 1:
		return 4
	case 2:
		return 0
	case 3:
		return []float64{5e-324, 1e-300, 1e-30, 1e-20, 1e-15, 2.220446049250313e-16}[r.Intn(6)]
	case 4:
		return c19ulps(2, r.Intn(5)-2)
	case 5:
		return c19ulps(4, -r.Intn(4))
	case 6:
		return c19ulps([]float64{1, 3, 0.5, 2.5}[r.Intn(4)], r.Intn(5)-2)
	case 7:
		a := r.Float() * 1e-3
		return a * a
	}
	return r.Float() * 4
}

// point at (approximately) angle theta from c in a random direction
func (g *G) c19pointAt(c s2.Point, theta float64) s2.Point {
	r := g.rng
	var t r3.Vector
	for {
		v := r3.Vector{X: 2*r.Float() - 1, Y: 2*r.Float() - 1, Z: 2*r.Float() - 1}
		t = v.Sub(c.Mul(v.Dot(c.Vector)))
		if t.Norm2() > 1e-4 {
			break
		}
	}
	t = t.Normalize()
	return s2.Point{Vector: c.Mul(math.Cos(theta)).Add(t.Mul(math.Sin(theta))).Normalize()}
}

// points straddling the boundary of cp: a point at the cap's angular radius and its coordinate-ulp neighbours
func (g *G) c19boundary(cp s2.Cap, out []s2.Point) []s2.Point {
	if cp.IsEmpty() || cp.IsFull() {
		return out
	}
	r := g.rng
	theta := float64(cp.Radius())
	p := g.c19pointAt(cp.Center(), theta)
	out = append(out, p)
	for k := 0; k < 3; k++ {
		q := p
		d := r.Intn(7) - 3
		switch r.Intn(3) {
		case 0:
			q.X = c19ulps(q.X, d)
		case 1:
			q.Y = c19ulps(q.Y, d)
		default:
			q.Z = c19ulps(q.Z, d)
		}
		if c19norm(q) {
			out = append(out, q)
		}
	}
	// walk one coordinate until the float membership flips: the two points on either side of the computed boundary
	q := p
	in0 := cp.ContainsPoint(q)
	dir := 1 // towards the centre
	if in0 {
		dir = -1
	}
	c := cp.Center()
	for k := 0; k < 40; k++ {
		n := q
		switch {
		case math.Abs(c.X) >= math.Abs(c.Y) && math.Abs(c.X) >= math.Abs(c.Z):
			n.X = c19ulps(n.X, dir*int(math.Copysign(1, c.X))*(1+k/8))
		case math.Abs(c.Y) >= math.Abs(c.Z):
			n.Y = c19ulps(n.Y, dir*int(math.Copysign(1, c.Y))*(1+k/8))
		default:
			n.Z = c19ulps(n.Z, dir*int(math.Copysign(1, c.Z))*(1+k/8))
		}
		if !c19norm(n) {
			break
		}
		if cp.ContainsPoint(n) != in0 {
			out = append(out, q, n)
			break
		}
		q = n
	}
	return out
}

func (g *G) c19cap() s2.Cap {
	return s2.CapFromCenterChordAngle(g.c19unit(), s1.ChordAngle(g.c19radius()))
}

// a cap derived from a: same centre, internally / externally tangent, centred on a's boundary, antipodal, complement
func (g *G) c19capDerived(a s2.Cap) s2.Cap {
	r := g.rng
	if a.IsEmpty() || a.IsFull() {
		return g.c19cap()
	}
	ra := float64(a.Radius())
	rb := r.Float() * math.Pi
	switch r.Intn(9) {
	case 0:
		return s2.CapFromCenterChordAngle(a.Center(), s1.ChordAngle(g.c19radius()))
	case 1: // internally tangent (b inside a)
		rb = r.Float() * ra
		return s2.CapFromCenterAngle(g.c19pointAt(a.Center(), ra-rb), s1.Angle(rb))
	case 2: // externally tangent
		if ra+rb > math.Pi {
			rb = (math.Pi - ra) * r.Float()
		}
		return s2.CapFromCenterAngle(g.c19pointAt(a.Center(), ra+rb), s1.Angle(rb))
	case 3: // a inside b, tangent
		rb = ra + r.Float()*(math.Pi-ra)
		return s2.CapFromCenterAngle(g.c19pointAt(a.Center(), rb-ra), s1.Angle(rb))
	case 4: // centred on a's boundary
		return s2.CapFromCenterAngle(g.c19pointAt(a.Center(), ra), s1.Angle(rb*r.Float()))
	case 5:
		return a.Complement()
	case 6: // antipodal / nearly antipodal centre
		anti := s2.Point{Vector: a.Center().Mul(-1)}
		if r.Bool() {
			anti = g.c19pointAt(anti, []float64{1e-15, 1e-12, 1e-8, 1e-4}[r.Intn(4)])
		}
		return s2.CapFromCenterChordAngle(anti, s1.ChordAngle(g.c19radius()))
	case 7: // equal up to ulps of the radius
		return s2.CapFromCenterChordAngle(a.Center(), s1.ChordAngle(math.Min(4, math.Max(0, c19ulps(c19capRadius(a), r.Intn(5)-2)))))
	}
	return s2.CapFromCenterAngle(g.c19pointAt(a.Center(), r.Float()*math.Pi), s1.Angle(rb))
}

func genC19Cap(g *G) {
	r := g.rng
	for k := 0; k < g.n/10; k++ {
		c, o := g.c19radius(), g.c19radius()
		if r.Intn(4) == 0 {
			c = []float64{math.Inf(1), -1, 4, 0}[r.Intn(4)]
		}
		if o < 0 {
			o = 0
		}
		if r.Intn(2) == 0 && c >= 0 && c <= 4 {
			// two angles that add up to 180 degrees within rounding: chord^2 values c and 4 - c (+- a few ulps) — the early
			// "c + o >= 4" exit of ChordAngle.Add does not fire and the formula itself lands on either side of 4 (seeded change C19_7)
			o = math.Min(4, math.Max(0, c19ulps(4-c, -r.Intn(7)))) // at or a few ulps below 4 - c
		}
		e := []float64{0, 1e-17, -1e-17, 2.220446049250313e-16, r.Float(), -r.Float(), 5, -5}[r.Intn(8)]
		g.emit("chord", fx(c), fx(o), fx(e))
	}
	for k := 0; k < g.n; k++ {
		a, b, ps, dist := g.c19capCase()
		g.emit("cap", c19capLine(a, b, ps, dist)...)
	}
}

func c19capLine(a, b s2.Cap, ps []s2.Point, dist float64) []string {
	dc := s1.ChordAngleFromAngle(s1.Angle(dist))
	args := append(c19capArgs(a), c19capArgs(b)...)
	return append(args, fx(dist), fx(float64(dc)), c19ptsTok(ps))
}

// one adversarial case: two valid caps, boundary-targeted probe points, an expansion distance
func (g *G) c19capCase() (a, b s2.Cap, ps []s2.Point, dist float64) {
	r := g.rng
	a = g.c19cap()
	switch r.Intn(10) {
	case 0: // two point caps
		a = s2.CapFromPoint(g.c19unit())
		b = s2.CapFromPoint(g.c19unit())
		if r.Bool() {
			b = s2.CapFromPoint(g.c19pointAt(a.Center(), []float64{1e-15, 1e-9, 1e-3, 1, 3.14159}[r.Intn(5)]))
		}
	case 1, 2, 3:
		b = g.c19cap()
	default:
		b = g.c19capDerived(a)
	}
	if r.Intn(4) == 0 {
		a, b = b, a
	}
	if !a.IsValid() || !b.IsValid() {
		panic("generator: invalid cap")
	}
	ps = append(ps, a.Center(), b.Center(), s2.Point{Vector: a.Center().Mul(-1)}, s2.Point{Vector: b.Center().Mul(-1)})
	ps = g.c19boundary(a, ps)
	ps = g.c19boundary(b, ps)
	ps = g.c19boundary(a, ps)
	ps = g.c19boundary(b, ps)
	ps = append(ps, g.c19unit(), g.c19unit())
	switch r.Intn(6) {
	case 0:
		dist = 0
	case 1:
		dist = []float64{1e-300, 1e-16, 1e-9, math.Pi, 4}[r.Intn(5)]
	default: // (negative distances are out of contract: upstream C++ requires distance >= 0; Go returns a NaN radius)
		dist = r.Float() * math.Pi
	}
	return
}

// exact membership: |c - p|^2 <= radius in rational arithmetic
func c19inExact(c s2.Cap, p s2.Point) bool {
	rad := c19capRadius(c)
	if rad >= 4 {
		return true
	}
	if rad < 0 {
		return false
	}
	sum := new(big.Rat)
	ctr := c.Center()
	if math.IsNaN(ctr.X+ctr.Y+ctr.Z) || math.IsInf(ctr.X+ctr.Y+ctr.Z, 0) {
		return false
	}
	for _, d := range [][2]float64{{ctr.X, p.X}, {ctr.Y, p.Y}, {ctr.Z, p.Z}} {
		x := new(big.Rat).SetFloat64(d[0])
		y := new(big.Rat).SetFloat64(d[1])
		x.Sub(x, y)
		x.Mul(x, x)
		sum.Add(sum, x)
	}
	return sum.Cmp(new(big.Rat).SetFloat64(rad)) <= 0
}

// genC19CapSearch is the large-scale search for Union / AddCap losing operand points: the same cases as c19cap, judged
// here in Go (library membership and exact rational membership); only FAILING cases are emitted as `cap` lines
// (which the oracle then re-judges), a summary goes to stderr.
func genC19CapSearch(g *G) {
	var nU, nUx, nA, nAx, nProbes int
	for k := 0; k < g.n; k++ {
		a, b, ps, dist := g.c19capCase()
		u := a.Union(b)
		ac := a.AddCap(b)
		fail := false
		if uc := u.Center(); math.IsNaN(uc.X + uc.Y + uc.Z) {
			fmt.Fprintf(os.Stderr, "NaN union centre: %s\n", strings.Join(c19capLine(a, b, nil, 0)[:8], " "))
		}
		for _, p := range ps {
			nProbes++
			inF := a.ContainsPoint(p) || b.ContainsPoint(p)
			inX := c19inExact(a, p) || c19inExact(b, p)
			if inF && !u.ContainsPoint(p) {
				nU++
				fail = true
			}
			if inF && !ac.ContainsPoint(p) {
				nA++
				fail = true
			}
			if inX && !c19inExact(u, p) {
				nUx++
				fail = true
			}
			if inX && !c19inExact(ac, p) {
				nAx++
				fail = true
			}
		}
		if fail {
			g.emit("cap", c19capLine(a, b, ps, dist)...)
		}
	}
	fmt.Fprintf(os.Stderr, "c19capsearch shard %d/%d: cases=%d probes=%d union-float=%d union-exact=%d addcap-float=%d addcap-exact=%d\n",
		g.shardK, g.shardM, g.n, nProbes, nU, nUx, nA, nAx)
}
