package main

// C12 — cell geometry vs ids: Children = direct construction, ContainsPoint, RectBound / CapBound,
// the distance functions (point, edge, cell; min and max).
//
// ops (floats as 16-hex-digit bit patterns, a cell as  face:level:orientation:id:xlo:xhi:ylo:yhi):
//   cellch   <id>                      = <ok T|F> c0 c1 c2 c3 d0 d1 d2 d3   (Children() ; CellFromCellID(child k))
//   cellpt   <id> x y z                = contains dist bdist maxdist       (chord angles = float64 bits)
//   celledge <id> ax ay az bx by bz    = dist maxdist
//   cellcell <id> <id2>                = dist maxdist
//   cellbound <id> [u v n]…            = latlo lathi lnglo lnghi cx cy cz rad2 { px py pz lat lng rectHas capHas }…
//       sample k is faceUVToXYZ(face,u,v) (normalized when n=1), u,v given as float bits on the line

import (
	"math"
	"strconv"
	"strings"

	"github.com/golang/geo/r3"
	"github.com/golang/geo/s1"
	"github.com/golang/geo/s2"
)

func cellTok(c s2.Cell) string {
	b := c.BoundUV()
	return strings.Join([]string{is(c.Face()), is(c.Level()), is(s2.VerifCellOrientation(c)), idx(c.ID()),
		fx(b.X.Lo), fx(b.X.Hi), fx(b.Y.Lo), fx(b.Y.Hi)}, ":")
}

func chs(c s1.ChordAngle) string { return fx(float64(c)) }

func rawPt12(a []string) s2.Point {
	return s2.Point{Vector: r3.Vector{X: pF(a[0]), Y: pF(a[1]), Z: pF(a[2])}}
}

func init() {
	replayers["cellch"] = func(a []string) []string {
		id := s2.CellID(pU64(a[0]))
		c := s2.CellFromCellID(id)
		ch, ok := c.Children()
		res := []string{bs(ok)}
		if !ok {
			return res
		}
		for k := 0; k < 4; k++ {
			res = append(res, cellTok(ch[k]))
		}
		ids := id.Children()
		for k := 0; k < 4; k++ {
			res = append(res, cellTok(s2.CellFromCellID(ids[k])))
		}
		return res
	}
	replayers["cellpt"] = func(a []string) []string {
		c := s2.CellFromCellID(s2.CellID(pU64(a[0])))
		p := rawPt12(a[1:4])
		return []string{bs(c.ContainsPoint(p)), chs(c.Distance(p)), chs(c.BoundaryDistance(p)), chs(c.MaxDistance(p))}
	}
	replayers["celledge"] = func(a []string) []string {
		c := s2.CellFromCellID(s2.CellID(pU64(a[0])))
		p, q := rawPt12(a[1:4]), rawPt12(a[4:7])
		return []string{chs(c.DistanceToEdge(p, q)), chs(c.MaxDistanceToEdge(p, q))}
	}
	replayers["cellcell"] = func(a []string) []string {
		c := s2.CellFromCellID(s2.CellID(pU64(a[0])))
		d := s2.CellFromCellID(s2.CellID(pU64(a[1])))
		return []string{chs(c.DistanceToCell(d)), chs(c.MaxDistanceToCell(d))}
	}
	replayers["cellbound"] = func(a []string) []string {
		c := s2.CellFromCellID(s2.CellID(pU64(a[0])))
		rb := c.RectBound()
		cb := c.CapBound()
		ctr := cb.Center()
		res := []string{fx(rb.Lat.Lo), fx(rb.Lat.Hi), fx(rb.Lng.Lo), fx(rb.Lng.Hi),
			fx(ctr.X), fx(ctr.Y), fx(ctr.Z), fx(s2.VerifCapRadius2(cb))}
		for k := 1; k+2 < len(a); k += 3 {
			u, v := pF(a[k]), pF(a[k+1])
			p := s2.Point{Vector: s2.VerifFaceUVToXYZ(c.Face(), u, v)}
			norm := a[k+2] == "1" || strings.HasPrefix(a[k+2], "1:")
			if norm {
				p = s2.Point{Vector: p.Normalize()}
			}
			if f := strings.Split(a[k+2], ":"); len(f) == 4 { // "1:dx:dy:dz": coordinates of the unit vector moved by whole ulps
				nd := func(x float64, t string) float64 {
					n, err := strconv.Atoi(t)
					if err != nil || n < -8 || n > 8 {
						panic("cellbound: bad nudge " + t)
					}
					for ; n > 0; n-- {
						x = math.Nextafter(x, math.Inf(1))
					}
					for ; n < 0; n++ {
						x = math.Nextafter(x, math.Inf(-1))
					}
					return x
				}
				p = s2.Point{Vector: r3.Vector{X: nd(p.X, f[1]), Y: nd(p.Y, f[2]), Z: nd(p.Z, f[3])}}
			}
			ll := s2.LatLngFromPoint(p)
			pu := p // Cap.ContainsPoint wants a unit vector: normalize exactly once
			if !norm {
				pu = s2.Point{Vector: p.Normalize()}
			}
			res = append(res, fx(p.X), fx(p.Y), fx(p.Z), fx(ll.Lat.Radians()), fx(ll.Lng.Radians()),
				bs(rb.ContainsPoint(p)), bs(cb.ContainsPoint(pu)))
		}
		return res
	}
	generators["c12"] = genC12
}

func nudgeF(r *RNG, x float64, span int) float64 {
	k := r.Intn(2*span+1) - span
	for ; k > 0; k-- {
		x = math.Nextafter(x, math.Inf(1))
	}
	for ; k < 0; k++ {
		x = math.Nextafter(x, math.Inf(-1))
	}
	return x
}

func nudgeP(r *RNG, p s2.Point, span int) s2.Point {
	return s2.Point{Vector: r3.Vector{X: nudgeF(r, p.X, span), Y: nudgeF(r, p.Y, span), Z: nudgeF(r, p.Z, span)}}
}

func neg(p s2.Point) s2.Point { return s2.Point{Vector: p.Mul(-1)} }

func unit(v r3.Vector) s2.Point { return s2.Point{Vector: v.Normalize()} }

// c12Cell: cells of all faces and levels; face edges, cube corners, pole neighbourhoods.
func (g *G) c12Cell() s2.CellID {
	r := g.rng
	switch r.Intn(8) {
	case 0: // around the poles: centre of faces 2 and 5
		lvl := r.Intn(31)
		f := 2
		if r.Bool() {
			f = 5
		}
		h := s2.MaxSize / 2
		return s2.VerifCellIDFromFaceIJ(f, h-1+r.Intn(2), h-1+r.Intn(2)).Parent(lvl)
	case 1: // cube corner cells
		lvl := r.Intn(31)
		i, j := 0, 0
		if r.Bool() {
			i = s2.MaxSize - 1
		}
		if r.Bool() {
			j = s2.MaxSize - 1
		}
		return s2.VerifCellIDFromFaceIJ(r.Intn(6), i, j).Parent(lvl)
	case 2: // low levels
		return g.randCellAt(r.Intn(4))
	default:
		return g.randCell()
	}
}

// edge-plane pole of cell edge k (the point at 90 degrees from every point of the edge's great circle)
func edgePole(c s2.Cell, k int) s2.Point { return c.Edge(k) }

// c12Target: a target point for cell c (always finite, non-zero, normalized to within Normalize's guarantee).
func (g *G) c12Target(c s2.Cell) s2.Point {
	r := g.rng
	b := c.BoundUV()
	f := c.Face()
	uvPt := func(u, v float64) s2.Point { return unit(s2.VerifFaceUVToXYZ(f, u, v)) }
	var p s2.Point
	switch r.Intn(16) {
	case 0: // vertex
		p = c.Vertex(r.Intn(4))
	case 1: // exact edge point where representable: (u, vLo) etc. normalized
		t := r.Float()
		u := b.X.Lo + t*(b.X.Hi-b.X.Lo)
		v := b.Y.Lo + t*(b.Y.Hi-b.Y.Lo)
		switch r.Intn(4) {
		case 0:
			p = uvPt(u, b.Y.Lo)
		case 1:
			p = uvPt(u, b.Y.Hi)
		case 2:
			p = uvPt(b.X.Lo, v)
		default:
			p = uvPt(b.X.Hi, v)
		}
	case 2: // interior
		p = uvPt(b.X.Lo+r.Float()*(b.X.Hi-b.X.Lo), b.Y.Lo+r.Float()*(b.Y.Hi-b.Y.Lo))
	case 3: // centre
		p = c.Center()
	case 4: // just outside an edge / corner, in uv space, by a relative amount from 1e-16 to 1
		d := math.Ldexp(1, -r.Intn(54))
		du := (b.X.Hi - b.X.Lo) * d
		dv := (b.Y.Hi - b.Y.Lo) * d
		u := b.X.Lo + r.Float()*(b.X.Hi-b.X.Lo)
		v := b.Y.Lo + r.Float()*(b.Y.Hi-b.Y.Lo)
		switch r.Intn(8) {
		case 0:
			u = b.X.Lo - du
		case 1:
			u = b.X.Hi + du
		case 2:
			v = b.Y.Lo - dv
		case 3:
			v = b.Y.Hi + dv
		case 4:
			u, v = b.X.Lo-du, b.Y.Lo-dv
		case 5:
			u, v = b.X.Hi+du, b.Y.Lo-dv
		case 6:
			u, v = b.X.Hi+du, b.Y.Hi+dv
		default:
			u, v = b.X.Lo-du, b.Y.Hi+dv
		}
		p = uvPt(u, v)
	case 5: // cube corner
		sg := func() float64 {
			if r.Bool() {
				return 1
			}
			return -1
		}
		p = unit(r3.Vector{X: sg(), Y: sg(), Z: sg()})
	case 6: // antipodal to centre / vertex / edge point
		switch r.Intn(3) {
		case 0:
			p = neg(c.Center())
		case 1:
			p = neg(c.Vertex(r.Intn(4)))
		default:
			p = neg(uvPt(b.X.Lo+r.Float()*(b.X.Hi-b.X.Lo), b.Y.Lo))
		}
	case 7: // pole of an edge's great circle (90 degrees from the whole edge), both signs, perturbed towards the cell
		p = edgePole(c, r.Intn(4))
		if r.Bool() {
			p = neg(p)
		}
		if r.Intn(3) != 0 {
			e := math.Ldexp(1, -r.Intn(40)-8)
			p = unit(p.Add(c.Center().Mul(e * (2*r.Float() - 1))))
		}
	case 8: // on the extension of an edge beyond a vertex (same great circle, outside the arc)
		k := r.Intn(4)
		a, bb := c.Vertex(k), c.Vertex((k+1)&3)
		t := 1 + math.Ldexp(r.Float(), -r.Intn(40))
		if r.Bool() {
			t = -math.Ldexp(r.Float(), -r.Intn(40))
		}
		p = unit(a.Mul(1 - t).Add(bb.Mul(t)))
		if r.Intn(4) == 0 {
			p = unit(a.Sub(bb.Vector)) // 90+ degrees along the edge circle
		}
	case 9: // axis points and face centres
		ax := []r3.Vector{{X: 1}, {Y: 1}, {Z: 1}, {X: -1}, {Y: -1}, {Z: -1}}
		p = s2.Point{Vector: ax[r.Intn(6)]}
	case 10: // on a face seam
		v := r.Float()*2 - 1
		vec := [3]float64{1, 1, v}
		if r.Bool() {
			vec[0] = -1
		}
		if r.Bool() {
			vec[1] = -1
		}
		k := r.Intn(3)
		vec[0], vec[k] = vec[k], vec[0]
		p = unit(r3.Vector{X: vec[0], Y: vec[1], Z: vec[2]})
	case 11: // at a given small angular distance from a vertex in a random direction
		v := c.Vertex(r.Intn(4))
		d := math.Ldexp(1, -r.Intn(60))
		dir := r3.Vector{X: r.Float()*2 - 1, Y: r.Float()*2 - 1, Z: r.Float()*2 - 1}
		p = unit(v.Add(dir.Mul(d)))
	case 12: // near 90 degrees from the cell centre
		ctr := c.Center()
		o := ctr.Vector.Ortho()
		o2 := ctr.Vector.Cross(o).Normalize()
		th := r.Float() * 2 * math.Pi
		q := o.Mul(math.Cos(th)).Add(o2.Mul(math.Sin(th)))
		e := math.Ldexp(r.Float()*2-1, -r.Intn(50))
		p = unit(q.Add(ctr.Mul(e)))
	default:
		p = unit(r3.Vector{X: r.Float()*2 - 1, Y: r.Float()*2 - 1, Z: r.Float()*2 - 1})
	}
	if r.Intn(3) == 0 { // +-1..3 ulps around, then renormalize half of the time (stays within Normalize's guarantee)
		p = nudgeP(r, p, 3)
	}
	if p.X == 0 && p.Y == 0 && p.Z == 0 || math.IsNaN(p.X+p.Y+p.Z) || math.IsInf(p.X+p.Y+p.Z, 0) {
		p = s2.Point{Vector: r3.Vector{X: 1}}
	}
	return p
}

// related cell for cell-cell distances: adjacent / diagonal / nested / antipodal / same / random
func (g *G) c12Other(id s2.CellID) s2.CellID {
	r := g.rng
	lvl := id.Level()
	switch r.Intn(9) {
	case 0:
		return id
	case 1:
		n := id.EdgeNeighbors()
		return n[r.Intn(4)]
	case 2:
		n := id.AllNeighbors(lvl)
		if len(n) > 0 {
			return n[r.Intn(len(n))]
		}
		return id.Next()
	case 3: // nested: ancestor or descendant
		if lvl > 0 && r.Bool() {
			return id.Parent(r.Intn(lvl))
		}
		d := id
		for k := r.Intn(4); k > 0 && !d.IsLeaf(); k-- {
			d = d.Children()[r.Intn(4)]
		}
		return d
	case 4: // antipodal: the cell containing the antipode of the centre / a vertex, at a nearby level
		c := s2.CellFromCellID(id)
		q := neg(c.Center())
		if r.Bool() {
			q = neg(c.Vertex(r.Intn(4)))
		}
		l2 := lvl + r.Intn(3) - 1
		if l2 < 0 {
			l2 = 0
		}
		if l2 > 30 {
			l2 = 30
		}
		return s2.VerifCellIDFromPoint(q).Parent(l2)
	case 5: // neighbour at a different level
		l2 := lvl + r.Intn(5) - 2
		if l2 < 0 {
			l2 = 0
		}
		if l2 > 30 {
			l2 = 30
		}
		if l2 >= lvl {
			n := id.AllNeighbors(l2)
			if len(n) > 0 {
				return n[r.Intn(len(n))]
			}
			return id.Next()
		}
		n := id.Parent(l2).EdgeNeighbors()
		return n[r.Intn(4)]
	case 6: // neighbour of a neighbour (distance one cell width)
		n := id.EdgeNeighbors()
		m := n[r.Intn(4)].EdgeNeighbors()
		return m[r.Intn(4)]
	default:
		return g.c12Cell()
	}
}

func (g *G) emitPt(op string, id s2.CellID, ps ...s2.Point) {
	args := []string{idx(id)}
	for _, p := range ps {
		args = append(args, fx(p.X), fx(p.Y), fx(p.Z))
	}
	g.emit(op, args...)
}

func (g *G) boundSamples(c s2.Cell) []string {
	r := g.rng
	b := c.BoundUV()
	us := []float64{b.X.Lo, b.X.Hi, 0.5 * (b.X.Lo + b.X.Hi)}
	vs := []float64{b.Y.Lo, b.Y.Hi, 0.5 * (b.Y.Lo + b.Y.Hi)}
	var a []string
	for _, u := range us { // 4 vertices, 4 edge midpoints, uv-centre: unnormalized (exactly in the cell) and normalized
		for _, v := range vs {
			a = append(a, fx(u), fx(v), "0", fx(u), fx(v), "1")
		}
	}
	// boundary-extreme points: where |u| or |v| is smallest on each edge (latitude / longitude extremes on
	// equatorial / polar faces), i.e. the value 0 clamped into the interval
	cl := func(x, lo, hi float64) float64 { return math.Max(lo, math.Min(hi, x)) }
	u0, v0 := cl(0, b.X.Lo, b.X.Hi), cl(0, b.Y.Lo, b.Y.Hi)
	for _, v := range []float64{b.Y.Lo, b.Y.Hi, v0} {
		a = append(a, fx(u0), fx(v), "0", fx(u0), fx(v), "1")
	}
	for _, u := range []float64{b.X.Lo, b.X.Hi} {
		a = append(a, fx(u), fx(v0), "0", fx(u), fx(v0), "1")
	}
	// points a few ulps INSIDE each corner, normalized: after normalization they can be farther from the axis of
	// the bounding cap than the vertex itself (the cap must have slack for them: defects D34 / seeded C12_4)
	in := func(x, lo, hi float64, k int) float64 {
		for ; k > 0; k-- {
			if x == lo {
				x = math.Nextafter(x, hi)
			} else if x == hi {
				x = math.Nextafter(x, lo)
			} else if x-lo < hi-x {
				x = math.Nextafter(x, hi)
			} else {
				x = math.Nextafter(x, lo)
			}
		}
		return cl(x, lo, hi)
	}
	for _, u := range []float64{b.X.Lo, b.X.Hi} {
		for _, v := range []float64{b.Y.Lo, b.Y.Hi} {
			for t := 0; t < 3; t++ {
				a = append(a, fx(in(u, b.X.Lo, b.X.Hi, r.Intn(3))), fx(in(v, b.Y.Lo, b.Y.Hi, r.Intn(3))), "1")
			}
		}
	}
	// the (normalized) corners themselves with every coordinate moved by up to 2 ulps: many of these are still exactly
	// inside the cell and can be farther from the cap axis than the vertex (the oracle keeps only points exactly in the cell)
	for _, u := range []float64{b.X.Lo, b.X.Hi} {
		for _, v := range []float64{b.Y.Lo, b.Y.Hi} {
			for t := 0; t < 4; t++ {
				a = append(a, fx(u), fx(v), "1:"+strconv.Itoa(r.Intn(5)-2)+":"+strconv.Itoa(r.Intn(5)-2)+":"+strconv.Itoa(r.Intn(5)-2))
			}
		}
	}
	for k := 0; k < 6; k++ { // random interior and edge points
		u := b.X.Lo + r.Float()*(b.X.Hi-b.X.Lo)
		v := b.Y.Lo + r.Float()*(b.Y.Hi-b.Y.Lo)
		switch r.Intn(4) {
		case 0:
			u = us[r.Intn(2)]
		case 1:
			v = vs[r.Intn(2)]
		}
		u, v = cl(u, b.X.Lo, b.X.Hi), cl(v, b.Y.Lo, b.Y.Hi)
		n := "0"
		if r.Bool() {
			n = "1"
		}
		a = append(a, fx(u), fx(v), n)
	}
	return a
}

func genC12(g *G) {
	r := g.rng
	maxEx := 2
	if g.thorough {
		maxEx = 4
	}
	var exhaustive []s2.CellID
	for l := 0; l <= maxEx; l++ {
		for c := s2.CellIDFromFace(0).ChildBeginAtLevel(l); c != s2.CellIDFromFace(5).ChildEndAtLevel(l); c = c.Next() {
			exhaustive = append(exhaustive, c)
		}
	}
	one := func(id s2.CellID, reps int) {
		c := s2.CellFromCellID(id)
		g.emit("cellch", idx(id))
		g.emit("cellbound", append([]string{idx(id)}, g.boundSamples(c)...)...)
		for k := 0; k < reps; k++ {
			p := g.c12Target(c)
			g.emitPt("cellpt", id, p)
			g.emit("cidpt", fx(p.X), fx(p.Y), fx(p.Z))
			if k == 0 { // points at the exact float thresholds between leaf columns / rows (defect D46)
				for _, q := range g.marginPoints() {
					g.emit("cidpt", fx(q.X), fx(q.Y), fx(q.Z))
				}
			}
			// edges: random, grazing a vertex, through the cell, along a cell edge, far away
			a, b := g.c12Target(c), g.c12Target(c)
			switch r.Intn(6) {
			case 0: // grazes vertex v: a and b on opposite sides of v along a direction tangent-ish to the cell
				v := c.Vertex(r.Intn(4))
				dir := unit(r3.Vector{X: r.Float()*2 - 1, Y: r.Float()*2 - 1, Z: r.Float()*2 - 1})
				t := math.Ldexp(1, -r.Intn(30))
				a = unit(v.Add(dir.Mul(t)))
				b = unit(v.Sub(dir.Mul(t * (0.25 + r.Float()))))
			case 1: // endpoint exactly a vertex
				a = c.Vertex(r.Intn(4))
			case 2: // runs along a cell edge (overlapping / extending it)
				k := r.Intn(4)
				va, vb := c.Vertex(k), c.Vertex((k+1)&3)
				a = unit(va.Mul(1.5).Sub(vb.Mul(0.5)))
				b = unit(vb.Mul(1 + r.Float()).Sub(va.Mul(r.Float())))
			case 3: // short edge near p
				a = p
				dir := r3.Vector{X: r.Float()*2 - 1, Y: r.Float()*2 - 1, Z: r.Float()*2 - 1}
				b = unit(p.Add(dir.Mul(math.Ldexp(1, -r.Intn(40)))))
			}
			// never antipodal or (nearly) degenerate beyond what the library documents: skip antipodal pairs
			if a.Add(b.Vector).Norm() < 1e-6 {
				b = unit(b.Add(a.Vector.Ortho().Mul(0.5)))
			}
			g.emitPt("celledge", id, a, b)
			g.emit("cellcell", idx(id), idx(g.c12Other(id)))
		}
	}
	for k, id := range exhaustive {
		if k%g.shardM == g.shardK {
			one(id, 2)
		}
	}
	for k := 0; k < g.n; k++ {
		one(g.c12Cell(), 2)
	}
}

// ---------------------------------------------------------------------------------------------------------------
// family `pole` (defect D58): targets within ~2^-53/(edge length) of a POLE of the great circle of one cell edge.
//
// In the face frame (u,v,w) of the cell the edge k lies in the plane with inward normal n_k
//   (1,0,-u0) left, (-1,0,u1) right, (0,1,-v0) bottom, (0,-1,v1) top;
// the target is  t = -n_k/|n_k|  -/+  beta * mid_k  (+ noise),  normalized, where mid_k is the unit vector of the edge
// midpoint: t is at 90 degrees from the whole edge up to beta, its projection Q onto the edge plane has length beta and
// points AWAY from the edge (sign -; towards it for sign +).  The tangential tests of uEdgeIsClosest / vEdgeIsClosest see
// exact values of the order beta * (edge length), so for beta * length below ~2^-53 they decide on rounding noise.
// Before repair D58 a noisy "yes" made Distance return |t|^2 + 1 - 2|Q| where the truth is |t|^2 + 1 + 2|Q|
// (under-estimate 4*beta, above the judge's tolerance 2e-12 for level >= 13).
// Every sample of the family is emitted (no filtering on the outcome), levels 13..30, all four edges, all six faces.

// c12FaceFrame: the images of the face-frame axes u, v, w in xyz (exact: entries 0, +-1).
func c12FaceFrame(f int) (r3.Vector, r3.Vector, r3.Vector) {
	n := s2.VerifFaceUVToXYZ(f, 0, 0)
	return s2.VerifFaceUVToXYZ(f, 1, 0).Sub(n), s2.VerifFaceUVToXYZ(f, 0, 1).Sub(n), n
}

// c12PoleTarget: one target of the family for edge k (0 left, 1 right, 2 bottom, 3 top) of cell c.
// beta is drawn log-uniformly from [2^-40, 2^-57/(edge uv-length)] (under-estimate 4*beta >= 3.6e-12, above the judge's
// tolerance; exact tangential quantities <= 2^-58, far below the rounding noise of the dot products), from
// [2^-40, 2^-38] where that interval is empty (levels < 18); sign - (projection away from the edge) three times out of four.
// mode 0: the plain recipe; mode 1: + noise of 2^-52 per coordinate before normalizing; mode 2: the coordinates of the
// normalized target are moved by up to 2 ulps, at most 16 times, until the generator's OWN evaluation of the two
// tangential dot products (same expressions as the library, computed here) has the signs "> 0, < 0" - the last try
// is emitted whether or not that succeeded.  Nothing depends on what the library under test answers.
func (g *G) c12PoleTarget(c s2.Cell, k, mode int) s2.Point {
	r := g.rng
	b := c.BoundUV()
	var nin, mid, dir0, dir1 r3.Vector
	var length float64
	switch k {
	case 0, 1:
		u := b.X.Lo
		nin = r3.Vector{X: 1, Z: -u}
		if k == 1 {
			u = b.X.Hi
			nin = r3.Vector{X: -1, Z: u}
		}
		mid, length = r3.Vector{X: u, Y: 0.5 * (b.Y.Lo + b.Y.Hi), Z: 1}, b.Y.Hi-b.Y.Lo
		dir0 = r3.Vector{X: -u * b.Y.Lo, Y: u*u + 1, Z: -b.Y.Lo}
		dir1 = r3.Vector{X: -u * b.Y.Hi, Y: u*u + 1, Z: -b.Y.Hi}
	default:
		v := b.Y.Lo
		nin = r3.Vector{Y: 1, Z: -v}
		if k == 3 {
			v = b.Y.Hi
			nin = r3.Vector{Y: -1, Z: v}
		}
		mid, length = r3.Vector{X: 0.5 * (b.X.Lo + b.X.Hi), Y: v, Z: 1}, b.X.Hi-b.X.Lo
		dir0 = r3.Vector{X: v*v + 1, Y: -b.X.Lo * v, Z: -b.X.Lo}
		dir1 = r3.Vector{X: v*v + 1, Y: -b.X.Hi * v, Z: -b.X.Hi}
	}
	lo, hi := -40.0, math.Log2(math.Ldexp(1, -57)/length)
	if hi < lo+2 {
		hi = lo + 2
	}
	beta := -math.Exp2(lo + r.Float()*(hi-lo))
	if r.Intn(4) == 0 {
		beta = -beta
	}
	t := nin.Normalize().Mul(-1).Add(mid.Normalize().Mul(beta))
	if mode == 1 {
		t = t.Add(r3.Vector{X: r.Float()*2 - 1, Y: r.Float()*2 - 1, Z: r.Float()*2 - 1}.Mul(math.Ldexp(1, -52)))
	}
	t = t.Normalize()
	if mode == 2 {
		t0 := t
		for j := 0; j < 16 && !(t.Dot(dir0) > 0 && t.Dot(dir1) < 0); j++ {
			t = r3.Vector{X: nudgeF(r, t0.X, 2), Y: nudgeF(r, t0.Y, 2), Z: nudgeF(r, t0.Z, 2)}
		}
	}
	ua, va, wa := c12FaceFrame(c.Face()) // exact: one non-zero term per coordinate
	p := s2.Point{Vector: ua.Mul(t.X).Add(va.Mul(t.Y)).Add(wa.Mul(t.Z))}
	if math.IsNaN(p.X+p.Y+p.Z) || math.IsInf(p.X+p.Y+p.Z, 0) || p.Norm2() < 0.5 {
		p = s2.Point{Vector: r3.Vector{X: 1}}
	}
	return p
}

// genC12Pole: g.n samples of the family, every one emitted; levels 13..30 (half of the samples 24..30, where the
// under-estimate is largest), cells of that level: 3/4 uniform, 1/4 from the structured cell generator; edges and modes in turn.
func genC12Pole(g *G) {
	r := g.rng
	for i := 0; i < g.n; i++ {
		level := 13 + r.Intn(18)
		if i&4 != 0 {
			level = 24 + r.Intn(7)
		}
		id := g.randCellAt(level) // structured: face edges, corners, grid lines
		if r.Intn(4) != 0 {       // generic position (all roundings of the dot products are "random")
			id = s2.VerifCellIDFromFaceIJ(r.Intn(6), r.Intn(s2.MaxSize), r.Intn(s2.MaxSize)).Parent(level)
		}
		c := s2.CellFromCellID(id)
		g.emitPt("cellpt", id, g.c12PoleTarget(c, i&3, []int{0, 2, 0, 2, 1, 2, 0, 2}[(i>>3)&7]))
	}
}

func init() {
	generators["c12pole"] = genC12Pole
	replayers["cellinfo"] = func(a []string) []string {
		c := s2.CellFromCellID(s2.CellID(pU64(a[0])))
		return []string{cellTok(c)}
	}
}
