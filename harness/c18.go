package main

// C18 — area, curvature (turning angle) and centroid of loops and polygons.
// Needs the hook s2/verif_export_c18.go.
//
// pts = `x,y,z;x,y,z;…` (16-hex-digit float64 bit patterns), ints decimal, lists `;`-separated, `-` = empty.
//
//   c18const = maxCurvature pi 2pi 4pi maxErrorPerVertex maxLength
//   c18turn <pts> <rots k.k.k|-> = <ta:i:d> <FW> <RV> <k:ta:i:d;…|-> <inv ta:i:d> <k:ta:i:d;…|->
//        ta = TurningAngle(), (i,d) = CanonicalFirstVertex(); FW[j] = TurnAngle(v[j-1],v[j],v[j+1]),
//        RV[j] = TurnAngle(v[j+1],v[j],v[j-1]) (comma lists, the libm values the Lean model cannot compute);
//        rotation k = LoopFromPoints(v[k:]++v[:k]); inv = LoopFromPoints(v) then Invert(); the last token
//        rotates the vertex list of the inverted loop.
//   c18ta3 <a> <b> <c> = TurnAngle(a,b,c) TurnAngle(c,b,a)
//   c18area <pts> <rots> <cap c/t|-> <star +c|-c|-> <apexes k.k|-> =
//        <n> <raw:maxErr:lngLen:ta:isNorm:area> <the same for Invert()> <k:area;…|-> <apex:fan;…|-> <star|->
//        raw = surfaceIntegralFloat64(SignedArea) (hook), maxErr = turningAngleMaxError() (hook),
//        lngLen = bound.Lng.Length() (hook); fan = Σ SignedArea(v[apex], v[i], v[i+1]) over the edges not
//        incident to apex (plain float64 sum); star = Σ PointArea(c, v[i], v[i+1]) for a loop star-shaped
//        about c ('+': the loop as given is counter-clockwise about c, '-': clockwise)
//        cap c/t: every vertex v satisfies v·c >= t|v||c| (t > 0), judged exactly by the oracle
//   c18cent <pts> <cap c/t> <+|-> = <centroid> <centroid of Invert()> <area>
//        '+': the loop is counter-clockwise inside the cap (its interior lies in the cap), '-': clockwise
//   c18parea <pts/pts/…> = <depth:area:cx,cy,cz;…> <Polygon.Area> <Polygon.Centroid> <area after Invert()>
//   c18surf <pts> = <result> <ax,ay,az;b;c=val|…>     trace of surfaceIntegralFloat64(SignedArea)

import (
	"fmt"
	"math"
	"os"
	"strings"

	"github.com/golang/geo/r3"
	"github.com/golang/geo/s2"
)

const c18DblEpsilon = 2.220446049250313e-16

func c18Copy(p []s2.Point) []s2.Point { return append([]s2.Point(nil), p...) }

func c18Rot(p []s2.Point, k int) []s2.Point {
	n := len(p)
	k = ((k % n) + n) % n
	return append(append([]s2.Point(nil), p[k:]...), p[:k]...)
}

func c18Ints(s string) []int {
	if s == "-" {
		return nil
	}
	var r []int
	for _, t := range strings.Split(s, ".") {
		r = append(r, pI(t))
	}
	return r
}

func c18IntsTok(l []int) string {
	if len(l) == 0 {
		return "-"
	}
	s := make([]string, len(l))
	for i, v := range l {
		s[i] = is(v)
	}
	return strings.Join(s, ".")
}

func c18Join(l []string) string {
	if len(l) == 0 {
		return "-"
	}
	return strings.Join(l, ";")
}

func c18TurnTok(l *s2.Loop) string {
	i, d := l.CanonicalFirstVertex()
	return fx(l.TurningAngle()) + ":" + is(i) + ":" + is(d)
}

func c18Turn(a []string) []string {
	pts := pPts(a[0])
	rots := c18Ints(a[1])
	n := len(pts)
	l := s2.LoopFromPoints(c18Copy(pts))
	res := []string{c18TurnTok(l)}
	fw := make([]string, n)
	rv := make([]string, n)
	for j := 0; j < n; j++ {
		p, q, r := pts[(j+n-1)%n], pts[j], pts[(j+1)%n]
		fw[j] = fx(float64(s2.TurnAngle(p, q, r)))
		rv[j] = fx(float64(s2.TurnAngle(r, q, p)))
	}
	res = append(res, strings.Join(fw, ","), strings.Join(rv, ","))
	var rt []string
	for _, k := range rots {
		rt = append(rt, is(k)+":"+c18TurnTok(s2.LoopFromPoints(c18Rot(pts, k))))
	}
	res = append(res, c18Join(rt))
	inv := s2.LoopFromPoints(c18Copy(pts))
	inv.Invert()
	res = append(res, c18TurnTok(inv))
	ipts := c18Copy(inv.Vertices())
	var irt []string
	for _, k := range rots {
		irt = append(irt, is(k)+":"+c18TurnTok(s2.LoopFromPoints(c18Rot(ipts, k))))
	}
	res = append(res, c18Join(irt))
	return res
}

func c18Ta3(a []string) []string {
	p, q, r := pPt(a[0]), pPt(a[1]), pPt(a[2])
	return []string{fx(float64(s2.TurnAngle(p, q, r))), fx(float64(s2.TurnAngle(r, q, p)))}
}

func c18AreaTok(l *s2.Loop) string {
	raw := s2.VerifLoopSurfaceIntegralFloat64(l, s2.SignedArea)
	return fx(raw) + ":" + fx(s2.VerifLoopTurningAngleMaxError(l)) + ":" + fx(s2.VerifLoopBoundLngLength(l)) + ":" +
		fx(l.TurningAngle()) + ":" + bs(l.IsNormalized()) + ":" + fx(l.Area())
}

func c18Area(a []string) []string {
	pts := pPts(a[0])
	rots := c18Ints(a[1])
	star := a[3]
	apexes := c18Ints(a[4])
	n := len(pts)
	l := s2.LoopFromPoints(c18Copy(pts))
	res := []string{is(n), c18AreaTok(l)}
	inv := s2.LoopFromPoints(c18Copy(pts))
	inv.Invert()
	res = append(res, c18AreaTok(inv))
	var rt []string
	for _, k := range rots {
		rt = append(rt, is(k)+":"+fx(s2.LoopFromPoints(c18Rot(pts, k)).Area()))
	}
	res = append(res, c18Join(rt))
	var ft []string
	for _, ap := range apexes {
		sum := 0.0
		for m := 1; m+1 < n; m++ {
			sum += s2.SignedArea(pts[ap], pts[(ap+m)%n], pts[(ap+m+1)%n])
		}
		ft = append(ft, is(ap)+":"+fx(sum))
	}
	res = append(res, c18Join(ft))
	if star == "-" {
		res = append(res, "-")
	} else {
		c := pPt(star[1:])
		sum := 0.0
		for j := 0; j < n; j++ {
			sum += s2.PointArea(c, pts[j], pts[(j+1)%n])
		}
		res = append(res, fx(sum))
	}
	return res
}

func c18Cent(a []string) []string {
	pts := pPts(a[0])
	l := s2.LoopFromPoints(c18Copy(pts))
	inv := s2.LoopFromPoints(c18Copy(pts))
	inv.Invert()
	return []string{ptTok(l.Centroid()), ptTok(inv.Centroid()), fx(l.Area())}
}

func c18PArea(a []string) []string {
	var ls []*s2.Loop
	for _, t := range strings.Split(a[0], "/") {
		ls = append(ls, s2.LoopFromPoints(c18Copy(pPts(t))))
	}
	p := s2.PolygonFromLoops(ls)
	var lt []string
	for _, l := range p.Loops() {
		d := 0
		if l.IsHole() {
			d = 1
		}
		lt = append(lt, is(d)+":"+fx(l.Area())+":"+ptTok(l.Centroid()))
	}
	res := []string{c18Join(lt), fx(p.Area()), ptTok(p.Centroid())}
	p.Invert()
	res = append(res, fx(p.Area()))
	return res
}

func c18Surf(a []string) []string {
	pts := pPts(a[0])
	l := s2.LoopFromPoints(c18Copy(pts))
	var tr []string
	sum := s2.VerifLoopSurfaceIntegralFloat64(l, func(x, y, z s2.Point) float64 {
		v := s2.SignedArea(x, y, z)
		tr = append(tr, ptTok(x)+";"+ptTok(y)+";"+ptTok(z)+"="+fx(v))
		return v
	})
	t := "-"
	if len(tr) > 0 {
		t = strings.Join(tr, "|")
	}
	return []string{fx(sum), t}
}

func c18Const(a []string) []string {
	var eps float64 = c18DblEpsilon
	_ = eps
	const maxCurvature = 2*math.Pi - 4*c18DblEpsilon
	const maxLength = math.Pi - 1e-5
	var mc, ml float64 = maxCurvature, maxLength
	var pi, pi2, pi4 float64 = math.Pi, 2 * math.Pi, 4 * math.Pi
	var mev float64 = 11.25 * c18DblEpsilon
	return []string{fx(mc), fx(pi), fx(pi2), fx(pi4), fx(mev), fx(ml)}
}

// ---------------------------------------------------------------------------------------------
// generators

func c18Raw(x, y, z float64) s2.Point { return s2.Point{Vector: r3.Vector{X: x, Y: y, Z: z}} }

// c18Valid: unit vertices, pairwise different vertices (also +0/-0), no antipodal neighbours, no two
// non-adjacent edges crossing (quadratic; loops above 700 vertices are star-shaped by construction).
func c18Valid(pts []s2.Point) bool {
	n := len(pts)
	if n < 3 {
		return false
	}
	seen := map[[3]float64]bool{}
	for i, p := range pts {
		k := [3]float64{p.X + 0, p.Y + 0, p.Z + 0} // -0 + 0 = +0
		if !p.IsUnit() || seen[k] {
			return false
		}
		seen[k] = true
		q := pts[(i+1)%n]
		if p.Vector == q.Vector.Mul(-1) || p == q {
			return false
		}
	}
	if n > 700 {
		return true
	}
	for i := 0; i < n; i++ {
		cr := s2.NewEdgeCrosser(pts[i], pts[(i+1)%n])
		for j := i + 2; j < n; j++ {
			if i == 0 && j == n-1 {
				continue
			}
			if cr.CrossingSign(pts[j], pts[(j+1)%n]) == s2.Cross {
				return false
			}
		}
	}
	return true
}

func (g *G) c18Center() s2.Point {
	r := g.rng
	sg := func() float64 {
		if r.Bool() {
			return 1
		}
		return -1
	}
	switch r.Intn(6) {
	case 0:
		return c18Raw(0, 0, sg()) // a pole
	case 1:
		return s2.PointFromCoords(sg(), sg(), sg())
	case 2:
		v := [3]float64{sg(), 0, 0}
		k := r.Intn(3)
		return c18Raw(v[k], v[(k+1)%3], v[(k+2)%3])
	}
	return s2.PointFromCoords(r.Float()*2-1, r.Float()*2-1, r.Float()*2-1)
}

// c18Star: vertices at increasing azimuth around c (counter-clockwise seen from outside), radius in
// [lo,1]*rad; regular: equal steps and radius.
func (g *G) c18Star(c s2.Point, rad float64, n int, lo float64, regular bool) []s2.Point {
	r := g.rng
	z := c.Vector
	x := z.Ortho()
	y := z.Cross(x)
	phase := r.Float() * 2 * math.Pi
	pts := make([]s2.Point, 0, n)
	for i := 0; i < n; i++ {
		a := phase + 2*math.Pi*float64(i)/float64(n)
		rr := rad
		if !regular {
			// every azimuth gap stays below 180 degrees (also for n = 3): the centre is inside the loop
			jit := 0.8
			if n == 3 {
				jit = 0.4
			}
			a += (r.Float() - 0.5) * jit * 2 * math.Pi / float64(n)
			rr = rad * (lo + (1-lo)*r.Float())
		}
		h, s := math.Cos(rr), math.Sin(rr)
		v := z.Mul(h).Add(x.Mul(s * math.Cos(a))).Add(y.Mul(s * math.Sin(a)))
		pts = append(pts, s2.Point{Vector: v.Normalize()})
	}
	return pts
}

func c18Snap(pts []s2.Point, level int) []s2.Point {
	out := make([]s2.Point, 0, len(pts))
	for _, p := range pts {
		q := s2.VerifCellIDFromPoint(p).Parent(level).Point()
		if len(out) > 0 && out[len(out)-1] == q {
			continue
		}
		out = append(out, q)
	}
	for len(out) > 1 && out[0] == out[len(out)-1] {
		out = out[:len(out)-1]
	}
	return out
}

func (g *G) c18Size() int {
	r := g.rng
	switch r.Intn(16) {
	case 0, 1:
		return 3
	case 2:
		return 4
	case 3, 4:
		return 5 + r.Intn(4)
	case 5, 6, 7:
		return 9 + r.Intn(32)
	case 8, 9:
		return 41 + r.Intn(160)
	case 10:
		return 201 + r.Intn(800)
	case 11:
		if r.Intn(6) == 0 {
			if (g.thorough && r.Intn(3) == 0) || r.Intn(12) == 0 {
				return 10000
			}
			return 1001 + r.Intn(2000)
		}
		return 64 + r.Intn(3)
	}
	return 3 + r.Intn(20)
}

// c18Case is one generated loop with what the judge may use.
type c18Case struct {
	pts    []s2.Point
	center s2.Point // centre of the construction
	rho    float64  // every vertex within this angle of center (<0: unknown)
	star   int      // +1: counter-clockwise star about center, -1: clockwise star, 0: not star-shaped
	kind   string
}

func c18Reverse(p []s2.Point) {
	for i, j := 0, len(p)-1; i < j; i, j = i+1, j-1 {
		p[i], p[j] = p[j], p[i]
	}
}

func (g *G) c18Loop() *c18Case {
	r := g.rng
	n := g.c18Size()
	c := g.c18Center()
	cs := &c18Case{center: c, rho: -1}
	if r.Intn(10) == 0 {
		// vertices next to the six points +-e1, +-e2, +-e3 of a random orthonormal frame (within 1e-9 .. 1e-6 rad), 4 to 6 of them in
		// a random order: pairs of nearly antipodal NON-adjacent vertices, so that the fan origin of the surface integral (V_0) has
		// to be replaced when an edge comes within 1e-5 rad of its antipode, replaced again, and reverted (the second and third
		// origin-switch branches; seeded change C18_1).  Every rotation of such a loop starts the fan elsewhere.
		e1 := c
		e2 := s2.Point{Vector: e1.Ortho().Normalize()}
		e3 := s2.Point{Vector: e1.Cross(e2.Vector).Normalize()}
		if r.Bool() { // the coordinate axes themselves (exact antipodes, exact right angles)
			e1, e2, e3 = c18Raw(1, 0, 0), c18Raw(0, 1, 0), c18Raw(0, 0, 1)
		}
		six := []s2.Point{e1, e2, e3, {Vector: e1.Mul(-1)}, {Vector: e2.Mul(-1)}, {Vector: e3.Mul(-1)}}
		perm := []int{0, 1, 2, 3, 4, 5}
		for i := 5; i > 0; i-- {
			j := r.Intn(i + 1)
			perm[i], perm[j] = perm[j], perm[i]
		}
		m := 4 + r.Intn(3)
		eps := math.Pow(10, -9+3.7*r.Float()) // up to 5e-6: inside the 1e-5 window of the origin switch
		var pts []s2.Point
		for _, k := range perm[:m] {
			q := six[k]
			if r.Bool() { // half of the vertices stay EXACT (six[k+3] is the exact negation of six[k])
				pts = append(pts, q)
				continue
			}
			d := r3.Vector{X: r.Float()*2 - 1, Y: r.Float()*2 - 1, Z: r.Float()*2 - 1}.Mul(eps)
			pts = append(pts, s2.Point{Vector: q.Add(d).Normalize()})
		}
		cs.pts, cs.kind = pts, "octa"
		if !c18Valid(cs.pts) {
			return nil
		}
		return cs
	}
	switch k := r.Intn(14); k {
	case 0, 1: // regular / star, general radius
		rads := []float64{1e-6, 1e-4, 0.01, 0.1, 0.5, 1.0, 1.4}
		rad := rads[r.Intn(len(rads))] * (1 + r.Float())
		if rad > 1.45 {
			rad = 1.45
		}
		cs.pts = g.c18Star(c, rad, n, 0.5, k == 0)
		cs.rho, cs.star, cs.kind = rad, 1, "star"
	case 2, 3: // tiny: about 1e-14 .. 1e-12 steradians
		rad := 6e-8 * (1 + 9*r.Float()*r.Float())
		if n > 40 {
			n = 3 + r.Intn(38)
		}
		cs.pts = g.c18Star(c, rad, n, 0.6, r.Bool())
		if r.Intn(3) == 0 {
			cs.pts = c18Snap(cs.pts, 30)
		}
		cs.rho, cs.star, cs.kind = rad*1.01+2e-9, 1, "tiny"
	case 4, 5: // sliver: out along an arc at +w, back at -w
		lens := []float64{1e-3, 0.1, 1.0, 2.5}
		ws := []float64{1e-15, 1e-15, 3e-16, 1e-12, 1e-9}
		ln := lens[r.Intn(len(lens))]
		w := ws[r.Intn(len(ws))]
		if n > 60 {
			n = 4 + r.Intn(57)
		}
		if n < 4 {
			n = 4
		}
		z := c.Vector
		x := z.Ortho()
		y := z.Cross(x)
		h := n / 2
		var pts []s2.Point
		for i := 0; i < h; i++ {
			t := -ln/2 + ln*float64(i)/float64(h-1+1)
			v := z.Mul(math.Cos(t)).Add(x.Mul(math.Sin(t))).Add(y.Mul(w))
			pts = append(pts, s2.Point{Vector: v.Normalize()})
		}
		for i := 0; i < n-h; i++ {
			t := ln/2 - ln*float64(i)/float64(n-h)
			v := z.Mul(math.Cos(t)).Add(x.Mul(math.Sin(t))).Add(y.Mul(-w))
			pts = append(pts, s2.Point{Vector: v.Normalize()})
		}
		cs.pts = pts
		cs.rho, cs.kind = ln/2+1e-6, "sliver"
	case 6: // zero area: three exactly collinear points on a coordinate great circle
		a0 := 0.1 + r.Float()
		as := []float64{a0, a0 + 0.05 + 0.3*r.Float(), a0 + 0.4 + 0.3*r.Float()}
		pl := r.Intn(3)
		var pts []s2.Point
		for _, a := range as {
			v := [3]float64{math.Cos(a), math.Sin(a), 0}
			pts = append(pts, c18Raw(v[pl], v[(pl+1)%3], v[(pl+2)%3]))
		}
		if r.Bool() {
			pts[1], pts[2] = pts[2], pts[1]
		}
		cs.pts = pts
		cs.center = pts[0]
		cs.rho, cs.kind = 1.0, "collinear"
	case 7, 8: // edges / fan diagonals close to 180 degrees
		ds := []float64{0, 1e-9, -1e-9, 1e-6, -1e-6, 3e-6, -3e-6, 1e-5, 2e-5, 1e-3, -1e-3}
		rad := math.Pi/2 + ds[r.Intn(len(ds))]
		if n > 200 {
			n = 4 + 2*r.Intn(20)
		}
		if r.Intn(3) == 0 {
			// one edge of length pi - eps
			es := []float64{1e-4, 1e-5, 9e-6, 1e-6, 1e-8}
			e := es[r.Intn(len(es))]
			z := c.Vector
			x := z.Ortho()
			y := z.Cross(x)
			t := math.Pi - e
			b := z.Mul(math.Cos(t)).Add(x.Mul(math.Sin(t)))
			cs.pts = []s2.Point{c, {Vector: b.Normalize()}, {Vector: y.Mul(1 - 2*float64(r.Intn(2))).Normalize()}}
			cs.kind = "longedge"
		} else {
			cs.pts = g.c18Star(c, rad, n, 1, true)
			cs.kind = "greatcircle"
			cs.star = 0
		}
	case 9: // larger than a hemisphere: a star about c with radius in (pi/2, pi - 0.02)
		rad := math.Pi/2 + 0.02 + (math.Pi/2-0.04)*r.Float()
		cs.pts = g.c18Star(c, rad, n, 1, true)
		cs.center = s2.Point{Vector: c.Vector.Mul(-1)}
		cs.rho, cs.star, cs.kind = math.Pi-rad, 0, "big"
	case 10: // around a pole: the longitude span is full, IsNormalized cannot take its shortcut
		sgn := 1.0
		if r.Bool() {
			sgn = -1
		}
		c = c18Raw(0, 0, sgn)
		rads := []float64{7e-8, 1e-5, 1e-2, 0.7, 1.3}
		rad := rads[r.Intn(len(rads))] * (1 + 0.1*r.Float())
		cs.center = c
		cs.pts = g.c18Star(c, rad, n, 0.7, r.Bool())
		cs.rho, cs.star, cs.kind = rad, 1, "pole"
	case 11: // many vertices, area around turningAngleMaxError = 11.25*eps*n: the curvature test decides
		if n < 100 {
			n = 100 + r.Intn(900)
		}
		maxErr := 11.25 * c18DblEpsilon * float64(n)
		area := maxErr * math.Pow(10, -2+2.5*r.Float())
		rad := math.Sqrt(area / math.Pi)
		cs.pts = g.c18Star(c, rad, n, 0.9, r.Bool())
		cs.rho, cs.star, cs.kind = rad*1.01+1e-12, 1, "dense"
	case 12: // snake: a band of half-width w along a sine curve (not star-shaped); out on one side, back on the other
		scales := []float64{1e-6, 1e-3, 0.05, 0.4, 1.0}
		sc := scales[r.Intn(len(scales))]
		if n > 400 {
			n = 20 + r.Intn(380)
		}
		if n < 8 {
			n = 8
		}
		h := n / 2
		amp := 0.3 * r.Float()
		waves := float64(1 + r.Intn(3))
		w := 0.02 + 0.05*r.Float()
		if w*amp*waves*waves*math.Pi*math.Pi > 0.5 {
			w = 0.5 / (amp * waves * waves * math.Pi * math.Pi)
		}
		z := c.Vector
		x := z.Ortho()
		y := z.Cross(x)
		mk := func(t, side float64) s2.Point {
			cy := amp * math.Sin(waves*math.Pi*t)
			dy := amp * waves * math.Pi * math.Cos(waves*math.Pi*t)
			nl := math.Hypot(1, dy)
			px := t - side*w*dy/nl
			py := cy + side*w/nl
			v := z.Add(x.Mul(sc * px)).Add(y.Mul(sc * py))
			return s2.Point{Vector: v.Normalize()}
		}
		var pts []s2.Point
		for i := 0; i < h; i++ {
			pts = append(pts, mk(-1+2*float64(i)/float64(h-1), -1))
		}
		for i := 0; i < n-h; i++ {
			pts = append(pts, mk(1-2*float64(i)/float64(n-h-1), 1))
		}
		cs.pts = pts
		cs.rho, cs.kind = math.Atan(sc*1.6), "snake"
	default: // cell boundaries (exactly snapped, shared by the library's own tests)
		lv := r.Intn(31)
		id := s2.VerifCellIDFromPoint(c).Parent(lv)
		cell := s2.CellFromCellID(id)
		cs.pts = []s2.Point{cell.Vertex(0), cell.Vertex(1), cell.Vertex(2), cell.Vertex(3)}
		cs.center = cell.Center()
		cs.rho, cs.star, cs.kind = 1.2*float64(cell.CapBound().Radius())+1e-9, 1, "cell"
	}
	if r.Intn(3) == 0 {
		c18Reverse(cs.pts)
		cs.star = -cs.star
	}
	if !c18Valid(cs.pts) {
		return nil
	}
	return cs
}

func (g *G) c18Rots(n int) []int {
	r := g.rng
	if n <= 8 {
		var l []int
		for k := 1; k < n; k++ {
			l = append(l, k)
		}
		return l
	}
	if n > 2000 {
		return []int{1 + r.Intn(n-1)}
	}
	m := 4
	if n > 300 {
		m = 2
	}
	l := []int{1, n - 1}
	for len(l) < m {
		l = append(l, 1+r.Intn(n-1))
	}
	return l
}

// c18CapTok: the largest t (minus a few ulps) with v·c >= t|v||c| for every vertex, "-" when the
// loop is not confined to a cap of radius < 1.5.
func c18CapTok(cs *c18Case) string {
	if cs.rho < 0 || cs.rho > 1.5 {
		return "-"
	}
	c := cs.center
	t := 1.0
	for _, v := range cs.pts {
		d := v.Dot(c.Vector) / (v.Norm() * c.Norm())
		if d < t {
			t = d
		}
	}
	for k := 0; k < 16; k++ {
		t = math.Nextafter(t, 0)
	}
	if !(t > 0.05) {
		return "-"
	}
	return ptTok(c) + "/" + fx(t)
}

func genC18(g *G) {
	r := g.rng
	if g.shardK == 0 {
		g.emit("c18const")
	}
	kinds := map[string]int{}
	defer func() {
		if os.Getenv("C18STATS") != "" {
			fmt.Fprintln(os.Stderr, "c18 kinds:", kinds)
		}
	}()
	for it := 0; it < g.n; it++ {
		cs := g.c18Loop()
		if cs == nil {
			kinds["rejected"]++
			continue
		}
		kinds[cs.kind]++
		n := len(cs.pts)
		ptok := ptsTok(cs.pts)
		rots := c18IntsTok(g.c18Rots(n))
		g.emit("c18turn", ptok, rots)
		// TurnAngle antisymmetry on triples of this loop and on perturbed triples
		for k := 0; k < 2; k++ {
			j := r.Intn(n)
			a, b, c := cs.pts[(j+n-1)%n], cs.pts[j], cs.pts[(j+1)%n]
			if k == 1 {
				c = cs.pts[r.Intn(n)]
				if c == a || c == b {
					continue
				}
			}
			g.emit("c18ta3", ptTok(a), ptTok(b), ptTok(c))
		}
		star := "-"
		if cs.star != 0 && cs.rho > 0 && cs.rho < 1.45 {
			if cs.star > 0 {
				star = "+" + ptTok(cs.center)
			} else {
				star = "-" + ptTok(cs.center)
			}
		}
		var apex []int
		if cs.rho > 0 && cs.rho < 1.3 {
			apex = []int{1 + r.Intn(n-1)}
			if n > 4 {
				apex = append(apex, n/2)
			}
		}
		arots := rots
		if n > 1000 {
			arots = "-"
		}
		g.emit("c18area", ptok, arots, c18CapTok(cs), star, c18IntsTok(apex))
		if cap := c18CapTok(cs); cap != "-" && cs.star != 0 && n <= 300 {
			// the region on the counter-clockwise side lies in the cap: so does its centroid direction
			sg := "+"
			if cs.star < 0 {
				sg = "-"
			}
			g.emit("c18cent", ptok, cap, sg)
		}
		if n <= 120 && (cs.kind == "greatcircle" || cs.kind == "longedge" || cs.kind == "big" || cs.kind == "octa" || r.Intn(4) == 0) {
			g.emit("c18surf", ptok)
		}
		if it%6 == 0 {
			g.c18Polygon()
		}
	}
}

// c18Polygon: concentric nested loops (shell, hole, island, …) plus an optional far shell.
func (g *G) c18Polygon() {
	r := g.rng
	c := g.c18Center()
	k := 1 + r.Intn(4)
	n := 3 + r.Intn(30)
	rads := []float64{1e-6, 1e-3, 0.05, 0.5, 1.2}
	hi := rads[r.Intn(len(rads))] * (1 + r.Float())
	half := 0.9 * 2 * math.Pi / float64(n)
	shrink := 0.2
	if half < math.Pi/2 {
		shrink = math.Max(0.2, 0.8*math.Cos(half))
	}
	var loops [][]s2.Point
	for i := 0; i < k; i++ {
		pts := g.c18Star(c, hi, n, 0.8, r.Bool())
		if !c18Valid(pts) {
			return
		}
		loops = append(loops, pts)
		hi = hi * 0.8 * shrink * 0.9
	}
	if r.Intn(3) == 0 {
		c2 := s2.Point{Vector: c.Vector.Mul(-1)}
		pts := g.c18Star(c2, 0.3, n, 0.6, false)
		if c18Valid(pts) {
			loops = append(loops, pts)
		}
	}
	// the loops must not touch or cross: pairwise edge test with the library's exact predicate
	for i := range loops {
		for j := i + 1; j < len(loops); j++ {
			a, b := loops[i], loops[j]
			for p := range a {
				cr := s2.NewEdgeCrosser(a[p], a[(p+1)%len(a)])
				for q := range b {
					if cr.CrossingSign(b[q], b[(q+1)%len(b)]) != s2.DoNotCross {
						return
					}
				}
			}
		}
	}
	// random order of the input loops: PolygonFromLoops sorts them into its own order
	for i := len(loops) - 1; i > 0; i-- {
		j := r.Intn(i + 1)
		loops[i], loops[j] = loops[j], loops[i]
	}
	toks := make([]string, len(loops))
	for i, l := range loops {
		toks[i] = ptsTok(l)
	}
	g.emit("c18parea", strings.Join(toks, "/"))
}

func init() {
	replayers["c18const"] = c18Const
	replayers["c18turn"] = c18Turn
	replayers["c18ta3"] = c18Ta3
	replayers["c18area"] = c18Area
	replayers["c18cent"] = c18Cent
	replayers["c18parea"] = c18PArea
	replayers["c18surf"] = c18Surf
	generators["c18"] = genC18
}
