package main

// c04build — the ShapeIndex CONSTRUCTION against the bit-exact Lean model `S2.IndexBuild`
// (properties C04 / C06).  Needs the hook s2/verif_export_c04.go (VerifIndexCells).
//
//   c04build <n> <spec>*n = <raw>*n C <cell>*
//       spec : shape spec tokens of c04.go (L: LI: G: GI: P: Y: X:)
//       raw  : what the builder reads through the Shape interface:
//              dim:refContained:refPoint:edges   edges = `-` | v0;v1;v0;v1;…   point = x,y,z (hex bits)
//       cell : id:sid,cc,e.e.e|sid,cc,-|…        (Go's index in iterator order)
//   c04bclip <a> <b> <face> <padding> = <T|F> <aUV.x> <aUV.y> <bUV.x> <bUV.y>     (s2.ClipToPaddedFace)

import (
	"math"
	"strings"

	"github.com/golang/geo/r1"
	"github.com/golang/geo/r2"
	"github.com/golang/geo/r3"
	"github.com/golang/geo/s2"
)

func c04bRawTok(sh s2.Shape) string {
	rp := sh.ReferencePoint()
	n := sh.NumEdges()
	es := "-"
	if n > 0 {
		var b strings.Builder
		for e := 0; e < n; e++ {
			ed := sh.Edge(e)
			if e > 0 {
				b.WriteByte(';')
			}
			b.WriteString(ptTok(ed.V0))
			b.WriteByte(';')
			b.WriteString(ptTok(ed.V1))
		}
		es = b.String()
	}
	return is(sh.Dimension()) + ":" + bs(rp.Contained) + ":" + ptTok(rp.Point) + ":" + es
}

func c04bCellTok(c s2.VerifIndexCellDump) string {
	var ss []string
	for _, s := range c.Shapes {
		ss = append(ss, is(int(s.ShapeID))+","+bs(s.ContainsCenter)+","+c04Ints(s.Edges))
	}
	st := "~"
	if len(ss) > 0 {
		st = strings.Join(ss, "|")
	}
	return idx(c.ID) + ":" + st
}

func c04bBuild(a []string) []string {
	n := pI(a[0])
	index := s2.NewShapeIndex()
	var res []string
	for i := 0; i < n; i++ {
		sh := c04Build(a[1+i])
		index.Add(sh.shape)
		res = append(res, c04bRawTok(sh.shape))
	}
	index.Build()
	res = append(res, "C")
	for _, c := range s2.VerifIndexCells(index) {
		res = append(res, c04bCellTok(c))
	}
	return res
}

func c04bClip(a []string) []string {
	p, q := pPt(a[0]), pPt(a[1])
	au, bu, ok := s2.ClipToPaddedFace(p, q, pI(a[2]), pF(a[3]))
	return []string{bs(ok), fx(au.X), fx(au.Y), fx(bu.X), fx(bu.Y)}
}

// c04bconst = <cellPadding>
func c04bConst(a []string) []string { return []string{fx(s2.VerifIdxCellPadding())} }

// c04binterp <x> <a> <b> <a1> <b1> = <interpolateFloat64>
func c04bInterp(a []string) []string {
	return []string{fx(s2.VerifIdxInterpolate(pF(a[0]), pF(a[1]), pF(a[2]), pF(a[3]), pF(a[4])))}
}

// c04bmaxlevel <v0> <v1> = <maxLevelForEdge>
func c04bMaxLevel(a []string) []string {
	return []string{is(s2.VerifIdxMaxLevelForEdge(pPt(a[0]), pPt(a[1])))}
}

// c04bfaceedge <v0> <v1> = <face:ax,ay,bx,by>*      (what addFaceEdge appends, face 0 first; `-` = nothing)
func c04bFaceEdge(a []string) []string {
	var res []string
	for _, fe := range s2.VerifIdxAddFaceEdge(pPt(a[0]), pPt(a[1])) {
		res = append(res, is(fe.Face)+":"+fx(fe.A.X)+","+fx(fe.A.Y)+","+fx(fe.B.X)+","+fx(fe.B.Y))
	}
	if len(res) == 0 {
		return []string{"-"}
	}
	return res
}

func c04bRect(a []string) r2.Rect {
	return r2.Rect{X: r1.Interval{Lo: pF(a[0]), Hi: pF(a[1])}, Y: r1.Interval{Lo: pF(a[2]), Hi: pF(a[3])}}
}
func c04bRectTok(r r2.Rect) string {
	return fx(r.X.Lo) + "," + fx(r.X.Hi) + "," + fx(r.Y.Lo) + "," + fx(r.Y.Hi)
}

// c04bclipb <ax> <ay> <bx> <by> <xlo> <xhi> <ylo> <yhi> <axis> <end> <val> = <rect>     clipUBound (axis 0) / clipVBound (axis 1)
func c04bClipB(a []string) []string {
	p, q := r2.Point{X: pF(a[0]), Y: pF(a[1])}, r2.Point{X: pF(a[2]), Y: pF(a[3])}
	return []string{c04bRectTok(s2.VerifIdxClipBound(p, q, c04bRect(a[4:8]), pI(a[8]), pI(a[9]), pF(a[10])))}
}

// c04bclipv <ax> <ay> <bx> <by> <xlo> <xhi> <ylo> <yhi> <mlo> <mhi> = <rect|-> <rect|->     clipVAxis
func c04bClipV(a []string) []string {
	p, q := r2.Point{X: pF(a[0]), Y: pF(a[1])}, r2.Point{X: pF(a[2]), Y: pF(a[3])}
	lo, lok, hi, hok := s2.VerifIdxClipVAxis(p, q, c04bRect(a[4:8]), r1.Interval{Lo: pF(a[8]), Hi: pF(a[9])})
	res := []string{"-", "-"}
	if lok {
		res[0] = c04bRectTok(lo)
	}
	if hok {
		res[1] = c04bRectTok(hi)
	}
	return res
}

func init() {
	replayers["c04build"] = c04bBuild
	replayers["c04bclip"] = c04bClip
	replayers["c04bconst"] = c04bConst
	replayers["c04binterp"] = c04bInterp
	replayers["c04bmaxlevel"] = c04bMaxLevel
	replayers["c04bfaceedge"] = c04bFaceEdge
	replayers["c04bclipb"] = c04bClipB
	replayers["c04bclipv"] = c04bClipV
	generators["c04build"] = genC04Build
}

// ---------------------------------------------------------------- generators

// the ShapeIndex cellPadding = 2*(faceClipErrorUVCoord + edgeClipErrorUVCoord) as a float64
var c04bPadding = math.Float64frombits(0x3cf13a5919a791a3)

func c04bNorm(v r3.Vector) s2.Point { return s2.Point{Vector: v.Normalize()} }

// a point of face f at (u,v)
func c04bFaceUV(f int, u, v float64) s2.Point {
	return c04bNorm(s2.VerifFaceUVToXYZ(f, u, v))
}

// c04bBoundaryCoord: a u- or v-value on / next to a cell boundary or the face boundary.
func (g *G) c04bBoundaryCoord() float64 {
	r := g.rng
	var x float64
	switch r.Intn(6) {
	case 0:
		x = 1
	case 1:
		x = -1
	case 2:
		x = 0
	case 3:
		// the boundary of a cell of a random level: stToUV(k / 2^level)
		lv := 1 + r.Intn(30)
		k := r.Intn(1 << uint(min(lv, 20)))
		s := float64(k) / float64(uint64(1)<<uint(min(lv, 20)))
		x = s2.VerifStToUV(s)
	case 4:
		x = 1 - math.Pow(10, -1-15*r.Float())
		if r.Bool() {
			x = -x
		}
	default:
		x = 2*r.Float() - 1
	}
	switch r.Intn(4) {
	case 0:
		x = c04Ulp(x, r.Intn(7)-3)
	case 1:
		// within a few paddings
		x += (r.Float()*2 - 1) * 4 * c04bPadding
	}
	return x
}

func (g *G) c04bBoundaryPoint() s2.Point {
	r := g.rng
	f := r.Intn(6)
	u, v := g.c04bBoundaryCoord(), g.c04bBoundaryCoord()
	if r.Intn(3) == 0 {
		v = 2*r.Float() - 1
	}
	if r.Bool() {
		u, v = v, u
	}
	return c04bFaceUV(f, u, v)
}

// a random point anywhere / at special places
func (g *G) c04bPoint() s2.Point {
	r := g.rng
	switch r.Intn(4) {
	case 0:
		return g.c04bBoundaryPoint()
	case 1:
		return g.c04Center()
	}
	return s2.PointFromCoords(r.Float()*2-1, r.Float()*2-1, r.Float()*2-1)
}

// a point at angular distance about d from p
func (g *G) c04bNear(p s2.Point, d float64) s2.Point {
	r := g.rng
	off := r3.Vector{X: r.Float() - 0.5, Y: r.Float() - 0.5, Z: r.Float() - 0.5}
	if off.Norm() == 0 {
		off = r3.Vector{X: 1}
	}
	off = off.Normalize().Mul(d)
	q := c04bNorm(p.Vector.Add(off))
	return q
}

func (g *G) c04bStep() float64 {
	r := g.rng
	switch r.Intn(5) {
	case 0:
		return 1e-9 * (0.2 + r.Float())
	case 1:
		return math.Pow(10, -9*r.Float())
	case 2:
		return 0.5 + r.Float()
	}
	return math.Pow(10, -1-4*r.Float())
}

// polyline: random walk
func (g *G) c04bWalk(n int) []s2.Point {
	p := g.c04bPoint()
	pts := []s2.Point{p}
	d := g.c04bStep()
	for len(pts) < n+1 {
		q := g.c04bNear(pts[len(pts)-1], d)
		if q == pts[len(pts)-1] && g.rng.Intn(4) != 0 {
			continue // mostly avoid degenerate edges, but keep some
		}
		pts = append(pts, q)
	}
	return pts
}

// polyline along cell boundaries: vertices of cells of one level, walking over edge neighbours
func (g *G) c04bCellWalk(n int) []s2.Point {
	r := g.rng
	lv := r.Intn(31)
	id := s2.VerifCellIDFromPoint(g.c04bPoint()).Parent(lv)
	var pts []s2.Point
	for len(pts) < n+1 {
		c := s2.CellFromCellID(id)
		k := r.Intn(4)
		steps := 1 + r.Intn(3)
		for s := 0; s <= steps && len(pts) < n+1; s++ {
			v := c.Vertex((k + s) % 4)
			if r.Intn(6) == 0 {
				v = g.c04Nudge(v)
			}
			if len(pts) > 0 && pts[len(pts)-1] == v {
				continue
			}
			pts = append(pts, v)
		}
		nb := id.EdgeNeighbors()
		id = nb[r.Intn(4)]
	}
	return pts
}

// polyline through boundary points (face seams, cell boundaries), short or long edges
func (g *G) c04bSeamWalk(n int) []s2.Point {
	var pts []s2.Point
	base := g.c04bBoundaryPoint()
	d := g.c04bStep()
	for len(pts) < n+1 {
		var q s2.Point
		if g.rng.Intn(3) == 0 {
			q = g.c04bBoundaryPoint()
		} else {
			q = g.c04bNear(base, d)
		}
		if len(pts) > 0 && pts[len(pts)-1] == q {
			continue
		}
		pts = append(pts, q)
	}
	return pts
}

// c04bMiddleCoord: an end of the `middle` interval of a random cell: stToUV(siTiToST(centre)) ± cellPadding,
// computed exactly as PaddedCell.Middle does.
func (g *G) c04bMiddleCoord() float64 {
	r := g.rng
	lv := r.Intn(28)
	half := uint32(1) << uint(30-lv) // centre of a level-lv cell in si units: (2k+1) * 2^(30-lv)
	k := uint32(r.Intn(1 << uint(min(lv, 16))))
	if r.Bool() {
		k = (uint32(1) << uint(lv)) - 1 - k
	}
	u := s2.VerifStToUV(s2.VerifSiTiToST((2*k + 1) * half))
	if r.Bool() {
		return u - c04bPadding
	}
	return u + c04bPadding
}

// c04bExactUV: a unit point of face f whose u (axis 0) or v (axis 1) coordinate, as recomputed by
// validFaceXYZToUV, is EXACTLY x (the other coordinate is free); ok = false if none was found.
func (g *G) c04bExactUV(f, axis int, x float64) (s2.Point, bool) {
	r := g.rng
	for try := 0; try < 200; try++ {
		y := 2*r.Float() - 1
		u, v := x, y
		if axis == 1 {
			u, v = y, x
		}
		p := c04bFaceUV(f, u, v)
		ff, uu, vv := s2.VerifXYZToFaceUV(p.Vector)
		if ff != f {
			continue
		}
		if (axis == 0 && uu == x) || (axis == 1 && vv == x) {
			return p, true
		}
	}
	return s2.Point{}, false
}

// a fan of > maxEdgesPerCell tiny edges through a point that sits exactly on an end of the `middle`
// interval of a cell (the `<=` / `>=` comparisons of updateEdges and clipVAxis decide with equality)
func (g *G) c04bMiddleFan(n int) []s2.Point {
	r := g.rng
	var p s2.Point
	ok := false
	for try := 0; try < 8 && !ok; try++ {
		p, ok = g.c04bExactUV(r.Intn(6), r.Intn(2), g.c04bMiddleCoord())
	}
	if !ok {
		p = g.c04bBoundaryPoint()
	}
	if n < 12 {
		n = 12 + r.Intn(8)
	}
	d := 1e-9 * (0.1 + r.Float())
	pts := []s2.Point{p}
	for len(pts) < n+1 {
		q := g.c04bNear(p, d)
		if q == p {
			continue
		}
		pts = append(pts, q)
		if len(pts) < n+1 {
			pts = append(pts, p)
		}
	}
	return pts
}

func (g *G) c04bEdgeCount() int {
	r := g.rng
	switch r.Intn(8) {
	case 0:
		return 1
	case 1:
		return 2 + r.Intn(9)
	case 2:
		return 9 + r.Intn(4) // both sides of maxEdgesPerCell = 10
	case 3:
		if g.thorough || r.Intn(3) == 0 {
			return 100 + r.Intn(301)
		}
		return 20 + r.Intn(60)
	}
	return 1 + r.Intn(40)
}

// one shape spec
func (g *G) c04bShape() string {
	r := g.rng
	n := g.c04bEdgeCount()
	switch r.Intn(13) {
	case 12:
		return "Y:" + ptsTok(g.c04bMiddleFan(n))
	case 0: // points anywhere
		var pts []s2.Point
		for i := 0; i < n; i++ {
			pts = append(pts, g.c04bPoint())
		}
		return "P:" + ptsTok(pts)
	case 1: // > maxEdgesPerCell points in one leaf cell / tiny neighbourhood (level-30 cells)
		p := g.c04bPoint()
		var pts []s2.Point
		for i := 0; i < n; i++ {
			switch r.Intn(3) {
			case 0:
				pts = append(pts, p)
			case 1:
				pts = append(pts, g.c04Nudge(p))
			default:
				pts = append(pts, g.c04bNear(p, 1e-9*r.Float()))
			}
		}
		return "P:" + ptsTok(pts)
	case 2:
		return "Y:" + ptsTok(g.c04bWalk(n))
	case 3:
		return "Y:" + ptsTok(g.c04bCellWalk(n))
	case 4:
		return "Y:" + ptsTok(g.c04bSeamWalk(n))
	case 5: // a fan: > 10 tiny edges through one point, as a zig-zag polyline p,q1,p,q2,…
		p := g.c04bPoint()
		d := 1e-9 * (0.1 + r.Float())
		if r.Intn(3) == 0 {
			d = g.c04bStep()
		}
		pts := []s2.Point{p}
		for len(pts) < n+1 {
			q := g.c04bNear(p, d)
			if q == p {
				continue
			}
			pts = append(pts, q)
			if len(pts) < n+1 {
				pts = append(pts, p)
			}
		}
		return "Y:" + ptsTok(pts)
	case 6, 7, 8: // a loop (any place, any radius, sometimes clockwise = the big complement)
		for try := 0; try < 20; try++ {
			m := n
			if m < 3 {
				m = 3
			}
			if pts := g.c04RandomLoop(m); pts != nil {
				k := "L:"
				if r.Intn(5) == 0 {
					k = "LI:"
				}
				return k + ptsTok(pts)
			}
		}
		return "L:" + ptsTok(c04CellLoop(s2.VerifCellIDFromPoint(g.c04bPoint()).Parent(r.Intn(31))))
	case 9: // a cell as a loop: every edge on cell boundaries
		id := s2.VerifCellIDFromPoint(g.c04bPoint()).Parent(r.Intn(31))
		k := "L:"
		if r.Intn(4) == 0 {
			k = "LI:"
		}
		return k + ptsTok(c04CellLoop(id))
	case 10: // nested polygon
		for try := 0; try < 10; try++ {
			m := n / 3
			if m < 3 {
				m = 3
			}
			if loops := g.c04Nested(1+r.Intn(3), m); loops != nil {
				k := "G"
				if r.Intn(4) == 0 {
					k = "X"
				}
				return c04LoopsSpec(k, loops)
			}
		}
		return "L:" + ptsTok(c04CellLoop(s2.VerifCellIDFromPoint(g.c04bPoint()).Parent(r.Intn(31))))
	}
	// lax polygon from one random loop
	for try := 0; try < 20; try++ {
		m := n
		if m < 3 {
			m = 3
		}
		if pts := g.c04RandomLoop(m); pts != nil {
			return c04LoopsSpec("X", [][]s2.Point{pts})
		}
	}
	return "P:" + ptsTok([]s2.Point{g.c04bPoint()})
}

func (g *G) c04bClipCase() {
	r := g.rng
	a := g.c04bPoint()
	var b s2.Point
	switch r.Intn(5) {
	case 0:
		b = g.c04bPoint()
	case 1:
		b = a
	case 2:
		b = s2.Point{Vector: a.Vector.Mul(-1)}
	default:
		b = g.c04bNear(a, g.c04bStep())
	}
	pad := c04bPadding
	switch r.Intn(6) {
	case 0:
		pad = 0
	case 1:
		pad = math.Pow(10, -1-10*r.Float())
	}
	for f := 0; f < 6; f++ {
		g.emit("c04bclip", ptTok(a), ptTok(b), is(f), fx(pad))
	}
}

// the float pieces: interpolation, maxLevelForEdge, addFaceEdge, child clipping of one edge
func (g *G) c04bPieces() {
	r := g.rng
	a, b := g.c04bPoint(), s2.Point{}
	switch r.Intn(5) {
	case 0:
		b = g.c04bPoint()
	case 1:
		b = a
	default:
		b = g.c04bNear(a, g.c04bStep())
	}
	g.emit("c04bmaxlevel", ptTok(a), ptTok(b))
	g.emit("c04bfaceedge", ptTok(a), ptTok(b))
	// a face edge in uv and a clipping value inside / at / outside its bound
	fes := s2.VerifIdxAddFaceEdge(a, b)
	var p, q r2.Point
	if len(fes) > 0 && r.Intn(4) != 0 {
		fe := fes[r.Intn(len(fes))]
		p, q = fe.A, fe.B
	} else {
		p = r2.Point{X: g.c04bBoundaryCoord(), Y: g.c04bBoundaryCoord()}
		q = r2.Point{X: g.c04bBoundaryCoord(), Y: g.c04bBoundaryCoord()}
		if r.Intn(4) == 0 {
			q.X = p.X
		}
		if r.Intn(4) == 0 {
			q.Y = p.Y
		}
	}
	bound := r2.RectFromPoints(p, q)
	pick := func(lo, hi float64) float64 {
		switch r.Intn(6) {
		case 0:
			return lo
		case 1:
			return hi
		case 2:
			return c04Ulp(lo+(hi-lo)*r.Float(), r.Intn(3)-1)
		case 3:
			return g.c04bBoundaryCoord()
		}
		return lo + (hi-lo)*r.Float()
	}
	// sometimes shrink the bound first the way a previous clip would
	if r.Intn(3) == 0 {
		bound = s2.VerifIdxClipBound(p, q, bound, 0, r.Intn(2), pick(bound.X.Lo, bound.X.Hi))
	}
	if r.Intn(3) == 0 {
		bound = s2.VerifIdxClipBound(p, q, bound, 1, r.Intn(2), pick(bound.Y.Lo, bound.Y.Hi))
	}
	bt := []string{fx(p.X), fx(p.Y), fx(q.X), fx(q.Y), fx(bound.X.Lo), fx(bound.X.Hi), fx(bound.Y.Lo), fx(bound.Y.Hi)}
	u := pick(bound.X.Lo, bound.X.Hi)
	v := pick(bound.Y.Lo, bound.Y.Hi)
	g.emit("c04binterp", fx(u), fx(p.X), fx(q.X), fx(p.Y), fx(q.Y))
	g.emit("c04binterp", fx(v), fx(p.Y), fx(q.Y), fx(p.X), fx(q.X))
	for end := 0; end < 2; end++ {
		g.emit("c04bclipb", append(append([]string(nil), bt...), "0", is(end), fx(u))...)
		g.emit("c04bclipb", append(append([]string(nil), bt...), "1", is(end), fx(v))...)
	}
	pad := c04bPadding
	g.emit("c04bclipv", append(append([]string(nil), bt...), fx(v-pad), fx(v+pad))...)
}

func genC04Build(g *G) {
	r := g.rng
	if g.shardK == 0 {
		g.emit("c04bconst")
	}
	// fixed: the empty index, the six faces as loops, the full loop, a single point per face centre
	if g.shardK == 0 {
		g.emit("c04build", "0")
		for f := 0; f < 6; f++ {
			g.emit("c04build", "1", "L:"+ptsTok(c04CellLoop(s2.CellIDFromFace(f))))
			g.emit("c04build", "1", "P:"+ptTok(c04bFaceUV(f, 0, 0)))
			g.emit("c04build", "2", "LI:"+ptsTok(c04CellLoop(s2.CellIDFromFace(f).Children()[f%4])), "P:"+ptTok(c04bFaceUV((f+3)%6, 0.5, -0.25)))
		}
		g.emit("c04build", "1", "L:"+ptTok(c04Raw(0, 0, -1))) // full loop
		g.emit("c04build", "1", "L:"+ptTok(c04Raw(0, 0, 1)))  // empty loop
	}
	cases := g.n / 8
	if cases < 4 {
		cases = 4
	}
	for i := 0; i < cases; i++ {
		ns := 1
		switch r.Intn(4) {
		case 0:
			ns = 2 + r.Intn(4)
		case 1:
			ns = 2
		}
		args := []string{is(ns)}
		for k := 0; k < ns; k++ {
			args = append(args, g.c04bShape())
		}
		g.emit("c04build", args...)
		g.c04bClipCase()
		for k := 0; k < 3; k++ {
			g.c04bPieces()
		}
	}
}
