package main

import (
	"sort"

	"github.com/golang/geo/s2"
)

func init() {
	replayers["cunorm"] = func(a []string) []string {
		cu := s2.CellUnion(pIDs(a[0]))
		cu.Normalize()
		return []string{ids(cu)}
	}
	replayers["cuvalid"] = func(a []string) []string {
		cu := s2.CellUnion(pIDs(a[0]))
		return []string{bs(cu.IsValid()), bs(cu.IsNormalized())}
	}
	replayers["cucontid"] = func(a []string) []string {
		cu := s2.CellUnion(pIDs(a[0]))
		id := s2.CellID(pU64(a[1]))
		return []string{bs(cu.ContainsCellID(id)), bs(cu.IntersectsCellID(id))}
	}
	replayers["cubin"] = func(a []string) []string {
		x := s2.CellUnion(pIDs(a[0]))
		y := s2.CellUnion(pIDs(a[1]))
		u := s2.CellUnionFromUnion(x, y)
		n := s2.CellUnionFromIntersection(x, y)
		d := s2.CellUnionFromDifference(x, y)
		return []string{ids(u), ids(n), ids(d), bs(x.Contains(y)), bs(x.Intersects(y))}
	}
	replayers["cuunion"] = func(a []string) []string {
		x := s2.CellUnion(pIDs(a[0]))
		return []string{ids(s2.CellUnionFromUnion(append(s2.CellUnion(nil), x...))), ids(s2.CellUnionFromUnion(append(s2.CellUnion(nil), x...), s2.CellUnion{}))}
	}
	replayers["cucont"] = func(a []string) []string {
		x := s2.CellUnion(pIDs(a[0]))
		y := s2.CellUnion(pIDs(a[1]))
		return []string{bs(x.Contains(y))}
	}
	replayers["cuinterid"] = func(a []string) []string {
		x := s2.CellUnion(pIDs(a[0]))
		return []string{ids(s2.CellUnionFromIntersectionWithCellID(x, s2.CellID(pU64(a[1]))))}
	}
	replayers["cudenorm"] = func(a []string) []string {
		x := s2.CellUnion(append([]s2.CellID(nil), pIDs(a[0])...))
		x.Denormalize(pI(a[1]), pI(a[2]))
		return []string{ids(x)}
	}
	replayers["culeaves"] = func(a []string) []string {
		x := s2.CellUnion(pIDs(a[0]))
		return []string{i64s(x.LeafCellsCovered())}
	}
	replayers["curange"] = func(a []string) []string {
		return []string{ids(s2.CellUnionFromRange(s2.CellID(pU64(a[0])), s2.CellID(pU64(a[1]))))}
	}
	generators["c11"] = genC11
}

// randUnionRaw builds an adversarial multiset of valid cell ids: duplicates, complete sibling
// groups at several levels, nested cells, whole faces, neighbours along the curve.
func (g *G) randUnionRaw() []s2.CellID {
	r := g.rng
	var cu []s2.CellID
	n := r.Intn(12)
	if r.Intn(10) == 0 {
		n = r.Intn(60)
	}
	baseLevel := r.Intn(28)
	var anchor s2.CellID = g.randCellAt(baseLevel)
	for k := 0; k < n; k++ {
		switch r.Intn(11) {
		case 0: // complete sibling group (maybe missing one)
			p := anchor
			if p.Level() >= 30 {
				p = p.Parent(29)
			}
			ch := p.Children()
			miss := -1
			if r.Intn(3) == 0 {
				miss = r.Intn(4)
			}
			for i, c := range ch {
				if i != miss {
					cu = append(cu, c)
				}
			}
		case 1: // cascade: three siblings at each of several levels plus the deepest fourth
			c := anchor
			depth := 1 + r.Intn(4)
			for d := 0; d < depth && c.Level() < 30; d++ {
				ch := c.Children()
				pick := r.Intn(4)
				for i, x := range ch {
					if i != pick {
						cu = append(cu, x)
					}
				}
				c = ch[pick]
			}
			if r.Bool() {
				cu = append(cu, c)
			}
		case 2: // duplicate
			if len(cu) > 0 {
				cu = append(cu, cu[r.Intn(len(cu))])
			}
		case 3: // descendant of an existing cell
			if len(cu) > 0 {
				c := cu[r.Intn(len(cu))]
				if c.Level() < 30 {
					l := c.Level() + 1 + r.Intn(30-c.Level())
					if r.Bool() {
						cu = append(cu, c.ChildBeginAtLevel(l))
					} else {
						cu = append(cu, c.ChildEndAtLevel(l).Prev())
					}
				}
			}
		case 4: // ancestor of an existing cell
			if len(cu) > 0 {
				c := cu[r.Intn(len(cu))]
				cu = append(cu, c.Parent(r.Intn(c.Level()+1)))
			}
		case 5: // whole face
			cu = append(cu, s2.CellIDFromFace(r.Intn(6)))
		case 6: // curve neighbours of the anchor
			cu = append(cu, anchor.Next(), anchor.Prev())
			cu = cu[:len(cu)-r.Intn(2)]
		case 7:
			anchor = g.randCell()
			cu = append(cu, anchor)
		case 8: // leaf cells around a boundary
			l := anchor.RangeMax()
			cu = append(cu, l, l.Next())
		default:
			anchor = g.randCellAt(minI(30, baseLevel+r.Intn(3)))
			cu = append(cu, anchor)
		}
	}
	out := cu[:0]
	for _, c := range cu {
		if c.IsValid() {
			out = append(out, c)
		}
	}
	// shuffle
	for i := len(out) - 1; i > 0; i-- {
		j := r.Intn(i + 1)
		out[i], out[j] = out[j], out[i]
	}
	return out
}

func (g *G) randNormUnion() s2.CellUnion {
	cu := s2.CellUnion(g.randUnionRaw())
	// normalise with an independent reference (not the code under test): expand to sorted
	// disjoint cells by interval merging, then tile each run minimally.
	return refNormalize(cu)
}

// refNormalize: reference normal form computed from leaf intervals (independent of Normalize).
func refNormalize(cu []s2.CellID) s2.CellUnion {
	type iv struct{ lo, hi uint64 }
	var v []iv
	for _, c := range cu {
		v = append(v, iv{uint64(c.RangeMin()), uint64(c.RangeMax())})
	}
	sort.Slice(v, func(i, j int) bool { return v[i].lo < v[j].lo })
	var m []iv
	for _, x := range v {
		if len(m) > 0 && x.lo <= m[len(m)-1].hi+2 {
			if x.hi > m[len(m)-1].hi {
				m[len(m)-1].hi = x.hi
			}
		} else {
			m = append(m, x)
		}
	}
	var out s2.CellUnion
	for _, x := range m {
		// greedy maximal aligned tiles of [lo, hi]
		lo := x.lo
		for lo <= x.hi {
			// largest cell starting at leaf lo that fits
			c := s2.CellID(lo)
			for c.Level() > 0 {
				p := c.Parent(c.Level() - 1)
				if uint64(p.RangeMin()) != lo || uint64(p.RangeMax()) > x.hi {
					break
				}
				c = p
			}
			out = append(out, c)
			nx := uint64(c.RangeMax()) + 2
			if nx < lo {
				break
			}
			lo = nx
		}
	}
	return out
}

func genC11(g *G) {
	r := g.rng
	for k := 0; k < g.n; k++ {
		raw := g.randUnionRaw()
		g.emit("cunorm", ids(raw))
		g.emit("cuvalid", ids(raw))
		g.emit("culeaves", ids(refNormalize(raw)))
		x := g.randNormUnion()
		var y s2.CellUnion
		switch r.Intn(4) {
		case 0:
			y = g.randNormUnion()
		case 1: // derived from x: pieces, parents, children
			var t []s2.CellID
			for _, c := range x {
				switch r.Intn(5) {
				case 0:
					t = append(t, c)
				case 1:
					if c.Level() < 30 {
						t = append(t, c.Children()[r.Intn(4)])
					}
				case 2:
					if c.Level() > 0 {
						t = append(t, c.Parent(c.Level()-1))
					}
				case 3:
					t = append(t, c.Next(), c.Prev())
				}
			}
			var tv []s2.CellID
			for _, c := range t {
				if c.IsValid() {
					tv = append(tv, c)
				}
			}
			y = refNormalize(tv)
		case 2:
			y = refNormalize(append(g.randUnionRaw(), x...))
		default:
			y = g.randNormUnion()
		}
		g.emit("cuvalid", ids(x))
		g.emit("cubin", ids(x), ids(y))
		if r.Intn(4) == 0 {
			// the union of ONE raw (unsorted, overlapping, mergeable) operand, alone and with an empty union (seeded change C11_7)
			g.emit("cuunion", ids(g.randUnionRaw()))
		}
		if len(x) > 0 && r.Intn(3) == 0 {
			// Contains with a RAW argument: cells of x, their children and descendants, each possibly several
			// times, unsorted (the argument is only iterated over; duplicates and overlaps are legal there).  The
			// multiplicity-counted leaf total of the argument often exceeds that of the receiver (seeded change C11_5).
			var raw []s2.CellID
			for k := 1 + r.Intn(6); k > 0; k-- {
				c := x[r.Intn(len(x))]
				switch r.Intn(4) {
				case 0:
					if c.Level() < 30 {
						c = c.Children()[r.Intn(4)]
					}
				case 1:
					if c.Level() < 29 {
						c = c.Children()[r.Intn(4)].Children()[r.Intn(4)]
					}
				}
				for m := 1 + r.Intn(3); m > 0; m-- {
					raw = append(raw, c)
				}
			}
			if r.Intn(4) == 0 && len(y) > 0 {
				raw = append(raw, y[r.Intn(len(y))])
			}
			g.emit("cucont", ids(x), ids(raw))
		}
		// probe ids: cells of x/y, their parents/children/neighbours, random
		var id s2.CellID
		switch {
		case len(x) > 0 && r.Intn(3) > 0:
			c := x[r.Intn(len(x))]
			switch r.Intn(6) {
			case 0:
				id = c
			case 1:
				if c.Level() < 30 {
					id = c.Children()[r.Intn(4)]
				} else {
					id = c
				}
			case 2:
				id = c.Parent(r.Intn(c.Level() + 1))
			case 3:
				id = c.Next()
			case 4:
				id = c.RangeMin()
			default:
				id = c.RangeMax().Next()
			}
		default:
			id = g.randCell()
		}
		if !id.IsValid() {
			id = g.randCell()
		}
		g.emit("cucontid", ids(x), idx(id))
		g.emit("cuinterid", ids(x), idx(id))
		// denormalize with small expansion factors only
		if len(x) > 0 {
			minL, mod := 0, 1+r.Intn(3)
			maxLv := 0
			for _, c := range x {
				if c.Level() > maxLv {
					maxLv = c.Level()
				}
			}
			var small s2.CellUnion
			for _, c := range x {
				if c.Level() >= maxLv-2 {
					small = append(small, c)
				}
			}
			minL = maxI(0, maxLv-2+r.Intn(4))
			if minL > 30 {
				minL = 30
			}
			g.emit("cudenorm", ids(small), is(minL), is(mod))
		}
		// ranges of leaf cells
		b := g.randCell().RangeMin()
		var e s2.CellID
		switch r.Intn(4) {
		case 0:
			e = b
		case 1:
			e = b.Advance(int64(r.Intn(1000)))
		case 2:
			e = g.randCell().RangeMax().Next()
		default:
			e = b.Advance(int64(r.U64() >> uint(4+r.Intn(60))))
		}
		if e < b {
			b, e = e, b
		}
		if e.IsLeaf() || uint64(e) == uint64(s2.CellIDFromFace(5).RangeMax())+2 {
			g.emit("curange", idx(b), idx(e))
		}
	}
}

func maxI(a, b int) int {
	if a > b {
		return a
	}
	return b
}
