package main

// Property C20: approximation operators stay within the tolerance they declare.
// Ops (judged by lean/Oracle/C20.lean):
//
//   c20tess  kind scale tol dir c…       kind = P (plate carree) | M (mercator); scale = xScale / maxLng;
//                                          dir = proj : c = ax ay az bx by bz  (geodesic edge a,b -> planar chain)
//                                          dir = unproj: c = pax pay pbx pby   (planar edge -> geodesic chain)
//            = n chain e0 e1 wrap maxdev worstSeg
//              chain = vertices ("x:y" or "x:y:z", comma separated), e0/e1 = Project(a)/Project(b) resp.
//              Unproject(pa)/Unproject(pb), wrap = WrapDistance().X, maxdev = the largest distance (radians,
//              measured by dense sampling in Go) from a point of the OUTPUT chain to the INPUT edge.
//   c20projrt kind scale x y z           = Project(p)  Unproject(Project(p))  Project(Unproject(Project(p)))
//   c20wrap  kind scale f ax ay bx by    = WrapDestination(a,b) (2)  Interpolate(f,a,b) (2)   (bit-exact model)
//   c20subs  tol verts                   = indices fe maxdrop worst
//              fe = the findEndVertex result for every visited start index ("start:end", hook), maxdrop = largest
//              distance of a dropped vertex to the segment of the simplified polyline that covers it
//   c20snapc level x y z                 level 0..30 or "new" (= NewCellIDSnapper())
//            = q radius
//   c20snapi e x y z                     = q radius inLat inLng klat klng outLat outLng site
//                                          (in = LatLngFromPoint(p); k = Round(in.Degrees()*10^e); out = LatLngFromDegrees(k*(1/10^e));
//                                          site = PointFromLatLng(out): the stages of SnapPoint restated through the public API)
//   c20scaled tol                        = the tessellator's scaledTolerance (squared chord, hook)
//   c20rad   L|E n                       = minSnapRadiusFor…(n)  …ForMaxSnapRadius(that radius)  and the same just below
//                                          (L: one ulp below; E: 2^-30 relative below, see c20rad)
//
// Needs the export hooks of s2/verif_export_c20.go (build tag verif).

import (
	"math"
	"strings"

	"github.com/golang/geo/r2"
	"github.com/golang/geo/r3"
	"github.com/golang/geo/s1"
	"github.com/golang/geo/s2"
)

func c20proj(kind string, scale float64) s2.Projection {
	if kind == "M" {
		return s2.NewMercatorProjection(scale)
	}
	return s2.NewPlateCarreeProjection(scale)
}

func c20r2Tok(p r2.Point) string { return fx(p.X) + ":" + fx(p.Y) }
func c20ptTok(p s2.Point) string { return fx(p.X) + ":" + fx(p.Y) + ":" + fx(p.Z) }

func c20pPoints(s string) []s2.Point {
	if s == "-" {
		return nil
	}
	parts := strings.Split(s, ",")
	r := make([]s2.Point, len(parts))
	for i, p := range parts {
		c := strings.Split(p, ":")
		r[i] = s2.Point{Vector: r3.Vector{X: pF(c[0]), Y: pF(c[1]), Z: pF(c[2])}}
	}
	return r
}

func c20pointsTok(l []s2.Point) string {
	if len(l) == 0 {
		return "-"
	}
	p := make([]string, len(l))
	for i, v := range l {
		p[i] = c20ptTok(v)
	}
	return strings.Join(p, ",")
}

// c20sampleBudget bounds the number of projection evaluations per case.
const c20sampleBudget = 120000

// c20devProjected: largest distance from a point of the planar output chain (mapped back to the sphere)
// to the geodesic input edge ab.
func c20devProjected(proj s2.Projection, a, b s2.Point, chain []r2.Point) (float64, int) {
	nseg := len(chain) - 1
	if nseg < 1 {
		return 0, 0
	}
	n := c20sampleBudget / nseg
	if n > 1024 {
		n = 1024
	}
	if n < 16 {
		n = 16
	}
	worst, wi := 0.0, 0
	for i := 0; i < nseg; i++ {
		for k := 0; k <= n; k++ {
			t := float64(k) / float64(n)
			q := proj.Unproject(proj.Interpolate(t, chain[i], chain[i+1]))
			d := float64(s2.DistanceFromSegment(q, a, b))
			if d > worst {
				worst, wi = d, i
			}
		}
	}
	return worst, wi
}

// c20distToCurve: distance from q to the curve t -> Unproject(Interpolate(t, pa, pb)), t in [lo,hi] (clamped to
// [0,1]): 48-point scan, then golden-section refinement of the two best local minima of the scan (the curve can
// come close to itself near a pole).  The value is >= the true minimum (every evaluated point lies on the curve)
// and within ~1e-9 relative of the local minimum that contains the best sample.
func c20distToCurve(proj s2.Projection, q s2.Point, pa, pb r2.Point, lo, hi float64) float64 {
	if lo < 0 {
		lo = 0
	}
	if hi > 1 {
		hi = 1
	}
	f := func(t float64) float64 {
		return float64(s2.ChordAngleBetweenPoints(q, proj.Unproject(proj.Interpolate(t, pa, pb))))
	}
	const m = 48
	var v [m + 1]float64
	for k := 0; k <= m; k++ {
		v[k] = f(lo + (hi-lo)*float64(k)/m)
	}
	b1, b2 := -1, -1 // indices of the two smallest local minima
	for k := 0; k <= m; k++ {
		if (k > 0 && v[k-1] < v[k]) || (k < m && v[k+1] < v[k]) {
			continue
		}
		if b1 < 0 || v[k] < v[b1] {
			b1, b2 = k, b1
		} else if b2 < 0 || v[k] < v[b2] {
			b2 = k
		}
	}
	best := math.Inf(1)
	for _, bk := range []int{b1, b2} {
		if bk < 0 {
			continue
		}
		if v[bk] < best {
			best = v[bk]
		}
		l := lo + (hi-lo)*float64(bk-1)/m
		h := lo + (hi-lo)*float64(bk+1)/m
		if l < lo {
			l = lo
		}
		if h > hi {
			h = hi
		}
		const g = 0.6180339887498949
		x1 := h - g*(h-l)
		x2 := l + g*(h-l)
		f1, f2 := f(x1), f(x2)
		for it := 0; it < 40; it++ {
			if f1 < f2 {
				h, x2, f2 = x2, x1, f1
				x1 = h - g*(h-l)
				f1 = f(x1)
			} else {
				l, x1, f1 = x1, x2, f2
				x2 = l + g*(h-l)
				f2 = f(x2)
			}
			if f1 < best {
				best = f1
			}
			if f2 < best {
				best = f2
			}
		}
	}
	return float64(s1.ChordAngle(best).Angle())
}

// c20devUnprojected: largest distance from a point of the geodesic output chain to the planar input edge
// (pa, pb wrapped) mapped onto the sphere.  The nearest curve point is searched over the WHOLE edge t in [0,1]
// (48-point scan + golden section); a bracket derived from projecting the chain vertices would be wrong when a
// vertex projects exactly half a period away from pa.
func c20devUnprojected(proj s2.Projection, pa, pb r2.Point, chain []s2.Point) (float64, int) {
	nseg := len(chain) - 1
	if nseg < 1 {
		return 0, 0
	}
	pbw := proj.WrapDestination(pa, pb)
	n := c20sampleBudget / 140 / nseg
	if n > 64 {
		n = 64
	}
	if n < 4 {
		n = 4
	}
	worst, wi := 0.0, 0
	for i := 0; i < nseg; i++ {
		for k := 0; k <= n; k++ {
			t := float64(k) / float64(n)
			q := s2.Interpolate(t, chain[i], chain[i+1])
			dd := c20distToCurve(proj, q, pa, pbw, 0, 1)
			if dd > worst {
				worst, wi = dd, i
			}
		}
	}
	return worst, wi
}

func c20tess(args []string) []string {
	kind, scale, tol, dir := args[0], pF(args[1]), pF(args[2]), args[3]
	proj := c20proj(kind, scale)
	te := s2.NewEdgeTessellator(proj, s1.Angle(tol))
	wrap := proj.WrapDistance().X
	if dir == "proj" {
		a := s2.Point{Vector: r3.Vector{X: pF(args[4]), Y: pF(args[5]), Z: pF(args[6])}}
		b := s2.Point{Vector: r3.Vector{X: pF(args[7]), Y: pF(args[8]), Z: pF(args[9])}}
		chain := te.AppendProjected(a, b, nil)
		toks := make([]string, len(chain))
		for i, p := range chain {
			toks[i] = c20r2Tok(p)
		}
		dev, wi := c20devProjected(proj, a, b, chain)
		return []string{is(len(chain)), strings.Join(toks, ","), c20r2Tok(proj.Project(a)), c20r2Tok(proj.Project(b)), fx(wrap), fx(dev), is(wi)}
	}
	pa := r2.Point{X: pF(args[4]), Y: pF(args[5])}
	pb := r2.Point{X: pF(args[6]), Y: pF(args[7])}
	chain := te.AppendUnprojected(pa, pb, nil)
	dev, wi := c20devUnprojected(proj, pa, pb, chain)
	return []string{is(len(chain)), c20pointsTok(chain), c20ptTok(proj.Unproject(pa)), c20ptTok(proj.Unproject(pb)), fx(wrap), fx(dev), is(wi)}
}

func c20projrt(args []string) []string {
	proj := c20proj(args[0], pF(args[1]))
	p := s2.Point{Vector: r3.Vector{X: pF(args[2]), Y: pF(args[3]), Z: pF(args[4])}}
	pp := proj.Project(p)
	q := proj.Unproject(pp)
	pq := proj.Project(q)
	return []string{c20r2Tok(pp), c20ptTok(q), c20r2Tok(pq)}
}

// c20wrap: WrapDestination and Interpolate of the projection (bit-exact model comparison).
func c20wrap(args []string) []string {
	proj := c20proj(args[0], pF(args[1]))
	f := pF(args[2])
	a := r2.Point{X: pF(args[3]), Y: pF(args[4])}
	b := r2.Point{X: pF(args[5]), Y: pF(args[6])}
	w := proj.WrapDestination(a, b)
	i := proj.Interpolate(f, a, b)
	return []string{fx(w.X), fx(w.Y), fx(i.X), fx(i.Y)}
}

func c20subs(args []string) []string {
	tol := s1.Angle(pF(args[0]))
	pts := c20pPoints(args[1])
	pl := s2.Polyline(pts)
	idxs := pl.SubsampleVertices(tol)
	// findEndVertex trace (same clamping as SubsampleVertices)
	ct := s1.Angle(math.Max(tol.Radians(), 0))
	var fe []string
	for index := 0; index+1 < len(pl); {
		nx := s2.VerifFindEndVertex(pl, ct, index)
		fe = append(fe, is(index)+":"+is(nx))
		if nx <= index { // contract broken: stop (the oracle reports it)
			break
		}
		index = nx
	}
	it := make([]string, len(idxs))
	for i, v := range idxs {
		it[i] = is(v)
	}
	// distance of every dropped vertex to its covering segment
	worst, wk := 0.0, -1
	for j := 0; j < len(idxs); j++ {
		lo := idxs[j]
		hi := len(pl) // after the last output vertex: covered by the point pl[lo]
		end := lo
		if j+1 < len(idxs) {
			hi = idxs[j+1]
			end = hi
		}
		if lo < 0 || lo >= len(pl) || end >= len(pl) {
			continue
		}
		for k := lo + 1; k < hi && k < len(pl); k++ {
			var d float64
			if pl[lo] == pl[end] {
				d = float64(pl[k].Distance(pl[lo]))
			} else {
				d = float64(s2.DistanceFromSegment(pl[k], pl[lo], pl[end]))
			}
			if d > worst {
				worst, wk = d, k
			}
		}
	}
	j := func(l []string) string {
		if len(l) == 0 {
			return "-"
		}
		return strings.Join(l, ",")
	}
	return []string{j(it), j(fe), fx(worst), is(wk)}
}

func c20snapc(args []string) []string {
	p := s2.Point{Vector: r3.Vector{X: pF(args[1]), Y: pF(args[2]), Z: pF(args[3])}}
	var sf s2.CellIDSnapper
	if args[0] == "new" {
		sf = s2.NewCellIDSnapper()
	} else {
		sf = s2.CellIDSnapperForLevel(pI(args[0]))
	}
	q := sf.SnapPoint(p)
	return []string{c20ptTok(q), fx(float64(sf.SnapRadius()))}
}

func c20snapi(args []string) []string {
	p := s2.Point{Vector: r3.Vector{X: pF(args[1]), Y: pF(args[2]), Z: pF(args[3])}}
	e := pI(args[0])
	sf := s2.NewIntLatLngSnapper(e)
	q := sf.SnapPoint(p)
	// The same computation restated through the public API, so that its stages can be compared with the model:
	// in = LatLngFromPoint(p) (libm), k = Round(in.Degrees() * 10^e), out = LatLngFromDegrees(k * (1 / 10^e)),
	// site = PointFromLatLng(out) (libm).  The oracle checks the arithmetic in -> (k, out) bit-exactly and q against site.
	in := s2.LatLngFromPoint(p)
	from := math.Pow10(e)
	to := 1 / from
	klat := math.Round(in.Lat.Degrees() * from)
	klng := math.Round(in.Lng.Degrees() * from)
	out := s2.LatLngFromDegrees(klat*to, klng*to)
	site := s2.PointFromLatLng(out)
	return []string{c20ptTok(q), fx(float64(sf.SnapRadius())), fx(float64(in.Lat)), fx(float64(in.Lng)),
		i64s(int64(klat)), i64s(int64(klng)), fx(float64(out.Lat)), fx(float64(out.Lng)), c20ptTok(site)}
}

// c20scaled: the tessellator's acceptance threshold (hook), a squared chord length.
func c20scaled(args []string) []string {
	te := s2.NewEdgeTessellator(s2.NewPlateCarreeProjection(180), s1.Angle(pF(args[0])))
	return []string{fx(float64(s2.VerifTessScaledTolerance(te)))}
}

func c20rad(args []string) []string {
	n := pI(args[1])
	if args[0] == "L" {
		r := s2.VerifCellIDMinSnapRadiusForLevel(n)
		below := s1.Angle(math.Nextafter(float64(r), 0))
		return []string{fx(float64(r)), is(s2.VerifCellIDLevelForMaxSnapRadius(r)), is(s2.VerifCellIDLevelForMaxSnapRadius(below))}
	}
	r := s2.VerifIntLatLngMinSnapRadiusForExponent(n)
	// exponentForMaxSnapRadius deliberately tolerates 2*dblEpsilon of log10 error: probe 2^-30 (relative) below
	below := r * (1 - 1.0/(1<<30))
	return []string{fx(float64(r)), is(s2.VerifIntLatLngExponentForMaxSnapRadius(r)), is(s2.VerifIntLatLngExponentForMaxSnapRadius(below))}
}

// ---------------------------------------------------------------- generators

func c20logU(g *G, lo, hi float64) float64 { // 10^U(lo,hi)
	return math.Pow(10, lo+(hi-lo)*g.rng.Float())
}

func c20tol(g *G) float64 {
	switch g.rng.Intn(10) {
	case 0:
		return 1e-13
	case 1:
		return 1
	case 2:
		return c20logU(g, -13, -11)
	case 3:
		return c20logU(g, -2, 0)
	default:
		return c20logU(g, -13, 0)
	}
}

func c20scale(g *G) float64 {
	scales := []float64{math.Pi, 180, 1, 1 << 20, 1e-3, 20037508.342789244, 0.5, 648000}
	return scales[g.rng.Intn(len(scales))]
}

func c20ll(latDeg, lngDeg float64) s2.Point {
	return s2.PointFromLatLng(s2.LatLngFromDegrees(latDeg, lngDeg))
}

// c20edge draws a geodesic edge (a, b) for the tessellator: centre region by class, length bounded so that
// the chain stays below a few hundred vertices for the given tolerance.
func c20edge(g *G, kind string, tol float64) (s2.Point, s2.Point) {
	maxLat := 89.9
	if kind == "M" {
		// Mercator: documented not to work at the poles; rounding of y grows like 1/cos^2(lat)
		maxLat = 85
		if tol >= 1e-7 {
			maxLat = 89
		}
	}
	maxLen := 250 * math.Sqrt(tol) // radians
	if maxLen > 3.1 {
		maxLen = 3.1
	}
	length := maxLen * math.Pow(10, -3*g.rng.Float()*g.rng.Float())
	var lat, lng float64
	switch g.rng.Intn(7) {
	case 0: // equator crossing
		lat = (g.rng.Float() - 0.5) * 0.4 * length * 180 / math.Pi
		lng = g.rng.Float()*360 - 180
	case 1: // antimeridian crossing
		lat = (g.rng.Float()*2 - 1) * maxLat
		lng = 180 - (g.rng.Float()-0.5)*0.4*length*180/math.Pi
	case 2: // high latitude
		lat = maxLat - g.rng.Float()*5
		if g.rng.Bool() {
			lat = -lat
		}
		lng = g.rng.Float()*360 - 180
	case 3: // both
		lat = (g.rng.Float() - 0.5) * 0.4 * length * 180 / math.Pi
		lng = 180 - (g.rng.Float()-0.5)*0.4*length*180/math.Pi
	default:
		lat = (g.rng.Float()*2 - 1) * maxLat
		lng = g.rng.Float()*360 - 180
	}
	c := c20ll(lat, lng)
	// direction in the tangent plane
	f := s2.Point{Vector: c.Ortho()}
	h := s2.Point{Vector: c.Cross(f.Vector).Normalize()}
	th := g.rng.Float() * 2 * math.Pi
	switch g.rng.Intn(6) {
	case 0: // east-west
		th = 0
		f = s2.Point{Vector: r3.Vector{X: -c.Y, Y: c.X, Z: 0}.Normalize()}
		h = s2.Point{Vector: c.Cross(f.Vector).Normalize()}
	case 1: // north-south
		f = s2.Point{Vector: r3.Vector{X: -c.Y, Y: c.X, Z: 0}.Normalize()}
		h = s2.Point{Vector: c.Cross(f.Vector).Normalize()}
		th = math.Pi / 2
	}
	dirv := f.Mul(math.Cos(th)).Add(h.Mul(math.Sin(th)))
	half := length / 2
	a := s2.Point{Vector: c.Mul(math.Cos(half)).Sub(dirv.Mul(math.Sin(half))).Normalize()}
	b := s2.Point{Vector: c.Mul(math.Cos(half)).Add(dirv.Mul(math.Sin(half))).Normalize()}
	clampLat := func(p s2.Point) s2.Point {
		ll := s2.LatLngFromPoint(p)
		if math.Abs(ll.Lat.Degrees()) > maxLat {
			la := maxLat
			if ll.Lat < 0 {
				la = -maxLat
			}
			return c20ll(la, ll.Lng.Degrees())
		}
		return p
	}
	a, b = clampLat(a), clampLat(b)
	if g.rng.Intn(8) == 0 { // mirror about the equator: same |lat|, the worst case of the midpoint method
		lb := s2.LatLngFromPoint(b)
		la := s2.LatLngFromPoint(a)
		if m := s2.PointFromLatLng(s2.LatLng{Lat: -la.Lat, Lng: lb.Lng}); float64(a.Distance(m)) <= maxLen {
			b = m
		}
	}
	if kind == "P" && g.rng.Intn(25) == 0 && tol >= 1e-4 { // an endpoint exactly at a pole (plate carree only)
		b = s2.Point{Vector: r3.Vector{X: 0, Y: 0, Z: 1}}
	}
	if a == b || a.Vector == b.Mul(-1) {
		b = c
	}
	return a, b
}

// c20genTess: coarse = only tolerances in [0.1, 1] rad (the regime where the estimator's error model is weakest;
// chains are short, so these cases are cheap).
func c20genTess(g *G, n int, coarse bool) {
	for i := 0; i < n; i++ {
		kind := "P"
		if g.rng.Bool() {
			kind = "M"
		}
		scale := c20scale(g)
		tol := c20tol(g)
		if coarse {
			tol = c20logU(g, -1, 0)
			if g.rng.Intn(6) == 0 {
				tol = 1
			}
		}
		a, b := c20edge(g, kind, tol)
		if a.Dot(b.Vector) < -0.9998 { // nearly antipodal: midpoint ill-defined
			continue
		}
		if g.rng.Intn(3) > 0 {
			g.emit("c20tess", kind, fx(scale), fx(tol), "proj", fx(a.X), fx(a.Y), fx(a.Z), fx(b.X), fx(b.Y), fx(b.Z))
		} else {
			proj := c20proj(kind, scale)
			pa, pb := proj.Project(a), proj.Project(b)
			if math.IsInf(pa.Y, 0) || math.IsInf(pb.Y, 0) {
				continue
			}
			w := proj.WrapDistance().X
			switch g.rng.Intn(4) { // unwrapped representatives
			case 0:
				pb.X += w
			case 1:
				pa.X -= w
			}
			g.emit("c20tess", kind, fx(scale), fx(tol), "unproj", fx(pa.X), fx(pa.Y), fx(pb.X), fx(pb.Y))
		}
	}
}

func c20specialPoint(g *G) s2.Point {
	switch g.rng.Intn(8) {
	case 0: // near a pole
		e := c20logU(g, -17, -1)
		z := 1.0
		if g.rng.Bool() {
			z = -1
		}
		th := g.rng.Float() * 2 * math.Pi
		return s2.Point{Vector: r3.Vector{X: e * math.Cos(th), Y: e * math.Sin(th), Z: z}.Normalize()}
	case 1: // exactly a pole / axis point
		ax := []r3.Vector{{X: 0, Y: 0, Z: 1}, {X: 0, Y: 0, Z: -1}, {X: 1, Y: 0, Z: 0}, {X: -1, Y: 0, Z: 0}, {X: 0, Y: 1, Z: 0}, {X: 0, Y: -1, Z: 0}}
		return s2.Point{Vector: ax[g.rng.Intn(6)]}
	case 2: // antimeridian
		e := c20logU(g, -17, -1)
		if g.rng.Bool() {
			e = -e
		}
		lat := (g.rng.Float()*2 - 1) * math.Pi / 2
		return s2.Point{Vector: r3.Vector{X: -math.Cos(lat), Y: e * math.Cos(lat), Z: math.Sin(lat)}.Normalize()}
	case 3: // equator / prime meridian
		e := c20logU(g, -17, -1)
		if g.rng.Bool() {
			e = -e
		}
		th := g.rng.Float()*2*math.Pi - math.Pi
		if g.rng.Bool() {
			return s2.Point{Vector: r3.Vector{X: math.Cos(th), Y: math.Sin(th), Z: e}.Normalize()}
		}
		return s2.Point{Vector: r3.Vector{X: math.Cos(th), Y: e, Z: math.Sin(th)}.Normalize()}
	case 4: // cube corner / face edge
		s := func() float64 {
			if g.rng.Bool() {
				return 1
			}
			return -1
		}
		v := r3.Vector{X: s(), Y: s(), Z: s()}
		if g.rng.Bool() {
			v.Z = g.rng.Float()*2 - 1
		}
		e := c20logU(g, -17, -2)
		v.X += e * (g.rng.Float() - 0.5)
		return s2.Point{Vector: v.Normalize()}
	default:
		return randPointC20(g)
	}
}

func randPointC20(g *G) s2.Point {
	for {
		v := r3.Vector{X: g.rng.Float()*2 - 1, Y: g.rng.Float()*2 - 1, Z: g.rng.Float()*2 - 1}
		if n := v.Norm2(); n > 1e-4 && n <= 1 {
			return s2.Point{Vector: v.Normalize()}
		}
	}
}

func c20genWrap(g *G, n int) {
	for i := 0; i < n; i++ {
		kind := "P"
		if g.rng.Bool() {
			kind = "M"
		}
		scale := c20scale(g)
		w := 2 * scale
		ax := (g.rng.Float()*4 - 2) * w
		ay := (g.rng.Float()*2 - 1) * scale
		var bx float64
		switch g.rng.Intn(6) {
		case 0: // exactly half a period away, +- ulps
			bx = ax + 0.5*w
			for k := g.rng.Intn(4); k > 0; k-- {
				bx = math.Nextafter(bx, math.Inf(1-2*g.rng.Intn(2)))
			}
		case 1:
			bx = ax - 0.5*w
			for k := g.rng.Intn(4); k > 0; k-- {
				bx = math.Nextafter(bx, math.Inf(1-2*g.rng.Intn(2)))
			}
		case 2: // a whole number of periods away
			bx = ax + float64(g.rng.Intn(5)-2)*w
		case 3:
			bx = ax + (g.rng.Float()-0.5)*1e-9*w
		default:
			bx = (g.rng.Float()*6 - 3) * w
		}
		by := (g.rng.Float()*2 - 1) * scale
		f := []float64{0.5, 0.31215691082248312, 1 - 0.31215691082248312, 0, 1, g.rng.Float()}[g.rng.Intn(6)]
		g.emit("c20wrap", kind, fx(scale), fx(f), fx(ax), fx(ay), fx(bx), fx(by))
	}
}

func c20genProjRT(g *G, n int) {
	for i := 0; i < n; i++ {
		kind := "P"
		if g.rng.Bool() {
			kind = "M"
		}
		p := c20specialPoint(g)
		g.emit("c20projrt", kind, fx(c20scale(g)), fx(p.X), fx(p.Y), fx(p.Z))
	}
}

// c20polyline builds an adversarial polyline for SubsampleVertices.
func c20polyline(g *G, tol float64) []s2.Point {
	var n int
	switch g.rng.Intn(10) {
	case 0:
		n = g.rng.Intn(4) // 0..3
	case 1:
		n = g.rng.Range(100, 300)
	default:
		n = g.rng.Range(2, 40)
	}
	if n == 0 {
		return nil
	}
	cur := c20specialPoint(g)
	pts := []s2.Point{cur}
	// heading
	f := s2.Point{Vector: cur.Ortho()}
	h := s2.Point{Vector: cur.Cross(f.Vector).Normalize()}
	th := g.rng.Float() * 2 * math.Pi
	style := g.rng.Intn(6)
	stepScale := tol * c20logU(g, -1.5, 2.5)
	if stepScale > 0.5 {
		stepScale = 0.5
	}
	for len(pts) < n {
		r := g.rng.Intn(100)
		switch {
		case r < 4 && len(pts) >= 1: // duplicate of the previous vertex
			pts = append(pts, pts[len(pts)-1])
			continue
		case r < 7 && len(pts) >= 2: // return to an earlier vertex (A, B, A)
			pts = append(pts, pts[g.rng.Intn(len(pts))])
			cur = pts[len(pts)-1]
			continue
		case r < 9: // long edge (more than 90 degrees, sometimes nearly antipodal)
			L := math.Pi/2 + g.rng.Float()*(math.Pi/2-0.01)
			if g.rng.Intn(3) == 0 {
				L = math.Pi - tol*g.rng.Float()*2 - 1e-9
			}
			d := f.Mul(math.Cos(th)).Add(h.Mul(math.Sin(th)))
			nx := s2.Point{Vector: cur.Mul(math.Cos(L)).Add(d.Mul(math.Sin(L))).Normalize()}
			if nx.Vector != cur.Mul(-1) {
				pts = append(pts, nx)
				cur = nx
				f = s2.Point{Vector: cur.Ortho()}
				h = s2.Point{Vector: cur.Cross(f.Vector).Normalize()}
			}
			continue
		}
		step := stepScale * (0.2 + 1.6*g.rng.Float())
		switch style {
		case 0: // nearly straight, lateral noise about the tolerance
			th += (g.rng.Float() - 0.5) * 2 * math.Min(1, tol/step) * 1.5
		case 1: // smooth curve
			th += 0.05 + 0.1*g.rng.Float()
		case 2: // backtracking
			if g.rng.Intn(5) == 0 {
				th += math.Pi
			}
			th += (g.rng.Float() - 0.5) * 0.2
		case 3: // random walk
			th = g.rng.Float() * 2 * math.Pi
		case 4: // zig-zag with amplitude near the tolerance
			if len(pts)%2 == 0 {
				th += 2 * math.Atan2(tol*(0.5+g.rng.Float()), step)
			} else {
				th -= 2 * math.Atan2(tol*(0.5+g.rng.Float()), step)
			}
		default:
			th += (g.rng.Float() - 0.5) * 0.6
		}
		d := f.Mul(math.Cos(th)).Add(h.Mul(math.Sin(th)))
		nx := s2.Point{Vector: cur.Mul(math.Cos(step)).Add(d.Mul(math.Sin(step))).Normalize()}
		// transport the frame: keep heading continuous
		nf := s2.Point{Vector: nx.Ortho()}
		nh := s2.Point{Vector: nx.Cross(nf.Vector).Normalize()}
		fw := nx.Sub(cur.Vector) // forward direction (approx.)
		th = math.Atan2(fw.Dot(nh.Vector), fw.Dot(nf.Vector))
		f, h, cur = nf, nh, nx
		pts = append(pts, nx)
	}
	if g.rng.Intn(10) == 0 && len(pts) >= 3 { // closed: last = first
		pts[len(pts)-1] = pts[0]
	}
	// a valid polyline has no antipodal neighbours
	for i := 1; i < len(pts); i++ {
		if pts[i].Vector == pts[i-1].Mul(-1) {
			pts[i] = pts[i-1]
		}
	}
	return pts
}

func c20genSubs(g *G, n int) {
	for i := 0; i < n; i++ {
		tol := c20tol(g)
		pts := c20polyline(g, tol)
		g.emit("c20subs", fx(tol), c20pointsTok(pts))
	}
}

// c20snapPoint: points that are hard for a snapper at the given cell level: cell corners (farthest from the
// centre), edge midpoints, and the generic special points.
func c20snapPoint(g *G, level int) s2.Point {
	switch g.rng.Intn(5) {
	case 0, 1:
		id := s2.CellFromPoint(c20specialPoint(g)).ID().Parent(level)
		c := s2.CellFromCellID(id)
		v := c.Vertex(g.rng.Intn(4))
		if g.rng.Bool() { // nudge towards the centre by a few ulps so that the point stays in this cell
			ctr := id.Point()
			v = s2.Point{Vector: v.Add(ctr.Sub(v.Vector).Mul(c20logU(g, -16, -3))).Normalize()}
		}
		return v
	case 2:
		id := s2.CellFromPoint(c20specialPoint(g)).ID().Parent(level)
		c := s2.CellFromCellID(id)
		k := g.rng.Intn(4)
		return s2.Point{Vector: c.Vertex(k).Add(c.Vertex((k + 1) % 4).Vector).Normalize()}
	default:
		return c20specialPoint(g)
	}
}

func c20genSnap(g *G, n int) {
	for i := 0; i < n; i++ {
		level := g.rng.Intn(31)
		p := c20snapPoint(g, level)
		lv := is(level)
		if g.rng.Intn(40) == 0 {
			lv = "new"
		}
		g.emit("c20snapc", lv, fx(p.X), fx(p.Y), fx(p.Z))
	}
	for i := 0; i < n; i++ {
		e := g.rng.Intn(11)
		var p s2.Point
		switch g.rng.Intn(4) {
		case 0: // half-way between grid sites: the farthest a point can be from the grid
			pw := math.Pow10(e)
			lat := (math.Floor((g.rng.Float()*180-90)*pw) + 0.5) / pw
			lng := (math.Floor((g.rng.Float()*360-180)*pw) + 0.5) / pw
			if lat > 90 {
				lat = 90
			}
			p = c20ll(lat, lng)
		case 1: // near pole / antimeridian in lat-lng terms
			lat := 90 - c20logU(g, -12, 0)
			if g.rng.Bool() {
				lat = -lat
			}
			lng := 180 - c20logU(g, -12, 0)
			if g.rng.Bool() {
				lng = -lng
			}
			if g.rng.Bool() {
				lat = g.rng.Float()*180 - 90
			} else if g.rng.Bool() {
				lng = g.rng.Float()*360 - 180
			}
			p = c20ll(lat, lng)
		default:
			p = c20specialPoint(g)
		}
		g.emit("c20snapi", is(e), fx(p.X), fx(p.Y), fx(p.Z))
	}
	if g.shardK == 0 {
		for _, t := range []float64{0, 1e-14, 1e-13, 1.0000000000000002e-13, 1e-9, 1e-3, 0.1, 1, math.Pi} {
			g.emit("c20scaled", fx(t))
		}
		for i := 0; i < 40; i++ {
			g.emit("c20scaled", fx(c20tol(g)))
		}
		for l := 0; l <= 30; l++ {
			g.emit("c20rad", "L", is(l))
		}
		for e := 0; e <= 10; e++ {
			g.emit("c20rad", "E", is(e))
		}
	}
}

func init() {
	replayers["c20tess"] = c20tess
	replayers["c20projrt"] = c20projrt
	replayers["c20wrap"] = c20wrap
	replayers["c20subs"] = c20subs
	replayers["c20snapc"] = c20snapc
	replayers["c20snapi"] = c20snapi
	replayers["c20rad"] = c20rad
	replayers["c20scaled"] = c20scaled
	// n = number of tessellator cases; the cheaper ops are scaled up
	generators["c20"] = func(g *G) {
		c20genTess(g, g.n, false)
		c20genTess(g, g.n, true)
		c20genProjRT(g, 2*g.n)
		c20genWrap(g, 2*g.n)
		c20genSubs(g, 2*g.n)
		c20genSnap(g, 2*g.n)
	}
	generators["c20tess"] = func(g *G) { c20genTess(g, g.n, false) }
	generators["c20coarse"] = func(g *G) { c20genTess(g, g.n, true) }
	generators["c20subs"] = func(g *G) { c20genSubs(g, g.n) }
	generators["c20snap"] = func(g *G) { c20genSnap(g, g.n) }
	generators["c20projrt"] = func(g *G) { c20genProjRT(g, g.n); c20genWrap(g, g.n) }
}
