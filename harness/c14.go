package main

// C14: concurrent read-only queries on a shared ShapeIndex / Loop / Polygon, including the
// first queries that trigger the deferred index build (ShapeIndex.maybeApplyUpdates).
//
// Line protocol
//   c14 <scenario> <N> <schedule|-> = <event tokens…> answers=Y|N|- applies=<k> race=Y|N|- outcome=ok|HANG|PANIC [racefn=a/b]
//   c14 stress-<scenario> <N> <seed> =               answers=…      applies=<k> race=…     outcome=…            [racefn=a/b]
//
// Every case runs in a child process (re-exec of this binary with first argument "c14child").
//
// Controlled scheduler.  The library (built with -tags verif) calls verifSchedPoint(k), k=0..3, in
// maybeApplyUpdates.  The hook identifies the calling goroutine (goroutine id parsed from
// runtime.Stack, looked up in a fixed slot table); a registered worker PARKS there until the
// controller releases it.  Park/release and all controller<->worker bookkeeping deliberately use
// plain loads/stores inside //go:norace functions plus raw futex system calls (Linux) instead of
// channels, mutexes or sync/atomic: every one of those creates a happens-before edge in the race
// detector (worker A -> controller -> worker B) and would hide exactly the races this check is
// looking for.  The only instrumented synchronisation between controller and workers is the `go`
// statement (controller -> worker) and one per-worker channel receive after all workers are DONE.
// Workers do not use fmt (sync.Pool also creates happens-before edges).  The pseudo-scenario
// "selftest-race" (generator c14selftest) demonstrates that a race between two workers that run
// strictly one after the other under the controller is still reported.
//
// BLOCKED is observed directly: a worker that is neither parked nor finished is looked up in a
// full goroutine dump (runtime.Stack(all)); if its wait reason is sync.(RW)Mutex.Lock / semacquire
// it is BLOCKED, otherwise it is still running and the controller keeps waiting (watchdog 3 s per
// schedule entry => state STUCK, outcome=HANG).

import (
	"bytes"
	"context"
	"os"
	"os/exec"
	"runtime"
	"sort"
	"strconv"
	"strings"
	"sync"
	"syscall"
	"time"
	"unsafe"

	"math"

	"github.com/golang/geo/s1"
	"github.com/golang/geo/s2"
)

func init() {
	if len(os.Args) >= 2 && os.Args[1] == "c14child" {
		c14ChildMain(os.Args[2:])
		os.Exit(0)
	}
	replayers["c14"] = c14Replay
	generators["c14"] = func(g *G) { genC14(g, "all") }
	generators["c14named"] = func(g *G) { genC14(g, "named") }
	generators["c14built"] = func(g *G) { genC14(g, "built") }
	generators["c14late"] = func(g *G) { genC14(g, "late") }
	generators["c14exh"] = func(g *G) { genC14(g, "exh") }
	generators["c14rand"] = func(g *G) { genC14(g, "rand") }
	generators["c14stress"] = func(g *G) { genC14(g, "stress") }
	generators["c14selftest"] = func(g *G) { genC14(g, "selftest") }
	generators["c14soak"] = func(g *G) { genC14(g, "soak") }
}

// c14SelfTest is a deliberately racy pseudo-scenario (not part of generator "c14"): each worker
// parks once at a fake point 0 and then increments a plain shared variable.  Even with a strictly
// sequential schedule (0,0,1,1) a -race build must report race=Y; this demonstrates that the
// controlled scheduler does not hide races from the detector by synchronising the workers.
const c14SelfTest = "selftest-race"

var c14SelfShared int

var c14Bases = []string{"idx-cpq", "idx-ceq", "idx-eq", "idx-eq1", "idx-eqopt", "loop-cp", "loop-cell", "poly-cp", "poly-rel"}

const (
	c14MaxWorkers    = 64
	c14MaxControlled = 16
	c14StepWatchdog  = 3 * time.Second  // child: one quiescence wait
	c14ChildTimeout  = 10 * time.Second // parent: whole child
	c14StressQueries = 20
)

// ---------------------------------------------------------------------------------------------
// scenario parsing

type c14Scn struct {
	base   string
	built  bool
	late   bool
	stress bool
}

func c14ParseScn(name string) (c14Scn, bool) {
	var s c14Scn
	if strings.HasPrefix(name, "stress-") {
		s.stress = true
		name = name[len("stress-"):]
	}
	for {
		if strings.HasSuffix(name, "-built") && !s.built {
			s.built = true
			name = name[:len(name)-len("-built")]
			continue
		}
		if strings.HasSuffix(name, "-late") && !s.late {
			s.late = true
			name = name[:len(name)-len("-late")]
			continue
		}
		break
	}
	for _, b := range c14Bases {
		if b == name {
			s.base = b
			return s, true
		}
	}
	if strings.HasPrefix(name, "selftest-") {
		s.base = name
		return s, true
	}
	return s, false
}

// ---------------------------------------------------------------------------------------------
// geometry and queries (deterministic, identical for the shared and the reference object)

type c14Obj struct {
	idx    *s2.ShapeIndex
	shapes []s2.Shape
	loop   *s2.Loop
	poly   *s2.Polygon
	oloops []*s2.Loop    // per worker, private, index prebuilt
	opolys []*s2.Polygon // per worker, private, indexes prebuilt
	opts   *s2.EdgeQueryOptions // idx-eqopt: ONE options value shared by the query objects of all workers
	spin   bool          // selftest only: misbehave (set on the shared object, not on the reference)
}

func c14LL(lat, lng float64) s2.Point { return s2.PointFromLatLng(s2.LatLngFromDegrees(lat, lng)) }
func c14Deg(d float64) s1.Angle       { return s1.Angle(d) * s1.Degree }

var c14Face0 = s2.CellFromCellID(s2.CellIDFromFace(0))

func c14Build(base string, n int, built bool) *c14Obj {
	o := &c14Obj{}
	switch base {
	case "idx-cpq", "idx-ceq", "idx-eq", "idx-eq1", "idx-eqopt":
		o.opts = s2.NewClosestEdgeQueryOptions().MaxResults(3)
		o.idx = s2.NewShapeIndex()
		o.shapes = []s2.Shape{
			s2.RegularLoop(c14LL(10, 20), c14Deg(5), 64),
			s2.RegularLoop(c14LL(12, 23), c14Deg(4), 64),
			s2.RegularLoop(c14LL(7, 24), c14Deg(3), 64),
		}
		var lls []s2.LatLng
		for i := 0; i <= 12; i++ {
			lls = append(lls, s2.LatLngFromDegrees(4+float64(i), 14+1.2*float64(i)+0.5*float64(i%3)))
		}
		o.shapes = append(o.shapes, s2.PolylineFromLatLngs(lls))
		for _, sh := range o.shapes {
			o.idx.Add(sh)
		}
		if built {
			o.idx.Build()
		}
	case "loop-cp", "loop-cell":
		o.loop = s2.RegularLoop(c14LL(10, 20), c14Deg(7), 96)
		if built {
			o.loop.ContainsCell(c14Face0)
		}
		if base == "loop-cell" {
			for w := 0; w < n; w++ {
				l := s2.RegularLoop(c14LL(6+float64(2*(w%5)), 15+float64(2*(w%7))), c14Deg(2+float64(w%3)), 40)
				l.ContainsCell(c14Face0) // build the private index outside the concurrent section
				o.oloops = append(o.oloops, l)
			}
		}
	case "poly-cp", "poly-rel":
		shell := s2.RegularLoop(c14LL(10, 20), c14Deg(7), 56)
		hole := s2.RegularLoop(c14LL(10, 20), c14Deg(2.5), 40)
		o.poly = s2.PolygonFromLoops([]*s2.Loop{shell, hole})
		if built {
			o.poly.ContainsCell(c14Face0)
			for _, l := range o.poly.Loops() {
				l.ContainsCell(c14Face0)
			}
		}
		if base == "poly-rel" {
			for w := 0; w < n; w++ {
				l := s2.RegularLoop(c14LL(6+float64(2*(w%5)), 15+float64(2*(w%7))), c14Deg(1+float64(w%3)), 40)
				p := s2.PolygonFromLoops([]*s2.Loop{l})
				p.ContainsCell(c14Face0)
				for _, pl := range p.Loops() {
					pl.ContainsCell(c14Face0)
				}
				o.opolys = append(o.opolys, p)
			}
		}
	}
	return o
}

// c14Buf serialises answers without fmt (fmt's sync.Pool would synchronise the workers).
type c14Buf struct{ b []byte }

func (b *c14Buf) s(x string) { b.b = append(b.b, x...) }
func (b *c14Buf) i(x int)    { b.b = strconv.AppendInt(b.b, int64(x), 10) }
func (b *c14Buf) t(x bool) {
	if x {
		b.b = append(b.b, 'T')
	} else {
		b.b = append(b.b, 'F')
	}
}
func (b *c14Buf) f(x float64) { b.b = strconv.AppendUint(b.b, math.Float64bits(x), 16) }

func (o *c14Obj) shapeID(sh s2.Shape) int {
	for i, x := range o.shapes {
		if x == sh {
			return i
		}
	}
	return -1
}

// c14Query runs query number rep of worker w against o and returns the serialised answer.
// The query object is created here, i.e. inside the concurrent section.
func c14Query(base string, o *c14Obj, w, rep int) string {
	var b c14Buf
	r := newRNG(uint64(7700 + w*131 + rep*100003))
	rp := func() s2.Point { return c14LL(3+14*r.Float(), 13+16*r.Float()) }
	rc := func() s2.Cell { return s2.CellFromCellID(s2.CellFromPoint(rp()).ID().Parent(3 + r.Intn(7))) }
	switch base {
	case "idx-cpq":
		q := s2.NewContainsPointQuery(o.idx, s2.VertexModelSemiOpen)
		for j := 0; j < 3; j++ {
			p := rp()
			b.s("[")
			for _, sh := range q.ContainingShapes(p) {
				b.i(o.shapeID(sh))
				b.s(".")
			}
			b.s("]")
			b.t(q.Contains(p))
		}
	case "idx-ceq":
		q := s2.NewCrossingEdgeQuery(o.idx)
		pa, pb := rp(), rp()
		m := q.CrossingsEdgeMap(pa, pb, s2.CrossingTypeAll)
		b.i(len(m))
		for sid, sh := range o.shapes {
			if es, ok := m[sh]; ok {
				es = append([]int(nil), es...)
				sort.Ints(es)
				b.s("|")
				b.i(sid)
				b.s(":")
				for _, e := range es {
					b.i(e)
					b.s(".")
				}
			}
		}
	case "idx-eq":
		q := s2.NewClosestEdgeQuery(o.idx, s2.NewClosestEdgeQueryOptions().MaxResults(3))
		t := s2.NewMinDistanceToPointTarget(rp())
		b.f(float64(q.Distance(t)))
		for _, res := range q.FindEdges(t) {
			b.s("|")
			b.i(int(res.ShapeID()))
			b.s(".")
			b.i(int(res.EdgeID()))
			b.s(".")
			b.f(float64(res.Distance()))
		}
	case "idx-eqopt":
		// every worker has its own query object, all created from ONE shared options value (the queries keep a pointer
		// to it): a query method that writes to the options, even temporarily, is a data race between query objects and
		// makes a concurrent FindEdges see another call's MaxResults (seeded change C14_6)
		q := s2.NewClosestEdgeQuery(o.idx, o.opts)
		t := s2.NewMinDistanceToPointTarget(rp())
		for j := 0; j < 3; j++ {
			b.f(float64(q.Distance(t)))
			res := q.FindEdges(t)
			b.i(len(res))
			for _, e := range res {
				b.s("|")
				b.i(int(e.ShapeID()))
				b.s(".")
				b.i(int(e.EdgeID()))
			}
		}
	case "idx-eq1":
		// single-result calls without interiors: nothing but the query's own iterator touches the index
		// (no ContainsPointQuery is created), so the FIRST thing the optimized search does with a not yet
		// built index is what is observed here (defect D47: LocatePoint on an iterator that had not
		// applied the pending updates)
		t := s2.NewMinDistanceToPointTarget(rp())
		q := s2.NewClosestEdgeQuery(o.idx, s2.NewClosestEdgeQueryOptions().IncludeInteriors(false))
		b.f(float64(q.Distance(t)))
		b.t(q.IsDistanceLess(t, s1.ChordAngleFromAngle(c14Deg(3))))
		fq := s2.NewFurthestEdgeQuery(o.idx, s2.NewFurthestEdgeQueryOptions().IncludeInteriors(false))
		ft := s2.NewMaxDistanceToPointTarget(rp())
		b.f(float64(fq.Distance(ft)))
	case "loop-cp":
		for j := 0; j < 3; j++ {
			b.t(o.loop.ContainsPoint(rp()))
		}
	case "loop-cell":
		c := rc()
		b.t(o.loop.ContainsCell(c))
		b.t(o.loop.IntersectsCell(c))
		b.t(o.loop.Contains(o.oloops[w]))
		b.t(o.loop.Intersects(o.oloops[w]))
	case "poly-cp":
		for j := 0; j < 3; j++ {
			b.t(o.poly.ContainsPoint(rp()))
		}
	case c14SelfTest:
		c14Hook(0)
		c14SelfShared++ // unsynchronised on purpose
		b.i(w)
	case "selftest-hang": // self-deadlock: must end as BLOCKED / outcome=HANG
		if w == 0 && o != nil && o.spin {
			var mu sync.Mutex
			mu.Lock()
			mu.Lock()
		}
	case "selftest-spin": // never reaches a point: watchdog, STUCK / outcome=HANG
		if w == 0 && o != nil && o.spin {
			for x := 0; ; x++ {
				if x < 0 {
					break
				}
			}
		}
	case "selftest-panic":
		if w == 0 && o != nil && o.spin {
			panic("boom")
		}
	case "poly-rel":
		c := rc()
		b.t(o.poly.Contains(o.opolys[w]))
		b.t(o.poly.Intersects(o.opolys[w]))
		b.t(o.poly.ContainsCell(c))
		b.t(o.poly.IntersectsCell(c))
	}
	return string(b.b)
}

// ---------------------------------------------------------------------------------------------
// race-detector-invisible shared state

const (
	c14StNew int32 = iota
	c14StRun
	c14StParked
	c14StDone
)

type c14Slot struct {
	goid    int64
	state   int32
	point   int32
	gate    int32
	passed2 int32
	ctr     int32
	panicky int32
	_       [32]byte
}

var (
	c14Slots    [c14MaxWorkers]c14Slot
	c14NWorkers int
	c14Stress   bool
	c14Seed     uint64
)

//go:norace
//go:noinline
func nrLoad32(p *int32) int32 { return *p }

//go:norace
//go:noinline
func nrStore32(p *int32, v int32) { *p = v }

//go:norace
//go:noinline
func nrLoad64(p *int64) int64 { return *p }

//go:norace
//go:noinline
func nrStore64(p *int64, v int64) { *p = v }

// c14Goid parses the id of the calling goroutine from its stack header "goroutine N [".
func c14Goid() int64 {
	var buf [48]byte
	n := runtime.Stack(buf[:], false)
	var id int64
	for _, ch := range buf[len("goroutine "):n] {
		if ch < '0' || ch > '9' {
			break
		}
		id = id*10 + int64(ch-'0')
	}
	return id
}

func c14WhoAmI() int {
	id := c14Goid()
	for i := 0; i < c14NWorkers; i++ {
		if nrLoad64(&c14Slots[i].goid) == id {
			return i
		}
	}
	return -1
}

// Blocking wait / wake-up that the race detector does not see: raw futex system calls (Linux).
// c14Event is bumped (plain, possibly lossy increment: only "it changed" matters and every wait
// has a timeout) whenever a worker parks or finishes.
var c14Event int32

const (
	c14FutexWait = 0 | 128 // FUTEX_WAIT | FUTEX_PRIVATE_FLAG
	c14FutexWake = 1 | 128 // FUTEX_WAKE | FUTEX_PRIVATE_FLAG
)

// c14Wait blocks while *addr == val (at most d if d > 0); spurious returns are allowed.
func c14Wait(addr *int32, val int32, d time.Duration) {
	var ts syscall.Timespec
	var tsp unsafe.Pointer
	if d > 0 {
		ts = syscall.NsecToTimespec(int64(d))
		tsp = unsafe.Pointer(&ts)
	}
	syscall.Syscall6(syscall.SYS_FUTEX, uintptr(unsafe.Pointer(addr)), c14FutexWait, uintptr(uint32(val)), uintptr(tsp), 0, 0)
}

func c14Wake(addr *int32) {
	syscall.Syscall6(syscall.SYS_FUTEX, uintptr(unsafe.Pointer(addr)), c14FutexWake, 1<<30, 0, 0, 0)
}

func c14Notify() {
	nrStore32(&c14Event, nrLoad32(&c14Event)+1)
	c14Wake(&c14Event)
}

// c14Hook is installed with s2.VerifSetSchedHook.
func c14Hook(k int) {
	w := c14WhoAmI()
	if w < 0 {
		return // not a registered worker: pass through
	}
	s := &c14Slots[w]
	if k == 2 {
		nrStore32(&s.passed2, nrLoad32(&s.passed2)+1)
	}
	if c14Stress {
		c := nrLoad32(&s.ctr) + 1
		nrStore32(&s.ctr, c)
		h := newRNG(c14Seed ^ uint64(w)<<40 ^ uint64(c)<<8 ^ uint64(k)).U64()
		switch h % 8 {
		case 0:
		case 1, 2, 5, 6, 7:
			runtime.Gosched()
		case 3:
			time.Sleep(time.Duration(1+(h>>8)%5) * time.Microsecond)
		case 4:
			for i := uint64(0); i < (h>>8)%400; i++ {
				nrLoad32(&s.ctr)
			}
		}
		return
	}
	seen := nrLoad32(&s.gate)
	nrStore32(&s.point, int32(k))
	nrStore32(&s.state, c14StParked)
	c14Notify()
	for nrLoad32(&s.gate) == seen {
		c14Wait(&s.gate, seen, 0)
	}
}

// ---------------------------------------------------------------------------------------------
// controller (child process)

type c14Ctl struct {
	scn     c14Scn
	n       int
	shared  *c14Obj
	started []bool
	cur     []string // state of every worker after the last quiescence wait
	answers []string
	done    []chan struct{}
	dumpBuf []byte
}

func (c *c14Ctl) start(i int) {
	c.started[i] = true
	s := &c14Slots[i]
	nrStore32(&s.state, c14StRun)
	base, shared := c.scn.base, c.shared
	go func() {
		nrStore64(&s.goid, c14Goid())
		defer func() {
			if r := recover(); r != nil {
				c.answers[i] = "PANIC"
				nrStore32(&s.panicky, 1)
				os.Stderr.WriteString("c14 worker panic: " + panicString(r) + "\n")
			}
			c.done[i] <- struct{}{}
			nrStore32(&s.state, c14StDone)
			c14Notify()
		}()
		c.answers[i] = c14Query(base, shared, i, 0)
	}()
}

func panicString(r interface{}) string {
	switch v := r.(type) {
	case string:
		return v
	case error:
		return v.Error()
	}
	return "?"
}

func (c *c14Ctl) release(i int) {
	s := &c14Slots[i]
	nrStore32(&s.state, c14StRun)
	nrStore32(&s.gate, nrLoad32(&s.gate)+1)
	c14Wake(&s.gate)
}

// dump returns goroutine id -> wait status from a full goroutine dump.
func (c *c14Ctl) dump() map[int64]string {
	for {
		n := runtime.Stack(c.dumpBuf, true)
		if n < len(c.dumpBuf) {
			m := map[int64]string{}
			for _, ln := range bytes.Split(c.dumpBuf[:n], []byte("\n")) {
				if !bytes.HasPrefix(ln, []byte("goroutine ")) || !bytes.HasSuffix(ln, []byte("]:")) {
					continue
				}
				rest := ln[len("goroutine "):]
				sp := bytes.IndexByte(rest, ' ')
				lb := bytes.IndexByte(rest, '[')
				if sp < 0 || lb < 0 {
					continue
				}
				id, err := strconv.ParseInt(string(rest[:sp]), 10, 64)
				if err != nil {
					continue
				}
				m[id] = string(rest[lb+1 : len(rest)-2])
			}
			return m
		}
		c.dumpBuf = make([]byte, 2*len(c.dumpBuf))
	}
}

func c14IsLockWait(status string) bool {
	return strings.HasPrefix(status, "sync.Mutex.Lock") || strings.HasPrefix(status, "sync.RWMutex.Lock") ||
		strings.HasPrefix(status, "sync.RWMutex.RLock") || strings.HasPrefix(status, "semacquire")
}

// settle waits for quiescence: every started worker is parked, finished or blocked on a mutex.
// It refreshes c.cur and reports true if the watchdog expired.
func (c *c14Ctl) settle() (hang bool) {
	t0 := time.Now()
	var lastDump time.Time
	st := make([]int32, c.n)
	pt := make([]int32, c.n)
	for {
		ev := nrLoad32(&c14Event)
		var running []int
		for i := 0; i < c.n; i++ {
			if !c.started[i] {
				st[i] = c14StNew
				continue
			}
			// point is stored before state by the worker; read state first, then point.
			st[i] = nrLoad32(&c14Slots[i].state)
			pt[i] = nrLoad32(&c14Slots[i].point)
			if st[i] == c14StRun {
				running = append(running, i)
			}
		}
		blockedAll := false
		if len(running) > 0 {
			now := time.Now()
			if now.Sub(t0) > 200*time.Microsecond && now.Sub(lastDump) > 200*time.Microsecond {
				// The dump is taken after the state reads above: parked/finished workers stay so
				// until the controller acts, hence "all running workers wait for a lock" is stable.
				d := c.dump()
				lastDump = time.Now()
				blockedAll = true
				for _, i := range running {
					id := nrLoad64(&c14Slots[i].goid)
					if id == 0 || !c14IsLockWait(d[id]) {
						blockedAll = false
					}
				}
			}
			if !blockedAll && time.Since(t0) > c14StepWatchdog {
				hang = true
			}
		}
		if len(running) == 0 || blockedAll || hang {
			for i := 0; i < c.n; i++ {
				switch st[i] {
				case c14StNew:
					c.cur[i] = "NEW"
				case c14StParked:
					c.cur[i] = "P" + strconv.Itoa(int(pt[i]))
				case c14StDone:
					c.cur[i] = "DONE"
				default:
					if hang {
						c.cur[i] = "STUCK"
					} else {
						c.cur[i] = "BLOCKED"
					}
				}
			}
			return hang
		}
		c14Wait(&c14Event, ev, 250*time.Microsecond)
	}
}

func (c *c14Ctl) othersDone() bool {
	for j := 0; j < c.n-1; j++ {
		if c.cur[j] != "DONE" {
			return false
		}
	}
	return true
}

// step processes one schedule entry and returns its event token.
func (c *c14Ctl) step(i int, prefix string) (tok string, hang bool) {
	before := append([]string(nil), c.cur...)
	acted := false
	switch {
	case c.scn.late && i == c.n-1 && !c.othersDone():
	case !c.started[i]:
		c.start(i)
		acted = true
	case strings.HasPrefix(c.cur[i], "P"):
		c.release(i)
		acted = true
	}
	if !acted {
		return prefix + strconv.Itoa(i) + ":skip", false
	}
	hang = c.settle()
	tok = prefix + strconv.Itoa(i) + ":" + c.cur[i]
	for j := 0; j < c.n; j++ {
		if j != i && c.cur[j] != before[j] {
			tok += "+" + strconv.Itoa(j) + "@" + c.cur[j]
		}
	}
	return tok, hang
}

func c14Emit(tok string) { os.Stdout.WriteString(tok + " ") }

func c14ChildMain(a []string) {
	if len(a) != 3 {
		os.Stdout.WriteString("ERR-args\n")
		return
	}
	if strings.HasPrefix(a[0], "soak-") { // unforced soak scenarios, see c14soak.go
		n, err := strconv.Atoi(a[1])
		seed, err2 := strconv.ParseUint(a[2], 10, 64)
		if err != nil || err2 != nil || n < 1 || n > c14MaxWorkers {
			os.Stdout.WriteString("ERR-args\n")
			return
		}
		c14ChildSoak(a[0][len("soak-"):], n, seed)
		return
	}
	scn, ok := c14ParseScn(a[0])
	n, err := strconv.Atoi(a[1])
	if !ok || err != nil || n < 1 || n > c14MaxWorkers || (!scn.stress && n > c14MaxControlled) {
		os.Stdout.WriteString("ERR-args\n")
		return
	}
	if scn.stress {
		seed, err := strconv.ParseUint(a[2], 10, 64)
		if err != nil {
			os.Stdout.WriteString("ERR-args\n")
			return
		}
		c14ChildStress(scn, n, seed)
		return
	}
	var sched []int
	if a[2] != "-" {
		for _, p := range strings.Split(a[2], ",") {
			v, err := strconv.Atoi(p)
			if err != nil || v < 0 || v >= n {
				os.Stdout.WriteString("ERR-args\n")
				return
			}
			sched = append(sched, v)
		}
	}

	// serial reference on a separately constructed identical object
	ref := c14Build(scn.base, n, scn.built)
	want := make([]string, n)
	for w := 0; w < n; w++ {
		want[w] = c14Query(scn.base, ref, w, 0)
	}

	shared := c14Build(scn.base, n, scn.built)
	shared.spin = true
	c := &c14Ctl{scn: scn, n: n, shared: shared,
		started: make([]bool, n), cur: make([]string, n), answers: make([]string, n),
		done: make([]chan struct{}, n), dumpBuf: make([]byte, 1<<18)}
	for i := range c.cur {
		c.cur[i] = "NEW"
		c.done[i] = make(chan struct{}, 1)
	}
	c14NWorkers = n
	s2.VerifSetSchedHook(c14Hook)

	hang := false
	for _, i := range sched {
		tok, h := c.step(i, "")
		c14Emit(tok)
		if h {
			hang = true
			break
		}
	}
	// drain: round-robin over the workers that can still move
	for !hang {
		progress := false
		for i := 0; i < n && !hang; i++ {
			if c.cur[i] == "DONE" || c.cur[i] == "BLOCKED" {
				continue
			}
			if c.scn.late && i == n-1 && !c.othersDone() {
				continue
			}
			tok, h := c.step(i, "~")
			c14Emit(tok)
			progress = true
			hang = hang || h
		}
		if !progress {
			break
		}
	}
	allDone := true
	for i := 0; i < n; i++ {
		if c.cur[i] != "DONE" {
			allDone = false
		}
	}
	c14Finish(n, allDone, hang || !allDone, c.done, c.answers, want)
}

// c14Finish synchronises with the finished workers, compares answers and prints the end tokens.
func c14Finish(n int, allDone, hang bool, done []chan struct{}, got, want []string) {
	applies, panicked := 0, false
	for i := 0; i < n; i++ {
		if nrLoad32(&c14Slots[i].passed2) > 0 {
			applies++
		}
		if nrLoad32(&c14Slots[i].panicky) != 0 {
			panicked = true
		}
	}
	ans := "-"
	if allDone {
		ans = "Y"
		for i := 0; i < n; i++ {
			<-done[i] // the only worker -> controller synchronisation
			if got[i] != want[i] {
				ans = "N"
				os.Stderr.WriteString("c14 answer mismatch worker " + strconv.Itoa(i) + ": got " + got[i] + " want " + want[i] + "\n")
			}
		}
	}
	outcome := "ok"
	if panicked {
		outcome = "PANIC"
	} else if hang {
		outcome = "HANG"
	}
	os.Stdout.WriteString("answers=" + ans + " applies=" + strconv.Itoa(applies) + " outcome=" + outcome + "\n")
}

// c14ChildStress: no parking; N goroutines, each c14StressQueries queries, hook perturbs timing.
func c14ChildStress(scn c14Scn, n int, seed uint64) {
	ref := c14Build(scn.base, n, scn.built)
	want := make([]string, n)
	for w := 0; w < n; w++ {
		var sb strings.Builder
		for rep := 0; rep < c14StressQueries; rep++ {
			sb.WriteString(c14Query(scn.base, ref, w, rep))
			sb.WriteByte(';')
		}
		want[w] = sb.String()
	}
	shared := c14Build(scn.base, n, scn.built)
	c14NWorkers, c14Stress, c14Seed = n, true, seed
	s2.VerifSetSchedHook(c14Hook)
	got := make([]string, n)
	done := make([]chan struct{}, n)
	startGate := make(chan struct{})
	for i := 0; i < n; i++ {
		done[i] = make(chan struct{}, 1)
		i := i
		s := &c14Slots[i]
		nrStore32(&s.state, c14StRun)
		go func() {
			nrStore64(&s.goid, c14Goid())
			defer func() {
				if r := recover(); r != nil {
					got[i] = "PANIC"
					nrStore32(&s.panicky, 1)
					os.Stderr.WriteString("c14 worker panic: " + panicString(r) + "\n")
				}
				done[i] <- struct{}{}
				nrStore32(&s.state, c14StDone)
				c14Notify()
			}()
			<-startGate // controller -> worker only
			if scn.late && i == n-1 {
				// late reader: wait (invisibly to the race detector) until all others are done
				for j := 0; j < n-1; j++ {
					for nrLoad32(&c14Slots[j].state) != c14StDone {
						c14Wait(&c14Event, nrLoad32(&c14Event), time.Millisecond)
					}
				}
			}
			var b []byte
			for rep := 0; rep < c14StressQueries; rep++ {
				b = append(b, c14Query(scn.base, shared, i, rep)...)
				b = append(b, ';')
			}
			got[i] = string(b)
		}()
	}
	close(startGate)
	t0 := time.Now()
	allDone := false
	for !allDone && time.Since(t0) < 2*c14StepWatchdog {
		ev := nrLoad32(&c14Event)
		allDone = true
		for i := 0; i < n; i++ {
			if nrLoad32(&c14Slots[i].state) != c14StDone {
				allDone = false
			}
		}
		if !allDone {
			c14Wait(&c14Event, ev, 5*time.Millisecond)
		}
	}
	c14Finish(n, allDone, !allDone, done, got, want)
}

// ---------------------------------------------------------------------------------------------
// parent side

var c14Cache sync.Map // "scenario N sched" -> []string, filled by the generator's parallel pre-run

func c14Replay(a []string) []string {
	if len(a) != 3 {
		return []string{"ERR-args"}
	}
	if v, ok := c14Cache.LoadAndDelete(strings.Join(a, " ")); ok {
		return v.([]string)
	}
	return c14RunChild(a)
}

func c14RunChild(a []string) []string {
	exe, err := os.Executable()
	if err != nil {
		exe = os.Args[0]
	}
	timeout := c14ChildTimeout
	if len(a) > 0 && strings.HasPrefix(a[0], "soak-") {
		timeout = c14SoakChildTimeout
	}
	ctx, cancel := context.WithTimeout(context.Background(), timeout)
	defer cancel()
	cmd := exec.CommandContext(ctx, exe, append([]string{"c14child"}, a...)...)
	cmd.Env = append(os.Environ(), "GORACE=halt_on_error=0 exitcode=0 atexit_sleep_ms=0")
	cmd.WaitDelay = time.Second
	var so, se bytes.Buffer
	cmd.Stdout, cmd.Stderr = &so, &se
	runErr := cmd.Run()
	timedOut := ctx.Err() != nil
	stderr := se.String()

	var events []string
	answers, applies, outcome := "-", "-", ""
	for _, t := range strings.Fields(so.String()) {
		switch {
		case strings.HasPrefix(t, "answers="):
			answers = t[len("answers="):]
		case strings.HasPrefix(t, "applies="):
			applies = t[len("applies="):]
		case strings.HasPrefix(t, "outcome="):
			outcome = t[len("outcome="):]
		default:
			events = append(events, t)
		}
	}
	if outcome == "" {
		switch {
		case timedOut:
			outcome = "HANG"
		case strings.Contains(stderr, "all goroutines are asleep"):
			outcome = "HANG"
		case runErr != nil || strings.Contains(stderr, "panic:") || strings.Contains(stderr, "fatal error:"):
			outcome = "PANIC"
		default:
			outcome = "PANIC" // child ended without a verdict
		}
	}
	race, racefn := "-", ""
	if raceEnabled {
		race = "N"
		if strings.Contains(stderr, "WARNING: DATA RACE") {
			race = "Y"
			racefn = c14RaceFns(stderr)
		}
	}
	if path := os.Getenv("C14_DUMP_STDERR"); path != "" && (race == "Y" || outcome != "ok" || answers == "N") {
		if f, err := os.OpenFile(path, os.O_APPEND|os.O_CREATE|os.O_WRONLY, 0o644); err == nil {
			f.WriteString("### c14 " + strings.Join(a, " ") + " => answers=" + answers + " race=" + race + " outcome=" + outcome + "\n" + stderr + "\n")
			f.Close()
		}
	}
	res := append(events, "answers="+answers, "applies="+applies, "race="+race, "outcome="+outcome)
	if racefn != "" {
		res = append(res, "racefn="+racefn)
	}
	return res
}

// c14RaceFns returns the innermost function of the two conflicting accesses of the first race
// report ("<access 1 top frame>/<access 2 top frame>"), package path and "()" stripped.
func c14RaceFns(stderr string) string {
	i := strings.Index(stderr, "WARNING: DATA RACE")
	if i < 0 {
		return ""
	}
	lines := strings.Split(stderr[i:], "\n")
	var fns []string
	for k := 1; k < len(lines) && len(fns) < 2; k++ {
		ln := lines[k]
		if strings.HasPrefix(ln, "==================") {
			break
		}
		if strings.HasSuffix(ln, ":") && !strings.HasPrefix(ln, " ") { // "Write at … by goroutine 7:"
			if strings.HasPrefix(ln, "Goroutine ") {
				break
			}
			if k+1 < len(lines) {
				f := strings.TrimSpace(lines[k+1])
				f = strings.TrimSuffix(f, "()")
				f = strings.TrimPrefix(f, "github.com/golang/geo/")
				f = strings.ReplaceAll(f, " ", "_")
				fns = append(fns, f)
			}
		}
	}
	return strings.Join(fns, "/")
}

// ---------------------------------------------------------------------------------------------
// generator

type c14Case struct{ scn, n, arg string }

func c14Sched(s []int) string {
	if len(s) == 0 {
		return "-"
	}
	p := make([]string, len(s))
	for i, v := range s {
		p[i] = strconv.Itoa(v)
	}
	return strings.Join(p, ",")
}

func c14Rep(w, k int) []int {
	s := make([]int, k)
	for i := range s {
		s[i] = w
	}
	return s
}

var (
	c14Stale  = []int{0, 1, 0, 1, 0, 0, 0, 1, 1, 1} // both pass P0 and P1 before either locks
	c14Waits  = []int{0, 0, 0, 1, 1, 1, 0, 0, 1, 1} // 0 holds the lock at P2, 1 runs into Lock
	c14LateRd = []int{0, 0, 0, 0, 0, 1, 1}          // 1 starts after 0 is DONE
)

func genC14(g *G, which string) {
	var cases []c14Case
	add := func(scn string, n int, sched []int) {
		cases = append(cases, c14Case{scn, strconv.Itoa(n), c14Sched(sched)})
	}
	all := which == "all"
	r := g.rng

	if all || which == "named" {
		for _, b := range c14Bases {
			serial2 := append(c14Rep(0, 8), c14Rep(1, 8)...)
			add(b, 2, c14Stale)
			add(b, 2, c14Waits)
			add(b, 2, c14LateRd)
			add(b, 2, serial2)
			// N=3: worker 2 is started and makes its status check at every position
			for _, base := range [][]int{c14Stale, c14Waits, c14LateRd} {
				for p := 0; p <= len(base); p++ {
					s := append([]int(nil), base[:p]...)
					s = append(s, 2, 2)
					s = append(s, base[p:]...)
					add(b, 3, s)
				}
			}
			add(b, 3, append(serial2, c14Rep(2, 8)...))
		}
	}
	if all || which == "built" {
		for _, b := range c14Bases {
			add(b+"-built", 2, nil)
			add(b+"-built", 2, c14Stale)
			add(b+"-built", 3, []int{0, 1, 2, 2, 1, 0})
			add(b+"-built", 4, nil)
		}
	}
	if all || which == "late" {
		for _, b := range c14Bases {
			add(b+"-late", 2, nil)
			add(b+"-late", 2, c14Stale) // entries for worker 1 are skipped until 0 is DONE
			add(b+"-late", 3, c14Stale)
			add(b+"-late", 3, c14Waits)
			add(b+"-late", 4, []int{0, 1, 2, 0, 1, 2, 0, 1, 2})
		}
	}
	if all || which == "exh" {
		enum := func(n, maxLen int) {
			for L := 0; L <= maxLen; L++ {
				total := 1
				for i := 0; i < L; i++ {
					total *= n
				}
				for code := 0; code < total; code++ {
					s := make([]int, L)
					x := code
					for i := L - 1; i >= 0; i-- {
						s[i] = x % n
						x /= n
					}
					add("idx-cpq", n, s)
				}
			}
		}
		enum(2, 8)
		if g.thorough {
			enum(3, 7)
		}
	}
	if all || which == "rand" {
		for k := 0; k < g.n; k++ {
			b := c14Bases[1+r.Intn(len(c14Bases)-1)]
			switch r.Intn(8) {
			case 0:
				b += "-built"
			case 1:
				b += "-late"
			}
			n := r.Range(2, 6)
			L := r.Intn(6*n + 1)
			s := make([]int, 0, L)
			bursty := r.Bool()
			for len(s) < L {
				w := r.Intn(n)
				run := 1
				if bursty {
					run = 1 + r.Intn(4)
				}
				for j := 0; j < run && len(s) < L; j++ {
					s = append(s, w)
				}
			}
			add(b, n, s)
		}
	}
	if all || which == "stress" {
		seeds := 1 + g.n/200
		if g.thorough {
			seeds *= 4
		}
		for _, b := range c14Bases {
			for _, n := range []int{4, 8, 16, 32} {
				for k := 0; k < seeds; k++ {
					cases = append(cases, c14Case{"stress-" + b, strconv.Itoa(n), strconv.FormatUint(r.U64()>>1, 10)})
				}
			}
			cases = append(cases, c14Case{"stress-" + b + "-built", "8", strconv.FormatUint(r.U64()>>1, 10)})
			cases = append(cases, c14Case{"stress-" + b + "-late", "8", strconv.FormatUint(r.U64()>>1, 10)})
		}
	}

	if which == "selftest" { // expected with -race: race=Y racefn=main.c14Query/main.c14Query
		add(c14SelfTest, 2, []int{0, 0, 1, 1})
		add(c14SelfTest, 3, []int{0, 1, 2, 2, 1, 0})
		add("selftest-hang", 2, []int{0, 1})  // expected: 0:BLOCKED 1:DONE … outcome=HANG
		add("selftest-spin", 2, []int{1, 0})  // expected: 1:DONE 0:STUCK … outcome=HANG (after the 3 s watchdog)
		add("selftest-panic", 2, []int{0, 1}) // expected: outcome=PANIC answers=N
	}

	// sharding
	var mine []c14Case
	for k, c := range cases {
		if k%g.shardM == g.shardK {
			mine = append(mine, c)
		}
	}
	// run the children with bounded parallelism, then emit in order (g.emit picks up the cache)
	par := runtime.NumCPU() / 2
	if par > 8 {
		par = 8
	}
	if par < 1 {
		par = 1
	}
	if v, err := strconv.Atoi(os.Getenv("C14_PAR")); err == nil && v >= 1 {
		par = v
	}
	const chunk = 64
	for lo := 0; lo < len(mine); lo += chunk {
		hi := lo + chunk
		if hi > len(mine) {
			hi = len(mine)
		}
		if par > 1 {
			var wg sync.WaitGroup
			sem := make(chan struct{}, par)
			seen := map[string]bool{}
			for _, c := range mine[lo:hi] {
				key := c.scn + " " + c.n + " " + c.arg
				if seen[key] {
					continue
				}
				seen[key] = true
				wg.Add(1)
				sem <- struct{}{}
				go func(c c14Case, key string) {
					defer wg.Done()
					defer func() { <-sem }()
					c14Cache.Store(key, c14RunChild([]string{c.scn, c.n, c.arg}))
				}(c, key)
			}
			wg.Wait()
		}
		for _, c := range mine[lo:hi] {
			g.emit("c14", c.scn, c.n, c.arg)
		}
		g.out.Flush()
	}

	// Soak scenarios (c14soak.go) run last and with little parallelism: each child keeps N cores busy
	// for its whole time budget and must not compete with the schedule-controlled children.
	if all || which == "soak" {
		var soak []c14Case
		for k, c := range c14SoakCases(g) {
			if k%g.shardM == g.shardK {
				soak = append(soak, c)
			}
		}
		spar := runtime.NumCPU() / 8
		if spar < 1 {
			spar = 1
		}
		if v, err := strconv.Atoi(os.Getenv("C14_SOAK_PAR")); err == nil && v >= 1 {
			spar = v
		}
		var wg sync.WaitGroup
		sem := make(chan struct{}, spar)
		for _, c := range soak {
			wg.Add(1)
			sem <- struct{}{}
			go func(c c14Case) {
				defer wg.Done()
				defer func() { <-sem }()
				c14Cache.Store(c.scn+" "+c.n+" "+c.arg, c14RunChild([]string{c.scn, c.n, c.arg}))
			}(c)
		}
		wg.Wait()
		for _, c := range soak {
			g.emit("c14", c.scn, c.n, c.arg)
		}
		g.out.Flush()
	}
}
