package main

// C04 / C06 (index half) — containment = exact crossing parity by every evaluation path; tilings;
// index invariants; index queries = brute force.  Needs the hook s2/verif_export_c04.go.
//
// Shape spec tokens (pts = `x,y,z;x,y,z;…` as 16-hex-digit float64 bit patterns):
//   L:<pts>            s2.Loop (LoopFromPoints)           LI:<pts>          the same, then Invert()
//   G:<pts>/<pts>/…    s2.Polygon (PolygonFromLoops)      GI:…              the same, then Invert()
//   P:<pts>            PointVector      Y:<pts>  Polyline      X:<pts>/<pts>/…  LaxPolygon
// Shape meta token (result side):  dim:numEdges:refContained:refPoint[:order:holes]
//   (order = for every final polygon loop the index of the input loop, holes = IsHole flags)
//
//   c04contain <spec> <probes> = <meta> <15-char path string per probe>
//        0 Loop.ContainsPoint on a fresh loop (index not built: bound shortcut active)
//        1 Loop.ContainsPoint after Build   2 forced brute force   3 forced index path
//        4 ContainsPointQuery.ShapeContains semi-open  5 open  6 closed  7 Contains (semi-open)
//        8 Polygon.ContainsPoint on a fresh polygon  9 after Build  10 forced brute force
//        11 forced query path  12 Polygon.iteratorContainsPoint
//        13 containsBruteForce(loop)  14 containsBruteForce(polygon)         ('-' = not applicable)
//   c04tile <kind> <n> <spec>*n <probes> = per probe `<n chars ContainsPoint>/<n chars forced index path>`
//   c04idx  <n> <spec>*n = <meta>*n C <cell>*   cell = id:center:ulo,uhi,vlo,vhi:sid,cc,e.e.e|…
//   c04cross <n> <spec>*n <a;b;a;b…> = <meta>*n per query edge
//        `<s0 All>/<s0 Interior>/<s1 All>/…#<EdgeMap All>#<EdgeMap Interior>`  (ids dot-separated, map sid=ids&…)
//   c04cpq  <n> <spec>*n <probes> = <meta>*n per probe
//        `<open ids>/<semi ids>/<closed ids>/<Contains open,semi,closed>/<ShapeContains semi per shape>`

import (
	"math/big"
	"math"
	"sort"
	"strings"

	"github.com/golang/geo/r3"
	"github.com/golang/geo/s1"
	"github.com/golang/geo/s2"
)

type c04Shape struct {
	kind  string
	loops [][]s2.Point
	shape s2.Shape
	loop  *s2.Loop
	poly  *s2.Polygon
	order []int
}

func c04Copy(p []s2.Point) []s2.Point { return append([]s2.Point(nil), p...) }

func c04ParseLoops(s string) [][]s2.Point {
	var r [][]s2.Point
	for _, t := range strings.Split(s, "/") {
		r = append(r, pPts(t))
	}
	return r
}

func c04Build(tok string) *c04Shape {
	k := strings.Index(tok, ":")
	sh := &c04Shape{kind: tok[:k], loops: c04ParseLoops(tok[k+1:])}
	switch sh.kind {
	case "L", "LI":
		sh.loop = s2.LoopFromPoints(c04Copy(sh.loops[0]))
		if sh.kind == "LI" {
			sh.loop.Invert()
		}
		sh.shape = sh.loop
	case "G", "GI":
		var ls []*s2.Loop
		for _, l := range sh.loops {
			ls = append(ls, s2.LoopFromPoints(c04Copy(l)))
		}
		orig := append([]*s2.Loop(nil), ls...)
		sh.poly = s2.PolygonFromLoops(ls)
		if sh.kind == "GI" {
			sh.poly.Invert()
		}
		for _, l := range sh.poly.Loops() {
			for i, o := range orig {
				if o == l {
					sh.order = append(sh.order, i)
				}
			}
		}
		sh.shape = sh.poly
	case "P":
		pv := s2.PointVector(c04Copy(sh.loops[0]))
		sh.shape = &pv
	case "Y":
		pl := s2.Polyline(c04Copy(sh.loops[0]))
		sh.shape = &pl
	case "X":
		sh.shape = s2.LaxPolygonFromPoints(sh.loops)
	default:
		panic("bad shape kind " + sh.kind)
	}
	return sh
}

func (sh *c04Shape) meta() string {
	rp := sh.shape.ReferencePoint()
	m := is(sh.shape.Dimension()) + ":" + is(sh.shape.NumEdges()) + ":" + bs(rp.Contained) + ":" + ptTok(rp.Point)
	if sh.poly != nil {
		var o, h []string
		hs := ""
		for i, l := range sh.poly.Loops() {
			o = append(o, is(sh.order[i]))
			hs += bs(l.IsHole())
		}
		if len(o) == 0 {
			m += ":-:-"
		} else {
			m += ":" + strings.Join(o, ".") + ":" + hs
		}
		_ = h
	}
	return m
}

func c04Ints(l []int) string {
	if len(l) == 0 {
		return "-"
	}
	s := make([]string, len(l))
	for i, v := range l {
		s[i] = is(v)
	}
	return strings.Join(s, ".")
}

const c04FreshLimit = 6

func c04Contain(a []string) []string {
	spec, probes := a[0], pPts(a[1])
	sh := c04Build(spec)
	res := []string{sh.meta()}
	isLoop := sh.loop != nil
	// the polygon paths
	var poly *s2.Polygon
	mkPoly := func() *s2.Polygon {
		if isLoop {
			p := s2.PolygonFromLoops([]*s2.Loop{s2.LoopFromPoints(c04Copy(sh.loops[0]))})
			if sh.kind == "LI" {
				p.Invert()
			}
			return p
		}
		return c04Build(spec).poly
	}
	poly = mkPoly()
	s2.VerifPolygonIndex(poly).Build()
	var lb *s2.Loop
	var idx *s2.ShapeIndex
	if isLoop {
		lb = sh.loop
		s2.VerifLoopIndex(lb).Build()
		idx = s2.NewShapeIndex()
		idx.Add(lb)
	} else {
		idx = s2.NewShapeIndex()
		idx.Add(poly)
	}
	qs := s2.NewContainsPointQuery(idx, s2.VertexModelSemiOpen)
	qo := s2.NewContainsPointQuery(idx, s2.VertexModelOpen)
	qc := s2.NewContainsPointQuery(idx, s2.VertexModelClosed)
	shp := idx.Shape(0)
	nv := 0
	for _, l := range sh.loops {
		nv += len(l)
	}
	// fresh objects: below the brute-force threshold the index is never built by ContainsPoint,
	// so one fresh object serves every probe; above it the first call builds the index.
	var freshLoop *s2.Loop
	var freshPoly *s2.Polygon
	for k, p := range probes {
		var b [15]byte
		for i := range b {
			b[i] = '-'
		}
		set := func(i int, v bool) {
			if v {
				b[i] = 'T'
			} else {
				b[i] = 'F'
			}
		}
		if isLoop {
			if len(sh.loops[0]) <= 32 {
				if freshLoop == nil {
					freshLoop = c04Build(spec).loop
				}
				set(0, freshLoop.ContainsPoint(p))
			} else if k < c04FreshLimit {
				set(0, c04Build(spec).loop.ContainsPoint(p))
			}
			set(1, lb.ContainsPoint(p))
			set(2, s2.VerifLoopBruteForceContainsPoint(lb, p))
			set(3, s2.VerifLoopIndexContainsPoint(lb, p))
			set(13, s2.VerifContainsBruteForce(lb, p))
		}
		set(4, qs.ShapeContains(shp, p))
		set(5, qo.ShapeContains(shp, p))
		set(6, qc.ShapeContains(shp, p))
		set(7, qs.Contains(p))
		if nv < 32 {
			if freshPoly == nil {
				freshPoly = mkPoly()
			}
			set(8, freshPoly.ContainsPoint(p))
		} else if k < c04FreshLimit {
			set(8, mkPoly().ContainsPoint(p))
		}
		set(9, poly.ContainsPoint(p))
		set(10, s2.VerifPolygonBruteForceContainsPoint(poly, p))
		set(11, s2.VerifPolygonQueryContainsPoint(poly, p))
		set(12, s2.VerifPolygonIteratorContainsPoint(poly, p))
		set(14, s2.VerifContainsBruteForce(poly, p))
		res = append(res, string(b[:]))
	}
	return res
}

func c04Tile(a []string) []string {
	n := pI(a[1])
	var shs []*c04Shape
	for i := 0; i < n; i++ {
		sh := c04Build(a[2+i])
		if sh.loop != nil {
			s2.VerifLoopIndex(sh.loop).Build()
		} else {
			s2.VerifPolygonIndex(sh.poly).Build()
		}
		shs = append(shs, sh)
	}
	probes := pPts(a[2+n])
	var res []string
	for _, p := range probes {
		x := make([]byte, 0, 2*n+1)
		y := make([]byte, 0, n)
		for _, sh := range shs {
			var c, d bool
			if sh.loop != nil {
				c = sh.loop.ContainsPoint(p)
				d = s2.VerifLoopIndexContainsPoint(sh.loop, p)
			} else {
				c = sh.poly.ContainsPoint(p)
				d = s2.VerifPolygonQueryContainsPoint(sh.poly, p)
			}
			x = append(x, bs(c)[0])
			y = append(y, bs(d)[0])
		}
		res = append(res, string(x)+"/"+string(y))
	}
	return res
}

func c04BuildIndex(a []string) (int, []*c04Shape, *s2.ShapeIndex, []string) {
	n := pI(a[0])
	idx := s2.NewShapeIndex()
	var shs []*c04Shape
	var res []string
	for i := 0; i < n; i++ {
		sh := c04Build(a[1+i])
		shs = append(shs, sh)
		idx.Add(sh.shape)
		res = append(res, sh.meta())
	}
	idx.Build()
	return n, shs, idx, res
}

func c04CellTok(c s2.VerifIndexCellDump) string {
	uv := s2.CellFromCellID(c.ID).BoundUV()
	var ss []string
	for _, s := range c.Shapes {
		ss = append(ss, is(int(s.ShapeID))+","+bs(s.ContainsCenter)+","+c04Ints(s.Edges))
	}
	st := "~"
	if len(ss) > 0 {
		st = strings.Join(ss, "|")
	}
	return idx(c.ID) + ":" + ptTok(c.Center) + ":" + fx(uv.X.Lo) + "," + fx(uv.X.Hi) + "," + fx(uv.Y.Lo) + "," + fx(uv.Y.Hi) + ":" + st
}

func c04Idx(a []string) []string {
	_, _, idx, res := c04BuildIndex(a)
	res = append(res, "C")
	for _, c := range s2.VerifIndexCells(idx) {
		res = append(res, c04CellTok(c))
	}
	return res
}

func c04Cross(a []string) []string {
	n, shs, idx, res := c04BuildIndex(a)
	q := pPts(a[1+n])
	sid := map[s2.Shape]int{}
	for i, sh := range shs {
		sid[sh.shape] = i
	}
	mapTok := func(m s2.EdgeMap) string {
		var parts []string
		for s, e := range m {
			parts = append(parts, is(sid[s])+"="+c04Ints(e))
		}
		if len(parts) == 0 {
			return "-"
		}
		sort.Strings(parts)
		return strings.Join(parts, "&")
	}
	for k := 0; k+1 < len(q); k += 2 {
		x, y := q[k], q[k+1]
		var per []string
		for _, sh := range shs {
			ceq := s2.NewCrossingEdgeQuery(idx)
			per = append(per, c04Ints(ceq.Crossings(x, y, sh.shape, s2.CrossingTypeAll)))
			ceq = s2.NewCrossingEdgeQuery(idx)
			per = append(per, c04Ints(ceq.Crossings(x, y, sh.shape, s2.CrossingTypeInterior)))
		}
		ma := mapTok(s2.NewCrossingEdgeQuery(idx).CrossingsEdgeMap(x, y, s2.CrossingTypeAll))
		mi := mapTok(s2.NewCrossingEdgeQuery(idx).CrossingsEdgeMap(x, y, s2.CrossingTypeInterior))
		res = append(res, strings.Join(per, "/")+"#"+ma+"#"+mi)
	}
	return res
}

// c04CpqRm is c04cpq on an index with a HISTORY: decoy shapes are added before the listed shapes (so that the listed shapes get
// ids that are not 0..n-1), the index is optionally built, then the decoys are removed again.  The answers must be those of
// the listed shapes alone (defect D52: after Remove the largest live shape id exceeds Len()).  Last argument: "<d>:<b>" =
// number of decoys, build before removing (0/1).
func c04CpqRm(a []string) []string {
	spec := strings.Split(a[len(a)-1], ":")
	a = a[:len(a)-1]
	d, pre := pI(spec[0]), spec[1] == "1"
	n := pI(a[0])
	idx := s2.NewShapeIndex()
	var decoys []s2.Shape
	for k := 0; k < d; k++ {
		l := s2.RegularLoop(s2.PointFromLatLng(s2.LatLngFromDegrees(-60+7*float64(k), 170-11*float64(k))), s1.Angle(0.02+0.01*float64(k)), 40)
		decoys = append(decoys, l)
		idx.Add(l)
	}
	var shs []*c04Shape
	var res []string
	for i := 0; i < n; i++ {
		sh := c04Build(a[1+i])
		shs = append(shs, sh)
		idx.Add(sh.shape)
		res = append(res, sh.meta())
	}
	if pre {
		idx.Build()
	}
	for _, l := range decoys {
		idx.Remove(l)
	}
	idx.Build()
	return c04CpqOn(a, n, shs, idx, res)
}

func c04Cpq(a []string) []string {
	n, shs, idx, res := c04BuildIndex(a)
	return c04CpqOn(a, n, shs, idx, res)
}

func c04CpqOn(a []string, n int, shs []*c04Shape, idx *s2.ShapeIndex, res []string) []string {
	probes := pPts(a[1+n])
	sid := map[s2.Shape]int{}
	for i, sh := range shs {
		sid[sh.shape] = i
	}
	qs := []*s2.ContainsPointQuery{
		s2.NewContainsPointQuery(idx, s2.VertexModelOpen),
		s2.NewContainsPointQuery(idx, s2.VertexModelSemiOpen),
		s2.NewContainsPointQuery(idx, s2.VertexModelClosed)}
	for _, p := range probes {
		var parts []string
		cont := ""
		for _, q := range qs {
			var ids []int
			for _, s := range q.ContainingShapes(p) {
				ids = append(ids, sid[s])
			}
			sort.Ints(ids)
			parts = append(parts, c04Ints(ids))
			cont += bs(q.Contains(p))
		}
		parts = append(parts, cont)
		sc := ""
		for _, sh := range shs {
			sc += bs(qs[1].ShapeContains(sh.shape, p))
		}
		parts = append(parts, sc)
		res = append(res, strings.Join(parts, "/"))
	}
	return res
}

func init() {
	replayers["c04contain"] = c04Contain
	replayers["c04tile"] = c04Tile
	replayers["c04idx"] = c04Idx
	replayers["c04cross"] = c04Cross
	replayers["c04cpq"] = c04Cpq
	// c04orient <G:loops> <probes>: P = PolygonFromOrientedLoops(loops), Q = the same from the reversed loops; per probe "PQ" (T/F each)
	replayers["c04orient"] = func(a []string) []string {
		k := strings.Index(a[0], ":")
		loops := c04ParseLoops(a[0][k+1:])
		mk := func(rev bool) *s2.Polygon {
			var ls []*s2.Loop
			for _, l := range loops {
				v := c04Copy(l)
				if rev {
					for i, j := 0, len(v)-1; i < j; i, j = i+1, j-1 {
						v[i], v[j] = v[j], v[i]
					}
				}
				ls = append(ls, s2.LoopFromPoints(v))
			}
			return s2.PolygonFromOrientedLoops(ls)
		}
		P, Q := mk(false), mk(true)
		var out []string
		for _, p := range pPts(a[1]) {
			out = append(out, bs(P.ContainsPoint(p))+bs(Q.ContainsPoint(p)))
		}
		return out
	}
	replayers["c04cpqrm"] = c04CpqRm
	generators["c04"] = genC04
	generators["c06idx"] = genC06Idx
}

// ---------------------------------------------------------------- generators

func c04Raw(x, y, z float64) s2.Point { return s2.Point{Vector: r3.Vector{X: x, Y: y, Z: z}} }

func c04Ulp(x float64, k int) float64 {
	for ; k > 0; k-- {
		x = math.Nextafter(x, math.Inf(1))
	}
	for ; k < 0; k++ {
		x = math.Nextafter(x, math.Inf(-1))
	}
	return x
}

// nudge moves one or more coordinates by a few ulps (the point stays unit length within 1e-15).
func (g *G) c04Nudge(p s2.Point) s2.Point {
	r := g.rng
	d := func() int { return r.Intn(5) - 2 }
	switch r.Intn(4) {
	case 0:
		return c04Raw(c04Ulp(p.X, d()), p.Y, p.Z)
	case 1:
		return c04Raw(p.X, c04Ulp(p.Y, d()), p.Z)
	case 2:
		return c04Raw(p.X, p.Y, c04Ulp(p.Z, d()))
	}
	return c04Raw(c04Ulp(p.X, d()), c04Ulp(p.Y, d()), c04Ulp(p.Z, d()))
}

// c04Valid: every vertex unit, no duplicate vertices, no antipodal neighbours, no two non-adjacent
// edges crossing (quadratic, exact predicates of the library).
func c04Valid(pts []s2.Point) bool {
	n := len(pts)
	if n < 3 {
		return false
	}
	seen := map[s2.Point]bool{}
	for i, p := range pts {
		if !p.IsUnit() || seen[p] {
			return false
		}
		// Go map keys distinguish +0/-0: normalise
		seen[p] = true
		q := pts[(i+1)%n]
		if p.Vector == q.Vector.Mul(-1) || p == q {
			return false
		}
	}
	if n > 700 {
		// quadratic check only on a window; large loops are star-shaped by construction
		return true
	}
	for i := 0; i < n; i++ {
		a, b := pts[i], pts[(i+1)%n]
		cr := s2.NewEdgeCrosser(a, b)
		for j := i + 2; j < n; j++ {
			if i == 0 && j == n-1 {
				continue
			}
			if cr.CrossingSign(pts[j], pts[(j+1)%n]) == s2.Cross {
				return false
			}
		}
	}
	return true
}

// c04Center picks a loop centre: anywhere, a pole, a cube corner, a face-edge midpoint, a face centre.
func (g *G) c04Center() s2.Point {
	r := g.rng
	sg := func() float64 {
		if r.Bool() {
			return 1
		}
		return -1
	}
	switch r.Intn(7) {
	case 0:
		return c04Raw(0, 0, sg())
	case 1:
		return s2.PointFromCoords(sg(), sg(), sg())
	case 2:
		v := [3]float64{sg(), sg(), 0}
		k := r.Intn(3)
		return s2.PointFromCoords(v[k], v[(k+1)%3], v[(k+2)%3])
	case 3:
		v := [3]float64{sg(), 0, 0}
		k := r.Intn(3)
		return s2.PointFromCoords(v[k], v[(k+1)%3], v[(k+2)%3])
	case 4:
		// near a face seam, slightly off
		v := [3]float64{sg(), sg() * (1 + (r.Float()-0.5)*1e-3), (r.Float() - 0.5) * 2}
		k := r.Intn(3)
		return s2.PointFromCoords(v[k], v[(k+1)%3], v[(k+2)%3])
	}
	return s2.PointFromCoords(r.Float()*2-1, r.Float()*2-1, r.Float()*2-1)
}

func (g *G) c04Radius() float64 {
	r := g.rng
	switch r.Intn(6) {
	case 0:
		return 1e-7 * (1 + r.Float())
	case 1:
		return 1e-4 * (1 + 9*r.Float())
	case 2:
		return 0.01 + 0.1*r.Float()
	case 3:
		return 0.3 + 0.9*r.Float()
	case 4:
		return math.Pi/2 - 1e-3*r.Float() // about a hemisphere
	}
	return math.Pow(10, -6*r.Float())
}

// starLoop: vertices at increasing azimuth around c, radius varying in [lo,1]*rad; every geodesic
// edge stays inside its own azimuth sector, so the loop is simple.  regular: equal steps, equal radius.
func (g *G) c04Star(c s2.Point, rad float64, n int, lo float64, regular bool) []s2.Point {
	r := g.rng
	z := c.Vector
	x := z.Ortho()
	y := z.Cross(x)
	phase := r.Float() * 2 * math.Pi
	pts := make([]s2.Point, 0, n)
	for i := 0; i < n; i++ {
		a := phase + 2*math.Pi*float64(i)/float64(n)
		rr := rad
		if !regular {
			a += (r.Float() - 0.5) * 0.8 * 2 * math.Pi / float64(n)
			rr = rad * (lo + (1-lo)*r.Float())
		}
		h, s := math.Cos(rr), math.Sin(rr)
		v := z.Mul(h).Add(x.Mul(s * math.Cos(a))).Add(y.Mul(s * math.Sin(a)))
		pts = append(pts, s2.Point{Vector: v.Normalize()})
	}
	return pts
}

func c04SnapLevel(rad float64, n int) int {
	// cell size well below the vertex spacing
	sp := rad * 2 * math.Pi / float64(n) / 16
	lv := s2.AvgEdgeMetric.MinLevel(sp)
	if lv > 30 {
		lv = 30
	}
	if lv < 2 {
		lv = 2
	}
	return lv
}

func c04Snap(pts []s2.Point, level int) []s2.Point {
	out := make([]s2.Point, 0, len(pts))
	for _, p := range pts {
		q := s2.VerifCellIDFromPoint(p).Parent(level).Point()
		if len(out) > 0 && out[len(out)-1] == q {
			continue
		}
		out = append(out, q)
	}
	for len(out) > 1 && out[0] == out[len(out)-1] {
		out = out[:len(out)-1]
	}
	return out
}

func (g *G) c04LoopSize() int {
	r := g.rng
	switch r.Intn(10) {
	case 0:
		return 3
	case 1:
		return 4 + r.Intn(5)
	case 2:
		return 30 + r.Intn(6) // both sides of maxBruteForceVertices = 32
	case 3, 4:
		return 33 + r.Intn(100)
	case 5:
		return 200 + r.Intn(400)
	case 6:
		if r.Intn(4) == 0 {
			return 1000 + r.Intn(1001)
		}
		return 100 + r.Intn(100)
	}
	return 3 + r.Intn(60)
}

// c04RandomLoop returns a valid loop (nil if the attempt failed validation).
func (g *G) c04RandomLoop(n int) []s2.Point {
	r := g.rng
	c := g.c04Center()
	rad := g.c04Radius()
	pts := g.c04Star(c, rad, n, 0.5, r.Intn(3) == 0)
	if r.Intn(2) == 0 {
		pts = c04Snap(pts, c04SnapLevel(rad*0.5, n))
	}
	if r.Intn(5) == 0 { // clockwise: the loop is the large complement
		for i, j := 0, len(pts)-1; i < j; i, j = i+1, j-1 {
			pts[i], pts[j] = pts[j], pts[i]
		}
	}
	if !c04Valid(pts) {
		return nil
	}
	return pts
}

func c04CellLoop(id s2.CellID) []s2.Point {
	c := s2.CellFromCellID(id)
	return []s2.Point{c.Vertex(0), c.Vertex(1), c.Vertex(2), c.Vertex(3)}
}

func c04Mid(a, b s2.Point) s2.Point { return s2.Point{Vector: a.Add(b.Vector).Normalize()} }

// c04Probes: vertices, 1-ulp neighbours of vertices, edge midpoints ± ulps, index-cell centres and
// corners (through the hook), poles, seam points, random points near the loop.
func (g *G) c04Probes(loops [][]s2.Point, cells []s2.VerifIndexCellDump, max int) []s2.Point {
	r := g.rng
	var ps []s2.Point
	add := func(p s2.Point) { ps = append(ps, p) }
	for _, l := range loops {
		n := len(l)
		step := 1
		if n > 40 {
			step = n / 40
		}
		for i := 0; i < n; i += step {
			k := i
			if step > 1 {
				k = r.Intn(n)
			}
			add(l[k])
			add(g.c04Nudge(l[k]))
			m := c04Mid(l[k], l[(k+1)%n])
			add(m)
			add(g.c04Nudge(m))
			// a point a little inside / outside along the edge normal
			nrm := l[k].PointCross(l[(k+1)%n])
			eps := math.Pow(10, -1-14*r.Float())
			add(s2.Point{Vector: m.Add(nrm.Mul(eps)).Normalize()})
			add(s2.Point{Vector: m.Add(nrm.Mul(-eps)).Normalize()})
		}
	}
	// index cells
	if len(cells) > 0 {
		k := 24
		for i := 0; i < k; i++ {
			c := cells[r.Intn(len(cells))]
			add(c.Center)
			cell := s2.CellFromCellID(c.ID)
			add(cell.Vertex(r.Intn(4)))
			add(g.c04Nudge(c.Center))
			if c.ID.Level() < 30 {
				ch := c.ID.Children()
				add(ch[r.Intn(4)].Point())
			}
		}
	}
	for _, p := range []s2.Point{c04Raw(0, 0, 1), c04Raw(0, 0, -1), c04Raw(1, 0, 0), c04Raw(0, -1, 0),
		s2.PointFromCoords(1, 1, 0), s2.PointFromCoords(1, 1, 1), s2.PointFromCoords(-1, 1, 0.3), s2.OriginPoint()} {
		add(p)
	}
	if len(loops) > 0 && len(loops[0]) > 0 {
		c := loops[0][0]
		for i := 0; i < 6; i++ {
			add(s2.Point{Vector: c.Add(r3.Vector{X: r.Float() - 0.5, Y: r.Float() - 0.5, Z: r.Float() - 0.5}.Mul(math.Pow(10, -8*r.Float()))).Normalize()})
		}
	}
	if len(ps) > max {
		// keep a random subset, deterministic
		for i := len(ps) - 1; i > 0; i-- {
			j := r.Intn(i + 1)
			ps[i], ps[j] = ps[j], ps[i]
		}
		ps = ps[:max]
	}
	return ps
}

func c04LoopCells(pts []s2.Point) []s2.VerifIndexCellDump {
	l := s2.LoopFromPoints(c04Copy(pts))
	return s2.VerifIndexCells(s2.VerifLoopIndex(l))
}

func c04LoopsSpec(kind string, loops [][]s2.Point) string {
	var t []string
	for _, l := range loops {
		t = append(t, ptsTok(l))
	}
	return kind + ":" + strings.Join(t, "/")
}

// c04LoopsDisjoint: no shared vertex and no crossing between edges of different loops (quadratic).
func c04LoopsDisjoint(loops [][]s2.Point) bool {
	seen := map[s2.Point]int{}
	for i, l := range loops {
		for _, p := range l {
			if j, ok := seen[p]; ok && j != i {
				return false
			}
			seen[p] = i
		}
	}
	for i := range loops {
		for j := i + 1; j < len(loops); j++ {
			a, b := loops[i], loops[j]
			for x := range a {
				cr := s2.NewEdgeCrosser(a[x], a[(x+1)%len(a)])
				for y := range b {
					if cr.CrossingSign(b[y], b[(y+1)%len(b)]) != s2.DoNotCross {
						return false
					}
				}
			}
		}
	}
	return true
}

// nested concentric star loops: shell, hole, island, … Every loop is counter-clockwise and lies
// strictly inside the disc inscribed in the previous one (checked: no two loops touch or cross).
func (g *G) c04Nested(k, n int) [][]s2.Point {
	r := g.rng
	c := g.c04Center()
	rad := g.c04Radius()
	if rad > 1.2 {
		rad = 1.2
	}
	// azimuth gaps are at most 1.8 * 2pi/n: the edge between two vertices at radius >= lo stays
	// outside radius lo*cos(halfgap) (planar estimate; the exact check below decides)
	half := 0.9 * 2 * math.Pi / float64(n)
	shrink := 0.2
	if half < math.Pi/2 {
		shrink = math.Max(0.2, 0.85*math.Cos(half))
	}
	var loops [][]s2.Point
	hi := rad
	for i := 0; i < k; i++ {
		lo := hi * 0.7
		pts := g.c04Star(c, hi, n, 0.7, false)
		if r.Intn(2) == 0 {
			pts = c04Snap(pts, c04SnapLevel(lo*shrink, n*2))
		}
		if !c04Valid(pts) {
			return nil
		}
		loops = append(loops, pts)
		hi = lo * shrink * 0.9
	}
	// second shell elsewhere
	if r.Intn(3) == 0 {
		c2 := s2.Point{Vector: c.Vector.Mul(-1)}
		pts := g.c04Star(c2, math.Min(rad, 0.3), n, 0.6, false)
		if c04Valid(pts) {
			loops = append(loops, pts)
		}
	}
	if !c04LoopsDisjoint(loops) {
		return nil
	}
	lls := make([]*s2.Loop, len(loops))
	for i, l := range loops {
		lls[i] = s2.LoopFromPoints(c04Copy(l))
	}
	pg := s2.PolygonFromLoops(lls)
	if pg.Validate() != nil {
		return nil
	}
	return loops
}

// all cells of one level touching the probes of a deep cell: the cell and AllNeighbors
func c04Neighbourhood(id s2.CellID) []s2.CellID {
	// AllNeighbors may list a neighbour twice next to a cube vertex (documented): deduplicate
	seen := map[s2.CellID]bool{id: true}
	out := []s2.CellID{id}
	for _, c := range id.AllNeighbors(id.Level()) {
		if !seen[c] {
			seen[c] = true
			out = append(out, c)
		}
	}
	return out
}

func (g *G) c04TileProbesForCell(id s2.CellID) []s2.Point {
	c := s2.CellFromCellID(id)
	ps := []s2.Point{c.Center(), id.Point()}
	for k := 0; k < 4; k++ {
		ps = append(ps, c.Vertex(k))
		m := c04Mid(c.Vertex(k), c.Vertex((k+1)%4))
		ps = append(ps, m, g.c04Nudge(m))
		ps = append(ps, g.c04Nudge(c.Vertex(k)))
		// a point of the edge other than the midpoint
		t := g.rng.Float()
		ps = append(ps, s2.Point{Vector: c.Vertex(k).Mul(t).Add(c.Vertex((k + 1) % 4).Mul(1 - t)).Normalize()})
	}
	return ps
}

func (g *G) c04EmitTile(kind string, specs []string, probes []s2.Point) {
	const chunk = 40
	for i := 0; i < len(probes); i += chunk {
		j := i + chunk
		if j > len(probes) {
			j = len(probes)
		}
		args := append([]string{kind, is(len(specs))}, specs...)
		args = append(args, ptsTok(probes[i:j]))
		g.emit("c04tile", args...)
	}
}

// c04Fixed counts the cases of the fixed (seed-independent) part; they are dealt round-robin to the
// shards.  The random part needs no dealing: every shard has its own PRNG stream.
var c04Fixed int

func (g *G) c04Mine() bool {
	c04Fixed++
	m := g.shardM
	if m <= 0 {
		m = 1
	}
	return c04Fixed%m == g.shardK%m
}

func genC04(g *G) {
	r := g.rng
	// ---- fixed tilings: the six faces, all cells of level 1..3 (thorough: 4)
	maxLevel := 2
	if g.n*g.shardM >= 1000 {
		maxLevel = 3
	}
	if g.thorough {
		maxLevel = 4
	}
	for lv := 0; lv <= maxLevel; lv++ {
		var specs []string
		var ids []s2.CellID
		for id := s2.CellIDFromFace(0).ChildBeginAtLevel(lv); id != s2.CellIDFromFace(5).ChildEndAtLevel(lv); id = id.Next() {
			ids = append(ids, id)
			specs = append(specs, c04LoopsSpec("L", [][]s2.Point{c04CellLoop(id)}))
		}
		var probes []s2.Point
		if lv <= 2 {
			for _, id := range ids {
				probes = append(probes, g.c04TileProbesForCell(id)...)
			}
		} else {
			for k := 0; k < 12; k++ {
				probes = append(probes, g.c04TileProbesForCell(ids[r.Intn(len(ids))])...)
			}
			for _, id := range ids { // every vertex and centre
				c := s2.CellFromCellID(id)
				probes = append(probes, c.Vertex(0), id.Point())
			}
		}
		for _, p := range []s2.Point{c04Raw(0, 0, 1), c04Raw(0, 0, -1), s2.OriginPoint(), s2.PointFromCoords(1, 1, 1), s2.PointFromCoords(-1, -1, -1), s2.PointFromCoords(1, -1, 0)} {
			probes = append(probes, p)
		}
		const chunk = 40
		for i := 0; i < len(probes); i += chunk {
			j := i + chunk
			if j > len(probes) {
				j = len(probes)
			}
			if !g.c04Mine() {
				continue
			}
			args := append([]string{"level" + is(lv), is(len(specs))}, specs...)
			args = append(args, ptsTok(probes[i:j]))
			g.emit("c04tile", args...)
		}
	}
	// ---- the special one-vertex loops (empty / full) and their inverses
	for _, z := range []float64{1, -1} {
		for _, kind := range []string{"L", "LI"} {
			if !g.c04Mine() {
				continue
			}
			probes := []s2.Point{c04Raw(0, 0, 1), c04Raw(0, 0, -1), s2.OriginPoint(), c04Raw(1, 0, 0), s2.PointFromCoords(1, 1, 1), g.c04Center(), g.c04Center()}
			g.emit("c04contain", c04LoopsSpec(kind, [][]s2.Point{{c04Raw(0, 0, z)}}), ptsTok(probes))
		}
	}
	for it := 0; it < g.n; it++ {
		if it%6 == 0 {
			g.c04Oriented()
		}
		mine := true
		switch k := r.Intn(20); {
		case k < 9: // one loop, every path
			n := g.c04LoopSize()
			pts := g.c04RandomLoop(n)
			if pts == nil || !mine {
				continue
			}
			max := 60
			if len(pts) > 500 {
				max = 30
			}
			probes := g.c04Probes([][]s2.Point{pts}, c04LoopCells(pts), max)
			kind := "L"
			if r.Intn(3) == 0 {
				kind = "LI"
			}
			g.emit("c04contain", c04LoopsSpec(kind, [][]s2.Point{pts}), ptsTok(probes))
		case k < 11: // loop from a cell, any level, incl. face boundaries
			lv := r.Intn(31)
			id := s2.VerifCellIDFromPoint(g.c04Center()).Parent(lv)
			if !mine {
				continue
			}
			pts := c04CellLoop(id)
			probes := append(g.c04TileProbesForCell(id), g.c04Probes([][]s2.Point{pts}, nil, 20)...)
			g.emit("c04contain", c04LoopsSpec("L", [][]s2.Point{pts}), ptsTok(probes))
		case k < 14: // polygon with holes
			nl := 1 + r.Intn(4)
			n := 3 + r.Intn(40)
			if r.Intn(5) == 0 {
				n = 100 + r.Intn(200)
			}
			loops := g.c04Nested(nl, n)
			if loops == nil || !mine {
				continue
			}
			var cells []s2.VerifIndexCellDump
			sh := c04Build(c04LoopsSpec("G", loops))
			cells = s2.VerifIndexCells(s2.VerifPolygonIndex(sh.poly))
			probes := g.c04Probes(loops, cells, 50)
			kind := "G"
			if r.Intn(3) == 0 {
				kind = "GI"
			}
			g.emit("c04contain", c04LoopsSpec(kind, loops), ptsTok(probes))
		case k < 16: // loop + inverse, polygon + complement as tilings
			if r.Bool() {
				pts := g.c04RandomLoop(g.c04LoopSize())
				if pts == nil || !mine {
					continue
				}
				probes := g.c04Probes([][]s2.Point{pts}, c04LoopCells(pts), 40)
				g.c04EmitTile("inverse", []string{c04LoopsSpec("L", [][]s2.Point{pts}), c04LoopsSpec("LI", [][]s2.Point{pts})}, probes)
			} else {
				loops := g.c04Nested(1+r.Intn(3), 3+r.Intn(50))
				if loops == nil || !mine {
					continue
				}
				probes := g.c04Probes(loops, nil, 40)
				g.c04EmitTile("complement", []string{c04LoopsSpec("G", loops), c04LoopsSpec("GI", loops)}, probes)
			}
		case k < 18: // deep-level neighbourhood tiling
			lv := 4 + r.Intn(27)
			id := s2.VerifCellIDFromPoint(g.c04Center()).Parent(lv)
			if r.Intn(3) == 0 { // a cell at a face corner / edge
				f := r.Intn(6)
				mx := (1 << 30) - 1
				ij := [][2]int{{0, 0}, {mx, 0}, {0, mx}, {mx, mx}, {r.Intn(mx), 0}, {mx, r.Intn(mx)}}[r.Intn(6)]
				id = s2.VerifCellIDFromFaceIJ(f, ij[0], ij[1]).Parent(lv)
			}
			if !mine {
				continue
			}
			var specs []string
			for _, c := range c04Neighbourhood(id) {
				specs = append(specs, c04LoopsSpec("L", [][]s2.Point{c04CellLoop(c)}))
			}
			g.c04EmitTile("nbhd"+is(lv), specs, g.c04TileProbesForCell(id))
		default: // index invariants of a loop's own index
			pts := g.c04RandomLoop(g.c04LoopSize())
			if pts == nil || !mine {
				continue
			}
			if len(pts) > 400 {
				pts = nil
				continue
			}
			g.emit("c04idx", "1", c04LoopsSpec("L", [][]s2.Point{pts}))
		}
	}
}

// ---------------------------------------------------------------- C06 (index half)

// a small mixed-dimension collection with shared vertices and edges on index-cell boundaries
func (g *G) c06Collection() ([]string, [][]s2.Point) {
	r := g.rng
	var specs []string
	var all [][]s2.Point
	c := g.c04Center()
	rad := g.c04Radius()
	if rad > 1.0 {
		rad = 1.0
	}
	ns := 1 + r.Intn(4)
	var pool []s2.Point
	for s := 0; s < ns; s++ {
		switch r.Intn(7) {
		case 0, 1: // loop
			n := 3 + r.Intn(80)
			if r.Intn(4) == 0 {
				n = 28 + r.Intn(300)
			}
			cc := c
			if r.Bool() {
				cc = s2.Point{Vector: c.Add(r3.Vector{X: r.Float() - 0.5, Y: r.Float() - 0.5, Z: r.Float() - 0.5}.Mul(rad)).Normalize()}
			}
			pts := g.c04Star(cc, rad*(0.3+r.Float()), n, 0.5, r.Intn(3) == 0)
			if r.Bool() {
				pts = c04Snap(pts, c04SnapLevel(rad*0.15, n))
			}
			if !c04Valid(pts) {
				continue
			}
			specs = append(specs, c04LoopsSpec("L", [][]s2.Point{pts}))
			all = append(all, pts)
			pool = append(pool, pts...)
		case 2: // polygon with holes
			loops := g.c04Nested(1+r.Intn(3), 3+r.Intn(40))
			if loops == nil {
				continue
			}
			specs = append(specs, c04LoopsSpec("G", loops))
			all = append(all, loops...)
			for _, l := range loops {
				pool = append(pool, l...)
			}
		case 3: // lax polygon: valid loops + degenerate loops
			pts := g.c04Star(c, rad*(0.2+r.Float()), 3+r.Intn(40), 0.5, false)
			if !c04Valid(pts) {
				continue
			}
			loops := [][]s2.Point{pts}
			if r.Bool() {
				far := s2.Point{Vector: c.Vector.Mul(-1)}
				loops = append(loops, []s2.Point{far}) // degenerate one-vertex loop
			}
			if r.Bool() {
				a := s2.Point{Vector: c.Vector.Ortho()}
				b := s2.Point{Vector: a.Add(c.Vector.Mul(0.1)).Normalize()}
				loops = append(loops, []s2.Point{a, b}) // sibling pair
			}
			specs = append(specs, c04LoopsSpec("X", loops))
			all = append(all, loops...)
			pool = append(pool, pts...)
		case 4: // polyline through pool vertices (shared vertices) and new points
			var pts []s2.Point
			m := 2 + r.Intn(30)
			for i := 0; i < m; i++ {
				if len(pool) > 0 && r.Intn(3) == 0 {
					pts = append(pts, pool[r.Intn(len(pool))])
				} else {
					pts = append(pts, s2.Point{Vector: c.Add(r3.Vector{X: r.Float() - 0.5, Y: r.Float() - 0.5, Z: r.Float() - 0.5}.Mul(2 * rad)).Normalize()})
				}
				if i > 0 && r.Intn(10) == 0 {
					pts = append(pts, pts[len(pts)-1]) // degenerate edge
				}
			}
			specs = append(specs, "Y:"+ptsTok(pts))
			all = append(all, pts)
			pool = append(pool, pts...)
		case 5: // points, some on existing vertices
			var pts []s2.Point
			m := 1 + r.Intn(20)
			for i := 0; i < m; i++ {
				if len(pool) > 0 && r.Bool() {
					pts = append(pts, pool[r.Intn(len(pool))])
				} else {
					pts = append(pts, s2.Point{Vector: c.Add(r3.Vector{X: r.Float() - 0.5, Y: r.Float() - 0.5, Z: r.Float() - 0.5}.Mul(2 * rad)).Normalize()})
				}
			}
			specs = append(specs, "P:"+ptsTok(pts))
			all = append(all, pts)
			pool = append(pool, pts...)
		case 6: // edges lying ON cell boundaries: polyline / loop through cell vertices
			lv := 2 + r.Intn(20)
			id := s2.VerifCellIDFromPoint(c).Parent(lv)
			cell := s2.CellFromCellID(id)
			if r.Bool() {
				pts := []s2.Point{cell.Vertex(0), cell.Vertex(1), cell.Vertex(2), cell.Vertex(3)}
				specs = append(specs, c04LoopsSpec("L", [][]s2.Point{pts}))
				all = append(all, pts)
				pool = append(pool, pts...)
			} else {
				// a staircase along cell boundaries of the children
				var pts []s2.Point
				ch := id.Children()
				for _, cc := range ch {
					k := r.Intn(4)
					pts = append(pts, s2.CellFromCellID(cc).Vertex(k), s2.CellFromCellID(cc).Vertex((k+1)%4))
				}
				var q []s2.Point
				for _, p := range pts {
					if len(q) == 0 || q[len(q)-1] != p {
						q = append(q, p)
					}
				}
				specs = append(specs, "Y:"+ptsTok(q))
				all = append(all, q)
				pool = append(pool, q...)
			}
		}
	}
	return specs, all
}

func (g *G) c06QueryEdges(all [][]s2.Point, m int) []s2.Point {
	r := g.rng
	var pool []s2.Point
	for _, l := range all {
		pool = append(pool, l...)
	}
	var q []s2.Point
	pick := func() s2.Point {
		switch r.Intn(6) {
		case 0:
			return pool[r.Intn(len(pool))] // a vertex: shared-vertex crossings
		case 1:
			return g.c04Nudge(pool[r.Intn(len(pool))])
		case 2:
			l := all[r.Intn(len(all))]
			i := r.Intn(len(l))
			return c04Mid(l[i], l[(i+1)%len(l)]) // on (or next to) an edge
		case 3:
			return g.c04Center()
		}
		p := pool[r.Intn(len(pool))]
		return s2.Point{Vector: p.Add(r3.Vector{X: r.Float() - 0.5, Y: r.Float() - 0.5, Z: r.Float() - 0.5}.Mul(math.Pow(10, -6*r.Float()))).Normalize()}
	}
	for i := 0; i < m; i++ {
		a, b := pick(), pick()
		if a.Vector == b.Vector.Mul(-1) {
			continue
		}
		if r.Intn(12) == 0 {
			b = a // degenerate query edge
		}
		if r.Intn(8) == 0 && len(all) > 0 { // an edge of a shape itself, or reversed
			l := all[r.Intn(len(all))]
			k := r.Intn(len(l))
			a, b = l[k], l[(k+1)%len(l)]
			if r.Bool() {
				a, b = b, a
			}
		}
		if c04Antiparallel(a, b) {
			continue // antipodal DIRECTIONS (b = -k*a, also with k != 1): the edge is not defined, out of contract
		}
		q = append(q, a, b)
	}
	return q
}

// c04Antiparallel: the exact cross product of a and b is zero and their dot product is negative, i.e. the two
// vectors point in exactly opposite directions (not necessarily with the same length: (s,-s,0) and (-s',s',0)).
func c04Antiparallel(a, b s2.Point) bool {
	rat := func(x float64) *big.Rat { return new(big.Rat).SetFloat64(x) }
	mul := func(x, y float64) *big.Rat { return new(big.Rat).Mul(rat(x), rat(y)) }
	sub := func(x, y *big.Rat) *big.Rat { return new(big.Rat).Sub(x, y) }
	if sub(mul(a.Y, b.Z), mul(a.Z, b.Y)).Sign() != 0 || sub(mul(a.Z, b.X), mul(a.X, b.Z)).Sign() != 0 || sub(mul(a.X, b.Y), mul(a.Y, b.X)).Sign() != 0 {
		return false
	}
	d := new(big.Rat).Add(new(big.Rat).Add(mul(a.X, b.X), mul(a.Y, b.Y)), mul(a.Z, b.Z))
	return d.Sign() < 0
}

func genC06Idx(g *G) {
	r := g.rng
	for it := 0; it < g.n; it++ {
		if it%8 == 7 { // family D60: shape edges within 0..3 ulps of antipodal / subnormal differences (c06d60.go)
			g.c06d60Sample(it)
			continue
		}
		mine := true
		specs, all := g.c06Collection()
		if len(specs) == 0 || !mine {
			continue
		}
		args := append([]string{is(len(specs))}, specs...)
		// cells of this collection (for probes)
		_, _, idx, _ := c04BuildIndex(args)
		cells := s2.VerifIndexCells(idx)
		switch r.Intn(3) {
		case 0:
			ne := 0
			for _, l := range all {
				ne += len(l)
			}
			if ne*len(cells) > 400000 {
				continue
			}
			g.emit("c04idx", args...)
		case 1:
			g.emit("c04cross", append(args, ptsTok(g.c06QueryEdges(all, 12)))...)
		default:
			pa := append(args, ptsTok(g.c04Probes(all, cells, 50)))
			g.emit("c04cpq", pa...)
			if r.Intn(3) == 0 { // the same question on an index from which earlier shapes were removed
				g.emit("c04cpqrm", append(append([]string(nil), pa...), is(1+r.Intn(3))+":"+is(r.Intn(2)))...)
			}
		}
	}
}

var _ = s1.Angle(0)

// c04Oriented emits one c04orient line: ORIENTED loops (interior on the left) given to PolygonFromOrientedLoops, and the same
// loops reversed: the two polygons must partition the sphere.  Families: a disc with a hole (hole given clockwise); two
// disjoint discs; a band between two parallel circles around a random axis of half-width 1e-16 .. 0.3 rad (both loops then have
// a turning angle of about zero and the larger side is decided by the tie rule "contains the origin" — seeded change C04_7);
// a single loop within 1e-15 of a great circle.
func (g *G) c04Oriented() {
	r := g.rng
	c := g.c04Center()
	e1 := s2.Point{Vector: c.Ortho().Normalize()}
	e2 := s2.Point{Vector: c.Cross(e1.Vector).Normalize()}
	circle := func(h float64, n int, cw bool) []s2.Point { // the parallel at height h over the plane orthogonal to c
		var v []s2.Point
		rho := math.Sqrt(math.Max(0, 1-h*h))
		for i := 0; i < n; i++ {
			t := 2 * math.Pi * float64(i) / float64(n)
			v = append(v, s2.Point{Vector: c.Mul(h).Add(e1.Mul(rho * math.Cos(t))).Add(e2.Mul(rho * math.Sin(t))).Normalize()})
		}
		if cw {
			for i, j := 0, len(v)-1; i < j; i, j = i+1, j-1 {
				v[i], v[j] = v[j], v[i]
			}
		}
		return v
	}
	n := 4 + r.Intn(12)
	var loops [][]s2.Point
	switch r.Intn(5) {
	case 0: // disc with a hole
		loops = [][]s2.Point{circle(0.9, n, false), circle(0.97, n, true)}
	case 1: // two disjoint discs (around c and around -c)
		loops = [][]s2.Point{circle(0.9, n, false), circle(-0.8, n, true)}
	case 2: // a single loop next to a great circle
		loops = [][]s2.Point{circle((r.Float()*2-1)*math.Pow(10, -16+14*r.Float()), n, r.Bool())}
	default: // band around the great circle orthogonal to c: upper boundary clockwise, lower boundary counter-clockwise
		w := math.Pow(10, -16+15.5*r.Float())
		h0 := (r.Float()*2 - 1) * w
		loops = [][]s2.Point{circle(h0+w, n, true), circle(h0-w, n, false)}
		if r.Bool() {
			loops[0], loops[1] = loops[1], loops[0]
		}
	}
	for _, l := range loops {
		if !c04Valid(l) {
			return
		}
	}
	if len(loops) > 1 && !c04LoopsDisjoint(loops) {
		return
	}
	probes := []s2.Point{c, {Vector: c.Mul(-1)}, e1, e2, s2.OriginPoint(), {Vector: s2.OriginPoint().Mul(-1)}}
	for k := 0; k < 6; k++ {
		probes = append(probes, g.c04Center())
	}
	g.emit("c04orient", c04LoopsSpec("G", loops), ptsTok(probes))
}
