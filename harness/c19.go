package main

// Property C19: interval / rectangle algebra vs point membership.
// Ops (see lean/Oracle/C19.lean):
//   r1  alo ahi blo bhi m probes
//   s1  alo ahi blo bhi m probes          (operands valid, probes in [-π,π])
//   r2  a(4) b(4) mx my probes(x:y,…)
//   ll  a(4) b(4) mlat mlng probes(lat:lng,…)   (operands valid)
//   f64rem x y                                 (math.Remainder self-validation of the soft-float)
// Needs the export hook s2.VerifRectExpanded (s2/verif_export_c19.go, build tag verif).

import (
	"math"
	"strings"

	"github.com/golang/geo/r1"
	"github.com/golang/geo/r2"
	"github.com/golang/geo/s1"
	"github.com/golang/geo/s2"
)

func pFs(s string) []float64 {
	if s == "-" {
		return nil
	}
	parts := strings.Split(s, ",")
	r := make([]float64, len(parts))
	for i, p := range parts {
		r[i] = pF(p)
	}
	return r
}

func c19pPairs(s string) [][2]float64 {
	if s == "-" {
		return nil
	}
	parts := strings.Split(s, ",")
	r := make([][2]float64, len(parts))
	for i, p := range parts {
		xy := strings.Split(p, ":")
		r[i] = [2]float64{pF(xy[0]), pF(xy[1])}
	}
	return r
}

func fsTok(l []float64) string {
	if len(l) == 0 {
		return "-"
	}
	p := make([]string, len(l))
	for i, f := range l {
		p[i] = fx(f)
	}
	return strings.Join(p, ",")
}

func c19pairsTok(l [][2]float64) string {
	if len(l) == 0 {
		return "-"
	}
	p := make([]string, len(l))
	for i, f := range l {
		p[i] = fx(f[0]) + ":" + fx(f[1])
	}
	return strings.Join(p, ",")
}

func r1Toks(i r1.Interval) []string { return []string{fx(i.Lo), fx(i.Hi)} }
func s1Toks(i s1.Interval) []string { return []string{fx(i.Lo), fx(i.Hi)} }
func r2Toks(r r2.Rect) []string     { return append(r1Toks(r.X), r1Toks(r.Y)...) }
func llToks(r s2.Rect) []string     { return append(r1Toks(r.Lat), s1Toks(r.Lng)...) }

func init() {
	replayers["f64rem"] = func(a []string) []string {
		return []string{fx(math.Remainder(pF(a[0]), pF(a[1])))}
	}
	replayers["r1"] = func(a []string) []string {
		x := r1.Interval{Lo: pF(a[0]), Hi: pF(a[1])}
		y := r1.Interval{Lo: pF(a[2]), Hi: pF(a[3])}
		m := pF(a[4])
		ps := pFs(a[5])
		var out []string
		out = append(out, r1Toks(x.Union(y))...)
		out = append(out, r1Toks(x.Intersection(y))...)
		out = append(out, bs(x.ContainsInterval(y)), bs(x.InteriorContainsInterval(y)), bs(x.Intersects(y)),
			bs(x.InteriorIntersects(y)), bs(x.Equal(y)))
		out = append(out, r1Toks(x.Expanded(m))...)
		out = append(out, fx(x.Center()), fx(x.Length()))
		for _, p := range ps {
			out = append(out, bs(x.Contains(p)), bs(x.InteriorContains(p)))
			out = append(out, r1Toks(x.AddPoint(p))...)
			if x.IsEmpty() {
				out = append(out, "-")
			} else {
				out = append(out, fx(x.ClampPoint(p)))
			}
		}
		return out
	}
	replayers["s1"] = func(a []string) []string {
		x := s1.Interval{Lo: pF(a[0]), Hi: pF(a[1])}
		y := s1.Interval{Lo: pF(a[2]), Hi: pF(a[3])}
		m := pF(a[4])
		ps := pFs(a[5])
		p0, p1 := 0.0, 0.0
		if len(ps) > 0 {
			p0 = ps[0]
		}
		if len(ps) > 1 {
			p1 = ps[1]
		}
		var out []string
		out = append(out, bs(x.IsValid()), bs(y.IsValid()))
		out = append(out, s1Toks(x.Union(y))...)
		out = append(out, s1Toks(x.Intersection(y))...)
		out = append(out, bs(x.ContainsInterval(y)), bs(x.InteriorContainsInterval(y)), bs(x.Intersects(y)),
			bs(x.InteriorIntersects(y)))
		out = append(out, s1Toks(x.Complement())...)
		out = append(out, s1Toks(x.Expanded(m))...)
		out = append(out, fx(x.Center()), fx(x.Length()), fx(x.ComplementCenter()))
		out = append(out, s1Toks(s1.IntervalFromPointPair(p0, p1))...)
		out = append(out, s1Toks(s1.IntervalFromEndpoints(p0, p1))...)
		for _, p := range ps {
			out = append(out, bs(x.Contains(p)), bs(x.InteriorContains(p)))
			out = append(out, s1Toks(x.AddPoint(p))...)
			if x.IsEmpty() {
				out = append(out, "-")
			} else {
				out = append(out, fx(x.Project(p)))
			}
		}
		return out
	}
	replayers["r2"] = func(a []string) []string {
		x := r2.Rect{X: r1.Interval{Lo: pF(a[0]), Hi: pF(a[1])}, Y: r1.Interval{Lo: pF(a[2]), Hi: pF(a[3])}}
		y := r2.Rect{X: r1.Interval{Lo: pF(a[4]), Hi: pF(a[5])}, Y: r1.Interval{Lo: pF(a[6]), Hi: pF(a[7])}}
		m := r2.Point{X: pF(a[8]), Y: pF(a[9])}
		ps := c19pPairs(a[10])
		var out []string
		out = append(out, bs(x.IsValid()), bs(y.IsValid()))
		out = append(out, r2Toks(x.Union(y))...)
		out = append(out, r2Toks(x.Intersection(y))...)
		out = append(out, bs(x.Contains(y)), bs(x.InteriorContains(y)), bs(x.Intersects(y)), bs(x.InteriorIntersects(y)))
		out = append(out, r2Toks(x.Expanded(m))...)
		for _, q := range ps {
			p := r2.Point{X: q[0], Y: q[1]}
			out = append(out, bs(x.ContainsPoint(p)), bs(x.InteriorContainsPoint(p)))
			out = append(out, r2Toks(x.AddPoint(p))...)
			if x.IsEmpty() {
				out = append(out, "-", "-")
			} else {
				c := x.ClampPoint(p)
				out = append(out, fx(c.X), fx(c.Y))
			}
		}
		return out
	}
	replayers["ll"] = func(a []string) []string {
		x := s2.Rect{Lat: r1.Interval{Lo: pF(a[0]), Hi: pF(a[1])}, Lng: s1.Interval{Lo: pF(a[2]), Hi: pF(a[3])}}
		y := s2.Rect{Lat: r1.Interval{Lo: pF(a[4]), Hi: pF(a[5])}, Lng: s1.Interval{Lo: pF(a[6]), Hi: pF(a[7])}}
		m := s2.LatLng{Lat: s1.Angle(pF(a[8])), Lng: s1.Angle(pF(a[9]))}
		ps := c19pPairs(a[10])
		var out []string
		out = append(out, bs(x.IsValid()), bs(y.IsValid()))
		out = append(out, llToks(x.Union(y))...)
		out = append(out, llToks(x.Intersection(y))...)
		out = append(out, bs(x.Contains(y)), bs(x.Intersects(y)))
		out = append(out, llToks(s2.VerifRectExpanded(x, m))...)
		out = append(out, llToks(x.PolarClosure())...)
		out = append(out, bs(x.IsEmpty()), bs(x.IsFull()), bs(x.IsPoint()))
		for _, q := range ps {
			p := s2.LatLng{Lat: s1.Angle(q[0]), Lng: s1.Angle(q[1])}
			out = append(out, bs(x.ContainsLatLng(p)))
			out = append(out, llToks(x.AddPoint(p))...)
		}
		return out
	}
	generators["c19"] = genC19
}

// ---------------------------------------------------------------- generators

func c19ulps(v float64, k int) float64 {
	for ; k > 0; k-- {
		v = math.Nextafter(v, math.Inf(1))
	}
	for ; k < 0; k++ {
		v = math.Nextafter(v, math.Inf(-1))
	}
	return v
}

func clampAbs(v, lim float64) float64 {
	if v > lim {
		return lim
	}
	if v < -lim {
		return -lim
	}
	return v
}

var c19Specials = []float64{math.Pi, -math.Pi, math.Pi / 2, -math.Pi / 2, 0, math.Copysign(0, -1)}

// circle coordinate in [-π, π]
func (g *G) s1Coord() float64 {
	r := g.rng
	switch r.Intn(10) {
	case 0, 1, 2, 3:
		return clampAbs(c19ulps(c19Specials[r.Intn(len(c19Specials))], r.Intn(5)-2), math.Pi)
	case 4:
		t := []float64{5e-324, 1e-300, 1e-17, 2.220446049250313e-16, 1e-15}[r.Intn(5)]
		if r.Bool() {
			t = -t
		}
		return t
	case 5:
		return clampAbs(math.Pi*float64(r.Intn(9)-4)/4, math.Pi)
	}
	return clampAbs((2*r.Float()-1)*math.Pi, math.Pi)
}

func validS1(lo, hi float64) s1.Interval {
	i := s1.IntervalFromEndpoints(lo, hi)
	if !i.IsValid() {
		panic("generator: invalid s1 interval")
	}
	return i
}

func (g *G) s1Interval() s1.Interval {
	r := g.rng
	switch r.Intn(9) {
	case 0:
		return s1.EmptyInterval()
	case 1:
		return s1.FullInterval()
	case 2:
		p := g.s1Coord()
		return validS1(p, p)
	case 3, 4: // inverted
		a, b := g.s1Coord(), g.s1Coord()
		if a < b {
			a, b = b, a
		}
		return validS1(a, b)
	case 5, 6: // ordinary
		a, b := g.s1Coord(), g.s1Coord()
		if a > b {
			a, b = b, a
		}
		return validS1(a, b)
	}
	return validS1(g.s1Coord(), g.s1Coord())
}

// an interval derived from a: equal, complement, touching / overlapping / nested at an endpoint
func (g *G) s1Derived(a s1.Interval) s1.Interval {
	r := g.rng
	k := r.Intn(5) - 2
	nud := func(v float64) float64 { return clampAbs(c19ulps(v, k), math.Pi) }
	switch r.Intn(9) {
	case 0:
		return a
	case 1:
		return a.Complement()
	case 2:
		return validS1(nud(a.Hi), g.s1Coord())
	case 3:
		return validS1(g.s1Coord(), nud(a.Lo))
	case 4:
		return validS1(nud(a.Lo), nud(a.Hi))
	case 5:
		return validS1(clampAbs(c19ulps(a.Lo, -k), math.Pi), nud(a.Hi))
	case 6:
		return validS1(a.Hi, a.Lo)
	case 7:
		return validS1(nud(a.Hi), nud(a.Lo))
	}
	return validS1(nud(a.Lo), g.s1Coord())
}

func (g *G) s1Probes(a, b s1.Interval) []float64 {
	r := g.rng
	var ps []float64
	add := func(v float64) {
		if math.Abs(v) <= math.Pi {
			ps = append(ps, v)
		}
	}
	for _, e := range []float64{a.Lo, a.Hi, b.Lo, b.Hi} {
		add(e)
		add(c19ulps(e, 1))
		add(c19ulps(e, -1))
	}
	for _, e := range c19Specials {
		add(e)
	}
	add(c19ulps(math.Pi, -1))
	add(c19ulps(-math.Pi, 1))
	add(g.s1Coord())
	add(g.s1Coord())
	// the first two probes also feed IntervalFromPointPair / IntervalFromEndpoints: vary them
	i, j := r.Intn(len(ps)), r.Intn(len(ps))
	ps[0], ps[i] = ps[i], ps[0]
	ps[1], ps[j] = ps[j], ps[1]
	return ps
}

func (g *G) s1Margin(a s1.Interval) float64 {
	r := g.rng
	var m float64
	switch r.Intn(9) {
	case 0:
		m = 0
	case 1:
		m = []float64{5e-324, 1e-17, 1.1102230246251565e-16, 2.220446049e-16, 2.220446049250313e-16, 4.440892098e-16, 1e-15}[r.Intn(7)]
	case 2, 3: // critical: the expansion that just closes the circle (or, negated, just empties the interval)
		l := a.Length()
		if r.Bool() {
			m = (2*math.Pi - l) / 2
		} else {
			m = l / 2
		}
		m = c19ulps(m, r.Intn(9)-4) + float64(r.Intn(5)-2)*2.220446049e-16
	case 4:
		m = []float64{math.Pi / 2, math.Pi, 2 * math.Pi, 4, 10}[r.Intn(5)]
	case 5:
		m = r.Float() * 0.01
	default:
		m = r.Float() * math.Pi
	}
	if m < 0 {
		m = -m
	}
	if r.Intn(10) < 3 {
		m = -m
	}
	return m
}

// line coordinate
func (g *G) r1Coord() float64 {
	r := g.rng
	switch r.Intn(10) {
	case 0, 1, 2:
		sp := []float64{0, math.Copysign(0, -1), 1, -1, 0.5, 2, math.Pi / 2, -math.Pi / 2, math.Pi, -math.Pi}
		return c19ulps(sp[r.Intn(len(sp))], r.Intn(5)-2)
	case 3:
		t := []float64{5e-324, 1e-300, 1e-17, 1e300}[r.Intn(4)]
		if r.Bool() {
			t = -t
		}
		return t
	case 4:
		return float64(r.Intn(9) - 4)
	}
	return (2*r.Float() - 1) * 10
}

func (g *G) r1Interval() r1.Interval {
	r := g.rng
	switch r.Intn(8) {
	case 0:
		return r1.EmptyInterval()
	case 1: // some other empty interval
		a, b := g.r1Coord(), g.r1Coord()
		if a < b {
			a, b = b, a
		}
		return r1.Interval{Lo: a, Hi: b}
	case 2:
		p := g.r1Coord()
		return r1.Interval{Lo: p, Hi: p}
	case 3:
		return r1.Interval{Lo: g.r1Coord(), Hi: g.r1Coord()}
	}
	a, b := g.r1Coord(), g.r1Coord()
	if a > b {
		a, b = b, a
	}
	return r1.Interval{Lo: a, Hi: b}
}

func (g *G) r1Derived(a r1.Interval) r1.Interval {
	r := g.rng
	k := r.Intn(5) - 2
	switch r.Intn(7) {
	case 0:
		return a
	case 1:
		return r1.Interval{Lo: c19ulps(a.Hi, k), Hi: g.r1Coord()}
	case 2:
		return r1.Interval{Lo: g.r1Coord(), Hi: c19ulps(a.Lo, k)}
	case 3:
		return r1.Interval{Lo: c19ulps(a.Lo, k), Hi: c19ulps(a.Hi, k)}
	case 4:
		return r1.Interval{Lo: c19ulps(a.Lo, -k), Hi: c19ulps(a.Hi, k)}
	case 5:
		return r1.Interval{Lo: a.Hi, Hi: a.Lo}
	}
	return r1.Interval{Lo: c19ulps(a.Lo, k), Hi: g.r1Coord()}
}

func (g *G) r1Probes(a, b r1.Interval) []float64 {
	var ps []float64
	for _, e := range []float64{a.Lo, a.Hi, b.Lo, b.Hi} {
		ps = append(ps, e, c19ulps(e, 1), c19ulps(e, -1))
	}
	ps = append(ps, 0, math.Copysign(0, -1), 1, g.r1Coord(), g.r1Coord())
	return ps
}

func (g *G) r1Margin(a r1.Interval) float64 {
	r := g.rng
	var m float64
	switch r.Intn(7) {
	case 0:
		m = 0
	case 1:
		m = []float64{5e-324, 1e-17, 2.220446049250313e-16, 1e-15}[r.Intn(4)]
	case 2:
		m = c19ulps(math.Abs(a.Length())/2, r.Intn(5)-2)
	case 3:
		m = 1e300
	default:
		m = r.Float() * 10
	}
	if m < 0 || math.IsNaN(m) || math.IsInf(m, 0) {
		m = 1
	}
	if r.Intn(10) < 3 {
		m = -m
	}
	return m
}

func (g *G) r2Rect() r2.Rect {
	r := g.rng
	if r.Intn(8) == 0 {
		return r2.EmptyRect()
	}
	for {
		x, y := g.r1Interval(), g.r1Interval()
		if x.IsEmpty() != y.IsEmpty() {
			if r.Bool() {
				continue
			}
			// a non-canonical empty rectangle
			if !x.IsEmpty() {
				x = r1.Interval{Lo: x.Hi + 1, Hi: x.Lo}
			} else {
				y = r1.Interval{Lo: y.Hi + 1, Hi: y.Lo}
			}
			if x.IsEmpty() != y.IsEmpty() {
				continue
			}
		}
		return r2.Rect{X: x, Y: y}
	}
}

// latitude coordinate in [-π/2, π/2]
func (g *G) latCoord() float64 {
	r := g.rng
	switch r.Intn(8) {
	case 0, 1, 2:
		sp := []float64{math.Pi / 2, -math.Pi / 2, 0, math.Copysign(0, -1), math.Pi / 4, -math.Pi / 4, 1, -1}
		return clampAbs(c19ulps(sp[r.Intn(len(sp))], r.Intn(5)-2), math.Pi/2)
	case 3:
		t := []float64{5e-324, 1e-300, 1e-17, 1e-15}[r.Intn(4)]
		if r.Bool() {
			t = -t
		}
		return t
	}
	return clampAbs((2*r.Float()-1)*math.Pi/2, math.Pi/2)
}

func (g *G) latInterval() r1.Interval {
	r := g.rng
	switch r.Intn(6) {
	case 0:
		p := g.latCoord()
		return r1.Interval{Lo: p, Hi: p}
	case 1:
		return r1.Interval{Lo: -math.Pi / 2, Hi: math.Pi / 2}
	case 2:
		if r.Bool() {
			return r1.Interval{Lo: g.latCoord(), Hi: math.Pi / 2}
		}
		return r1.Interval{Lo: -math.Pi / 2, Hi: g.latCoord()}
	}
	a, b := g.latCoord(), g.latCoord()
	if a > b {
		a, b = b, a
	}
	return r1.Interval{Lo: a, Hi: b}
}

func (g *G) llRect() s2.Rect {
	r := g.rng
	var out s2.Rect
	switch r.Intn(10) {
	case 0:
		out = s2.EmptyRect()
	case 1:
		out = s2.FullRect()
	case 2: // non-canonical empty latitude, empty longitude
		a, b := g.latCoord(), g.latCoord()
		if a < b {
			a, b = b, a
		}
		if a == b {
			out = s2.EmptyRect()
		} else {
			out = s2.Rect{Lat: r1.Interval{Lo: a, Hi: b}, Lng: s1.EmptyInterval()}
		}
	case 3:
		out = s2.RectFromLatLng(s2.LatLng{Lat: s1.Angle(g.latCoord()), Lng: s1.Angle(g.s1Coord())})
		if out.Lng.Lo == -math.Pi {
			out.Lng = s1.Interval{Lo: math.Pi, Hi: math.Pi}
		}
	default:
		lat := g.latInterval()
		lng := g.s1Interval()
		for lng.IsEmpty() {
			lng = g.s1Interval()
		}
		out = s2.Rect{Lat: lat, Lng: lng}
	}
	if !out.IsValid() {
		panic("generator: invalid lat-lng rect")
	}
	return out
}

func (g *G) llDerived(a s2.Rect) s2.Rect {
	r := g.rng
	if a.IsEmpty() {
		return g.llRect()
	}
	k := r.Intn(5) - 2
	lat := a.Lat
	switch r.Intn(5) {
	case 0:
	case 1:
		lat = r1.Interval{Lo: clampAbs(c19ulps(a.Lat.Hi, k), math.Pi/2), Hi: math.Max(clampAbs(c19ulps(a.Lat.Hi, k), math.Pi/2), g.latCoord())}
	case 2:
		lat = r1.Interval{Lo: clampAbs(c19ulps(a.Lat.Lo, k), math.Pi/2), Hi: clampAbs(c19ulps(a.Lat.Hi, -k), math.Pi/2)}
	default:
		lat = g.latInterval()
	}
	lng := g.s1Derived(a.Lng)
	out := s2.Rect{Lat: lat, Lng: lng}
	if lat.IsEmpty() || lng.IsEmpty() {
		out = s2.EmptyRect()
	}
	if !out.IsValid() {
		panic("generator: invalid derived lat-lng rect")
	}
	return out
}

func genC19(g *G) {
	r := g.rng
	// math.Remainder self-validation of the soft-float (the only libm-like function of these packages)
	nrem := g.n / 20
	for k := 0; k < nrem; k++ {
		var x float64
		switch r.Intn(6) {
		case 0:
			x = c19ulps(math.Pi*float64(r.Intn(13)-6), r.Intn(7)-3)
		case 1:
			x = (2*r.Float() - 1) * 1e6
		case 2:
			x = []float64{0, math.Copysign(0, -1), 5e-324, -5e-324, 1e300, -1e300, 1e-300}[r.Intn(7)]
		default:
			x = (2*r.Float() - 1) * 4 * math.Pi
		}
		y := 2 * math.Pi
		if r.Intn(8) == 0 {
			y = []float64{1, -3, 0.1, 1e-300, 5e-324, 1e300}[r.Intn(6)]
		}
		g.emit("f64rem", fx(x), fx(y))
	}
	for k := 0; k < g.n; k++ {
		switch k % 10 {
		case 0, 1, 2: // s1
			a := g.s1Interval()
			var b s1.Interval
			if r.Bool() {
				b = g.s1Derived(a)
			} else {
				b = g.s1Interval()
			}
			if r.Intn(4) == 0 {
				a, b = b, a
			}
			if !a.IsValid() || !b.IsValid() {
				panic("generator: invalid s1 operand")
			}
			g.emit("s1", fx(a.Lo), fx(a.Hi), fx(b.Lo), fx(b.Hi), fx(g.s1Margin(a)), fsTok(g.s1Probes(a, b)))
		case 3, 4: // r1
			a := g.r1Interval()
			var b r1.Interval
			if r.Bool() {
				b = g.r1Derived(a)
			} else {
				b = g.r1Interval()
			}
			if r.Intn(4) == 0 {
				a, b = b, a
			}
			g.emit("r1", fx(a.Lo), fx(a.Hi), fx(b.Lo), fx(b.Hi), fx(g.r1Margin(a)), fsTok(g.r1Probes(a, b)))
		case 5, 6: // r2
			a := g.r2Rect()
			b := g.r2Rect()
			if r.Bool() && !a.IsEmpty() {
				b = r2.Rect{X: g.r1Derived(a.X), Y: g.r1Derived(a.Y)}
				if b.X.IsEmpty() != b.Y.IsEmpty() {
					b = r2.EmptyRect()
				}
			}
			xs := g.r1Probes(a.X, b.X)
			ys := g.r1Probes(a.Y, b.Y)
			var ps [][2]float64
			for j := 0; j < 14; j++ {
				ps = append(ps, [2]float64{xs[r.Intn(len(xs))], ys[r.Intn(len(ys))]})
			}
			g.emit("r2", fx(a.X.Lo), fx(a.X.Hi), fx(a.Y.Lo), fx(a.Y.Hi), fx(b.X.Lo), fx(b.X.Hi), fx(b.Y.Lo), fx(b.Y.Hi),
				fx(g.r1Margin(a.X)), fx(g.r1Margin(a.Y)), c19pairsTok(ps))
		default: // lat-lng rect
			a := g.llRect()
			var b s2.Rect
			if r.Bool() {
				b = g.llDerived(a)
			} else {
				b = g.llRect()
			}
			if r.Intn(4) == 0 {
				a, b = b, a
			}
			lats := g.r1Probes(a.Lat, b.Lat)
			lats = append(lats, math.Pi/2, -math.Pi/2, c19ulps(math.Pi/2, 1), c19ulps(-math.Pi/2, -1))
			lngs := g.s1Probes(a.Lng, b.Lng)
			var ps [][2]float64
			for j := 0; j < 16; j++ {
				ps = append(ps, [2]float64{lats[r.Intn(len(lats))], lngs[r.Intn(len(lngs))]})
			}
			mlat := g.r1Margin(a.Lat)
			if math.Abs(mlat) > 10 {
				mlat = math.Copysign(r.Float(), mlat)
			}
			g.emit("ll", fx(a.Lat.Lo), fx(a.Lat.Hi), fx(a.Lng.Lo), fx(a.Lng.Hi), fx(b.Lat.Lo), fx(b.Lat.Hi), fx(b.Lng.Lo), fx(b.Lng.Hi),
				fx(mlat), fx(g.s1Margin(a.Lng)), c19pairsTok(ps))
		}
	}
}
