package main

// C07 — loop / polygon relations and loop nesting.
//
// Token formats
//   point    x,y,z            three float64 bit patterns (16 hex digits each)
//   loop     p;p;…;p          the vertices in order;   `E` = empty loop, `F` = full loop
//   polygon  loop|loop|…      the loops in the order handed to PolygonFromLoops; `-` = no loops
//
// Ops
//   c07const                = OriginPoint() as x y z
//   c07ortho p              = Ortho(p) as x y z
//   rel A B  (loops)        = oi:<4> self:<8> <AB> <aB> <Ab> <ab> st:<8 ints>
//        oi    originInside of A, ¬A, B, ¬B (¬ = Invert() on a clone)
//        self  X.Contains(X), X.Intersects(X) for X = A, ¬A, B, ¬B
//        every combination token (X,Y) is  c1c2i1i2/p1p2p3p4/n1n2/b1,b2  with
//           c1 = X.Contains(Y)  c2 = Y.Contains(X)  i1 = X.Intersects(Y)  i2 = Y.Intersects(X)
//           p… = the same four through single-loop Polygons
//           n1 = X.ContainsNested(Y)  n2 = Y.ContainsNested(X)
//           b1 = X.compareBoundary(Y) b2 = Y.compareBoundary(X)   (`x` when a loop is empty)
//        st    VerifRelationWalkStats(A,B): aCells,bCells,aFree,bFree,edgeFree,subcell,direct,same
//   nest L0 … Lk-1 (loops, insertion order) = ord:<perm> dep:<depths> hole:<flags> par:<parents> last:<lastDescendants> val:<ok|msg>
//   prel P Q (polygons)     = P:<struct> Q:<struct> p:<struct> q:<struct> <PQ> <pQ> <Pq> <pq>
//        struct = ord:<indices into the input loop list>,dep:<depths>,inv:<position in the ORIGINAL polygon order of the loop Polygon.Invert inverted, or -1/E/F>
//        combination token = c1c2i1i2

import (
	"fmt"
	"math"
	"strings"

	"github.com/golang/geo/r3"
	"github.com/golang/geo/s2"
)

// ---------- encoding ----------

func c07pt(p s2.Point) string { return fx(p.X) + "," + fx(p.Y) + "," + fx(p.Z) }

func c07loopTok(pts []s2.Point) string {
	var sb strings.Builder
	for i, p := range pts {
		if i > 0 {
			sb.WriteByte(';')
		}
		sb.WriteString(c07pt(p))
	}
	return sb.String()
}

func c07parsePt(s string) s2.Point {
	f := strings.Split(s, ",")
	return s2.Point{Vector: r3.Vector{X: pF(f[0]), Y: pF(f[1]), Z: pF(f[2])}}
}

func c07parsePts(s string) []s2.Point {
	parts := strings.Split(s, ";")
	pts := make([]s2.Point, len(parts))
	for i, p := range parts {
		pts[i] = c07parsePt(p)
	}
	return pts
}

func c07parseLoop(s string) *s2.Loop {
	switch s {
	case "E":
		return s2.EmptyLoop()
	case "F":
		return s2.FullLoop()
	}
	return s2.LoopFromPoints(c07parsePts(s))
}

func c07clone(l *s2.Loop) *s2.Loop {
	return s2.LoopFromPoints(append([]s2.Point(nil), l.Vertices()...))
}

func c07inverted(l *s2.Loop) *s2.Loop {
	c := c07clone(l)
	c.Invert()
	return c
}

func c07bools(b ...bool) string {
	var sb strings.Builder
	for _, x := range b {
		sb.WriteString(bs(x))
	}
	return sb.String()
}

func c07combo(x, y *s2.Loop) string {
	c := c07bools(x.Contains(y), y.Contains(x), x.Intersects(y), y.Intersects(x))
	px := s2.PolygonFromLoops([]*s2.Loop{c07clone(x)})
	py := s2.PolygonFromLoops([]*s2.Loop{c07clone(y)})
	p := c07bools(px.Contains(py), py.Contains(px), px.Intersects(py), py.Intersects(px))
	n := c07bools(x.ContainsNested(y), y.ContainsNested(x))
	b := "x,x"
	if !x.IsEmpty() && !y.IsEmpty() {
		b = is(s2.VerifLoopCompareBoundary(x, y)) + "," + is(s2.VerifLoopCompareBoundary(y, x))
	}
	return c + "/" + p + "/" + n + "/" + b
}

func c07ints(v ...int) string {
	s := make([]string, len(v))
	for i, x := range v {
		s[i] = is(x)
	}
	if len(s) == 0 {
		return "-"
	}
	return strings.Join(s, ",")
}

func c07parsePolygonLoops(s string) []*s2.Loop {
	if s == "-" {
		return nil
	}
	var ls []*s2.Loop
	for _, t := range strings.Split(s, "|") {
		ls = append(ls, c07parseLoop(t))
	}
	return ls
}

// c07struct describes polygon p relative to the loop objects `base` (pointer identity).
func c07struct(p *s2.Polygon, base []*s2.Loop, inv int) string {
	idx := map[*s2.Loop]int{}
	for i, l := range base {
		idx[l] = i
	}
	var ord, dep []int
	for _, l := range p.Loops() {
		k, ok := idx[l]
		if !ok {
			k = -1
		}
		ord = append(ord, k)
		dep = append(dep, s2.VerifLoopDepth(l))
	}
	return "ord:" + c07ints(ord...) + ",dep:" + c07ints(dep...) + ",inv:" + is(inv)
}

func init() {
	replayers["c07const"] = func(a []string) []string {
		o := s2.OriginPoint()
		return []string{fx(o.X), fx(o.Y), fx(o.Z)}
	}
	replayers["c07ortho"] = func(a []string) []string {
		o := s2.Ortho(c07parsePt(a[0]))
		return []string{fx(o.X), fx(o.Y), fx(o.Z)}
	}
	replayers["rel"] = func(a []string) []string {
		A := c07parseLoop(a[0])
		B := c07parseLoop(a[1])
		nA := c07inverted(A)
		nB := c07inverted(B)
		oi := "oi:" + c07bools(s2.VerifLoopOriginInside(A), s2.VerifLoopOriginInside(nA),
			s2.VerifLoopOriginInside(B), s2.VerifLoopOriginInside(nB))
		self := "self:" + c07bools(A.Contains(A), A.Intersects(A), nA.Contains(nA), nA.Intersects(nA),
			B.Contains(B), B.Intersects(B), nB.Contains(nB), nB.Intersects(nB))
		res := []string{oi, self, c07combo(A, B), c07combo(nA, B), c07combo(A, nB), c07combo(nA, nB)}
		s1, s2_, s3, s4, s5, s6, s7, s8 := s2.VerifRelationWalkStats(A, B)
		res = append(res, "st:"+c07ints(s1, s2_, s3, s4, s5, s6, s7, s8))
		return res
	}
	replayers["nest"] = func(a []string) []string {
		loops := make([]*s2.Loop, len(a))
		idx := map[*s2.Loop]int{}
		for i, t := range a {
			loops[i] = c07parseLoop(t)
			idx[loops[i]] = i
		}
		p := s2.PolygonFromLoops(append([]*s2.Loop(nil), loops...))
		var ord, dep, par, last []int
		var hole []bool
		for k, l := range p.Loops() {
			ord = append(ord, idx[l])
			dep = append(dep, s2.VerifLoopDepth(l))
			hole = append(hole, l.IsHole())
			pk, ok := p.Parent(k)
			if !ok {
				pk = -1
			}
			par = append(par, pk)
			last = append(last, p.LastDescendant(k))
		}
		val := "ok"
		if err := p.Validate(); err != nil {
			val = strings.ReplaceAll(err.Error(), " ", "_")
		}
		return []string{"ord:" + c07ints(ord...), "dep:" + c07ints(dep...), "hole:" + c07bools(hole...),
			"par:" + c07ints(par...), "last:" + c07ints(last...), "val:" + val}
	}
	replayers["prel"] = func(a []string) []string {
		mk := func(tok string) (p, np *s2.Polygon, sp, snp string) {
			base := c07parsePolygonLoops(tok)
			p = s2.PolygonFromLoops(append([]*s2.Loop(nil), base...))
			sp = c07struct(p, base, -1)
			// the complement: an independent copy with the same loop order, inverted by the library
			base2 := c07parsePolygonLoops(tok)
			np = s2.PolygonFromLoops(append([]*s2.Loop(nil), base2...))
			before := append([]*s2.Loop(nil), np.Loops()...)
			wasEmpty, wasFull := np.IsEmpty(), np.IsFull()
			np.Invert()
			inv := -1
			if wasEmpty {
				snp = "F"
				return
			}
			if wasFull {
				snp = "E"
				return
			}
			if np.NumLoops() > 0 {
				for k, l := range before {
					if l == np.Loop(0) {
						inv = k
					}
				}
			}
			snp = c07struct(np, base2, inv)
			return
		}
		P, nP, sP, snP := mk(a[0])
		Q, nQ, sQ, snQ := mk(a[1])
		combo := func(x, y *s2.Polygon) string {
			return c07bools(x.Contains(y), y.Contains(x), x.Intersects(y), y.Intersects(x))
		}
		return []string{"P:" + sP, "Q:" + sQ, "p:" + snP, "q:" + snQ, combo(P, Q), combo(nP, Q), combo(P, nQ), combo(nP, nQ)}
	}
	generators["c07"] = genC07
}

// ---------- loop builders ----------

type c07frame struct{ c, u, v r3.Vector }

func c07mkFrame(c s2.Point) c07frame {
	u := s2.Ortho(c).Vector
	v := c.Vector.Cross(u).Normalize()
	return c07frame{c.Vector, u, v}
}

func (f c07frame) at(theta, r float64) s2.Point {
	sr, cr := math.Sin(r), math.Cos(r)
	d := f.u.Mul(math.Cos(theta)).Add(f.v.Mul(math.Sin(theta)))
	return s2.Point{Vector: f.c.Mul(cr).Add(d.Mul(sr)).Normalize()}
}

// regular n-gon, radius r (radians), rotated by phase
func c07regular(f c07frame, r float64, n int, phase float64) []s2.Point {
	pts := make([]s2.Point, n)
	for k := 0; k < n; k++ {
		pts[k] = f.at(phase+2*math.Pi*float64(k)/float64(n), r)
	}
	return pts
}

// star-shaped loop: monotone angles, radius in [rlo, rhi] (rhi < 90 degrees keeps it simple)
func (g *G) c07star(f c07frame, rlo, rhi float64, n int) []s2.Point {
	pts := make([]s2.Point, n)
	for k := 0; k < n; k++ {
		th := 2 * math.Pi * (float64(k) + 0.8*(g.rng.Float()-0.5)) / float64(n)
		pts[k] = f.at(th, rlo+(rhi-rlo)*g.rng.Float())
	}
	return pts
}

// boundary of the block of cells [i0,i1) x [j0,j1) (units of cells of `level`) on `face`,
// listing EVERY cell vertex on the boundary (counter-clockwise).
func c07cellRect(face, level, i0, j0, i1, j1 int) []s2.Point {
	sz := 1 << uint(30-level)
	cell := func(i, j int) s2.Cell {
		return s2.CellFromCellID(s2.VerifCellIDFromFaceIJ(face, i*sz, j*sz).Parent(level))
	}
	var pts []s2.Point
	for i := i0; i < i1; i++ {
		pts = append(pts, cell(i, j0).Vertex(0))
	}
	for j := j0; j < j1; j++ {
		pts = append(pts, cell(i1-1, j).Vertex(1))
	}
	for i := i1 - 1; i >= i0; i-- {
		pts = append(pts, cell(i, j1-1).Vertex(2))
	}
	for j := j1 - 1; j >= j0; j-- {
		pts = append(pts, cell(i0, j).Vertex(3))
	}
	return pts
}

func c07reverse(p []s2.Point) []s2.Point {
	r := make([]s2.Point, len(p))
	for i := range p {
		r[i] = p[len(p)-1-i]
	}
	return r
}

func c07rotate(p []s2.Point, k int) []s2.Point {
	r := make([]s2.Point, len(p))
	for i := range p {
		r[i] = p[(i+k)%len(p)]
	}
	return r
}

// c07valid: unit length, no duplicate vertices, no antipodal neighbours, no two non-adjacent
// edges touching or crossing (brute force; the library's own Validate does not check crossings).
func c07valid(pts []s2.Point) bool {
	n := len(pts)
	if n < 3 {
		return false
	}
	seen := map[s2.Point]bool{}
	for i, p := range pts {
		if !p.IsUnit() || seen[p] {
			return false
		}
		seen[p] = true
		q := pts[(i+1)%n]
		if p.Vector == q.Vector.Mul(-1) {
			return false
		}
	}
	if n > 1500 {
		return true // constructions used at this size are simple by construction
	}
	for i := 0; i < n; i++ {
		a, b := pts[i], pts[(i+1)%n]
		for j := i + 1; j < n; j++ {
			c, d := pts[j], pts[(j+1)%n]
			cs := s2.CrossingSign(a, b, c, d)
			if cs == s2.Cross {
				return false
			}
		}
	}
	return true
}

var c07centers = []s2.Point{
	{Vector: r3.Vector{X: 0, Y: 0, Z: 1}},
	{Vector: r3.Vector{X: 0, Y: 0, Z: -1}},
	{Vector: r3.Vector{X: 1, Y: 0, Z: 0}},
	{Vector: r3.Vector{X: 0, Y: -1, Z: 0}},
}

func (g *G) c07center() s2.Point {
	r := g.rng
	switch r.Intn(8) {
	case 0:
		return c07centers[r.Intn(len(c07centers))] // poles and face centres
	case 1: // cube corner
		s := func() float64 {
			if r.Bool() {
				return 1
			}
			return -1
		}
		return s2.PointFromCoords(s(), s(), s())
	case 2: // middle of a cube edge (face seam)
		v := [3]float64{1, 1, 0}
		if r.Bool() {
			v[0] = -1
		}
		if r.Bool() {
			v[1] = -1
		}
		k := r.Intn(3)
		v[0], v[1], v[2] = v[k%3], v[(k+1)%3], v[(k+2)%3]
		return s2.PointFromCoords(v[0], v[1], v[2])
	case 3: // near a pole
		return s2.PointFromCoords(1e-3*(r.Float()-0.5), 1e-3*(r.Float()-0.5), 1)
	}
	return s2.PointFromCoords(r.Float()*2-1, r.Float()*2-1, r.Float()*2-1)
}

const c07deg = math.Pi / 180

// vertex counts: small, around the brute-force thresholds (32 for ContainsPoint, 10 for findVertex),
// medium (multi-cell index) and large
func (g *G) c07count(max int) int {
	r := g.rng
	var n int
	switch r.Intn(10) {
	case 0:
		n = 3 + r.Intn(3)
	case 1:
		n = 8 + r.Intn(5)
	case 2:
		n = 30 + r.Intn(6)
	case 3, 4:
		n = 40 + r.Intn(100)
	case 5, 6:
		n = 100 + r.Intn(400)
	case 7, 8:
		n = 300 + r.Intn(900)
	default:
		n = 1000 + r.Intn(3000)
	}
	if n > max {
		n = max
	}
	if n < 3 {
		n = 3
	}
	return n
}

func (g *G) c07emitRel(a, b []s2.Point) {
	at, bt := c07loopTok(a), c07loopTok(b)
	g.emit("rel", at, bt)
}

// budget on n*m for the exact oracle
func (g *G) c07budget() int {
	if g.thorough {
		return 4000000
	}
	return 1000000
}

func (g *G) c07pairCounts() (int, int) {
	bud := g.c07budget()
	n := g.c07count(10000)
	m := g.c07count(10000)
	for n*m > bud {
		if n > m {
			n = n * 2 / 3
		} else {
			m = m * 2 / 3
		}
	}
	return n, m
}

func genC07(g *G) {
	r := g.rng
	if g.shardK == 0 {
		g.emit("c07const")
		// the pair of DESIGN.md §7 D1: 64-gon of radius 20 degrees, concentric 40-gon of radius 1 degree
		f := c07mkFrame(s2.PointFromCoords(1, 0.3, 0.2))
		g.c07emitRel(c07regular(f, 20*c07deg, 64, 0), c07regular(f, 1*c07deg, 40, 0))
		tri := c07regular(f, 10*c07deg, 3, 0)
		g.emit("rel", "E", "E")
		g.emit("rel", "F", "F")
		g.emit("rel", "E", "F")
		g.emit("rel", "F", "E")
		g.emit("rel", "E", c07loopTok(tri))
		g.emit("rel", c07loopTok(tri), "F")
		g.emit("rel", c07loopTok(tri), c07loopTok(tri))
	}
	g.c07towerEnumeration()
	for g.count < g.n {
		kind := r.Intn(100)
		switch {
		case kind < 6:
			g.c07genNest()
		case kind < 9:
			g.c07genPrel()
		case kind < 17:
			g.c07genTowerRandom()
		case kind < 10:
			g.emit("c07ortho", c07pt(g.c07center()))
		default:
			g.c07genRel()
		}
	}
}

func (g *G) c07genRel() {
	r := g.rng
	n, m := g.c07pairCounts()
	c := g.c07center()
	f := c07mkFrame(c)
	switch r.Intn(16) {
	case 0, 1: // concentric regular polygons: nested, both with many index cells (the D1 shape)
		ra := (2 + 60*r.Float()) * c07deg
		rb := ra * (0.02 + 0.9*r.Float())
		if r.Intn(4) == 0 {
			ra = (95 + 80*r.Float()) * c07deg // more than a hemisphere
		}
		g.c07emitRel(c07regular(f, ra, n, r.Float()), c07regular(f, rb, m, r.Float()))
	case 2: // concentric, nearly equal radii: boundaries interleave or cross
		ra := (1 + 40*r.Float()) * c07deg
		rb := ra * (1 + (r.Float()-0.5)*math.Pow(10, -float64(r.Intn(6))))
		g.c07emitRel(c07regular(f, ra, n, r.Float()), c07regular(f, rb, m, r.Float()))
	case 3, 4: // two star-shaped loops at a chosen distance: disjoint / crossing / nested
		ra := (1 + 50*r.Float()) * c07deg
		rb := (1 + 50*r.Float()) * c07deg
		d := r.Float() * (ra + rb) * 1.3
		c2 := f.at(2*math.Pi*r.Float(), d)
		f2 := c07mkFrame(c2)
		g.c07emitRel(g.c07star(f, ra*0.6, ra, n), g.c07star(f2, rb*0.6, rb, m))
	case 5: // regular loops, one or both larger than a hemisphere, arbitrary centres
		ra := (91 + 85*r.Float()) * c07deg
		rb := (1 + 170*r.Float()) * c07deg
		if math.Abs(rb-90*c07deg) < c07deg {
			rb = 80 * c07deg
		}
		f2 := c07mkFrame(g.c07center())
		g.c07emitRel(c07regular(f, ra, n, r.Float()), c07regular(f2, rb, m, r.Float()))
	case 6: // B = every s-th vertex of the regular polygon A (shares many vertices, inside A)
		ra := (1 + 60*r.Float()) * c07deg
		a := c07regular(f, ra, n, r.Float())
		s := 1 + r.Intn(8)
		var b []s2.Point
		for i := 0; i < n; i += s {
			b = append(b, a[i])
		}
		if len(b) >= 3 {
			g.c07emitRel(a, c07rotate(b, r.Intn(len(b))))
		}
	case 7: // B = a chain of A closed by a chord (shared edges, same direction), or the rest of A
		ra := (1 + 60*r.Float()) * c07deg
		a := c07regular(f, ra, n, r.Float())
		i := r.Intn(n)
		l := 2 + r.Intn(n-2)
		var b []s2.Point
		for k := 0; k <= l && k < n-1; k++ {
			b = append(b, a[(i+k)%n])
		}
		if len(b) >= 3 && c07valid(b) {
			if r.Bool() {
				b = c07reverse(b) // opposite direction: B is the complement side
			}
			g.c07emitRel(a, b)
		}
	case 8: // B touches A from outside: shares 1 vertex or 1 edge (reversed)
		ra := (1 + 40*r.Float()) * c07deg
		a := c07regular(f, ra, n, 0)
		i := r.Intn(n)
		th := 2 * math.Pi * float64(i) / float64(n)
		w := math.Pi / float64(n)
		var b []s2.Point
		if r.Bool() {
			b = []s2.Point{a[i], f.at(th-w, ra*1.5), f.at(th+w, ra*1.5)}
		} else {
			b = []s2.Point{a[(i+1)%n], a[i], f.at(th, ra*1.4), f.at(th+2*w, ra*1.4)}
		}
		if m > 8 { // add vertices on the far side so that B has a bigger index
			k := m - len(b)
			if k > 400 {
				k = 400
			}
			last := b[len(b)-1]
			first := b[len(b)-2]
			b = b[:len(b)-2]
			b = append(b, first)
			for q := 1; q <= k; q++ {
				t := float64(q) / float64(k+1)
				mid := first.Vector.Mul(1 - t).Add(last.Vector.Mul(t)).Normalize()
				// bulge outwards
				out := mid.Add(mid.Sub(f.c).Mul(0.3 * math.Sin(math.Pi*t))).Normalize()
				b = append(b, s2.Point{Vector: out})
			}
			b = append(b, last)
		}
		if c07valid(b) {
			g.c07emitRel(a, b)
		}
	case 9: // identical loops, rotated start, reversed
		ra := (1 + 100*r.Float()) * c07deg
		if math.Abs(ra-90*c07deg) < c07deg {
			ra = 70 * c07deg
		}
		if n > 1000 {
			n = 1000
		}
		var a []s2.Point
		if r.Bool() {
			a = c07regular(f, ra, n, r.Float())
		} else {
			a = g.c07star(f, math.Min(ra, 80*c07deg)*0.5, math.Min(ra, 80*c07deg), n)
		}
		b := c07rotate(a, r.Intn(n))
		if r.Intn(3) == 0 {
			b = c07reverse(b)
		}
		g.c07emitRel(a, b)
	case 10, 11: // cells: nested, same, siblings (shared edge, opposite direction), diagonal (one shared vertex)
		level := 1 + r.Intn(20)
		face := r.Intn(6)
		size := 1 << uint(level)
		i, j := r.Intn(size), r.Intn(size)
		if r.Intn(3) == 0 { // at the face boundary
			i = []int{0, size - 1}[r.Intn(2)]
		}
		a := c07cellRect(face, level, i, j, i+1, j+1)
		var b []s2.Point
		switch r.Intn(6) {
		case 0: // same cell
			b = c07rotate(a, r.Intn(4))
		case 1: // a descendant cell touching a corner / edge / interior
			dl := 1 + r.Intn(4)
			if level+dl > 28 {
				dl = 1
			}
			sub := 1 << uint(dl)
			ci, cj := i*sub+[]int{0, sub - 1, r.Intn(sub)}[r.Intn(3)], j*sub+[]int{0, sub - 1, r.Intn(sub)}[r.Intn(3)]
			b = c07cellRect(face, level+dl, ci, cj, ci+1, cj+1)
		case 2: // edge neighbour on the same face
			if i+1 < size {
				b = c07cellRect(face, level, i+1, j, i+2, j+1)
			}
		case 3: // diagonal neighbour
			if i+1 < size && j+1 < size {
				b = c07cellRect(face, level, i+1, j+1, i+2, j+2)
			}
		case 4: // a block of cells of a finer level inside / overlapping / covering the cell
			dl := 1 + r.Intn(3)
			if level+dl > 28 {
				dl = 1
			}
			sub := 1 << uint(dl)
			w, h := 1+r.Intn(sub), 1+r.Intn(sub)
			ci, cj := i*sub+r.Intn(sub-w+1), j*sub+r.Intn(sub-h+1)
			b = c07cellRect(face, level+dl, ci, cj, ci+w, cj+h)
		default: // overlapping blocks of the same grid (boundaries cross at grid vertices or share edges)
			w, h := 1+r.Intn(6), 1+r.Intn(6)
			i0, j0 := r.Intn(size), r.Intn(size)
			if i0+w > size {
				i0 = size - w
			}
			if j0+h > size {
				j0 = size - h
			}
			if i0 >= 0 && j0 >= 0 {
				a = c07cellRect(face, level, i0, j0, i0+w, j0+h)
				di, dj := r.Intn(5)-2, r.Intn(5)-2
				w2, h2 := 1+r.Intn(6), 1+r.Intn(6)
				i1, j1 := i0+di, j0+dj
				if i1 >= 0 && j1 >= 0 && i1+w2 <= size && j1+h2 <= size {
					b = c07cellRect(face, level, i1, j1, i1+w2, j1+h2)
				}
			}
		}
		if b != nil && c07valid(a) && c07valid(b) {
			g.c07emitRel(a, b)
		}
	case 12: // big blocks of cells: long collinear chains of vertices, shared with a nested block
		level := 4 + r.Intn(10)
		face := r.Intn(6)
		size := 1 << uint(level)
		w := 2 + r.Intn(14)
		if w > size {
			w = size
		}
		i0, j0 := r.Intn(size-w+1), r.Intn(size-w+1)
		a := c07cellRect(face, level, i0, j0, i0+w, j0+w)
		w2 := 1 + r.Intn(w)
		i1, j1 := i0+r.Intn(w-w2+1), j0+r.Intn(w-w2+1)
		b := c07cellRect(face, level, i1, j1, i1+w2, j1+w2)
		if r.Intn(3) == 0 {
			b = c07cellRect(face, level+1, 2*i1, 2*j1, 2*(i1+w2), 2*(j1+w2))
		}
		g.c07emitRel(a, b)
	case 13: // special loops
		a := c07regular(f, (1+100*r.Float())*c07deg, g.c07count(200), 0)
		switch r.Intn(4) {
		case 0:
			g.emit("rel", "E", c07loopTok(a))
		case 1:
			g.emit("rel", "F", c07loopTok(a))
		case 2:
			g.emit("rel", c07loopTok(a), "E")
		default:
			g.emit("rel", c07loopTok(a), "F")
		}
	case 14: // small loop deep inside / outside a large multi-cell loop (edge-free cells of A cover B)
		ra := (5 + 50*r.Float()) * c07deg
		rb := ra * math.Pow(10, -1-3*r.Float())
		d := r.Float() * ra * 1.5
		f2 := c07mkFrame(f.at(2*math.Pi*r.Float(), d))
		g.c07emitRel(c07regular(f, ra, n, r.Float()), g.c07star(f2, rb*0.5, rb, m))
	default: // star loop and a regular loop around the same centre: many crossings or nesting
		ra := (1 + 60*r.Float()) * c07deg
		lo := 0.3 + 0.6*r.Float()
		rb := ra * (0.2 + 1.0*r.Float())
		g.c07emitRel(g.c07star(f, ra*lo, ra, n), c07regular(f, rb, m, r.Float()))
	}
}

// ---------- nesting families ----------

// c07family builds a family of non-crossing loops without shared edges: a random laminar
// family described by a forest; every node is a regular or star loop strictly inside its
// parent, siblings in disjoint angular sectors.  Returns the loops (all counter-clockwise
// around their own centre, i.e. every loop is the "small" side).
func (g *G) c07family(maxLoops, maxDepth int, shareVertex bool) [][]s2.Point {
	r := g.rng
	var out [][]s2.Point
	var rec func(c s2.Point, rad float64, depth int)
	rec = func(c s2.Point, rad float64, depth int) {
		if len(out) >= maxLoops {
			return
		}
		f := c07mkFrame(c)
		n := 3 + r.Intn(12)
		if r.Intn(6) == 0 {
			n = 20 + r.Intn(60)
		}
		var pts []s2.Point
		if n < 8 || r.Bool() {
			pts = c07regular(f, rad, n, r.Float())
		} else {
			pts = g.c07star(f, rad*0.8, rad, n)
		}
		out = append(out, pts)
		if depth >= maxDepth {
			return
		}
		// children: k discs of radius < 0.25*rad centred on a circle of radius 0.45*rad (disjoint, inside
		// the inner radius 0.8*rad*cos(pi/n) >= 0.4*rad only if we keep them small: use 0.15*rad at 0.2*rad)
		k := r.Intn(4)
		if depth == 0 && k == 0 {
			k = 1
		}
		for q := 0; q < k; q++ {
			th := 2 * math.Pi * (float64(q) + 0.3*r.Float()) / float64(k)
			var cc s2.Point
			var cr float64
			if k == 1 {
				cc, cr = f.at(th, 0.05*rad), 0.3*rad
			} else {
				cc, cr = f.at(th, 0.22*rad), 0.12*rad
			}
			rec(cc, cr, depth+1)
		}
	}
	tops := 1 + r.Intn(3)
	for t := 0; t < tops; t++ {
		// top-level shells: well separated centres on a great circle, radius <= 20 degrees
		c := s2.PointFromCoords(math.Cos(2*math.Pi*float64(t)/3), math.Sin(2*math.Pi*float64(t)/3), 0.1*r.Float())
		rec(c, (2+18*r.Float())*c07deg, 0)
	}
	_ = shareVertex
	return out
}

func c07perms(n int, f func([]int)) {
	p := make([]int, n)
	for i := range p {
		p[i] = i
	}
	var rec func(k int)
	rec = func(k int) {
		if k == n {
			f(p)
			return
		}
		for i := k; i < n; i++ {
			p[k], p[i] = p[i], p[k]
			rec(k + 1)
			p[k], p[i] = p[i], p[k]
		}
	}
	rec(0)
}

func (g *G) c07genNest() {
	r := g.rng
	var fam [][]s2.Point
	switch r.Intn(5) {
	case 0: // a chain nested up to depth 5 plus siblings
		fam = g.c07family(4+r.Intn(8), 5, false)
	case 4: // tower: concentric spine up to depth 5, siblings with children in the rings, or loops sharing vertices with their parent
		t := g.c07mkTower(c07mkFrame(g.c07center()), (8+27*r.Float())*c07deg, 2+r.Intn(5), r.Bool())
		if r.Bool() {
			g.c07addInscribed(t)
		}
		fam = t.all()
	case 1: // cells: a cell, some of its descendants at several levels (sharing corners only if diagonal)
		level := 2 + r.Intn(10)
		face := r.Intn(6)
		size := 1 << uint(level)
		i, j := r.Intn(size), r.Intn(size)
		fam = append(fam, c07cellRect(face, level, i, j, i+1, j+1))
		// children blocks strictly inside (no shared edges): work on a 8x8 subgrid
		fam = append(fam, c07cellRect(face, level+3, 8*i+1, 8*j+1, 8*i+3, 8*j+3))
		fam = append(fam, c07cellRect(face, level+3, 8*i+3, 8*j+3, 8*i+6, 8*j+6)) // shares one vertex with the previous
		fam = append(fam, c07cellRect(face, level+4, 16*i+7, 16*j+7, 16*i+9, 16*j+9))   // inside the third
		if r.Bool() {
			fam = append(fam, c07cellRect(face, level+3, 8*i+6, 8*j+1, 8*i+7, 8*j+2))
		}
	default:
		fam = g.c07family(2+r.Intn(5), 3, false)
	}
	k := len(fam)
	if k < 2 {
		return
	}
	toks := make([]string, k)
	for i, l := range fam {
		toks[i] = c07loopTok(l)
	}
	emitOrder := func(p []int) {
		a := make([]string, k)
		for i, q := range p {
			a[i] = toks[q]
		}
		g.emit("nest", a...)
	}
	if k <= 4 { // every permutation
		c07perms(k, func(p []int) { emitOrder(append([]int(nil), p...)) })
		return
	}
	for t := 0; t < 6; t++ { // random orders
		p := make([]int, k)
		for i := range p {
			p[i] = i
		}
		for i := k - 1; i > 0; i-- {
			q := r.Intn(i + 1)
			p[i], p[q] = p[q], p[i]
		}
		emitOrder(p)
	}
}

// ---------- polygon pairs (with holes) ----------

func (g *G) c07polyTok(fam [][]s2.Point) string {
	if len(fam) == 0 {
		return "-"
	}
	t := make([]string, len(fam))
	for i, l := range fam {
		t[i] = c07loopTok(l)
	}
	// random insertion order
	for i := len(t) - 1; i > 0; i-- {
		q := g.rng.Intn(i + 1)
		t[i], t[q] = t[q], t[i]
	}
	return strings.Join(t, "|")
}

func (g *G) c07genPrel() {
	r := g.rng
	c := g.c07center()
	f := c07mkFrame(c)
	ring := func(f c07frame, ro, ri float64, n, m int) [][]s2.Point {
		return [][]s2.Point{c07regular(f, ro, n, r.Float()), c07regular(f, ri, m, r.Float())}
	}
	n1, n2 := 5+r.Intn(40), 5+r.Intn(40)
	if r.Intn(4) == 0 {
		n1, n2 = 50+r.Intn(300), 50+r.Intn(300)
	}
	ro := (3 + 17*r.Float()) * c07deg
	var P, Q [][]s2.Point
	switch r.Intn(7) {
	case 0: // annulus vs a disc inside the hole / inside the ring / covering everything
		P = ring(f, ro, ro*0.5, n1, n2)
		rq := ro * []float64{0.3, 0.45, 0.55, 0.8, 1.2}[r.Intn(5)]
		Q = [][]s2.Point{c07regular(f, rq, 3+r.Intn(30), r.Float())}
	case 1: // two annuli: nested rings, interleaved rings
		P = ring(f, ro, ro*0.6, n1, n2)
		s := []float64{0.5, 0.9, 0.3, 1.3}[r.Intn(4)]
		Q = ring(f, ro*s, ro*s*0.7, n2, n1)
	case 2: // annulus with an island in the hole vs a disc
		if r.Intn(3) == 0 {
			// the same at a scale of centimetres: the turning angles of shell and island are then EQUAL in float64 and
			// Polygon.Invert has to choose the loop to invert by its tie-break (seeded change C07_7)
			ro = math.Pow(10, -9+2.5*r.Float())
		}
		P = append(ring(f, ro, ro*0.6, n1, n2), c07regular(f, ro*0.3, 3+r.Intn(10), r.Float()))
		Q = [][]s2.Point{c07regular(f, ro*[]float64{0.2, 0.4, 0.7, 1.1}[r.Intn(4)], 3+r.Intn(30), r.Float())}
	case 3: // two shells vs one shell around both / around one
		f2 := c07mkFrame(f.at(r.Float()*6, ro*2.5))
		P = [][]s2.Point{c07regular(f, ro, n1, r.Float()), c07regular(f2, ro, n2, r.Float())}
		if r.Bool() {
			Q = [][]s2.Point{c07regular(f, ro*4.2, 3+r.Intn(60), r.Float())}
		} else {
			Q = [][]s2.Point{c07regular(f2, ro*1.2, 3+r.Intn(60), r.Float())}
		}
	case 4: // shifted annulus: boundaries cross
		P = ring(f, ro, ro*0.5, n1, n2)
		f2 := c07mkFrame(f.at(r.Float()*6, ro*(0.2+r.Float())))
		Q = ring(f2, ro*0.9, ro*0.3, n2, n1)
	case 5: // empty / full polygons
		P = ring(f, ro, ro*0.5, n1, n2)
		if r.Bool() {
			g.emit("prel", g.c07polyTok(P), "-")
		} else {
			g.emit("prel", "F", g.c07polyTok(P))
		}
		return
	default: // random laminar families
		P = g.c07family(2+r.Intn(5), 3, false)
		Q = g.c07family(1+r.Intn(4), 2, false)
	}
	g.emit("prel", g.c07polyTok(P), g.c07polyTok(Q))
}

// ---------- multi-level polygons ("towers") ----------

// A tower is a laminar family with a concentric spine of `levels` regular loops (radius of level k
// = R*rho^k, so nesting depth up to levels-1) and optional small sibling loops (with their own
// children / grandchildren) in the rings between consecutive spine loops.  Ring k is the region
// between spine loop k and spine loop k+1 (ring levels-1 = the innermost disc, ring -1 = outside
// the shell).  With rho = 0.62 and >= 6 vertices per spine loop ring k spans the radii
// (0.62, 0.924) * r_k around the common centre (spine loops have >= 8 vertices); angular slots 0..5 at 60 degree steps.
const c07rho = 0.62

type c07tower struct {
	f      c07frame
	R      float64
	levels int
	spine  [][]s2.Point
	sibs   map[int][][]s2.Point // ring -> loops placed at slot 0 / 2 of that ring (sibling, child, grandchild)
}

func (t *c07tower) r(k int) float64 { return t.R * math.Pow(c07rho, float64(k)) }

// centre of angular slot j in ring k (k = -1: outside the shell)
func (t *c07tower) slot(k, j int) c07frame {
	rad := 0.84 * t.r(k) // siblings occupy the radii (0.79, 0.89) r_k; concentric B loops stay within (0.66, 0.76) r_k
	if k < 0 {
		rad = 1.5 * t.R
	}
	return c07mkFrame(t.f.at(2*math.Pi*float64(j)/6+0.1, rad))
}

func (t *c07tower) all() [][]s2.Point {
	out := append([][]s2.Point(nil), t.spine...)
	for k := -1; k < t.levels; k++ {
		out = append(out, t.sibs[k]...)
	}
	return out
}

func (g *G) c07mkTower(f c07frame, R float64, levels int, withSibs bool) *c07tower {
	r := g.rng
	t := &c07tower{f: f, R: R, levels: levels, sibs: map[int][][]s2.Point{}}
	for k := 0; k < levels; k++ {
		n := 8 + 2*r.Intn(5) // even, >= 8 (every second vertex is still a valid inscribed loop)
		t.spine = append(t.spine, c07regular(f, t.r(k), n, r.Float()))
	}
	if withSibs {
		for k := 0; k < levels; k++ {
			for _, j := range []int{0, 2} {
				if r.Intn(2) == 0 {
					continue
				}
				sf := t.slot(k, j)
				rad := 0.05 * t.r(k)
				t.sibs[k] = append(t.sibs[k], c07regular(sf, rad, 6+r.Intn(6), r.Float()))
				if r.Bool() { // child, maybe grandchild: deeper nesting off the spine
					t.sibs[k] = append(t.sibs[k], c07regular(sf, rad*0.4, 5+r.Intn(5), r.Float()))
					if r.Bool() {
						t.sibs[k] = append(t.sibs[k], c07regular(sf, rad*0.15, 4+r.Intn(4), r.Float()))
					}
				}
			}
		}
	}
	return t
}

const c07towerKinds = 12

// c07towerB builds polygon B for tower A, ring k (-1..levels-1), placement kind.
func (g *G) c07towerB(t *c07tower, k, kind int) [][]s2.Point {
	r := g.rng
	L := t.levels
	rk := t.R * 1.6 // "ring -1": outside
	if k >= 0 {
		rk = t.r(k)
	}
	conc := func(k int, frac float64, n int) []s2.Point { // concentric loop in ring k
		switch {
		case k < 0:
			return c07regular(t.f, t.R*(1.25+0.5*frac), n, r.Float())
		case k == L-1:
			return c07regular(t.f, t.r(k)*(0.3+0.4*frac), n, r.Float())
		}
		return c07regular(t.f, t.r(k)*(0.68+0.08*frac), n, r.Float())
	}
	switch kind {
	case 0: // concentric loop in ring k: encloses every inner loop, boundary entirely in ring k
		return [][]s2.Point{conc(k, 0.8, 12+r.Intn(8))}
	case 1: // small disc in a free slot of ring k (encloses nothing)
		return [][]s2.Point{c07regular(t.slot(k, 1), 0.08*rk, 5+r.Intn(8), r.Float())}
	case 2: // small disc straddling the boundary of spine loop k (or k+1)
		kk := k
		if kk < 0 {
			kk = 0
		}
		c := t.f.at(2*math.Pi*r.Float(), 0.93*t.r(kk))
		return [][]s2.Point{c07regular(c07mkFrame(c), 0.1*t.r(kk), 5+r.Intn(8), r.Float())}
	case 3: // annulus: outer boundary in ring k, inner boundary in ring k2 >= k
		k2 := k + r.Intn(L-k)
		if k2 < 0 {
			k2 = 0
		}
		if k2 == k {
			return [][]s2.Point{conc(k, 1.0, 14+r.Intn(6)), conc(k, 0.0, 14+r.Intn(6))}
		}
		return [][]s2.Point{conc(k, 0.5, 12+r.Intn(8)), conc(k2, 0.5, 12+r.Intn(8))}
	case 4: // B shares whole loops with A: spine loops k..k2 (a sub-tower: same boundary, maybe opposite sides)
		if k < 0 {
			k = 0
		}
		k2 := k + r.Intn(L-k)
		var b [][]s2.Point
		for q := k; q <= k2; q++ {
			b = append(b, c07rotate(t.spine[q], r.Intn(len(t.spine[q]))))
		}
		return b
	case 5: // B = every second vertex of spine loop k: shares vertices only, lies in ring k
		if k < 0 {
			k = 0
		}
		var b []s2.Point
		for i := 0; i < len(t.spine[k]); i += 2 {
			b = append(b, t.spine[k][i])
		}
		return [][]s2.Point{b}
	case 6: // B is itself a tower whose spine loops lie in rings k, k+1, ... of A (interleaved, both deep)
		var b [][]s2.Point
		for q := k; q < L; q++ {
			b = append(b, conc(q, 0.5, 12+r.Intn(6)))
			if r.Intn(4) == 0 {
				break
			}
		}
		return b
	case 7: // around / inside a sibling of ring k (only if A has one there; else a disc at that slot)
		if k < 0 {
			k = 0
		}
		sf := t.slot(k, 0)
		rad := []float64{0.075, 0.03, 0.012}[r.Intn(3)] * t.r(k) // around the sibling / between sibling and child / between child and grandchild
		return [][]s2.Point{c07regular(sf, rad, 8+r.Intn(6), r.Float())}
	case 8: // B shares a sibling loop of A (or, without siblings, the spine loop) plus a disc elsewhere
		if k < 0 {
			k = 0
		}
		if len(t.sibs[k]) > 0 {
			return [][]s2.Point{t.sibs[k][0], c07regular(t.slot(k, 4), 0.06*t.r(k), 6, r.Float())}
		}
		return [][]s2.Point{t.spine[k]}
	case 9: // several shells: discs in free slots of several rings (no holes on the B side)
		var b [][]s2.Point
		for q := k; q < L; q++ {
			if q >= 0 && (q == k || r.Bool()) {
				b = append(b, c07regular(t.slot(q, 3), 0.07*t.r(q), 5+r.Intn(6), r.Float()))
			}
		}
		if len(b) == 0 {
			b = append(b, c07regular(t.slot(k, 3), 0.07*rk, 6, r.Float()))
		}
		return b
	case 10: // ring k exactly, as an annulus sharing both boundaries with A (k even: part of A; k odd: a hole of A)
		if k < 0 {
			k = 0
		}
		if k+1 < L {
			return [][]s2.Point{t.spine[k], t.spine[k+1]}
		}
		return [][]s2.Point{t.spine[k]}
	default: // annulus around ring boundaries: from ring k to ring k+2 (covers a whole hole / island ring of A)
		if k+2 < L {
			return [][]s2.Point{conc(k, 0.5, 12+r.Intn(8)), conc(k+2, 0.5, 12+r.Intn(8))}
		}
		return [][]s2.Point{conc(k, 0.5, 12+r.Intn(8))}
	}
}

func (g *G) c07emitTower(t *c07tower, k, kind int) {
	A := t.all()
	B := g.c07towerB(t, k, kind)
	for _, l := range B {
		if len(l) < 3 {
			return
		}
	}
	if g.rng.Bool() {
		g.emit("prel", g.c07polyTok(A), g.c07polyTok(B))
	} else {
		g.emit("prel", g.c07polyTok(B), g.c07polyTok(A))
	}
}

// every (levels in {4,6}) x ring x kind once, distributed over the shards
func (g *G) c07towerEnumeration() {
	idx := 0
	for _, L := range []int{4, 6} {
		for k := -1; k < L; k++ {
			for kind := 0; kind < c07towerKinds; kind++ {
				idx++
				if idx%g.shardM != g.shardK {
					continue
				}
				f := c07mkFrame(g.c07center())
				t := g.c07mkTower(f, (12+20*g.rng.Float())*c07deg, L, kind%2 == 1)
				g.c07emitTower(t, k, kind)
			}
		}
	}
}

// c07addInscribed adds, for some spine levels, the loop through every second vertex of the spine
// loop (shares those vertices, lies between spine loop k and k+1): nesting depth up to 2*levels-1,
// shared vertices between parent and child loops (ContainsNested wedge path, findVertex).
func (g *G) c07addInscribed(t *c07tower) {
	for k := 0; k < t.levels; k++ {
		if len(t.sibs[k]) > 0 || g.rng.Bool() {
			continue
		}
		var b []s2.Point
		for i := 0; i < len(t.spine[k]); i += 2 {
			b = append(b, t.spine[k][i])
		}
		t.sibs[k] = append(t.sibs[k], b)
	}
}

func (g *G) c07genTowerRandom() {
	r := g.rng
	L := 1 + r.Intn(6)
	f := c07mkFrame(g.c07center())
	t := g.c07mkTower(f, (8+27*r.Float())*c07deg, L, r.Intn(3) != 0)
	if r.Intn(4) == 0 {
		g.c07addInscribed(t)
	}
	g.c07emitTower(t, r.Intn(L+1)-1, r.Intn(c07towerKinds))
}

var _ = fmt.Sprint
