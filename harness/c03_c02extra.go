package main

// c02tiny — extra generator for property C02 (emits `c02sign` lines, replayer in c02.go).
//
// Triples of (nearly) unit vectors whose mutual separations are FAR below the float resolution of the
// determinant: normalised combinations at scale 2^-k (k = 30 … 1074, not lattice points, so the exact
// determinant is not representable), one vertex moved by a subnormal offset, a short edge with a distant
// third vertex.  This is where stableSign's error bound `detErrorMultiplier*sqrt(|e1|²|e2|²)` used to
// underflow to 0 (finding D24, repaired in the repo by commit cc06be0): rounding noise was returned as
// a definite orientation.  The C02 oracle judges every float stage with "non-zero ⇒ equals the exact sign".

import (
	"math"

	"github.com/golang/geo/s2"
)

// tinyOffset returns p + (u,v,w)*2^-k with the axis-aligned coordinate kept, NOT renormalised
// (|offset| <= 2^-30, so the result stays within the unit-length tolerance).
func (g *G) tinyOffset(p s2.Point, k int) s2.Point {
	r := g.rng
	f := func() float64 {
		switch r.Intn(4) {
		case 0:
			return math.Ldexp(float64(r.Intn(9)-4), -k)
		case 1:
			return math.Ldexp(r.Float()*2-1, -k) // full 53-bit mantissa: off the lattice
		case 2:
			return 0
		}
		return math.Ldexp(float64(r.Intn(5)-2), -1074) // subnormal ulps
	}
	return rawPt(p.X+f(), p.Y+f(), p.Z+f())
}

func genC02Tiny(g *G) {
	r := g.rng
	for it := 0; it < g.n; it++ {
		var a, b, c s2.Point
		k := g.tinyK()
		switch r.Intn(6) {
		case 0, 1: // all three within 2^-k of an axis point, c a normalised combination of a and b (+- ulps)
			perm, sg := r.Intn(6), r.Intn(8)
			base := permAxes(rawPt(1, 0, 0), perm, sg)
			a = g.tinyOffset(base, k)
			b = g.tinyOffset(base, k)
			t := r.Float()
			c = lin(a, b, 1-t, t)
			if r.Bool() {
				c = g.jitter(c, 2)
			}
		case 2: // all three independent tiny offsets of one axis point
			perm, sg := r.Intn(6), r.Intn(8)
			base := permAxes(rawPt(1, 0, 0), perm, sg)
			a, b, c = g.tinyOffset(base, k), g.tinyOffset(base, k), g.tinyOffset(base, k)
		case 3: // b = a moved by subnormal ulps in one or two coordinates, c far away
			a = g.c02Unit()
			b = rawPt(a.X+math.Ldexp(float64(r.Intn(5)-2), -1074), a.Y, a.Z+math.Ldexp(float64(r.Intn(3)-1), -1074))
			if a.X != 0 && a.Z != 0 { // the offsets vanish by rounding unless the coordinate is (sub)zero: force one
				switch r.Intn(3) {
				case 0:
					a = rawPt(0, a.Y, a.Z)
				case 1:
					a = rawPt(a.X, a.Y, 0)
				default:
					a = rawPt(0, a.Y, 0)
				}
				a = s2.Point{Vector: a.Normalize()}
				if a.Norm2() == 0 {
					a = rawPt(0, 1, 0)
				}
				b = rawPt(a.X+math.Ldexp(float64(r.Intn(5)-2), -1074), a.Y, a.Z+math.Ldexp(float64(r.Intn(3)-1), -1074))
			}
			c = g.c02Unit()
		case 4: // short edge 2^-k (any k up to 1074 around an axis), third vertex at a normal distance
			perm, sg := r.Intn(6), r.Intn(8)
			base := permAxes(rawPt(1, 0, 0), perm, sg)
			a = g.tinyOffset(base, k)
			b = g.tinyOffset(base, k)
			c = g.c02Unit()
			if r.Intn(3) == 0 { // nearly on the great circle of the short edge
				c = g.jitter(lin(a, b, r.Float()*4-2, r.Float()*4-2), 2)
			}
		default: // scales around the underflow threshold of |e1|²|e2|² : separations 2^-250 … 2^-280 and 2^-500 … 2^-540
			kk := []int{240 + r.Intn(50), 490 + r.Intn(60)}[r.Intn(2)]
			perm, sg := r.Intn(6), r.Intn(8)
			base := permAxes(rawPt(1, 0, 0), perm, sg)
			a, b = g.tinyOffset(base, kk), g.tinyOffset(base, kk)
			t := r.Float()*3 - 1
			c = g.jitter(lin(a, b, 1-t, t), 2)
		}
		switch r.Intn(3) { // argument order
		case 0:
			a, b, c = b, c, a
		case 1:
			a, c = c, a
		}
		g.emit("c02sign", ptArgs(a, b, c)...)
	}
}

func init() { generators["c02tiny"] = genC02Tiny }
