package main

import (
	"fmt"
	"math"
	"strconv"
	"strings"

	"github.com/golang/geo/s2"
)

// RNG is splitmix64: every random choice derives from the one seed.
type RNG struct{ s uint64 }

func newRNG(seed uint64) *RNG { return &RNG{s: seed} }
func (r *RNG) U64() uint64 {
	r.s += 0x9E3779B97F4A7C15
	z := r.s
	z = (z ^ (z >> 30)) * 0xBF58476D1CE4E5B9
	z = (z ^ (z >> 27)) * 0x94D049BB133111EB
	return z ^ (z >> 31)
}
func (r *RNG) Intn(n int) int {
	if n <= 0 {
		return 0
	}
	return int(r.U64() % uint64(n))
}
func (r *RNG) Float() float64 { return float64(r.U64()>>11) / (1 << 53) }
func (r *RNG) Bool() bool     { return r.U64()&1 == 1 }
func (r *RNG) Range(lo, hi int) int {
	return lo + r.Intn(hi-lo+1)
}

func hx(x uint64) string      { return fmt.Sprintf("%016x", x) }
func fx(f float64) string     { return hx(math.Float64bits(f)) }
func idx(c s2.CellID) string  { return hx(uint64(c)) }
func bs(b bool) string {
	if b {
		return "T"
	}
	return "F"
}
func is(i int) string     { return strconv.Itoa(i) }
func i64s(i int64) string { return strconv.FormatInt(i, 10) }
func strTok(s string) string {
	if s == "" {
		return "~"
	}
	return s
}
func tokStr(s string) string {
	if s == "~" {
		return ""
	}
	return s
}
func ids(l []s2.CellID) string {
	if len(l) == 0 {
		return "-"
	}
	p := make([]string, len(l))
	for i, c := range l {
		p[i] = idx(c)
	}
	return strings.Join(p, ",")
}
func pU64(s string) uint64 {
	v, err := strconv.ParseUint(s, 16, 64)
	if err != nil {
		panic("bad hex " + s)
	}
	return v
}
func pF(s string) float64 { return math.Float64frombits(pU64(s)) }
func pI(s string) int {
	v, err := strconv.Atoi(s)
	if err != nil {
		panic("bad int " + s)
	}
	return v
}
func pI64(s string) int64 {
	v, err := strconv.ParseInt(s, 10, 64)
	if err != nil {
		panic("bad int64 " + s)
	}
	return v
}
func pIDs(s string) []s2.CellID {
	if s == "-" {
		return nil
	}
	parts := strings.Split(s, ",")
	r := make([]s2.CellID, len(parts))
	for i, p := range parts {
		r[i] = s2.CellID(pU64(p))
	}
	return r
}
func pt(x, y, z float64) s2.Point { return s2.PointFromCoords(x, y, z) }
