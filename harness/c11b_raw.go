//go:build verif
// (optional op `cidx_raw`: needs the export hook s2/verif_export_c11b.go in the repo; build the harness
// with `-tags "verif c11braw"` to enable it.  Without this tag the c11b generator skips the op.)

package main

import (
	"strconv"

	"github.com/golang/geo/s2"
)

// cidx_raw dumps the unexported cellTree / rangeNodes of a built CellIndex through the export hook
// s2.VerifCellIndexDump (file s2/verif_export_c11b.go, build tag verif).  The c11b generator emits
// this op only when this file is compiled in.
func init() {
	replayers["cidx_raw"] = func(a []string) []string {
		ix := buildIndex(pPairs(a[0]))
		cells, labels, parents, starts, contents := s2.VerifCellIndexDump(ix)
		t := make([]string, len(cells))
		for i := range cells {
			t[i] = idx(cells[i]) + "/" + strconv.Itoa(int(labels[i])) + "/" + strconv.Itoa(int(parents[i]))
		}
		r := make([]string, len(starts))
		for i := range starts {
			r[i] = idx(starts[i]) + "/" + strconv.Itoa(int(contents[i]))
		}
		return []string{dashJoin(t), dashJoin(r)}
	}
}
