package main

// C05: coverings cover, interior coverings are contained, level limits are honoured.
//
// ops
//   cov  <kind> <params> <MinLevel> <MaxLevel> <LevelMod> <MaxCells> <ops> <pts>
//        = <bound> <start> <Covering> <InteriorCovering> <CellUnion> <InteriorCellUnion> <FastCovering>
//   pred <kind> <params> <cellid> <samples> = <ContainsCell> <IntersectsCell>
// kinds / params: see lean/Oracle/C05.lean.
//
// generators: c05 (cov + pred lines), c05s18 (configurations that drive normalizeCovering into its
// "re-cover with default options" branch; kept apart because the level discipline fails there),
// c05hemi (caps within 1e-7 rad - 1 sample in 4: 1e-5 rad - of a hemisphere reaching over the middle of a cell edge: defect D59).

import (
	"fmt"
	"math"
	"os"
	"strings"
	"time"

	"github.com/golang/geo/r1"
	"github.com/golang/geo/r3"
	"github.com/golang/geo/s1"
	"github.com/golang/geo/s2"
)

// cubRegion is a user-defined Region: a CellUnion whose CellUnionBound() is its own cell list.
type cubRegion struct{ *s2.CellUnion }

func (c cubRegion) CellUnionBound() []s2.CellID {
	return append([]s2.CellID(nil), (*c.CellUnion)...)
}

func c5Pt(p s2.Point) string { return fx(p.X) + ":" + fx(p.Y) + ":" + fx(p.Z) }
func c5Pts(ps []s2.Point) string {
	if len(ps) == 0 {
		return "-"
	}
	t := make([]string, len(ps))
	for i, p := range ps {
		t[i] = c5Pt(p)
	}
	return strings.Join(t, ";")
}
func parsePtTok(s string) s2.Point {
	f := strings.Split(s, ":")
	if len(f) != 3 {
		panic("bad point " + s)
	}
	return s2.Point{Vector: r3.Vector{X: pF(f[0]), Y: pF(f[1]), Z: pF(f[2])}}
}
func parsePtsTok(s string) []s2.Point {
	if s == "-" {
		return nil
	}
	parts := strings.Split(s, ";")
	r := make([]s2.Point, len(parts))
	for i, p := range parts {
		r[i] = parsePtTok(p)
	}
	return r
}

// c05Region rebuilds the region object from its line tokens.
func c05Region(kind, params string) s2.Region {
	switch kind {
	case "cap":
		f := strings.Split(params, ":")
		c := s2.Point{Vector: r3.Vector{X: pF(f[0]), Y: pF(f[1]), Z: pF(f[2])}}
		return s2.CapFromCenterChordAngle(c, s1.ChordAngle(pF(f[3])))
	case "rect":
		f := strings.Split(params, ":")
		return s2.Rect{Lat: r1.Interval{Lo: pF(f[0]), Hi: pF(f[1])}, Lng: s1.Interval{Lo: pF(f[2]), Hi: pF(f[3])}}
	case "cell":
		return s2.CellFromCellID(s2.CellID(pU64(params)))
	case "cu":
		cu := s2.CellUnion(pIDs(params))
		return &cu
	case "cub":
		cu := s2.CellUnion(pIDs(params))
		return cubRegion{&cu}
	case "loop":
		return s2.LoopFromPoints(parsePtsTok(params))
	case "poly":
		var loops []*s2.Loop
		for _, l := range strings.Split(params, "|") {
			loops = append(loops, s2.LoopFromPoints(parsePtsTok(l)))
		}
		return s2.PolygonFromLoops(loops)
	case "pline":
		pl := s2.Polyline(parsePtsTok(params))
		return &pl
	case "point":
		return parsePtTok(params)
	}
	panic("bad region kind " + kind)
}

func clampI(x, lo, hi int) int {
	if x < lo {
		return lo
	}
	if x > hi {
		return hi
	}
	return x
}

// c05Watchdog is the per-line time limit: normalizeCovering used to spin forever on some bounds.
const c05Watchdog = 20 * time.Second

func replayCov(a []string) []string {
	done := make(chan []string, 1)
	go func() { done <- safely(func() []string { return replayCovInner(a) }) }()
	select {
	case r := <-done:
		return r
	case <-time.After(c05Watchdog):
		return []string{"HANG"}
	}
}

func replayCovInner(a []string) []string {
	region := c05Region(a[0], a[1])
	rc := &s2.RegionCoverer{MinLevel: pI(a[2]), MaxLevel: pI(a[3]), LevelMod: pI(a[4]), MaxCells: pI(a[5])}
	ops := a[6]
	bound := region.CellUnionBound()
	temp := &s2.RegionCoverer{MaxLevel: clampI(rc.MaxLevel, 0, 30), LevelMod: 1, MaxCells: minI(4, rc.MaxCells)}
	start := temp.FastCovering(region)
	cov, icov, cu, icu, fast := "x", "x", "x", "x", "x"
	if strings.Contains(ops, "C") {
		cov = ids(rc.Covering(region))
		cu = ids(rc.CellUnion(region))
	}
	if strings.Contains(ops, "I") {
		icov = ids(rc.InteriorCovering(region))
		icu = ids(rc.InteriorCellUnion(region))
	}
	if strings.Contains(ops, "F") {
		fast = ids(rc.FastCovering(region))
	}
	return []string{ids(bound), ids(start), cov, icov, cu, icu, fast}
}

func replayPred(a []string) []string {
	region := c05Region(a[0], a[1])
	cell := s2.CellFromCellID(s2.CellID(pU64(a[2])))
	res := []string{bs(region.ContainsCell(cell)), bs(region.IntersectsCell(cell))}
	if a[0] == "rect" { // Go's own Rect.ContainsPoint on every sample: the oracle has no exact test for rectangles
		var fl strings.Builder
		for _, p := range parsePtsTok(a[3]) {
			fl.WriteString(bs(region.ContainsPoint(p)))
		}
		res = append(res, fl.String())
	}
	return res
}

func init() {
	replayers["cov"] = replayCov
	replayers["pred"] = replayPred
	replayers["predx"] = replayPred
	generators["c05x"] = func(g *G) {
		c05PredOp = "predx"
		for g.count < g.n {
			g.c05PredBatch()
		}
	}
	generators["c05"] = genC05
	// c06lcell (property C06: "whether a polygon contains or meets a cell" = brute force): loops and polygons of LARGE radius —
	// long edges that span several cube faces — under coarse coverer configurations (InteriorCovering asks ContainsCell, Covering
	// asks IntersectsCell) and pred lines for low-level cells at and around their vertices (seeded change C06_6: edges no longer
	// clipped to the face of the target cell).
	generators["c06lcell"] = func(g *G) {
		r := g.rng
		for g.count < g.n {
			kind := []string{"loop", "loop", "starloop", "poly"}[r.Intn(4)]
			rad := 0.25 + 1.2*r.Float()
			if r.Intn(5) == 0 {
				rad = math.Pow(10, -3+2.5*r.Float())
			}
			reg := g.c05MakeRegion(kind, g.c05Center(), rad)
			if reg == nil {
				continue
			}
			cfg := c05Cfg{r.Intn(3), 2 + r.Intn(5), 1, 8 + r.Intn(40)}
			g.c05Emit(reg, cfg, false)
			for k := 0; k < 6 && g.count < g.n; k++ {
				p := g.c05Center()
				if len(reg.pts) > 0 && r.Intn(3) > 0 {
					p = reg.pts[r.Intn(len(reg.pts))]
				}
				id := s2.VerifCellIDFromPoint(p).Parent(r.Intn(8))
				if r.Intn(3) == 0 {
					id = id.EdgeNeighbors()[r.Intn(4)]
				}
				g.emitPred(reg.kind, reg.params, id)
			}
		}
	}
	generators["c05s18"] = genC05S18
	generators["c05polar"] = genC05Polar
	generators["c05hemi"] = genC05Hemi
}

// ---------------------------------------------------------------- regions

type c05Reg struct {
	kind, params string
	region       s2.Region
	pts          []s2.Point // points of the region by construction (Go's ContainsPoint agreed where it can)
	mid          []s2.Point // polyline edge midpoints: only used when cells are coarse
	area, perim  float64    // rough, for the cost estimate
}

func unit3(x, y, z float64) s2.Point { return s2.Point{Vector: r3.Vector{X: x, Y: y, Z: z}.Normalize()} }

// c05Center: poles, antimeridian, cube corners / edges / face centres, random; sometimes nudged.
func (g *G) c05Center() s2.Point {
	r := g.rng
	sg := func() float64 {
		if r.Bool() {
			return 1
		}
		return -1
	}
	var p s2.Point
	switch r.Intn(9) {
	case 0:
		p = unit3(0, 0, sg())
	case 1: // antimeridian
		lat := (r.Float() - 0.5) * math.Pi
		p = s2.PointFromLatLng(s2.LatLng{Lat: s1.Angle(lat), Lng: s1.Angle(math.Pi)})
	case 2: // cube corner
		p = unit3(sg(), sg(), sg())
	case 3: // cube edge midpoint or a point on a cube edge
		v := [3]float64{sg(), sg(), 0}
		if r.Bool() {
			v[2] = r.Float()*2 - 1
		}
		k := r.Intn(3)
		v[2], v[k] = v[k], v[2]
		p = unit3(v[0], v[1], v[2])
	case 4: // face centre
		v := [3]float64{sg(), 0, 0}
		k := r.Intn(3)
		v[0], v[k] = v[k], v[0]
		p = unit3(v[0], v[1], v[2])
	case 5: // a cell vertex / centre of a random cell
		c := s2.CellFromCellID(g.randCell())
		if r.Bool() {
			p = c.Vertex(r.Intn(4))
		} else {
			p = c.Center()
		}
	default:
		p = unit3(r.Float()*2-1, r.Float()*2-1, r.Float()*2-1)
		if p.X == 0 && p.Y == 0 && p.Z == 0 {
			p = unit3(1, 0, 0)
		}
	}
	if r.Intn(3) == 0 { // small displacement, comparable to tiny regions
		e := math.Pow(10, -3-6*r.Float())
		p = unit3(p.X+e*(r.Float()-0.5), p.Y+e*(r.Float()-0.5), p.Z+e*(r.Float()-0.5))
	}
	return p
}

// frame returns two unit vectors orthogonal to c and to each other.
func frame(c s2.Point) (s2.Point, s2.Point) {
	e1 := s2.Point{Vector: c.Ortho()}
	e2 := s2.Point{Vector: c.Cross(e1.Vector).Normalize()}
	return e1, e2
}

// onCircle: the point at angular distance a from c in direction t.
func onCircle(c, e1, e2 s2.Point, a, t float64) s2.Point {
	v := c.Mul(math.Cos(a)).Add(e1.Mul(math.Sin(a) * math.Cos(t))).Add(e2.Mul(math.Sin(a) * math.Sin(t)))
	return s2.Point{Vector: v.Normalize()}
}

func circlePoints(c s2.Point, rad float64, fracs []float64, dirs int, phase float64) []s2.Point {
	e1, e2 := frame(c)
	var ps []s2.Point
	for _, f := range fracs {
		for k := 0; k < dirs; k++ {
			ps = append(ps, onCircle(c, e1, e2, f*rad, phase+2*math.Pi*float64(k)/float64(dirs)))
		}
	}
	return ps
}

func keepContained(region s2.Region, ps []s2.Point) []s2.Point {
	var out []s2.Point
	for _, p := range ps {
		if region.ContainsPoint(p) {
			out = append(out, p)
		}
	}
	return out
}

func midpoint(a, b s2.Point) s2.Point { return s2.Point{Vector: a.Add(b.Vector).Normalize()} }

func cellPoints(id s2.CellID) []s2.Point {
	c := s2.CellFromCellID(id)
	var ps []s2.Point
	for k := 0; k < 4; k++ {
		ps = append(ps, c.Vertex(k), c.VertexRaw(k), midpoint(c.Vertex(k), c.Vertex((k+1)&3)))
		// a point a quarter of the way from the centre to the vertex (well inside)
		ps = append(ps, s2.Point{Vector: c.Center().Mul(3).Add(c.Vertex(k).Vector).Normalize()})
	}
	ps = append(ps, c.Center())
	return ps
}

func levelForRadius(rad float64) int {
	if rad <= 0 {
		return 30
	}
	return clampI(int(math.Round(math.Log2(1.2/rad))), 0, 30)
}

// c05MakeRegion builds a region of the wanted kind of angular size about rad around c.
func (g *G) c05MakeRegion(kind string, c s2.Point, rad float64) *c05Reg {
	r := g.rng
	fr := []float64{0.1, 0.5, 0.9, 0.999}
	switch kind {
	case "cap":
		var ch s1.ChordAngle
		reg := &c05Reg{kind: "cap"}
		switch {
		case rad < 0:
			ch = s1.NegativeChordAngle
		case rad >= math.Pi:
			ch = s1.StraightChordAngle
			reg.area, reg.perim = 4*math.Pi, 0
		default:
			ch = s1.ChordAngleFromAngle(s1.Angle(rad))
			reg.area, reg.perim = 2*math.Pi*(1-math.Cos(rad)), 2*math.Pi*math.Sin(rad)
		}
		cp := s2.CapFromCenterChordAngle(c, ch)
		reg.params = c5Pt(c) + ":" + fx(float64(ch))
		reg.region = cp
		if rad >= 0 {
			ps := append([]s2.Point{c}, circlePoints(c, math.Min(rad, math.Pi), fr, 8, r.Float())...)
			if rad >= math.Pi {
				ps = append(ps, s2.Point{Vector: c.Mul(-1)}, unit3(1, 1, 1), unit3(-1, 0, 0), unit3(0, 0, -1))
			}
			reg.pts = keepContained(cp, ps)
		}
		return reg
	case "rect":
		reg := &c05Reg{kind: "rect"}
		var rect s2.Rect
		switch {
		case rad < 0:
			rect = s2.EmptyRect()
		case rad >= math.Pi:
			rect = s2.FullRect()
			reg.area = 4 * math.Pi
		default:
			ll := s2.LatLngFromPoint(c)
			dlat := rad
			dlng := rad / math.Max(0.05, math.Cos(ll.Lat.Radians()))
			switch r.Intn(6) {
			case 0: // touches / contains a pole
				if ll.Lat > 0 {
					rect = s2.Rect{Lat: r1.Interval{Lo: math.Pi/2 - 2*rad, Hi: math.Pi / 2}, Lng: s1.IntervalFromEndpoints(ll.Lng.Radians(), math.Remainder(ll.Lng.Radians()+math.Min(2*dlng, 6), 2*math.Pi))}
				} else {
					rect = s2.Rect{Lat: r1.Interval{Lo: -math.Pi / 2, Hi: -math.Pi/2 + 2*rad}, Lng: s1.FullInterval()}
				}
				if rect.Lat.Lo < -math.Pi/2 {
					rect.Lat.Lo = -math.Pi / 2
				}
				if rect.Lat.Hi > math.Pi/2 {
					rect.Lat.Hi = math.Pi / 2
				}
			case 1: // degenerate: a latitude segment or a meridian segment
				if math.Abs(math.Abs(ll.Lat.Radians())-math.Pi/4) < 1e-6 {
					// the parallel at 45 degrees touches four cube edges from one side only (depth 3e-17 for the
					// float value of pi/4): whether it "intersects" the cells across the edge is below float resolution
					ll.Lat += 1e-5
				}
				if r.Bool() {
					rect = s2.RectFromCenterSize(ll, s2.LatLng{Lat: 0, Lng: s1.Angle(2 * dlng)})
				} else {
					rect = s2.RectFromCenterSize(ll, s2.LatLng{Lat: s1.Angle(2 * dlat), Lng: 0})
				}
			default:
				rect = s2.RectFromCenterSize(ll, s2.LatLng{Lat: s1.Angle(2 * dlat), Lng: s1.Angle(2 * dlng)})
			}
			if !rect.IsValid() {
				rect = s2.RectFromLatLng(ll)
			}
			reg.area = rect.Area()
			reg.perim = 2*rect.Lat.Length() + 2*rect.Lng.Length()
		}
		reg.params = fx(rect.Lat.Lo) + ":" + fx(rect.Lat.Hi) + ":" + fx(rect.Lng.Lo) + ":" + fx(rect.Lng.Hi)
		reg.region = rect
		if !rect.IsEmpty() {
			var ps []s2.Point
			fs := []float64{0, 0.25, 0.5, 0.75, 1}
			for _, a := range fs {
				for _, b := range fs {
					lat := rect.Lat.Lo + a*rect.Lat.Length()
					lng := math.Remainder(rect.Lng.Lo+b*rect.Lng.Length(), 2*math.Pi)
					if a == 1 {
						lat = rect.Lat.Hi
					}
					if b == 1 {
						lng = rect.Lng.Hi
					}
					ps = append(ps, s2.PointFromLatLng(s2.LatLng{Lat: s1.Angle(lat), Lng: s1.Angle(lng)}))
				}
			}
			reg.pts = keepContained(rect, ps)
		}
		return reg
	case "cell":
		lvl := levelForRadius(rad)
		id := s2.VerifCellIDFromPoint(c).Parent(lvl)
		cell := s2.CellFromCellID(id)
		return &c05Reg{kind: "cell", params: idx(id), region: cell, pts: cellPoints(id),
			area: cell.ApproxArea(), perim: 4 * math.Sqrt(cell.ApproxArea())}
	case "cu", "cub":
		lvl := levelForRadius(rad)
		var cu s2.CellUnion
		if rad >= math.Pi {
			for f := 0; f < 6; f++ {
				cu = append(cu, s2.CellIDFromFace(f))
			}
		} else {
			maxCells := 1 + r.Intn(12)
			if kind == "cub" {
				maxCells = 1 + r.Intn(7)
			}
			top := 30
			if kind == "cub" {
				// a leaf cell in a user-supplied bound can make normalizeCovering spin forever
				// (replaceCellsWithAncestor never removes the first leaf of the ancestor): see DELIVER.md
				top = 29
			}
			rc := &s2.RegionCoverer{MaxLevel: minI(top, lvl+1+r.Intn(3)), LevelMod: 1, MaxCells: maxCells}
			cu = rc.Covering(s2.CapFromCenterAngle(c, s1.Angle(rad)))
			if len(cu) > 2 && r.Bool() { // drop some cells: holes, several components
				var keep s2.CellUnion
				for _, id := range cu {
					if r.Intn(3) != 0 {
						keep = append(keep, id)
					}
				}
				if len(keep) > 0 {
					cu = keep
				}
			}
			if r.Intn(4) == 0 { // add a far-away cell
				cu = append(cu, g.randCellAt(clampI(lvl+r.Intn(3)-1, 0, top)))
			}
			cu.Normalize()
		}
		if len(cu) > 24 {
			cu = cu[:24]
		}
		reg := &c05Reg{kind: kind, params: ids(cu)}
		cp := append(s2.CellUnion(nil), cu...)
		if kind == "cub" {
			reg.region = cubRegion{&cp}
		} else {
			reg.region = &cp
		}
		for _, id := range cu {
			reg.pts = append(reg.pts, cellPoints(id)...)
			a := s2.CellFromCellID(id).ApproxArea()
			reg.area += a
			reg.perim += 4 * math.Sqrt(a)
		}
		return reg
	case "loop", "starloop":
		reg := &c05Reg{kind: "loop"}
		var vs []s2.Point
		switch {
		case rad < 0:
			vs = []s2.Point{s2.EmptyLoop().Vertex(0)}
		case rad >= math.Pi:
			vs = []s2.Point{s2.FullLoop().Vertex(0)}
			reg.area = 4 * math.Pi
		default:
			rad = math.Min(rad, 1.4)
			n := []int{3, 4, 5, 6, 8, 13, 16, 32, 64}[r.Intn(9)]
			e1, e2 := frame(c)
			ph := r.Float()
			if kind == "starloop" {
				n = 2 * (3 + r.Intn(6))
			}
			for k := 0; k < n; k++ {
				a := rad
				if kind == "starloop" && k%2 == 1 {
					a = rad * (0.3 + 0.4*r.Float())
				}
				vs = append(vs, onCircle(c, e1, e2, a, ph+2*math.Pi*float64(k)/float64(n)))
			}
			reg.area, reg.perim = 2*math.Pi*(1-math.Cos(rad)), 2*math.Pi*math.Sin(rad)*1.5
		}
		l := s2.LoopFromPoints(vs)
		reg.params = c5Pts(vs)
		reg.region = l
		if rad >= 0 {
			ps := []s2.Point{c}
			if len(vs) > 1 {
				for i, v := range vs {
					ps = append(ps, v, midpoint(v, vs[(i+1)%len(vs)]))
					ps = append(ps, s2.Point{Vector: c.Mul(0.002).Add(v.Mul(0.998)).Normalize()}) // just inside the vertex
				}
				ps = append(ps, circlePoints(c, rad*math.Cos(math.Pi/float64(len(vs)))*0.6, []float64{0.2, 0.6, 1}, 6, r.Float())...)
			} else {
				ps = append(ps, unit3(1, 1, 1), unit3(-1, 0, 0), unit3(0, 0, -1), unit3(0, 0, 1))
			}
			if len(ps) > 120 {
				ps = ps[:120]
			}
			reg.pts = keepContained(l, ps)
		}
		return reg
	case "poly":
		rad = math.Min(rad, 1.4)
		n := []int{3, 4, 6, 12, 30}[r.Intn(5)]
		m := []int{3, 4, 7}[r.Intn(3)]
		e1, e2 := frame(c)
		ph := r.Float()
		hole := rad * (0.2 + 0.4*r.Float())
		var shell, hl []s2.Point
		for k := 0; k < n; k++ {
			shell = append(shell, onCircle(c, e1, e2, rad, ph+2*math.Pi*float64(k)/float64(n)))
		}
		for k := 0; k < m; k++ {
			hl = append(hl, onCircle(c, e1, e2, hole, 2*ph+2*math.Pi*float64(k)/float64(m)))
		}
		params := c5Pts(shell) + "|" + c5Pts(hl)
		loops := []*s2.Loop{s2.LoopFromPoints(shell), s2.LoopFromPoints(hl)}
		if r.Intn(3) == 0 { // a second shell inside the hole
			var in []s2.Point
			for k := 0; k < 4; k++ {
				in = append(in, onCircle(c, e1, e2, hole*0.3, 2*math.Pi*float64(k)/4))
			}
			params += "|" + c5Pts(in)
			loops = append(loops, s2.LoopFromPoints(in))
		}
		poly := s2.PolygonFromLoops(loops)
		reg := &c05Reg{kind: "poly", params: params, region: poly,
			area: 2 * math.Pi * (1 - math.Cos(rad)), perim: 2 * math.Pi * (math.Sin(rad) + math.Sin(hole)) * 1.3}
		ps := []s2.Point{c}
		for i, v := range shell {
			ps = append(ps, v, midpoint(v, shell[(i+1)%n]))
		}
		for i, v := range hl {
			ps = append(ps, v, midpoint(v, hl[(i+1)%m]))
		}
		inr := rad * math.Cos(math.Pi/float64(n))
		ps = append(ps, circlePoints(c, 1, []float64{(hole + inr) / 2, hole*0.05 + inr*0.95, hole * 1.02, hole * 0.2}, 8, r.Float())...)
		reg.pts = keepContained(poly, ps)
		return reg
	case "pline":
		n := 2 + r.Intn(12)
		e1, e2 := frame(c)
		dir := 2 * math.Pi * r.Float()
		var vs []s2.Point
		for k := 0; k < n; k++ {
			t := (float64(k)/float64(n-1) - 0.5) * 2 * rad
			off := 0.0
			if r.Intn(3) == 0 {
				off = rad * 0.2 * (r.Float() - 0.5)
			}
			// along the great circle through c in direction dir, with a sideways wiggle
			p := c.Mul(math.Cos(t)).Add(e1.Mul(math.Sin(t) * math.Cos(dir))).Add(e2.Mul(math.Sin(t) * math.Sin(dir)))
			q := e1.Mul(-math.Sin(dir)).Add(e2.Mul(math.Cos(dir)))
			vs = append(vs, s2.Point{Vector: p.Add(q.Mul(off)).Normalize()})
		}
		// no two consecutive vertices equal or antipodal
		out := vs[:1]
		for _, v := range vs[1:] {
			if v != out[len(out)-1] && v.Vector != out[len(out)-1].Mul(-1) {
				out = append(out, v)
			}
		}
		vs = out
		pl := s2.Polyline(vs)
		reg := &c05Reg{kind: "pline", params: c5Pts(vs), region: &pl, perim: 2.6 * rad, pts: append([]s2.Point(nil), vs...)}
		for i := 0; i+1 < len(vs); i++ {
			reg.mid = append(reg.mid, midpoint(vs[i], vs[i+1]))
		}
		return reg
	case "point":
		return &c05Reg{kind: "point", params: c5Pt(c), region: c, pts: []s2.Point{c}}
	}
	panic("kind " + kind)
}

// ---------------------------------------------------------------- configurations and cost

var (
	c05MinLevels = []int{0, 0, 0, 1, 5, 10, 29, 30, -3, 35, 2, 3, 7, 20}
	c05MaxLevels = []int{0, 1, 4, 12, 30, 30, 30, -2, 40, 8, 20, 29}
	c05LevelMods = []int{1, 1, 2, 3, 3, 0, -1, 4, 7}
	c05MaxCells  = []int{0, 1, 3, 4, 8, 8, 8, 20, 100, -1, -100, 5, 2}
)

type c05Cfg struct{ min, max, mod, cells int }

func (g *G) c05Config() c05Cfg {
	r := g.rng
	c := c05Cfg{c05MinLevels[r.Intn(len(c05MinLevels))], c05MaxLevels[r.Intn(len(c05MaxLevels))],
		c05LevelMods[r.Intn(len(c05LevelMods))], c05MaxCells[r.Intn(len(c05MaxCells))]}
	switch r.Intn(40) {
	case 0:
		c.cells = 10000
	case 1, 2:
		c.cells = 500 + r.Intn(1500)
	}
	switch r.Intn(8) {
	case 0: // MaxLevel below MinLevel
		c.max = clampI(c.min, 0, 30) - 1 - r.Intn(3)
	case 1: // MaxLevel a little above MinLevel
		c.max = clampI(c.min, 0, 30) + r.Intn(5)
	}
	return c
}

func (c c05Cfg) eff() (minL, maxL, mod int) {
	return clampI(c.min, 0, 30), clampI(c.max, 0, 30), clampI(c.mod, 1, 3)
}

// cellsAtLevel estimates how many cells of the level meet a region of the given area / boundary length.
func cellsAtLevel(area, perim float64, level int) float64 {
	return area*0.48*math.Pow(4, float64(level)) + perim*0.9*math.Pow(2, float64(level)) + 6
}

// maxRadiusFor: the largest disc radius whose MinLevel cells stay below the budget.
func maxRadiusFor(minL int, budget float64) float64 {
	// pi r^2 * 0.48 * 4^L + 2 pi r * 0.9 * 2^L <= budget
	s := math.Pow(2, float64(minL))
	a, b := math.Pi*0.48*s*s, 2*math.Pi*0.9*s
	return (-b + math.Sqrt(b*b+4*a*budget)) / (2 * a)
}

// interiorWork estimates the number of candidates the interior search creates.
func interiorWork(area, perim float64, c c05Cfg) float64 {
	if c.cells <= 0 {
		return 0
	}
	minL, maxL, mod := c.eff()
	if maxL < minL {
		maxL = minL
	}
	w := 0.0
	for l := 0; l <= maxL; l++ {
		b := perim*0.9*math.Pow(2, float64(l)) + 6
		w += b * math.Pow(4, float64(mod-1))
		if l >= minL {
			in := area*0.48*math.Pow(4, float64(l)) - b
			if in >= float64(c.cells) {
				if l == minL {
					w += in
				}
				break
			}
		}
	}
	return w
}

// fastCells: the size of the denormalised bound inside FastCovering.
func fastCells(bound []s2.CellID, c c05Cfg) float64 {
	minL, maxL, mod := c.eff()
	n := 0.0
	for _, b := range bound {
		l := minI(b.Level(), maxL)
		nl := l
		if nl < minL {
			nl = minL
		}
		if mod > 1 {
			nl += (30 - (nl - minL)) % mod
			if nl > 30 {
				nl = 30
			}
		}
		n += math.Pow(4, float64(nl-l))
	}
	return n
}

const c05Budget = 4000

// c05Emit prints one cov line for the region under the configuration, leaving out what is too expensive.
func (g *G) c05Emit(reg *c05Reg, c c05Cfg, allowRecover bool) bool {
	minL, maxL, _ := c.eff()
	ops := ""
	nMin := cellsAtLevel(reg.area, reg.perim, minL)
	big := float64(maxI(c.cells, 0))
	if nMin <= c05Budget && nMin+big <= 12000 {
		ops += "C"
	}
	areaI := reg.area
	if reg.kind == "rect" {
		// rectangle edges can run along cell edges (equator, meridians at odd multiples of 45 degrees): a sliver
		// of width 1e-9 next to such an edge makes the interior search subdivide every cell along it down to
		// MaxLevel, so the work is estimated as for a region without area
		areaI = 0
	}
	if interiorWork(areaI, reg.perim, c) <= 8*c05Budget {
		ops += "I"
	}
	fc := fastCells(reg.region.CellUnionBound(), c)
	if fc <= c05Budget {
		// keep the "re-cover with default options" branch of normalizeCovering out of c05
		if allowRecover || (fc-float64(c.cells))*fc <= 10000 {
			ops += "F"
		}
	}
	if ops == "" {
		return false
	}
	pts := reg.pts
	if reg.kind == "pline" && maxI(minL, maxL) <= 20 {
		pts = append([]s2.Point(nil), pts...)
		for _, m := range reg.mid {
			// a midpoint is only a point of the polyline up to its own rounding (1e-16): it is used as a probe only if it is not
			// within 1e-12 rad of the boundary of the finest cell the covering may use (otherwise the exact edge and the rounded
			// midpoint can lie in different cells: false alarm of the thorough tier, DESIGN 7.3 no. 15)
			c := s2.CellFromCellID(s2.CellFromPoint(m).ID().Parent(maxI(minL, maxL)))
			if c.BoundaryDistance(m).Angle().Radians() > 1e-12 {
				pts = append(pts, m)
			}
		}
	}
	if len(pts) > 150 { // keep the line short: an evenly spread subset
		var sub []s2.Point
		for i := 0; i < 150; i++ {
			sub = append(sub, pts[i*len(pts)/150])
		}
		pts = sub
	}
	if os.Getenv("C05_TRACE") != "" {
		fmt.Fprintln(os.Stderr, "cov", reg.kind, reg.params, c.min, c.max, c.mod, c.cells, ops)
	}
	g.emit("cov", reg.kind, reg.params, is(c.min), is(c.max), is(c.mod), is(c.cells), ops, c5Pts(pts))
	return true
}

var c05Kinds = []string{"cap", "cap", "cap", "rect", "rect", "cell", "cu", "cu", "cub", "loop", "loop", "starloop", "poly", "pline", "point"}

func (g *G) c05Radius(minL int) float64 {
	r := g.rng
	rmax := math.Min(math.Pi, maxRadiusFor(minL, c05Budget*0.5))
	switch r.Intn(24) {
	case 0:
		return -1 // empty
	case 1:
		if minL <= 4 {
			return math.Pi // full
		}
	case 2:
		if rmax > math.Pi/2 {
			return math.Pi / 2
		}
	case 3:
		if rmax > 2 {
			return math.Pi/2 + 0.5*r.Float()
		}
	case 4:
		return 0
	}
	lo := 1e-9
	if rmax < 4e-9 {
		return rmax * r.Float()
	}
	// log-uniform in [lo, rmax], with a bias towards the top of the range
	u := r.Float()
	if r.Bool() {
		u = 1 - u*u*0.5
	}
	return lo * math.Pow(rmax/lo, u)
}

// c05KnownPolar: minimal lines of the KNOWN finding F-A (Rect.IntersectsCell loses cells next to a pole: zero-height
// rectangles 1e-8..5e-8 rad from a pole).  Emitted by shard 0 of every c05 run, independent of the seed, so that the
// `…-polar-rect` clauses are always exercised.  Same lines: corpus/C05/known_polar_rect.txt.
var c05KnownPolar = []string{
	`cov rect bff921fb4f464726:bff921fb4f464726:3ff72efdfc3671a3:c002ac77aa6d215e 0 30 1 4 C be53a2d0f0bd5716:be2cf8be46a2f631:bfeffffffffffffe`,
	`cov rect 3ff921fb5391429f:3ff921fb5391429f:c002a5b2b1acf09e:3fc5a4d4e530f620 0 30 1 8 C be135bfa2016fcd8:be242945e038c5c4:3ff0000000000000`,
	`cov rect 3ff921fb46863173:3ff921fb46863173:3feeecd6dcc27ef8:3ff5dcd1d4c7a5e2 0 30 1 100 C 3e5a908897798423:3e680fca09a933cc:3feffffffffffff4`,
	`pred rect bff921fb4f464726:bff921fb4f464726:3ff72efdfc3671a3:c002ac77aa6d215e affffffffffffe0f be30000000000000:3e52aaaaaeaaaaaa:bff0000000000000;be2ffffffffffffe:3e54000005555554:bfeffffffffffffe;be25555555555554:3e54000005555554:bfeffffffffffffe;be25555555555555:3e52aaaaaeaaaaaa:bff0000000000000;be2fffffffffffff:3e53555559ffffff:bfefffffffffffff;be2aaaaaaaaaaaab:3e54000005555555:bff0000000000000;be25555555555554:3e53555559ffffff:bfefffffffffffff;be2aaaaaaaaaaaaa:3e52aaaaaeaaaaaa:bff0000000000000;be2aaaaaaaaaaaa8:3e53555559555554:bfeffffffffffffe;be30000000000000:3e52aaaaaeaaaaaa:bff0000000000000;be30000000000000:3e54000005555555:bff0000000000000;be25555555555555:3e54000005555555:bff0000000000000;be25555555555555:3e52aaaaaeaaaaaa:bff0000000000000;be2e461df888bc3c:3e539af3a9420f18:bfeffffffffffffe`,
	`pred rect bff921fb4f464726:bff921fb4f464726:3ff72efdfc3671a3:c002ac77aa6d215e affffffffffffe63 be45555557ffffff:3e51555559555554:bfeffffffffffffe;be45555557ffffff:3e52aaaaaeaaaaa9:bfeffffffffffffe;be42aaaaad555554:3e52aaaaaeaaaaa9:bfeffffffffffffe;be42aaaaad555554:3e51555559555554:bfeffffffffffffe;be45555558000000:3e52000003ffffff:bff0000000000000;be44000002aaaaaa:3e52aaaaaeaaaaa9:bfeffffffffffffe;be42aaaaad555555:3e52000003ffffff:bff0000000000000;be44000002aaaaab:3e51555559555555:bff0000000000000;be44000002aaaaa9:3e52000003ffffff:bfeffffffffffffe;be45555558000000:3e51555559555555:bff0000000000000;be45555558000000:3e52aaaaaeaaaaaa:bff0000000000000;be42aaaaad555555:3e52aaaaaeaaaaaa:bff0000000000000;be42aaaaad555555:3e51555559555555:bff0000000000000;be4341ba9ab8d24d:3e517e09c15ff9b4:bfeffffffffffffe`,
}

func genC05(g *G) {
	r := g.rng
	if g.shardK == 0 {
		for _, l := range c05KnownPolar {
			t := strings.Fields(l)
			g.emit(t[0], t[1:]...)
		}
	}
	// fixed opening lines: the documented example and whole-sphere / corner cases
	if g.shardK == 0 {
		fixed := []struct {
			kind string
			c    s2.Point
			rad  float64
			cfg  c05Cfg
		}{
			{"cap", unit3(1, 1, 1), 0.1, c05Cfg{0, 30, 1, 5}},
			{"cap", unit3(1, 1, 1), 1e-7, c05Cfg{0, 30, 1, 1}},
			{"cap", unit3(0, 0, 1), math.Pi, c05Cfg{0, 30, 1, 8}},
			{"cap", unit3(0, 0, 1), -1, c05Cfg{0, 30, 1, 8}},
			{"rect", unit3(-1, 0, 0), 0.2, c05Cfg{3, 12, 2, 20}},
			{"loop", unit3(1, 1, 0), 0.3, c05Cfg{1, 12, 3, 8}},
			{"poly", unit3(0, 0, -1), 0.3, c05Cfg{2, 10, 1, 30}},
			{"pline", unit3(1, 0, 0), 0.5, c05Cfg{0, 8, 1, 8}},
			{"point", unit3(1, 1, 1), 0, c05Cfg{5, 30, 3, 8}},
			{"cell", unit3(1, 0.3, 0.2), 0.01, c05Cfg{0, 30, 2, 8}},
			{"cu", unit3(1, 0.3, 0.2), 0.01, c05Cfg{0, 30, 2, 8}},
			{"cub", unit3(1, 0.3, 0.2), 0.01, c05Cfg{0, 30, 2, 3}},
		}
		for _, f := range fixed {
			g.c05Emit(g.c05MakeRegion(f.kind, f.c, f.rad), f.cfg, false)
		}
	}
	for g.count < g.n {
		if r.Intn(16) == 0 {
			g.c05PredBatch()
			continue
		}
		if r.Intn(40) == 0 {
			g.c05Lens()
			continue
		}
		cfg := g.c05Config()
		minL, _, _ := cfg.eff()
		kind := c05Kinds[r.Intn(len(c05Kinds))]
		rad := g.c05Radius(minL)
		if rad < 0 && !(kind == "cap" || kind == "rect" || kind == "loop") {
			rad = 1e-6
		}
		if rad == 0 && (kind == "loop" || kind == "starloop" || kind == "poly" || kind == "pline") {
			rad = 1e-8
		}
		if (kind == "loop" || kind == "starloop" || kind == "poly") && rad > 0 && rad < 3e-9 {
			rad = 3e-9 // keep loop vertices distinct
		}
		reg := g.c05MakeRegion(kind, g.c05Center(), rad)
		// the same region under a few more configurations
		g.c05Emit(reg, cfg, false)
		for k := r.Intn(3); k > 0 && g.count < g.n; k-- {
			c2 := g.c05Config()
			if m2, _, _ := c2.eff(); m2 > minL {
				c2.min = cfg.min
			}
			g.c05Emit(reg, c2, false)
		}
	}
}

// ---------------------------------------------------------------- pred: grazing cells

func sampleTok(id s2.CellID, extra []s2.Point) string {
	c := s2.CellFromCellID(id)
	var ps []s2.Point
	for k := 0; k < 4; k++ {
		ps = append(ps, c.Vertex(k))
	}
	for k := 0; k < 4; k++ {
		ps = append(ps, midpoint(c.Vertex(k), c.Vertex((k+1)&3)))
	}
	ps = append(ps, c.Center())
	for k := 0; k < 4; k++ {
		ps = append(ps, c.VertexRaw(k))
	}
	ps = append(ps, extra...)
	return c5Pts(ps)
}

// c05PredOp is "pred" (judge with an absolute slack of 2^-48) or "predx" (slack of 2^-50 relative to r2 only).
var c05PredOp = "pred"

func (g *G) emitPred(kind, params string, id s2.CellID) {
	g.emit(c05PredOp, kind, params, idx(id), sampleTok(id, nil))
}

// emitPredPts: as emitPred, with additional sample points (points of the region that should lie in the cell).
func (g *G) emitPredPts(kind, params string, id s2.CellID, extra []s2.Point) {
	g.emit(c05PredOp, kind, params, idx(id), sampleTok(id, extra))
}

func rectParams(rect s2.Rect) string {
	return fx(rect.Lat.Lo) + ":" + fx(rect.Lat.Hi) + ":" + fx(rect.Lng.Lo) + ":" + fx(rect.Lng.Hi)
}

// thinRect: a rectangle of height h whose pole-side edge is at angular distance d from a pole (d may be large:
// then it is an ordinary thin rectangle at latitude pi/2-d), with its points accepted by Rect.ContainsPoint.
func thinRect(south bool, d, h, lng0, dl float64) (s2.Rect, []s2.Point) {
	lo, hi := math.Pi/2-d-h, math.Pi/2-d
	if lo < 0 {
		lo = 0
	}
	if south {
		lo, hi = -hi, -lo
	}
	rect := s2.Rect{Lat: r1.Interval{Lo: lo, Hi: hi}, Lng: s1.IntervalFromEndpoints(lng0, math.Remainder(lng0+dl, 2*math.Pi))}
	var ps []s2.Point
	if !rect.IsValid() || rect.IsEmpty() {
		return rect, nil
	}
	for a := 0; a <= 2; a++ {
		for b := 0; b <= 8; b++ {
			lat := rect.Lat.Lo + float64(a)/2*rect.Lat.Length()
			lng := math.Remainder(rect.Lng.Lo+float64(b)/8*rect.Lng.Length(), 2*math.Pi)
			if a == 2 {
				lat = rect.Lat.Hi
			}
			if b == 8 {
				lng = rect.Lng.Hi
			}
			p := s2.PointFromLatLng(s2.LatLng{Lat: s1.Angle(lat), Lng: s1.Angle(lng)})
			if rect.ContainsPoint(p) {
				ps = append(ps, p)
			}
			if h == 0 {
				break
			}
		}
		if h == 0 && a == 0 {
			// a zero-height rectangle: one row of points
			for b := 1; b <= 8; b++ {
				lng := math.Remainder(rect.Lng.Lo+float64(b)/8*rect.Lng.Length(), 2*math.Pi)
				if b == 8 {
					lng = rect.Lng.Hi
				}
				p := s2.PointFromLatLng(s2.LatLng{Lat: s1.Angle(rect.Lat.Lo), Lng: s1.Angle(lng)})
				if rect.ContainsPoint(p) {
					ps = append(ps, p)
				}
			}
			break
		}
	}
	return rect, ps
}

// c05ThinRectLines: cov lines and pred lines (the leaf cell of a rectangle point and some ancestors) for a thin rectangle.
func (g *G) c05ThinRectLines(south bool, d, h, lng0, dl float64, withCov bool) {
	r := g.rng
	rect, ps := thinRect(south, d, h, lng0, dl)
	if len(ps) == 0 {
		return
	}
	params := rectParams(rect)
	if withCov {
		mc := []int{8, 100, 4}[r.Intn(3)]
		g.emit("cov", "rect", params, "0", "30", "1", is(mc), "CF", c5Pts(ps))
	}
	for k := 0; k < 3; k++ {
		p := ps[r.Intn(len(ps))]
		leaf := s2.VerifCellIDFromPoint(p)
		g.emitPredPts("rect", params, leaf, []s2.Point{p})
		l := 20 + r.Intn(10)
		g.emitPredPts("rect", params, leaf.Parent(l), []s2.Point{p})
	}
}

// genC05Polar explores the KNOWN finding class (Rect.IntersectsCell next to a pole): thin rectangles 1e-9..1e-4 rad from a pole.
func genC05Polar(g *G) {
	r := g.rng
	for g.count < g.n {
		d := math.Pow(10, -9+5*r.Float())
		h := []float64{0, 0, 1e-9, 1e-8, 1e-6}[r.Intn(5)]
		dl := []float64{0.4, 2.5, math.Min(3, 1e-8*(1+10*r.Float())/d), 0.01 + r.Float()}[r.Intn(4)]
		g.c05ThinRectLines(r.Bool(), d, h, (r.Float()*2-1)*math.Pi, dl, true)
	}
}

func nextK(x float64, k int) float64 {
	for ; k > 0; k-- {
		x = math.Nextafter(x, math.Inf(1))
	}
	for ; k < 0; k++ {
		x = math.Nextafter(x, math.Inf(-1))
	}
	return x
}

// predCell: cells of every level, also leaves and faces, around poles / antimeridian / seams.
func (g *G) predCell() s2.CellID {
	r := g.rng
	switch r.Intn(4) {
	case 0:
		return g.randCell()
	case 1:
		return s2.VerifCellIDFromPoint(g.c05Center()).Parent(r.Intn(31))
	case 2:
		return s2.CellIDFromFace(r.Intn(6)).ChildBeginAtLevel(r.Intn(31))
	default:
		lv := []int{0, 1, 2, 30, 29, 15}[r.Intn(6)]
		return s2.VerifCellIDFromPoint(g.c05Center()).Parent(lv)
	}
}

func (g *G) c05PredBatch() {
	r := g.rng
	id := g.predCell()
	cell := s2.CellFromCellID(id)
	lvl := id.Level()
	size := math.Pow(2, -float64(lvl)) * 1.5
	switch r.Intn(8) {
	case 6: // thin rectangles (zero height .. 1e-6) with the cells holding their points: mid latitudes and next to a pole
		d := 0.05 + 1.5*r.Float()
		if r.Intn(4) == 0 {
			d = math.Pow(10, -9+7*r.Float())
		}
		h := []float64{0, 1e-9, 1e-7, 1e-6}[r.Intn(4)]
		g.c05ThinRectLines(r.Bool(), d, h, (r.Float()*2-1)*math.Pi, []float64{0.3, 2.5, 1e-7 / d}[r.Intn(3)], false)
	case 0, 1: // cap whose boundary passes exactly through / 1 ulp off a cell vertex
		v := cell.Vertex(r.Intn(4))
		var c s2.Point
		switch r.Intn(4) {
		case 0: // centre outside the cell, at a few cell sizes
			e1, e2 := frame(v)
			c = onCircle(v, e1, e2, math.Min(3, size*(0.2+3*r.Float())), 2*math.Pi*r.Float())
		case 1:
			c = g.c05Center()
		case 2:
			c = cell.Center()
		default: // centre in a neighbouring cell
			nb := id.EdgeNeighbors()
			c = s2.CellFromCellID(nb[r.Intn(4)]).Center()
		}
		ch := float64(s2.ChordAngleBetweenPoints(c, v))
		for _, k := range []int{0, 1, -1, 2 + r.Intn(6), -2 - r.Intn(6)} {
			rr := nextK(ch, k)
			if rr < 0 || rr > 4 {
				continue
			}
			params := c5Pt(c) + ":" + fx(rr)
			g.emitPred("cap", params, id)
			if r.Intn(3) == 0 { // and the cells around the vertex
				for _, nb := range s2.VerifCellIDFromPoint(v).VertexNeighbors(minI(lvl, 29)) {
					g.emitPred("cap", params, nb)
				}
			}
			if lvl < 30 && r.Intn(3) == 0 {
				g.emitPred("cap", params, id.Children()[r.Intn(4)])
			}
		}
	case 2: // cap tangent to a cell edge: radius = distance from the centre to the edge's great circle, +- ulps
		k := r.Intn(4)
		a, b := cell.Vertex(k), cell.Vertex((k+1)&3)
		n := s2.Point{Vector: a.Cross(b.Vector).Normalize()} // inward normal of edge k
		m := midpoint(a, b)
		d := math.Min(1.2, size*(0.05+2*r.Float()))
		c := s2.Point{Vector: m.Mul(math.Cos(d)).Add(n.Mul(-math.Sin(d))).Normalize()} // outside, opposite the edge midpoint
		ch := float64(s2.ChordAngleBetweenPoints(c, m))
		for _, kk := range []int{0, 1, -1, 3, -3, 40, -40} {
			rr := nextK(ch, kk)
			if rr < 0 || rr > 4 {
				continue
			}
			g.emitPred("cap", c5Pt(c)+":"+fx(rr), id)
		}
	case 3: // convex loop with an edge through (or 1e-15 off) a cell vertex
		v := cell.Vertex(r.Intn(4))
		rad := math.Min(1.2, size*(0.5+4*r.Float()))
		n := []int{3, 4, 5, 8}[r.Intn(4)]
		// centre at distance rad*cos(pi/n) from v so that the middle of edge 0 passes through v
		e1, e2 := frame(v)
		inr := math.Atan(math.Tan(rad) * math.Cos(math.Pi/float64(n)))
		dir := 2 * math.Pi * r.Float()
		for _, off := range []float64{0, 1e-15, -1e-15, 3e-16, -3e-16, 1e-14, -1e-14, 1e-12, -1e-12, 1e-9, -1e-9, 1e-3, -1e-3} {
			c := onCircle(v, e1, e2, inr*(1+off), dir)
			// loop vertices: regular n-gon around c, rotated so that an edge midpoint points at v
			f1, f2 := frame(c)
			// angle of v as seen from c in the (f1,f2) frame
			tv := math.Atan2(v.Dot(f2.Vector), v.Dot(f1.Vector))
			var vs []s2.Point
			for k := 0; k < n; k++ {
				vs = append(vs, onCircle(c, f1, f2, rad, tv+math.Pi/float64(n)+2*math.Pi*float64(k)/float64(n)))
			}
			params := c5Pts(vs)
			g.emitPred("loop", params, id)
			if r.Intn(2) == 0 {
				for _, nb := range s2.VerifCellIDFromPoint(v).VertexNeighbors(minI(lvl, 29)) {
					g.emitPred("loop", params, nb)
				}
			}
		}
	case 4: // loop with a VERTEX at a cell vertex
		v := cell.Vertex(r.Intn(4))
		rad := math.Min(1.2, size*(0.5+4*r.Float()))
		e1, e2 := frame(v)
		c := onCircle(v, e1, e2, rad, 2*math.Pi*r.Float())
		f1, f2 := frame(c)
		tv := math.Atan2(v.Dot(f2.Vector), v.Dot(f1.Vector))
		n := []int{3, 4, 6}[r.Intn(3)]
		vs := []s2.Point{v}
		for k := 1; k < n; k++ {
			vs = append(vs, onCircle(c, f1, f2, rad, tv+2*math.Pi*float64(k)/float64(n)))
		}
		params := c5Pts(vs)
		g.emitPred("loop", params, id)
		for _, nb := range s2.VerifCellIDFromPoint(v).VertexNeighbors(minI(lvl, 29)) {
			g.emitPred("loop", params, nb)
		}
	case 5: // cell / cell union regions against related cells
		other := id
		switch r.Intn(5) {
		case 0:
			other = id.Parent(r.Intn(lvl + 1))
		case 1:
			if lvl < 30 {
				other = id.ChildBeginAtLevel(lvl + 1 + r.Intn(30-lvl))
			}
		case 2:
			other = id.EdgeNeighbors()[r.Intn(4)]
		case 3:
			other = id.Next()
			if !other.IsValid() {
				other = id.Prev()
			}
		}
		g.emitPred("cell", idx(other), id)
		cu := g.randNormUnion()
		if len(cu) > 0 {
			if len(cu) > 20 {
				cu = cu[:20]
			}
			g.emitPred("cu", ids(cu), id)
			t := cu[r.Intn(len(cu))]
			g.emitPred("cu", ids(cu), t)
			if t.Level() < 30 {
				g.emitPred("cu", ids(cu), t.Children()[r.Intn(4)])
			}
			if t.Level() > 0 {
				g.emitPred("cu", ids(cu), t.Parent(t.Level()-1))
			}
			g.emitPred("cu", ids(cu), t.EdgeNeighbors()[r.Intn(4)])
		}
	default: // rectangles through cell vertices, around the poles and across the antimeridian (not judged exactly)
		v := cell.Vertex(r.Intn(4))
		ll := s2.LatLngFromPoint(v)
		d := math.Min(1, size*(0.5+3*r.Float()))
		rect := s2.Rect{Lat: r1.Interval{Lo: ll.Lat.Radians(), Hi: math.Min(math.Pi/2, ll.Lat.Radians()+d)},
			Lng: s1.IntervalFromEndpoints(ll.Lng.Radians(), math.Remainder(ll.Lng.Radians()+d, 2*math.Pi))}
		if r.Intn(4) == 0 {
			rect.Lat.Hi = math.Pi / 2
		}
		if r.Intn(4) == 0 {
			rect.Lng = s1.IntervalFromEndpoints(math.Pi-d, -math.Pi+d)
		}
		if rect.IsValid() {
			params := rectParams(rect)
			g.emitPred("rect", params, id)
			for _, nb := range s2.VerifCellIDFromPoint(v).VertexNeighbors(minI(lvl, 29)) {
				g.emitPred("rect", params, nb)
			}
		}
	}
}

// ---------------------------------------------------------------- lens: a rectangle dipping into the bulge of a cell edge

// c05Lens: the edges of a cell are great-circle arcs, which bulge towards the nearer pole relative to the circle of
// latitude through their endpoints.  A rectangle whose pole-far latitude edge lies INSIDE that bulge, and whose
// longitude range lies inside the edge's, meets the cell in a lens bounded by one cell edge and one rectangle edge:
// neither region contains a vertex or the centre of the other, so only the latitude-edge crossing test of
// Rect.IntersectsCell can see the intersection (finding D56).  The sample point is the middle of the lens.
// Bulges lower than 1e-9 rad are skipped (the float tests of the library are not exact there).
func (g *G) c05Lens() {
	r := g.rng
	lvl := r.Intn(11)
	id := s2.VerifCellIDFromPoint(g.c05Center()).Parent(lvl)
	cell := s2.CellFromCellID(id)
	for k := 0; k < 4 && g.count < g.n; k++ {
		a, b := cell.Vertex(k), cell.Vertex((k+1)&3)
		n := a.Cross(b.Vector).Normalize()
		m := r3.Vector{X: 0, Y: 0, Z: 1}.Sub(n.Mul(n.Z))
		if m.Norm() < 1e-3 {
			continue
		}
		m = m.Normalize()
		if !(a.Cross(m).Dot(n) > 1e-6 && m.Cross(b.Vector).Dot(n) > 1e-6) {
			m = m.Mul(-1)
			if !(a.Cross(m).Dot(n) > 1e-6 && m.Cross(b.Vector).Dot(n) > 1e-6) {
				continue // the great circle's extreme latitude is not inside this edge
			}
		}
		north := m.Z > 0
		if (north && n.Z >= 0) || (!north && n.Z <= 0) {
			continue // the edge bulges into the cell
		}
		apex := s2.LatLngFromPoint(s2.Point{Vector: m})
		la, lb := s2.LatLngFromPoint(a).Lat.Radians(), s2.LatLngFromPoint(b).Lat.Radians()
		apexLat := math.Abs(apex.Lat.Radians())
		sg := 1.0
		if !north {
			sg = -1
		}
		endLat := math.Max(0, math.Max(sg*la, sg*lb))
		bulge := apexLat - endLat
		if bulge < 1e-9 || apexLat > 1.5 {
			continue
		}
		f := 0.15 + 0.7*r.Float()
		near := endLat + f*bulge // the rectangle's edge inside the bulge
		far := math.Min(math.Pi/2, near+bulge*[]float64{0.5, 2, 30}[r.Intn(3)]+[]float64{0, 1e-3, 0.2}[r.Intn(3)])
		spanLng := math.Abs(math.Remainder(s2.LatLngFromPoint(a).Lng.Radians()-s2.LatLngFromPoint(b).Lng.Radians(), 2*math.Pi))
		dl := spanLng * []float64{0.02, 0.1, 0.3, 0.45, 0.7}[r.Intn(5)]
		sgn := 1.0
		if !north {
			sgn = -1
		}
		lo, hi := sgn*near, sgn*far
		if lo > hi {
			lo, hi = hi, lo
		}
		lng0 := apex.Lng.Radians() + (r.Float()*2-1)*0.3*dl
		rect := s2.Rect{Lat: r1.Interval{Lo: lo, Hi: hi},
			Lng: s1.IntervalFromEndpoints(math.Remainder(lng0-dl, 2*math.Pi), math.Remainder(lng0+dl, 2*math.Pi))}
		if !rect.IsValid() || rect.IsEmpty() {
			continue
		}
		mid := s2.PointFromLatLng(s2.LatLng{Lat: s1.Angle(sgn * (near + apexLat) / 2), Lng: apex.Lng})
		params := rectParams(rect)
		g.emitPredPts("rect", params, id, []s2.Point{mid})
		for _, nb := range id.EdgeNeighbors() {
			g.emitPredPts("rect", params, nb, []s2.Point{mid})
		}
		if g.count < g.n && rect.ContainsPoint(mid) && cell.ContainsPoint(mid) {
			g.emit("cov", "rect", params, is(lvl), is(lvl), "1", is(4+r.Intn(12)), "CF", c5Pts([]s2.Point{mid}))
			g.emit("cov", "rect", params, "0", is(lvl), "1", is(1+r.Intn(6)), "CF", c5Pts([]s2.Point{mid}))
		}
	}
}

// ---------------------------------------------------------------- S18: the re-cover branch of normalizeCovering

func genC05S18(g *G) {
	r := g.rng
	// 1. MaxLevel < MinLevel: the bound is clamped to MaxLevel, denormalised to MinLevel (hundreds of cells),
	//    is not canonical (level > MaxLevel) and is re-covered with DEFAULT options.
	fixed := []struct {
		kind string
		c    s2.Point
		rad  float64
		cfg  c05Cfg
	}{
		{"cap", unit3(1, 0.2, 0.1), 0.01, c05Cfg{5, 0, 1, 8}},
		{"cap", unit3(1, 0.2, 0.1), 0.01, c05Cfg{6, 2, 1, 8}},
		{"loop", unit3(0.3, 1, 0.1), 0.05, c05Cfg{5, 1, 2, 4}},
		{"point", unit3(0.3, 1, 0.1), 0, c05Cfg{4, 0, 1, 0}},
	}
	if g.shardK == 0 {
		for _, f := range fixed {
			g.c05Emit(g.c05MakeRegion(f.kind, f.c, f.rad), f.cfg, true)
		}
	}
	// the two bounds on which FastCovering / Covering did not return before commit cd338c8 (leaf cell = RangeMin of the merged ancestor)
	if g.shardK == 0 {
		g.emit("cov", "cub", "4123456789a00001,4123456789bffc00", "0", "30", "1", "1", "CIF", "-")
		g.emit("cov", "cub", "1000000000000000,4123456789a00001,4123456789bffc00,9000000000000000,a000400000000000", "0", "30", "1", "8", "CIF", "-")
	}
	for g.count < g.n {
		switch r.Intn(5) {
		case 4: // user bound with LEAF cells, the first leaf of an ancestor among them; small MaxCells forces the merge loop
			anc := g.randCellAt(2 + r.Intn(27))
			cu := s2.CellUnion{anc.RangeMin()}
			for k := 1 + r.Intn(5); k > 0; k-- {
				l := anc.Level() + 1 + r.Intn(30-anc.Level())
				c := anc.ChildBeginAtLevel(l)
				if r.Bool() {
					c = anc.ChildEndAtLevel(l).Prev()
				} else if r.Bool() {
					c = c.Advance(int64(r.Intn(1000)))
					if !anc.Contains(c) {
						c = anc.ChildEndAtLevel(l).Prev()
					}
				}
				cu = append(cu, c)
			}
			for k := r.Intn(3); k > 0; k-- {
				cu = append(cu, g.randCell())
			}
			cu.Normalize()
			reg := &c05Reg{kind: "cub", params: ids(cu)}
			cp := append(s2.CellUnion(nil), cu...)
			reg.region = cubRegion{&cp}
			for _, id := range cu {
				reg.pts = append(reg.pts, cellPoints(id)...)
				a := s2.CellFromCellID(id).ApproxArea()
				reg.area += a
				reg.perim += 4 * math.Sqrt(a)
			}
			cfg := c05Cfg{0, 30, 1 + r.Intn(3), []int{1, 2, 3, 0, 4, 8}[r.Intn(6)]}
			if r.Intn(3) == 0 {
				cfg.min = r.Intn(4)
			}
			g.c05Emit(reg, cfg, true)
		case 0: // MaxLevel < MinLevel
			minL := 3 + r.Intn(8)
			cfg := c05Cfg{minL, minL - 3 - r.Intn(3), 1 + r.Intn(3), []int{0, 1, 4, 8, 100}[r.Intn(5)]}
			kind := []string{"cap", "loop", "point", "cell", "rect"}[r.Intn(5)]
			rad := math.Pow(2, -float64(minL)) * (0.1 + r.Float())
			g.c05Emit(g.c05MakeRegion(kind, g.c05Center(), rad), cfg, true)
		case 1: // very negative MaxCells: four sibling bound cells, LevelMod 3
			id := g.randCellAt(3 + r.Intn(26))
			v := s2.CellFromCellID(id).Center() // centre of a cell = common vertex of its four children
			lvl := id.Level() + 1
			rad := math.Pow(2, -float64(lvl)) * 0.3
			cfg := c05Cfg{0, 30, 1 + r.Intn(3), -2500 - r.Intn(5000)}
			g.c05Emit(g.c05MakeRegion("cap", v, rad), cfg, true)
		case 2: // user region whose CellUnionBound() has more than 100 cells: three of every four siblings
			var cu s2.CellUnion
			lvl := 3 + r.Intn(4)
			n := 105 + r.Intn(120)
			c := g.randCellAt(lvl)
			for k := 0; k < n; k++ {
				if k%4 != 3 {
					cu = append(cu, c)
				}
				c = c.NextWrap()
			}
			if r.Intn(3) == 0 { // mixed levels
				for i := range cu {
					if r.Intn(3) == 0 && cu[i].Level() < 28 {
						cu[i] = cu[i].ChildBeginAtLevel(cu[i].Level() + 1 + r.Intn(2))
					}
				}
			}
			cu.Normalize()
			reg := &c05Reg{kind: "cub", params: ids(cu)}
			cp := append(s2.CellUnion(nil), cu...)
			reg.region = cubRegion{&cp}
			for _, id := range cu {
				reg.pts = append(reg.pts, cellPoints(id)...)
				a := s2.CellFromCellID(id).ApproxArea()
				reg.area += a
				reg.perim += 4 * math.Sqrt(a)
			}
			cfg := c05Cfg{r.Intn(2), []int{30, 12, 8}[r.Intn(3)], 1 + r.Intn(3), []int{0, 1, 3, -1, 8}[r.Intn(5)]}
			g.c05Emit(reg, cfg, true)
		default: // ordinary regions, MinLevel well above the bound's level, LevelMod > 1, small MaxCells
			minL := 4 + r.Intn(10)
			cfg := c05Cfg{minL, 30, 2 + r.Intn(2), []int{-100, -1, 0, 1, 3}[r.Intn(5)]}
			rad := math.Pow(2, -float64(minL)) * (1 + 6*r.Float())
			g.c05Emit(g.c05MakeRegion([]string{"cap", "loop", "cell", "rect"}[r.Intn(4)], g.c05Center(), rad), cfg, true)
		}
	}
}

// ---------------------------------------------------------------- c05hemi: caps next to a hemisphere (defect D59)
//
// Cap.intersects rejected an edge with  dot*dot > sin2Angle*edge.Norm2().  For a cap within ~1e-7 rad of a
// hemisphere whose centre is ~90 degrees from the edge both sides are 1 - O(1e-16): rounding decided, and a cap
// that reaches across the middle of the edge into the cell (no cell vertex inside) was answered
// IntersectsCell = false; through Complement() the same test made ContainsCell = true for the cap just ABOVE a
// hemisphere that leaves out that part of the cell.
//
// Recipe (every sample is EMITTED; nothing depends on an answer of the library under test):
//   cell   level 0..4 (1/2: 0..2, the widest window), random face / child path; edge k = 0..3;
//          1 sample in 4 is "wide": level 0..6 and hi = 1e-5 instead of 1e-7 below (the region where the
//          rejection test stops being decided by rounding: exercises the repaired test at its own threshold)
//   n      = cell.Edge(k), the unit inward normal of the edge's great circle
//   m      = Normalize((1-t)*v_k + t*v_{k+1}), t in [0.3, 0.7] (1/4: [0.1, 0.9]): a point of the edge
//   gap    = 1 - max(m.v_k, m.v_{k+1});  f in [0.2, 0.8]
//   e2     log-uniform in [lo, hi], lo = max(1e-9, 4e-12/(gap*f)), hi = 1e-7 (the lower end keeps the depth
//          below >= 4e-12 rad; if lo > hi - possible for wide samples of level >= 5 only - e2 = lo)
//   e1     = e2*(1 - gap*f):  max(m.v_k, m.v_{k+1})*e2 < e1 < e2, so the cap boundary crosses the edge on both
//          sides of m and both end vertices are outside; depth = e2 - e1 = e2*gap*f is how far (rad) the cap reaches
//          over the edge at m
//   a      = Normalize(-cos(e2)*n + sin(e2)*m)  (e2 from the outward pole -n of the edge's great circle, tilted towards m)
//   mIn    = Normalize(cos(depth/2)*m + sin(depth/2)*n): depth/2 inside the cell AND depth/2 inside the cap
//   variant I (2 of 3): cap (a, r2 = 2 - 2 sin e1), radius 90 degrees - e1: m, mIn are points of cap and cell, so
//          IntersectsCell(cell) must be true and a covering must cover mIn
//   variant C (1 of 3): cap (-a, r2 = 2 + 2 sin e1), radius 90 degrees + e1, the complement: all four vertices are
//          inside, mIn is a cell point OUTSIDE the cap by depth/2, so ContainsCell(cell) must be false
// Lines: `pred cap` for the cell and for its neighbour across edge k (m lies exactly in one of the two closed cells),
// samples = the standard cell samples + m + mIn; every 4th sample of variant I a `cov cap` line with MinLevel = the
// cell's level (so that the cell itself is tested), small MaxCells, points m and mIn.
// Judge margin: the oracle accepts a sample as strictly inside (outside) the cap when its chord is below
// sqrt(r2*(1-2^-50)) - 2^-48 (above sqrt(r2*(1+2^-50)) + 2^-48), i.e. 5.9e-15 rad at 90 degrees; mIn is off the
// boundary by depth/2 >= 2e-12 rad (factor >= 340), and >= 2e-12 rad inside the cell (rounding of mIn: 1e-16).

func c05HemiCell(r *RNG, lvl int) s2.CellID {
	id := s2.CellIDFromFace(r.Intn(6))
	for l := 0; l < lvl; l++ {
		id = id.Children()[r.Intn(4)]
	}
	return id
}

func (g *G) c05HemiSample(i int) {
	r := g.rng
	lvl := r.Intn(3)
	if r.Intn(2) == 0 {
		lvl = r.Intn(5)
	}
	hi := 1e-7
	if r.Intn(4) == 0 { // wide: up to 1e-5 rad from the hemisphere, cells down to level 6
		hi = 1e-5
		lvl = r.Intn(7)
	}
	id := c05HemiCell(r, lvl)
	cell := s2.CellFromCellID(id)
	k := r.Intn(4)
	n := cell.Edge(k).Vector
	v0, v1 := cell.Vertex(k).Vector, cell.Vertex((k+1)&3).Vector
	t := 0.3 + 0.4*r.Float()
	if r.Intn(4) == 0 {
		t = 0.1 + 0.8*r.Float()
	}
	m := v0.Mul(1 - t).Add(v1.Mul(t)).Normalize()
	gap := 1 - math.Max(m.Dot(v0), m.Dot(v1))
	f := 0.2 + 0.6*r.Float()
	lo := math.Max(1e-9, 4e-12/(gap*f))
	e2 := lo
	if lo < hi {
		e2 = lo * math.Pow(hi/lo, r.Float())
	}
	depth := e2 * gap * f
	e1 := e2 - depth
	mIn := m.Mul(math.Cos(depth / 2)).Add(n.Mul(math.Sin(depth / 2))).Normalize()
	extra := []s2.Point{{Vector: m}, {Vector: mIn}}
	var params string
	contains := i%3 == 2
	if contains {
		a := n.Mul(math.Cos(e2)).Add(m.Mul(-math.Sin(e2))).Normalize()
		params = c5Pt(s2.Point{Vector: a}) + ":" + fx(2+2*math.Sin(e1))
	} else {
		a := n.Mul(-math.Cos(e2)).Add(m.Mul(math.Sin(e2))).Normalize()
		params = c5Pt(s2.Point{Vector: a}) + ":" + fx(2-2*math.Sin(e1))
	}
	g.emitPredPts("cap", params, id, extra)
	if g.count < g.n {
		g.emitPredPts("cap", params, id.EdgeNeighbors()[k], extra)
	}
	if !contains && i%4 == 0 && g.count < g.n {
		maxL := []int{lvl, lvl + 1, lvl + 3, 30}[r.Intn(4)]
		g.emit("cov", "cap", params, is(lvl), is(maxL), "1", is([]int{1, 3, 4, 8, 20}[r.Intn(5)]), "C", c5Pts(extra))
	}
}

func genC05Hemi(g *G) {
	for i := 0; g.count < g.n; i++ {
		g.c05HemiSample(i)
	}
}
