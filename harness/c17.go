package main

// Work package c17: properties C16 (edge intersection) and C17 (edge / polyline distances).
// Line protocol (all floats are 16-hex-digit bit patterns, points are 3 floats built RAW, never re-normalised):
//
//   c17const                      = intersectionError dblEpsilon dblError sqrt3 roundingEpsilon(float64)
//   isect  a0 a1 b0 b1            = r0..r7 (8 points: Intersection under the 8 argument permutations) sok sx sy sz ex ey ez cs ce
//   pedist x a b ms               = d ok0 di oki ang E Ei {ur uok idl vr vok iidl xr xok Em |}* px py pz frac fp i0 i1 if ih ip dxa dxb dab
//   eedist a0 a1 b0 b1 ms         = cs csn {nr nok xr xok |}* pa pb d0 d1 d2 d3 E
//   plint  n v0..v(n-1) fs        = len segs {qx qy qz nx un rx ry rz rn aq ar |}*
//
// Generators: c16 (c17const + isect lines, emitted only when CrossingSign == Cross) and
// c17 (c17const + pedist / eedist / plint, about 60/25/15 %).
// Setting the environment variable C17_STATS=1 prints per-class attempt / emit counts on stderr.

import (
	"fmt"
	"math"
	"math/big"
	"os"
	"strings"
	"sync"

	"github.com/golang/geo/r3"
	"github.com/golang/geo/s1"
	"github.com/golang/geo/s2"
)

// ---------------------------------------------------------------------------------------------
// token helpers

func c17Raw(x, y, z float64) s2.Point { return s2.Point{Vector: r3.Vector{X: x, Y: y, Z: z}} }

func c17Pts(a []string, n int) []s2.Point {
	if len(a) < 3*n {
		panic("c17: too few point tokens")
	}
	r := make([]s2.Point, n)
	for i := 0; i < n; i++ {
		r[i] = c17Raw(pF(a[3*i]), pF(a[3*i+1]), pF(a[3*i+2]))
	}
	return r
}

func c17PtToks(ps ...s2.Point) []string {
	r := make([]string, 0, 3*len(ps))
	for _, p := range ps {
		r = append(r, fx(p.X), fx(p.Y), fx(p.Z))
	}
	return r
}

func c17Fs(s string) []float64 {
	if s == "-" {
		return nil
	}
	parts := strings.Split(s, ",")
	r := make([]float64, len(parts))
	for i, p := range parts {
		r[i] = pF(p)
	}
	return r
}

func c17FsTok(l []float64) string {
	if len(l) == 0 {
		return "-"
	}
	p := make([]string, len(l))
	for i, f := range l {
		p[i] = fx(f)
	}
	return strings.Join(p, ",")
}

func c17Neg(p s2.Point) s2.Point { return s2.Point{Vector: p.Mul(-1)} }

// ---------------------------------------------------------------------------------------------
// replayers (pure functions of the args)

func c17Const(a []string) []string {
	var r []string
	for _, c := range s2.VerifC17Constants() {
		r = append(r, fx(c))
	}
	return r
}

func c17Isect(s []string) []string {
	p := c17Pts(s, 4)
	a0, a1, b0, b1 := p[0], p[1], p[2], p[3]
	r := make([]string, 0, 33)
	// The 8 argument orders are evaluated CONCURRENTLY (Intersection is a function of its arguments: it must be callable
	// from several goroutines at once; a helper that keeps intermediate values in shared scratch storage shows up as results
	// that differ between the orders — seeded change C16_7).  A panic in a call is reported as a NaN point.
	var xs [8]s2.Point
	var wg sync.WaitGroup
	for k := 0; k < 8; k++ {
		wg.Add(1)
		go func(k int) {
			defer wg.Done()
			defer func() {
				if e := recover(); e != nil {
					xs[k] = s2.Point{Vector: r3.Vector{X: math.NaN(), Y: math.NaN(), Z: math.NaN()}}
				}
			}()
			A0, A1, B0, B1 := a0, a1, b0, b1
			if k&1 != 0 {
				A0, A1 = a1, a0
			}
			if k&2 != 0 {
				B0, B1 = b1, b0
			}
			if k&4 != 0 {
				xs[k] = s2.Intersection(B0, B1, A0, A1)
			} else {
				xs[k] = s2.Intersection(A0, A1, B0, B1)
			}
		}(k)
	}
	wg.Wait()
	for k := 0; k < 8; k++ {
		r = append(r, c17PtToks(xs[k])...)
	}
	sp, sok := s2.VerifIntersectionStable(a0, a1, b0, b1)
	r = append(r, bs(sok))
	r = append(r, c17PtToks(sp)...)
	r = append(r, c17PtToks(s2.VerifIntersectionExact(a0, a1, b0, b1))...)
	r = append(r, is(int(s2.CrossingSign(a0, a1, b0, b1))), bs(s2.VerifCompareEdges(a0, a1, b0, b1)))
	return r
}

func c17Pedist(s []string) []string {
	if len(s) != 10 {
		panic("c17: pedist wants 9 floats and one list")
	}
	p := c17Pts(s, 3)
	x, a, b := p[0], p[1], p[2]
	ms := c17Fs(s[9])
	var r []string
	d, ok0 := s2.VerifUpdateMinDistance(x, a, b, 0, true)
	di, oki := s2.VerifInteriorDist(x, a, b, 0, true)
	r = append(r, fx(float64(d)), bs(ok0), fx(float64(di)), bs(oki))
	r = append(r, fx(float64(s2.DistanceFromSegment(x, a, b))))
	r = append(r, fx(s2.VerifMinUpdateDistanceMaxError(d)), fx(s2.VerifMinUpdateInteriorDistanceMaxError(d)))
	for _, mf := range ms {
		m := s1.ChordAngle(mf)
		ur, uok := s2.UpdateMinDistance(x, a, b, m)
		idl := s2.IsDistanceLess(x, a, b, m)
		vr, vok := s2.UpdateMinInteriorDistance(x, a, b, m)
		iidl := s2.IsInteriorDistanceLess(x, a, b, m)
		xr, xok := s2.UpdateMaxDistance(x, a, b, m)
		r = append(r, fx(float64(ur)), bs(uok), bs(idl), fx(float64(vr)), bs(vok), bs(iidl),
			fx(float64(xr)), bs(xok), fx(s2.VerifMinUpdateDistanceMaxError(m)), "|")
	}
	pr := s2.Project(x, a, b)
	r = append(r, c17PtToks(pr)...)
	frac := s2.DistanceFraction(x, a, b)
	fp := s2.DistanceFraction(pr, a, b)
	r = append(r, fx(frac), fx(fp))
	r = append(r, c17PtToks(s2.Interpolate(0, a, b), s2.Interpolate(1, a, b), s2.Interpolate(frac, a, b),
		s2.Interpolate(0.5, a, b), s2.Interpolate(fp, a, b))...)
	r = append(r, fx(float64(x.Distance(a))), fx(float64(x.Distance(b))), fx(float64(a.Distance(b))))
	return r
}

func c17Eedist(s []string) []string {
	if len(s) != 13 {
		panic("c17: eedist wants 12 floats and one list")
	}
	p := c17Pts(s, 4)
	a0, a1, b0, b1 := p[0], p[1], p[2], p[3]
	ms := c17Fs(s[12])
	var r []string
	r = append(r, is(int(s2.CrossingSign(a0, a1, b0, b1))), is(int(s2.CrossingSign(a0, a1, c17Neg(b0), c17Neg(b1)))))
	for _, mf := range ms {
		m := s1.ChordAngle(mf)
		nr, nok := s2.VerifUpdateEdgePairMinDistance(a0, a1, b0, b1, m)
		xr, xok := s2.VerifUpdateEdgePairMaxDistance(a0, a1, b0, b1, m)
		r = append(r, fx(float64(nr)), bs(nok), fx(float64(xr)), bs(xok), "|")
	}
	pa, pb := s2.EdgePairClosestPoints(a0, a1, b0, b1)
	r = append(r, c17PtToks(pa, pb)...)
	d0, _ := s2.VerifUpdateMinDistance(a0, b0, b1, 0, true)
	d1, _ := s2.VerifUpdateMinDistance(a1, b0, b1, 0, true)
	d2, _ := s2.VerifUpdateMinDistance(b0, a0, a1, 0, true)
	d3, _ := s2.VerifUpdateMinDistance(b1, a0, a1, 0, true)
	r = append(r, fx(float64(d0)), fx(float64(d1)), fx(float64(d2)), fx(float64(d3)))
	dm := d0
	for _, d := range []s1.ChordAngle{d1, d2, d3} {
		if d < dm {
			dm = d
		}
	}
	r = append(r, fx(s2.VerifMinUpdateDistanceMaxError(dm)))
	return r
}

func c17Plint(s []string) []string {
	if len(s) < 2 {
		panic("c17: plint wants n, vertices and one list")
	}
	n := pI(s[0])
	if n < 1 || len(s) != 3*n+2 {
		panic("c17: plint argument count")
	}
	pts := c17Pts(s[1:], n)
	fs := c17Fs(s[3*n+1])
	pl := s2.Polyline(pts)
	p := &pl
	var r []string
	r = append(r, fx(float64(p.Length())))
	segs := make([]float64, 0, n)
	for i := 1; i < n; i++ {
		segs = append(segs, float64(pts[i-1].Distance(pts[i])))
	}
	r = append(r, c17FsTok(segs))
	for _, f := range fs {
		q, nx := p.Interpolate(f)
		un := p.Uninterpolate(q, nx)
		pr, rn := p.Project(q)
		aq := float64(pts[nx-1].Distance(q))
		ar := float64(q.Distance(pr))
		r = append(r, c17PtToks(q)...)
		r = append(r, is(nx), fx(un))
		r = append(r, c17PtToks(pr)...)
		r = append(r, is(rn), fx(aq), fx(ar), "|")
	}
	return r
}

// c17Plproj: `plproj n v0..v(n-1) qx qy qz = rx ry rz rn dq dmin` — Polyline.Project of an ARBITRARY query point (plint only
// projects points that lie on the polyline).  dq = squared chord from q to the returned point, dmin = minimum over the segments of
// UpdateMinDistance starting from infinity (the independent scan); rn = next vertex index.  A panic is the token PANIC:… (seeded change C17_3).
func c17Plproj(s []string) []string {
	n := pI(s[0])
	if n < 2 || len(s) != 3*n+4 {
		panic("c17: plproj argument count")
	}
	pts := c17Pts(s[1:], n)
	q := c17Pts(s[3*n+1:], 1)[0]
	pl := s2.Polyline(pts)
	pr, rn := (&pl).Project(q)
	// both distances as SQUARED CHORDS (angles have no resolution next to 180 degrees, where the squared chord saturates at 4)
	dmin := s1.InfChordAngle()
	for i := 1; i < n; i++ {
		dmin, _ = s2.UpdateMinDistance(q, pts[i-1], pts[i], dmin)
	}
	r := c17PtToks(pr)
	return append(r, is(rn), fx(float64(s2.ChordAngleBetweenPoints(q, pr))), fx(float64(dmin)))
}

// c17KnownF5: inputs of the KNOWN finding F5 (clause hemi-antipodal: both edges within 2^-20 rad of antipodal, crossing next to
// their ends; Intersection returns the antipode). Emitted by every c16 shard so that the known class is exercised in every run.
var c17KnownF5 = []string{
	"isect 3fd02bd9fba06cc7 3fedf6e1b252220e 3fcf2dd368a98607 bfd02bd9fbed0c1b bfedf6e1b215a535 bfcf2dd36baca924 3fd02bd9ff270773 3fedf6e1b2624a43 3fcf2dd3606080f9 bfd02bd9ffe617ac bfedf6e1b2657537 bfcf2dd35ea367fa",
	"isect 3fefd160306e691c 3f3feaeeecf973ec 3fbb460b408a8739 bfefd160302aeb6f bf3feaceb1b6b7a9 bfbb460b545f5bec 3fefd1603073129c 3f3feaf12848a134 3fbb460b3f2bd39e bfefd160305f06b5 bf3feae90fff4ee4 bfbb460b450e0ac9",
	"isect bfd9a9ed37efc080 3fe4ba7ff21cf6dc bfe4ba7ff21ec47c 3fd9a9ed3453198b bfe4ba7ff10a7213 3fe4ba7ff44f7ca9 bfd9a9ed3bb7c9e2 3fe4ba7ff33c5d24 bfe4ba7fefd3bd1e 3fd9a9ed3c654d26 bfe4ba7ff36fe0bd 3fe4ba7fef6a84c2",
}

// c17KnownF7: inputs of the KNOWN finding F7 (clauses project-nearpole / ee-closest-nearpole: query within ~5 degrees of the pole of
// the edge; Project returns a badly conditioned point). Emitted by every c17 shard.
var c17KnownF7 = []string{
	"pedist bfeffffffffffea2 be6f8027091489c0 be92552ad6cf0668 8000000000000000 bff0000000000000 0000000000000000 0000000000000000 3f231afd9e0943c9 bfeffffffa4bee09 3fffffff69fe65f6,3fffffff69fe65f5,3fffffff69fe65f7,0000000000000000,4010000000000000,7ff0000000000000,bff0000000000000,4000000000000000,400ad110e81f3ea7,3fffffffe07fd8f8,3fffffffe07fd8f7,3fffffffe07fd8f9",
	"pedist bfe8eeb33de4cfef bfdc5e3b3e9876f7 bfdc5e3b3e9876f8 8000000000000000 bfe6a09e667f3bcc 3fe6a09e667f3bcc bef7d4004de12267 3fe6a0c848b41ee7 bfe6a07483caa173 3fffffffffffffff,3ffffffffffffffe,4000000000000000,0000000000000000,4010000000000000,7ff0000000000000,bff0000000000000,4000000000000000,3fd5de319c4701a8,3fffffffffffffff,3ffffffffffffffe,4000000000000000",
	"pedist bfedde30df5d1645 bfd2afc63b9bd385 3fcab74da46f88ca 3fcdd836ae89f870 bfaa331d8a2b0f43 3fef132d3a0b29b8 bfcdd836af56bdf8 3faa331d955e06e2 bfef132d39f56dea 4000000000000001,4000000000000000,4000000000000002,0000000000000000,4010000000000000,7ff0000000000000,bff0000000000000,4000000000000000,3fee43bea5539bd8,3ffffffffffffffe,3ffffffffffffffd,3fffffffffffffff",
	"eedist bfe74a4878db1402 3c9b801e51a6d83a bfe5f1d52c2e0df0 bfe74a4878db1402 3c9b801e51a6d83a bfe5f1d52c2e0df0 3e9688dfb528d001 bfeffffffffffbc8 be97ea95cc240e1b 8000000000000000 3ff0000000000000 8000000000000000 4000000000000000,3fffffffffffffff,4000000000000001,0000000000000000,4010000000000000,7ff0000000000000,bff0000000000000,4000000000000000,3fffffffffffffff,4000000000000001",
	"eedist beb2feb9b0521272 3feffffffffea636 3ed1fa944a3ff50b 3feef06021b5a7fc bde4ed4a8d306b51 3fd0580653f4d43f 8000000000000000 bff0000000000000 0000000000000000 3eb2feb9b0521271 bfeffffffffea636 bed1fa944a3ff50b 3fffffffffeb12b4,3fffffffffeb12b3,3fffffffffeb12b5,0000000000000000,4010000000000000,7ff0000000000000,bff0000000000000,4010000000000000,400fffffffffffff,7ff0000000000000",
}

// c17KnownF10: inputs of the KNOWN finding F10 (clause maxdist-rightangle: x at 90 degrees from both endpoints of a nearly antipodal edge;
// UpdateMaxDistance skips the interior candidate). Emitted by every c17 shard.
var c17KnownF10 = []string{
	"pedist 3dcf9465cb3b36e2 3c7a4148f67008e1 bff0000000000000 0000000000000000 bff0000000000000 0000000000000000 beaa9abe9851a315 3feffffffffff4f1 8000000000000000 4000000000000000,3fffffffffffffff,4000000000000001,0000000000000000,4010000000000000,7ff0000000000000,bff0000000000000,4000000000000000,4002620bd481ba5a,4000000000000000,3fffffffffffffff,4000000000000001",
	"pedist 3ff0000000000000 3d24172cece675d3 3b72b07967bfb0e8 8000000000000000 be4dc4aa0469898d 3fefffffffffffff 0000000000000000 0000000000000000 bff0000000000000 4000000000000000,3fffffffffffffff,4000000000000001,0000000000000000,4010000000000000,7ff0000000000000,bff0000000000000,4000000000000000,4005c04f0dd2fc85,4000000000000000,3fffffffffffffff,4000000000000001",
	"pedist 3be064b2cdab32bd 3ff0000000000000 3d21372cece66e04 3fefffffffffc5f8 0000000000000000 bebe78c49e48c0a7 bff0000000000000 8000000000000000 0000000000000000 4000000000000000,3fffffffffffffff,4000000000000001,0000000000000000,4010000000000000,7ff0000000000000,bff0000000000000,4000000000000000,3fe6e26134b39e90,4000000000000000,3fffffffffffffff,4000000000000001",
}

// c17LongPool: outputs of r3.Vector.Normalize that are 2.75 .. 3.2 * 2^-53 TOO LONG (found by scanning 6e7 random vectors; each has
// frequency about 1e-5, docs/findings/c17err_maxpointerror/search).  KNOWN finding D57: for two such points the error of
// ChordAngleBetweenPoints / the vertex branch of UpdateMinDistance exceeds the documented ChordAngle.MaxPointError (4.5 dblEpsilon d),
// whose derivation budgets 2 dblEpsilon for the normalisation of both points together.  Every c17 shard emits all ordered pairs with a
// degenerate edge and with an edge leading away from the query (clauses dist-err-maxpointerror / dist-endpoint-maxpointerror fire on 5 pairs).
var c17LongPool = [][3]uint64{
	{0xbec1ab96defdb355, 0x3feffff10d897f1f, 0x3f6eeddc74bdf6b4},
	{0x3ea5a1787076c29b, 0x3feffffdcd7caacb, 0x3f57b7a4243e998f},
	{0x3eb38af5deaa5141, 0x3fefffff72a2393c, 0x3f47c78c1467cffd},
	{0xbfefffffea15a880, 0xbf32b9bd23f5385a, 0x3e9511ab4536ebad},
	{0xbfefffffb90b7c4a, 0x3f40d8d316beea7a, 0x3e9377ee4dc827f6},
	{0xbfefffffffb553f1, 0xbf0143f385c582b8, 0x3eb8a6483c779d23},
	{0xbfefffffc4ccfc3c, 0xbf3ec6ab77f13104, 0x3ec35c1928e7fa51},
	{0xbf805ab3fb5fa385, 0x3fefd8cb786b152b, 0x3fb8ee955e43c3bc},
	{0x3fefffff4c13c7db, 0x3f4ad3b3f7d6057c, 0x3ec1ab6dd38323cb},
}

func c17EmitLongPairs(g *G) {
	pt := func(b [3]uint64) s2.Point {
		return s2.Point{Vector: r3.Vector{X: math.Float64frombits(b[0]), Y: math.Float64frombits(b[1]), Z: math.Float64frombits(b[2])}}
	}
	for i, bx := range c17LongPool {
		for j, ba := range c17LongPool {
			if i == j {
				continue
			}
			x, a := pt(bx), pt(ba)
			ms := func(b s2.Point) string {
				d, _ := s2.VerifUpdateMinDistance(x, a, b, 0, true)
				dmax, _ := s2.UpdateMaxDistance(x, a, b, s1.NegativeChordAngle)
				return c17FsTok(c17ChordList(d, dmax, 2))
			}
			g.emit("pedist", append(c17PtToks(x, a, a), ms(a))...)
			// an edge that leads away from x: b = a displaced by 0.01 against the direction of x
			away := a.Sub(x.Sub(a.Mul(x.Dot(a.Vector))).Normalize().Mul(0.01))
			b := s2.Point{Vector: away.Normalize()}
			if c17ValidPt(b) && c17ValidEdge(a, b) {
				g.emit("pedist", append(c17PtToks(x, a, b), ms(b))...)
			}
		}
	}
}

// c17EmitKnown re-executes fixed op lines (op + args) through their replayers.
func c17EmitKnown(g *G, ls []string) {
	for _, l := range ls {
		f := strings.Fields(l)
		g.emit(f[0], f[1:]...)
	}
}

func init() {
	replayers["c17const"] = c17Const
	replayers["isect"] = c17Isect
	replayers["pedist"] = c17Pedist
	replayers["eedist"] = c17Eedist
	replayers["plint"] = c17Plint
	replayers["plproj"] = c17Plproj
	generators["c16"] = genC16
	generators["c17"] = genC17
}

// ---------------------------------------------------------------------------------------------
// generator helpers

// c17Ulps moves f by k units in the last place.
func c17Ulps(f float64, k int) float64 {
	for ; k > 0; k-- {
		f = math.Nextafter(f, math.Inf(1))
	}
	for ; k < 0; k++ {
		f = math.Nextafter(f, math.Inf(-1))
	}
	return f
}

// c17LogU returns a log-uniform value in [lo, hi] (0 < lo < hi).
func (g *G) c17LogU(lo, hi float64) float64 {
	l0, l1 := math.Log(lo), math.Log(hi)
	v := math.Exp(l0 + g.rng.Float()*(l1-l0))
	if v < lo {
		v = lo
	}
	if v > hi {
		v = hi
	}
	return v
}

func (g *G) c17Sign() float64 {
	if g.rng.Bool() {
		return -1
	}
	return 1
}

// c17PermV applies one of the 6 coordinate permutations and a sign pattern (an exact isometry).
func c17PermV(v r3.Vector, perm, signs int) r3.Vector {
	c := [3]float64{v.X, v.Y, v.Z}
	ix := [6][3]int{{0, 1, 2}, {0, 2, 1}, {1, 0, 2}, {1, 2, 0}, {2, 0, 1}, {2, 1, 0}}[perm%6]
	q := [3]float64{c[ix[0]], c[ix[1]], c[ix[2]]}
	for i := 0; i < 3; i++ {
		if signs>>uint(i)&1 == 1 {
			q[i] = -q[i]
		}
	}
	return r3.Vector{X: q[0], Y: q[1], Z: q[2]}
}

func c17Perm(p s2.Point, perm, signs int) s2.Point {
	return s2.Point{Vector: c17PermV(p.Vector, perm, signs)}
}

func c17Perm4(e [4]s2.Point, perm, signs int) [4]s2.Point {
	for i := range e {
		e[i] = c17Perm(e[i], perm, signs)
	}
	return e
}

// c17Nudge moves one coordinate of p by 1..maxK (<= 2) ulps; a Normalize()d point stays unit within tolerance.
func (g *G) c17Nudge(p s2.Point, maxK int) s2.Point {
	r := g.rng
	if maxK > 2 {
		maxK = 2
	}
	if maxK < 1 {
		maxK = 1
	}
	k := 1 + r.Intn(maxK)
	if r.Bool() {
		k = -k
	}
	c := [3]float64{p.X, p.Y, p.Z}
	j := r.Intn(3)
	c[j] = c17Ulps(c[j], k)
	return c17Raw(c[0], c[1], c[2])
}

// c17RandUnit returns a uniformly random unit point.
func (g *G) c17RandUnit() s2.Point {
	r := g.rng
	for {
		x, y, z := r.Float()*2-1, r.Float()*2-1, r.Float()*2-1
		n2 := x*x + y*y + z*z
		if n2 > 1e-4 && n2 <= 1 {
			return s2.PointFromCoords(x, y, z)
		}
	}
}

// c17Frame is a point p with an orthonormal tangent basis (e1, e2).  exact == true means that p, e1, e2 are
// signed coordinate axes, so that p + l*d is unit within tolerance for |l| < 1e-9 without normalisation.
type c17Frame struct {
	p, e1, e2 r3.Vector
	exact     bool
}

func c17FrameAt(p s2.Point) c17Frame {
	e1 := p.Ortho()
	e2 := p.Cross(e1).Normalize()
	return c17Frame{p: p.Vector, e1: e1, e2: e2}
}

func (g *G) c17AxisFrame() c17Frame {
	perm, sg := g.rng.Intn(6), g.rng.Intn(8)
	return c17Frame{
		p:     c17PermV(r3.Vector{X: 1}, perm, sg),
		e1:    c17PermV(r3.Vector{Y: 1}, perm, sg),
		e2:    c17PermV(r3.Vector{Z: 1}, perm, sg),
		exact: true,
	}
}

// c17SpecialPoint returns a structured unit point that is not a coordinate axis.
func (g *G) c17SpecialPoint() s2.Point {
	r := g.rng
	perm, sg := r.Intn(6), r.Intn(8)
	switch r.Intn(4) {
	case 0: // cube face-edge midpoint direction
		return c17Perm(s2.PointFromCoords(1, 1, 0), perm, sg)
	case 1: // cube corner direction
		return c17Perm(s2.PointFromCoords(1, 1, 1), perm, sg)
	case 2: // a zero coordinate
		return c17Perm(s2.PointFromCoords(r.Float()*2-1, 0.05+r.Float(), 0), perm, sg)
	default: // on a cube face edge (|u| == 1) at a random position
		return c17Perm(s2.PointFromCoords(1, 1, r.Float()*2-1), perm, sg)
	}
}

// c17PickFrame returns a frame at an axis point (3/8), a special point (2/8) or a random point (3/8).
func (g *G) c17PickFrame() c17Frame {
	switch g.rng.Intn(8) {
	case 0, 1, 2:
		return g.c17AxisFrame()
	case 3, 4:
		return c17FrameAt(g.c17SpecialPoint())
	}
	return c17FrameAt(g.c17RandUnit())
}

// c17Dir returns a unit tangent direction d and its left normal n in the frame.
func (g *G) c17Dir(fr c17Frame) (d, n r3.Vector) {
	r := g.rng
	if fr.exact && r.Intn(3) != 0 {
		switch r.Intn(4) {
		case 0:
			return fr.e1, fr.e2
		case 1:
			return fr.e2, fr.e1.Mul(-1)
		case 2:
			return fr.e1.Mul(-1), fr.e2.Mul(-1)
		}
		return fr.e2.Mul(-1), fr.e1
	}
	phi := r.Float() * 2 * math.Pi
	c, s := math.Cos(phi), math.Sin(phi)
	return fr.e1.Mul(c).Add(fr.e2.Mul(s)), fr.e2.Mul(c).Sub(fr.e1.Mul(s))
}

// c17Along returns the unit point at (signed) arc length l from fr.p in the tangent direction d.
func c17Along(fr c17Frame, d r3.Vector, l float64) s2.Point {
	if math.Abs(l) < 1e-8 {
		v := fr.p.Add(d.Mul(l))
		if fr.exact && math.Abs(l) < 1e-9 {
			return s2.Point{Vector: v} // |v|^2 = 1 + l^2 <= 1 + 1e-18
		}
		return s2.Point{Vector: v.Normalize()}
	}
	return s2.Point{Vector: fr.p.Mul(math.Cos(l)).Add(d.Mul(math.Sin(l))).Normalize()}
}

// c17Move returns the point at arc length h from q in a tangent direction d (d unit, perpendicular to q).
func c17Move(q s2.Point, d r3.Vector, h float64) s2.Point {
	return c17Along(c17Frame{p: q.Vector}, d, h)
}

// c17Tangent returns a random unit tangent direction at q.
func (g *G) c17Tangent(q s2.Point) r3.Vector {
	d, _ := g.c17Dir(c17FrameAt(q))
	return d
}

// c17ClampLen scales the two half lengths so that the edge stays shorter than pi - 1e-8.
func c17ClampLen(l1, l2 float64) (float64, float64) {
	const lim = math.Pi - 1e-8
	if l1+l2 > lim {
		s := lim / (l1 + l2) * (1 - 1e-12)
		return l1 * s, l2 * s
	}
	return l1, l2
}

// c17CrossAt builds two edges through fr.p: a extends la1 backwards / la2 forwards along a direction d1, b extends
// lb1 / lb2 along the direction at angle theta to d1.
func (g *G) c17CrossAt(fr c17Frame, theta, la1, la2, lb1, lb2 float64) [4]s2.Point {
	d1, n1 := g.c17Dir(fr)
	if g.rng.Bool() {
		theta = -theta
	}
	d2 := d1.Mul(math.Cos(theta)).Add(n1.Mul(math.Sin(theta)))
	return [4]s2.Point{c17Along(fr, d1, -la1), c17Along(fr, d1, la2), c17Along(fr, d2, -lb1), c17Along(fr, d2, lb2)}
}

// c17Shuffle randomly reverses each edge and swaps the two edges.
func (g *G) c17Shuffle(e [4]s2.Point) [4]s2.Point {
	r := g.rng
	if r.Bool() {
		e[0], e[1] = e[1], e[0]
	}
	if r.Bool() {
		e[2], e[3] = e[3], e[2]
	}
	if r.Bool() {
		e[0], e[1], e[2], e[3] = e[2], e[3], e[0], e[1]
	}
	return e
}

// c17HalfLen returns a half edge length: [1e-300, 3.1] in exact frames, [1e-15, 3.1] otherwise.
func (g *G) c17HalfLen(exact bool) float64 {
	if exact {
		if g.rng.Bool() {
			return g.c17LogU(1e-300, 3.1)
		}
		return g.c17LogU(1e-12, 3.1)
	}
	return g.c17LogU(1e-15, 3.1)
}

// c17EndFrac returns the position of the crossing as a fraction of the edge from its first endpoint:
// 0, [1e-300, 1e-15], [1e-15, 1e-3] or generic.
func (g *G) c17EndFrac(exact bool) float64 {
	switch g.rng.Intn(4) {
	case 0:
		return 0
	case 1:
		if exact {
			return g.c17LogU(1e-300, 1e-15)
		}
		return g.c17LogU(1e-17, 1e-15)
	case 2:
		return g.c17LogU(1e-15, 1e-3)
	}
	return 0.05 + 0.9*g.rng.Float()
}

const c16Classes = 9

// c16Candidate returns a candidate 4-tuple (a0, a1, b0, b1) of the given class; the caller keeps it only when
// CrossingSign == Cross.
func (g *G) c16Candidate(class int) [4]s2.Point {
	r := g.rng
	switch class {
	case 0: // 1. generic: crossing angle log-uniform [1e-15, pi/2], half lengths log-uniform
		fr := g.c17PickFrame()
		theta := g.c17LogU(1e-15, math.Pi/2)
		if r.Intn(4) == 0 {
			theta = g.c17LogU(1e-3, math.Pi/2)
		}
		la1, la2 := c17ClampLen(g.c17HalfLen(fr.exact), g.c17HalfLen(fr.exact))
		lb1, lb2 := c17ClampLen(g.c17HalfLen(fr.exact), g.c17HalfLen(fr.exact))
		return g.c17Shuffle(g.c17CrossAt(fr, theta, la1, la2, lb1, lb2))

	case 1: // 1b. tiny edges built directly around an axis point: both tiny, or one tiny and one long
		fr := g.c17AxisFrame()
		theta := g.c17LogU(1e-15, math.Pi/2)
		if r.Bool() {
			theta = g.c17LogU(1e-3, math.Pi/2)
		}
		la1, la2 := g.c17LogU(1e-300, 1e-9), g.c17LogU(1e-300, 1e-9)
		if r.Intn(3) == 0 { // same scale
			la2 = la1 * (0.5 + r.Float())
		}
		var lb1, lb2 float64
		switch r.Intn(3) {
		case 0: // both tiny, independent scales
			lb1, lb2 = g.c17LogU(1e-300, 1e-9), g.c17LogU(1e-300, 1e-9)
		case 1: // both tiny, same scale
			lb1, lb2 = la1*(0.5+r.Float()), la2*(0.5+r.Float())
		default: // one tiny, one long
			lb1, lb2 = c17ClampLen(g.c17LogU(1e-6, 3.1), g.c17LogU(1e-6, 3.1))
		}
		return g.c17Shuffle(g.c17CrossAt(fr, theta, la1, la2, lb1, lb2))

	case 2: // 2. crossing at / next to an endpoint
		if r.Intn(3) == 0 {
			return g.c16OnCircle()
		}
		fr := g.c17PickFrame()
		theta := g.c17LogU(1e-6, math.Pi/2)
		if r.Intn(4) == 0 {
			theta = g.c17LogU(1e-15, 1e-6)
		}
		la, lb := g.c17LogU(1e-6, 3.1), g.c17LogU(1e-6, 3.1)
		fa, fb := 0.05+0.9*r.Float(), 0.05+0.9*r.Float()
		switch r.Intn(3) {
		case 0:
			fa = g.c17EndFrac(fr.exact)
		case 1:
			fb = g.c17EndFrac(fr.exact)
		default:
			fa, fb = g.c17EndFrac(fr.exact), g.c17EndFrac(fr.exact)
		}
		e := g.c17CrossAt(fr, theta, fa*la, (1-fa)*la, fb*lb, (1-fb)*lb)
		if r.Intn(3) == 0 { // move the endpoint next to the crossing by 1..2 ulps
			e[0] = g.c17Nudge(e[0], 2)
		}
		if r.Intn(3) == 0 {
			e[2] = g.c17Nudge(e[2], 2)
		}
		return g.c17Shuffle(e)

	case 3: // 3. small crossing angles with long edges, crossing near the middle and near the ends
		fr := g.c17PickFrame()
		theta := g.c17LogU(1e-15, 1e-6)
		f := func() float64 {
			if r.Bool() {
				return 0.3 + 0.4*r.Float()
			}
			v := g.c17LogU(1e-12, 1e-2)
			if r.Bool() {
				v = 1 - v
			}
			return v
		}
		la, lb := 0.1+2.9*r.Float(), 0.1+2.9*r.Float()
		if r.Intn(3) == 0 {
			lb = la
		}
		fa, fb := f(), f()
		return g.c17Shuffle(g.c17CrossAt(fr, theta, fa*la, (1-fa)*la, fb*lb, (1-fb)*lb))

	case 4: // 4. exactly (or nearly) collinear overlapping edges on axis great circles
		return g.c16Collinear()

	case 5: // 5. nearly antipodal endpoints
		fr := g.c17PickFrame()
		theta := g.c17LogU(1e-15, math.Pi/2)
		if r.Bool() {
			theta = g.c17LogU(1e-3, math.Pi/2)
		}
		long := func() (float64, float64) {
			tot := math.Pi - g.c17LogU(1.01e-9, 1e-1)
			var f float64
			switch r.Intn(3) {
			case 0:
				f = r.Float()
			case 1:
				f = g.c17LogU(1e-12, 1e-2)
			default:
				f = 1 - g.c17LogU(1e-12, 1e-2)
			}
			l1 := f * tot
			return l1, tot - l1
		}
		la1, la2 := long()
		var lb1, lb2 float64
		if r.Bool() {
			lb1, lb2 = long()
		} else {
			lb1, lb2 = c17ClampLen(g.c17HalfLen(fr.exact), g.c17HalfLen(fr.exact))
		}
		return g.c17Shuffle(g.c17CrossAt(fr, theta, la1, la2, lb1, lb2))

	case 6: // 6. equal-length edges (exact mirror images / quarter turns), edges sharing coordinate values
		return g.c16EqualLen()

	case 8: // 8. collinear overlapping edges with PARALLEL but not bit-equal vertices (D50)
		return g.c16CollinearParallel()
	}

	// 7. uniform random crossing pairs
	fr := c17FrameAt(g.c17RandUnit())
	theta := 0.01 + r.Float()*(math.Pi/2-0.01)
	return g.c17Shuffle(g.c17CrossAt(fr, theta, 1.5*r.Float(), 1.5*r.Float(), 1.5*r.Float(), 1.5*r.Float()))
}

// c16OnCircle: edge a lies in the coordinate plane z == 0 and the endpoint b0 lies exactly on that great circle
// (z == 0), or 1..2 ulps (of zero) / a tiny amount off it; b1 is off the circle.  The symbolic perturbation of
// CrossingSign decides; the candidate with b1 on the crossing side is returned when there is one.
func (g *G) c16OnCircle() [4]s2.Point {
	r := g.rng
	t0 := r.Float() * 2 * math.Pi
	L := g.c17LogU(1e-6, 3.0)
	var f float64
	switch r.Intn(4) {
	case 0:
		f = g.c17LogU(1e-12, 1e-2)
	case 1:
		f = 1 - g.c17LogU(1e-12, 1e-2)
	default:
		f = 0.02 + 0.96*r.Float()
	}
	tb := t0 + f*L
	a0 := s2.PointFromCoords(math.Cos(t0), math.Sin(t0), 0)
	a1 := s2.PointFromCoords(math.Cos(t0+L), math.Sin(t0+L), 0)
	b0 := s2.PointFromCoords(math.Cos(tb), math.Sin(tb), 0)
	switch r.Intn(6) {
	case 0, 1: // exactly on the circle
	case 2:
		b0.Z = g.c17Sign() * 5e-324 * float64(1+r.Intn(2))
	case 3:
		b0.Z = g.c17Sign() * 1e-300
	case 4:
		b0.Z = g.c17Sign() * g.c17LogU(1e-300, 1e-16)
	default: // 1..2 ulps of a nonzero coordinate: stays exactly on the circle z == 0, moves along it
		b0 = g.c17Nudge(b0, 2)
	}
	tb1 := tb + (r.Float()*2-1)*[]float64{1, 1e-3, 1e-9}[r.Intn(3)]
	h := g.c17LogU(1e-15, 1.5)
	mk := func(sgn float64) s2.Point {
		return s2.PointFromCoords(math.Cos(tb1)*math.Cos(h), math.Sin(tb1)*math.Cos(h), sgn*math.Sin(h))
	}
	sgn := g.c17Sign()
	perm, sg := r.Intn(6), r.Intn(8)
	e := [4]s2.Point{a0, a1, b0, mk(sgn)}
	if s2.CrossingSign(e[0], e[1], e[2], e[3]) != s2.Cross {
		e[3] = mk(-sgn)
	}
	return g.c17Shuffle(c17Perm4(e, perm, sg))
}

// c16Collinear: four points on one great circle through coordinate axes (z == 0 or x == y, then permuted), the two
// edges overlapping in all interleavings and both orientations.  One third of the cases are NEARLY collinear: one
// edge (of normal length) is tilted out of the plane by an angle log-uniform in [2e-15, 1e-9], either about a point
// inside the overlap (interior crossing) or about one of its own endpoints (crossing at that endpoint).
func (g *G) c16Collinear() [4]s2.Point {
	r := g.rng
	diag := r.Intn(3) == 0
	nearly := r.Intn(3) == 0
	// mk returns the point at angle t of the circle, moved by w perpendicular to the plane of the circle.
	mk := func(t, w float64) s2.Point {
		if diag { // plane x == y, unit normal (1, -1, 0)/sqrt2
			c := math.Cos(t) * math.Sqrt2 / 2
			p := s2.PointFromCoords(c, c, math.Sin(t))
			if w != 0 {
				p.X += w * math.Sqrt2 / 2
				p.Y -= w * math.Sqrt2 / 2
			}
			return p
		}
		p := s2.PointFromCoords(math.Cos(t), math.Sin(t), 0)
		p.Z = w // exactly zero when w == 0
		return p
	}
	gap := func() float64 {
		switch r.Intn(3) {
		case 0:
			if !nearly {
				return g.c17LogU(1e-15, 1.5)
			}
			return g.c17LogU(1e-2, 1.5)
		case 1:
			return g.c17LogU(1e-3, 1.5)
		}
		return 0.01 + 1.5*r.Float()
	}
	t0 := r.Float() * 2 * math.Pi
	if r.Intn(4) == 0 {
		t0 = float64(r.Intn(8)) * math.Pi / 4
	}
	g1, g2, g3 := gap(), gap(), gap()
	// keep every edge below pi - 1e-6
	for g1+g2+g3 > math.Pi-1e-6 {
		g1, g2, g3 = g1*0.7, g2*0.7, g3*0.7
	}
	t := [4]float64{t0, t0 + g1, t0 + g1 + g2, t0 + g1 + g2 + g3}
	var ix [4]int
	switch r.Intn(3) {
	case 0, 1: // proper overlap a = (t0, t2), b = (t1, t3)
		ix = [4]int{0, 2, 1, 3}
	default: // containment a = (t0, t3), b = (t1, t2)
		ix = [4]int{0, 3, 1, 2}
	}
	var w [4]float64
	if nearly {
		tau := g.c17Sign() * g.c17LogU(2e-15, 1e-9)
		k := 2 * r.Intn(2) // the tilted edge is (ix[k], ix[k+1])
		var tc float64
		switch r.Intn(3) {
		case 0: // about one of its endpoints
			tc = t[ix[k+r.Intn(2)]]
		default: // about a point inside the overlap (t1, t2)
			tc = t[1] + (0.05+0.9*r.Float())*(t[2]-t[1])
		}
		for j := k; j < k+2; j++ {
			if t[ix[j]] != tc {
				w[j] = tau * math.Sin(t[ix[j]]-tc)
			}
		}
	}
	var e [4]s2.Point
	for j := 0; j < 4; j++ {
		e[j] = mk(t[ix[j]], w[j])
	}
	perm, sg := r.Intn(6), r.Intn(8)
	return g.c17Shuffle(c17Perm4(e, perm, sg))
}

// c16Rescale returns p scaled by 1 + k ulps (k in -4..4, k != 0: the factor is 1 + k*2^-52 for k > 0 and
// 1 + k*2^-53 for k < 0, i.e. the k-th float above / below 1), every coordinate rounded once.  For points whose
// non-zero coordinates are powers of two the product is exact, so the result is EXACTLY parallel to p and not
// bit-equal to it; for other points it is the nearest float vector to a parallel one (1 ulp off at most).
func c16Rescale(p s2.Point, k int) s2.Point {
	f := c17Ulps(1, k)
	return c17Raw(p.X*f, p.Y*f, p.Z*f)
}

// c16CollinearParallel (finding D50): exactly collinear overlapping edges on the great circle z == 0 (then permuted
// / reflected) in which a vertex of one edge is a RESCALED copy of a vertex of the other edge (or of its midpoint):
// the same point of the sphere given as two different float vectors.  The determinant of such a pair with any normal
// is exactly 0 (or a few ulps), so OrderedCCW inside the collinear rule of intersectionExact is decided by the
// symbolic perturbation of RobustSign, which is not odd in the normal: before the repair of D50 the result depended
// on the direction in which an edge was passed.
//   base point v : a coordinate axis (rescaling is exact), a point (2^-k, 1, 0) with k >= 27 (unit within
//                  tolerance, rescaling is exact), or a general point of the circle (rescaling rounds)
//   shapes       : both edges END at v (one contained in the other: the D50 input), the edges only TOUCH at v,
//                  v is an endpoint of b and (a copy of) the midpoint / an inner point of a, both pairs of
//                  endpoints parallel (the same edge given twice)
// The caller keeps the candidate only if it passes c17Valid4 (so |p|^2 stays within 5e-16 of 1: the larger
// rescalings are dropped there) and CrossingSign == Cross.
func (g *G) c16CollinearParallel() [4]s2.Point {
	r := g.rng
	at := func(t float64) s2.Point { return s2.PointFromCoords(math.Cos(t), math.Sin(t), 0) }
	var v s2.Point
	var tv float64
	switch r.Intn(4) {
	case 0, 1: // coordinate axis of the plane
		q := r.Intn(4)
		tv = float64(q) * math.Pi / 2
		v = [4]s2.Point{c17Raw(1, 0, 0), c17Raw(0, 1, 0), c17Raw(-1, 0, 0), c17Raw(0, -1, 0)}[q]
	case 2: // (2^-k, 1, 0): all coordinates powers of two, |v|^2 = 1 + 2^-2k
		k := 27 + r.Intn(40)
		if r.Intn(4) == 0 {
			k = 27 + r.Intn(990)
		}
		x := math.Ldexp(g.c17Sign(), -k)
		if r.Bool() {
			v = c17Raw(x, g.c17Sign(), 0)
		} else {
			v = c17Raw(g.c17Sign(), x, 0)
		}
		tv = math.Atan2(v.Y, v.X)
	default: // a general point of the circle
		tv = r.Float() * 2 * math.Pi
		v = at(tv)
	}
	// +1, -1, -2 keep |p|^2 within 5e-16 of 1 for a unit p (c17ValidPt); the others (up to 4 ulps) survive only when
	// |p|^2 was off in the other direction
	kk := func() int {
		if r.Intn(4) != 0 {
			return [3]int{1, -1, -2}[r.Intn(3)]
		}
		k := 1 + r.Intn(4)
		if r.Bool() {
			k = -k
		}
		return k
	}
	// two different representatives of v
	va, vb := v, v
	switch r.Intn(3) {
	case 0:
		vb = c16Rescale(v, kk())
	case 1:
		va = c16Rescale(v, kk())
	default:
		ka, kb := kk(), kk()
		for kb == ka {
			kb = kk()
		}
		va, vb = c16Rescale(v, ka), c16Rescale(v, kb)
	}
	if r.Intn(8) == 0 { // re-normalised copy (for most points this gives v back: dropped by the caller as a shared vertex)
		vb = s2.Point{Vector: vb.Normalize()}
	}
	// arc lengths of the other endpoints, measured from v
	arc := func() float64 {
		switch r.Intn(4) {
		case 0:
			return g.c17LogU(1e-9, 1e-2)
		case 1:
			return g.c17LogU(1e-2, 3.0)
		}
		return 0.02 + 2.9*r.Float()
	}
	la, lb := arc(), arc()
	sa := g.c17Sign()
	var e [4]s2.Point
	switch r.Intn(6) {
	case 0, 1, 2: // both edges end at v on the same side: one edge contains the other
		e = [4]s2.Point{at(tv + sa*la), va, at(tv + sa*lb), vb}
	case 3: // the edges touch at v only
		e = [4]s2.Point{at(tv + sa*la), va, at(tv - sa*lb), vb}
	case 4: // v is an inner point of a (the midpoint when la2 == la) and an endpoint of b
		la2 := la
		if r.Bool() {
			la2 = arc()
		}
		for la+la2 > math.Pi-1e-6 {
			la, la2 = la*0.7, la2*0.7
		}
		e = [4]s2.Point{at(tv - la), at(tv + la2), at(tv + sa*lb), vb}
		if r.Bool() { // b1 = a rescaled copy of the float midpoint of a
			m := s2.Point{Vector: e[0].Add(e[1].Vector).Normalize()}
			e[3] = c16Rescale(m, kk())
		}
	default: // the same edge twice, both pairs of endpoints parallel and not bit-equal
		w := at(tv + sa*la)
		if r.Bool() { // a second axis / exact point where possible
			w = c17Raw(-v.Y, v.X, 0)
		}
		e = [4]s2.Point{w, va, c16Rescale(w, kk()), vb}
	}
	perm, sg := r.Intn(6), r.Intn(8)
	return g.c17Shuffle(c17Perm4(e, perm, sg))
}

// c16EqualLen: b is an exact isometric image of a (reflection in a coordinate plane, exchange of two coordinates,
// quarter turn about an axis), so that |a1-a0|^2 == |b1-b0|^2 in floating point and compareEdges breaks the tie.
func (g *G) c16EqualLen() [4]s2.Point {
	r := g.rng
	perm, sg := r.Intn(6), r.Intn(8)
	u := func() float64 { return r.Float()*2 - 1 }
	var e [4]s2.Point
	switch r.Intn(6) {
	case 5: // an endpoint of b EXACTLY equidistant (in float64 too) from both endpoints of a: a1 = a0 with y and z exchanged,
		// b0 on the mirror plane y == z; b1 on the other side of a (ties in every "closer endpoint" choice: seeded C16_4)
		d := g.c17LogU(1e-12, 1)
		x := u()
		a0 := s2.PointFromCoords(x, 0.3+d, 0.3-d)
		a1 := c17Raw(a0.X, a0.Z, a0.Y)
		q := 0.3 * (1 + 0.5*u())
		b0 := s2.PointFromCoords(x+g.c17LogU(1e-9, 0.5), q, q)
		b1 := s2.PointFromCoords(x-g.c17LogU(1e-9, 0.5), q*(1+0.3*u()), q*(1+0.3*u()))
		if r.Bool() {
			b1 = s2.PointFromCoords(x-g.c17LogU(1e-9, 0.5), q, q)
		}
		e = [4]s2.Point{a0, a1, b0, b1}
	case 0: // reflection in z == 0; a crosses that plane
		h0, h1 := g.c17LogU(1e-15, 1), g.c17LogU(1e-15, 1)
		if r.Intn(3) == 0 {
			h1 = h0
		}
		a0 := s2.PointFromCoords(u(), u(), h0)
		a1 := s2.PointFromCoords(u(), u(), -h1)
		if r.Intn(4) == 0 { // |z| equal exactly (a1 is an exact isometric image of a0)
			a1 = c17Raw(a0.Y, a0.X, -a0.Z)
		}
		e = [4]s2.Point{a0, a1, c17Raw(a0.X, a0.Y, -a0.Z), c17Raw(a1.X, a1.Y, -a1.Z)}
	case 1: // exchange x <-> y; a crosses the plane x == y
		d0, d1 := g.c17LogU(1e-15, 1), g.c17LogU(1e-15, 1)
		x0, x1 := u(), u()
		a0 := s2.PointFromCoords(x0, x0+d0, u())
		a1 := s2.PointFromCoords(x1, x1-d1, u())
		e = [4]s2.Point{a0, a1, c17Raw(a0.Y, a0.X, a0.Z), c17Raw(a1.Y, a1.X, a1.Z)}
	case 2: // quarter turn about z: (x, y, z) -> (-y, x, z)
		k0, k1 := 1.01+4*r.Float(), 1.01+4*r.Float()
		a0 := s2.PointFromCoords(1, -k0, u())
		a1 := s2.PointFromCoords(1, k1, u())
		e = [4]s2.Point{a0, a1, c17Raw(-a0.Y, a0.X, a0.Z), c17Raw(-a1.Y, a1.X, a1.Z)}
	case 3: // exchange y <-> z: the edges share their X coordinates (ties in the lexicographic comparison)
		d0, d1 := g.c17LogU(1e-15, 1), g.c17LogU(1e-15, 1)
		y0, y1 := u(), u()
		a0 := s2.PointFromCoords(u(), y0, y0+d0)
		a1 := s2.PointFromCoords(u(), y1, y1-d1)
		if r.Bool() && math.Abs(a0.X) < 0.9 { // all four X equal (the caller drops it if not unit within tolerance)
			s := math.Sqrt(1 - a0.X*a0.X)
			psi := math.Pi/4 - g.c17LogU(1e-15, 3)
			a1 = c17Raw(a0.X, s*math.Cos(psi), s*math.Sin(psi))
		}
		e = [4]s2.Point{a0, a1, c17Raw(a0.X, a0.Z, a0.Y), c17Raw(a1.X, a1.Z, a1.Y)}
	default: // tiny equal-length edges around an axis: (1, -l, -m) (1, l, m) and (1, -l, m) (1, l, -m)
		// the crossing angle 2 atan(m/l) stays above 1e-15
		l := g.c17LogU(1e-280, 1e-9)
		m := l * g.c17LogU(1e-15, 1)
		switch r.Intn(3) {
		case 0:
			m = l
		case 1:
			l, m = m, l
		}
		e = [4]s2.Point{c17Raw(1, -l, -m), c17Raw(1, l, m), c17Raw(1, -l, m), c17Raw(1, l, -m)}
	}
	return g.c17Shuffle(c17Perm4(e, perm, sg))
}

// c17ValidPt / c17Valid4 are a last line of defence: finite coordinates, |p|^2 within 5e-16 of 1 (stricter than the
// guarantee of Normalize), no edge within 0.9e-9 of antipodal.
func c17ValidPt(p s2.Point) bool {
	for _, c := range []float64{p.X, p.Y, p.Z} {
		if math.IsNaN(c) || math.IsInf(c, 0) {
			return false
		}
	}
	return math.Abs(p.Norm2()-1) <= 5e-16
}

func c17ValidEdge(a, b s2.Point) bool {
	// not within 0.9e-9 of antipodal: |a + b| = 2 cos(len/2) ~ pi - len
	return a.Add(b.Vector).Norm() >= 0.9e-9
}

func c17Valid4(e [4]s2.Point) bool {
	for _, p := range e {
		if !c17ValidPt(p) {
			return false
		}
	}
	return c17ValidEdge(e[0], e[1]) && c17ValidEdge(e[2], e[3])
}

// c16AngleOK reports whether the great circles of the two edges coincide exactly (exactly collinear edges) or meet at
// an angle of at least 1.05e-15 radians: sin^2 = |na x nb|^2 / (|na|^2 |nb|^2) with na = a0 x a1, nb = b0 x b1,
// evaluated in exact rational arithmetic.  (The property quantifies over crossing angles down to 1e-15.)
func c16AngleOK(e [4]s2.Point) bool {
	rv := func(p s2.Point) [3]*big.Rat {
		return [3]*big.Rat{new(big.Rat).SetFloat64(p.X), new(big.Rat).SetFloat64(p.Y), new(big.Rat).SetFloat64(p.Z)}
	}
	mul := func(a, b *big.Rat) *big.Rat { return new(big.Rat).Mul(a, b) }
	cross := func(a, b [3]*big.Rat) [3]*big.Rat {
		return [3]*big.Rat{
			new(big.Rat).Sub(mul(a[1], b[2]), mul(a[2], b[1])),
			new(big.Rat).Sub(mul(a[2], b[0]), mul(a[0], b[2])),
			new(big.Rat).Sub(mul(a[0], b[1]), mul(a[1], b[0])),
		}
	}
	norm2 := func(a [3]*big.Rat) *big.Rat {
		s := mul(a[0], a[0])
		s.Add(s, mul(a[1], a[1]))
		return s.Add(s, mul(a[2], a[2]))
	}
	na, nb := cross(rv(e[0]), rv(e[1])), cross(rv(e[2]), rv(e[3]))
	den := mul(norm2(na), norm2(nb))
	if den.Sign() == 0 {
		return false // a degenerate or exactly antipodal edge
	}
	num := norm2(cross(na, nb))
	if num.Sign() == 0 {
		return true // exactly collinear
	}
	lim := new(big.Rat).SetFrac(big.NewInt(11025), new(big.Int).Exp(big.NewInt(10), big.NewInt(34), nil)) // (1.05e-15)^2
	return num.Cmp(den.Mul(den, lim)) >= 0
}

func genC16(g *G) {
	g.emit("c17const")
	c17EmitKnown(g, c17KnownF5)
	var tried, kept, invalid, smallAngle [c16Classes]int
	maxAttempts := 200*g.n + 1000
	emitted := 0
	for att := 0; emitted < g.n && att < maxAttempts; att++ {
		class := g.rng.Intn(c16Classes)
		e := g.c16Candidate(class)
		tried[class]++
		if !c17Valid4(e) {
			invalid[class]++
			continue
		}
		if s2.CrossingSign(e[0], e[1], e[2], e[3]) != s2.Cross {
			continue
		}
		if !c16AngleOK(e) {
			smallAngle[class]++
			continue
		}
		kept[class]++
		emitted++
		g.emit("isect", c17PtToks(e[:]...)...)
	}
	if os.Getenv("C17_STATS") != "" {
		for c := 0; c < c16Classes; c++ {
			fmt.Fprintf(os.Stderr, "c16 class %d: tried %d kept %d invalid %d crossing-but-angle<1.05e-15 %d\n", c, tried[c], kept[c], invalid[c], smallAngle[c])
		}
	}
}

// ---------------------------------------------------------------------------------------------
// C17 generators

// c17Edge returns an edge (a, b): degenerate, length log-uniform [1e-15, pi - 1e-6], pi - [1e-9, 1e-6];
// axis-aligned or random orientation.
func (g *G) c17Edge() (a, b s2.Point) {
	r := g.rng
	fr := g.c17PickFrame()
	a = s2.Point{Vector: fr.p}
	var l float64
	switch r.Intn(12) {
	case 0: // degenerate (bitwise equal)
		return a, a
	case 1: // nearly antipodal
		l = math.Pi - g.c17LogU(1.01e-9, 1e-6)
	case 2: // very short
		l = g.c17LogU(1e-15, 1e-6)
	case 3: // about 90 degrees
		l = math.Pi/2 + (r.Float()*2-1)*[]float64{0, 1e-15, 1e-9, 1e-3}[r.Intn(4)]
	case 4: // long
		l = math.Pi - g.c17LogU(1e-6, 1)
	default:
		l = math.Min(g.c17LogU(1e-15, 3.14), math.Pi-1e-6)
	}
	d, _ := g.c17Dir(fr)
	b = c17Along(fr, d, l)
	if r.Bool() {
		a, b = b, a
	}
	return a, b
}

// c17Pole returns the normalised a x b (an arbitrary perpendicular when a == b).
func c17Pole(a, b s2.Point) s2.Point {
	return s2.Point{Vector: a.PointCross(b).Normalize()}
}

// c17Query returns a query point for the edge (a, b); cls selects the class.
func (g *G) c17Query(a, b s2.Point, cls int) s2.Point {
	r := g.rng
	onEdge := func() s2.Point {
		var t float64
		switch r.Intn(5) {
		case 0:
			t = 1e-15
		case 1:
			t = 1 - 1e-15
		case 2:
			t = 0.5
		default:
			t = r.Float()
		}
		return s2.Interpolate(t, a, b)
	}
	tiny := func() float64 { return g.c17LogU(1e-17, 1e-3) }
	pole := c17Pole(a, b)
	if r.Bool() {
		pole = c17Neg(pole)
	}
	switch cls {
	case 0:
		return a
	case 1:
		return b
	case 2: // an endpoint with one coordinate 1..2 ulps off
		if r.Bool() {
			return g.c17Nudge(a, 2)
		}
		return g.c17Nudge(b, 2)
	case 3: // on the edge
		return onEdge()
	case 4: // on the edge, one coordinate 1..2 ulps off
		return g.c17Nudge(onEdge(), 2)
	case 5: // displaced perpendicular to the edge
		return c17Move(onEdge(), pole.Vector, tiny())
	case 6: // beyond the ends along the great circle, maybe slightly off it
		var t float64
		if r.Bool() {
			t = -g.c17LogU(1e-15, 0.5)
		} else {
			t = 1 + g.c17LogU(1e-15, 0.5)
		}
		q := s2.Interpolate(t, a, b)
		if r.Intn(3) == 0 {
			q = c17Move(q, pole.Vector, tiny())
		}
		return q
	case 7: // the pole of the edge, exactly and nudged
		switch r.Intn(3) {
		case 0:
			return pole
		case 1:
			return g.c17Nudge(pole, 2)
		}
		return c17Move(pole, g.c17Tangent(pole), tiny())
	case 8: // antipodes
		var q s2.Point
		switch r.Intn(4) {
		case 0:
			q = c17Neg(a)
		case 1:
			q = c17Neg(b)
		case 2:
			q = c17Neg(s2.Interpolate(0.5, a, b))
		default:
			q = c17Neg(onEdge())
		}
		switch r.Intn(3) {
		case 0:
			return q
		case 1:
			return g.c17Nudge(q, 2)
		}
		return c17Move(q, g.c17Tangent(q), tiny())
	case 9: // about 90 degrees from the edge (squared chord about 2)
		e := []float64{0, tiny(), -tiny()}[r.Intn(3)]
		var q s2.Point
		switch r.Intn(4) {
		case 0:
			q = a
		case 1:
			q = b
		default:
			q = onEdge()
		}
		if r.Intn(3) == 0 { // a random direction perpendicular to q
			return c17Move(q, g.c17Tangent(q), math.Pi/2+e)
		}
		// in the plane through q and the pole: the closest point of the edge is q
		return c17Move(q, pole.Vector, math.Pi/2+e)
	case 10: // next to an endpoint, any direction, distance log-uniform [1e-17, 1]
		q := a
		if r.Bool() {
			q = b
		}
		return c17Move(q, g.c17Tangent(q), g.c17LogU(1e-17, 1))
	case 11: // next to the edge interior at larger distances
		return c17Move(onEdge(), pole.Vector, g.c17LogU(1e-3, 3.1))
	}
	return g.c17RandUnit()
}

const c17QueryClasses = 13

func c17ChordList(d, dmax s1.ChordAngle, extra ...float64) []float64 {
	l := []float64{float64(d), float64(d.Predecessor()), float64(d.Successor()), 0, 4, math.Inf(1), -1}
	l = append(l, extra...)
	return append(l, float64(dmax), float64(dmax.Predecessor()), float64(dmax.Successor()))
}

func (g *G) c17EmitPedist(x, a, b s2.Point) {
	if !c17ValidPt(x) || !c17ValidPt(a) || !c17ValidPt(b) || !c17ValidEdge(a, b) {
		return
	}
	d, _ := s2.VerifUpdateMinDistance(x, a, b, 0, true)
	dmax, _ := s2.UpdateMaxDistance(x, a, b, s1.NegativeChordAngle)
	ms := c17ChordList(d, dmax, 2, g.rng.Float()*4)
	g.emit("pedist", append(c17PtToks(x, a, b), c17FsTok(ms))...)
}

func (g *G) c17EmitEedist(e [4]s2.Point) {
	if !c17Valid4(e) {
		return
	}
	d, _ := s2.VerifUpdateEdgePairMinDistance(e[0], e[1], e[2], e[3], s1.InfChordAngle())
	dmax, _ := s2.VerifUpdateEdgePairMaxDistance(e[0], e[1], e[2], e[3], s1.NegativeChordAngle)
	ms := c17ChordList(d, dmax)
	g.emit("eedist", append(c17PtToks(e[:]...), c17FsTok(ms))...)
}

// c17CrossingPair returns a crossing pair (generic or uniform class of c16); after 30 failed attempts the last
// candidate is returned as it is (still valid input for eedist).
func (g *G) c17CrossingPair() [4]s2.Point {
	var e [4]s2.Point
	for i := 0; i < 30; i++ {
		e = g.c16Candidate([]int{0, 7, 7}[g.rng.Intn(3)])
		if c17Valid4(e) && s2.CrossingSign(e[0], e[1], e[2], e[3]) == s2.Cross {
			return e
		}
	}
	return e
}

// c17EdgePair returns an edge pair for eedist.
func (g *G) c17EdgePair() [4]s2.Point {
	r := g.rng
	a0, a1 := g.c17Edge()
	pole := c17Pole(a0, a1)
	if r.Bool() {
		pole = c17Neg(pole)
	}
	var e [4]s2.Point
	switch r.Intn(10) {
	case 0: // crossing
		return g.c17CrossingPair()
	case 1, 2: // close together, not crossing: b0 at distance h from a point of a, b1 further out on the same side
		h := g.c17LogU(1e-16, 1)
		q := s2.Interpolate([]float64{0, 1, 0.5, r.Float(), r.Float()}[r.Intn(5)], a0, a1)
		b0 := c17Move(q, pole.Vector, h)
		var b1 s2.Point
		switch r.Intn(3) {
		case 0: // straight away from a
			b1 = c17Move(q, pole.Vector, math.Min(h+g.c17LogU(1e-16, 1), 3))
		case 1: // sideways
			b1 = c17Move(b0, g.c17Tangent(b0), g.c17LogU(1e-16, 1))
		default: // above another point of a
			b1 = c17Move(s2.Interpolate(r.Float(), a0, a1), pole.Vector, g.c17LogU(1e-16, 1))
		}
		e = [4]s2.Point{a0, a1, b0, b1}
	case 3: // sharing a vertex
		b1 := g.c17Query(a0, a1, 3+r.Intn(10))
		e = [4]s2.Point{a0, a1, []s2.Point{a0, a1}[r.Intn(2)], b1}
		if r.Intn(4) == 0 { // the same edge / the reversed edge
			e[3] = []s2.Point{a0, a1}[r.Intn(2)]
		}
	case 4: // one or both degenerate
		x := g.c17Query(a0, a1, r.Intn(c17QueryClasses))
		switch r.Intn(3) {
		case 0:
			e = [4]s2.Point{a0, a1, x, x}
		case 1:
			e = [4]s2.Point{a0, a0, x, x}
		default:
			y := g.c17Query(a0, a1, r.Intn(c17QueryClasses))
			e = [4]s2.Point{a0, a0, x, y}
		}
	case 5: // parallel nearby edges
		h0 := g.c17LogU(1e-16, 1e-2)
		h1 := h0
		switch r.Intn(3) {
		case 0:
			h1 = g.c17LogU(1e-16, 1e-2)
		case 1:
			h1 = -h0 // crosses a in the middle
		}
		s := []float64{0, 0, g.c17LogU(1e-16, 1), -g.c17LogU(1e-16, 1)}[r.Intn(4)]
		q0 := s2.Interpolate(0+s, a0, a1)
		q1 := s2.Interpolate(1+s, a0, a1)
		e = [4]s2.Point{a0, a1, c17Move(q0, pole.Vector, h0), c17Move(q1, pole.Vector, h1)}
	case 6: // a crosses the antipodal reflection of b
		e = g.c17CrossingPair()
		e[2], e[3] = c17Neg(e[2]), c17Neg(e[3])
	case 7: // b about -a (reflected through the origin), exactly and nudged
		b0, b1 := c17Neg(a0), c17Neg(a1)
		switch r.Intn(4) {
		case 0:
		case 1:
			b0 = g.c17Nudge(b0, 2)
		case 2:
			b0 = c17Move(b0, g.c17Tangent(b0), g.c17LogU(1e-17, 1e-1))
			b1 = c17Move(b1, g.c17Tangent(b1), g.c17LogU(1e-17, 1e-1))
		default: // antipode of a close non-crossing neighbour
			h := g.c17LogU(1e-16, 1e-2)
			b0, b1 = c17Neg(c17Move(a0, pole.Vector, h)), c17Neg(c17Move(a1, pole.Vector, h))
		}
		e = [4]s2.Point{a0, a1, b0, b1}
	case 8: // b built from query points of a
		e = [4]s2.Point{a0, a1, g.c17Query(a0, a1, r.Intn(c17QueryClasses)), g.c17Query(a0, a1, r.Intn(c17QueryClasses))}
	default: // random
		b0, b1 := g.c17Edge()
		e = [4]s2.Point{a0, a1, b0, b1}
	}
	return g.c17Shuffle(e)
}

// c17Polyline returns n vertices: a random walk with steps log-uniform [1e-12, 1], occasional duplicate consecutive
// vertices and exactly reversing steps.
func (g *G) c17Polyline(n int) []s2.Point {
	r := g.rng
	var v []s2.Point
	if r.Intn(4) == 0 {
		v = append(v, s2.Point{Vector: g.c17AxisFrame().p})
	} else {
		v = append(v, g.c17RandUnit())
	}
	lo, hi := 1e-12, 1.0
	switch r.Intn(4) {
	case 0:
		hi = 1e-6
	case 1:
		lo = 1e-3
	}
	for len(v) < n {
		last := v[len(v)-1]
		switch k := r.Intn(10); {
		case k == 0: // zero-length segment
			v = append(v, last)
		case k == 1 && len(v) >= 2: // exactly reversing step
			v = append(v, v[len(v)-2])
		default:
			nx := c17Move(last, g.c17Tangent(last), g.c17LogU(lo, hi))
			if !c17ValidPt(nx) {
				nx = last
			}
			v = append(v, nx)
		}
	}
	return v
}

func (g *G) c17EmitPlint() {
	r := g.rng
	var n int
	switch k := r.Intn(50); {
	case k == 0:
		n = 1000
	case k < 4:
		n = 100
	case k < 9:
		n = 20
	default:
		n = 1 + r.Intn(8)
	}
	v := g.c17Polyline(n)
	pl := s2.Polyline(v)
	total := pl.Length()
	fs := []float64{0, 1, -0.5, 1.5, 0.5, 1e-300, 1 - 0x1p-53}
	if n >= 2 && total > 0 {
		// exact cumulative fraction at up to 4 vertices (summed as Uninterpolate does), and its two neighbours
		cum := make([]s1.Angle, n)
		for i := 1; i < n; i++ {
			cum[i] = cum[i-1] + v[i-1].Distance(v[i])
		}
		for j := 0; j < 4 && j < n; j++ {
			i := r.Intn(n)
			f := float64(cum[i] / total)
			if math.IsNaN(f) || math.IsInf(f, 0) {
				continue
			}
			fs = append(fs, f, c17Ulps(f, 1), c17Ulps(f, -1))
		}
	}
	for j := 0; j < 4; j++ {
		fs = append(fs, r.Float())
	}
	args := []string{is(n)}
	args = append(args, c17PtToks(v...)...)
	args = append(args, c17FsTok(fs))
	g.emit("plint", args...)
	// Project of arbitrary query points: far away, near the antipode of the polyline (within 1e-9 .. 1e-6 rad: squared chords
	// saturate at 4), next to a vertex, generic
	if n >= 2 {
		nq := 1
		if n <= 8 {
			nq = 3
		}
		for j := 0; j < nq; j++ {
			var q s2.Point
			switch r.Intn(5) {
			case 0, 1: // antipode of a vertex, moved by a tiny step
				a := v[r.Intn(n)]
				anti := s2.Point{Vector: a.Mul(-1)}
				q = anti
				if r.Bool() {
					q = c17Move(anti, g.c17Tangent(anti), g.c17LogU(1e-12, 1e-6))
				}
			case 2:
				a := v[r.Intn(n)]
				q = c17Move(a, g.c17Tangent(a), g.c17LogU(1e-12, 1e-2))
			default:
				q = g.c17RandUnit()
			}
			if !c17ValidPt(q) {
				continue
			}
			pa := []string{is(n)}
			pa = append(pa, c17PtToks(v...)...)
			pa = append(pa, c17PtToks(q)...)
			g.emit("plproj", pa...)
		}
	}
}

func genC17(g *G) {
	r := g.rng
	g.emit("c17const")
	c17EmitKnown(g, c17KnownF7)
	c17EmitKnown(g, c17KnownF10)
	if g.shardK == 0 {
		c17EmitLongPairs(g)
	}
	guard := 0
	for g.count < g.n+1 && guard < 20*g.n+100 {
		guard++
		switch k := r.Intn(100); {
		case k < 60:
			a, b := g.c17Edge()
			// the classes with the closest point in the edge interior get a double / triple weight
			cls := []int{0, 1, 2, 3, 3, 4, 4, 5, 5, 5, 6, 7, 8, 9, 10, 10, 11, 11, 12}[r.Intn(19)]
			g.c17EmitPedist(g.c17Query(a, b, cls), a, b)
		case k < 85:
			g.c17EmitEedist(g.c17EdgePair())
		default:
			g.c17EmitPlint()
		}
	}
}
