// Command harness drives the real golang/geo code (built with -tags verif) and
// prints one line per operation in the line protocol understood by the Lean
// oracle:   <op> <arg>… = <implementation result>…
//
// usage: harness <generator> [-seed N] [-n N] [-tier quick|thorough] [-shard k/m]
//        harness replay            (reads `<op> <arg>…` lines on stdin, re-executes them)
package main

import (
	"bufio"
	"flag"
	"fmt"
	"os"
	"strings"
)

type genFunc func(g *G)

var generators = map[string]genFunc{}

// replayers re-execute one op line (op + args) and return the result tokens.
var replayers = map[string]func(args []string) []string{}

func main() {
	if len(os.Args) < 2 {
		fmt.Fprintln(os.Stderr, "usage: harness <generator|replay|list> [flags]")
		os.Exit(2)
	}
	name := os.Args[1]
	fs := flag.NewFlagSet(name, flag.ExitOnError)
	seed := fs.Uint64("seed", 1, "PRNG seed")
	n := fs.Int("n", 1000, "case count scale")
	tier := fs.String("tier", "quick", "quick|thorough")
	shard := fs.String("shard", "0/1", "k/m")
	fs.Parse(os.Args[2:])
	out := bufio.NewWriterSize(os.Stdout, 1<<20)
	defer out.Flush()
	switch name {
	case "list":
		for k := range generators {
			fmt.Fprintln(out, k)
		}
		return
	case "replay":
		sc := bufio.NewScanner(os.Stdin)
		sc.Buffer(make([]byte, 1<<26), 1<<26)
		for sc.Scan() {
			line := strings.TrimSpace(sc.Text())
			if line == "" {
				continue
			}
			toks := strings.Fields(line)
			var args []string
			for _, t := range toks[1:] {
				if t == "=" {
					break
				}
				args = append(args, t)
			}
			f, ok := replayers[toks[0]]
			if !ok {
				fmt.Fprintf(out, "%s %s = ERR-unknown-op\n", toks[0], strings.Join(args, " "))
				continue
			}
			res := safely(func() []string { return f(args) })
			fmt.Fprintf(out, "%s %s = %s\n", toks[0], strings.Join(args, " "), strings.Join(res, " "))
		}
		return
	}
	gen, ok := generators[name]
	if !ok {
		fmt.Fprintf(os.Stderr, "unknown generator %q\n", name)
		os.Exit(2)
	}
	var k, m int
	fmt.Sscanf(*shard, "%d/%d", &k, &m)
	if m <= 0 {
		m = 1
	}
	g := &G{rng: newRNG(*seed*1000003 + uint64(k)*7919 + 17), n: *n, thorough: *tier == "thorough", out: out, shardK: k, shardM: m}
	gen(g)
}

// safely runs f, converting a panic into a single PANIC token.
func safely(f func() []string) (res []string) {
	defer func() {
		if r := recover(); r != nil {
			msg := strings.ReplaceAll(fmt.Sprint(r), " ", "_")
			res = []string{"PANIC:" + msg}
		}
	}()
	return f()
}

// G is the generator context.
type G struct {
	rng      *RNG
	n        int
	thorough bool
	out      *bufio.Writer
	shardK   int
	shardM   int
	count    int
}

// emit runs op through its replayer and prints the line.
func (g *G) emit(op string, args ...string) {
	g.count++
	f := replayers[op]
	if f == nil {
		panic("no replayer for " + op)
	}
	res := safely(func() []string { return f(args) })
	g.out.WriteString(op)
	for _, a := range args {
		g.out.WriteByte(' ')
		g.out.WriteString(a)
	}
	g.out.WriteString(" =")
	for _, r := range res {
		g.out.WriteByte(' ')
		g.out.WriteString(r)
	}
	g.out.WriteByte('\n')
}
