#!/usr/bin/env python3
"""Run every seeded change (seeded/<id>/patch.diff) against the check of its property (and any extra
properties given as id:Cxx,Cyy on the command line) and record what fired.
usage: lib/seeded_matrix.py [--tier quick] [--only C05_1,C07_3] [--extra C12_2:C06]   -> seeded/RESULTS.json
Run it from a snapshot copy of /verif (rsync -a --exclude .git /verif/ /tmp/vsnap/) when /verif is in use."""
import json, os, re, subprocess, sys, glob, time
ROOT = os.path.dirname(os.path.dirname(os.path.abspath(__file__)))
def main():
    a = sys.argv[1:]; tier = "quick"; only = None; extra = {}
    while a:
        x = a.pop(0)
        if x == "--tier": tier = a.pop(0)
        elif x == "--only": only = set(a.pop(0).split(","))
        elif x == "--extra":
            k, v = a.pop(0).split(":"); extra.setdefault(k, []).extend(v.split(","))
    out_path = os.path.join(ROOT, "seeded", "RESULTS.json")
    res = json.load(open(out_path)) if os.path.exists(out_path) else {}
    for d in sorted(glob.glob(os.path.join(ROOT, "seeded", "C*_*"))):
        sid = os.path.basename(d)
        if only and sid not in only: continue
        meta = json.load(open(os.path.join(d, "meta.json")))
        props = [meta["property"]] + extra.get(sid, [])
        for pid in props:
            t0 = time.time()
            p = subprocess.run([os.path.join(ROOT, "lib", "try_seeded.sh"), os.path.join(d, "patch.diff"), pid, tier],
                               capture_output=True, text=True)
            lines = [l for l in p.stdout.splitlines() if l.startswith(("VIOLATION", "OK ", "exit=", "PATCH"))]
            clauses = []
            for l in lines:
                m = re.match(r"VIOLATION property=\S+ replay=(\S+)(.*)", l)
                if m and os.path.exists(m.group(1)):
                    r = json.load(open(m.group(1)))
                    c = r.get("kind", "?") + ":" + str(r.get("clause") or r.get("broken") or "")[:80]
                    if "no-failing-input-found" in m.group(2): c += " (no-failing-input-found)"
                    clauses.append(c)
            detected = any(l.startswith("VIOLATION") for l in lines)
            res.setdefault(sid, {})[pid] = {"tier": tier, "detected": detected, "fired": sorted(set(clauses))[:6],
                                            "seconds": round(time.time() - t0)}
            print(sid, pid, "DETECTED" if detected else "MISSED", sorted(set(clauses))[:3], flush=True)
            json.dump(res, open(out_path, "w"), indent=1, sort_keys=True)
main()
