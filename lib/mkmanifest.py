#!/usr/bin/env python3
"""Regenerates /verif/MANIFEST.json from lib/props.py (run after editing props.py)."""
import json, os, sys
ROOT = os.path.dirname(os.path.dirname(os.path.abspath(__file__)))
sys.path.insert(0, os.path.join(ROOT, "lib"))
from props import PROPS
from levels import LEVELS
ALL = [f"C{i:02d}" for i in range(1, 21)]
hooks_commits = [l.strip() for l in open(os.path.join(ROOT, "lib", "hook_commits.txt")) if l.strip()] if os.path.exists(os.path.join(ROOT, "lib", "hook_commits.txt")) else []
m = {
    "version": 1,
    "setup_cmd": "cd /verif && ./check setup",
    "hooks": {
        "guard": "verif",
        "enable": "go build -tags verif (the harness module in /verif/harness replaces github.com/golang/geo with /repo)",
        "baseline_off_cmd": "cd /repo && go test -vet=off -count=1 ./...",
        "source_commits": hooks_commits,
        "add_only": True,
    },
    "engines": [
        {"name": "lean-model-and-proofs", "path": "lean/", "serves_properties": sorted(PROPS.keys()),
         "kind_free_text": "Lean 4 model of the code (lean/S2), property theorems (lean/S2Proofs/Properties), "
                           "regenerated-instance obligations (lean/S2/Generated + lean/S2Proofs/Ties), oracle executable (lean/Oracle)"},
    ] + [
        {"name": t, "path": t + "/", "serves_properties": sorted(k for k, c in PROPS.items() if t in c.get("translators", [])),
         "kind_free_text": "Go (go/parser + go/types + go/constant) -> Lean translation of library source, re-run on every check; "
                           "output lean/S2/Generated/*.lean, tied to the hand model by lean/S2Proofs/Ties/<Cxx>*.lean; mutation self-test in " + t + "/selftest"}
        for t in sorted(d for d in os.listdir(ROOT) if d.startswith("translator_") and os.path.exists(os.path.join(ROOT, d, "main.go")))
    ] + [
        {"name": "correspondence-harness", "path": "harness/", "serves_properties": sorted(PROPS.keys()),
         "kind_free_text": "Go program calling the real code in-process (tag verif), line protocol to the Lean oracle which runs the model and judges the property"},
    ],
    "checks": [],
    "not_applicable": [],
    "notes": "All checks: ./check <id> quick|thorough. See DESIGN.md.",
}
for pid in ALL:
    if pid in PROPS:
        c = PROPS[pid]
        m["checks"].append({
            "property_id": pid,
            "quick_cmd": f"./check {pid} quick",
            "thorough_cmd": f"./check {pid} thorough",
            "evidence_file": f"/verif/evidence/{pid}.json",
            "replay_cmd_template": "./check --replay {path}",
            "engine": "lean-model-and-proofs",
            "level_claimed": {"category": "proof", "text": LEVELS[pid]["text"], "design_ref": f"DESIGN.md §4 {pid}"},
            "level_note": LEVELS[pid]["note"],
            "technique": LEVELS[pid]["technique"],
        })
    else:
        m["not_applicable"].append({"property_id": pid, "reason": "check not built yet (work in progress; see DESIGN.md §8 build order)"})
json.dump(m, open(os.path.join(ROOT, "MANIFEST.json"), "w"), indent=1)
print("wrote MANIFEST.json with", len(m["checks"]), "checks")
