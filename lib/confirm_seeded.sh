#!/bin/bash
# usage: lib/confirm_seeded.sh <dir with patch.diff demo_test.go meta.json>
# Confirms a candidate seeded change in a fresh scratch worktree of /repo (never /repo itself):
#   demo passes WITHOUT the patch, patch applies, builds with and without -tags verif, demo FAILS with the patch,
#   the whole pinned suite passes with the patch.  Prints one summary line: without:<rc> with:<rc> suite:<rc> verifbuild:<rc>
set -u
export GOFLAGS=-mod=mod GOPROXY=off GOSUMDB=off GOTOOLCHAIN=local
D=$(realpath "$1")
WT=/tmp/seedconfirm/$$; mkdir -p /tmp/seedconfirm
git -C /repo worktree add -q --detach "$WT" HEAD || exit 2
cleanup() { git -C /repo worktree remove --force "$WT" >/dev/null 2>&1; }
trap cleanup EXIT
DEMOPKG=$(python3 -c "import json,sys;m=json.load(open('$D/meta.json'));print(m.get('demo_location','s2/demo_test.go').split(' ')[0])")
DEMODIR=$(dirname "$DEMOPKG")
DEMORUN=$(grep -o 'func Test[A-Za-z0-9_]*' "$D/demo_test.go" | sed 's/func //' | paste -sd'|')
mkdir -p "$WT/$DEMODIR"; cp "$D/demo_test.go" "$WT/$DEMODIR/zz_demo_test.go"
( cd "$WT" && go test -vet=off -count=1 -run "^($DEMORUN)\$" ./$DEMODIR >/tmp/seedconfirm/$$.without 2>&1 ); W0=$?
( cd "$WT" && git apply "$D/patch.diff" ) || { echo "PATCH DOES NOT APPLY"; exit 2; }
( cd "$WT" && go build ./... && go build -tags verif ./... ) >/tmp/seedconfirm/$$.build 2>&1; VB=$?
( cd "$WT" && go test -vet=off -count=1 -run "^($DEMORUN)\$" ./$DEMODIR >/tmp/seedconfirm/$$.with 2>&1 ); W1=$?
rm -f "$WT/$DEMODIR/zz_demo_test.go"
( cd "$WT" && go test -vet=off -count=1 -timeout 25m ./... >/tmp/seedconfirm/$$.suite 2>&1 ); S=$?
echo "$(basename "$D") without:$W0 with:$W1 suite:$S verifbuild:$VB"
[ $W1 -eq 0 ] && tail -5 /tmp/seedconfirm/$$.with
[ $S -ne 0 ] && grep -E "^(--- FAIL|FAIL)" /tmp/seedconfirm/$$.suite | head
[ $W0 -ne 0 ] && tail -15 /tmp/seedconfirm/$$.without
rm -f /tmp/seedconfirm/$$.*
exit 0
