#!/bin/bash
# usage: lib/try_seeded.sh <patch.diff> <Cxx> [quick|thorough]
# Applies a seeded change to a scratch worktree of /repo (never to /repo itself), runs the check of this
# verif tree (the one this script lives in; may be a snapshot copy) against it (VERIF_REPO), prints the
# verdict lines, removes the worktree and regenerates the translated files for the real tree.
set -u
ROOT=$(cd "$(dirname "$0")/.." && pwd)
PATCH=$(realpath "$1"); PID=$2; TIER=${3:-quick}
WT=/tmp/seedtest/$$; mkdir -p /tmp/seedtest
git -C /repo worktree add -q --detach "$WT" HEAD || exit 2
( cd "$WT" && git apply "$PATCH" ) || { echo "PATCH DOES NOT APPLY"; git -C /repo worktree remove --force "$WT"; exit 2; }
cd "$ROOT"
export VERIF_REPO="$WT"
./check "$PID" "$TIER" 2>&1 | grep -v "^\[" | head -8
RC=${PIPESTATUS[0]}
git -C /repo worktree remove --force "$WT"
unset VERIF_REPO
ROOT="$ROOT" python3 - <<'PY'
import os, importlib.machinery, importlib.util
root=os.environ['ROOT']
loader=importlib.machinery.SourceFileLoader('chk',root+'/check'); spec=importlib.util.spec_from_loader('chk',loader); m=importlib.util.module_from_spec(spec); loader.exec_module(m)
m.run_translator()
PY
echo "exit=$RC"
