#!/bin/bash
# usage: lib/try_seeded.sh <patch.diff> <Cxx> [quick|thorough]
# Applies a seeded change to a scratch worktree of /repo (never to /repo itself), runs the check against it
# (VERIF_REPO), prints the verdict, removes the worktree.
set -u
PATCH=$(realpath "$1"); PID=$2; TIER=${3:-quick}
WT=/tmp/seedtest/$$; mkdir -p /tmp/seedtest
git -C /repo worktree add -q --detach "$WT" HEAD || exit 2
( cd "$WT" && git apply "$PATCH" ) || { echo "PATCH DOES NOT APPLY"; git -C /repo worktree remove --force "$WT"; exit 2; }
cd /verif
export VERIF_REPO="$WT"
# separate lean Generated dir is shared: regenerate from the seeded tree, then restore afterwards
./check "$PID" "$TIER" 2>&1 | grep -v "^\[" | head -8
RC=${PIPESTATUS[0]}
git -C /repo worktree remove --force "$WT"
unset VERIF_REPO
# restore generated files for the real tree
python3 - <<'PY'
import sys; sys.path.insert(0,'/verif'); 
import importlib.machinery, importlib.util
loader=importlib.machinery.SourceFileLoader('chk','/verif/check'); spec=importlib.util.spec_from_loader('chk',loader); m=importlib.util.module_from_spec(spec); loader.exec_module(m)
m.run_translator()
PY
echo "exit=$RC"
