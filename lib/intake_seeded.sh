#!/bin/bash
# usage: lib/intake_seeded.sh <id> [--extra Cyy,Czz]
# Intake of an independently produced breaking change delivered in /tmp/seedw/out/<id>/: confirm it in a scratch
# worktree (lib/confirm_seeded.sh), keep it as seeded/<id>/ when confirmed, run the quick check of its property
# against it (lib/seeded_matrix.py --only <id>) and record the verdict in seeded/RESULTS.json.
set -u
ID=$1; shift
ROOT=$(cd "$(dirname "$0")/.." && pwd); cd "$ROOT"
SRC=/tmp/seedw/out/$ID
[ -f "$SRC/patch.diff" ] || { echo "no delivery in $SRC"; exit 2; }
R=$(lib/confirm_seeded.sh "$SRC" 2>&1 | tail -12); echo "$R"
echo "$R" | grep -q "without:0 with:1 suite:0 verifbuild:0" || { echo "NOT CONFIRMED: $ID"; exit 1; }
mkdir -p seeded/$ID && cp "$SRC"/patch.diff "$SRC"/demo_test.go "$SRC"/meta.json seeded/$ID/
python3 - "$ID" <<'PY'
import json,sys
p=f"seeded/{sys.argv[1]}/meta.json"; m=json.load(open(p))
m["confirmed_by_us"]="lib/confirm_seeded.sh: fresh worktree of /repo HEAD; demo passes without the patch (rc 0), fails with it (rc 1), whole suite passes with it (rc 0), builds with -tags verif"
json.dump(m,open(p,"w"),indent=1)
PY
EXTRA=""
if [ "${1:-}" = "--extra" ]; then EXTRA="--extra $ID:$2"; fi
python3 lib/seeded_matrix.py --tier quick --only $ID $EXTRA
