#!/bin/bash
# usage: lib/intake_snap.sh <id>...   — like lib/intake_seeded.sh, but runs in a snapshot copy of this tree (/tmp/vsnap) so that the
# checks of this tree can be used meanwhile; copies seeded/<id>/ back and merges the verdicts into seeded/RESULTS.json.
set -u
ROOT=$(cd "$(dirname "$0")/.." && pwd)
mkdir -p /tmp/vsnap
rsync -a --delete --exclude .git --exclude .work --exclude replays "$ROOT"/ /tmp/vsnap/
cd /tmp/vsnap
for id in "$@"; do lib/intake_seeded.sh "$id"; done
for id in "$@"; do [ -d seeded/$id ] && rsync -a seeded/$id/ "$ROOT"/seeded/$id/; done
python3 - "$ROOT" "$@" <<'PY'
import json,sys
root=sys.argv[1]; ids=sys.argv[2:]
snap=json.load(open('/tmp/vsnap/seeded/RESULTS.json')); cur=json.load(open(root+'/seeded/RESULTS.json'))
for i in ids:
    if i in snap: cur[i]=snap[i]
json.dump(cur,open(root+'/seeded/RESULTS.json','w'),indent=1,sort_keys=True)
PY
