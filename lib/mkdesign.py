#!/usr/bin/env python3
"""Assemble /verif/DESIGN.md from docs/design_parts/*.md and the seeded-change matrix (seeded/RESULTS.json)."""
import json, os, glob
ROOT = os.path.dirname(os.path.dirname(os.path.abspath(__file__)))
def seeded_section():
    res_path = os.path.join(ROOT, "seeded", "RESULTS.json")
    res = json.load(open(res_path)) if os.path.exists(res_path) else {}
    out = []
    out.append("## 10. Seeded breaking changes: which checks catch which\n")
    out.append(open(os.path.join(ROOT, "docs", "design_parts", "90_seeded_intro.md")).read())
    out.append("\n| id | what was changed (one line) | needs to manifest | checks run → verdict (clauses that fired) |\n|---|---|---|---|\n")
    n = det = 0
    for d in sorted(glob.glob(os.path.join(ROOT, "seeded", "C*_*"))):
        sid = os.path.basename(d)
        m = json.load(open(os.path.join(d, "meta.json")))
        r = res.get(sid, {})
        cells = []
        any_det = False
        for pid, v in sorted(r.items()):
            any_det |= v["detected"]
            fired = "; ".join(v["fired"][:3])
            cells.append(f"{pid} {v['tier']}: **{'VIOLATION' if v['detected'] else 'missed'}**" + (f" ({fired})" if fired else ""))
        n += 1; det += any_det
        short = lambda t, k: (t[:k] + "…") if len(t) > k else t
        out.append(f"| {sid} | {short(m.get('title',''), 160)} | {short(m.get('needs_to_manifest',''), 200)} | {'<br>'.join(cells) or 'not run yet'} |\n".replace("\n|", " |").replace("\n", " ") + "\n")
    out.append(f"\nDetected by the check of their own property (or a listed extra property): {det} of {n}.\n")
    return "".join(out)
def property_table():
    """| id | property theorems (files) | tie theorems | label | — counted from the Lean sources (`^theorem `)."""
    import re
    labels = json.load(open(os.path.join(ROOT, "docs", "design_parts", "labels.json")))
    def count(path):
        src = open(path).read()
        src = re.sub(r"/-.*?-/", "", src, flags=re.S); src = re.sub(r"--[^\n]*", "", src)
        return len(re.findall(r"^theorem\s", src, re.M))
    rows = ["| id | property theorems (file: count) | regenerated-tie theorems (file: count) | label as built |", "|---|---|---|---|"]
    tot_p = tot_t = 0
    for k in range(1, 21):
        pid = f"C{k:02d}"
        cells = []
        for sub in ("Properties", "Ties"):
            d = os.path.join(ROOT, "lean", "S2Proofs", sub)
            fs = sorted(glob.glob(os.path.join(d, pid + ".lean")) + glob.glob(os.path.join(d, pid + "_*.lean")))
            items = [(os.path.basename(f)[:-5], count(f)) for f in fs]
            n = sum(c for _, c in items)
            if sub == "Properties": tot_p += n
            else: tot_t += n
            cells.append((f"**{n}** = " + ", ".join(f"{a} {c}" for a, c in items)) if items else "–")
        rows.append(f"| {pid} | {cells[0]} | {cells[1]} | {labels.get(pid, '')} |")
    rows.append(f"| all | **{tot_p}** | **{tot_t}** | |")
    return "\n".join(rows)
def main():
    parts = sorted(glob.glob(os.path.join(ROOT, "docs", "design_parts", "[0-8]*.md")))
    txt = "\n".join(open(p).read().rstrip() + "\n\n---------------------------------------------------------------------------\n" for p in parts)
    txt = txt.replace("<<PROPERTY_TABLE>>", property_table())
    txt += "\n" + seeded_section()
    open(os.path.join(ROOT, "DESIGN.md"), "w").write(txt)
    print("wrote DESIGN.md", len(txt.splitlines()), "lines")
main()
