"""Per-property claim texts for MANIFEST.json (level_claimed.text, level_note, technique).
Kept apart from lib/props.py so that merging work-package snippets cannot clobber them."""

COMMON_NOTE = ("Trusted: Lean 4.33 kernel (axioms propext, Classical.choice, Quot.sound only; audited by #print axioms on every "
               "property theorem and tie on every run; no sorry/native_decide/bv_decide), the Go->Lean translators (translator*/) "
               "and the correspondence harness + generators, the soft-float model S2.F64 (PROVED correctly rounded, S2Proofs/F64Round*.lean; also validated bit-exactly "
               "against Go on every run). A theorem is about the Lean model; the model is tied to /repo on every run by regenerated definitions "
               "(rfl/decide ties) and by running model and implementation on the same generated inputs. ")

LEVELS = {
 "C01": dict(
  technique="Lean 4 theorems on a UInt64 model of cellid.go (IsCell bridge lemmas, Hilbert table bijection) + bit-exact model/implementation correspondence incl. soft-float wrap",
  text="Proof: all discrete claims (canonical form, parent/child/range/level laws, children partition the range, curve steps, token/string "
       "round trips, Hilbert (face,i,j) bijection, same-face neighbours) are Lean theorems for all ids at all 31 levels. Partial: the "
       "float margin of Cell.ContainsPoint and the cross-face wrap are modelled bit-exactly in a soft-float and compared/judged "
       "exactly (integer cube-box adjacency) on exhaustive low levels + boundary-targeted ids and points.",
  note=COMMON_NOTE + "Not proved: sufficiency of the dblEpsilon margin; cross-face branch of cellIDFromFaceIJWrap."),
 "C02": dict(
  technique="Lean 4 theorems on the exact layer (exact sign, simulation of simplicity as a ring identity, distance comparisons) + bit-exact soft-float model of every float stage compared with Go",
  text="Proof: exact sign = sign of det; zero iff two equal arguments; rotation/swap laws for all inputs; the symbolic perturbation equals "
       "the sign of a genuinely perturbed determinant for all small eps (polynomial identity + lowest-coefficient lemma); distance "
       "predicates antisymmetric and exact. The float cascade is exact GIVEN its error bounds (theorems …_given_error_bound). Partial: "
       "sufficiency of the error constants is searched (stage result non-zero => equals exact sign) on adversarial triples.",
  note=COMMON_NOTE + "Global (n-point) consistency of the symbolic perturbation is proved (C02_Global.lean: sos_global_holds; C02_Chirotope.lean: the decision is a realisable chirotope, Grassmann-Pluecker and Knuth axioms for ALL integer vectors). Not proved: the float error constants themselves."),
 "C03": dict(
  technique="Lean 4 refinement proof: EdgeCrosser state machine = stateless exact crossing for every op history; symmetry and vertex-rule theorems; bit-exact correspondence",
  text="Proof: symmetry of the exact four-orientation criterion, VertexCrossing rules, 'exactly one of two edges at a shared vertex', and "
       "(under the named float-soundness hypothesis) CrossingSign = exact criterion, MaybeCross iff shared endpoint, and the crosser's "
       "outputs equal the stateless function for ALL call histories (invariant on the cached orientation). Partial: float soundness "
       "(triage/stable/tangent tests) is searched against the exact criterion on 8 argument orders and random histories.",
  note=COMMON_NOTE + "SignLaws/RSLaws are discharged for the exact sign on finite points (C03_Exact.lean; the ±0-twin side condition of "
       "'unit' is shown necessary). FloatSound (error bounds of triage/stable/tangent tests) stays an explicit hypothesis, searched on every run."),
 "C04": dict(
  technique="Lean 4 theorems on an exact containment model (crossing parity, inversion, polygon XOR, path equality under index invariants) + exact oracle vs 15 evaluation paths",
  text="Proof: parity/inversion law at every point, polygon containment = XOR = containsBruteForce, index path / query-object path = brute "
       "force under explicit index invariants I1-I3 and the parity-cocycle hypothesis; vertex models. The invariants are checked "
       "exactly on every generated index (exact rational clipping), and every path of the real code is compared with the exact parity. "
       "Partial: 'cell loops tile the sphere' is geometry, searched exhaustively on levels 1-3 and sampled deeper.",
  note=COMMON_NOTE + "EqLaws/sign-swap/CrossLaws are discharged for the exact geometry on finite vectors (C04_Exact.lean). "
       "Assumed geometry: ParityCocycle, locality of edges in padded cells, Jordan-type tiling."),
 "C05": dict(
  technique="Lean 4 theorems on the coverer over an abstract region (level discipline, covering/interior soundness for every pop order) + exact judging of real coverings",
  text="Proof: level discipline, covering superset and interior subset for every configuration and abstract region with one-sidedly safe "
       "predicates. Partial: safety of the concrete numeric region predicates is searched with grazing cells and exact membership.",
  note=COMMON_NOTE),
 "C06": dict(
  technique="Regenerated accessor arithmetic (translator_c06, rfl ties) + Lean contract theorems for every Shape type and cell location; index queries = brute force under checked invariants",
  text="Proof: Shape chain contract for all sizes (Loop, Polyline, LaxPolyline, LaxLoop, LaxPolygon, PointVector, Polygon with any number of loops = both search paths), "
       "LocatePoint/LocateCellID on every sorted disjoint cell list, PaddedCell bookkeeping (the two constructors agree; entry/exit vertices chain along the Hilbert curve at every level), index queries = brute force under I1-I3; accessor expressions are "
       "re-translated from the Go source on every run and tied by rfl (Polygon search loops: by proved equality). Invariants and all queries are judged exactly on generated collections.",
  note=COMMON_NOTE + "Polygon state construction (initEdgesAndIndex) and ShapeIndex construction are tied by correspondence only."),
 "C07": dict(
  technique="Lean 4 theorems on exact brute-force relations and on loop nesting (all insertion orders) + exact O(n*m) oracle vs index walk",
  text="Proof: nesting depths/pre-order/hole parity for every insertion order; wedge dualities; set-algebra laws at model level. Partial: "
       "the index walk and bounding-rectangle shortcuts are compared with the exact relation on structured loop pairs.",
  note=COMMON_NOTE + "SgLaws is discharged for the exact geometry on all inputs and the point-inversion law is proved (C07_Exact.lean); the Jordan-type same-side hypotheses of the complement laws and SimpleLoop remain explicit."),
 "C08": dict(
  technique="Lean 4 theorems on result post-processing, initial covering and abstract best-first search + optimized-vs-brute-force oracle over the option grid",
  text="Proof: post-processing, initCovering covers every index cell with <= 6 cells, best-first search returns the k best given true lower "
       "bounds. Partial: numeric lower bounds (C12/C17); the optimized path is compared with brute force and exact distances.",
  note=COMMON_NOTE),
 "C09": dict(
  technique="Lean 4 round-trip theorems for every codec layer and all nine types on a byte-level model (bit-exact soft-float for snapping) + byte-for-byte correspondence",
  text="Proof (full at model level): uvarint/LE/zig-zag/interleave/derivative-coder/face-run round trips, compressed point lists, and "
       "decode(encode v) = v for all nine types and both polygon formats whichever is chosen; the encoder's bytes and the decoder's "
       "values are compared with Go on structured values; decoded values are also queried and compared.",
  note=COMMON_NOTE + "Hypothesis si,ti <= 2^31 of the snap theorems is not derived from the float model; bounds recomputed by decoders are outside the model."),
 "C10": dict(
  technique="Lean 4 theorems on bound composition and the monotone-chain hull over abstract orientation laws + exact membership judge on computed lat/lng",
  text="Proof: composition of per-edge bounds, pole handling logic, convex hull convexity/containment under orientation axioms. Partial: "
       "RectBounder / cap / cell padding constants are searched with extremal probes judged exactly.",
  note=COMMON_NOTE + "The orientation axioms of the hull are discharged for point sets in general position inside an open half-space (Grassmann-Pluecker, C10_Exact.lean); and for ALL (also degenerate) point sets in an open half-space via the global perturbation theorem (C10_Degenerate.lean)."),
 "C11": dict(
  technique="Lean 4 theorems: Normalize = unique normal form preserving the leaf set; every CellUnion operation = leaf-set operation; minimal tilings (all inputs) + correspondence",
  text="Proof (full): normalize preserves leaves, output normalized, unique and minimal; containment/intersection tests, union, "
       "intersection (incl. fuel), difference, denormalize, leaf counts, range tilings = leaf-set specifications for all inputs. "
       "CellIndex (build, range iterator, contents iterator for any StartUnion sequence) and s2intersect.Find are proved correct "
       "for all inputs within the Add contract (C11_Index.lean) and additionally judged on every run.",
  note=COMMON_NOTE),
 "C12": dict(
  technique="Lean 4 theorems (children = direct construction bit-exactly; id-range containment) on a soft-float Cell model + exact distance judge",
  text="Proof: Cell.Children equals CellFromCellID(child) incl. bit-identical uv bounds; exact-arithmetic containment. Partial: float margin "
       "and distance functions judged against exact rational/enclosure distances.",
  note=COMMON_NOTE),
 "C13": dict(
  technique="Lean 4 theorems over ALL finite histories of an index/query bookkeeping model (answers = fresh-object answers, options preserved, never stuck) + history replay on the real code with watchdog",
  text="Proof (model): for every finite history the answer equals the fresh-object answer, options are preserved, Invert twice is the "
       "identity, no state is stuck. The real code is run on all short and many random histories in a child process and compared with "
       "the model and with fresh objects. The pre-repair model variants are kept with their shortest failing histories as regression witnesses.",
  note=COMMON_NOTE + "Geometry is abstracted (answer = visible shapes + effective options); tied by the fresh-object comparison."),
 "C14": dict(
  technique="Lean 4 invariant proof for N threads and all interleavings of the regenerated maybeApplyUpdates protocol + forced schedules under the Go race detector",
  text="Proof: for every N and every interleaving of any WellFormed program: no read/write race on the cell map, readers see the complete "
       "index, updates applied exactly once, no deadlock; the program is regenerated from shapeindex.go and WellFormed is decided. Partial: "
       "that the Go functions touch only the modelled shared state is checked by forced schedules under -race, not proved.",
  note=COMMON_NOTE + "Go memory model as encoded in S2.Protocol (SC atomics, mutex)."),
 "C15": dict(
  technique="Decoder IR regenerated from the Go AST; Lean theorem: every guarded IR is total, panic-free and allocation-bounded; per-decoder guards by decide; fuzzing in a child process",
  text="Proof: for every program passing the decidable guard predicate and every byte string the interpreter returns error or value, never "
       "panics/hangs, allocation bounded; each real decoder's IR is regenerated on every run and must pass the guard (decide). The real "
       "decoders run on mutated encodings in a child process with memory limits; decoded values are queried.",
  note=COMMON_NOTE + "Opaque post-processing called by decoders and later queries are outside the IR (covered by the child-process half). Known finding D21."),
 "C16": dict(
  technique="Lean 4 order-independence theorem for the Intersection selection logic + exact-enclosure accuracy judge over 8 argument orders",
  text="Proof: the edge ordering is a total order and the result depends only on the unordered pair of unordered edges (model). Partial: "
       "the 8*2^-53 bound is judged against rational enclosures of the exact intersection.",
  note=COMMON_NOTE),
 "C17": dict(
  technique="Lean 4 theorems on threshold/endpoint logic of the distance primitives + exact rational/enclosure judge",
  text="Proof: threshold forms = comparison of the computed value, monotone update, endpoint/degenerate cases (model). Partial: numeric "
       "error bounds judged against exact values.",
  note=COMMON_NOTE),
 "C18": dict(
  technique="Lean 4 theorems: canonical first vertex is rotation/inversion equivariant, hence turning angle exactly invariant/negated (bit level, soft-float) + numeric judge",
  text="Proof: exact rotation invariance and inversion negation of TurningAngle from list reasoning. Partial: area identities judged with "
       "the library's own tolerances and exact containment.",
  note=COMMON_NOTE),
 "C19": dict(
  technique="Lean 4 theorems over an abstract linear order with monotone rounding for r1/s1 intervals, r2 and lat-lng rectangles + bit-exact correspondence and exact membership judge",
  text="Proof (full for intervals and rectangles): union/intersection/contains/intersects/expanded/complement/project membership soundness "
       "and validity for all inputs incl. empty/full/inverted/±pi. Caps partial (chord-angle numerics judged exactly).",
  note=COMMON_NOTE),
 "C20": dict(
  technique="Lean 4 structure theorems for SubsampleVertices and the tessellator recursion + dense exact-judge sampling of tolerances",
  text="Proof: subsample keeps endpoints, strictly increasing indices; tessellator output structure. Partial: all tolerance claims are "
       "judged by dense sampling and exact grid/radius checks.",
  note=COMMON_NOTE),
}


# ---- session 3: what was added after the texts above were written (appended to text / note; see DESIGN.md §4 "Session 3") ----
ADDENDA = {
 "C01": ("Added: curve continuity in full incl. the six face transitions; the float cross-face wrap for all integer arguments; "
         "Edge/Vertex/AllNeighbors correct for EVERY cell; neighbours, faceIJ, tokens/strings and the stuv float functions regenerated. "
         "Defect D46 (ContainsPoint margin) found, repaired, generator added.",
         "Superseded: the cross-face wrap IS proved (C01_Wrap.lean). Still not proved: sufficiency of the (repaired) 2*dblEpsilon margin; AllNeighbors completeness at face boundaries."),
 "C02": ("Added: the error constants of triageSign, stableSign and SignDotProd are PROVED sufficient (C02_TriageError / C02_StableError / C02_DotProdError): "
         "robustSign = exact decision for all unit-ish points, unconditionally; all of predicates.go regenerated function by function (translator_c02).",
         "Still not proved: the cos / sin^2 distance-triage constants (cosDistance has no first-order slack; searched)."),
 "C03": ("Added: FloatSound is PROVED on unit-ish points for the repaired code (C03_FloatSound.lean) and the crosser refinement / exactness theorems are "
         "unconditional on unit points; the proof attempt exposed defect D48 (tangent rejection for nearly antipodal edges), repaired; EdgeCrosser regenerated (translator_c02).",
         "Superseded: FloatSound is no longer a hypothesis (points with -0 coordinates excepted)."),
 "C04": ("Added: the parity cocycle is PROVED for the exact geometry incl. degenerate configurations and shared vertices (C04_Cocycle.lean); the path equalities need "
         "only the index invariants I2/I3; containment code regenerated (translator_c08); index construction modelled bit-exactly (see C06).",
         "Superseded: ParityCocycle is no longer assumed. Still assumed: locality (I2) for the real index, Jordan-type tiling."),
 "C05": ("Added: for cell and cell-union regions all hypotheses are discharged and the covering theorems hold end to end (C05_Cells.lean); output-size bounds proved, "
         "the unqualified MaxCells claim refuted; isCanonical characterised exactly.", ""),
 "C06": ("Added: ShapeIndex construction modelled bit-exactly and tied cell by cell (op c04build); structural invariants of the built index proved, I1 reduced to "
         "ClipSound + ShrinkSound + MergeComplete (C06_Build.lean); queries need only I2/I3 (cocycle proved); ShapeIndexIterator regenerated (translator_c08).",
         "Superseded: ShapeIndex construction is no longer 'correspondence only'."),
 "C07": ("Added: the two-index walk of the loop relations modelled as written and tied on all 8 complement pairs (op c07walk); alignment / termination / "
         "completeness-of-crossing-search theorems (C07_Walk.lean); wedges and nesting regenerated (translator_c09).", ""),
 "C08": ("Added: edge_query.go search / covering / result order and the distance targets regenerated (translator_c08, 248 ties). Defects D47, D49 found and repaired.", ""),
 "C09": ("Added: encoders and point compression regenerated expression by expression (translator_c09, 92 ties).", ""),
 "C10": ("Added: bound composition and convex hull control flow regenerated (translator_c10).", ""),
 "C11": ("Added: Normalize / Denormalize / difference / CellIndex / Find loops regenerated (translator_c10, 101 ties).", ""),
 "C12": ("Added: stuv and Cell functions regenerated (translator_c09); D46 repaired; Go's float CapBound().ContainsPoint judged on exact in-cell points.", ""),
 "C13": ("Added: target objects are reused within a history (defect D49 found and repaired).", ""),
 "C14": ("Added: scenario idx-eq1; defect D47 (iterator used before the index build: data race) found and repaired.", ""),
 "C16": ("Added: sign symmetry of the REAL kernels proved, bit identity in all 8 orders under decidable side conditions shown necessary (C16_Sym.lean); "
         "Intersection regenerated (translator_c16). Defect D50 (collinear edges with parallel vertices) found.", ""),
 "C17": ("Added: edge_distances.go and chordangle.go regenerated as whole functions (translator_c16); a 1-ulp model error found by the tie and repaired.", ""),
 "C18": ("Added: measures control flow regenerated (translator_c10).", ""),
 "C19": ("Added: the soft-float is PROVED correctly rounded (F64Round) and the interval / rectangle laws are PROVED for binary64 itself "
         "(C19_Binary64.lean: 65 of 67 non-cap laws on the instance the oracle executes; nothing assumed); caps regenerated (translator_c10).",
         "Superseded: the carrier laws are no longer assumed for the soft-float."),
 "C20": ("Added: tessellator / subsample / snapper control flow regenerated (translator_c10).", ""),
}
ADDENDA2 = {
 "C01": "Later: AllNeighbors completeness proved for every valid cell incl. face edges and cube corners (C01_NeighborsComplete.lean): C01 has no open item left.",
 "C02": "Later: the distance cascade is PROVED exact on Normalize outputs (compareDistances_exact, compareDistance_exact for 0 <= r2 <= 4; C02_DistanceExact.lean); defect D54 found by the proof and repaired.",
 "C19": "Later: cap AddPoint / AddCap / Union / Expanded proved for binary64 itself on Normalize-grade vectors, exact Contains / Intersects / Complement readings refuted and proved up to explicit allowances (C19_CapBinary64.lean).",
 "C03": "Later: the no -0 coordinate restriction is removed; FullExactness is a theorem for all unit-ish finite points with Go == (C03_AllZeros.lean).",
 "C17": "Later: vertex, interior and prefilter error bounds PROVED on UnitPt / EdgeOK, two-sided under the wedge margin (C17_Error.lean); the proof found that MaxPointError is not a bound for all Normalize outputs (known finding D57). Edge-pair minimum = least of the four endpoint-to-arc distances and UpdateMaxDistance through the antipode proved in exact geometry, float glue partial (C17_Pairs.lean, C17_PairsFloat.lean). Edge pairs two-sided for every exit, Project under ProjMargin, EdgePairClosestPoints both branches (C17_Pairs2.lean).",
 "C08": "Later: for a point target the search theorems hold with NO abstract WorldOK at an explicit slack 2^-44 (C08_World.lean), from C12 distance_lower_bound, the C17 edge contract and I1; WorldOK / CellLB as first stated are false of the real code and were replaced by the true SlackWorld. RegionsNested proved; x - e <= x is false for ChordAngle.Sub in general, the restricted law is proved for MaxError 0, +Inf and >= 2^-400 (C08_World2.lean). Edge targets likewise (C08_EdgeTarget.lean). Cell targets and furthest-edge queries for point / edge targets (C08_MoreTargets, C08_Furthest, C08_FurthestEdge).",
 "C04": "Later: edge clipping regenerated and proved equal to the build model (translator_c04). Constructor / rotation / reversal theorems for all valid loops and parity theorems for tilings (C04_Tiling.lean). Convex-cell lemma and disjointness of neighbouring cells proved; 'exactly once' unconditional for the six faces and all level-1 cells (C04_Tiling2*.lean). At most one level-k cell of a face contains a point, all k <= 30 (C04_Grid.lean).",
 "C05": "Later: Cell / CellUnion region predicates tied to the region values of the end-to-end theorems, float region predicates pinned (translator_c07). Defect D56 (Rect.IntersectsCell, edge longitude span) found by the thorough tier and repaired; generator family lens. Cap regions: IntersectsCell / ContainsCell modelled bit-exactly, exact algorithm an iff, float soundness with slack 2^-44, coverings end to end (C05_Cap.lean); the proof found defect D59 (edge rejection near a hemisphere), repaired.",
 "C06": "Later: I1 proved without MergeComplete, I3 and 'queries on the built index = brute force' proved under three named statements of exact geometry (C06_BuildI3.lean); "
        "index construction and padded cells regenerated (translator_c04); defect D52 (shape-id sentinel after Remove) found and repaired; the check also runs the containment paths. TrackSound's float clause holds for cells with -0 coordinates too (C06_AllZeros.lean). I1 of the built index is PROVED for real uv geometry from the float error analysis of the clipping (build_I1_float, C06_ClipFloat.lean). Face clipping: FaceEdgesOK proved except the re-projection branch; spherical I1 for points and same-face edges (C06_FaceClip.lean); finding D60 (PointCross for nearly antipodal arguments). D60 repaired (exact fallback in PointCross); pointCross_exact_normed (C06_PointCross.lean).",
 "C07": "Later: the relation walk and the polygon relations regenerated as step equations of the model (translator_c07, 357 ties). Walk answers: true is sound, false is exact, raw boolean = crossing or wedge or centre shortcut; compareBoundary walk = exact relation in full, contains / intersects under the single necessary hypothesis CenterSound (C07_WalkSound.lean).",
 "C09": "Later: all 33 decoder functions regenerated as Dec-monad programs and proved EQUAL to the model decoders of the round-trip theorems (translator_c15b).",
 "C10": "Later: bound functions tied / pinned (translator_c07).",
 "C12": "Later: the repaired margin 2*dblEpsilon of Cell.ContainsPoint is PROVED sufficient for every float point and every ancestor (C12_Margin.lean; exactly tight in the proof, 1.25 attained). Point-target Distance lower bound (2^-46) and MaxDistance upper bound (2^-45) PROVED for all valid cells and unit-ish points; the proof found defect D58 (edge branch decided on rounding noise near the pole of an edge's great circle), repaired; on the repaired code ATTAINED is proved in all branches without proviso (C12_Distance.lean: distance_lower_bound 2^-45, maxDistance_upper_bound 2^-44, distance_attained). BoundaryDistance, DistanceToEdge, DistanceToCell lower bounds / attained (C12_Distance2.lean, new bit-exact model CellEdgeM) and CapBound contains the exact cell (C12_CapBound.lean) proved for all valid cells. MaxDistanceToEdge / MaxDistanceToCell upper bounds for every branch (C12_MaxDistance2.lean). DistanceToEdge / MaxDistanceToEdge attained in every branch; Cell.ContainsPoint implies CapBound().ContainsPoint for level >= 2 (C12_Attained2.lean).",
 "C13": "Later: target objects with their inner state are in the model (C13_Targets.lean), target methods regenerated; footprint obligation for iterator creation sites.",
 "C14": "Later: the footprint of the Go code is a regenerated decidable obligation linked to the proved protocol model (C14_Footprint.lean).",
 "C15": "Later: the IR guards are tied to the regenerated model decoders (C15_Decode). Decoded values are PROVED safe to query through the Shape accessors (decodePolygon_usable) and to re-encode (C15_Usable.lean); new correspondence op c15shape.",
 "C16": "Later: after repair D50 bit identity in all 8 argument orders is PROVED as stated for every in-contract input (C16_Canonical.lean); the 8*2^-53 accuracy clause and unit length (10*2^-53) are PROVED outside the D38 class under the explicit StableSide conditions (C16_Accuracy.lean).",
}
for _k, _t in ADDENDA2.items():
    ADDENDA[_k] = (ADDENDA[_k][0] + " " + _t, ADDENDA[_k][1]) if _k in ADDENDA else (_t, "")
for _k, (_t, _n) in ADDENDA.items():
    LEVELS[_k]["text"] = LEVELS[_k]["text"] + " SESSION 3 — " + _t
    if _n:
        LEVELS[_k]["note"] = LEVELS[_k]["note"] + " SESSION 3 — " + _n

# technique field: what decides the property now (session 3 broadened the deciding method of several properties)
TECH3 = {
 "C01": "AllNeighbors completeness and the float cross-face wrap proved on the soft-float",
 "C02": "float error analysis of every triage / stable / dot / cos / sin² stage as Lean theorems on a soft-float PROVED correctly rounded (robustSign_exact, compareDistances_exact, compareDistance_exact); regenerated definitions of predicates.go tied by rfl",
 "C03": "FullExactness proved for the float crosser on all unit-ish finite points (error analysis of triage, stable sign and the tangent rejection on the soft-float)",
 "C04": "crossing-parity cocycle proved for the exact predicates from the realisable-chirotope theorem; tiling parity theorems",
 "C05": "bit-exact models of the Cell / CellUnion / Cap region predicates with float soundness theorems (slack 2^-44) making the coverer theorems end to end for those regions",
 "C06": "bit-exact regenerated model of the index construction; I1 proved from the float error analysis of edge clipping (build_I1_float)",
 "C07": "regenerated model of the two-index relation walk, proved equal to the exact relation up to the single hypothesis CenterSound",
 "C08": "search theorems instantiated over the soft-float for point targets with explicit slack from the proved Cell.Distance and UpdateMinDistance bounds",
 "C12": "float error analysis on the soft-float: ContainsPoint margin, Distance / BoundaryDistance / DistanceToEdge / DistanceToCell lower bounds and attained, MaxDistance upper bound, CapBound contains the exact cell",
 "C15": "inversion theorems on the regenerated decoders: decoded values are safe to query and to re-encode; accessor correspondence op c15shape",
 "C16": "bit identity proved for the canonicalised Intersection; accuracy 8u and unit length proved by float error analysis of the stable and exact paths under explicit side conditions",
 "C17": "float error analysis of UpdateMinDistance (vertex, interior, prefilter), edge pairs, Project and EdgePairClosestPoints on the soft-float against closed-form exact distances",
 "C19": "the carrier laws discharged for binary64 (soft-float proved correctly rounded); cap AddPoint / AddCap / Union / Expanded proved on Normalize-grade vectors",
}
for _k, _t in TECH3.items():
    LEVELS[_k]["technique"] = LEVELS[_k]["technique"] + "; session 3: " + _t
