"""Per-property configuration of ./check (generators, evidence text)."""

def _op_in(*ops):
    s = set(ops)
    return lambda line: line.split(" ", 1)[0] in s


def _c18_ambiguous(l):
    import struct, math
    try:
        raw, me = l.split(" = ")[1].split(" ")[1].split(":")[:2]
        f = lambda h: struct.unpack(">d", bytes.fromhex(h))[0]
        a, e = f(raw), f(me)
        a = a + 4 * math.pi if a < 0 else a
        return a < e or a > 4 * math.pi - e
    except Exception:
        return False

PROPS = {
    "C01": {
        "translators": ["translator_c01", "translator_c09"],
        "generators": [("f64", 3000, 60000), ("c01", 4000, 120000)],
        "modules": ["S2.CellID", "S2.Hilbert", "S2.STUV", "S2.F64"],
        "rule": "cell ids: exhaustive levels 0-3 (thorough 0-5) plus structured random cells of every level whose (i,j) is drawn "
                "from {0, max, within 4 of a face edge, on/next to coarse grid lines, uniform}; every op line (id + arguments) is hashed; "
                "non-trivial = any op other than the f64 soft-float self-validation; distinct = distinct (op, arguments)",
        "nontrivial": lambda l: not l.startswith("f64"),
        "trusted_base": ["modelled, not proved: float error margin in Cell.ContainsPoint and the float cross-face wrap "
                         "(cellIDFromFaceIJWrap) — both are modelled bit-exactly in the soft-float and compared on every generated input"],
        "assumptions": ["VertexNeighbors is called with level < cell level (C++ contract)"],
    },
    "C11": {
        "translators": ["translator_c01", "translator_c10"],
        "generators": [("c11", 6000, 200000), ("c11b", 600, 20000)],
        "modules": ["S2.Generated.CellUnionLoops", "S2.CellID", "S2.CellUnion", "S2.CellIndex", "S2.Intersect"],
        "rule": "adversarial multisets of valid cell ids (duplicates, complete / incomplete sibling groups, cascades over several "
                "levels, nested cells, whole faces, curve neighbours), pairs derived from one another; c11b: CellIndex (nested cells with equal / different "
                "labels, duplicates, sibling groups, faces, face seams, first / last leaf, empty index; range, non-empty-range, "
                "seek and contents sweeps) and s2intersect.Find on 2-4 related unions, judged against leaf-set semantics; "
                "non-trivial = union has at least 2 cells; distinct = distinct (op, arguments)",
        "nontrivial": lambda l: "," in l.split(" = ")[0],
        "trusted_base": [],
        "assumptions": ["all ids are valid cells; ContainsCellID/Contains need a normalized receiver (documented; shown necessary), "
                        "IntersectsCellID/Intersects/Intersection/Difference/IntersectionWithCellID/LeafCellsCovered only a valid "
                        "(sorted, disjoint) one; Denormalize: minLevel <= 30, 1 <= levelMod <= 3; CellUnionFromRange: odd leaf positions "
                        "begin <= end <= End(MaxLevel); CellIndex labels >= 0"],
        "partial": [],
        "level_note": "(e) CellIndex / s2intersect.Find: CellIndex_contents_correct and Find_correct are PROVED "
                      "(Properties/C11_Index.lean: cellIndex_contents_correct, find_correct) together with the range iterator, "
                      "contents iterator (any StartUnion sequence; increasing order = exactly once) and Find shape / disjointness "
                      "theorems; they are additionally judged on every run by Oracle.C11b on the implementation's output.",
    },
    "C06": {
    "generators": [("c06a", 4000, 120000), ("c06idx", 6000, 60000), ("c06pc", 3000, 60000), ("c04build", 1600, 24000), ("c06lcell", 3200, 48000),
                   # every evaluation path of Loop / Polygon / ContainsPointQuery containment vs the exact parity (the index path of
                   # Polygon.ContainsCell / IntersectsCell goes through Polygon.iteratorContainsPoint): shared with C04
                   ("c04", 2400, 24000)],
    "translators": ["translator_c06", "translator_c08", "translator_c04"],
    "modules": ["S2.IndexBuild", "S2.Generated.BuildFns", "S2.Generated.PaddedCellFns", "S2.Generated.ClipFns", "S2.Generated.LocateFns", "S2.ShapesBase", "S2.ShapesLoops", "S2.Shapes", "S2.Generated.ShapeAccessors", "S2.Locate", "S2.PaddedCellM", "S2.Hilbert", "S2.STUV", "S2.CellM", "S2.CellID", "S2.Contain", "S2.Pred", "S2.Exact"],
    "rule": "shapes: every Shape type (Loop incl. empty/full/0/2-vertex, Polyline, LaxPolyline, PointVector, LaxLoop (both "
            "constructors), LaxPolygon with 0,1,2,few,many loops incl. 0/1/2-vertex loops, Polygon empty/full/no-loop, disjoint and "
            "nested loop sets of 1..7, 11,12,13,14,40 loops = both sides of maxLinearSearchLoops) with pairwise distinct vertices; "
            "EVERY accessor is called for EVERY edge id, chain and (chain, offset), each call individually guarded (panic = '!'). "
            "locate: sorted pairwise-disjoint cell lists (0,1,few,20-80 cells; siblings, curve neighbours, nested candidates pruned, "
            "whole faces) x targets = index cells, their range ends +-1, ancestors at several levels, children / deep descendants, "
            "curve neighbours, random cells, first/last leaf of the curve.  non-trivial = every c06shape line with >= 1 edge and every "
            "c06loc/c06locp/c06seek line with a non-empty cell list; distinct = distinct (op, arguments).  "
            "padded cells (c06pc): all cells of levels 0..2 (0..4 thorough) of every face + c01's boundary-structured random cells (levels 0..30, "
            "face corners/edges, coarse grid lines); paddings 0, ShapeIndex cellPadding, eps, 2^-20..2^-60, up to 0.5; FromParentIJ chains of "
            "length 1..30 (random / corner-hugging / grid-line-hugging, from faces down to leaves); Next() incl. last-child carry chains; "
            "ShrinkToFit rects always containing a point of the real Bound() (ends, midpoint, one ulp inside, random) with extents 0 … 3; "
            "c06lcell: loops / star loops / polygons of radius 0.25 .. 1.45 rad (long edges spanning several cube faces) under coarse coverer "
            "configurations (InteriorCovering asks ContainsCell, Covering asks IntersectsCell: ops cov) and pred lines (ContainsCell / IntersectsCell "
            "judged against points exactly in the cell) for cells of level 0..7 at and next to loop vertices; "
            "family D60 (every 8th iteration of c06idx, harness/c06d60.go): a shape edge (a, b) with b = -a up to 0..3 ulps per coordinate "
            "(a with two or three coordinates of nearly equal magnitude so that the quantisation noise a+b can be nearly parallel to a; "
            "'aligned' or independent ulp counts; exactly antiparallel pairs skipped) or b = a up to a few multiples of 2^-1074 in a zero / "
            "subnormal coordinate; the generator computes the EXACT plane a x b (math/big) and, itself, the pre-repair float normal "
            "fl((a+b) x (b-a)), walks up to 3*10^5 leaf-grid columns along the exact line on the face of a point 60..120 degrees from a "
            "for a leaf-grid vertex between the two lines (margins 1.5e-14), puts 14 filler edges into the leaf cell X that only the exact "
            "line clips (forces level 30) and asks for the crossings of a query edge across the EXACT edge inside X (+ a tiny edge elsewhere "
            "in X + a far edge); emitted regardless of any library answer: c04cross, c04bclip on all six faces (model = implementation in "
            "the exact fallback of PointCross), every third sample c04idx (invariant I2)",
    "nontrivial": lambda l: (l.startswith("c06shape") and " 0 0 - - - -" not in l and " 0 1 - " not in l)
                            or ((l.startswith("c06loc") or l.startswith("c06seek")) and not l.split(" ")[1] == "-")
                            or l.startswith("c06pcpath") or l.startswith("c06pcnext")
                            or (l.startswith("c06pcshrink") and l.split(" ")[1] != l.split(" ")[-1])
                            or l.startswith("c04cross") or l.startswith("c04cpq") or l.startswith("pred ") or l.startswith("cov ")
                            or (l.startswith("c04idx") and l.split(" C ", 1)[-1].count(" ") >= 1)
                            or (l.startswith("c04build ") and l.split(" C", 1)[-1].strip() != ""),
    "trusted_base": [
        "translator_c06 (go/ast -> Lean) for the accessor arithmetic; every translated accessor is ALSO compared behaviourally (c06shape)",
        "Polygon.Edge/Chain/ChainPosition are regenerated too (two-variable loop primitives forInc2/rangeBreak2, S2/ShapesLoops.lean) and "
        "PROVED equal to the hand model (Ties/C06_Polygon.lean, not rfl); the constructors' bookkeeping (LaxPolygonFromPoints "
        "cumulativeVertices, Polygon.initEdgesAndIndex) and sort.Search are hand-modelled: tied by the correspondence check only",
        "hook s2/verif_export_c06a.go (VerifIteratorOverCells builds an iterator over a bare cell-id list)",
        "hook s2/verif_export_c06pc.go (VerifC06pcFields: read-only accessor of the unexported PaddedCell fields)",
    ],
    "assumptions": [
        "Locate theorems assume CellsOK (rangeMin c <= c <= rangeMax c, rangeMax c_i < rangeMin c_j for i<j, no sentinel) and, for "
        "LocateCellID/Indexed, TargetOK (valid cells are nested or disjoint) — facts about valid cell ids proved in C01",
        "Polygon contract is claimed for vertex counts Polygon.Validate accepts (a one-vertex loop only as the empty/full polygon); "
        "a 0-vertex Loop inside a multi-loop polygon makes PolygonFromLoops itself divide by zero and is never generated",
    ],
    },
    "C09": {
        "translators": ["translator_c01", "translator_c09", "translator_c15b"],
        "generators": [("c09", 3000, 60000)],
        "modules": ["S2.Codec.Prim", "S2.Codec.Points", "S2.Codec.Types", "S2.STUV", "S2.F64"],
        "rule": "values of all nine encodable types built through the public constructors: points/caps/rects with special floats "
                "(+-0, subnormal, huge, inf, NaN), arbitrary 64-bit cell ids, valid cells, cell unions (also 999999/1000000/1000001 cells: the last one must be "
                "refused by the encoder), axis-point triangles with every zero-sign pattern, "
                "polylines, loops and polygons of 1-5 loops (shells, holes, second component) whose vertices are cell centres of one level, "
                "of mixed levels, partly snapped (10-90 %), unsnapped; rectangles of cell centres in (i,j) space at the corners/edges/centre "
                "of every face (extreme si/ti), 60-71 vertices around the 64-vertex bound threshold, radii from 1e-6 to 1.4 rad (face changes); "
                "raw compressed point lists at arbitrary levels; primitives (uvarint incl. overflow forms, zig-zag, interleave, coder streams, "
                "(si,ti)->(pi,qi) at every level). non-trivial = a polygon/loop/polyline/point-list line with at least 3 vertices; "
                "distinct = distinct (op, arguments). The share of compressed vs lossless polygon encodings (first byte 04 / 01) is reported. "
                "For every loop/polygon line the harness also compares the answers of the original and the decoded Go value "
                "(NumEdges/Edge/Chain/ReferencePoint/loop structure/Area bit-exact, ContainsPoint on axis points, vertices, edge midpoints, "
                "1e-9-displaced vertices and vertex sums); a difference is a propfail.",
        "nontrivial": lambda l: l.split(" ", 1)[0] in ("encpolygon", "encloop", "encloopof", "encpolyline", "ptsc") and l.count(";") >= 2,
        "trusted_base": ["Loop.initBound / polygon bound recomputed by the compressed decoders (RectBounder, libm) are not modelled: the model "
                         "carries `none` there and the property does not speak about bounds",
                         "xyzToFaceSiTi / facePiQitoXYZ are modelled bit-exactly in the soft-float and compared on every generated vertex "
                         "(ops snap, ptsc, encpolygon)"],
        "assumptions": ["si,ti <= maxSiTi for the points handed to xyzToFaceSiTi (true for every finite non-zero vector: |u|,|v| <= 1)",
                        "loop depths are non-negative and < 2^31 (set by the polygon constructors)"],
    },
    "C13": {
        "translators": ["translator_c19", "translator_c14"],
        # harness generator, quick n, thorough n
        "generators": [("c13", 300, 3000)],
        "modules": ["S2.History", "S2.Footprint", "S2.Generated.FootprintIR"],
        "regenerated_obligations": ["S2Proofs.C13Footprint.generated_sites_apply_updates", "S2Proofs.C13Footprint.generated_sites_present"],
        "rule": "operation histories executed on the real code in a child process (hang => HANG, panic => PANIC): the 12 shortest "
                "expected failures first; ALL histories of length <= 4 (thorough 5) over {add loop, add empty, build, reset, query}, "
                "over {invert, contains, cell} for a 64- and an 8-vertex loop, over {invert, contains} for empty/full/normal polygons, "
                "all EdgeQuery call sequences of length <= 3 over 7 call kinds x 6 option sets; then random histories up to length 30. "
                "TARGET OBJECTS: `newtgt:<name>` creates a target object that lives for the rest of the history (one per name), "
                "`tadd:<shape>` adds a shape to the ShapeIndex of the current index target, `tset` configures its inner query; "
                "5 fixed histories (D49 with an explicit object, target index growing between two calls, empty target filled later), "
                "ALL sequences of length <= 4 over {3 calls, 3 tadd shapes, re-creation} of one small index target x 3 option sets and over "
                "{2 targets, 2 tadd shapes, 4 calls}; random histories include newtgt / tadd / tset and calls with the current object. "
                "REMOVE: `rm:<k>` = ShapeIndex.Remove of the k-th shape present in the index (named by the object that was added; ids are "
                "never reused): 9 fixed histories (D52: present shapes with ids >= Len(); D53: the single remaining shape has id != 0; removal "
                "of a never-indexed shape, of the only shape, removal + addition in one batch, removal then Reset, EdgeQuery after removals), "
                "`rm:0` in the alphabet of the main enumeration, ALL sequences of length <= 4 (thorough 5) over {rm:0, rm:1, build, query, add} "
                "after three shapes and over {2 polylines, loop, query, rm:0}; random histories include rm. Every shape of an answer "
                "(ContainingShapes, CrossingsEdgeMap keys, the clipped shapes of EVERY index cell with edge counts and containsCenter, "
                "EdgeQuery results) is named by its POSITION among the present shapes, never by its id, and compared with a fresh index "
                "holding exactly the present shapes. "
                "REUSED QUERY OBJECTS: every `query` step also asks ONE long-lived CrossingEdgeQuery and ONE long-lived ContainsPointQuery "
                "(created at the first query after an index change) a fixed sequence of 9 query edges x every present shape x both crossing "
                "types (Crossings), CrossingsEdgeMap, ContainingShapes and ShapeContains at 7 points; the same questions go to a NEW query "
                "object each on the fresh side (shapes with 3 edges = brute-force candidate path, 64 edges = index path). "
                "Every query step is compared with the same query on fresh objects (fresh index with all current shapes built once, "
                "fresh EdgeQuery with the caller's options, fresh loop/polygon from the current vertices, fresh target index + fresh "
                "target from the current shape list of the target object, configured as the caller configured it). "
                "non-trivial = history with at least one query step after at least two other steps; distinct = distinct op sequence",
        "nontrivial": lambda l: l.split(" = ")[0].count(",") >= 2 and any(t in l for t in ("query", "call:", "lcontains", "lcell", "pcontains")),
        "trusted_base": ["geometry is abstracted: an answer in the model is the record of visible shapes + effective options; that the real "
                         "answer is a function of exactly these is tied by the fresh-object comparison of the harness, not proved",
                         "the model's 'same as fresh = N' is symbolic; the oracle accepts a concrete Y there (a wrong limit need not change a result)"],
        "assumptions": ["histories that mutate a ShapeIndex (Add/Reset) while an EdgeQuery on it is alive are out of contract: the model "
                        "drops the query object and the generator creates a new one",
                        "Remove while an EdgeQuery on the index is alive is out of contract like Add / Reset (the model drops the query object)",
                        "the same object is never added twice to one index (Remove(shape) finds the id through a map range: which of the "
                        "two ids goes would be Go map order); EdgeIterator (shapeutil_edge_iterator.go) is not exercised after Remove: it "
                        "bounds shape ids by len(shapes) and misses shapes after a removal (recorded observation, pinned by the test suite)",
                        "OPEN FINDING D51: the inner query of a ShapeIndex target caches a covering of the TARGET's index and is never "
                        "reset; the generator does not add shapes to a target index after a call that may have cached it (target index "
                        "with more than 30 edges); C13_D51=1 lifts this and the check then reports the violation. The oracle runs "
                        "`Fixes.tree` (d51 = false), the theorems for all histories hold for `Fixes.all` (d51 = true)",
                        "with an index-target object the generated query options have maxError 0 (an index target forwards maxError to "
                        "its own query, whose brute-force / optimized choice legitimately depends on when it first counted the edges)"],
        "partial": ["current_partial_single_build", "current_partial_first_update", "current_partial_search_answer",
                    "current_D49_partial_first_call", "tree_target_options_fresh_partial", "tree_D51_small_target_ok"],
    },
    "C14": {
        # built with `go build -race -tags verif`; falls back to the non-race binary (race=-) if -race is unavailable
        "generators": [("c14", 60, 600)],
        "harness_build_flags": ["-race"],
        "modules": ["S2.Protocol", "S2.Generated.ProtocolIR", "S2.Footprint", "S2.Generated.FootprintIR"],
        "translators": ["translator_c14"],
        "regenerated_obligations": ["S2Proofs.C14.generated_wellFormed", "S2Proofs.C14.isFresh_is_one_atomic_load",
                                    "S2Proofs.C14.mutators_store_status_last",
                                    "S2Proofs.C14.remove_stores_status_last", "S2Proofs.C14.remove_early_returns",
                                    "S2Proofs.C14Footprint.generated_footprint_ok", "S2Proofs.C14Footprint.generated_field_classes",
                                    "S2Proofs.C14Footprint.generated_builder_only", "S2Proofs.C14Footprint.generated_establishing",
                                    "S2Proofs.C14Footprint.generated_reentry_sites"],
        "rule": "forced schedules through the four verif schedule points of maybeApplyUpdates under the Go race detector, each in a child "
                "process with watchdog: named interleavings (both see stale, one builds while the other waits, late reader, serial) for N=2,3 "
                "on 7 scenarios (index x ContainsPointQuery / CrossingEdgeQuery / EdgeQuery, loop point / cell, polygon point / relation), "
                "ALL schedules of length <= 8 over two workers for idx-cpq (thorough: three workers, length <= 7), random schedules N=2..6, "
                "unforced stress runs with 4..32 goroutines; every answer compared with a serial run; events compared with the Lean "
                "protocol model on the same schedule (which blocked waiter obtains the mutex is the implementation's choice; the model "
                "checks that it is a legal one and follows it). "
                "SOAK scenarios (harness/c14soak.go, 17 kinds, 8 goroutines, thorough also 16 and 3 seeds; ~1.2 s wall each, 10^2..10^5 queries "
                "per run): N goroutines hammer ONE shared object whose index is not yet built, each goroutine near a DIFFERENT part of it "
                "(its own loop of a many-loop polygon, its own arc of a big loop, its own shapes of an index), EVERY answer compared with a "
                "serial run on a separately built identical object, a recovered panic = violation (outcome=PANIC), all under the race "
                "detector.  Kinds cover both sides of every internal size threshold: loops with 24 / 400 vertices (ContainsPoint brute force "
                "<= 32 / index), point+cell queries and Contains/Intersects/BoundaryEqual in both directions against coarse partners (one "
                "partner cell covers >= 20 edges of the shared loop: CrossingEdgeQuery path of loopCrosser.hasCrossing), fine, nested and "
                "disjoint partners; polygons with 24 vertices (brute force) / >= 32, with 1 loop, 3 and 6 loops (linear search in "
                "Edge/ChainPosition) and 16 loops (cumulativeEdges search), point, cell and polygon-polygon relations, one 400-vertex shell; "
                "indexes with 20 edges (below the EdgeQuery brute-force thresholds 25/30) and with ~700 edges holding a 16-loop and a 6-loop "
                "polygon, loops, a polyline and points, queried by ContainsPointQuery, CrossingEdgeQuery, closest/furthest EdgeQuery with "
                "point / edge / cell targets; a ShapeIndex shared as the TARGET of MinDistanceToShapeIndexTarget (own target and query object "
                "per goroutine) in the combinations big/small, small/big, big/big. "
                "non-trivial = at least two workers passed the status check before the store of fresh (applies >= 2), or a worker was "
                "BLOCKED, or a soak line; distinct = distinct (scenario, N, schedule or seed)",
        "nontrivial": lambda l: "BLOCKED" in l or l.startswith("c14 soak-") or
                                any(t.startswith("applies=") and t[8:].isdigit() and int(t[8:]) >= 2 for t in l.split()),
        "trusted_base": ["Go memory model for sync/atomic and sync.RWMutex as encoded in S2.Protocol (sequentially consistent atomics, "
                         "interleaving semantics, non-atomic accesses split in begin/end)",
                         "that the Go functions touch only the modelled shared state, and that applyUpdatesInternal with nothing pending "
                         "writes nothing readers read, is checked by the race detector on the forced schedules, not proved"],
        "assumptions": ["no goroutine calls Add/Remove/Reset concurrently with queries (the library requires external synchronisation)"],
        "partial": ["label: partial (protocol proved for all N and interleavings; footprint of the Go code by race detector)"],
    },
    "C02": {
        "translators": ["translator_c01", "translator_c02"],
        "generators": [("f64", 3000, 60000), ("c02", 6000, 160000), ("c02tiny", 16000, 400000)],
        "modules": ["S2.F64", "S2.STUV", "S2.Exact", "S2.Pred", "S2.BigF"],
        "rule": "unit-length triples / (x,a,b) / (x,y,r) built to sit on the decision boundaries: c = rn(s*a+t*b) +-2 ulps, "
                "exactly coplanar points (coordinate planes, plane x==y, great circle through a and b, antipodes), identical / "
                "1-2 ulp apart / antipodal pairs, tangent-plane lattices (1, u*2^-k, v*2^-k) for k in 30..1074 (collinear and "
                "sub-normal), mirror-image and equal-direction pairs for distances, chord limits at the computed distance +-3 ulps, "
                "0, 4, 45 degrees, Inf, negative; limits beyond 90 degrees (r2 in (2, 4], 4 - k ulps, exactly 4) with nearly antipodal points "
                "whose norms sit at the upper end of what Normalize produces (constructed PointFromCoords inputs for which all ten roundings "
                "align) or exactly antipodal IsUnit points with float norm2 = 1 + 10u (family D54); "
                "arbitrary finite (non-unit, huge, sub-normal) vectors for the exact stages only; "
                "4- and 5-tuples from one pool; every line carries `st:<stage>` naming the stage that decided; "
                "non-trivial = not decided by the first float triage (stage other than tri / cos) or an exact-stage / tuple / "
                "OrderedCCW op; distinct = distinct (op, arguments)",
        "nontrivial": lambda l: (not l.startswith("f64")) and (not l.startswith("c02const")) and
                                (" st:tri" not in l) and (" st:cos" not in l),
        "trusted_base": ["the float error constants are PROVED sufficient (maxDeterminantError, detErrorMultiplier, 3.046875*dblEpsilon: packages triage; "
                         "the cosDistance / sin2Distance error formulas: package floaterr3, `compareDistances_exact`, `compareDistance_exact` on the domain "
                         "| |p|^2 - 1 | <= 8.25*2^-53 = outputs of Normalize, after repair D54 of triageCompareCosDistance: cosRError lacked math.Abs); "
                         "every float stage is still searched on every run (non-zero => equals exact sign)",
                         "NOT proved (stated as `sos_global : Prop`): one perturbation per point serves all triples of a finite set; "
                         "checked on every generated 4-/5-tuple against a global rank-based perturbed-determinant reference "
                         "and the Grassmann-Pluecker relations",
                         "side condition `toInt (-x) = -toInt x` of the `..._given_error_bound` theorems (true for all finite floats) is a "
                         "decidable hypothesis, not a bit-level lemma",
                         "big.Float at 2^26 bits is exact on float64 inputs (modelled by integer arithmetic at scale 2^1074)"],
        "assumptions": ["points are finite float64 vectors (no NaN / Inf: the real code panics in big.Float); float stages are judged only "
                        "on unit-length points (|norm2 - 1| <= 5 eps, the C++ IsUnitLength contract; Go's IsUnit tolerates 5e-14); the distance theorems "
                        "are proved on the narrower exact bound | |p|^2 - 1 | <= 8.25*2^-53 which every Normalize output satisfies",
                        "SignDotProd: |a|^2 <= 2 and |b|^2 <= 2; CompareDistance: r is a valid chord angle (0..4, -1 or +Inf), not NaN"],
    },
    "C19": {
        "translators": ["translator_c19", "translator_c10", "translator_c16"],
        # c19: n cases (+ n/20 math.Remainder self-checks), ~900-1000 oracle lines/s on 16 cores;
        # c19cap: n cap cases (+ n/10 ChordAngle arithmetic lines), ~300 lines/s (exact 2148-bit rational judge)
        # c19capsearch: the same cap cases judged natively in Go (library + exact rational membership of Union / AddCap), ~7000 cases/s;
        #   it emits a `cap` line only for a FAILING case (which the oracle then flags), so a clean run adds no evaluations
        "generators": [("c19", 24000, 450000), ("c19cap", 4000, 45000), ("c19capsearch", 30000, 1000000)],
        "modules": ["S2.Generated.CapFns", "S2.F64", "S2.F64Extra", "S2.Interval", "S2.CapM", "S2.Exact", "S2.STUV"],
        "rule": "INTERVALS / RECTANGLES: pairs of r1 / s1 intervals, r2 rectangles and lat-lng rectangles drawn from {empty (canonical and "
                "non-canonical), full, singleton, inverted, ordinary} with endpoints from {+-pi, +-pi/2, 0, -0, 0..2 ulps around those, "
                "denormal / tiny, multiples of pi/4, uniform}; the second operand is independent or derived from the first (equal, "
                "complement, swapped endpoints, touching / nested / overlapping within 2 ulps at an endpoint); margins from {0, denormal, "
                "around dblEpsilon, the critical margin that just closes the circle or just empties the interval +-4 ulps, pi/2, pi, 2pi, "
                "uniform, 30% negative}; probe points = every endpoint of both operands and both float neighbours, +-pi, +-pi/2, +-0, next "
                "floats inside +-pi, random (lat-lng probes also slightly outside +-pi/2, documented as ignored).  "
                "CAPS: pairs of valid caps given by (centre bits, chord-angle radius bits): radius from {empty -1, full 4, 0, 1e-300..1e-15, "
                "hemisphere 2 +-2 ulps, 4 minus 0..3 ulps, 0.5/1/2.5/3 +-2 ulps, squares of small angles, uniform}, centres from {axes, "
                "1e-8 / 1e-15 off an axis, face diagonals, uniform}; second cap independent or derived (same centre, internally / externally "
                "tangent, containing-tangent, centred on the boundary, complement, antipodal centre, radius +-2 ulps); probes = both centres, "
                "both antipodes, points constructed on each boundary (twice), their coordinate-ulp neighbours, and the pair of points found "
                "by walking one coordinate ulp by ulp until ContainsPoint flips, plus random unit points; expansion distance in [0, pi] "
                "(negative distances are out of contract upstream).  Every line compares every modelled method bit-exactly with the "
                "soft-float model and judges the property clauses on the implementation's own output (caps: with the library's own "
                "ContainsPoint for Union / AddCap / Expanded / AddPoint, and up to an explicit exact-rational rounding allowance "
                "2||p|^2-1| + 2||c|^2-1| + 2^-48 for Contains / Intersects / Complement).  "
                "non-trivial = any op other than the f64rem soft-float self-validation; distinct = distinct (op, arguments)",
        "nontrivial": lambda l: not l.startswith("f64rem"),
        "trusted_base": [
            "carrier laws assumed by the interval theorems (S2Proofs.IvlLaws / IvlArithLaws / IvlLengthLaws: float == is equality of a "
            "linear order, -pi < pi, |a| <= b iff -b <= a <= b, a (+) m >= a and a (-) m <= a for m >= 0 and conversely for m <= 0, "
            "Remainder(x, 2pi) in [-pi, pi], (-pi)-pi < 0 and ((-pi)-pi)+2pi not > 0); satisfiable (instances for Int), true of float64 "
            "without NaN with +0/-0 identified, but not proved for the soft-float itself",
            "completeness directions of ContainsInterval / InteriorContainsInterval / InteriorIntersects are proved for a densely ordered "
            "carrier (intervals denote arcs of the real circle); on the float grid alone they fail for 1-ulp gaps (documented in C19.lean)",
            "caps: the abstract theorems use CapLaws / ChordLaws (exact chord geometry); for the SOFT-FLOAT ITSELF package c19capf64 "
            "(Properties/C19_CapBinary64.lean) proves, with no carrier law and no rounding assumption left, for every vector that is Normalize-grade "
            "(nunitB: | |v|^2 - 1 | <= (289/64) 2^-52 exactly, which V3.normalize is PROVED to deliver: nunitB_normalize): AddPoint, AddCap (the 1.5 maxErr "
            "allowance of repair D29 is sufficient), Union (for every outcome of its trigonometric part), Expanded (r <= r.Add(dc) holds exactly in binary64) "
            "keep every accepted point and stay valid; Complement stays valid; the exact readings of Contains-sound, Intersects-complete and "
            "Complement-covers are REFUTED for binary64 by kernel-checked ulp-level witnesses inside the contract (the methods carry no allowance) and "
            "proved up to 25 2^-52 relative + 22 2^-104 (44 2^-52 absolute for Complement) on the squared chord",
            "not modelled (libm): ChordAngleFromAngle (sin; Go's value is passed on the line), ChordAngle.Angle, Cap.RectBound and the "
            "trigonometric part of Cap.Union (its outcome is a parameter of CapM.unionWith); Cap.Union is judged on Go's output only",
            "the error analysis of Cap.AddCap's allowance is now a Lean theorem (cap_addCap_contains_f64; budget: needed 10.6 of the 10.75 available in "
            "first order); the comment in s2/cap.go uses 4.5 dblEpsilon where 6.5 is right, which the safety factor 1.5 happens to cover",
            "the rounding allowance used when judging cap Contains / Intersects / Complement at tangency (formula above) is a choice of "
            "this check, not a documented bound of the library",
            "export hook s2.VerifRectExpanded (s2/verif_export_c19.go, build tag verif) exposes the unexported Rect.expanded",
        ],
        "assumptions": [
            "s1 intervals satisfy IsValid and circle points lie in [-pi, pi] (documented domain); lat-lng rectangles satisfy IsValid",
            "r2.Rect.Contains / InteriorContains are judged for valid arguments (x empty iff y empty)",
            "ClampPoint / Project are called on non-empty intervals only (documented)",
            "caps satisfy IsValid, probe points satisfy IsUnit (the binary64 cap theorems need the stronger Normalize grade nunitB: addCap_needs_normalized shows IsUnit alone is not enough), Cap.Expanded is called with distance >= 0 (upstream C++ contract)",
            "no NaN and no infinities among the inputs",
        ],
        "level_text": "proof (Lean 4): 81 theorems over abstract linearly ordered carriers for r1.Interval, s1.Interval, r2.Rect, the lat-lng "
                      "s2.Rect (all at full strength after repairs 9d93e9d / 636e942, incl. s1.Expanded keeps every point for any rounding) "
                      "and s2.Cap (logic full, chord-angle arithmetic under explicit exact-geometry laws); the models are the same generic "
                      "definitions that run bit-exactly on the soft-float against the Go code",
        "level_note": "partial for caps: numeric parts (_partial theorems) hold for exact chord arithmetic only; the trigonometric part of "
                      "Cap.Union is not modelled, but after the repair every return path of Union ends in AddCap and "
                      "cap_union_contains_partial proves containment of both operands for ANY outcome of the trigonometry.  Findings "
                      "repaired in /repo (docs/fixes/fix_capAddCap.diff, fix_capUnion.diff): Cap.Union lost operand points by 1-2 ulps in "
                      "~6% of boundary-probed cases and returned a NaN centre for centres antipodal up to denormal offsets; Cap.AddCap's "
                      "dblEpsilon slack was 1 ulp short in ~0.02%.  After the repair: 0 failures in 1.12e6 cases / 2.8e7 boundary probes "
                      "(library and exact membership); failures reappear only below 0.25x of the new allowance (it is applied at 1.5x)",
    },
    "C04": {
    # (generator, quick n, thorough n); quick ~ 40 s on 16 cores, thorough ~ 7 min
    "generators": [("c04", 8000, 80000), ("c04build", 1600, 24000)],
    "translators": ["translator_c08", "translator_c04"],
    "modules": ["S2.IndexBuild", "S2.Generated.ClipFns", "S2.Generated.ContainFns", "S2.Contain", "S2.Pred", "S2.Exact", "S2.STUV", "S2.F64", "S2.CellID", "S2.Hilbert"],
    "rule": "c04orient: PolygonFromOrientedLoops of oriented loops (disc with a clockwise hole, two discs, bands of half-width 1e-16 .. 0.3 rad around a great circle, a single loop within 1e-15 of a great circle) and of the reversed loops must partition the sphere (judged on every probe off the edge planes); exact judge = crossing parity from OriginPoint with the exact orientation predicate (S2.Contain over S2.Pred.exactDecision). "
            "c04contain: valid loops (star-shaped about a centre at a pole / cube corner / face-edge midpoint / face centre / near a seam / anywhere; "
            "3..2000 vertices incl. 30..35 around the 32-vertex brute-force threshold; radius 1e-7 .. hemisphere; regular or jittered; "
            "snapped to cell centres or not; counter-clockwise or clockwise (= large complement); loops from cells of every level; "
            "the empty and full loops; each also after Invert) and polygons (1-4 concentric nested loops + optional second shell, all loops "
            "pairwise checked exactly for not touching; each also after Invert) x probes (loop vertices, vertices +-1..2 ulp, exact edge "
            "midpoints and +-ulps, points 1e-15..1e-1 off an edge on both sides, centres / corners / child centres of the shape's own index "
            "cells read through the hook, poles, cube corners, seam points, OriginPoint) answered by 15 evaluation paths (Loop.ContainsPoint "
            "on a fresh loop = bound shortcut active, after Build, forced brute force, forced index path, ContainsPointQuery semi-open / open / "
            "closed / Contains, Polygon.ContainsPoint fresh / built / forced brute force / forced query / iteratorContainsPoint, "
            "containsBruteForce on loop and polygon). c04tile: the six faces, ALL cells of level 1..3 (thorough 4) with every vertex, centre, "
            "edge midpoint (+-ulps) probed, the complete same-level neighbourhood of cells of level 4..30 (incl. cells at face corners / edges), "
            "loop + inverse, polygon + complement: every probe contained exactly once by both the public and the forced index path. "
            "c04idx: I1/I2/I3 of the loop's own index. non-trivial = a c04contain line with >= 3 vertices, any c04tile line, any c04idx line "
            "with >= 2 cells; distinct = distinct (op, arguments)",
    "nontrivial": lambda l: l.startswith("c04tile") or (l.startswith("c04contain") and l.split(" ")[1].count(";") >= 2)
                            or (l.startswith("c04idx") and l.split(" C ", 1)[-1].count(" ") >= 1)
                            or (l.startswith("c04build ") and l.split(" C", 1)[-1].strip() != ""),
    "trusted_base": [
        "hook s2/verif_export_c04.go (read-only dump of index cells; wrappers forcing the brute-force / index path of Loop and Polygon)",
        "the oracle decides orientation by the sign of the exact integer determinant with per-vector power-of-two scaling and falls back to "
        "S2.Pred.exactDecision when it is zero; equality with S2.Pred.exactDecision is not proved: the first two probes of every c04contain "
        "line (<= 300 vertices) are recomputed with S2.Contain.exactGeo and any difference is reported as `bad oracle-fastpath`",
        "geometry assumed, not proved (hypotheses of the path-equality theorems, exercised on every line): ParityCocycle; locality = an edge "
        "not listed in the located cell does not cross centre->p (abstract I2); Jordan-type tiling of the sphere by cell loops (CellLoopsTile)",
        "Loop.bound / Polygon.bound (RectBounder, libm) are not modelled: a non-conservative bound shows up as a disagreement of path 0 / 8",
        "ShapeIndex construction is not modelled: its result is checked against I1-I3 (c04idx)",
    ],
    "assumptions": [
        "loops are valid (unit vertices, no duplicate vertex, no antipodal neighbours, no crossing edges); polygons have pairwise "
        "non-touching, non-crossing loops — the generators check this exactly (quadratic) for loops up to 700 vertices and construct larger "
        "loops star-shaped so that every edge stays in its own azimuth sector",
        "CrossLaws (edge-reversal symmetry of EdgeOrVertexCrossing) is derived in S2Proofs.C04.crossLaws_of_signLaws from: Go == on points is "
        "an equivalence (no NaN) and RobustSign(b,a,c) = -RobustSign(a,b,c) (property C02)",
        "CellID.AllNeighbors may return a neighbour twice next to a cube vertex (documented in the C++ library): the neighbourhood tilings "
        "deduplicate the cell list",
    ],
    "partial": ["loop_and_inverse_partition_partial", "polygon_and_complement_partition_partial", "tiling_two_loops_partial",
                "CellLoopsTile is a def (tiling by all cells of a level): searched by c04tile, not proved"],
    },
    "C03": {
        # (generator, quick n, thorough n); c03 emits ~1.6 op lines per unit of n (quads, NewEdgeCrosser fields, angles, histories)
        "generators": [("c03", 12000, 300000)],
        "translators": ["translator_c02", "translator_c16"],
        "modules": ["S2.Crossing", "S2.PointCross", "S2.Crosser", "S2.Pred", "S2.Exact", "S2.STUV", "S2.F64", "S2.BigF"],
        "rule": "quadruples (a,b,c,d) of unit vectors: fixed edge AB general / tiny (separations 2^-k down to subnormal) / a few ulps / "
                "long (near 180 degrees, nearly antipodal) / nearly antipodal along a Pythagorean direction with an EXACTLY cancelling float "
                "(a+b)x(b-a) although a x b != 0 (finding D48; 10 integer directions, axis permutations, sign flips, C and D across the arc "
                "at its midpoint / anywhere / next to A or B, at distances 0.1 .. 2^-53) / degenerate / in a coordinate plane / 45-135 degrees; "
                "C and D chosen relative to AB: "
                "shared vertices (1-4), revisited, on the great circle of AB +- ulps, inside AB (T junctions, overlapping collinear edges), "
                "few ulps from an endpoint, antipodes, just outside an endpoint (outward-tangent test boundary), same coordinate plane "
                "(exactly collinear), tangent-plane lattice at 2^-k, straddling AB symmetrically, zero coordinates with flipped sign bits. "
                "Every quadruple is evaluated on all 8 argument orders (CrossingSign, VertexCrossing, EdgeOrVertexCrossing). "
                "Histories: 1-50 calls on ONE crosser (RestartAt / ChainCrossingSign / CrossingSign / EdgeOrVertexCrossing / "
                "EdgeOrVertexChainCrossing) over a pool of 3-9 such vertices, chains continue or jump, vertices are revisited; each output is "
                "compared with a fresh stateless call of the real code, with the model (incl. the field acb after every call and the final c) "
                "and with the exact specification. Edges with EXACTLY antipodal endpoints are out of contract and never generated. "
                "non-trivial = a c03quad line decided by the slow path / tangent test / shared-vertex rule (st: token other than fast), "
                "or a c03hist line with at least 3 calls; distinct = distinct (op, arguments).",
        "nontrivial": lambda l: (l.startswith("c03quad") and not l.rstrip().endswith("st:fast"))
                                or (l.startswith("c03hist") and l.split(" = ")[-1].count("/") >= 6),
        "trusted_base": [
            "float error analysis is NOT proved: soundness of triageSign, stableSign and of the outward-tangent early rejection "
            "(maxError = (1.5+1/sqrt 3)*dblEpsilon) are hypotheses (FloatSound) of the *_partial theorems; they are exercised by the oracle "
            "on every line (judge = exact four-orientation criterion in integer arithmetic)",
            "algebraic laws of the exact sign (rotation, swap, +-1 on distinct points) are hypotheses (SignLaws), proved for the decision "
            "model on exact integer vectors in S2Proofs.Properties.C02",
            "hook s2/verif_export_c03.go: VerifCrosserState (private fields of EdgeCrosser), VerifC03MaxError (a COPY of the local "
            "expression maxError of crossingSign; the real value is only tested behaviourally)",
            "finding D48 (repaired): NewEdgeCrosser built the tangents from the un-normalised PointCross(a,b), which is an arbitrary "
            "orthogonal vector when the float (a+b)x(b-a) cancels exactly for nearly antipodal a, b; the repaired code normalises "
            "(a+b)x(b-a) and leaves the tangents zero below |.|^2 = 2^-80 (corpus/C03/fixed_D48_antipodal_tangent.txt)",
        ],
        "assumptions": [
            "points are unit length within the library's tolerance; no edge has exactly antipodal endpoints (then NewEdgeCrosser uses an "
            "arbitrary tangent and CrossingSign is not symmetric: see DELIVER notes)",
            "theorems: on the point set of a history Go == coincides with equality (no NaN, no two points differing only in the sign of a "
            "zero coordinate) and the zero vector is not a vertex; the generator does produce signed zeros, covered by correspondence only",
            "a history does not start with a chain call (ChainCrossingSign / EdgeOrVertexChainCrossing before any vertex was given)",
        ],
    },
    "C15": {
        # check shards a generator 16-way and passes n/16 as -n to every shard; the c15 generator plans about 3*(n/16) inputs
        # (12*(n/16) in thorough tier) on top of ~850 mandatory ones and each shard emits its 1/16 of the plan.
        # Inputs whose declared count equals a documented limit make the REAL decoder allocate ~1.2 GB (decodes are serialised
        # machine-wide by a flock slot) and cost ~10 s in the Lean interpreter: capped at 2 per type (12 in thorough tier).
        "translators": ["translator_c15", "translator_c15b", "translator_c06"],
        "generators": [("c15", 4800, 16000), ("c15usable", 1600, 16000)],
        "modules": ["S2.DecoderIR", "S2.Generated.DecoderIR", "S2.CellID", "S2.Codec.Prim", "S2.Codec.Points", "S2.Codec.Types",
                    "S2.ShapesBase", "S2.Shapes", "S2.ShapesLoops", "S2.Generated.ShapeAccessors", "S2.Generated.DecodeFns"],
        "rule": "valid encodings of every type and both polygon formats (built with the public API), then: truncation at every "
                "prefix length, single / multiple bit flips, length-field substitution (0, 1, limit, limit+1, 2^31, 2^32-1, 2^32, 2^40, "
                "2^63, 2^63+5, 2^64-1) at the known count fields and blindly at every offset as uint32 / uint64 / spliced uvarint, "
                "random bytes, random bytes after a valid header, count=0 edge cases, four fixed inputs with NaN / Inf vertex "
                "coordinates (known finding D21); every input is decoded by the real code in a child process (RLIMIT_AS, GOMEMLIMIT, "
                "timeout, one retry of a timeout) and, when decoding succeeds, queried; generator c15usable (op c15shape): polygons of both formats with 0..40 loops in every "
                "arrangement of zero- / one- / two-vertex loops (all, first, last, adjacent, alternating; depth bit 63; bound bit set / not set) across the "
                "12-loop threshold of the two search paths, then random lossless polygons — the model decodes the SAME bytes, builds initEdgesAndIndex of the "
                "decoded loops and the regenerated accessors' outputs are compared with the real accessors of the value Decode returned "
                "(NumEdges, NumChains, every Edge / Chain / ChainPosition / ChainEdge; propfail query-panic | usable:<clause> | contract:<clause>); non-trivial = every line (each is a distinct "
                "byte string run through both the real decoder and the IR interpreter); distinct = distinct (type, bytes)",
        "nontrivial": lambda l: True,
        "trusted_base": ["translator_c15 (Go AST -> decoder IR); its output is tied behaviourally: the IR interpreter and the real "
                         "decoder must agree on error-vs-value for every generated byte string",
                         "intrinsic: facesIterator.next() is translated as `true` (decodeFaces guarantees enough faces when d.err == nil); "
                         "pinned by the sha256 of both functions in the generated file",
                         "opaque post-processing calls (NewShapeIndex, index.Add, initBound, initLoopProperties, initEdgesAndIndex, "
                         "CellFromCellID, ExpandForSubregions, facePiQitoXYZ, nthDerivativeCoder) are assumed not to touch the decoder; "
                         "their panics are visible only to the child-process half; for the polygon accessors this is now a THEOREM about the decoded "
                         "value (Properties/C15_Usable.lean: decodePolygon_usable — every byte string a decoder accepts yields a value whose Edge / Chain / "
                         "ChainPosition / ChainEdge return on all in-range arguments, both search paths, zero-vertex loops anywhere; reencode_succeeds); "
                         "that the Go state after Decode is initEdgesAndIndex of the decoded loops is checked by op c15shape, not proved",
                         "element sizes (Point 24, CellID 8, *Loop 8, faceRun 16, Loop 112) and the append growth charge (8 x element) "
                         "are constants of the translator / model",
                         "CellID.IsValid is the IR primitive cellIDValid, evaluated with S2.CellID.isValid and treated as an unknown "
                         "boolean by the static checker",
                         "memory cap of the model process: 32 GiB (Oracle.C15.cfg); child process: RLIMIT_AS 12 GiB, GOMEMLIMIT 8 GiB"],
        "assumptions": ["queries on an invalid CellUnion are gated on IsValid() (documented precondition)",
                        "known finding D21: NaN / Inf vertex coordinates are accepted by Polyline/Loop/Polygon.Decode and make the exact "
                        "predicates panic (clause panic-nonfinite-vertex)"],
    },
    "C07": {
        # (generator, quick n, thorough n); the exact O(n*m) oracle costs about 0.3 s per line on average
        "generators": [("c07", 1600, 24000), ("c07walk", 320, 8000)],
        "translators": ["translator_c09", "translator_c07"],
        "modules": ["S2.Generated.RelateFns", "S2.Relate", "S2.RelateWalk", "S2.RelateWalkHyps", "S2.Nesting", "S2.Pred", "S2.Exact"],
        "rule": "rel: pairs of valid loops — concentric regular polygons (the D1 shape: both sides with multi-cell indexes and edge-free "
                "interior cells), nearly equal radii, star-shaped random loops at every distance (disjoint / crossing / nested), "
                "one or both larger than a hemisphere, B = every s-th vertex of A (1..n shared vertices), B = a chain of A closed by a chord "
                "(shared edges, same and opposite direction), B touching A in one vertex / one reversed edge, identical / rotated / reversed "
                "loops, cell loops (same cell, descendants at a corner / edge / interior, edge and diagonal neighbours, overlapping blocks of "
                "one grid, blocks of up to 16x16 cells with long exactly shared chains of grid vertices), empty and full loops, a small loop "
                "deep inside / outside a large one; centres at poles, face centres, cube corners, face seams and random; vertex counts 3..4000 "
                "with n*m <= 10^6 (thorough 4*10^6); EVERY pair is evaluated on (A,B), (notA,B), (A,notB), (notA,notB) through Invert() on clones, "
                "through single-loop Polygons, ContainsNested and compareBoundary. The st: token records the branches the parallel index walk "
                "visits (edge-free-cell branch, cellCrossesAnySubcell). nest: laminar loop families (depth <= 5, siblings, cells sharing one "
                "vertex; towers = concentric spine of up to 6 levels with sibling loops / children / grandchildren in every ring, or loops through "
                "every second vertex of their parent) in every permutation (<= 4 loops) or 6 random orders. prel: polygons with holes / islands / "
                "several shells and their Polygon.Invert() complements; MULTI-LEVEL polygons (towers, nesting depth up to 5 on the spine and up to 11 "
                "with vertex-sharing inscribed loops, loops handed over in scrambled order) against a polygon B placed systematically in EVERY ring "
                "(outside, between spine loops k and k+1, innermost disc) in 12 ways: concentric loop enclosing all inner loops, small disc enclosing "
                "nothing, disc straddling a spine loop, annulus within one ring / across rings / across a whole hole-or-island ring, B = spine loops "
                "k..k2 of A (shared loops), B = every second vertex of a spine loop (shared vertices), B itself a tower interleaved with A, B around / "
                "inside a sibling (between sibling, child and grandchild), B sharing a sibling loop, several shells, ring k exactly (both boundaries "
                "shared): each (levels 4 and 6) x ring x placement once per run plus random ones, both argument orders, all four complement "
                "combinations; every Invert() result is checked (depths = exact containment counts, pre-order). non-trivial = rel line whose two loops both have >= 3 vertices, nest / prel lines; "
                "distinct = distinct (op, arguments)",
        "nontrivial": lambda l: ((l.startswith("rel ") or l.startswith("c07walk ")) and l.split(" ")[1].count(";") >= 2 and l.split(" ")[2].count(";") >= 2)
                                or l.startswith("nest ") or l.startswith("prel "),
        "trusted_base": [
            "exact orientation predicate of the oracle = sign of the integer determinant, Pred.exactDecisionI (symbolic perturbation) when it is 0; "
            "its laws (SgLaws: antisymmetry, rotation, non-zero on distinct points) are hypotheses of the C07 theorems and theorems of C02",
            "hook s2/verif_export_c07.go (compareBoundary, originInside, findVertex, read-only replay of the index walk for branch counters)",
            "s2.Ortho and OriginPoint() are modelled bit-exactly in the soft-float and compared (ops c07ortho, c07const)",
            "Polygon.Invert chooses the loop to invert by TurningAngle (libm): the complement is taken from the implementation and CHECKED "
            "(depths = exact containment counts, pre-order), not predicted",
            "geometry assumed, not proved: point-in-loop inversion law and 'all vertices of a loop lie on one side of a loop it neither "
            "crosses nor touches' (ComplementHyps), Jordan curve theorem (ExactRelationIsPointSet); exercised by the sound-con / sound-dis "
            "point samples on every rel / prel line",
        ],
        "assumptions": [
            "loops are valid: unit vertices, >= 3 pairwise distinct vertices, no antipodal neighbours, no two edges crossing or touching "
            "(the generator checks every constructed loop by brute force); polygons satisfy the documented restrictions",
            "ContainsNested is compared only when its documented precondition holds (no crossing, no shared edge, nested or disjoint)",
        ],
        "partial": ["label: partial (wedge dualities, set-algebra laws of the exact relation and nesting are theorems; that the index walk "
                    "equals the exact relation is decided by correspondence)",
                    "IndexWalkAgrees, ExactRelationIsPointSet, PolygonComplementLaws are stated as def : Prop, not proved"],
    },
    "C12": {
        "translators": ["translator_c19", "translator_c09", "translator_c04"],
        "generators": [("c12", 1500, 20000), ("c06pc", 2000, 40000), ("c12pole", 16000, 160000)],
        "modules": ["S2.CellM", "S2.STUV", "S2.Hilbert", "S2.CellID", "S2.F64", "S2.Exact", "S2.PaddedCellM", "S2.Generated.PaddedCellFns"],
        "rule": "cells: exhaustive levels 0-2 (thorough 0-4) plus structured random cells of every level (cube corners, face edges, "
                "the four cells around each pole, coarse grid lines, uniform); per cell: Children vs direct construction (cellch), RectBound/"
                "CapBound on 4 vertices + 4 edge midpoints + uv centre + the |u|,|v|-minimal boundary points + random edge/interior points, "
                "each unnormalized and normalized (cellbound); targets (cellpt/cidpt): vertices, exact edge points, interior, centre, just "
                "outside an edge/corner by 2^-53..1 of the cell size, cube corners, antipodes of centre/vertex/edge point, poles of the "
                "four edge great circles (+- perturbation 2^-48..2^-8), points on the extension of an edge, axis points, face seams, "
                "2^-60..1 from a vertex, ~90 degrees from the centre, uniform, each optionally +-1..3 ulps per coordinate; edges (celledge): "
                "pairs of such targets, grazing a vertex, ending at a vertex, running along a cell edge, short edges; cell pairs (cellcell): "
                "same, edge/all neighbours, nested, antipodal, neighbours at other levels, neighbours of neighbours, random. "
                "c12pole (defect D58): targets t = -n/|n| -/+ beta*mid (face frame; n = inward normal of the plane of one of the four cell "
                "edges, mid = unit vector of the edge midpoint), i.e. within beta of a POLE of the edge's great circle, beta log-uniform in "
                "[2^-40, 2^-57/edge length], levels 13..30 (half of them 24..30), cells 3/4 uniform + 1/4 structured, three modes: plain, "
                "+2^-52 noise per coordinate, coordinates moved by <= 2 ulps until the generator's own evaluation of the two tangential dot "
                "products has the signs of a (noisy) yes; every sample emitted; measured: 0.56 % of the lines fail on the tree without the "
                "margin of repair D58 (89 of 16000), none of 10^5 on the repaired tree (worst deviation 1.7e-15 against a tolerance of 2e-12). "
                "non-trivial = any cellpt/celledge/cellcell line whose reported minimum distance is non-zero, and every cellch line of a "
                "non-leaf cell; distinct = distinct (op, arguments)",
        "nontrivial": lambda l: (l.split(" ", 1)[0] in ("cellpt", "celledge", "cellcell") and " = " in l
                                 and (l.split(" = ")[1].split() + ["", ""])[1 if l.startswith("cellpt") else 0] != "0000000000000000")
                                or (l.startswith("cellch") and " = T" in l),
        "trusted_base": [
            "Oracle.C12Judge (exact integer geometry + integer-sqrt enclosures, K=220 fractional bits) is the judge of every distance "
            "claim; it is hand-written, validated against an independent 80-digit brute-force minimisation on the failing cases",
            "geometry assumed by the judge (as by the library): when an arc and a convex quadrilateral (or two quadrilaterals) do not meet, "
            "their minimum distance is attained at a vertex of one of them",
            "documented error used by the judge (upper bound of the sum of minUpdateInteriorDistanceMaxError, s1.ChordAngle.MaxPointError and "
            "the tolerance of s2/cell_test.go: 1e-15 rad up to 60 degrees, 1e-12 rad beyond)",
            "RectBound / CapBound (libm) and DistanceToEdge / DistanceToCell (robust cross product, edge crosser) are not modelled: judged on "
            "Go's outputs only; Go's LatLngFromPoint values travel on the line",
            "hook s2/verif_export_c12.go (orientation field of a Cell, centerUV, Cap radius as chord angle)",
        ],
        "assumptions": ["targets are finite non-zero vectors normalized to within r3.Vector.Normalize's guarantee; edge endpoints are never antipodal"],
        "partial": ["ContainsClaim (float margin of ContainsPoint)", "DistanceAttained / DistanceLowerBound / MaxDistanceUpperBound (numeric; "
                    "the former NaN refutations (D28) are fixed: former_NaN_inputs_fixed; what is proved is distanceLowerBound_partial)",
                    "point-target distances (C12_Distance, after repair D58): LOWER BOUND (2^-45), MaxDistance UPPER BOUND (2^-44) and ATTAINED "
                    "(2^-47 + (|p|-1)^2, all branches, no proviso) PROVED for all valid cells and unit-ish points; the attained claim is "
                    "refuted on the faithful pre-repair model (distance_attained_false_before_repair); BoundaryDistance / edge / cell targets: judged only"],
    },
    "C08": {
        # generator, quick n, thorough n (sharded over the cores by ./check; n/2 bare coverings + n/6 index/target
        # pairs with 3 (thorough 8) option sets each per shard)
        "generators": [("c08", 96000, 48000)],
        "translators": ["translator_c08"],
        "modules": ["S2.Generated.QueryFns", "S2.Generated.DistTargetFns", "S2.EdgeQueryM", "S2.CellID", "S2.Locate", "S2.F64"],
        "rule": "corpus (pinned cases of the repaired defects D7, D9, D10) first. c08cover: initCovering on bare sorted lists of "
                "pairwise disjoint valid cells (0..80 cells, siblings, curve neighbours, whole faces, 1..6 faces with 1..3 cells of "
                "mixed levels per face) compared with the Lean model cell for cell. c08eq: indexes of 3..300 (thorough 1500) edges "
                "placed on 1..6 chosen cube faces, sizes on both sides of every target type's brute-force threshold (24..33 edges), "
                "as regular / star loops (1..3 per face), one big loop spanning several faces, point clouds, polylines, tiny loops "
                "at cube vertices / edges, plus edge-less shapes, the full and the empty loop; targets: points (random, polygon "
                "centre, inside off-centre, on a vertex, 1e-9..0.1 off a vertex, antipodes, face centres), edges (random, crossing a "
                "polygon boundary, sharing a vertex, far, between two index vertices), cells (random level, faces, at a vertex at any "
                "level, leaf, inside a polygon, antipodal), shape-index targets (3..80 edges: near, overlapping, strictly inside, far "
                "polyline, several shapes on several faces, without edges, a single point); options MaxResults {1,2,5,all} x "
                "DistanceLimit {default, tiny, a true result distance -1/0/+1 ulp, 180 degrees / beyond, moderate} x MaxError "
                "{0,1e-9,0.01,0.5 rad} x IncludeInteriors, closest and furthest queries; every case runs FindEdges, Distance, "
                "IsDistanceLess/Greater and IsConservative* (at pred / value / succ of the exhaustive optimum, 0, 4, 1e-15, 4-ulp) "
                "without and with UseBruteForce through the public API, plus an edge-by-edge scan with the target's own "
                "updateDistanceToEdge. The oracle recomputes the expected answer from the scan with the model's postProcess "
                "(ties resolved by (distance, shape, edge); for MaxResults=1 any edge at the optimal distance is accepted), checks "
                "sorted / duplicate-free / <= MaxResults / within limit / optimized = brute force / MaxError in the doc's sense with "
                "a bit-exact soft-float ChordAngle.Sub/Add / thresholds <=> exhaustive optimum / interiors by construction / the "
                "covering really used. non-trivial = a c08eq line whose non-brute-force query really ran the optimized search "
                "(hook: the query object's iterator exists), or a c08cover line with at least 2 cells; distinct = distinct (op, arguments)",
        "nontrivial": lambda l: (l.startswith("c08eq") and " = O " in l) or (l.startswith("c08cover") and "," in l.split(" ")[1]),
        "trusted_base": [
            "per-edge distances (UpdateMinDistance / edge-pair / cell distances) are taken from the implementation's own "
            "updateDistanceToEdge called edge by edge (their accuracy is C17 / C12); the judge is exhaustive-scan equality, not "
            "numeric accuracy",
            "containment for IncludeInteriors: the shapes reported by visitContainingShapes are cross-checked against "
            "by-construction inside / outside sets for point targets only",
            "hooks s2/verif_export_c08.go (read-only: iterator-exists flag = optimized path ran, indexCovering, initCovering on a "
            "bare cell list, per-edge distance, containing shapes, inner-query settings of shape-index targets)",
            "Lean search theorems assume WorldOK: updateDistanceToEdge exact, updateDistanceToCell a sound lower bound, initial "
            "cells complete (numeric facts of C12 / C17)",
        ],
        "assumptions": [
            "MaxResults >= 1 (documented); a distance target object is not shared between queries with different MaxError "
            "(setMaxError is sticky on shape-index targets, as in C++)",
            "ties: with MaxResults = 1 which of several edges at the optimal distance is reported is unspecified (heap order, Go map "
            "order in findEdgesBruteForce)",
        ],
        "partial": ["label: partial (numeric lower bounds are hypotheses: WorldOK / WorldApprox; under them targets that use MaxError "
                    "are proved for MaxResults = 1, MaxResults != 1 (ApproxMultiSpec, top-k / rank semantics) and the threshold "
                    "calls: Properties/C08_Approx.lean)"],
    },
    "C05": {
        "translators": ["translator_c19", "translator_c07"],
        # (generator, quick n, thorough n); c05 emits `cov` and `pred` lines, c05s18 drives normalizeCovering into its re-cover
        # branch and its merge loop (repaired defects S18 / hang: corpus/C05/fixed_S18_hang.txt; each line runs under a 20 s
        # watchdog, result token HANG).  NOT run here: c05x (`predx`: cap predicates judged with a slack of 2^-50 relative to
        # r2 only, fails at the 1e-17 rad level) and c05polar (explores the KNOWN finding class `…-polar-rect`).
        # c05hemi (defect D59, repaired; corpus/C05/fixed_D59_cap_near_hemisphere.txt): caps within 1e-7 (1e-5) rad of a
        # hemisphere that reach over the middle of a cell edge; 16000 lines = 16 shards x 1000, about 1 s of oracle time per
        # shard; on the unrepaired tree 28 % of the lines (52 % of the samples) are property failures.
        "generators": [("c05", 40000, 400000), ("c05s18", 1600, 16000), ("c05hemi", 16000, 160000)],
        "modules": ["S2.Generated.RegionFns", "S2.Coverer", "S2.CovererRegions", "S2.CapCell", "S2.CellUnion", "S2.CellID", "S2.STUV", "S2.Exact", "S2.Pred", "S2.F64"],
        "rule": "one line = one region under one coverer configuration: caps, lat-lng rectangles (polar, degenerate, antimeridian, "
                "full, empty), cells, cell unions (with holes / far components), a user region whose CellUnionBound() is its own "
                "cell list, convex regular loops of 3..64 vertices, star-shaped loops, polygons with a hole (and a shell inside the hole), "
                "polylines, points; radius log-uniform from 1e-9 to the whole sphere (as large as the MinLevel budget of 4000 cells "
                "allows), centred at poles, on the antimeridian, at cube corners / edges / face centres, cell vertices and random places; "
                "MinLevel in {0,1,2,3,5,7,10,20,29,30,-3,35}, MaxLevel in {0,1,4,8,12,20,29,30,-2,40, MinLevel-1..-3, MinLevel+0..4}, "
                "LevelMod in {1,2,3,0,-1,4,7}, MaxCells in {0,1,2,3,4,5,8,20,100,500..2000,10000,-1,-100}. Judged: level discipline of all "
                "five results, every supplied region point (re-verified exactly by the oracle for caps, cells, cell unions, convex loops) "
                "lies in a cell of Covering / CellUnion / FastCovering (exact closed-cell test), every interior cell lies in the region "
                "(exact for caps, cells, cell unions, convex loops). pred lines: (region, cell) pairs grazing the boundary (cap radius = "
                "distance to a cell vertex / edge +- k ulp, loop edge or vertex through a cell vertex +- 1e-15..1e-3; thin rectangles "
                "(height 0..1e-6) at mid latitudes and 1e-9..1e-2 rad from a pole with the leaf cells / ancestors of their points, judged "
                "against Go's own Rect.ContainsPoint). Shard 0 always starts with the lines of corpus/C05/known_polar_rect.txt (known "
                "finding: Rect.IntersectsCell next to a pole, clauses `…-polar-rect` = region kind rect and offending point with "
                "|z| >= 1 - 1e-9). "
                "c05hemi (defect D59): caps next to a hemisphere grazing the middle of a cell edge: cell of level 0..4 (1 sample in 4: 0..6), edge k, "
                "n = cell.Edge(k) (unit inward normal), m = Normalize((1-t) v_k + t v_k+1), t in [0.3,0.7] (1/4: [0.1,0.9]), gap = 1 - max(m.v_k, m.v_k+1), "
                "f in [0.2,0.8], e2 log-uniform from max(1e-9, 4e-12/(gap f)) to 1e-7 (1 sample in 4: 1e-5), e1 = e2 (1 - gap f), depth = e2 - e1, "
                "centre a = Normalize(-cos(e2) n + sin(e2) m), mIn = Normalize(cos(depth/2) m + sin(depth/2) n); 2 samples of 3: cap (a, 2 - 2 sin e1) "
                "(radius 90 degrees - e1: reaches depth >= 4e-12 rad over the edge at m, no vertex inside; IntersectsCell must be true, coverings must "
                "cover mIn), 1 of 3: cap (-a, 2 + 2 sin e1) (the complement, radius 90 degrees + e1: all four vertices inside, mIn outside; "
                "ContainsCell must be false); lines: pred cap for the cell and for its neighbour across edge k with samples + m + mIn, and every "
                "4th sample of the first kind a cov cap line (MinLevel = level of the cell, MaxLevel in {+0,+1,+3,30}, MaxCells in {1,3,4,8,20}, "
                "points m, mIn); mIn is off the cap boundary and inside the cell by depth/2 >= 2e-12 rad, the judge's slack (2^-48 on the chord) "
                "is 5.9e-15 rad there; every sample is emitted, nothing depends on the library's answers. "
                "non-trivial = cov line whose Covering has at least 2 cells, or a pred line; distinct = distinct (op, arguments)",
        "nontrivial": lambda l: l.startswith("pred") or (l.startswith("cov ") and "," in l.split(" = ")[1].split(" ")[2]),
        "trusted_base": ["region predicates of Rect, Polygon, Polyline, non-convex Loop are not judged exactly: their supplied points are "
                         "those Go's own ContainsPoint accepts (polyline: its vertices)",
                         "cell geometry (Cell.BoundUV) is the soft-float STUV model, compared bit-exactly with Go by C01",
                         "interior coverings of more than 200 cells are judged on 200 evenly spread cells"],
        "assumptions": ["c05 keeps MaxCells >= -100; configurations with MaxLevel < MinLevel that reach the re-cover branch of "
                        "normalizeCovering, very negative MaxCells, user bounds of > 100 cells and user bounds with leaf cells are in c05s18",
                        "rect pred lines are judged Go-vs-Go (Rect.ContainsCell / IntersectsCell against Rect.ContainsPoint on the cell's "
                        "sample points), not exactly"],
    },
    "C10": {
    # (generator, quick n, thorough n); measured 48000 lines in 46 s on 16 cores (generator + oracle);
    # c10long = long-edge loops only (RectBounder latitude budget, finding F1): 32000 lines in 40 s
    "translators": ["translator_c10", "translator_c07"],
     "generators": [("c10", 36000, 500000), ("c10long", 6000, 400000)],
    "modules": ["S2.Generated.BoundsFns", "S2.Generated.RegionFns", "S2.Bounds", "S2.Interval", "S2.Contain", "S2.Pred", "S2.Exact", "S2.STUV", "S2.F64", "S2.F64Extra", "S2.CellID"],
    "rule": "every run first replays the minimal inputs of the repaired findings F1-F6 (c10Regression). regions: loops (star loops about a pole / cube corner / face-edge midpoint / anywhere, 3..300 vertices, radius 1e-7 .. hemisphere, "
            "counter-clockwise or clockwise = larger than a hemisphere; an edge through / within 0, denormal, 1e-16 .. 1e-3 of a pole incl. LONG "
            "polar edges whose endpoints are nearly antipodal; an edge spanning pi -+ tiny of longitude; nearly antipodal adjacent vertices; thin strips "
            "along a parallel spanning > 180 degrees; loops across the antimeridian with a vertex exactly on it; small loops around / next to a pole; "
            "lat-lng quadrilaterals; loops winding around a parallel (exactly one pole inside); cells of every level at poles / cube corners as loops; "
            "the empty and full loops; each also after Invert), polygons (1-3 nested loops + optional second shell), polylines (incl. chains lying "
            "exactly in the plane y = 0 through the poles or in the equator plane, which have exact on-edge points), caps (radius 0, tiny, pi/2 -+ tiny, "
            "pi - tiny, boundary through a pole, any chord length 0..4; centre anywhere / at a pole / next to a pole), cells and cell unions (every "
            "level; faces; at poles and cube corners), nested loop pairs A contains B (B hugging A from inside by 1e-1 .. 1e-15, diamond in square, "
            "small inner loop; nesting re-checked exactly by the oracle). probes: every vertex and its float neighbours; for every edge the point of "
            "extremal latitude and the crossing of the +-pi meridian computed with 300-bit arithmetic, then float neighbours (single coordinates +-1..3 "
            "ulps, steps of k*1.2e-16 along and k*0.6e-16 across the edge); edge midpoints; the poles and neighbours; interior points; antipode. "
            "Membership of a probe is decided exactly by the oracle (crossing parity with the exact orientation predicate; exact collinearity and "
            "betweenness for polylines; exact chord comparison for caps; exact uv-rectangle test for cells); only probes that ARE members are judged: "
            "clause rect (Rect.ContainsLatLng of the library's own LatLngFromPoint, float comparisons as in the code), cap (Cap.ContainsPoint as computed), "
            "capexact (exact chord comparison, slack 4 ulps), cells (leaf cell of the probe inside CellUnionBound), caprect (Cap.RectBound), subregion "
            "(ExpandForSubregions(A.RectBound) contains B.RectBound for exactly nested A, B, A without pole). hull: ConvexHullQuery on point sets (single "
            "point, two points close / far / nearly and exactly antipodal, duplicates, exactly collinear points in a coordinate plane, all points in a cap "
            "of radius 1e-7 or 3e-15, points spread over more than a hemisphere, clouds in caps up to a hemisphere, points around a pole / across the "
            "antimeridian), polylines, loops (incl. > hemisphere, empty, full), polygons; judge: every cyclic triple of the hull is counter-clockwise by "
            "the exact predicate, hull vertices pairwise distinct, every input point is a hull vertex or has exact determinant >= 0 against every hull edge. "
            "model = implementation (verdict diff): Loop.initBound pole logic and Invert from the RectBounder result and the exact pole containment, "
            "ExpandForSubregions bit-exactly, polygon bound = union of the non-hole loop bounds, CellUnion.RectBound = union of the cell bounds, "
            "Cap.ContainsPoint bit-exactly, the whole ConvexHull (model on the exact orientation, with the library's origin) whenever the sort comparator "
            "is a strict total order on the input. non-trivial = a line with at least one probe / input point; distinct = distinct (op, arguments)",
    "nontrivial": lambda l: not (" - = " in l or l.startswith("hull P - ")),
    "trusted_base": [
        "the harness passes the library's own LatLngFromPoint(p) (math.Atan2) for every probe: the property is about the COMPUTED latitude / longitude; libm is not modelled",
        "abstract in the model (S2.Bounds.EdgeBounder): the numeric heart of RectBounder.AddPoint (cross product, atan2 / asin latitude extremum, the constants 1.91346e-15, "
        "6.06638e-16, 6.83174e-31, 3 eps, eps); theorems assume EdgeSound (each per-edge rectangle contains the computed lat-lng of every point of its edge); searched by the oracle",
        "LngExpandKeeps 0 / pi (s1.Interval.Expanded keeps every point) is a hypothesis of the RectBound / ExpandForSubregions theorems: true for exact arithmetic "
        "(S2Proofs.C19.s1_expanded_contains_exact_partial), false for float64 in general (C19); judged on every line (clause rect, sub-not-superset)",
        "geometric hypotheses of initBound_contains / loop_bound_contains (hN, hS: no pole inside => extreme latitude attained on the boundary; hL: no pole inside => interior "
        "longitudes within every arc covering the boundary longitudes; hF: only the south pole inside => computed longitude bound is full) are assumed, exercised by the oracle "
        "(loops containing one / both / no pole, model initBound = implementation on every bndloop line)",
        "SignLaws (cyclic symmetry, antisymmetry, non-degeneracy on distinct points, three instances t1 t2 t3 of Knuth's CC-system transitivity axiom for points sorted around a "
        "far origin) are assumed of RobustSign; proved for integer points of the plane in general position (signLaws_integer_plane); that sort.Slice around origin yields an input "
        "satisfying them is the statement convexHull_sorted_laws_statement (not proved)",
        "Oracle.C04.fastGeo (exact integer determinant, falling back to Pred.exactDecision on zero) as exact orientation predicate, as in C04",
        "export hooks used (all pre-existing): VerifLoopDepth, VerifCellIDFromPoint, VerifFaceUVToXYZ, VerifLoopBruteForceContainsPoint",
    ],
    "assumptions": [
        "loops are valid (unit vertices, no duplicate vertices, no antipodal neighbours, no self-crossing: checked by the generator with the library predicates)",
        "probes are unit length within the library tolerance (IsUnit); no NaN / infinite coordinates",
        "bndsub: the sub-region guarantee is judged only when the outer loop contains neither pole (documented restriction)",
        "polyline points: only probes EXACTLY on an edge (integer determinant 0 and between the endpoints) or equal to a vertex count as contained",
    ],
    "partial": ["edgeBound_sufficient_statement, expandForSubregions_covers_subloops_statement, capBound_conservative_statement, convexHull_sorted_laws_statement are "
                "`def ... : Prop` (numeric sufficiency of the padding constants, cap / cell bounds, and the link sort -> SignLaws): searched by the oracle, not proved; "
                "the search found six defects (F1 RectBounder latitude budget for nearly antipodal endpoints, F2 cap bounds without rounding slack, "
                "F3 Cap.RectBound without padding, F4/F5 ConvexHull on two nearly identical points, F6 ConvexHull on exactly hemispherical input), all repaired "
                "(docs/fixes/fix_C10_F*.diff); bndcu additionally needs the Cap.AddCap repair of package c19 (fix_capAddCap.diff)"],
    "level_text": "proof (Lean 4): 31 theorems — composition of conservative per-edge bounds through RectBounder / expanded / PolarClosure, Loop.initBound pole logic, Invert, "
                  "polygon bound, ExpandForSubregions never loses a point (over an abstract linearly ordered carrier, reusing the C19 algebra); Andrew's monotone chain: "
                  "subsequence, every consecutive triple counter-clockwise, every input point a hull vertex or strictly left of every hull edge (under SignLaws)",
    "level_note": "partial: all float error budgets (padding constants, cap / cell bounds, sub-region expansion) are searched, not proved",
    },
}

PROPS["C16"] = {
    # quick ~ 40 s on 16 cores (0.9 ms / line in the oracle), thorough ~ 6 min
    "translators": ["translator_c16"],
    "generators": [("c16", 64000, 1600000)],
    "modules": ["S2.Generated.EdgeNumFns", "S2.EdgeNum", "S2.IA", "S2.Pred", "S2.Exact", "S2.Contain", "S2.STUV", "S2.F64"],
    "rule": "op isect: crossing edge pairs (emitted only when s2.CrossingSign == Cross and the two great circles are exactly identical or "
            "at an angle >= 1.05e-15, checked in exact rational arithmetic by the generator and again by the oracle) from 9 classes: generic "
            "(crossing angle log-uniform 1e-15..pi/2, lengths log-uniform 1e-300..3.1), tiny edges around axis points (1e-300..1e-9), crossing "
            "at / 1e-300..1e-3 from an endpoint incl. an endpoint exactly on / +-1..2 ulps off the other great circle, small angles with long "
            "edges, exactly collinear overlapping edges on the great circles x=0, y=0, z=0, x=y in every interleaving and orientation and "
            "tilted by 2e-15..1e-9, nearly antipodal endpoints (pi - 1e-9 .. pi - 0.1), equal-length mirror images (compareEdges tie-break), "
            "collinear overlapping edges with PARALLEL but not bit-equal vertices (finding D50: a vertex of one edge is a copy of a vertex / "
            "the midpoint of the other edge rescaled by 1 +- 1..4 ulps, exactly for axis points and points (2^-k, 1, 0), rounded otherwise; "
            "edges ending at / touching at / containing the shared direction, the same edge given twice), "
            "uniform.  Each line: Intersection under all 8 argument permutations + intersectionStable (accept flag, point) + "
            "intersectionExact + compareEdges through the hooks.  Model comparison: all of them bit-exact.  Judge (exact integer "
            "arithmetic): 8 results bit-identical (clause bitident; bitident-zero-sign when they differ only in the sign of a zero), "
            "|p| in 1 +- 2*dblEpsilon (unit), angle to the exact direction +-(a0xa1)x(b0xb1) <= 8*2^-53 decided with "
            "eps - eps^3/4 < sin eps <= eps (acc), on the side of the exact crossing (hemi), accepted stable results inside the bound "
            "(stable-accept), collinear edges: an input vertex lying on both closed edges (collinear-point). "
            "KNOWN class F5 has its own clause hemi-antipodal (both edges within 2^-20 rad of antipodal); three such inputs are emitted by every shard. "
            "non-trivial = every isect line; distinct = distinct argument tuples",
    "nontrivial": lambda l: l.startswith("isect "),
    "trusted_base": ["the 8*2^-53 bound is PROVED (Properties/C16_Accuracy.lean, package c16acc) for inputs outside the D38 class under StableSide "
                     "(computed distances of weakly opposite sign, no deep underflow): accuracyClaim_partial / accuracyClaim_margin_partial; unit "
                     "length PROVED for every non-collinear in-contract input with tolerance 10*2^-53 on |p| (intersection_unit); the 4*2^-53 form of "
                     "UnitLengthClaim and the same-sign regime of the stable path stay judged on every line by the exact-arithmetic oracle",
                     "the enclosure eps - eps^3/4 < sin eps (Mathlib Real.sin_gt_sub_cube) is used by the judge; C16Acc/Radians.lean proves the radian bound from it",
                     "Go's math/big.Float never rounds at 2^26 bits on these inputs and Float64() rounds to nearest even "
                     "(modelled incl. the sign of zero; tied by bit-exact comparison of intersectionExact on every line)"],
    "assumptions": ["arguments are unit length within the Normalize guarantee and CrossingSign(a0,a1,b0,b1) == Cross; "
                    "crossing angle >= 1e-15 or exactly collinear (quantifier text)"],
    "partial": ["BitIdentityClaim is PROVED in full for the repaired code (Properties/C16_Canonical.lean: bitIdentityClaim, "
                "intersection_order_independent(_inContract); Intersection canonicalises its argument order once — repair D50 — so the 8 orders "
                "execute literally the same computation on every input with finite points, non-degenerate edges and different smaller endpoints "
                "(CanonInput, implied by InContract); no KernelSym / DecisiveAt / OccwSym / GenPos hypothesis); GoEqualityClaim follows wherever the "
                "result has no NaN coordinate (goEquality_of_fin). "
                "AccuracyClaim: proved as accuracyClaim_partial under NotAntipodal (both edges shorter than pi - 2^-19.5) + StableSideIfAccepted, and as "
                "accuracyClaim_margin_partial under the sharp HemiMargin; projection_bound_sound (the error estimate computed by `projection` IS an upper "
                "bound), intersection_accurate_stable / _exact (sin of the angle <= 8u resp. 3u), intersection_radians; UnitLengthClaim: intersection_unit "
                "(10u, non-collinear), intersection_unit_partial (collinear branch when the rule returns a vertex); NOT proved: the same-sign regime of the "
                "stable estimate (F-a: no failing input in 1.4 M same-sign acceptances), the deep-underflow regime below 2^-400, the 4u form of the unit clause; "
                "both claims are still judged by the oracle on every line; the inputs that refuted the claims before the repairs F1-F4 "
                "are kept as kernel-checked regression examples; accuracyClaim_false records the KNOWN finding F5; "
                "Properties/C16_Sym.lean keeps the theorems about the PRE-repair code (intersectionOld) as regression witnesses: sign symmetry of the "
                "real kernels (kernelSym_real), the then-necessary side conditions, bitIdentityClaimOld_false, bitIdentityOld_violated_in_contract (D50)"],
}
PROPS["C17"] = {
    # quick ~ 50 s on 16 cores (15 ms / line: ~50 soft-float distance evaluations per pedist line), thorough ~ 8 min
    "translators": ["translator_c16"],
    "generators": [("c17", 24000, 480000)],
    "modules": ["S2.Generated.EdgeNumFns", "S2.EdgeNum", "S2.IA", "S2.Pred", "S2.Exact", "S2.Contain", "S2.STUV", "S2.F64"],
    "rule": "pedist (60 %): edges degenerate / 1e-15 .. pi-1e-9 long, axis-aligned or random; query x = a, b, +-1..2 ulps, on the edge "
            "(Interpolate) and nudged / displaced perpendicular by 1e-17..1e-3, beyond the ends, the pole of the edge exactly and nudged, "
            "antipodes of a, b, midpoint and on-edge points exactly and nudged, ~90 degrees away, uniform; thresholds = computed "
            "distance, its predecessor / successor, 0, 2, 4, Inf, -1, random, and the same around the max distance.  Model comparison "
            "(bit-exact soft-float): updateMinDistance, interiorDist, UpdateMinDistance, IsDistanceLess, UpdateMinInteriorDistance, "
            "IsInteriorDistanceLess, UpdateMaxDistance, minUpdateDistanceMaxError, Project.  Judge (rational interval arithmetic, "
            "160-bit sqrt enclosures, true values defined on the normalised input directions): |d - true| <= documented bound "
            "(max of the bound at the computed and at the true value) (dist-err), d <= endpoint distance + bound (dist-endpoint), "
            "d = 0 for x = a or b (zero-endpoint), valid chord <= 4 (chord-invalid), threshold forms vs the computed distance "
            "judged UP TO THE DOCUMENTED ERROR BOUND (clause thresh fires only when the threshold form and the computed distance disagree by more than "
            "minUpdateDistanceMaxError; a literal 1-ulp disagreement inside the bound is not a failure — theorem not_thresholdAgrees records that it exists), "
            "max distance (maxdist-err; clause maxdist-rightangle (formerly D41, fixed 27d15c6) when both endpoint chords are within 2^-45 of 2; thresh-max), DistanceFromSegment angle vs chord by a Taylor enclosure of sin (angle-conv), "
            "Project on the great circle / between a and b / realising the distance (project-circle, project-between, project-dist, "
            "all replaced by the single KNOWN-class clause project-nearpole when x is within ~5 degrees of the pole of the edge: sin^2 angle(x, a x b) < 2^-7), Interpolate(0)=a, Interpolate(1)=b bitwise, "
            "Interpolate(0.5) vs a+b, Interpolate(DistanceFraction(x)) vs x for x on the edge, Interpolate(DistanceFraction(Project x)) vs "
            "Project x, tolerance 2^-46 rad where the library documents none.  eedist (25 %): crossing, touching, degenerate, parallel, "
            "nearly antipodal pairs: updateEdgePairMin/MaxDistance at all thresholds, EdgePairClosestPoints (model comparison + ee-err, "
            "ee-thresh (up to the bound; negative thresholds = NegativeChordAngle sentinel are out of contract and not judged), ee-max-err, ee-closest-*, "
            "KNOWN-class clause ee-closest-nearpole when a vertex is within ~5 degrees of the other edge's pole; five known-class inputs are emitted by every shard).  plint (15 %): polylines of 1..1000 vertices with zero-length and reversing segments: "
            "Interpolate / Uninterpolate / Project round trips judged through Go's own arc lengths and exact on-segment tests (pl-*). "
            "non-trivial = every pedist / eedist / plint line",
    "nontrivial": lambda l: not l.startswith("c17const"),
    "trusted_base": ["NOT proved (partial): every numeric error bound (minUpdateDistanceMaxError etc.) — judged by the interval oracle",
                     "libm-dependent functions (ChordAngle.Angle, Interpolate, DistanceFraction, Point.Distance) are not modelled; "
                     "their outputs are judged through algebraic consequences and a Taylor enclosure of sin",
                     "tolerance 2^-46 rad for Project / Interpolate / polylines is OURS (the Go port documents none)"],
    "assumptions": ["unit-length inputs (Normalize guarantee), edge endpoints not antipodal (pi - 1e-9 at most)"],
    "partial": ["numeric bounds are `def … : Prop` in S2Proofs/Properties/C17.lean; the EXACT threshold equivalence ThresholdAgrees is refuted "
                "(1-ulp vertex / interior disagreement, inside the documented bound); the property-level statements are updateMinDistance_true_lt / "
                "updateMinDistance_false_unchanged / isDistanceLess_partial"],
}


PROPS.update({
    "C18": {
        # (generator, quick n, thorough n); n = generated loops in total (16 shards).  Every loop gives one c18turn, one
        # c18area, ~1.7 c18ta3, and (when applicable) c18cent / c18surf lines, every 6th iteration a c18parea line.
        # quick ~ 20-30 s per shard (one 10^4-vertex loop costs ~10 s: List-indexed faithful model), thorough ~ 4-5 min.
        "translators": ["translator_c10"],
        "generators": [("c18", 12000, 130000)],
        "modules": ["S2.Generated.MeasureFns", "S2.Measures", "S2.Contain", "S2.Pred", "S2.Exact", "S2.STUV", "S2.F64"],
        "rule": "valid loops (unit vertices, pairwise different, no antipodal neighbours, no crossing of non-adjacent edges — checked with the "
                "library's exact predicates): regular and jittered star-shaped loops about a pole / cube corner / axis point / anywhere, radius 1e-6 .. 1.45; "
                "tiny loops of 6e-8 .. 6e-7 rad (1e-14 .. 1e-12 sr), snapped to level-30 cell centres or not; slivers (out along an arc of "
                "1e-3 .. 2.5 rad at +w, back at -w, w = 3e-16, 1e-15, 1e-12, 1e-9); zero-area triangles of three EXACTLY collinear points on a "
                "coordinate great circle; great-circle loops (regular, radius pi/2 +- 0, 1e-9, 1e-6, 3e-6, 1e-5, 2e-5, 1e-3: fan diagonals of ~180 "
                "degrees) and triangles with one edge of pi - {1e-4,1e-5,9e-6,1e-6,1e-8}; loops larger than a hemisphere (radius pi/2+0.02 .. pi-0.02); "
                "loops around both poles (full longitude span: IsNormalized cannot take its shortcut); cell boundaries of every level; dense small loops "
                "(100..3000 vertices, area 0.01 .. 3 x turningAngleMaxError: the curvature test decides); snakes (a band along a sine curve, not "
                "star-shaped, scale 1e-6 .. 1); a third of all "
                "loops clockwise (= huge complement); every loop also inverted by Invert(). 3..10^4 vertices (3, 4, 5-8, 9-40, 41-200, "
                "201-1000, 1001-3000, 10^4). Polygons: 1-4 concentric nested loops (+ optional far shell), loops given in random order. "
                "c18turn: CanonicalFirstVertex / TurningAngle of the loop, ALL rotations (n <= 8) or 1-4 sampled ones, the inverse and its "
                "rotations — model = S2.Measures on the implementation's own TurnAngle values, bit-exact; property = bit-identical under "
                "rotation, sign bit flipped under inversion. c18area: raw surface integral, turningAngleMaxError, IsNormalized, Area of loop and "
                "inverse (model = decision logic bit-exact), rotations, signed fans from other vertices, star triangulation from an interior point, "
                "exact containment (S2.Contain) of the antipode of a cap that holds all vertices; tolerance E(n) = n*1e-14 (2n triangles x the "
                "documented 5e-15 of PointArea; dominates turningAngleMaxError). c18surf: triangle sequence and sum of the origin-switching "
                "surface integral vs the model with exact 180-degree tests. c18parea: Polygon.Area/Centroid = soft-float signed folds of the "
                "loops' Area/Centroid, bit-exact. non-trivial = a c18area line whose normalised signed integral is within maxError of 0 or 4*pi "
                "(the Gauss-Bonnet decision is consulted), a c18surf line whose origin moved (triangles != n-2), a c18turn line with n >= 4, "
                "a c18parea line with a hole; distinct = distinct (op, arguments)",
        "nontrivial": lambda l: (l.startswith("c18turn") and l.split(" ", 2)[1].count(";") >= 3)
                                or (l.startswith("c18surf") and l.split(" = ")[-1].count("|") + 1 != l.split(" ", 2)[1].count(";") + 1 - 2)
                                or (l.startswith("c18parea") and ";1:" in ";" + l.split(" = ")[-1].split(" ")[0])
                                or (l.startswith("c18area") and _c18_ambiguous(l)),
        "trusted_base": [
            "libm is NOT modelled (S2.F64 has no atan/atan2/tan/asin): TurnAngle, SignedArea/PointArea, TrueCentroid and Angle() > maxLength are "
            "parameters of the model; in the oracle the implementation's own values travel on the line (TurnAngle per vertex in both directions, "
            "SignedArea per triangle through the recording callback of the hook), the 180-degree tests are decided in exact rational arithmetic "
            "(lines within 1e-15 of the threshold are not judged)",
            "NOT proved (partial): every numeric sentence — area + area(inverse) = 4*pi, triangulation additivity, start-vertex independence, "
            "agreement with containment for slivers (defs AreaComplement, AreaStartIndependent, AreaTriangulation, AreaAgreesWithContainment); "
            "judged on every run with tolerance E(n) = n*1e-14 against exact containment",
            "SignLaws (float64(-1)*x = -(float64(1)*x) and the clamp commutes with negation, for non-NaN x) is a hypothesis of "
            "turningAngle_invert; it is what every c18turn line checks bit-exactly on the inverse (soft-float model vs implementation)",
            "hook s2/verif_export_c18.go: VerifLoopSurfaceIntegralFloat64/Point (call the unexported surfaceIntegral* with the caller's callback), "
            "VerifLoopTurningAngleMaxError, VerifLoopBoundLngLength",
            "the exact containment judge is Oracle.C04.fastGeo (= Pred.exactDecision on finite vectors, cross-checked by the C04 check)",
        ],
        "assumptions": [
            "OrdOK: r3.Vector.Cmp is a strict total order on the loop's vertices = finite coordinates and no two positions with Cmp-equal "
            "vertices (proved from validity: ordOK_v3lt); shown necessary (canonicalFirstVertex_invert_needs_distinct)",
            "loops have >= 3 vertices in the rotation / inversion theorems (the one-vertex empty/full loops return +-2*pi by a separate branch)",
            "Go's Loop.Validate does NOT check self-intersection (findValidationErrorNoIndex only); the generator checks it itself",
        ],
        "partial": ["AreaComplement, AreaStartIndependent, AreaTriangulation, AreaAgreesWithContainment are `def ... : Prop`, judged by Oracle.C18",
                    "label: partial (exact rotation / negation invariance and the signed-sum structure proved; numeric consistency searched)"],
    },
})

PROPS.update({
    "C20": {
        # (generator, quick n, thorough n): n = general tessellator cases + n coarse-tolerance cases, the cheaper ops are emitted 2n times each.
        # measured: n = 9600 -> 115 290 lines, 8 s wall on 16 cores (harness + oracle); thorough ~ 2 min
        "translators": ["translator_c10"],
        "generators": [("c20", 9600, 96000)],
        "modules": ["S2.Generated.ApproxFns", "S2.Approx", "S2.F64", "S2.F64Extra", "S2.STUV", "S2.CellID", "S2.Hilbert"],
        "rule": "c20tess (n general cases + n cases with tolerance 10^U(-1,0) or 1 rad): geodesic edges (proj) / planar edges (unproj) x {plate carree, mercator} x scales {pi, 180, 1, 2^20, 1e-3, "
                "20037508.34 (web mercator metres), 0.5, 648000 (arc seconds)} x tolerances {1e-13, 1, 10^U(-13,-11), 10^U(-2,0), 10^U(-13,0)}; "
                "edge centre class: equator crossing / antimeridian crossing / both / high latitude (plate carree to 89.9 deg, mercator to 85 deg, "
                "89 deg for tolerances >= 1e-7) / uniform; direction east-west, along a meridian (incl. over the pole), random; mirrored about the equator "
                "(equal |lat|, worst case of a midpoint estimate); an endpoint exactly at a pole (plate carree); length <= 250*sqrt(tol) so that chains stay "
                "below ~500 vertices; planar inputs also given as unwrapped representatives (+- one period). The harness measures by dense sampling "
                "(up to 1024 points per output segment, 120 000 evaluations per case) the largest distance from a point of the OUTPUT chain to the INPUT edge "
                "(proj: planar segment mapped back vs geodesic, DistanceFromSegment; unproj: geodesic chain vs the projected planar edge, nearest curve point by a 48-point scan of the WHOLE edge + "
                "golden section on the two best basins); the oracle compares exactly with tol*(1+2^-20)+2^-50 and checks first / last vertex (modulo the wrap period) "
                "and that consecutive planar vertices are at most half a period apart. c20wrap: WrapDestination / Interpolate bit-exact vs the soft-float model "
                "(operands half a period apart +- ulps, whole periods apart, 1e-9 periods apart). c20projrt: Unproject(Project(p)) for points near poles, axis "
                "points, antimeridian, equator, cube corners. c20subs: polylines of 0..300 vertices (straight with lateral noise about the tolerance, smooth curves, "
                "back-tracking, random walks, zig-zags of amplitude about the tolerance; repeated vertices, returns to earlier vertices (A,B,A), closed, edges "
                "longer than 90 deg and nearly antipodal, start points near poles / antimeridian / cube corners), step length tol*10^U(-1.5,2.5): indices compared with "
                "the Lean loop run on the findEndVertex trace read through the hook; structure judged exactly; every dropped vertex's distance to its covering "
                "segment measured in Go. c20snapc / c20snapi: levels 0..30 (and NewCellIDSnapper()) / exponents 0..10 on cell corners (exact and nudged inwards "
                "by 1e-16..1e-3), cell edge midpoints, half-way points of the integer grid, near-pole / antimeridian points, axis points: the result is recomputed "
                "bit-exactly (cell centre) resp. against the grid site recomputed from integer coordinates; |p-q|^2 compared exactly with the declared radius. "
                "c20snapi additionally compares the stages of the repaired SnapPoint (degrees, math.Round, k*(1/10^e), *Degree) bit-exactly with the model "
                "(snapDegreeCoord) and q bit-exactly with PointFromLatLng of the modelled angles. c20rad: all 31 levels / 11 exponents: radius formula bit-exact, "
                "inverse functions. c20scaled: the tessellator's threshold (hook) enclosed by Taylor bounds of sin at the bit-exact argument scaleFactor*max(tol,1e-13). "
                "non-trivial = a c20tess line whose chain has >= 3 vertices, a c20subs line with >= 3 vertices, any c20snap*/c20projrt line; distinct = distinct (op, arguments)",
        "nontrivial": lambda l: (l.startswith("c20tess") and l.split(" = ", 1)[-1].split(" ", 1)[0] not in ("1", "2"))
                                or (l.startswith("c20subs") and l.split(" ")[2].count(",") >= 2)
                                or l.startswith("c20snap") or l.startswith("c20projrt"),
        "trusted_base": [
            "the distances that are compared with the tolerances (c20tess maxdev, c20subs maxdrop) are MEASURED by the Go harness in float64 by dense "
            "sampling (s2.DistanceFromSegment, ChordAngleBetweenPoints, the projection's own Unproject); the oracle only compares them exactly, with the "
            "stated slack tol*2^-20 + 2^-50",
            "integer lat-lng grid membership uses Go's libm (PointFromLatLng of the rounded integer coordinates); cell-centre membership and all snap "
            "distances are decided exactly in the oracle",
            "libm is not modelled: IntLatLngSnapper.SnapPoint, exponentForMaxSnapRadius, Project / Unproject and findEndVertex's trigonometry are judged, not modelled",
            "export hooks s2/verif_export_c20.go (build tag verif): findEndVertex, tessellator threshold / estimate, the four unexported snap-radius functions",
            "c20snapi ties IntLatLngSnapper.SnapPoint to the model through a restatement of its stages with the public API in the harness (LatLngFromPoint, "
            "Angle.Degrees, math.Round, LatLngFromDegrees, PointFromLatLng); q must equal the restated site bit for bit",
        ],
        "assumptions": [
            "tessellator inputs: unit-length points, edges shorter than 179.9 deg, Mercator latitudes <= 85 deg (89 deg for tolerances >= 1e-7) — the library documents "
            "that Mercator does not work at the poles, and its recursion has no depth bound (the model uses fuel)",
            "SubsampleVertices theorems assume the findEndVertex contract (index < result <= last), which is proved for the control-flow model and checked on "
            "every generated case through the hook",
            "polylines have no antipodal neighbours; no NaN coordinates",
        ],
        "partial": ["all tolerance claims are judged, not proved: SubsampleWithinTolerance, TessellatorEstimateSound, SnapCellIDWithinRadius are `def ... : Prop`; "
                    "AppendProjected_within_partial / AppendUnprojected_within_partial are Thm(hyp) under ONLY the abstract soundness of the error test (+ monotonicity "
                    "of 'within' under halving an edge); continuity of the emitted planar chain is a theorem (projectedSegs_planar)"],
        "level_text": "proof (Lean 4): 42 theorems — SubsampleVertices loop over an abstract findEndVertex (first index, strictly increasing, in range, last vertex "
                      "kept in value, no equal neighbours, fuel sufficiency), findEndVertex control flow meets the contract, tessellator bisection over an abstract "
                      "projection (endpoints, every leaf passed the test, sphere AND planar continuity of the emitted chains, tolerance of every emitted segment under "
                      "the soundness hypothesis of the estimator), scaled threshold of the repaired constructor, snap-radius inverse functions for all levels and the "
                      "default snapper (bit-exact soft-float), math.Round nearest-integer property of the integer lat-lng grid",
        "level_note": "partial: every numeric tolerance is judged by the oracle only. Fixed findings: D15 (scale factor), D44 (NewCellIDSnapper radius 0, "
                      "IntLatLngSnapper radian grid / int32), D45 (pole-crossing edges: chain jumped by a whole period). No open finding: the former "
                      "'tess-tolerance-coarse' report was a measurement error of the harness (half-period tie), corrected",
    },
})

# ---------------------------------------------------------------------------------------------------------------------
# Session-3 updates.  The texts above were written when the respective statements were hypotheses; where a later package
# proved (or refuted and repaired) them, the FIRST trusted_base entry of the property says so — it supersedes any
# older sentence below it that still calls the statement "assumed" / "not proved".
_S3 = {
 "C01": "UPDATE: the float margin of Cell.ContainsPoint (after repair D46) and the float cross-face wrap are PROVED (C12_Margin.lean, C01_Wrap.lean); AllNeighbors completeness is proved for every valid cell incl. face edges and cube corners (C01_NeighborsComplete.lean): no open item.",
 "C02": "UPDATE: sos_global is proved (C02_Global / C02_Chirotope); the triage / stable / dot-product error constants are proved (C02_TriageError, C02_StableError, C02_DotProdError); the distance cascade is proved exact on Normalize outputs after repair D54 (C02_DistanceExact: compareDistances_exact, compareDistance_exact for 0 <= r2 <= 4).",
 "C03": "UPDATE: FloatSound is no longer a hypothesis: after repair D48 FullExactness is a THEOREM for all unit-ish finite points incl. +-0 coordinates (C03_FloatSound, C03_AllZeros: fullExactness); SignLaws are theorems of C02.",
 "C04": "UPDATE: ParityCocycle is a THEOREM for the exact geometry incl. shared vertices and +-0 twins (C04_Cocycle, C04_AllZeros); constructor / rotation / reversal theorems for all valid loops and parity theorems for tilings (C04_Tiling); CellLoopsTile 'exactly once' still needs the convexity fact count <= 2.",
 "C05": "UPDATE: for CAP regions Cap.IntersectsCell / ContainsCell are modelled bit-exactly (S2.CapCell, compared on every pred cap line), the exact algorithm is proved an iff, float soundness with slack 2^-44 is proved (final fall-through under CenterClear), coverings of caps end to end given the bound (C05_Cap); defect D59 found by this proof and repaired; D56 (Rect.IntersectsCell) repaired.",
 "C06": "UPDATE: the index construction is modelled bit-exactly and regenerated; I1 of the built index is PROVED for real uv geometry from the float error analysis of the clipping (C06_ClipFloat: build_I1_float, only FaceEdgesOK left); I3 and 'queries on the built index = brute force' under three named statements of exact geometry (C06_BuildI3), for cells with -0 coordinates too (C06_AllZeros); face clipping: FaceEdgesOK proved except the re-projection branch of clipDestination, spherical I1 for points and same-face edges (C06_FaceClip).",
 "C07": "UPDATE: the two-index walk is modelled and regenerated; its raw boolean = exact crossing or wedge witness or centre shortcut (C07_WalkSound: walk_hasCrossingRelation_eq_exact); compareBoundary walk = exact relation in full; contains / intersects under the single necessary hypothesis CenterSound.",
 "C08": "UPDATE: for a point target the search theorems hold with NO abstract WorldOK at an explicit slack 2^-44 (C08_World: point_single, point_multi, point_multi_vs_bruteforce), from C12 distance_lower_bound, the C17 edge contract and I1; WorldOK / CellLB as first stated are FALSE of the real code (clipped far edges; limit-dependent edge value) and were replaced by the true SlackWorld; RegionsNested proved; x - e <= x is false for ChordAngle.Sub in general and proved for MaxError 0, +Inf, >= 2^-400 (C08_World2).",
 "C12": "UPDATE: the ContainsPoint margin is proved (C12_Margin, after repair D46); point-target Distance lower bound 2^-45, MaxDistance upper bound 2^-44 and ATTAINED (all branches, no proviso, after repair D58) are proved for all valid cells and unit-ish points (C12_Distance); BoundaryDistance, DistanceToEdge, DistanceToCell lower bounds / attained on the new bit-exact model CellEdgeM (C12_Distance2); Cell.CapBound modelled bit-exactly and proved to contain the exact cell (C12_CapBound); the judge's assumption 'the minimum between an arc and a convex quadrilateral is attained at a vertex' is now a theorem.",
 "C15": "UPDATE: decoded values are PROVED safe to query through the Shape accessors and to re-encode (C15_Usable: decodePolygon_usable, reencode_succeeds).",
 "C17": "UPDATE: vertex / interior / prefilter error bounds are PROVED on UnitPt / EdgeOK, two-sided under the wedge margin (C17_Error); edge-pair minimum and max-through-antipode proved in exact geometry, edge pairs two-sided for every exit, Project under ProjMargin, EdgePairClosestPoints both branches (C17_Pairs, C17_PairsFloat, C17_Pairs2); known finding D57: MaxPointError is not a bound for all Normalize outputs.",
}
for _k, _t in _S3.items():
    PROPS[_k]["trusted_base"] = [_t] + list(PROPS[_k].get("trusted_base", []))
