"""Per-property configuration of ./check (generators, evidence text)."""

def _op_in(*ops):
    s = set(ops)
    return lambda line: line.split(" ", 1)[0] in s

PROPS = {
    "C01": {
        "generators": [("f64", 3000, 60000), ("c01", 4000, 120000)],
        "modules": ["S2.CellID", "S2.Hilbert", "S2.STUV", "S2.F64"],
        "rule": "cell ids: exhaustive levels 0-3 (thorough 0-5) plus structured random cells of every level whose (i,j) is drawn "
                "from {0, max, within 4 of a face edge, on/next to coarse grid lines, uniform}; every op line (id + arguments) is hashed; "
                "non-trivial = any op other than the f64 soft-float self-validation; distinct = distinct (op, arguments)",
        "nontrivial": lambda l: not l.startswith("f64"),
        "trusted_base": ["modelled, not proved: float error margin in Cell.ContainsPoint and the float cross-face wrap "
                         "(cellIDFromFaceIJWrap) — both are modelled bit-exactly in the soft-float and compared on every generated input"],
        "assumptions": ["VertexNeighbors is called with level < cell level (C++ contract)"],
    },
    "C11": {
        "generators": [("c11", 6000, 200000)],
        "modules": ["S2.CellID", "S2.CellUnion"],
        "rule": "adversarial multisets of valid cell ids (duplicates, complete / incomplete sibling groups, cascades over several "
                "levels, nested cells, whole faces, curve neighbours), pairs derived from one another; non-trivial = union has at "
                "least 2 cells; distinct = distinct (op, arguments)",
        "nontrivial": lambda l: "," in l.split(" = ")[0],
        "trusted_base": [],
        "assumptions": ["binary operations are given normalized unions, as the library documents"],
    },
}
