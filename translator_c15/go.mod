module translator_c15

go 1.21
